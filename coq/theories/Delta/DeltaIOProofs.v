(** C01, ignore_order clause: on lists of distinct scalars, t1 + Delta(DeepDiff(t1, t2,
    ignore_order=True, report_repetition=True)) is a permutation of t2, for every pairing oracle. *)
From Coq Require Import List ZArith NArith Bool Arith Lia Permutation.
Import ListNotations.
From DD Require Import Base.PyStr Base.Value Base.ValueFacts Path.PathModel Diff.Tree Diff.DiffModel
  Diff.DiffFacts Diff.DiffFaithful Hash.HashModel DiffIO.DiffIOModel
  Delta.DeltaModel Delta.DeltaFacts Delta.DeltaStruct Delta.DeltaRun Delta.DeltaGuard Delta.DeltaGood Delta.DeltaSeq
  Delta.DeltaSets Delta.DeltaSeqNodes Delta.DeltaOpcodes Delta.DeltaSingle Delta.DeltaLeaves Delta.DeltaIO.

Definition nosk (_ : path) : bool := false.

(* ---- hash lists without repetition ---- *)
Lemma mem_h_In h l : mem_h h l = true <-> In h l.
Proof.
  unfold mem_h. rewrite existsb_exists. split.
  - intros (x & Hx & E). apply pystr_eqb_eq in E. subst. exact Hx.
  - intros Hin. exists h. split; [exact Hin|apply pystr_eqb_refl].
Qed.
Lemma mem_h_false h l : mem_h h l = false <-> ~ In h l.
Proof.
  split.
  - intros E Hin. apply mem_h_In in Hin. congruence.
  - intros N. destruct (mem_h h l) eqn:E; [|reflexivity]. apply mem_h_In in E. contradiction.
Qed.

Lemma pystr_eqb_neq a b : a <> b -> pystr_eqb a b = false.
Proof. intros N. destruct (pystr_eqb a b) eqn:E; [apply pystr_eqb_eq in E; contradiction|reflexivity]. Qed.

Lemma filter_all_io {A} (f : A -> bool) l : (forall x, In x l -> f x = true) -> filter f l = l.
Proof.
  induction l as [|x l IH]; cbn; intros H; [reflexivity|].
  rewrite (H x (or_introl eq_refl)). f_equal. apply IH. intros y Hy. apply H. right. exact Hy.
Qed.

Lemma dedup_nodup l : NoDup l -> dedup l = l.
Proof.
  induction 1 as [|x l Hx ND IH]; cbn; [reflexivity|]. rewrite IH. f_equal.
  apply filter_all_io. intros y Hy. apply negb_true_iff. apply pystr_eqb_neq. intros ->. contradiction.
Qed.

Lemma indexes_of_single l : forall i k h, NoDup l -> nth_error l k = Some h -> indexes_of h l i = [i + k].
Proof.
  induction l as [|x l IH]; intros i k h ND Hk; [destruct k; discriminate|].
  inversion ND as [|? ? Nx ND']; subst. destruct k as [|k]; cbn in Hk |- *.
  - inversion Hk; subst. rewrite pystr_eqb_refl. rewrite Nat.add_0_r. cbn. f_equal.
    assert (Z : forall j, indexes_of h l j = []).
    { clear -Nx. induction l as [|y l IH]; intros j; cbn; [reflexivity|].
      rewrite pystr_eqb_neq by (intros ->; apply Nx; left; reflexivity). cbn. apply IH. intros Hin. apply Nx. right. exact Hin. }
    apply Z.
  - rewrite pystr_eqb_neq by (intros ->; apply Nx; eapply nth_error_In; exact Hk). cbn.
    rewrite (IH (S i) k h ND' Hk). f_equal. lia.
Qed.

Lemma NoDup_map_in {A B} (f : A -> B) l : (forall a b, In a l -> In b l -> f a = f b -> a = b) -> NoDup l -> NoDup (map f l).
Proof.
  intros Hi ND. induction ND as [|x l Hx ND IH]; cbn; constructor.
  - intros Hin. apply in_map_iff in Hin as (y & E & Hy). assert (y = x) by (apply Hi; [right; exact Hy|left; reflexivity|exact E]). subst. contradiction.
  - apply IH. intros a b Ha Hb. apply Hi; right; assumption.
Qed.

Definition addsel (e : entry) : list (nat * value) :=
  match ekind e with KIterAdd => [(last_idx (ep1 e), match et2 e with Some v => v | None => oval (et1 e) end)] | _ => [] end.
Definition remsel (e : entry) : list (nat * value) :=
  match ekind e with KIterRem => [(last_idx (ep1 e), match et2 e with Some v => v | None => oval (et1 e) end)] | _ => [] end.


Section IOList.
Variable H : pystr -> pystr.
Variable udiff : pystr -> pystr -> pystr.
Variable c : cfg.
Variable pairs : path -> list (nat * nat).
Variables X Y : list atom.
Notation h := (hatom_io H c true).
Notation dio := (diff_io H udiff nos nos c true pairs).
Hypothesis Hinj : forall a b, In a (X ++ Y) -> In b (X ++ Y) -> h a = h b -> a = b.
Hypothesis NX : NoDup X.
Hypothesis NY : NoDup Y.

Definition xs : list value := map VAtom X.
Definition ys : list value := map VAtom Y.
Definition hx : list pystr := map h X.
Definition hy : list pystr := map h Y.

Lemma h1_eq : h1 H c true xs = hx.
Proof. unfold h1, xs, hx. rewrite map_map. reflexivity. Qed.
Lemma h2_eq : h2 H c true ys = hy.
Proof. unfold h2, ys, hy. rewrite map_map. reflexivity. Qed.

Lemma hx_nodup : NoDup hx.
Proof. apply NoDup_map_in; [|exact NX]. intros a b Ha Hb. apply Hinj; apply in_or_app; left; assumption. Qed.
Lemma hy_nodup : NoDup hy.
Proof. apply NoDup_map_in; [|exact NY]. intros a b Ha Hb. apply Hinj; apply in_or_app; right; assumption. Qed.

Definition recs : list rec_fn := map dio xs.

Lemma nth_rec_at i x : nth_error X i = Some x -> nth_rec recs i = dio (VAtom x).
Proof.
  intros Hi. unfold nth_rec, recs, xs. rewrite map_map.
  apply (nth_error_nth (map (fun a => dio (VAtom a)) X) i (fun _ _ _ => ([], []))).
  rewrite nth_error_map, Hi. reflexivity.
Qed.

(* the level of a pair of two different atoms: exactly one values_changed / type_changes entry *)
Lemma dio_atoms x y p1 p2 : x <> y ->
  exists k d, (k = KValue \/ k = KType) /\ dio (VAtom x) (VAtom y) p1 p2 = ([mkEntry k p1 p2 (Some (VAtom x)) (Some (VAtom y)) d], []).
Proof.
  intros N. cbn [diff_io nos type_of]. destruct (ty_eqb (atom_ty x) (atom_ty y)) eqn:T; cbn [negb].
  - destruct (diff_atom_shape udiff x y p1 p2) as [E|(k & d & Hk & E)].
    + apply diff_atom_nil in E. contradiction.
    + exists k, d. rewrite E. auto.
  - exists KType, None. auto.
Qed.

Inductive LoopR : list pystr -> list pystr -> list entry -> list pystr -> Prop :=
| LR_nil rem : LoopR [] rem [] rem
| LR_add a adds rem es rem' j y :
    nth_error Y j = Some y -> h y = a -> LoopR adds rem es rem' ->
    LoopR (a :: adds) rem (mkEntry KIterAdd [PIdx j] [PIdx j] None (Some (VAtom y)) None :: es) rem'
| LR_pair a adds rem es rem' j y i x k d :
    nth_error Y j = Some y -> h y = a -> nth_error X i = Some x -> In (h x) rem -> (k = KValue \/ k = KType) ->
    LoopR adds (remove_h (h x) rem) es rem' ->
    LoopR (a :: adds) rem (mkEntry k [PIdx i] [PIdx j] (Some (VAtom x)) (Some (VAtom y)) d :: es) rem'.

Lemma loop_spec adds : forall rem,
  (forall a, In a adds -> exists j y, nth_error Y j = Some y /\ h y = a /\ ~ In a hx) ->
  exists es rem', added_loop (added_one_rep H nos c true pairs recs xs ys [] []) adds rem = ((es, []), rem') /\ LoopR adds rem es rem'.
Proof.
  induction adds as [|a adds IH]; intros rem HA.
  - exists [], rem. split; [reflexivity|constructor].
  - destruct (HA a (or_introl eq_refl)) as (j & y & Hj & Ha & Nax).
    assert (HA' : forall a0, In a0 adds -> exists j0 y0, nth_error Y j0 = Some y0 /\ h y0 = a0 /\ ~ In a0 hx) by (intros a0 H0; apply HA; right; exact H0).
    assert (Hjh : nth_error hy j = Some a) by (unfold hy; rewrite nth_error_map, Hj; cbn; rewrite Ha; reflexivity).
    cbn [added_loop]. unfold added_one_rep at 1. rewrite h2_eq, h1_eq.
    rewrite (indexes_of_single hy 0 j a hy_nodup Hjh). cbn [first_of hd Nat.add].
    unfold partner. rewrite h2_eq, h1_eq.
    destruct (find (fun ji => pystr_eqb (nth (fst ji) hy []) a) (pairs [])) as [[j' i']|] eqn:F.
    2:{ cbn [flat_map app]. destruct (IH rem HA') as (es & rem' & E & L). rewrite E.
        unfold item2, ys. rewrite nth_error_map, Hj. cbn [option_map rpt report nos app2 fst snd app].
        exists (mkEntry KIterAdd [PIdx j] [PIdx j] None (Some (VAtom y)) None :: es), rem'. split; [reflexivity|].
        eapply LR_add; eassumption. }
    cbn [snd]. destruct (nth_error hx i') as [r|] eqn:Hr.
    2:{ cbn [flat_map app]. destruct (IH rem HA') as (es & rem' & E & L). rewrite E.
        unfold item2, ys. rewrite nth_error_map, Hj. cbn [option_map rpt report nos app2 fst snd app].
        exists (mkEntry KIterAdd [PIdx j] [PIdx j] None (Some (VAtom y)) None :: es), rem'. split; [reflexivity|].
        eapply LR_add; eassumption. }
    destruct (mem_h r rem) eqn:M.
    2:{ cbn [flat_map app]. destruct (IH rem HA') as (es & rem' & E & L). rewrite E.
        unfold item2, ys. rewrite nth_error_map, Hj. cbn [option_map rpt report nos app2 fst snd app].
        exists (mkEntry KIterAdd [PIdx j] [PIdx j] None (Some (VAtom y)) None :: es), rem'. split; [reflexivity|].
        eapply LR_add; eassumption. }
    apply mem_h_In in M.
    unfold hx in Hr. rewrite nth_error_map in Hr. destruct (nth_error X i') as [x|] eqn:Hx; [|discriminate]. cbn in Hr. inversion Hr; subst r.
    assert (Hxh : nth_error hx i' = Some (h x)) by (unfold hx; rewrite nth_error_map, Hx; reflexivity).
    rewrite (indexes_of_single hx 0 i' (h x) hx_nodup Hxh). cbn [first_of hd Nat.add length Nat.eqb fold_right].
    unfold item2, ys. rewrite nth_error_map, Hj. cbn [option_map].
    rewrite (nth_rec_at i' x Hx).
    assert (Nxy : x <> y).
    { intros ->. apply Nax. rewrite <- Ha. unfold hx. apply in_map. eapply nth_error_In. exact Hx. }
    destruct (dio_atoms x y (snoc [] (PIdx i')) (snoc [] (PIdx j)) Nxy) as (k & d & Hk & Ed). rewrite Ed.
    destruct (IH (remove_h (h x) rem) HA') as (es & rem' & E & L). fold ys. rewrite E.
    cbn [app2 fst snd app snoc].
    exists (mkEntry k [PIdx i'] [PIdx j] (Some (VAtom x)) (Some (VAtom y)) d :: es), rem'. split; [reflexivity|].
    eapply LR_pair; eassumption.
Qed.


(* ---- what the loop produced ---- *)
Definition newh (e : entry) : pystr := match et2 e with Some (VAtom y) => h y | _ => [] end.
Definition oldh (e : entry) : pystr := match et1 e with Some (VAtom x) => h x | _ => [] end.
Definition phs (es : list entry) : list pystr := map oldh (filter kvt es).

Definition isPair (e : entry) (i : nat) (x y : atom) : Prop :=
  (ekind e = KValue \/ ekind e = KType) /\ ep1 e = [PIdx i] /\ et1 e = Some (VAtom x) /\ et2 e = Some (VAtom y) /\
  nth_error X i = Some x /\ In y Y.
Definition isAdd (e : entry) (j : nat) (y : atom) : Prop :=
  ekind e = KIterAdd /\ ep1 e = [PIdx j] /\ et1 e = None /\ et2 e = Some (VAtom y) /\ nth_error Y j = Some y.

Lemma remove_h_In r r' l : In r' (remove_h r l) <-> In r' l /\ r' <> r.
Proof.
  unfold remove_h. rewrite filter_In. split; intros [A B]; split; try exact A.
  - intros ->. rewrite pystr_eqb_refl in B. discriminate.
  - apply negb_true_iff. apply pystr_eqb_neq. congruence.
Qed.
Lemma remove_h_nodup r l : NoDup l -> NoDup (remove_h r l).
Proof. apply NoDup_filter. Qed.

Lemma LoopR_facts adds rem es rem' : LoopR adds rem es rem' -> NoDup adds -> NoDup rem ->
  Forall (fun e => (exists i x y, isPair e i x y /\ In (h x) rem /\ ~ In (h x) rem' /\ In (h y) adds) \/
                   (exists j y, isAdd e j y /\ In (h y) adds)) es /\
  map newh es = adds /\
  NoDup (phs es) /\ NoDup rem' /\ incl rem' rem /\ (forall r, In r rem -> In r rem' \/ In r (phs es)) /\
  (forall r, In r rem' -> ~ In r (phs es)).
Proof.
  induction 1 as [rem|a adds rem es rem' j y Hj Ha L IH|a adds rem es rem' j y i x k d Hj Ha Hi Hr Hk L IH]; intros NA NR.
  - split; [constructor|]. split; [reflexivity|]. split; [constructor|]. split; [exact NR|]. split; [apply incl_refl|].
    split; [intros r Hr; left; exact Hr|intros r _ []].
  - inversion NA as [|? ? Na NA']; subst. destruct (IH NA' NR) as (F & M & P & N' & I & C & D0).
    split; [|split; [|split; [|split; [|split; [|split]]]]]; try assumption.
    + constructor.
      * right. exists j, y. split; [|left; reflexivity]. unfold isAdd. cbn. auto.
      * eapply Forall_impl; [|exact F]. intros e [(i0 & x0 & y0 & A & B & C0 & D1)|(j0 & y0 & A & B)]; [left|right].
        -- exists i0, x0, y0. split; [exact A|]. split; [exact B|]. split; [exact C0|right; exact D1].
        -- exists j0, y0. split; [exact A|right; exact B].
    + cbn [map]. rewrite M. reflexivity.
  - inversion NA as [|? ? Na NA']; subst.
    destruct (IH NA' (remove_h_nodup (h x) rem NR)) as (F & M & P & N' & I & C & D0).
    assert (Nx' : ~ In (h x) rem').
    { intros Hin. apply I in Hin. apply remove_h_In in Hin as [_ Hin]. congruence. }
    assert (Nxp : ~ In (h x) (phs es)).
    { intros Hin. unfold phs in Hin. apply in_map_iff in Hin as (e & E0 & He). apply filter_In in He as [He Kv].
      eapply Forall_forall in F; [|exact He]. destruct F as [(i0 & x0 & y0 & (A1 & A2 & A3 & A4 & A5 & A6) & B & _)|(j0 & y0 & (A1 & _) & _)].
      - unfold oldh in E0. rewrite A3 in E0. rewrite E0 in B. apply remove_h_In in B as [_ B]. congruence.
      - unfold kvt in Kv. rewrite A1 in Kv. discriminate. }
    assert (Kv : kvt (mkEntry k [PIdx i] [PIdx j] (Some (VAtom x)) (Some (VAtom y)) d) = true) by (unfold kvt; destruct Hk as [-> | ->]; reflexivity).
    split; [|split; [|split; [|split; [|split; [|split]]]]].
    + constructor.
      * left. exists i, x, y. split; [|split; [exact Hr|split; [exact Nx'|left; reflexivity]]].
        repeat split; try assumption; try reflexivity. eapply nth_error_In. exact Hj.
      * eapply Forall_impl; [|exact F]. intros e [(i0 & x0 & y0 & A & B & C0 & D1)|(j0 & y0 & A & B)]; [left|right].
        -- exists i0, x0, y0. split; [exact A|]. split; [apply remove_h_In in B as [B _]; exact B|]. split; [exact C0|right; exact D1].
        -- exists j0, y0. split; [exact A|right; exact B].
    + cbn [map]. rewrite M. reflexivity.
    + unfold phs. cbn [filter]. rewrite Kv. cbn [map]. constructor; [exact Nxp|exact P].
    + exact N'.
    + intros r Hr'. apply I in Hr'. apply remove_h_In in Hr' as [Hr' _]. exact Hr'.
    + intros r Hr'. unfold phs. cbn [filter]. rewrite Kv. cbn [map]. destruct (pystr_eqb r (h x)) eqn:E0.
      * apply pystr_eqb_eq in E0. subst r. right. left. reflexivity.
      * assert (In r (remove_h (h x) rem)) by (apply remove_h_In; split; [exact Hr'|intros ->; rewrite pystr_eqb_refl in E0; discriminate]).
        destruct (C r H0) as [A|A]; [left; exact A|right; right; exact A].
    + intros r Hr' Hin. unfold phs in Hin. cbn [filter] in Hin. rewrite Kv in Hin. cbn [map] in Hin. destruct Hin as [E0|Hin].
      * unfold oldh in E0. cbn in E0. subst r. contradiction.
      * apply (D0 r Hr' Hin).
Qed.


(* ---- the whole level ---- *)
Definition hadd : list pystr := filter (fun a => negb (mem_h a hx)) hy.
Definition hrem : list pystr := filter (fun r => negb (mem_h r hy)) hx.
Definition remE (ix : nat * atom) : entry :=
  mkEntry KIterRem [PIdx (fst ix)] [PIdx (fst ix)] (Some (VAtom (snd ix))) None None.

Lemma hx_at r : In r hx -> exists i x, nth_error X i = Some x /\ h x = r.
Proof.
  intros Hin. unfold hx in Hin. apply in_map_iff in Hin as (x & E & Hx). apply In_nth_error in Hx as (i & Hi). exists i, x. auto.
Qed.
Lemma hy_at a : In a hy -> exists j y, nth_error Y j = Some y /\ h y = a.
Proof.
  intros Hin. unfold hy in Hin. apply in_map_iff in Hin as (y & E & Hy). apply In_nth_error in Hy as (j & Hj). exists j, y. auto.
Qed.

Lemma removed_entries rem' : (forall r, In r rem' -> In r hx) ->
  exists rs, map (fun ix => h (snd ix)) rs = rem' /\ (forall ix, In ix rs -> nth_error X (fst ix) = Some (snd ix)) /\
    concat_res (map (removed_one_rep H nos c true xs [] []) rem') = (map remE rs, []).
Proof.
  induction rem' as [|r rem' IH]; intros Hin.
  - exists []. repeat split. intros ix [].
  - destruct (IH (fun r0 H0 => Hin r0 (or_intror H0))) as (rs & E & N & C).
    destruct (hx_at r (Hin r (or_introl eq_refl))) as (i & x & Hi & Hr).
    assert (Hxh : nth_error hx i = Some r) by (unfold hx; rewrite nth_error_map, Hi; cbn; rewrite Hr; reflexivity).
    exists ((i, x) :: rs). split; [cbn; rewrite Hr, E; reflexivity|]. split.
    + intros ix [<-|Hix]; [exact Hi|apply N; exact Hix].
    + cbn [map concat_res fold_right]. fold (concat_res (map (removed_one_rep H nos c true xs [] []) rem')). rewrite C.
      unfold removed_one_rep. rewrite h1_eq. rewrite (indexes_of_single hx 0 i r hx_nodup Hxh). cbn [Nat.add flat_map first_of hd app].
      unfold item1, xs. rewrite nth_error_map, Hi. reflexivity.
Qed.

Lemma concat_res_nil' {A} (f : A -> res) l : (forall x, In x l -> f x = ([], [])) -> concat_res (map f l) = ([], []).
Proof.
  induction l as [|x l IH]; intros Hf; [reflexivity|]. cbn. rewrite (Hf x (or_introl eq_refl)).
  fold (concat_res (map f l)). rewrite IH; [reflexivity|]. intros y Hy. apply Hf. right. exact Hy.
Qed.

Lemma io_flat_entries :
  exists es0 rem' rs, LoopR hadd hrem es0 rem' /\ map (fun ix => h (snd ix)) rs = rem' /\
    (forall ix, In ix rs -> nth_error X (fst ix) = Some (snd ix)) /\
    run_diff_io H udiff nos nos c true pairs (VList xs) (VList ys) = (es0 ++ map remE rs, []).
Proof.
  assert (HA : forall a, In a hadd -> exists j y, nth_error Y j = Some y /\ h y = a /\ ~ In a hx).
  { intros a Ha. apply filter_In in Ha as [Ha Hn]. apply negb_true_iff in Hn. apply mem_h_false in Hn.
    destruct (hy_at a Ha) as (j & y & Hj & Hy). exists j, y. auto. }
  destruct (loop_spec hadd hrem HA) as (es0 & rem' & E & L).
  assert (NA : NoDup hadd) by (apply NoDup_filter; exact hy_nodup).
  assert (NR : NoDup hrem) by (apply NoDup_filter; exact hx_nodup).
  destruct (LoopR_facts hadd hrem es0 rem' L NA NR) as (_ & _ & _ & _ & I & _ & _).
  destruct (removed_entries rem') as (rs & Ers & Nrs & Crs).
  { intros r Hr. apply I in Hr. apply filter_In in Hr as [Hr _]. exact Hr. }
  exists es0, rem', rs. split; [exact L|]. split; [exact Ers|]. split; [exact Nrs|].
  unfold run_diff_io. cbn [diff_io nos type_of ty_eqb negb].
  assert (RE : (fix go (l : list value) : list rec_fn := match l with [] => [] | x :: r => dio x :: go r end) xs = recs).
  { unfold recs. generalize xs. intros l. induction l as [|v l IHl]; cbn; [reflexivity|]. rewrite IHl. reflexivity. }
  rewrite RE. unfold iter_deephash, iter_rep.
  unfold hashes_added, hashes_removed, t1_hashes, t2_hashes. rewrite h1_eq, h2_eq.
  rewrite (dedup_nodup hx hx_nodup), (dedup_nodup hy hy_nodup). fold hadd. fold hrem. rewrite E. rewrite Crs.
  rewrite concat_res_nil'.
  - unfold app2. cbn [fst snd]. rewrite !app_nil_r. reflexivity.
  - intros h0 Hh0. apply filter_In in Hh0 as [Hy0 Hx0]. apply mem_h_In in Hx0.
    destruct (hx_at h0 Hx0) as (i & x & Hi & Hx). destruct (hy_at h0 Hy0) as (j & y & Hj & Hy).
    assert (Hxh : nth_error hx i = Some h0) by (unfold hx; rewrite nth_error_map, Hi; cbn; rewrite Hx; reflexivity).
    assert (Hyh : nth_error hy j = Some h0) by (unfold hy; rewrite nth_error_map, Hj; cbn; rewrite Hy; reflexivity).
    unfold repetition_one. rewrite h1_eq, h2_eq.
    rewrite (indexes_of_single hx 0 i h0 hx_nodup Hxh), (indexes_of_single hy 0 j h0 hy_nodup Hyh). reflexivity.
Qed.


(* ---- the facts the apply side needs, at the level of atoms and indexes ---- *)
Definition shape (e : entry) : Prop :=
  (exists i x y, isPair e i x y) \/ (exists j y, isAdd e j y) \/ (exists i x, e = remE (i, x) /\ nth_error X i = Some x).

Lemma NoDup_map_factor {A B C} (f : A -> C) (k : A -> B) l : (forall a b, In a l -> In b l -> k a = k b -> f a = f b) ->
  NoDup (map f l) -> NoDup (map k l).
Proof.
  intros Hf. induction l as [|a l IH]; cbn; intros ND; constructor; inversion ND as [|? ? Na ND']; subst.
  - intros Hin. apply in_map_iff in Hin as (b & E & Hb). apply Na. apply in_map_iff. exists b. split; [|exact Hb].
    apply Hf; [right; exact Hb|left; reflexivity|exact E].
  - apply IH; [|exact ND']. intros x y Hx Hy. apply Hf; right; assumption.
Qed.

Lemma nth_error_inj_nodup {A} (l : list A) i j x : NoDup l -> nth_error l i = Some x -> nth_error l j = Some x -> i = j.
Proof.
  intros ND Hi Hj. apply (proj1 (NoDup_nth_error l) ND); [apply nth_error_Some; congruence|congruence].
Qed.

Lemma filter_len_split {A} (f : A -> bool) l : length l = length (filter f l) + length (filter (fun x => negb (f x)) l).
Proof. induction l as [|x l IH]; cbn; [reflexivity|]. destruct (f x); cbn; lia. Qed.

Lemma common_len : length (filter (fun a => mem_h a hx) hy) = length (filter (fun r => mem_h r hy) hx).
Proof.
  apply Permutation_length. apply NoDup_Permutation.
  - apply NoDup_filter. exact hy_nodup.
  - apply NoDup_filter. exact hx_nodup.
  - intros a. rewrite !filter_In, !mem_h_In. tauto.
Qed.

Definition isaddk (e : entry) : bool := match ekind e with KIterAdd => true | _ => false end.

Lemma addsel_filter l : flat_map addsel l = map (fun e => (last_idx (ep1 e), match et2 e with Some v => v | None => oval (et1 e) end)) (filter isaddk l).
Proof. induction l as [|e l IH]; cbn; [reflexivity|]. unfold addsel at 1, isaddk at 1. destruct (ekind e); cbn; rewrite IH; reflexivity. Qed.

Lemma io_facts :
  exists es, run_diff_io H udiff nos nos c true pairs (VList xs) (VList ys) = (es, []) /\
    Forall shape es /\
    NoDup (map eidx (filter kvt es)) /\
    NoDup (map fst (flat_map addsel es)) /\ NoDup (map fst (flat_map remsel es)) /\
    (forall i, In i (map fst (flat_map remsel es)) -> ~ In i (map eidx (filter kvt es))) /\
    length Y + length (flat_map remsel es) = length X + length (flat_map addsel es) /\
    (forall y, In y Y -> In y X \/ exists e, In e es /\ (kvt e = true \/ ekind e = KIterAdd) /\ et2 e = Some (VAtom y)) /\
    (forall e x, In e es -> (kvt e = true \/ ekind e = KIterRem) -> et1 e = Some (VAtom x) -> ~ In x Y) /\
    (forall e y, In e es -> (kvt e = true \/ ekind e = KIterAdd) -> et2 e = Some (VAtom y) -> ~ In y X) /\
    (forall e1 e2, In e1 es -> In e2 es -> kvt e1 = true -> ekind e2 = KIterAdd -> et2 e1 <> et2 e2).
Proof.
  destruct io_flat_entries as (es0 & rem' & rs & L & Ers & Nrs & ER).
  assert (NA : NoDup hadd) by (apply NoDup_filter; exact hy_nodup).
  assert (NR : NoDup hrem) by (apply NoDup_filter; exact hx_nodup).
  destruct (LoopR_facts hadd hrem es0 rem' L NA NR) as (F & M & P & N' & I & C & D0).
  exists (es0 ++ map remE rs). split; [exact ER|].
  assert (NN : NoDup (map newh es0)) by (rewrite M; exact NA).
  assert (K0 : forall e, In e es0 -> (kvt e = true /\ isaddk e = false) \/ (ekind e = KIterAdd /\ kvt e = false)).
  { intros e He. eapply Forall_forall in F; [|exact He]. destruct F as [(i & x & y & (A1 & _) & _)|(j & y & (A1 & _) & _)].
    - left. unfold kvt, isaddk. destruct A1 as [-> | ->]; split; reflexivity.
    - right. unfold kvt. rewrite A1. split; reflexivity. }
  assert (FK : filter kvt (es0 ++ map remE rs) = filter kvt es0).
  { rewrite filter_app. rewrite (filter_nil kvt (map remE rs)); [apply app_nil_r|]. intros e He. apply in_map_iff in He as (ix & <- & _). reflexivity. }
  assert (FA : flat_map addsel (es0 ++ map remE rs) = flat_map addsel es0).
  { rewrite flat_map_app. rewrite (flat_map_nil_in addsel (map remE rs)); [apply app_nil_r|]. intros e He. apply in_map_iff in He as (ix & <- & _). reflexivity. }
  assert (FRm : flat_map remsel (es0 ++ map remE rs) = map (fun ix => (fst ix, VAtom (snd ix))) rs).
  { rewrite flat_map_app. rewrite (flat_map_nil_in remsel es0).
    - cbn [app]. clear. induction rs as [|ix rs IH]; cbn; [reflexivity|]. rewrite IH. reflexivity.
    - intros e He. unfold remsel. destruct (K0 e He) as [[Kv _]|[Ka _]]; [unfold kvt in Kv; destruct (ekind e); try discriminate; reflexivity|rewrite Ka; reflexivity]. }
  assert (OLD : forall e, In e es0 -> kvt e = true -> exists i x, eidx e = i /\ nth_error X i = Some x /\ et1 e = Some (VAtom x) /\ oldh e = h x /\ In (h x) hrem /\ ~ In (h x) rem').
  { intros e He Kv. eapply Forall_forall in F; [|exact He]. destruct F as [(i & x & y & (A1 & A2 & A3 & A4 & A5 & A6) & B1 & B2 & _)|(j & y & (A1 & _) & _)].
    - exists i, x. unfold eidx. rewrite A2. cbn. unfold oldh. rewrite A3. auto 10.
    - unfold kvt in Kv. rewrite A1 in Kv. discriminate. }
  assert (NEW : forall e, In e es0 -> exists y, et2 e = Some (VAtom y) /\ newh e = h y /\ In y Y /\ In (h y) hadd).
  { intros e He. eapply Forall_forall in F; [|exact He]. destruct F as [(i & x & y & (A1 & A2 & A3 & A4 & A5 & A6) & _ & _ & B3)|(j & y & (A1 & A2 & A3 & A4 & A5) & B3)].
    - exists y. unfold newh. rewrite A4. auto.
    - exists y. unfold newh. rewrite A4. repeat split; try assumption. eapply nth_error_In. exact A5. }
  assert (ADDJ : forall e, In e es0 -> isaddk e = true -> exists j y, last_idx (ep1 e) = j /\ nth_error Y j = Some y /\ et2 e = Some (VAtom y)).
  { intros e He Ka. eapply Forall_forall in F; [|exact He]. destruct F as [(i & x & y & (A1 & _) & _)|(j & y & (A1 & A2 & A3 & A4 & A5) & _)].
    - unfold isaddk in Ka. destruct A1 as [Z|Z]; rewrite Z in Ka; discriminate.
    - exists j, y. rewrite A2. cbn. auto. }
  assert (HREM : forall x, In x X -> In (h x) hrem -> ~ In x Y).
  { intros x Hx Hr Hy. apply filter_In in Hr as [_ Hr]. apply negb_true_iff in Hr. apply mem_h_false in Hr. apply Hr. unfold hy. apply in_map. exact Hy. }
  assert (HADD : forall y, In y Y -> In (h y) hadd -> ~ In y X).
  { intros y Hy Ha Hx. apply filter_In in Ha as [_ Ha]. apply negb_true_iff in Ha. apply mem_h_false in Ha. apply Ha. unfold hx. apply in_map. exact Hx. }
  assert (RSX : forall ix, In ix rs -> In (h (snd ix)) rem').
  { intros ix Hix. rewrite <- Ers. apply in_map_iff. exists ix. auto. }
  split; [|split; [|split; [|split; [|split; [|split; [|split; [|split; [|split]]]]]]]].
  - apply Forall_app. split.
    + eapply Forall_impl; [|exact F]. intros e [(i & x & y & A & _)|(j & y & A & _)]; [left; exists i, x, y; exact A|right; left; exists j, y; exact A].
    + apply Forall_forall. intros e He. apply in_map_iff in He as ([i x] & <- & Hix). right. right. exists i, x. split; [reflexivity|apply (Nrs _ Hix)].
  - rewrite FK. apply (NoDup_map_factor oldh eidx); [|exact P]. intros e1 e2 H1 H2 E0.
    apply filter_In in H1 as [H1 K1], H2 as [H2 K2].
    destruct (OLD e1 H1 K1) as (i1 & x1 & E1 & N1 & _ & O1 & _). destruct (OLD e2 H2 K2) as (i2 & x2 & E2 & N2 & _ & O2 & _).
    rewrite O1, O2. f_equal. congruence.
  - rewrite FA, addsel_filter, map_map. cbn [fst].
    apply (NoDup_map_factor newh (fun e => last_idx (ep1 e))); [|apply NoDup_map_filter; exact NN].
    intros e1 e2 H1 H2 E0. apply filter_In in H1 as [H1 K1], H2 as [H2 K2].
    destruct (ADDJ e1 H1 K1) as (j1 & y1 & E1 & N1 & T1). destruct (ADDJ e2 H2 K2) as (j2 & y2 & E2 & N2 & T2).
    unfold newh. rewrite T1, T2. f_equal. congruence.
  - rewrite FRm, map_map. cbn [fst]. apply (NoDup_map_factor (fun ix => h (snd ix)) fst); [|rewrite Ers; exact N'].
    intros a b Ha Hb E0. pose proof (Nrs a Ha) as Na. pose proof (Nrs b Hb) as Nb. f_equal. congruence.
  - intros i Hi Hp. rewrite FRm, map_map in Hi. cbn [fst] in Hi. apply in_map_iff in Hi as (ix & <- & Hix).
    rewrite FK in Hp. apply in_map_iff in Hp as (e & E0 & He). apply filter_In in He as [He Kv].
    destruct (OLD e He Kv) as (i1 & x1 & E1 & N1 & _ & O1 & _ & _).
    pose proof (Nrs ix Hix) as Nx. assert (x1 = snd ix) by congruence. subst x1.
    apply (D0 (h (snd ix)) (RSX ix Hix)). unfold phs. apply in_map_iff. exists e. split; [exact O1|apply filter_In; split; assumption].
  - (* counting *)
    rewrite FRm, FA, addsel_filter, !map_length.
    assert (LY : length Y = length hadd + length (filter (fun a => mem_h a hx) hy)).
    { rewrite <- (map_length h Y). fold hy. rewrite (filter_len_split (fun a => mem_h a hx) hy). unfold hadd. lia. }
    assert (LX : length X = length hrem + length (filter (fun r => mem_h r hy) hx)).
    { rewrite <- (map_length h X). fold hx. rewrite (filter_len_split (fun r => mem_h r hy) hx). unfold hrem. lia. }
    assert (LA : length hadd = length (filter kvt es0) + length (filter isaddk es0)).
    { rewrite <- M, map_length. rewrite (filter_len_split kvt es0). f_equal.
      f_equal. apply filter_ext_in. intros e He. destruct (K0 e He) as [[A B]|[A B]]; rewrite B; [rewrite A|unfold isaddk; rewrite A]; reflexivity. }
    assert (LR : length hrem = length rem' + length (filter kvt es0)).
    { rewrite <- (map_length oldh (filter kvt es0)). fold (phs es0). rewrite <- app_length. apply Permutation_length.
      apply NoDup_Permutation; [exact NR| |].
      - apply NoDup_app'; assumption.
      - intros r. rewrite in_app_iff. split; [apply C|]. intros [Hr|Hp]; [apply I; exact Hr|].
        unfold phs in Hp. apply in_map_iff in Hp as (e & E0 & He). apply filter_In in He as [He Kv].
        destruct (OLD e He Kv) as (i1 & x1 & _ & _ & _ & O1 & Hh & _). rewrite <- E0, O1. exact Hh. }
    assert (LS : length rs = length rem') by (rewrite <- Ers, map_length; reflexivity).
    pose proof common_len. lia.
  - intros y Hy. destruct (has_atom y X) eqn:HX; [left; apply has_atom_In; exact HX|right].
    assert (Nx : ~ In y X) by (apply has_atom_false; exact HX).
    assert (Ha : In (h y) hadd).
    { apply filter_In. split; [unfold hy; apply in_map; exact Hy|]. apply negb_true_iff. apply mem_h_false. intros Hin.
      unfold hx in Hin. apply in_map_iff in Hin as (x & E & Hx). apply Hinj in E; [subst; contradiction| |]; apply in_or_app; [left|right]; assumption. }
    rewrite <- M in Ha. apply in_map_iff in Ha as (e & E0 & He). destruct (NEW e He) as (y' & T & Nh & Hy' & _).
    assert (y' = y). { apply Hinj; [apply in_or_app; right; exact Hy'|apply in_or_app; right; exact Hy|congruence]. } subst y'.
    exists e. split; [apply in_or_app; left; exact He|]. split; [|exact T]. destruct (K0 e He) as [[A _]|[A _]]; auto.
  - intros e x He Hk T. apply in_app_or in He as [He|He].
    + destruct Hk as [Kv|Kr]; [|destruct (K0 e He) as [[A _]|[A _]]; [unfold kvt in A; rewrite Kr in A; discriminate|congruence]].
      destruct (OLD e He Kv) as (i1 & x1 & _ & N1 & T1 & _ & Hh & _). assert (x1 = x) by congruence. subst x1.
      apply HREM; [eapply nth_error_In; exact N1|exact Hh].
    + apply in_map_iff in He as (ix & <- & Hix). cbn in T. inversion T; subst x.
      apply HREM; [eapply nth_error_In; apply (Nrs ix Hix)|apply I; apply RSX; exact Hix].
  - intros e y He Hk T. apply in_app_or in He as [He|He].
    + destruct (NEW e He) as (y' & T' & _ & Hy' & Hh). assert (y' = y) by congruence. subst y'. apply HADD; assumption.
    + apply in_map_iff in He as (ix & <- & Hix). cbn in T. discriminate.
  - intros e1 e2 H1 H2 K1 K2 E0.
    assert (G1 : In e1 es0). { apply in_app_or in H1 as [H1|H1]; [exact H1|]. apply in_map_iff in H1 as (ix & <- & _). discriminate. }
    assert (G2 : In e2 es0). { apply in_app_or in H2 as [H2|H2]; [exact H2|]. apply in_map_iff in H2 as (ix & <- & _). discriminate. }
    assert (e1 = e2). { apply (NoDup_map_inj newh es0); try assumption. unfold newh. rewrite E0. reflexivity. }
    subst e2. unfold kvt in K1. rewrite K2 in K1. discriminate.
Qed.

End IOList.

(* ---- the rebuild of _do_ignore_order ---- *)
Lemma imap_get_del_other m i k : k <> i -> imap_get (imap_del m i) k = imap_get m k.
Proof.
  intros N. induction m as [|[j w] m IH]; cbn; [reflexivity|].
  destruct (Nat.eqb_spec j i) as [->|Nj].
  - destruct (Nat.eqb_spec i k); [congruence|reflexivity].
  - cbn. destruct (Nat.eqb j k); [reflexivity|exact IH].
Qed.

Lemma imap_get_In m i v : imap_get m i = Some v -> In (i, v) m.
Proof.
  induction m as [|[j w] m IH]; cbn; [discriminate|]. destruct (Nat.eqb_spec j i) as [->|N].
  - intros E; inversion E; left; reflexivity.
  - intros E. right. apply IH. exact E.
Qed.
Lemma imap_get_None m i : imap_get m i = None -> ~ In i (map fst m).
Proof.
  induction m as [|[j w] m IH]; cbn; [tauto|]. destruct (Nat.eqb_spec j i) as [->|N]; [discriminate|].
  intros E [E0|Hin]; [congruence|]. apply IH; assumption.
Qed.

Lemma imap_del_perm m i v : imap_get m i = Some v ->
  Permutation (map snd m) (v :: map snd (imap_del m i)) /\ length m = S (length (imap_del m i)) /\
  (forall k, In k (map fst (imap_del m i)) -> In k (map fst m)) /\
  (NoDup (map fst m) -> NoDup (map fst (imap_del m i)) /\ ~ In i (map fst (imap_del m i))).
Proof.
  induction m as [|[j w] m IH]; cbn; [discriminate|]. destruct (Nat.eqb_spec j i) as [->|N].
  - intros E; inversion E; subst. split; [apply Permutation_refl|]. split; [reflexivity|]. split; [intros k Hk; right; exact Hk|].
    intros ND. inversion ND; subst. split; assumption.
  - intros E. destruct (IH E) as (P & L & I1 & I2). cbn. split; [|split; [|split]].
    + eapply Permutation_trans; [apply perm_skip; exact P|apply perm_swap].
    + lia.
    + intros k [Hk|Hk]; [left; exact Hk|right; apply I1; exact Hk].
    + intros ND. inversion ND as [|? ? Nj ND']; subst. destruct (I2 ND') as [A B]. split.
      * constructor; [intros Hin; apply Nj; apply I1; exact Hin|exact A].
      * intros [E0|Hin]; [congruence|contradiction].
Qed.

Lemma pigeon_range (l : list nat) a : NoDup l -> (forall k, In k l -> a <= k < a + length l) -> l <> [] -> In a l.
Proof.
  intros ND HR NE. destruct (in_dec Nat.eq_dec a l) as [Hin|Nin]; [exact Hin|exfalso].
  assert (I : incl l (seq (S a) (length l - 1))).
  { intros k Hk. apply in_seq. destruct (HR k Hk). assert (k <> a) by (intros ->; contradiction). lia. }
  pose proof (NoDup_incl_length ND I) as L. rewrite seq_length in L. destruct l; [contradiction|cbn in L; lia].
Qed.

Definition keep_ix (remove : imap) (ix : nat * value) : bool :=
  match imap_get remove (fst ix) with Some _ => false | None => true end.
Definition surv (olds : list (nat * value)) (remove : imap) : list value := map snd (filter (keep_ix remove) olds).

Lemma surv_cons i x olds remove :
  surv ((i, x) :: olds) remove = match imap_get remove i with Some _ => surv olds remove | None => x :: surv olds remove end.
Proof. unfold surv. cbn [filter]. unfold keep_ix at 1. cbn [fst]. destruct (imap_get remove i); reflexivity. Qed.

Section Rebuild.
Variable H : pystr -> pystr.
Variable fv : list value.

Definition olds_ok (olds : list (nat * value)) (remove : imap) : Prop :=
  NoDup (map fst olds) /\
  forall i x, In (i, x) olds -> anyset_mem H x fv = false /\ (forall ex, imap_get remove i = Some ex -> py_eqv x ex = true).

Lemma gen_next_spec olds : forall remove, olds_ok olds remove ->
  (surv olds remove = [] /\ gen_next H olds remove fv = None) \/
  (exists x olds' remove', gen_next H olds remove fv = Some (x, olds', remove', 0) /\
     surv olds remove = x :: surv olds' remove' /\ length olds' < length olds /\ olds_ok olds' remove').
Proof.
  induction olds as [|[i x] olds IH]; intros remove [ND OK]; [left; split; reflexivity|].
  cbn [map fst] in ND. inversion ND as [|? ? Ni ND']; subst.
  destruct (OK i x (or_introl eq_refl)) as [Hm Hr]. cbn [gen_next]. rewrite Hm.
  assert (OK' : forall rm, (forall k, k <> i -> imap_get rm k = imap_get remove k) -> olds_ok olds rm).
  { intros rm Hrm. split; [exact ND'|]. intros k y Hy. destruct (OK k y (or_intror Hy)) as [A B]. split; [exact A|].
    intros ex E0. apply B. rewrite <- Hrm; [exact E0|]. intros ->. apply Ni. apply in_map_iff. exists (i, y). auto. }
  assert (SV : forall rm, (forall k, k <> i -> imap_get rm k = imap_get remove k) -> surv olds rm = surv olds remove).
  { intros rm Hrm. unfold surv. f_equal. apply filter_ext_in. intros [k y] Hy. unfold keep_ix. cbn [fst]. rewrite Hrm; [reflexivity|].
    intros ->. apply Ni. apply in_map_iff. exists (i, y). auto. }
  rewrite surv_cons.
  destruct (imap_get remove i) as [ex|] eqn:G.
  - rewrite (Hr ex eq_refl).
    destruct (IH (imap_del remove i) (OK' _ (fun k Hk => imap_get_del_other remove i k Hk))) as [[S0 G0]|(y & o' & r' & G0 & S0 & L0 & K0)].
    + left. rewrite G0. split; [|reflexivity]. rewrite <- (SV (imap_del remove i)); [exact S0|]. intros k Hk. apply imap_get_del_other. exact Hk.
    + right. exists y, o', r'. rewrite G0. split; [reflexivity|]. split; [|split; [cbn; lia|exact K0]].
      rewrite <- S0. symmetry. apply SV. intros k Hk. apply imap_get_del_other. exact Hk.
  - right. exists x, olds, remove. split; [reflexivity|]. split; [reflexivity|]. split; [cbn; lia|].
    apply OK'. reflexivity.
Qed.

Lemma io_loop_spec fuel : forall acc fixed olds remove there e,
  NoDup (map fst fixed) ->
  (there = true -> olds_ok olds remove) ->
  let S := if there then surv olds remove else [] in
  (forall k, In k (map fst fixed) -> length acc <= k < length acc + length S + length fixed) ->
  (if there then length olds + 1 else 0) + length fixed <= fuel ->
  exists zs, io_loop H fuel acc fixed olds remove fv there e = (acc ++ zs, e) /\ Permutation zs (S ++ map snd fixed).
Proof.
  induction fuel as [|fuel IH]; intros acc fixed olds remove there e ND OK S HR HF.
  - destruct there; [cbn in HF; lia|]. destruct fixed; [|cbn in HF; lia]. exists []. cbn. rewrite app_nil_r. split; [reflexivity|constructor].
  - cbn [io_loop].
    destruct (imap_get fixed (length acc)) as [v|] eqn:G.
    + (* a fixed index *)
      assert (TT : there || negb (match fixed with [] => true | _ => false end) = true).
      { destruct fixed; [discriminate G|]. apply orb_true_r. }
      rewrite TT. destruct (imap_del_perm fixed (length acc) v G) as (P & L & I1 & I2). destruct (I2 ND) as [ND' Nk].
      destruct (IH (acc ++ [v]) (imap_del fixed (length acc)) olds remove there e ND' OK) as (zs & E & PZ).
      * intros k Hk. rewrite app_length. cbn [length]. pose proof (HR k (I1 k Hk)) as R0. fold S.
        assert (k <> length acc) by (intros ->; contradiction). lia.
      * lia.
      * exists (v :: zs). rewrite E, <- app_assoc. split; [reflexivity|]. fold S in PZ.
        eapply Permutation_trans; [apply perm_skip; exact PZ|].
        eapply Permutation_trans; [apply Permutation_middle|]. apply Permutation_app_head. apply Permutation_sym. exact P.
    + apply imap_get_None in G. destruct there.
      * cbn [orb]. destruct (gen_next_spec olds remove (OK eq_refl)) as [[S0 G0]|(x & o' & r' & G0 & S0 & L0 & K0)]; rewrite G0.
        -- destruct (IH acc fixed [] remove false e ND (fun Z => ltac:(discriminate Z))) as (zs & E & PZ).
           ++ intros k Hk. pose proof (HR k Hk) as R0. unfold S in R0. rewrite S0 in R0. cbn in R0 |- *. lia.
           ++ cbn. lia.
           ++ exists zs. rewrite E. split; [reflexivity|]. unfold S. rewrite S0. exact PZ.
        -- destruct (IH (acc ++ [x]) fixed o' r' true e ND (fun _ => K0)) as (zs & E & PZ).
           ++ intros k Hk. rewrite app_length. cbn [length]. pose proof (HR k Hk) as R0. unfold S in R0. rewrite S0 in R0. cbn [length] in R0.
              assert (k <> length acc) by (intros ->; contradiction). lia.
           ++ cbn in HF |- *. lia.
           ++ rewrite Nat.add_0_r. exists (x :: zs). rewrite E, <- app_assoc. split; [reflexivity|]. unfold S. rewrite S0. cbn [app]. apply perm_skip. exact PZ.
      * cbn [orb]. destruct fixed as [|[j v] r].
        -- exists []. cbn. rewrite app_nil_r. split; [reflexivity|constructor].
        -- exfalso. apply G. apply (pigeon_range (map fst ((j, v) :: r)) (length acc) ND).
           ++ intros k Hk. pose proof (HR k Hk) as R0. cbn [length] in R0. rewrite map_length. cbn [length app] in R0 |- *. unfold S in R0. cbn in R0. lia.
           ++ discriminate.
Qed.

End Rebuild.

(* ---- index maps of the payload ---- *)
Lemma imap_set_new m i v : ~ In i (map fst m) -> imap_set m i v = m ++ [(i, v)].
Proof.
  induction m as [|[j w] m IH]; cbn; intros N; [reflexivity|].
  destruct (Nat.eqb_spec j i) as [->|Nj]; [exfalso; apply N; left; reflexivity|]. rewrite IH; [reflexivity|]. intros Hin. apply N. right. exact Hin.
Qed.

Lemma fold_pmap_root (sel : entry -> list (nat * value)) es :
  (forall e, In e es -> sel e <> [] -> npath (removelast (ep1 e)) = [] /\ exists iv, sel e = [iv]) ->
  forall m0, NoDup (map fst (m0 ++ flat_map sel es)) ->
  fold_left (fun acc e => match sel e with
                          | [iv] => pmap_set acc (npath (removelast (ep1 e))) (fst iv) (snd iv)
                          | _ => acc end) es (match m0 with [] => [] | _ => [([], m0)] end)
  = match m0 ++ flat_map sel es with [] => [] | m => [([], m)] end.
Proof.
  intros Hs. induction es as [|e es IH]; intros m0 ND; cbn [fold_left flat_map].
  - rewrite app_nil_r. destruct m0; reflexivity.
  - assert (Hs' : forall e0, In e0 es -> sel e0 <> [] -> npath (removelast (ep1 e0)) = [] /\ exists iv, sel e0 = [iv]) by (intros e0 H0; apply Hs; right; exact H0).
    cbn [flat_map] in ND. destruct (sel e) as [|iv l] eqn:Se.
    + cbn [app] in ND |- *. apply IH; assumption.
    + destruct (Hs e (or_introl eq_refl)) as [Hp (iv' & Eiv)]; [rewrite Se; discriminate|]. rewrite Se in Eiv. inversion Eiv; subst iv' l.
      rewrite Hp. cbn [app] in ND |- *.
      assert (Ni : ~ In (fst iv) (map fst m0)).
      { rewrite map_app in ND. cbn [map] in ND. apply NoDup_remove_2 in ND. intros Hin. apply ND. apply in_or_app. left. exact Hin. }
      assert (E1 : pmap_set (match m0 with [] => [] | _ => [([], m0)] end) [] (fst iv) (snd iv) = [([], m0 ++ [iv])]).
      { destruct m0 as [|a m0]; [destruct iv; reflexivity|]. cbn [pmap_set path_eqb]. rewrite imap_set_new by exact Ni. destruct iv; reflexivity. }
      rewrite E1. specialize (IH Hs' (m0 ++ [iv])).
      assert (ND2 : NoDup (map fst ((m0 ++ [iv]) ++ flat_map sel es))) by (rewrite <- app_assoc; exact ND).
      specialize (IH ND2). rewrite <- app_assoc in IH. cbn [app] in IH.
      destruct m0 as [|a m0]; cbn [app] in IH |- *; exact IH.
Qed.

(* ---- helpers for the apply side ---- *)
Lemma fold_left_ext' {A B} (f g : A -> B -> A) l : (forall a b, In b l -> f a b = g a b) -> forall a, fold_left f l a = fold_left g l a.
Proof.
  induction l as [|b l IH]; intros Hfg a; [reflexivity|]. cbn. rewrite (Hfg a b (or_introl eq_refl)). apply IH.
  intros a' b' Hb'. apply Hfg. right. exact Hb'.
Qed.
Lemma fold_left_id {A B} (f : A -> B -> A) l : (forall a b, In b l -> f a b = a) -> forall a, fold_left f l a = a.
Proof.
  induction l as [|b l IH]; intros Hf a; [reflexivity|]. cbn. rewrite (Hf a b (or_introl eq_refl)). apply IH.
  intros a' b' Hb'. apply Hf. right. exact Hb'.
Qed.

Lemma indexed_In {A} (l : list A) : forall k i x, In (i, x) (indexed l k) <-> k <= i /\ nth_error l (i - k) = Some x.
Proof.
  induction l as [|y l IH]; intros k i x; cbn.
  - split; [tauto|]. intros [_ H0]. destruct (i - k); discriminate.
  - rewrite IH. split.
    + intros [E|[H1 H2]]; [inversion E; subst; rewrite Nat.sub_diag; split; [lia|reflexivity]|].
      split; [lia|]. replace (i - k) with (S (i - S k)) by lia. exact H2.
    + intros [H1 H2]. destruct (Nat.eq_dec i k) as [->|N]; [left; rewrite Nat.sub_diag in H2; cbn in H2; congruence|].
      right. split; [lia|]. replace (i - k) with (S (i - S k)) in H2 by lia. exact H2.
Qed.
Lemma indexed_fst {A} (l : list A) : forall k, map fst (indexed l k) = seq k (length l).
Proof. induction l as [|y l IH]; intros k; cbn; [reflexivity|]. rewrite IH. reflexivity. Qed.
Lemma indexed_length {A} (l : list A) k : length (indexed l k) = length l.
Proof. rewrite <- (map_length fst), indexed_fst, seq_length. reflexivity. Qed.

Lemma imap_get_Some_In m i : In i (map fst m) -> exists v, imap_get m i = Some v.
Proof.
  induction m as [|[j w] m IH]; cbn; [tauto|]. destruct (Nat.eqb_spec j i) as [->|N]; [eexists; reflexivity|].
  intros [E|Hin]; [congruence|apply IH; exact Hin].
Qed.

Lemma surv_In cur remove i x : nth_error cur i = Some x -> ~ In i (map fst remove) -> In x (surv (indexed cur 0) remove).
Proof.
  intros Hi Ni. unfold surv. apply in_map_iff. exists (i, x). split; [reflexivity|]. apply filter_In. split.
  - apply indexed_In. rewrite Nat.sub_0_r. split; [lia|exact Hi].
  - unfold keep_ix. cbn [fst]. destruct (imap_get remove i) eqn:G; [|reflexivity]. apply imap_get_In in G. exfalso. apply Ni. apply in_map_iff. exists (i, v). auto.
Qed.

Lemma surv_length cur remove : NoDup (map fst remove) -> (forall k, In k (map fst remove) -> k < length cur) ->
  length (surv (indexed cur 0) remove) + length remove = length cur.
Proof.
  intros ND HB. unfold surv. rewrite map_length.
  rewrite <- (indexed_length cur 0). rewrite (filter_len_split (keep_ix remove) (indexed cur 0)). f_equal.
  rewrite <- (map_length fst remove). rewrite <- (map_length fst (filter _ _)).
  symmetry. apply Permutation_length. apply NoDup_Permutation; [apply NoDup_map_filter; rewrite indexed_fst; apply seq_NoDup|exact ND|].
  intros k. rewrite in_map_iff. split.
    + intros ([i x] & <- & Hix). apply filter_In in Hix as [Hix Hk]. unfold keep_ix in Hk. cbn [fst] in *.
      destruct (imap_get remove i) eqn:G; [|discriminate]. apply imap_get_In in G. apply in_map_iff. exists (i, v). auto.
    + intros Hk. pose proof (HB k Hk) as Lk. destruct (nth_error cur k) as [x|] eqn:E; [|apply nth_error_None in E; lia].
      exists (k, x). split; [reflexivity|]. apply filter_In. split; [apply indexed_In; rewrite Nat.sub_0_r; split; [lia|exact E]|].
      unfold keep_ix. cbn [fst]. destruct (imap_get_Some_In remove k Hk) as (v & G). rewrite G. reflexivity.
Qed.

Lemma apply_edits_at edits : forall cur i v, NoDup (map fst edits) -> (forall iv, In iv edits -> fst iv < length cur) ->
  In (i, v) edits -> nth_error (apply_edits edits cur) i = Some v.
Proof.
  induction edits as [|[j w] edits IH]; intros cur i v ND HB Hin; [destruct Hin|].
  cbn [map fst] in ND. inversion ND as [|? ? Nj ND']; subst.
  assert (Hj : j < length cur) by (apply (HB (j, w)); left; reflexivity).
  unfold apply_edits. cbn [fold_left fst snd]. fold (apply_edits edits (repl j w cur)).
  assert (HB' : forall iv, In iv edits -> fst iv < length (repl j w cur)) by (intros iv Hiv; rewrite repl_length by exact Hj; apply HB; right; exact Hiv).
  destruct Hin as [E|Hin].
  - inversion E; subst. rewrite apply_edits_off; [apply repl_nth_same; exact Hj|exact HB'|exact Nj].
  - apply IH; assumption.
Qed.

Lemma edits_of_kvt es e : In e es -> kvt e = true -> In (eidx e, eov (et2 e)) (edv es ++ edt es).
Proof.
  intros He Kv. apply in_or_app. unfold kvt in Kv. destruct (ekind e) eqn:K; try discriminate.
  - right. unfold edt. apply in_flat_map. exists e. split; [exact He|]. unfold iskind. rewrite K. left. reflexivity.
  - left. unfold edv. apply in_flat_map. exists e. split; [exact He|]. unfold iskind. rewrite K. left. reflexivity.
Qed.

Lemma surv_nil cur : surv (indexed cur 0) [] = cur.
Proof.
  unfold surv. rewrite filter_all_io by reflexivity. generalize 0. induction cur as [|x cur IH]; intros k; cbn; [reflexivity|]. rewrite IH. reflexivity.
Qed.

Lemma rebuild_spec H cur fixed remove :
  NoDup (map fst fixed) -> olds_ok H (map snd fixed) (indexed cur 0) remove ->
  (forall k, In k (map fst fixed) -> k < length (surv (indexed cur 0) remove) + length fixed) ->
  exists zs, rebuild H cur fixed remove = (zs, 0) /\ Permutation zs (surv (indexed cur 0) remove ++ map snd fixed).
Proof.
  intros ND OK HB. unfold rebuild. destruct cur as [|x cur].
  - destruct (io_loop_spec H (map snd fixed) (length (@nil value) + length fixed + 2) [] fixed (indexed [] 0) remove false 0 ND) as (zs & E & P).
    + discriminate.
    + intros k Hk. specialize (HB k Hk). cbn in HB |- *. lia.
    + cbn. lia.
    + exists zs. rewrite E. split; [reflexivity|exact P].
  - destruct (io_loop_spec H (map snd fixed) (length (x :: cur) + length fixed + 2) [] fixed (indexed (x :: cur) 0) remove true 0 ND) as (zs & E & P).
    + intros _. exact OK.
    + intros k Hk. specialize (HB k Hk). cbn [length] in HB |- *. lia.
    + rewrite indexed_length. lia.
    + exists zs. rewrite E. split; [reflexivity|exact P].
Qed.

Lemma istrip0' x : istrip 0 x = x.
Proof. unfold istrip. rewrite (imap_ext (@skipn pkey 0) (fun p => p)) by reflexivity. apply imap_id. Qed.
Lemma map_istrip0 l : map (istrip 0) l = l.
Proof. rewrite (map_ext _ (fun x => x)); [apply map_id|exact istrip0']. Qed.

Section IOApply.
Variable H : pystr -> pystr.
Variable udiff : pystr -> pystr -> pystr.
Variable c : cfg.
Variable pairs : path -> list (nat * nat).
Variable conv : ty -> value -> option value.
Variables bidir always : bool.
Variable ro : list (path * value) -> list (path * value).
Variable ao : list (path * option value) -> list (path * option value).
Variables X Y : list atom.
Notation h := (hatom_io H c true).
Hypothesis Hinj : forall a b, In a (X ++ Y) -> In b (X ++ Y) -> h a = h b -> a = b.
Hypothesis NX : NoDup X.
Hypothesis NY : NoDup Y.
Hypothesis AF : alias_free (X ++ Y).
Hypothesis Hconv : forall ty0 v v', conv ty0 v = Some v' -> type_of v' = ty0.
Hypothesis Hro : ro [] = [].
Notation xs := (xs X).
Notation ys := (ys Y).

Theorem io_roundtrip :
  let r := run_diff_io H udiff nos nos c true pairs (VList xs) (VList ys) in
  exists zs, apply_io H conv ro ao (to_delta_io conv bidir always (VList xs) (VList ys) (fst r) (snd r)) (VList xs) = (VList zs, 0)
             /\ Permutation zs ys.
Proof.
  destruct (io_facts H udiff c pairs X Y Hinj NX NY) as (es & ER & SH & ND1 & NDA & NDR & DJ & CNT & F6 & F7 & F8 & F9).
  cbv zeta. rewrite ER. cbn [fst snd].
  set (amap := flat_map addsel es). set (rmap := flat_map remsel es). set (edits := edv es ++ edt es).
  (* kinds *)
  assert (KD : forall e, In e es -> ekind e = KValue \/ ekind e = KType \/ ekind e = KIterAdd \/ ekind e = KIterRem).
  { intros e He. eapply Forall_forall in SH; [|exact He]. destruct SH as [(i & x & y & (A1 & _))|[(j & y & (A1 & _))|(i & x & -> & _)]]; [tauto|tauto|auto]. }
  set (d := to_delta_io conv bidir always (VList xs) (VList ys) es []).
  assert (SELA : forall e, In e es -> addsel e <> [] -> npath (removelast (ep1 e)) = [] /\ exists iv, addsel e = [iv]).
  { intros e He Ne. eapply Forall_forall in SH; [|exact He]. unfold addsel in *.
    destruct SH as [(i & x & y & (A1 & _))|[(j & y & (A1 & A2 & _))|(i & x & -> & _)]].
    - destruct A1 as [Z|Z]; rewrite Z in Ne; contradiction.
    - rewrite A1, A2. split; [reflexivity|eexists; reflexivity].
    - cbn in Ne. contradiction. }
  assert (SELR : forall e, In e es -> remsel e <> [] -> npath (removelast (ep1 e)) = [] /\ exists iv, remsel e = [iv]).
  { intros e He Ne. eapply Forall_forall in SH; [|exact He]. unfold remsel in *.
    destruct SH as [(i & x & y & (A1 & _))|[(j & y & (A1 & A2 & _))|(i & x & -> & _)]].
    - destruct A1 as [Z|Z]; rewrite Z in Ne; contradiction.
    - rewrite A1 in Ne. contradiction.
    - cbn. split; [reflexivity|eexists; reflexivity]. }
  assert (EA : io_added d = match amap with [] => [] | m => [([], m)] end).
  { unfold d, to_delta_io. cbn [io_added]. rewrite fold_left_id.
    - rewrite (fold_left_ext' _ (fun acc e => match addsel e with [iv] => pmap_set acc (npath (removelast (ep1 e))) (fst iv) (snd iv) | _ => acc end)).
      + pose proof (fold_pmap_root addsel es SELA [] NDA) as Z. cbn [app] in Z. rewrite Z. unfold amap. destruct (flat_map addsel es); reflexivity.
      + intros acc e He. unfold addsel. destruct (ekind e); reflexivity.
    - intros acc e He. destruct (KD e He) as [Z|[Z|[Z|Z]]]; rewrite Z; reflexivity. }
  assert (ERm : io_removed d = match rmap with [] => [] | m => [([], m)] end).
  { unfold d, to_delta_io. cbn [io_removed].
    rewrite (fold_left_ext' _ (fun acc e => match remsel e with [iv] => pmap_set acc (npath (removelast (ep1 e))) (fst iv) (snd iv) | _ => acc end)).
    - pose proof (fold_pmap_root remsel es SELR [] NDR) as Z. cbn [app] in Z. rewrite Z. unfold rmap. destruct (flat_map remsel es); reflexivity.
    - intros acc e He. unfold remsel. destruct (ekind e); reflexivity. }
  assert (GA : pmap_get (io_added d) [] = amap) by (rewrite EA; destruct amap; reflexivity).
  assert (GR : pmap_get (io_removed d) [] = rmap) by (rewrite ERm; destruct rmap; reflexivity).
  (* entries in terms of atoms *)
  assert (PAIR : forall e, In e es -> kvt e = true -> exists i x y, isPair X Y e i x y /\ eidx e = i).
  { intros e He Kv. eapply Forall_forall in SH; [|exact He]. destruct SH as [(i & x & y & A)|[(j & y & (A1 & _))|(i & x & -> & _)]].
    - exists i, x, y. split; [exact A|]. destruct A as (_ & A2 & _). unfold eidx. rewrite A2. reflexivity.
    - unfold kvt in Kv. rewrite A1 in Kv. discriminate.
    - discriminate. }
  assert (AMAP : forall j w, In (j, w) amap -> exists e y, In e es /\ ekind e = KIterAdd /\ w = VAtom y /\ et2 e = Some (VAtom y) /\ nth_error Y j = Some y).
  { intros j w Hin. unfold amap in Hin. apply in_flat_map in Hin as (e & He & Hs). eapply Forall_forall in SH; [|exact He]. unfold addsel in Hs.
    destruct SH as [(i & x & y & (A1 & _))|[(j' & y & (A1 & A2 & A3 & A4 & A5))|(i & x & -> & _)]].
    - destruct A1 as [Z|Z]; rewrite Z in Hs; destruct Hs.
    - rewrite A1, A2, A4 in Hs. cbn in Hs. destruct Hs as [E0|[]]. inversion E0; subst. exists e, y. auto.
    - destruct Hs. }
  assert (RMAP : forall i w, In (i, w) rmap -> exists x, w = VAtom x /\ nth_error X i = Some x /\ In (remE (i, x)) es).
  { intros i w Hin. unfold rmap in Hin. apply in_flat_map in Hin as (e & He & Hs). pose proof He as He0. eapply Forall_forall in SH; [|exact He]. unfold remsel in Hs.
    destruct SH as [(i' & x & y & (A1 & _))|[(j' & y & (A1 & _))|(i' & x & -> & Nx)]].
    - destruct A1 as [Z|Z]; rewrite Z in Hs; destruct Hs.
    - rewrite A1 in Hs. destruct Hs.
    - cbn in Hs. destruct Hs as [E0|[]]. inversion E0; subst. exists x. auto. }
  (* the in-place edits *)
  set (base := io_base d).
  assert (Ebase : base = to_delta conv bidir always (fun _ _ _ => []) (VList xs) (VList ys) es []) by reflexivity.
  assert (Bsa : d_sadd base = []).
  { rewrite Ebase, td_sadd. apply sg_none. intros e He. unfold sel_add. destruct (KD e He) as [Z|[Z|[Z|Z]]]; rewrite Z; reflexivity. }
  assert (Bsr : d_srem base = []).
  { rewrite Ebase, td_srem. apply sg_none. intros e He. unfold sel_rem. destruct (KD e He) as [Z|[Z|[Z|Z]]]; rewrite Z; reflexivity. }
  assert (Bda : d_dadd base = []).
  { rewrite Ebase. unfold to_delta. cbn [d_dadd]. apply flat_map_nil_in. intros e He. destruct (KD e He) as [Z|[Z|[Z|Z]]]; rewrite Z; reflexivity. }
  assert (Bdr : d_drem base = []).
  { rewrite Ebase. unfold to_delta. cbn [d_drem]. apply flat_map_nil_in. intros e He. destruct (KD e He) as [Z|[Z|[Z|Z]]]; rewrite Z; reflexivity. }
  assert (ITEM : forall e, In e es -> ekind e = KValue \/ ekind e = KType -> item_entry [] xs e).
  { intros e He K. assert (Kv : kvt e = true) by (unfold kvt; destruct K as [-> | ->]; reflexivity).
    destruct (PAIR e He Kv) as (i & x & y & (A1 & A2 & A3 & A4 & A5 & A6) & _). exists i, x, y.
    repeat split; try assumption. unfold DeltaIOProofs.xs. rewrite nth_error_map, A5. reflexivity. }
  assert (RL : Forall2 (realizes conv bidir xs) (p1 base ++ p4 base) edits).
  { unfold edits. apply Forall2_app'.
    - rewrite <- (map_istrip0 (p1 base)). rewrite Ebase. apply (p1_realizes conv bidir always (fun _ _ _ => []) (VList xs) (VList ys) [] xs es []).
      intros e He K. apply ITEM; [exact He|left; exact K].
    - rewrite <- (map_istrip0 (p4 base)). rewrite Ebase. apply (p4_realizes conv bidir always (fun _ _ _ => []) (VList xs) (VList ys) [] xs Hconv es []).
      intros e He K. apply ITEM; [exact He|right; exact K]. }
  assert (NDE : NoDup (map fst edits)) by (apply edits_nodup_kvt; exact ND1).
  assert (EDB : forall iv, In iv edits -> fst iv < length xs).
  { intros iv Hiv. apply edits_In in Hiv as (e & He & K & ->). cbn [fst].
    assert (Kv : kvt e = true) by (unfold kvt; destruct K as [-> | ->]; reflexivity).
    destruct (PAIR e He Kv) as (i & x & y & (_ & _ & _ & _ & A5 & _) & ->). unfold DeltaIOProofs.xs. rewrite map_length. apply nth_error_Some. congruence. }
  set (X1 := apply_edits edits xs).
  assert (LX1 : length X1 = length X).
  { unfold X1. rewrite apply_edits_length by exact EDB. unfold DeltaIOProofs.xs. apply map_length. }
  assert (RUN : irun conv bidir (p1 base ++ p4 base) (mkSt (VList xs) [] 0) = mkSt (VList X1) [] 0).
  { change (VList xs) with (sroot false xs). rewrite (run_edits conv bidir xs _ edits xs false [] RL NDE eq_refl).
    - reflexivity.
    - intros iv Hiv. split; [apply EDB; exact Hiv|reflexivity]. }
  (* what stands at each index after the in-place edits *)
  assert (X1P : forall e, In e es -> kvt e = true -> nth_error X1 (eidx e) = Some (eov (et2 e))).
  { intros e He Kv. unfold X1. apply apply_edits_at; [exact NDE|exact EDB|]. apply edits_of_kvt; assumption. }
  assert (X1O : forall i, ~ In i (map eidx (filter kvt es)) -> nth_error X1 i = nth_error xs i).
  { intros i Ni. unfold X1. apply apply_edits_off; [exact EDB|]. intros Hin. apply Ni.
    apply in_map_iff in Hin as (iv & <- & Hiv). apply edits_In in Hiv as (e & He & K & ->). cbn [fst].
    apply in_map. apply filter_In. split; [exact He|]. unfold kvt. destruct K as [-> | ->]; reflexivity. }
  assert (RKEY : forall i, In i (map fst rmap) -> i < length X1 /\ exists x, nth_error X i = Some x /\ In (i, VAtom x) rmap /\ nth_error X1 i = Some (VAtom x)).
  { intros i Hi. pose proof Hi as Hi0. apply in_map_iff in Hi as ([i' w] & E0 & Hin). cbn in E0. subst i'.
    destruct (RMAP i w Hin) as (x & -> & Nx & _). split; [rewrite LX1; apply nth_error_Some; congruence|].
    exists x. split; [exact Nx|]. split; [exact Hin|]. rewrite X1O by (apply DJ; exact Hi0).
    unfold DeltaIOProofs.xs. rewrite nth_error_map, Nx. reflexivity. }
  assert (SL : length (surv (indexed X1 0) rmap) + length rmap = length X).
  { rewrite <- LX1. apply surv_length; [exact NDR|]. intros k Hk. apply (RKEY k Hk). }
  assert (OKO : olds_ok H (map snd amap) (indexed X1 0) rmap).
  { split; [rewrite indexed_fst; apply seq_NoDup|]. intros i v Hiv. apply indexed_In in Hiv as [_ Hiv]. rewrite Nat.sub_0_r in Hiv. split.
    - (* never a member of the added values *)
      assert (VA : exists a, v = VAtom a /\ (In a X \/ exists e, In e es /\ kvt e = true /\ et2 e = Some (VAtom a))).
      { destruct (in_dec Nat.eq_dec i (map eidx (filter kvt es))) as [Hin|Nin].
        - apply in_map_iff in Hin as (e & <- & He). apply filter_In in He as [He Kv]. rewrite (X1P e He Kv) in Hiv. inversion Hiv; subst v.
          destruct (PAIR e He Kv) as (i0 & x & y & (_ & _ & _ & A4 & _) & _). rewrite A4. cbn [eov]. exists y. split; [reflexivity|right; exists e; auto].
        - rewrite (X1O i Nin) in Hiv. unfold DeltaIOProofs.xs in Hiv. rewrite nth_error_map in Hiv. destruct (nth_error X i) as [x|] eqn:Nx; [|discriminate].
          inversion Hiv; subst v. exists x. split; [reflexivity|left; eapply nth_error_In; exact Nx]. }
      destruct VA as (a & -> & Ha). unfold anyset_mem. cbn [hashable].
      destruct (existsb (fun y => hashable y && py_eqv (VAtom a) y) (map snd amap)) eqn:Ex; [|reflexivity]. exfalso.
      apply existsb_exists in Ex as (w & Hw & Ew). apply in_map_iff in Hw as ([j w'] & E0 & Hjw). cbn in E0. subst w'.
      destruct (AMAP j w Hjw) as (e2 & y' & He2 & K2 & -> & T2 & Ny'). cbn in Ew.
      assert (Hy' : In y' Y) by (eapply nth_error_In; exact Ny').
      destruct Ha as [Hax|(e1 & He1 & K1 & T1)].
      + assert (a = y') by (apply AF; [apply in_or_app; left; exact Hax|apply in_or_app; right; exact Hy'|exact Ew]). subst y'.
        apply (F8 e2 a He2 (or_intror K2) T2 Hax).
      + destruct (PAIR e1 He1 K1) as (i0 & x & y & (_ & _ & _ & A4 & _ & A6) & _). assert (y = a) by congruence. subst y.
        assert (a = y') by (apply AF; [apply in_or_app; right; exact A6|apply in_or_app; right; exact Hy'|exact Ew]). subst y'.
        apply (F9 e1 e2 He1 He2 K1 K2). congruence.
    - (* a removed index holds the removed value *)
      intros ex G. apply imap_get_In in G.
      assert (Hi : In i (map fst rmap)) by (apply in_map_iff; exists (i, ex); auto).
      destruct (RKEY i Hi) as (_ & x & Nx & Hin & N1). destruct (RMAP i ex G) as (x' & -> & Nx' & _).
      rewrite N1 in Hiv. inversion Hiv; subst v. assert (x' = x) by congruence. subst x'. cbn. apply py_eq_refl. }
  assert (LY : length Y = length (surv (indexed X1 0) rmap) + length amap) by (unfold amap, rmap in *; lia).
  assert (KB : forall k, In k (map fst amap) -> k < length (surv (indexed X1 0) rmap) + length amap).
  { intros k Hk. rewrite <- LY. apply in_map_iff in Hk as ([j w] & E0 & Hjw). cbn in E0. subst j.
    destruct (AMAP k w Hjw) as (_ & y & _ & _ & _ & _ & Ny). apply nth_error_Some. congruence. }
  destruct (rebuild_spec H X1 amap rmap NDA OKO KB) as (zs0 & RB & PZ).
  assert (AIN : forall e y, In e es -> ekind e = KIterAdd -> et2 e = Some (VAtom y) -> In (VAtom y) (map snd amap)).
  { intros e y He Ka T. apply in_map_iff. exists (last_idx (ep1 e), VAtom y). split; [reflexivity|].
    unfold amap. apply in_flat_map. exists e. split; [exact He|]. unfold addsel. rewrite Ka, T. left. reflexivity. }
  (* the run *)
  assert (FIN : exists zs, apply_io H conv ro ao d (VList xs) = (VList zs, 0) /\ Permutation zs (surv (indexed X1 0) rmap ++ map snd amap)).
  { clearbody amap rmap.
    unfold apply_io. fold base. assert (Eb : d_bidir base = bidir) by reflexivity. rewrite Eb.
    rewrite (do_values_changed_irun conv bidir), Bsa, Bsr. cbn [do_set_items fold_left].
    rewrite (do_type_changes_irun conv bidir). fold (p1 base). fold (p4 base). rewrite <- irun_app, RUN.
    rewrite Bda, Bdr. cbn [map]. unfold do_item_added, do_item_removed. rewrite Hro. cbn [fold_left].
    assert (STEP : forall s0, root s0 = VList X1 -> post s0 = [] -> errs s0 = 0 ->
              fold_left (fun s p => match resolve (root s) p with
                 | Some (VList l) => let '(zs, e) := rebuild H l (pmap_get (io_added d) p) (pmap_get (io_removed d) p) in
                     match upd (root s) p (fun _ => Some (VList zs)) with Some r' => add_errs (with_root s r') e | None => err (add_errs s e) end
                 | Some (VTuple l) => let '(zs, e) := rebuild H l (pmap_get (io_added d) p) (pmap_get (io_removed d) p) in
                     match upd (root s) p (fun _ => Some (VTuple zs)) with Some r' => add_errs (with_root s r') e | None => err (add_errs s e) end
                 | _ => err s end) [[]] s0 = mkSt (VList zs0) [] 0).
    { intros [r0 p0 e0] R0 P0 E0. cbn [root post errs] in R0, P0, E0. subst r0 p0 e0. cbn [fold_left resolve root]. rewrite GA, GR, RB. reflexivity. }
    unfold do_ignore_order, io_paths. rewrite EA, ERm.
    destruct amap as [|a0 am]; destruct rmap as [|r0 rm].
    - cbn [map fst app filter fold_left]. unfold do_post. cbn. exists X1. split; [reflexivity|]. rewrite surv_nil, app_nil_r. apply Permutation_refl.
    - cbn [map fst app filter existsb negb]. rewrite <- EA, <- ERm. rewrite STEP by reflexivity. unfold do_post. cbn. exists zs0. split; [reflexivity|exact PZ].
    - cbn [map fst app filter existsb negb]. rewrite <- EA, <- ERm. rewrite STEP by reflexivity. unfold do_post. cbn. exists zs0. split; [reflexivity|exact PZ].
    - cbn [map fst app filter existsb negb path_eqb]. rewrite <- EA, <- ERm. rewrite STEP by reflexivity. unfold do_post. cbn. exists zs0. split; [reflexivity|exact PZ]. }
  destruct FIN as (zs & E & PZ'). exists zs. split; [exact E|].
  eapply Permutation_trans; [exact PZ'|]. apply Permutation_sym. apply NoDup_Permutation_bis.
  - unfold DeltaIOProofs.ys. apply NoDup_map_in; [|exact NY]. intros a b _ _ E0. inversion E0. reflexivity.
  - rewrite app_length, map_length. unfold DeltaIOProofs.ys. rewrite map_length. lia.
  - intros v Hv. unfold DeltaIOProofs.ys in Hv. apply in_map_iff in Hv as (y & <- & Hy). apply in_or_app.
    destruct (F6 y Hy) as [Hx|(e & He & K & T)].
    + left. apply In_nth_error in Hx as (i & Ni).
      assert (NP : ~ In i (map eidx (filter kvt es))).
      { intros Hin. apply in_map_iff in Hin as (e & E0 & He). apply filter_In in He as [He Kv].
        destruct (PAIR e He Kv) as (i0 & x & y0 & (_ & _ & A3 & _ & A5 & _) & Ei). assert (x = y) by congruence. subst x.
        apply (F7 e y He (or_introl Kv) A3 Hy). }
      apply (surv_In X1 rmap i); [rewrite (X1O i NP); unfold DeltaIOProofs.xs; rewrite nth_error_map, Ni; reflexivity|].
      intros Hin. destruct (RKEY i Hin) as (_ & x & Nx & Hr & _). assert (x = y) by congruence. subst x.
      destruct (RMAP i (VAtom y) Hr) as (x' & E0 & _ & He). inversion E0; subst x'.
      apply (F7 (remE (i, y)) y He (or_intror eq_refl) eq_refl Hy).
    + destruct K as [Kv|Ka].
      * left. apply (surv_In X1 rmap (eidx e)); [rewrite (X1P e He Kv), T; reflexivity|].
        intros Hin. apply (DJ _ Hin). apply in_map. apply filter_In. split; assumption.
      * right. apply (AIN e y He Ka T).
Qed.

End IOApply.

(* ---- a concrete instance (non-vacuity) and a witness against the unguarded statement ---- *)
Lemma inj_on_check (f : atom -> pystr) l :
  forallb (fun a => forallb (fun b => negb (pystr_eqb (f a) (f b)) || atom_eqb a b) l) l = true ->
  forall a b, In a l -> In b l -> f a = f b -> a = b.
Proof.
  intros Hc a b Ha Hb E. eapply forallb_forall in Hc; [|exact Ha]. eapply forallb_forall in Hc; [|exact Hb].
  rewrite E, pystr_eqb_refl in Hc. cbn in Hc. apply atom_eqb_eq. exact Hc.
Qed.

Fixpoint nodupb (l : list atom) : bool :=
  match l with [] => true | a :: r => negb (has_atom a r) && nodupb r end.
Lemma nodupb_sound l : nodupb l = true -> NoDup l.
Proof.
  induction l as [|a l IH]; cbn; intros Hn; [constructor|]. apply andb_true_iff in Hn as [H1 H2]. constructor; [|apply IH; exact H2].
  apply negb_true_iff in H1. apply has_atom_false. exact H1.
Qed.

Definition io_cfg : cfg := mkCfg false 0 1 true.
Definition io_X : list atom := [AInt 1; AInt 2; AInt 3; AInt 4].
Definition io_Y : list atom := [AInt 2; AStr [97%N]; ANone; AInt 7; AInt 9].
(* the pairing the implementation chose: t2[3] with t1[3], t2[4] with t1[2] *)
Definition io_pairs (p : path) : list (nat * nat) := match p with [] => [(3, 3); (4, 2)] | _ => [] end.
Definition conv_none_io (_ : ty) (_ : value) : option value := None.

Definition io_result : value * nat :=
  let r := run_diff_io hexhash (fun _ _ => []) nos nos io_cfg true io_pairs (VList (xs io_X)) (VList (ys io_Y)) in
  apply_io hexhash conv_none_io (fun l => l) (fun l => l)
    (to_delta_io conv_none_io false false (VList (xs io_X)) (VList (ys io_Y)) (fst r) (snd r)) (VList (xs io_X)).

Lemma io_example :
  (exists zs, io_result = (VList zs, 0) /\ Permutation zs (ys io_Y)) /\
  io_result = (VList (map VAtom [AInt 2; AStr [97%N]; ANone; AInt 9; AInt 7]), 0).
Proof.
  split; [|vm_compute; reflexivity].
  apply (io_roundtrip hexhash (fun _ _ => []) io_cfg io_pairs conv_none_io false false (fun l => l) (fun l => l) io_X io_Y).
  - apply inj_on_check. vm_compute. reflexivity.
  - apply nodupb_sound. vm_compute. reflexivity.
  - apply nodupb_sound. vm_compute. reflexivity.
  - assert (Z : forall l, (fix afb (l : list atom) : bool := match l with [] => true | a :: r => forallb (fun b => negb (py_eq a b) || atom_eqb a b) r && afb r end) l = true -> alias_free l).
    { induction l as [|x l IH]; intros Hc a b Ha Hb E; [destruct Ha|]. apply andb_true_iff in Hc as [H1 H2].
      assert (Q : forall y, In y l -> py_eq x y = true -> x = y).
      { intros y Hy Ey. eapply forallb_forall in H1; [|exact Hy]. rewrite Ey in H1. cbn in H1. apply atom_eqb_eq. exact H1. }
      destruct Ha as [<-|Ha], Hb as [<-|Hb]; [reflexivity|apply Q; assumption|symmetry; apply Q; [exact Ha|rewrite py_eq_sym; exact E]|apply IH; assumption]. }
    apply Z. vm_compute. reflexivity.
  - discriminate.
  - reflexivity.
Qed.

(* == items in t2: [1] -> [True, 1] rebuilds [True] (the old 1 is dropped as a member of the AnySet {True}) *)
Lemma io_refuted_alias :
  let r := run_diff_io hexhash (fun _ _ => []) nos nos io_cfg true (fun _ => []) (VList [VAtom (AInt 1)]) (VList [VAtom (ABool true); VAtom (AInt 1)]) in
  apply_io hexhash conv_none_io (fun l => l) (fun l => l)
    (to_delta_io conv_none_io false false (VList [VAtom (AInt 1)]) (VList [VAtom (ABool true); VAtom (AInt 1)]) (fst r) (snd r))
    (VList [VAtom (AInt 1)]) = (VList [VAtom (ABool true)], 0).
Proof. vm_compute. reflexivity. Qed.

(** C01 - node lemma for sets and frozensets. *)
From Coq Require Import List ZArith NArith Bool Arith Lia Permutation.
Import ListNotations.
From DD Require Import Base.PyStr Base.Value Base.ValueFacts Path.PathModel Diff.Tree Diff.DiffModel
  Diff.DiffFacts Diff.DiffFaithful Delta.DeltaModel Delta.DeltaFacts Delta.DeltaLocal Delta.DeltaEntries
  Delta.DeltaStruct Delta.DeltaRun Delta.DeltaGuard Delta.DeltaGood Delta.DeltaNodes Delta.DeltaCompose
  Delta.DeltaListNode.

(* ---- groups of set items with one path ---- *)
Section SGOne.
Variable sel : entry -> option (path * atom).
Variable p : path.
Definition sel_atoms (es : list entry) : list atom :=
  flat_map (fun e => match sel e with Some (_, a) => [a] | None => [] end) es.

Lemma sg_one_acc es : (forall e q a, In e es -> sel e = Some (q, a) -> q = p) ->
  forall l0, sg sel es [(p, l0)] = [(p, l0 ++ sel_atoms es)].
Proof.
  induction es as [|e es IH]; intros H l0; cbn; [rewrite app_nil_r; reflexivity|].
  destruct (sel e) as [[q a]|] eqn:S.
  - pose proof (H e q a (or_introl eq_refl) S) as ->. cbn [group_add]. rewrite path_eqb_refl.
    fold (sg sel es [(p, l0 ++ [a])]). rewrite IH by (intros e' q' a' He'; apply H; right; exact He').
    rewrite <- app_assoc. reflexivity.
  - fold (sg sel es [(p, l0)]). rewrite IH by (intros e' q' a' He'; apply H; right; exact He'). reflexivity.
Qed.

Lemma sg_one es : (forall e q a, In e es -> sel e = Some (q, a) -> q = p) ->
  sg sel es [] = match sel_atoms es with [] => [] | l => [(p, l)] end.
Proof.
  induction es as [|e es IH]; intros H; cbn; [reflexivity|].
  destruct (sel e) as [[q a]|] eqn:S.
  - pose proof (H e q a (or_introl eq_refl) S) as ->. cbn [group_add]. fold (sg sel es [(p, [a])]).
    rewrite sg_one_acc by (intros e' q' a' He'; apply H; right; exact He'). reflexivity.
  - fold (sg sel es []). apply IH. intros e' q' a' He'. apply H. right. exact He'.
Qed.
End SGOne.

Section Sets.
Variable hatom : atom -> pystr.
Hypothesis Hinj : forall a b, hatom a = hatom b -> a = b.

Lemma hash_mem y xs : existsb (pystr_eqb (hatom y)) (map hatom xs) = has_atom y xs.
Proof.
  unfold has_atom. induction xs as [|x xs IH]; cbn; [reflexivity|]. rewrite IH. f_equal.
  destruct (pystr_eqb (hatom y) (hatom x)) eqn:E.
  - apply pystr_eqb_eq in E. apply Hinj in E. subst. symmetry. apply atom_eqb_refl.
  - destruct (atom_eqb y x) eqn:E2; [|reflexivity]. apply atom_eqb_eq in E2. subst. rewrite pystr_eqb_refl in E. discriminate.
Qed.

Lemma fph_id l : forall seen, NoDup l -> (forall a, In a l -> existsb (pystr_eqb (hatom a)) seen = false) ->
  first_per_hash hatom l seen = l.
Proof.
  induction l as [|a l IH]; intros seen ND H; cbn; [reflexivity|].
  rewrite (H a (or_introl eq_refl)). f_equal. inversion ND as [|? ? Na ND']; subst. apply IH; [exact ND'|].
  intros b Hb. cbn. rewrite (H b (or_intror Hb)), orb_false_r.
  destruct (pystr_eqb (hatom b) (hatom a)) eqn:E; [|reflexivity]. apply pystr_eqb_eq in E. apply Hinj in E. subst. contradiction.
Qed.

Definition addE (q : path) (y : atom) : entry := mkEntry KSetAdd q q None (Some (VAtom y)) None.
Definition remE (q : path) (x : atom) : entry := mkEntry KSetRem q q (Some (VAtom x)) None None.

Lemma diff_set_eq xs ys q : NoDup xs -> NoDup ys ->
  diff_set hatom nos xs ys q q =
  map (addE q) (filter (fun y => negb (has_atom y xs)) ys) ++ map (remE q) (filter (fun x => negb (has_atom x ys)) xs).
Proof.
  intros Nx Ny. unfold diff_set. rewrite !fph_id by (try assumption; intros; reflexivity).
  f_equal.
  - clear Nx Ny. induction ys as [|y ys IH]; cbn [flat_map filter map]; [reflexivity|]. rewrite hash_mem. destruct (has_atom y xs); cbn [negb map app]; rewrite IH; reflexivity.
  - clear Nx Ny. induction xs as [|x xs IH]; cbn [flat_map filter map]; [reflexivity|]. rewrite hash_mem. destruct (has_atom x ys); cbn [negb map app]; rewrite IH; reflexivity.
Qed.


(* ---- union then difference ---- *)
Definition sadded (xs ys : list atom) := filter (fun y => negb (has_atom y xs)) ys.
Definition sremoved (xs ys : list atom) := filter (fun x => negb (has_atom x ys)) xs.
Definition sres (xs ys : list atom) : list atom :=
  filter (fun a => negb (mem_atom a (sremoved xs ys))) (xs ++ filter (fun a => negb (mem_atom a xs)) (sadded xs ys)).

Lemma has_atom_false a l : has_atom a l = false <-> ~ In a l.
Proof.
  split.
  - intros H Hin. apply has_atom_In in Hin. congruence.
  - intros H. destruct (has_atom a l) eqn:E; [|reflexivity]. apply has_atom_In in E. contradiction.
Qed.

Lemma NoDup_app' {A} (l1 l2 : list A) : NoDup l1 -> NoDup l2 -> (forall a, In a l1 -> In a l2 -> False) -> NoDup (l1 ++ l2).
Proof.
  induction l1 as [|x l1 IH]; intros N1 N2 H; cbn; [exact N2|].
  inversion N1; subst. constructor.
  - intros Hin. apply in_app_or in Hin as [Hin|Hin]; [contradiction|]. apply (H x); [left; reflexivity|exact Hin].
  - apply IH; try assumption. intros a Ha Hb. apply (H a); [right; exact Ha|exact Hb].
Qed.

Lemma mem_alias l a x : alias_free l -> In a l -> (forall b, In b x -> In b l) -> mem_atom a x = true -> In a x.
Proof.
  intros AF Ha Sub M. apply mem_atom_In in M as (b & Hb & E). rewrite (AF a b Ha (Sub b Hb) E). exact Hb.
Qed.

Lemma sres_spec xs ys : nodup_atoms xs = true -> nodup_atoms ys = true -> alias_free (xs ++ ys) ->
  (forall z, In z (sres xs ys) <-> In z ys) /\ NoDup (sres xs ys).
Proof.
  intros Nx Ny AF.
  assert (Ix : forall a, In a xs -> In a (xs ++ ys)) by (intros; apply in_or_app; left; assumption).
  assert (Iy : forall a, In a ys -> In a (xs ++ ys)) by (intros; apply in_or_app; right; assumption).
  assert (Rsub : forall b, In b (sremoved xs ys) -> In b xs /\ ~ In b ys).
  { intros b Hb. apply filter_In in Hb as [H1 H2]. apply negb_true_iff in H2. apply has_atom_false in H2. auto. }
  assert (Asub : forall b, In b (sadded xs ys) -> In b ys /\ ~ In b xs).
  { intros b Hb. apply filter_In in Hb as [H1 H2]. apply negb_true_iff in H2. apply has_atom_false in H2. auto. }
  split.
  - intros z. unfold sres. rewrite filter_In, in_app_iff, filter_In. split.
    + intros [[Hz|[Hz _]] Nm]; [|apply Asub in Hz as [Hz _]; exact Hz].
      apply negb_true_iff in Nm. destruct (has_atom z ys) eqn:Hy; [apply has_atom_In; exact Hy|].
      exfalso. assert (In z (sremoved xs ys)) by (apply filter_In; split; [exact Hz|rewrite Hy; reflexivity]).
      assert (mem_atom z (sremoved xs ys) = true) by (apply mem_atom_In; exists z; split; [assumption|apply py_eq_refl]). congruence.
    + intros Hz. assert (NR : mem_atom z (sremoved xs ys) = false).
      { destruct (mem_atom z (sremoved xs ys)) eqn:M; [|reflexivity]. exfalso.
        apply (mem_alias (xs ++ ys) z) in M; [|exact AF|apply Iy; exact Hz|intros b Hb; apply Ix; apply Rsub; exact Hb].
        apply Rsub in M as [_ M]. contradiction. }
      rewrite NR. split; [|reflexivity]. destruct (has_atom z xs) eqn:Hx.
      * left. apply has_atom_In. exact Hx.
      * right. split; [apply filter_In; split; [exact Hz|rewrite Hx; reflexivity]|].
        apply negb_true_iff. destruct (mem_atom z xs) eqn:M; [|reflexivity]. exfalso.
        apply (mem_alias (xs ++ ys) z) in M; [|exact AF|apply Iy; exact Hz|exact Ix].
        apply has_atom_false in Hx. contradiction.
  - unfold sres. apply NoDup_filter. apply NoDup_app'.
    + apply nodup_NoDup'. exact Nx.
    + apply NoDup_filter. unfold sadded. apply NoDup_filter. apply nodup_NoDup'. exact Ny.
    + intros a Ha Hb. apply filter_In in Hb as [Hb _]. apply Asub in Hb as [_ Hb]. contradiction.
Qed.


(* the same from a base with the same members in another order *)
Definition sresb (xb xs ys : list atom) : list atom :=
  filter (fun a => negb (mem_atom a (sremoved xs ys))) (xb ++ filter (fun a => negb (mem_atom a xb)) (sadded xs ys)).

Lemma sresb_spec xb xs ys : nodup_atoms xb = true -> (forall z, In z xb <-> In z xs) ->
  nodup_atoms ys = true -> alias_free (xs ++ ys) ->
  (forall z, In z (sresb xb xs ys) <-> In z ys) /\ NoDup (sresb xb xs ys).
Proof.
  intros Nb EQ Ny AF.
  assert (Ix : forall a, In a xb -> In a (xs ++ ys)) by (intros a Ha; apply in_or_app; left; apply EQ; exact Ha).
  assert (Iy : forall a, In a ys -> In a (xs ++ ys)) by (intros; apply in_or_app; right; assumption).
  assert (Rsub : forall b, In b (sremoved xs ys) -> In b xb /\ ~ In b ys).
  { intros b Hb. apply filter_In in Hb as [H1 H2]. apply negb_true_iff in H2. apply has_atom_false in H2. split; [apply EQ; exact H1|exact H2]. }
  assert (Asub : forall b, In b (sadded xs ys) -> In b ys /\ ~ In b xb).
  { intros b Hb. apply filter_In in Hb as [H1 H2]. apply negb_true_iff in H2. apply has_atom_false in H2. split; [exact H1|]. intros Hx. apply H2. apply EQ. exact Hx. }
  split.
  - intros z. unfold sresb. rewrite filter_In, in_app_iff, filter_In. split.
    + intros [[Hz|[Hz _]] Nm]; [|apply Asub in Hz as [Hz _]; exact Hz].
      apply negb_true_iff in Nm. destruct (has_atom z ys) eqn:Hy; [apply has_atom_In; exact Hy|].
      exfalso. assert (In z (sremoved xs ys)) by (apply filter_In; split; [apply EQ; exact Hz|rewrite Hy; reflexivity]).
      assert (mem_atom z (sremoved xs ys) = true) by (apply mem_atom_In; exists z; split; [assumption|apply py_eq_refl]). congruence.
    + intros Hz. assert (NR : mem_atom z (sremoved xs ys) = false).
      { destruct (mem_atom z (sremoved xs ys)) eqn:M; [|reflexivity]. exfalso.
        apply (mem_alias (xs ++ ys) z) in M; [|exact AF|apply Iy; exact Hz|intros b Hb; apply Ix; apply Rsub; exact Hb].
        apply Rsub in M as [_ M]. contradiction. }
      rewrite NR. split; [|reflexivity]. destruct (has_atom z xb) eqn:Hx.
      * left. apply has_atom_In. exact Hx.
      * right. split; [apply filter_In; split; [exact Hz|]|].
        -- apply negb_true_iff. apply has_atom_false. apply has_atom_false in Hx. intros H0. apply Hx. apply EQ. exact H0.
        -- apply negb_true_iff. destruct (mem_atom z xb) eqn:M; [|reflexivity]. exfalso.
           apply (mem_alias (xs ++ ys) z) in M; [|exact AF|apply Iy; exact Hz|exact Ix].
           apply has_atom_false in Hx. contradiction.
  - unfold sresb. apply NoDup_filter. apply NoDup_app'.
    + apply nodup_NoDup'. exact Nb.
    + apply NoDup_filter. unfold sadded. apply NoDup_filter. apply nodup_NoDup'. exact Ny.
    + intros a Ha Hb. apply filter_In in Hb as [Hb _]. apply Asub in Hb as [_ Hb]. contradiction.
Qed.

End Sets.

Lemma flat_map_nil_in {A B} (f : A -> list B) l : (forall x, In x l -> f x = []) -> flat_map f l = [].
Proof. induction l as [|x l IH]; cbn; intros H; [reflexivity|]. rewrite (H x (or_introl eq_refl)), IH; [reflexivity|]. intros y Hy. apply H. right. exact Hy. Qed.

Definition sv (fr : bool) (l : list atom) : value := if fr then VFrozen l else VSet l.

Section SetGood.
Variable hatom : atom -> pystr.
Variable udiff : pystr -> pystr -> pystr.
Variable ops : path -> list value -> list value -> list opcode.
Variable c : cfg.
Variable conv : ty -> value -> option value.
Variables bidir always : bool.
Notation Good := (Good hatom udiff ops c conv bidir always).
Hypothesis Hinj : forall a b, hatom a = hatom b -> a = b.

Lemma sel_atoms_add q A R : sel_atoms sel_add (map (addE q) A ++ map (remE q) R) = A.
Proof.
  unfold sel_atoms. rewrite flat_map_app. rewrite (flat_map_nil_in _ (map (remE q) R)).
  - rewrite app_nil_r. induction A as [|a A IH]; cbn; [reflexivity|]. f_equal. exact IH.
  - intros e He. apply in_map_iff in He as (x & <- & _). reflexivity.
Qed.
Lemma sel_atoms_rem q A R : sel_atoms sel_rem (map (addE q) A ++ map (remE q) R) = R.
Proof.
  unfold sel_atoms. rewrite flat_map_app. rewrite (flat_map_nil_in _ (map (addE q) A)).
  - cbn [app]. induction R as [|a R IH]; cbn; [reflexivity|]. f_equal. exact IH.
  - intros e He. apply in_map_iff in He as (x & <- & _). reflexivity.
Qed.

Lemma set_delta T1 T2 q A R :
  let d := to_delta conv bidir always ops T1 T2 (map (addE q) A ++ map (remE q) R) [] in
  d_val d = [] /\ d_type d = [] /\ d_dadd d = [] /\ d_drem d = [] /\ d_iadd d = [] /\ d_irem d = [] /\ d_moved d = [] /\
  d_ops d = [] /\
  d_sadd d = match A with [] => [] | l => [(npath q, l)] end /\
  d_srem d = match R with [] => [] | l => [(npath q, l)] end.
Proof.
  intros d. subst d.
  assert (K : forall e, In e (map (addE q) A ++ map (remE q) R) -> ekind e = KSetAdd \/ ekind e = KSetRem).
  { intros e He. apply in_app_or in He as [He|He]; apply in_map_iff in He as (x & <- & _); auto. }
  rewrite td_sadd, td_srem.
  rewrite (sg_one sel_add (npath q)), (sg_one sel_rem (npath q)).
  - rewrite sel_atoms_add, sel_atoms_rem. unfold to_delta. cbn [d_val d_type d_dadd d_drem d_iadd d_irem d_moved d_ops map].
    repeat split; try reflexivity; try (destruct A; reflexivity); try (destruct R; reflexivity);
      apply flat_map_nil_in; intros e He; destruct (K e He) as [-> | ->]; reflexivity.
  - intros e p a He S. apply in_app_or in He as [He|He]; apply in_map_iff in He as (x & <- & _); cbn in S; [discriminate|inversion S; reflexivity].
  - intros e p a He S. apply in_app_or in He as [He|He]; apply in_map_iff in He as (x & <- & _); cbn in S; [inversion S; reflexivity|discriminate].
Qed.

Lemma filter_not_mem_nil (l : list atom) : filter (fun a => negb (mem_atom a [])) l = l.
Proof. apply filter_all. intros; reflexivity. Qed.

Lemma veqb_set_inv fr v xs : veqb v (sv fr xs) = true -> exists xb, v = sv fr xb /\ length xb = length xs /\
  (forall z, In z xb -> In z xs) /\ (forall z, In z xs -> In z xb).
Proof.
  destruct fr, v; cbn; try discriminate; intros V; apply andb_true_iff in V as [V V3]; apply andb_true_iff in V as [V1 V2]; apply Nat.eqb_eq in V1;
    (eexists; split; [reflexivity|]; split; [exact V1|]; split; intros z Hz;
     [eapply forallb_forall in V2; [|exact Hz]; apply has_atom_In; exact V2|eapply forallb_forall in V3; [|exact Hz]; apply has_atom_In; exact V3]).
Qed.

Theorem Good_set fr xs ys q :
  nodup_atoms xs = true -> nodup_atoms ys = true -> alias_free (xs ++ ys) ->
  Good (sv fr xs) (sv fr ys) q.
Proof.
  intros Nx Ny AF T1 T2 _ _.
  assert (ED : E hatom udiff ops c (sv fr xs) (sv fr ys) q
               = (map (addE q) (sadded xs ys) ++ map (remE q) (sremoved xs ys), [])).
  { unfold E. destruct fr; cbn [sv]; [rewrite diff_vfrozen by reflexivity|rewrite diff_vset by reflexivity];
      rewrite (diff_set_eq hatom Hinj) by (apply nodup_NoDup'; assumption); reflexivity. }
  unfold D. rewrite ED. cbn [fst snd].
  rewrite mutual_id by (intros a r Ha _ Ka _; apply in_app_or in Ha as [Ha|Ha]; apply in_map_iff in Ha as (x & <- & _); discriminate).
  destruct (set_delta T1 T2 q (sadded xs ys) (sremoved xs ys)) as (E1 & E2 & E3 & E4 & E5 & E6 & E7 & E8 & E9 & E10).
  set (d := to_delta conv bidir always ops T1 T2 (map (addE q) (sadded xs ys) ++ map (remE q) (sremoved xs ys)) []) in *.
  split; [exact E7|]. intros v Wv Vv _.
  apply veqb_set_inv in Vv as (xb & -> & Lb & I1 & I2).
  assert (Nb : nodup_atoms xb = true) by (destruct fr; exact Wv).
  destruct (sresb_spec xb xs ys Nb (fun z => conj (I1 z) (I2 z)) Ny AF) as [Hin Hnd].
  assert (RUN : irun conv bidir (map (istrip (length q)) (p1 d ++ p2 d ++ p3 d ++ p4 d ++ p5 d)) (mkSt (sv fr xb) [] 0)
                = mkSt (sv fr (sresb xb xs ys)) [] 0).
  { unfold p1, p2, p3, p4, p5. rewrite E1, E2, E8, E9, E10. cbn [map app].
    unfold sresb. destruct (sadded xs ys) as [|a A] eqn:EA; destruct (sremoved xs ys) as [|r R] eqn:ER; unfold istrip; cbn [map app imap]; rewrite ?skipn_npath_self.
    - cbn. rewrite app_nil_r, filter_not_mem_nil. reflexivity.
    - destruct fr; cbn; rewrite app_nil_r; reflexivity.
    - destruct fr; cbn; rewrite filter_not_mem_nil; reflexivity.
    - destruct fr; cbn; reflexivity. }
  apply runs_inplace; try assumption.
  - rewrite RUN. unfold finish. reflexivity.
  - rewrite RUN. unfold finish. cbn [post map irun fold_left root].
    assert (V : Nat.eqb (length (sresb xb xs ys)) (length ys) && forallb (fun x => has_atom x ys) (sresb xb xs ys)
                && forallb (fun y => has_atom y (sresb xb xs ys)) ys = true).
    { apply andb_true_iff. split; [apply andb_true_iff; split|].
      - apply Nat.eqb_eq. apply Permutation_length. apply NoDup_Permutation; [exact Hnd|apply nodup_NoDup'; exact Ny|exact Hin].
      - apply forallb_forall. intros x Hx. apply has_atom_In. apply Hin. exact Hx.
      - apply forallb_forall. intros y Hy. apply has_atom_In. apply Hin. exact Hy. }
    destruct fr; exact V.
Qed.

End SetGood.

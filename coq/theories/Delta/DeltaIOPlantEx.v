(** C01, ignore_order clause at any path: a concrete instance (non-vacuity of [io_roundtrip_planted]) and
    witnesses against the natural generalisations (a hidden key on the way; repetitions; nested
    ignore-order lists).  Each witness was first observed on the implementation. *)
From Coq Require Import List ZArith NArith Bool Arith Lia Permutation.
Import ListNotations.
From DD Require Import Base.PyStr Base.Value Base.ValueFacts Path.PathModel Diff.Tree Diff.DiffModel
  Hash.HashModel Hash.HexHash DiffIO.DiffIOModel
  Delta.DeltaModel Delta.DeltaGuard Delta.DeltaGood Delta.DeltaIO Delta.DeltaIOProofs Delta.DeltaIOReloc Delta.DeltaIOPre
  Delta.DeltaIOLocal Delta.DeltaIOPlant.

Definition kK : atom := AStr [107%N].           (* 'k' *)
Definition kM : atom := AStr [109%N].           (* 'm' *)
Definition kZ : atom := AStr [122%N].           (* 'z' *)
Definition kP : atom := AStr [95%N; 95%N; 112%N]. (* '__p' *)

(* {'z': 0, 'k': {'m': <list>, 'z': None}} *)
Definition pl_ctx (v : value) : value :=
  VDict [(kZ, VAtom (AInt 0)); (kK, VDict [(kM, v); (kZ, VAtom ANone)])].
Definition pl_q : path := [PKey kK; PKey kM].
Definition pl_t1 := pl_ctx (VList (xs io_X)).
Definition pl_t2 := pl_ctx (VList (ys io_Y)).
(* the pairing of the implementation, asked at the path of the list *)
Definition pl_pairs (p : path) : list (nat * nat) := if path_eqb p pl_q then [(3, 3); (4, 2)] else [].

Lemma pl_planted v w : planted v w pl_q (pl_ctx v) (pl_ctx w).
Proof.
  unfold pl_ctx, pl_q.
  apply (pl_dict v w kK [(kZ, VAtom (AInt 0))] [] [PKey kM]).
  apply (pl_dict v w kM [] [(kZ, VAtom ANone)] []). constructor.
Qed.

Definition pl_result : value * nat :=
  let r := run_diff_io hexhash (fun _ _ => []) nos nos io_cfg true pl_pairs pl_t1 pl_t2 in
  apply_io hexhash conv_none_io (fun l => l) (fun l => l) (to_delta_io conv_none_io false false pl_t1 pl_t2 (fst r) (snd r)) pl_t1.

Lemma pl_example :
  (exists u' zs, pl_result = (u', 0) /\ planted (VList (xs io_X)) (VList zs) pl_q pl_t1 u' /\ Permutation zs (ys io_Y)) /\
  pl_result = (pl_ctx (VList (map VAtom [AInt 2; AStr [97%N]; ANone; AInt 9; AInt 7])), 0).
Proof.
  split; [|vm_compute; reflexivity].
  apply (io_roundtrip_planted hexhash (fun _ _ => []) io_cfg pl_pairs conv_none_io false false (fun l => l) (fun l => l) io_X io_Y).
  - apply inj_on_check. vm_compute. reflexivity.
  - apply nodupb_sound. vm_compute. reflexivity.
  - apply nodupb_sound. vm_compute. reflexivity.
  - assert (Z : forall l, (fix afb (l : list atom) : bool := match l with [] => true | a :: r => forallb (fun b => negb (py_eq a b) || atom_eqb a b) r && afb r end) l = true -> alias_free l).
    { induction l as [|x l IH]; intros Hc a b Ha Hb E; [destruct Ha|]. apply andb_true_iff in Hc as [H1 H2].
      assert (Q : forall y, In y l -> py_eq x y = true -> x = y).
      { intros y Hy Ey. eapply forallb_forall in H1; [|exact Hy]. rewrite Ey in H1. cbn in H1. apply atom_eqb_eq. exact H1. }
      destruct Ha as [<-|Ha], Hb as [<-|Hb]; [reflexivity|apply Q; assumption|symmetry; apply Q; [exact Ha|rewrite py_eq_sym; exact E]|apply IH; assumption]. }
    apply Z. vm_compute. reflexivity.
  - discriminate.
  - reflexivity.
  - cbn. lia.
  - apply pl_planted.
  - repeat constructor.
  - vm_compute. reflexivity.
  - vm_compute. reflexivity.
Qed.

(* a key hidden by ignore_private_variables on the way: the diff is empty, the list stays as it was *)
Lemma io_refuted_hidden_key :
  let t1 := VDict [(kP, VList (xs io_X))] in
  let t2 := VDict [(kP, VList (ys io_Y))] in
  let r := run_diff_io hexhash (fun _ _ => []) nos nos io_cfg true (fun _ => []) t1 t2 in
  planted (VList (xs io_X)) (VList (ys io_Y)) [PKey kP] t1 t2 /\ ~ dict_level io_cfg (PKey kP) /\
  apply_io hexhash conv_none_io (fun l => l) (fun l => l) (to_delta_io conv_none_io false false t1 t2 (fst r) (snd r)) t1 = (t1, 0).
Proof.
  cbv zeta. split; [apply (pl_dict _ _ kP [] [] []); constructor|]. split; [cbn; discriminate|vm_compute; reflexivity].
Qed.

(* repetitions (beyond "lists of distinct scalars"): [3, 3] -> [1] with the 3 paired with the 1 rebuilds [1, 1] *)
Lemma io_refuted_repetition :
  let t1 := VList [VAtom (AInt 3); VAtom (AInt 3)] in
  let t2 := VList [VAtom (AInt 1)] in
  let r := run_diff_io hexhash (fun _ _ => []) nos nos io_cfg true (fun p => match p with [] => [(0, 0)] | _ => [] end) t1 t2 in
  apply_io hexhash conv_none_io (fun l => l) (fun l => l) (to_delta_io conv_none_io false false t1 t2 (fst r) (snd r)) t1
  = (VList [VAtom (AInt 1); VAtom (AInt 1)], 0).
Proof. vm_compute. reflexivity. Qed.

(* nested ignore-order lists: [[], [8]] -> [[], [39, 24], [8, 16]] with [8] paired with [8, 16]: the item 16 is
   added to the inner list at its t1 path root[1], where the rebuilt outer list now holds [39, 24] *)
Lemma io_refuted_nested :
  let i z := VAtom (AInt z) in
  let t1 := VList [VList []; VList [i 8%Z]] in
  let t2 := VList [VList []; VList [i 39%Z; i 24%Z]; VList [i 8%Z; i 16%Z]] in
  let r := run_diff_io hexhash (fun _ _ => []) nos nos io_cfg true (fun p => match p with [] => [(2, 1)] | _ => [] end) t1 t2 in
  apply_io hexhash conv_none_io (fun l => l) (fun l => l) (to_delta_io conv_none_io false false t1 t2 (fst r) (snd r)) t1
  = (VList [VList []; VList [i 39%Z; i 16%Z; i 24%Z]; VList [i 8%Z]], 0).
Proof. vm_compute. reflexivity. Qed.

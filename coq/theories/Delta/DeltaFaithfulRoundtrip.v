(** C01 - the round trip for the faithful application (DeltaFaithful.apply_f, where an exception that escapes
    Delta.__add__ is a result).  Inside the guards of DeltaGood.v the faithful run of the delta of a diff either is
    insert-regular - then it is DeltaModel's run and ends in t2 without error - or it raises; when the added paths end
    in non-negative ints (list positions: every delta of a diff) it raises exactly when DeltaModel's run is not
    insert-regular.  [insert_regular] is a boolean of the run; the correspondence check observes it (true on every
    generated pair inside the guards).  That it ALWAYS holds inside the guards is not proved: the induction behind
    roundtrip_at (Good, runs_to) speaks about the final state of DeltaModel's passes, not about their steps. *)
From Coq Require Import List ZArith NArith Bool Arith Lia Permutation.
Import ListNotations.
From DD Require Import Base.PyStr Base.Value Base.ValueFacts Path.PathModel Diff.Tree Diff.DiffModel
  Diff.DiffFacts Delta.DeltaModel Delta.DeltaRun Delta.DeltaGuard Delta.DeltaGood Delta.DeltaRoundtrip
  Delta.DeltaFaithful Delta.DeltaFaithfulProofs.

Section RoundtripF.
Variable hatom : atom -> pystr.
Variable udiff : pystr -> pystr -> pystr.
Variable ops : path -> list value -> list value -> list opcode.
Variable c : cfg.
Variable conv : ty -> value -> option value.
Variables bidir always : bool.
Hypothesis Hinj : forall a b, hatom a = hatom b -> a = b.
Hypothesis Hconv : forall ty0 v v', conv ty0 v = Some v' -> type_of v' = ty0.

Theorem roundtrip_f_at ro ao t1 t2 :
  guards c conv bidir always t1 t2 -> opsv ops t1 t2 [] ->
  let r := run_diff hatom udiff ops nos nos c t1 t2 in
  let d := to_delta conv bidir always ops t1 t2 (fst r) (snd r) in
  orders_ok_at ro ao d ->
  insert_regular conv ro ao d t1 = true ->
  exists t2', apply_f conv ro ao d t1 = inr (t2', 0) /\ veqb t2' t2 = true.
Proof.
  intros G OV r d HO HR.
  destruct (roundtrip_at hatom udiff ops c conv bidir always Hinj Hconv ro ao t1 t2 G OV HO) as (t2' & HA & HV).
  exists t2'. split; [|exact HV]. fold r in HA. fold d in HA. rewrite (apply_f_sound conv ro ao d t1 HR), HA. reflexivity.
Qed.

(* the delta of a diff inside the guards moves nothing *)
Lemma diff_delta_no_moved t1 t2 :
  guards c conv bidir always t1 t2 -> opsv ops t1 t2 [] ->
  let r := run_diff hatom udiff ops nos nos c t1 t2 in
  d_moved (to_delta conv bidir always ops t1 t2 (fst r) (snd r)) = [].
Proof.
  intros G OV r.
  pose proof (good_all hatom udiff ops c conv bidir always Hinj Hconv t1 t2 [] G OV t1 t2 eq_refl eq_refl) as [Hm _].
  assert (Ed : to_delta conv bidir always ops t1 t2 (fst r) (snd r) = D hatom udiff ops c conv bidir always t1 t2 t1 t2 []).
  { unfold r, run_diff, D, E. destruct (diff hatom udiff ops nos nos c t1 t2 [] []) as [es rec]. reflexivity. }
  rewrite Ed. exact Hm.
Qed.

(* exactly two outcomes inside the guards: an exception at an insertion (DeltaModel's run is not insert-regular),
   or t2 without error *)
Theorem roundtrip_f_or_raises ro ao t1 t2 :
  guards c conv bidir always t1 t2 -> opsv ops t1 t2 [] ->
  let r := run_diff hatom udiff ops nos nos c t1 t2 in
  let d := to_delta conv bidir always ops t1 t2 (fst r) (snd r) in
  orders_ok_at ro ao d -> nonneg_paths d = true ->
  ((exists e, apply_f conv ro ao d t1 = inl e) /\ insert_regular conv ro ao d t1 = false) \/
  (exists t2', apply_f conv ro ao d t1 = inr (t2', 0) /\ veqb t2' t2 = true /\ insert_regular conv ro ao d t1 = true).
Proof.
  intros G OV r d HO NN. destruct (insert_regular conv ro ao d t1) eqn:HR.
  - right. destruct (roundtrip_f_at ro ao t1 t2 G OV HO HR) as (t2' & HA & HV). exists t2'. repeat split; assumption.
  - left. split; [|reflexivity].
    assert (Hin : forall x, In x (ao (added_items d)) -> In x (added_items d)).
    2:{ apply (proj2 (apply_f_raises_iff conv ro ao d t1 NN Hin)). exact HR. }
    assert (Hm : d_moved d = []) by (apply (diff_delta_no_moved t1 t2 G OV)).
    intros x. unfold added_items. rewrite Hm. cbn [map]. rewrite app_nil_r. intros Hx.
    destruct HO as (_ & _ & [P _]). eapply Permutation_in; [apply Permutation_sym; exact P|exact Hx].
Qed.
End RoundtripF.

(** C08, verification half, beyond values_changed / type_changes: what
    _do_item_removed verifies.  The recorded value of a removed item is compared
    with the value found (Python !=) whenever the parent object is NOT a list
    (dictionary_item_removed; iterable_item_removed from a tuple) and the item
    exists; a missing parent is an error as well.  For list parents the code looks
    for the recorded value elsewhere and skips silently when it is not found; a
    missing dict key is skipped silently; set items, added items and opcodes are
    not verified at all (documented behaviour - the witnesses are in
    DeltaVerifyEx2.v).  Statements for ALL deltas and ALL bases, for the root as
    the step that reaches the entry sees it. *)
From Coq Require Import List ZArith NArith Bool Arith Lia.
Import ListNotations.
From DD Require Import Base.PyStr Base.Value Base.ValueFacts Path.PathModel
  Diff.Tree Diff.DiffModel Delta.DeltaModel Delta.DeltaVerify.

(* "the root r does not verify against the removal of (p, expected)": the parent of
   p is missing, or it is not a list and holds at the last key of p a value that is
   != (Python) the recorded one *)
Definition rem_bad (r : value) (p : path) (expected : value) : bool :=
  match p with
  | [] => false
  | _ => match resolve r (removelast p) with
         | Some obj =>
             negb (is_list obj) &&
             match get_item obj (key_atom (last p (PIdx 0))) with
             | Some cur => negb (py_eqv expected cur)
             | None => false
             end
         | None => true
         end
  end.

Definition rstep (s : st) (pv : path * value) : st := remove_one true s (fst pv) (snd pv).

Lemma remove_one_detect s p e : rem_bad (root s) p e = true -> errs s < errs (remove_one true s p e).
Proof.
  unfold rem_bad, remove_one. destruct p as [|k p]; [discriminate|].
  set (op := removelast (k :: p)). set (kk := key_atom (last (k :: p) (PIdx 0))).
  destruct (resolve (root s) op) as [obj|]; [|intros _; cbn; lia].
  intros H. apply andb_true_iff in H as [L H].
  destruct (get_item obj kk) as [cur|] eqn:G; [|discriminate]. apply negb_true_iff in H.
  pose proof (del_elem_mono s op kk) as M.
  destruct obj; try discriminate L; unfold verify; rewrite H; cbn [errs err]; lia.
Qed.

Section More.
Variable conv : ty -> value -> option value.
Variable rem_order : list (path * value) -> list (path * value).
Variable add_order : list (path * option value) -> list (path * option value).
Notation apply := (apply conv rem_order add_order).
Notation passes := (passes conv rem_order add_order).

Lemma rfold_mono l : mono (fold_left rstep l).
Proof. apply fold_mono. intros s x. apply remove_one_mono. Qed.

Theorem item_removed_detect_when_reached l l1 p e l2 s :
  rem_order l = l1 ++ (p, e) :: l2 ->
  rem_bad (root (fold_left rstep l1 s)) p e = true ->
  errs s < errs (do_item_removed rem_order true l s).
Proof.
  intros E H. unfold do_item_removed. rewrite E.
  change (fun (s0 : st) (pv : path * value) => remove_one true s0 (fst pv) (snd pv)) with rstep.
  rewrite fold_left_app. cbn [fold_left].
  assert (HR : rstep (fold_left rstep l1 s) (p, e) = remove_one true (fold_left rstep l1 s) p e) by reflexivity.
  rewrite HR.
  pose proof (rfold_mono l1 s) as M1. pose proof (remove_one_detect _ _ _ H) as M2.
  pose proof (rfold_mono l2 (remove_one true (fold_left rstep l1 s) p e)) as M3. lia.
Qed.

(* the states in which the two removal passes start *)
Definition before_irem (d : delta) (v : value) : st :=
  do_opcodes (d_ops d) (do_type_changes conv (d_bidir d) (d_type d) (before_types d v)).
Definition before_drem (d : delta) (v : value) : st :=
  do_item_added add_order false false (map (fun pv => (fst pv, Some (snd pv))) (d_dadd d))
    (do_iterable_item_added add_order d (do_iterable_item_removed rem_order (d_bidir d) d (before_irem d v))).

Lemma prefix9 d v :
  run_passes (firstn 9 (passes d)) (mkSt v [] 0) = do_item_removed rem_order (d_bidir d) (d_drem d) (before_drem d v).
Proof. reflexivity. Qed.
Lemma prefix6 d v :
  run_passes (firstn 6 (passes d)) (mkSt v [] 0) = do_iterable_item_removed rem_order (d_bidir d) d (before_irem d v).
Proof. reflexivity. Qed.

(* dictionary_item_removed (and every removal whose parent is not a list) *)
Theorem apply_detects_removed_when_reached d v l1 p e l2 :
  d_bidir d = true -> rem_order (d_drem d) = l1 ++ (p, e) :: l2 ->
  rem_bad (root (fold_left rstep l1 (before_drem d v))) p e = true ->
  0 < snd (apply d v).
Proof.
  intros B E H. pose proof (errs_after_prefix conv rem_order add_order d v 9) as P.
  rewrite prefix9, B in P.
  pose proof (item_removed_detect_when_reached (d_drem d) l1 p e l2 (before_drem d v) E H). lia.
Qed.

(* iterable_item_removed / moved items (relevant when the parent is a tuple) *)
Theorem apply_detects_iter_removed_when_reached d v l1 p e l2 :
  d_bidir d = true ->
  rem_order (d_irem d ++ map (fun m => (fst (fst m), snd m)) (d_moved d)) = l1 ++ (p, e) :: l2 ->
  rem_bad (root (fold_left rstep l1 (before_irem d v))) p e = true ->
  0 < snd (apply d v).
Proof.
  intros B E H. pose proof (errs_after_prefix conv rem_order add_order d v 6) as P.
  rewrite prefix6, B in P. unfold do_iterable_item_removed in P.
  pose proof (item_removed_detect_when_reached _ l1 p e l2 (before_irem d v) E H). lia.
Qed.

End More.

(* ------------------------------------------------------------------ *)
(* the same clause for subtraction: a base that differs from the       *)
(* recorded NEW value at a changed location is reported by  v - d      *)
(* ------------------------------------------------------------------ *)
(* where the reverse delta looks: new_path when there is one, else the path *)
Definition rpath (c : vchange) : path := match vc_new_path c with Some q => q | None => vc_path c end.
Definition rtpath (c : tchange) : path := match tc_new_path c with Some q => q | None => tc_path c end.

Section SubDetect.
Variable conv : ty -> value -> option value.
Variable rem_order : list (path * value) -> list (path * value).
Variable add_order : list (path * option value) -> list (path * option value).

Theorem sub_detects_value d v c :
  d_bidir d = true -> pairwise_div (map vc_path (d_val (reverse d))) = true ->
  In c (d_val d) -> old_mismatch v (rpath c) (Some (vc_new c)) = true ->
  exists r n, sub conv rem_order add_order d v = Some (r, n) /\ 0 < n.
Proof.
  intros B P Hin H. unfold sub. rewrite B.
  destruct (apply conv rem_order add_order (reverse d) v) as [r n] eqn:E. exists r, n. split; [reflexivity|].
  change n with (snd (r, n)). rewrite <- E.
  apply (apply_detects_value_indep conv rem_order add_order (reverse d) v
           (mkVC (rpath c) None (Some (vc_new c)) (match vc_old c with Some o => o | None => VAtom ANone end))).
  - cbn. exact B.
  - exact P.
  - cbn [reverse d_val]. apply in_map_iff. exists c. split; [reflexivity|exact Hin].
  - exact H.
Qed.

Theorem sub_detects_type d v c :
  d_bidir d = true -> indep_verified (reverse d) = true ->
  In c (d_type d) -> old_mismatch v (rtpath c) (tc_new c) = true ->
  exists r n, sub conv rem_order add_order d v = Some (r, n) /\ 0 < n.
Proof.
  intros B P Hin H. unfold sub. rewrite B.
  destruct (apply conv rem_order add_order (reverse d) v) as [r n] eqn:E. exists r, n. split; [reflexivity|].
  change n with (snd (r, n)). rewrite <- E.
  apply (apply_detects_type_indep conv rem_order add_order (reverse d) v
           (mkTC (rtpath c) None (tc_new_ty c) (tc_old_ty c) (tc_new c) (tc_old c))).
  - cbn. exact B.
  - exact P.
  - cbn [reverse d_type]. apply in_map_iff. exists c. split; [reflexivity|exact Hin].
  - exact H.
Qed.

End SubDetect.

(** Model of the Delta of two numeric numpy arrays of one dtype and of its application
    to an array ("numpy arrays edited in place", property C01):

        Delta(DeepDiff(a, b), bidirectional=bidir) + c

    The diff side is Diff/NpModel.v ([np_run_diff]).  Here:

    payload  (serialization.py _to_delta_dict, model.py DeltaResult._from_tree_value_changed)
      every values_changed level of the tree becomes   path -> {'new_value': t2 [, 'old_value': t1]}
      ('old_value' is deleted again unless the delta is bidirectional; always_include_values
      does not change that), plus  '_numpy_paths': {'root': get_type(t2).__name__}  whenever
      _diff_numpy_array was reached (same dtype.type on both sides).  The path is the string
      "root[i]" / "root[i][j]..." which Delta parses back (path._path_to_elements) into the
      plain index sequence: the index tuple of a NumpyArrayRelationship is flattened.  The
      model keeps the index sequence ([nc_path]); rendering + parsing of the string is crossed
      by the correspondence check only.

    application  (delta.py __add__ -> _do_values_changed -> _do_values_or_type_changed ->
                  _get_elements_and_details / _get_elem_and_compare_to_old_value / _set_new_value ->
                  _simple_set_elem_value: obj[elem] = value, on the deep copy of the operand)
      for every entry, in payload order: walk the indexes ([locate]); every index must be in
      range of its axis and there must not be more indexes than dimensions, else ONE
      _raise_or_log call and the entry is skipped (IndexError from the walk or from reading the
      old element; "invalid index to scalar variable" for a path that is too long).  A path that
      is SHORTER than the number of dimensions addresses a whole sub-block: numpy broadcasts the
      scalar over it (no error).  Hence [locate] returns (offset, block length) in the row-major
      data and [fill] writes the value over the block (length 1 for a full path).
      The value is cast to the array's dtype by numpy ([np_cast]): float -> int truncates
      towards zero, anything -> bool is "!= 0", None -> bool is False; None into an int array is
      a TypeError which Delta logs (one error, entry skipped).
      bidirectional: after the assignment _do_verify_changes logs one more error when
      'old_value' is missing or != the element read before the assignment ([verify_errs]).
      _do_pre_process / _do_post_process do nothing (no iterable_item_added / removed in the
      payload); the other passes find nothing to do.

    The result is (array, number of _raise_or_log calls).  The operand itself is never
    modified (deepcopy): trivial here (the model is a function), checked dynamically.

    Outside the model ([np_dom] is the domain predicate of [apply_np]):
      - the empty path "root" (the code replaces the root object by the scalar);
      - new values that are str / bytes (ValueError escapes from Delta), None into float64 (NaN);
      - bidirectional + a path shorter than the number of dimensions + an 'old_value' (the
        comparison of a scalar with a sub-array is an array: "truth value is ambiguous" escapes);
      - integer overflow of int32 / int64, floats beyond 2^53, NaN (as in NpModel);
      - negative indexes (legal in a hand-written path, never produced by DeepDiff);
      - type_changes between dtypes (np_array_factory), different shapes (tolist + list passes +
        _do_pre_process / _do_post_process): such diffs are not representable ([np_in_model]).
    Definitions only. *)
From Coq Require Import List ZArith NArith Bool Arith.
Import ListNotations.
From DD Require Import Base.PyStr Base.Value Path.PathModel Diff.Tree Diff.DiffModel Diff.NpModel.

(* ---- payload ---- *)
Record npchange := mkNC {
  nc_path : list nat;          (* indexes after "root" *)
  nc_new : atom;               (* 'new_value' *)
  nc_old : option atom         (* 'old_value' (bidirectional deltas only) *)
}.
Record npdelta := mkND {
  nd_changes : list npchange;  (* values_changed, in dict (= report) order *)
  nd_numpy : option ndtype     (* _numpy_paths['root'] *)
}.

(* the indexes a path element contributes to "root[..][..]" *)
Definition idx_of_key (k : npkey) : option (list nat) :=
  match k with
  | NK (PIdx i) => Some [i]
  | NK (PKey _) => None
  | NTup t => Some t
  end.
Fixpoint idx_of_path (p : npath) : option (list nat) :=
  match p with
  | [] => Some []
  | k :: r =>
      match idx_of_key k, idx_of_path r with
      | Some t, Some u => Some (t ++ u)
      | _, _ => None
      end
  end.

(* DeltaResult._from_tree_value_changed on one level; None = not a values_changed between
   two numpy scalars (outside this model) *)
Definition change_of (bidir : bool) (e : nentry) : option npchange :=
  match nkind e, idx_of_path (np1 e), nt1 e, nt2 e with
  | KValue, Some p, Some (LNp _ x), Some (LNp _ y) => Some (mkNC p y (if bidir then Some x else None))
  | _, _, _, _ => None
  end.

Definition np_changes (bidir : bool) (es : list nentry) : list npchange :=
  flat_map (fun e => match change_of bidir e with Some c => [c] | None => [] end) es.

(* every level is representable, and no 'new_path' is needed (path == new_path) *)
Definition np_in_model (es : list nentry) : bool :=
  forallb (fun e => match change_of false e with Some _ => npath_eqb (np1 e) (np2 e) | None => false end) es.

(* _numpy_paths: set on entering _diff_numpy_array, i.e. when get_type (dtype.type) agrees *)
Definition np_numpy_paths (a b : narr) : option ndtype :=
  if ndtype_eqb (dtype a) (dtype b) then Some (dtype b) else None.

Definition delta_np (bidir : bool) (a b : narr) (es : list nentry) : npdelta :=
  mkND (np_changes bidir es) (np_numpy_paths a b).

(* Delta(DeepDiff(a, b), bidirectional=bidir).diff *)
Definition np_delta (ops : path -> list value -> list value -> list opcode) (zip bidir : bool)
                    (a b : narr) : npdelta :=
  delta_np bidir a b (np_run_diff ops zip a b).

(* ---- application ---- *)
(* successive obj = obj[i] from offset off of a block of shape sh: Some (offset, length of the
   addressed block), None = IndexError *)
Fixpoint locate (sh p : list nat) (off : nat) {struct p} : option (nat * nat) :=
  match p with
  | [] => Some (off, prod sh)
  | i :: p' =>
      match sh with
      | [] => None                                  (* indexing a scalar *)
      | n :: sh' => if Nat.ltb i n then locate sh' p' (off + i * prod sh') else None
      end
  end.

(* view[...] = v on len elements from off *)
Definition fill (l : list atom) (off len : nat) (v : atom) : list atom :=
  firstn off l ++ repeat v len ++ skipn (off + len) l.

(* numpy's cast of an assigned Python / numpy scalar to the dtype; None = TypeError
   (logged by Delta) for None into an int array, and everything outside [np_val_dom] *)
Definition np_cast (d : ndtype) (v : atom) : option atom :=
  match d, v with
  | DInt64, AInt z | DInt32, AInt z => Some (AInt z)
  | DInt64, ABool b | DInt32, ABool b => Some (AInt (if b then 1 else 0))
  | DInt64, AHalf t | DInt32, AHalf t => Some (AInt (Z.quot t 2))
  | DFloat64, AInt z => Some (AHalf (2 * z))
  | DFloat64, ABool b => Some (AHalf (if b then 2 else 0))
  | DFloat64, AHalf t => Some (AHalf t)
  | DBool, AInt z => Some (ABool (negb (Z.eqb z 0)))
  | DBool, AHalf t => Some (ABool (negb (Z.eqb t 0)))
  | DBool, ABool b => Some (ABool b)
  | DBool, ANone => Some (ABool false)
  | _, _ => None
  end.

(* _do_verify_changes: expected_old_value != current_old_value, bidirectional only *)
Definition verify_errs (bidir : bool) (old : option atom) (cur : atom) : nat :=
  if bidir then match old with Some o => if py_eq o cur then 0 else 1 | None => 1 end else 0.

(* one iteration of _do_values_or_type_changed on the array *)
Definition apply_one (bidir : bool) (a : narr) (c : npchange) : narr * nat :=
  match locate (shape a) (nc_path c) 0 with
  | None => (a, 1)
  | Some (off, len) =>
      let v_err := verify_errs bidir (nc_old c) (nth off (data a) ANone) in
      match np_cast (dtype a) (nc_new c) with
      | None => (a, 1 + v_err)
      | Some v => (mkArr (dtype a) (shape a) (fill (data a) off len v), v_err)
      end
  end.

Definition apply_step (bidir : bool) (st : narr * nat) (c : npchange) : narr * nat :=
  let r := apply_one bidir (fst st) c in (fst r, snd st + snd r).

(* delta + c : the resulting array and the number of _raise_or_log calls *)
Definition apply_np (bidir : bool) (p : npdelta) (c : narr) : narr * nat :=
  fold_left (apply_step bidir) (nd_changes p) (c, 0).

(* ---- domain of [apply_np] ---- *)
Definition np_val_dom (d : ndtype) (v : atom) : bool :=
  match v with
  | ABool _ | AInt _ | AHalf _ => true
  | ANone => match d with DFloat64 => false | _ => true end
  | _ => false
  end.
Definition np_change_dom (bidir : bool) (a : narr) (c : npchange) : bool :=
  match nc_path c with [] => false | _ :: _ => true end
  && np_val_dom (dtype a) (nc_new c)
  && (negb bidir || Nat.leb (length (shape a)) (length (nc_path c))
      || match nc_old c with None => true | Some _ => false end).
Definition np_dom (bidir : bool) (p : npdelta) (a : narr) : bool :=
  forallb (np_change_dom bidir a) (nd_changes p).

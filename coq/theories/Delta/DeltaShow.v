(** sx renderings and table oracles for the Delta correspondence. *)
From Coq Require Import List ZArith NArith Bool Arith String.
Import ListNotations.
From DD Require Import Base.Sx Base.PyStr Base.Value Path.PathModel Diff.Tree Diff.DiffModel Diff.DiffShow Delta.DeltaModel.
Local Open Scope string_scope.

Definition sx_tag (t : optag) : sx :=
  SA (match t with OEqual => "equal" | OReplace => "replace" | ODelete => "delete" | OInsert => "insert" end).
Definition sx_opv (o : opv) : sx :=
  SL [sx_tag (ov_tag o); sx_nat (ov_i1 o); sx_nat (ov_i2 o); sx_nat (ov_j1 o); sx_nat (ov_j2 o);
      sx_list sx_value (ov_new o); sx_opt (sx_list sx_value) (ov_old o)].
Definition sx_pv (tag : string) (pv : path * value) : sx := SL [SA tag; sx_path (fst pv); sx_value (snd pv)].
Definition sx_delta (d : delta) : sx :=
  SL (sx_sort (
    map (fun c => SL [SA "val"; sx_path (vc_path c); sx_opt sx_path (vc_new_path c); sx_opt sx_value (vc_old c); sx_value (vc_new c)]) (d_val d)
    ++ map (fun c => SL [SA "type"; sx_path (tc_path c); sx_opt sx_path (tc_new_path c); sx_ty (tc_old_ty c); sx_ty (tc_new_ty c);
                          sx_opt sx_value (tc_old c); sx_opt sx_value (tc_new c)]) (d_type d)
    ++ map (sx_pv "dadd") (d_dadd d) ++ map (sx_pv "drem") (d_drem d)
    ++ map (sx_pv "iadd") (d_iadd d) ++ map (sx_pv "irem") (d_irem d)
    ++ map (fun m => SL [SA "moved"; sx_path (fst (fst m)); sx_path (snd (fst m)); sx_value (snd m)]) (d_moved d)
    ++ map (fun pa => SL [SA "sadd"; sx_path (fst pa); SL (sx_sort (map sx_atom (snd pa)))]) (d_sadd d)
    ++ map (fun pa => SL [SA "srem"; sx_path (fst pa); SL (sx_sort (map sx_atom (snd pa)))]) (d_srem d)
    ++ map (fun po => SL [SA "ops"; sx_path (fst po); sx_list sx_opv (snd po)]) (d_ops d))).

(* dict results are compared without their insertion order *)
Fixpoint sx_value_unordered (v : value) : sx :=
  match v with
  | VAtom a => sx_atom a
  | VList xs => SL [SA "L"; SL (map sx_value_unordered xs)]
  | VTuple xs => SL [SA "T"; SL (map sx_value_unordered xs)]
  | VDict kvs => SL [SA "D"; SL (sx_sort (map (fun kv => SL [sx_atom (fst kv); sx_value_unordered (snd kv)]) kvs))]
  | VSet xs => SL [SA "S"; SL (sx_sort (map sx_atom xs))]
  | VFrozen xs => SL [SA "F"; SL (sx_sort (map sx_atom xs))]
  end.
Definition sx_result (r : value * nat) : sx :=
  SL [sx_value_unordered (fst r); sx_bool (Nat.ltb 0 (snd r))].
Definition sx_sub_result (r : option (value * nat)) : sx :=
  match r with Some x => sx_result x | None => SA "NotBidirectional" end.

(* oracles as tables *)
Definition tbl_conv (t : list (ty * value * option value)) (ty0 : ty) (v : value) : option value :=
  (* set iteration order is not part of the key: compare the renderings, which sort set members *)
  match find (fun x => ty_eqb (fst (fst x)) ty0 && sx_eqb (sx_value (snd (fst x))) (sx_value v)) t with
  | Some x => snd x
  | None => None
  end.
Definition rank_of (t : list path) (p : path) : nat :=
  (fix go (l : list path) (i : nat) : nat :=
     match l with [] => i | q :: r => if path_eqb p q then i else go r (S i) end) t 0.
Fixpoint insert_by {A} (rk : A -> nat) (x : A) (l : list A) : list A :=
  match l with
  | [] => [x]
  | y :: r => if Nat.leb (rk x) (rk y) then x :: l else y :: insert_by rk x r
  end.
Definition order_by {A} (t : list path) (pth : A -> path) (l : list A) : list A :=
  fold_right (insert_by (fun x => rank_of t (pth x))) [] l.

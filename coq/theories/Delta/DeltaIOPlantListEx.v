(** C01, ignore_order clause below list levels: a concrete instance of [io_roundtrip_levels] (the hypotheses of a list
    level are satisfiable, with the implementation's pairings) and witnesses for what happens at a list level when the
    pairing does not pair the two planted items (the whole item is removed and added: the result is t2 itself there). *)
From Coq Require Import List ZArith NArith Bool Arith Lia Permutation.
Import ListNotations.
From DD Require Import Base.PyStr Base.Value Base.ValueFacts Path.PathModel Diff.Tree Diff.DiffModel
  Hash.HashModel Hash.HexHash DiffIO.DiffIOModel
  Delta.DeltaModel Delta.DeltaGuard Delta.DeltaGood Delta.DeltaIO Delta.DeltaIOProofs Delta.DeltaIOReloc Delta.DeltaIOPre
  Delta.DeltaIOLocal Delta.DeltaIOPlant Delta.DeltaIOPlantEx Delta.DeltaIOPlantList.

Definition ll_X : list atom := [AInt 1; AInt 2; AInt 3; AInt 4].
Definition ll_Y : list atom := [AInt 2; AInt 1; AInt 4; AInt 7].
Definition kX : atom := AStr [120%N].           (* 'x' *)
(* {'k': [0, <list>, 'x']} *)
Definition ll_ctx (v : value) : value := VDict [(kK, VList [VAtom (AInt 0); v; VAtom kX])].
Definition ll_q : path := [PKey kK; PIdx 1].
Definition ll_t1 := ll_ctx (VList (xs ll_X)).
Definition ll_t2 := ll_ctx (VList (ys ll_Y)).
(* the pairings the implementation chose: at root['k'] the two lists, at root['k'][1] t2[3]=7 with t1[2]=3 *)
Definition ll_pairs (p : path) : list (nat * nat) :=
  if path_eqb p [PKey kK] then [(1, 1)] else if path_eqb p ll_q then [(3, 2)] else [].

Lemma ll_lev_ok : lev_ok hexhash io_cfg ll_pairs (VList (xs ll_X)) (VList (ys ll_Y)) [] ll_q ll_t1 ll_t2.
Proof.
  unfold ll_t1, ll_t2, ll_ctx, ll_q.
  apply (lo_dict hexhash io_cfg ll_pairs _ _ [] kK [] [] [PIdx 1]); [reflexivity|].
  apply (lo_list hexhash io_cfg ll_pairs _ _ (snoc [] (PKey kK)) [VAtom (AInt 0)] [VAtom kX] []).
  - apply mem_h_false. vm_compute. reflexivity.
  - apply mem_h_false. vm_compute. reflexivity.
  - intros E. assert (Z : pystr_eqb (hv hexhash io_cfg true (VList (xs ll_X))) (hv hexhash io_cfg true (VList (ys ll_Y))) = false) by (vm_compute; reflexivity).
    rewrite E, pystr_eqb_refl in Z. discriminate.
  - reflexivity.
  - constructor.
Qed.

Definition ll_result : value * nat :=
  let r := run_diff_io hexhash (fun _ _ => []) nos nos io_cfg true ll_pairs ll_t1 ll_t2 in
  apply_io hexhash conv_none_io (fun l => l) (fun l => l) (to_delta_io conv_none_io false false ll_t1 ll_t2 (fst r) (snd r)) ll_t1.

Lemma ll_example :
  (exists u' zs, ll_result = (u', 0) /\ planted (VList (xs ll_X)) (VList zs) ll_q ll_t1 u' /\ Permutation zs (ys ll_Y)) /\
  ll_result = (ll_ctx (VList (map VAtom [AInt 1; AInt 2; AInt 7; AInt 4])), 0).
Proof.
  split; [|vm_compute; reflexivity].
  apply (io_roundtrip_levels hexhash (fun _ _ => []) io_cfg ll_pairs conv_none_io false false (fun l => l) (fun l => l) ll_X ll_Y).
  - apply inj_on_check. vm_compute. reflexivity.
  - apply nodupb_sound. vm_compute. reflexivity.
  - apply nodupb_sound. vm_compute. reflexivity.
  - assert (Z : forall l, (fix afb (l : list atom) : bool := match l with [] => true | a :: r => forallb (fun b => negb (py_eq a b) || atom_eqb a b) r && afb r end) l = true -> alias_free l).
    { induction l as [|x l IH]; intros Hc a b Ha Hb E; [destruct Ha|]. apply andb_true_iff in Hc as [H1 H2].
      assert (Q : forall y, In y l -> py_eq x y = true -> x = y).
      { intros y Hy Ey. eapply forallb_forall in H1; [|exact Hy]. rewrite Ey in H1. cbn in H1. apply atom_eqb_eq. exact H1. }
      destruct Ha as [<-|Ha], Hb as [<-|Hb]; [reflexivity|apply Q; assumption|symmetry; apply Q; [exact Ha|rewrite py_eq_sym; exact E]|apply IH; assumption]. }
    apply Z. vm_compute. reflexivity.
  - discriminate.
  - reflexivity.
  - cbn. lia.
  - exact ll_lev_ok.
  - vm_compute. reflexivity.
  - vm_compute. reflexivity.
Qed.

(* the same pair when the pairing of the list level does NOT pair the two lists: the whole item is removed and added,
   and the rebuilt outer list holds t2's list itself ([2,1,4,7], in t2's order) *)
Lemma ll_unpaired :
  let r := run_diff_io hexhash (fun _ _ => []) nos nos io_cfg true (fun _ => []) ll_t1 ll_t2 in
  apply_io hexhash conv_none_io (fun l => l) (fun l => l) (to_delta_io conv_none_io false false ll_t1 ll_t2 (fst r) (snd r)) ll_t1 = (ll_t2, 0).
Proof. vm_compute. reflexivity. Qed.

(** C01 - t1 + Delta(DeepDiff(t1, t2)) = t2: the round trip for every pair of
    nested values inside the guards, by structural induction on t1. *)
From Coq Require Import List ZArith NArith Bool Arith Lia Permutation.
Import ListNotations.
From DD Require Import Base.PyStr Base.Value Base.ValueFacts Path.PathModel Diff.Tree Diff.DiffModel
  Diff.DiffFacts Diff.DiffFaithful Delta.DeltaModel Delta.DeltaFacts Delta.DeltaLocal Delta.DeltaEntries
  Delta.DeltaStruct Delta.DeltaRun Delta.DeltaGuard Delta.DeltaGood Delta.DeltaNodes Delta.DeltaCompose
  Delta.DeltaListNode Delta.DeltaListSim Delta.DeltaDictNode Delta.DeltaDictSim Delta.DeltaSets Delta.DeltaSeq Delta.DeltaSeqNodes Delta.DeltaLeaves.

Section Roundtrip.
Variable hatom : atom -> pystr.
Variable udiff : pystr -> pystr -> pystr.
Variable ops : path -> list value -> list value -> list opcode.
Variable c : cfg.
Variable conv : ty -> value -> option value.
Variables bidir always : bool.
Notation Good := (Good hatom udiff ops c conv bidir always).
Notation guards := (guards c conv bidir always).
Notation okp := (okp conv bidir always).
Notation okp_list := (okp_list conv bidir always).
Notation okp_dict := (okp_dict conv bidir always).
Notation opsv := (opsv ops).
Notation opsv_list := (opsv_list ops).
Notation opsv_dict := (opsv_dict ops).

Hypothesis Hinj : forall a b, hatom a = hatom b -> a = b.
Hypothesis Hconv : forall ty0 v v', conv ty0 v = Some v' -> type_of v' = ty0.

Lemma okp_list_nth xs : forall ys k x y,
  okp_list xs ys -> nth_error xs k = Some x -> nth_error ys k = Some y -> okp x y.
Proof.
  induction xs as [|x0 xs IH]; intros ys k x y H Hx Hy; [destruct k; discriminate|].
  destruct ys as [|y0 ys]; [destruct k; discriminate|]. cbn in H. destruct H as [H0 H].
  destruct k as [|k]; cbn in Hx, Hy.
  - inversion Hx; inversion Hy; subst. exact H0.
  - eapply IH; eassumption.
Qed.

Lemma okp_dict_in kvs2 l k v1 v2 : okp_dict kvs2 l -> In (k, v1) l -> assoc k kvs2 = Some v2 -> okp v1 v2.
Proof.
  induction l as [|[k0 v0] l IH]; intros H Hin A; [destruct Hin|]. cbn in H. destruct H as [H0 H].
  destruct Hin as [Hin|Hin].
  - inversion Hin; subst. rewrite A in H0. exact H0.
  - apply IH; assumption.
Qed.

Lemma opsv_list_nth q xs : forall ys i k x y,
  opsv_list q xs ys i -> nth_error xs k = Some x -> nth_error ys k = Some y -> opsv x y (snoc q (PIdx (i + k))).
Proof.
  induction xs as [|x0 xs IH]; intros ys i k x y H Hx Hy; [destruct k; discriminate|].
  destruct ys as [|y0 ys]; [destruct k; discriminate|]. cbn in H. destruct H as [H0 H].
  destruct k as [|k]; cbn in Hx, Hy.
  - inversion Hx; inversion Hy; subst. rewrite Nat.add_0_r. exact H0.
  - rewrite Nat.add_succ_r. apply (IH ys (S i) k x y H Hx Hy).
Qed.

Lemma opsv_dict_in q kvs2 l k v1 v2 : opsv_dict q kvs2 l -> In (k, v1) l -> assoc k kvs2 = Some v2 -> opsv v1 v2 (snoc q (PKey k)).
Proof.
  induction l as [|[k0 v0] l IH]; intros H Hin A; [destruct Hin|]. cbn in H. destruct H as [H0 H].
  destruct Hin as [Hin|Hin].
  - inversion Hin; subst. rewrite A in H0. exact H0.
  - apply IH; assumption.
Qed.

Lemma guards_list_child xs ys k x y :
  guards (VList xs) (VList ys) -> nth_error xs k = Some x -> nth_error ys k = Some y -> guards x y.
Proof.
  intros (W1 & W2 & AF & OK & NP) Hx Hy. cbn [wf] in W1, W2.
  pose proof (nth_error_In _ _ Hx) as Ix. pose proof (nth_error_In _ _ Hy) as Iy.
  split; [eapply forallb_forall in W1; eassumption|]. split; [eapply forallb_forall in W2; eassumption|].
  split; [|split].
  - eapply alias_free_sub; [|exact AF]. intros a Ha. cbn [atoms_of]. apply in_app_or in Ha as [Ha|Ha]; apply in_or_app; [left|right];
      apply in_flat_map; eexists; split; eassumption.
  - rewrite okp_list_eq in OK. eapply okp_list_nth; eassumption.
  - destruct NP as [NP|[NP1 NP2]]; [left; exact NP|right]. cbn [nopriv] in NP1, NP2. split.
    + eapply forallb_forall in NP1; eassumption.
    + eapply forallb_forall in NP2; eassumption.
Qed.

Lemma guards_dict_child kvs1 kvs2 k v1 v2 :
  guards (VDict kvs1) (VDict kvs2) -> In (k, v1) kvs1 -> assoc k kvs2 = Some v2 -> guards v1 v2.
Proof.
  intros (W1 & W2 & AF & OK & NP) Hin A. cbn [wf] in W1, W2.
  apply andb_true_iff in W1 as [_ W1], W2 as [_ W2].
  destruct (assoc_In k kvs2 v2 A) as (k' & Hin2 & _).
  split; [eapply forallb_forall in W1; [|exact Hin]; exact W1|]. split; [eapply forallb_forall in W2; [|exact Hin2]; exact W2|].
  split; [|split].
  - eapply alias_free_sub; [|exact AF]. intros a Ha. cbn [atoms_of]. apply in_app_or in Ha as [Ha|Ha]; apply in_or_app; [left|right];
      apply in_flat_map; eexists; (split; [eassumption|]); right; exact Ha.
  - rewrite okp_dict_eq in OK. eapply okp_dict_in; eassumption.
  - destruct NP as [NP|[NP1 NP2]]; [left; exact NP|right]. cbn [nopriv] in NP1, NP2. split.
    + eapply forallb_forall in NP1; [|exact Hin]. apply andb_true_iff in NP1 as [_ NP1]. exact NP1.
    + eapply forallb_forall in NP2; [|exact Hin2]. apply andb_true_iff in NP2 as [_ NP2]. exact NP2.
Qed.

Lemma guards_keep kvs1 kvs2 :
  guards (VDict kvs1) (VDict kvs2) ->
  (forall k, In k (map fst kvs1) -> keep_key c k = true) /\ (forall k, In k (map fst kvs2) -> keep_key c k = true).
Proof.
  intros (_ & _ & _ & _ & NP). unfold keep_key. destruct NP as [NP|[NP1 NP2]].
  - rewrite NP. split; reflexivity.
  - cbn [nopriv] in NP1, NP2. split; intros k Hk; apply in_map_iff in Hk as ([k0 v] & E0 & Hin); cbn in E0; subst k0.
    + eapply forallb_forall in NP1; [|exact Hin]. apply andb_true_iff in NP1 as [NP1 _]. cbn in NP1. apply negb_true_iff in NP1. rewrite NP1, andb_false_r. reflexivity.
    + eapply forallb_forall in NP2; [|exact Hin]. apply andb_true_iff in NP2 as [NP2 _]. cbn in NP2. apply negb_true_iff in NP2. rewrite NP2, andb_false_r. reflexivity.
Qed.

Lemma guards_ident kvs1 kvs2 :
  guards (VDict kvs1) (VDict kvs2) ->
  forall k k', In k (map fst kvs1) -> In k' (map fst kvs2) -> py_eq k k' = true -> k = k'.
Proof.
  intros (_ & _ & AF & _) k k' Hk Hk' E0. apply AF; [| |exact E0]; cbn [atoms_of]; apply in_or_app; [left|right].
  - apply in_map_iff in Hk as (kv & <- & Hin). apply in_flat_map. exists kv. split; [exact Hin|left; reflexivity].
  - apply in_map_iff in Hk' as (kv & <- & Hin). apply in_flat_map. exists kv. split; [exact Hin|left; reflexivity].
Qed.

Lemma tc_of_okp t1 t2 : ty_eqb (type_of t1) (type_of t2) = false -> okp t1 t2 -> tc_guard conv bidir always t1 t2.
Proof.
  intros T H. destruct t1, t2; cbn in T; try discriminate T; cbn in H; try rewrite T in H; exact H.
Qed.

Theorem good_all : forall t1 t2 q, guards t1 t2 -> opsv t1 t2 q -> Good t1 t2 q.
Proof.
  induction t1 as [a|xs IH|xs IH|kvs IH|xs|xs] using value_ind'; intros t2 q G OV;
    (match goal with |- Good ?t1 _ _ => destruct (ty_eqb (type_of t1) (type_of t2)) eqn:T end;
     [|destruct G as (W1 & W2 & _ & OK & _); apply Good_type; assumption]).
  all: apply ty_eqb_true in T; destruct t2; try discriminate T; try (destruct a; discriminate T).
  - (* atoms *)
    apply Good_atom.
  - (* lists *)
    rename xs0 into ys.
    destruct (negb (zip c) && forallb is_atom xs && forallb is_atom ys) eqn:Cd.
    + apply andb_true_iff in Cd as [Cd Ay]. apply andb_true_iff in Cd as [Z Ax]. apply negb_true_iff in Z.
      destruct G as (_ & _ & AF & _).
      rewrite opsv_list_eq in OV. destruct OV as [OV _].
      apply (Good_leaf_seq hatom udiff ops c conv bidir always) with (tup := false); try assumption; [discriminate|apply OV; assumption].
    + intros T1 T2 R1 R2.
      assert (ED : D hatom udiff ops c conv bidir always T1 T2 (VList xs) (VList ys) q
                   = DL hatom udiff ops c conv bidir always T1 T2 q 0 xs ys).
      { unfold D, E, DL, GL. rewrite diff_list by reflexivity. unfold seq_body. rewrite Cd. reflexivity. }
      rewrite ED. pose proof G as (W1 & W2 & _).
      apply list_node_good; try assumption.
      intros k x y Hx Hy. pose proof (nth_error_In _ _ Hx) as Ix. eapply Forall_forall in IH; [|exact Ix].
      apply IH; [eapply guards_list_child; eassumption|].
      rewrite opsv_list_eq in OV. destruct OV as [_ OV]. apply (opsv_list_nth q xs ys 0 k x y OV Hx Hy).
  - (* tuples *)
    rename xs0 into ys. pose proof G as (_ & _ & AF & OK & _). cbn in OK. destruct OK as (Ax & Ay & L).
    destruct (zip c) eqn:Z.
    + apply Good_tuple_zip; assumption.
    + rewrite opsv_tuple_eq in OV. destruct OV as [OV _].
      apply (Good_leaf_seq hatom udiff ops c conv bidir always) with (tup := true); try assumption; [intros _; exact L|apply OV; assumption].
  - (* dicts *)
    rename kvs0 into kvs2. pose proof G as (W1 & W2 & _).
    destruct (dict_shortcut nos c (keys_of c kvs) (keys_of c kvs2) q) eqn:Sh.
    + intros T1 T2 R1 R2. unfold D, E. rewrite diff_dict by reflexivity. unfold dict_body. rewrite Sh.
      cbn [fst snd report nos]. rewrite mutual_single by reflexivity. apply good_single_value; assumption.
    + intros T1 T2 R1 R2. cbn [wf] in W1, W2. apply andb_true_iff in W1 as [N1 W1], W2 as [N2 W2].
      destruct (guards_keep kvs kvs2 G) as [K1 K2].
      apply (dict_node_good hatom udiff ops c conv bidir always T1 T2 q kvs kvs2 K1 K2 (guards_ident kvs kvs2 G) N1 N2 Sh R1 R2 W1 W2).
      intros k v1 v2 Hin A. eapply Forall_forall in IH; [|exact Hin]. cbn [snd] in IH. apply IH.
      * eapply guards_dict_child; eassumption.
      * rewrite opsv_dict_eq in OV. eapply opsv_dict_in; eassumption.
  - (* sets *)
    rename xs0 into ys. destruct G as (W1 & W2 & AF & _). cbn in W1, W2, AF.
    apply (Good_set hatom udiff ops c conv bidir always Hinj false xs ys q W1 W2 AF).
  - rename xs0 into ys. destruct G as (W1 & W2 & AF & _). cbn in W1, W2, AF.
    apply (Good_set hatom udiff ops c conv bidir always Hinj true xs ys q W1 W2 AF).
Qed.


Lemma istrip0 x : istrip 0 x = x.
Proof. unfold istrip. rewrite (imap_ext (@skipn pkey 0) (fun p => p)) by reflexivity. apply imap_id. Qed.

Lemma sbase0 d : sbase 0 d = base d.
Proof.
  unfold sbase. rewrite (map_ext _ (fun l => l)); [apply map_id|].
  intros l. rewrite (map_ext _ (fun x => x)); [apply map_id|]. exact istrip0.
Qed.

(* the guard on type changes covers the base t1 itself *)
Lemma tc_b_self t1 t2 : tc_guard conv bidir always t1 t2 -> tc_b conv bidir always t1 t1 t2.
Proof. intros [F|H]; [left; exact F|right]. intros a' Cv Ev. exists a'. split; [exact Cv|apply H; assumption]. Qed.

Lemma okb_self : forall t1 t2, wf t1 = true -> okp t1 t2 -> okb conv bidir always t1 t1 t2.
Proof.
  assert (TC : forall t1 t2, (if ty_eqb (type_of t1) (type_of t2) then True else tc_guard conv bidir always t1 t2) ->
               (if ty_eqb (type_of t1) (type_of t2) then True else tc_b conv bidir always t1 t1 t2)).
  { intros t1 t2 H. destruct (ty_eqb _ _); [exact I|apply tc_b_self; exact H]. }
  induction t1 as [a|xs IH|xs IH|kvs IH|xs|xs] using value_ind'; intros t2 W H.
  - destruct t2; apply (TC (VAtom a)); exact H.
  - destruct t2; try (apply (TC (VList xs)); exact H).
    rewrite okb_list_eq. rewrite okp_list_eq in H. cbn [wf] in W. revert xs0 H.
    induction IH as [|x xs Hx _ IHl]; intros ys H; [exact I|]. destruct ys as [|y ys]; [exact I|].
    cbn in W. apply andb_true_iff in W as [Wx W]. cbn in H. destruct H as [H0 H]. cbn. split; [apply Hx; assumption|apply IHl; assumption].
  - destruct t2; try (apply (TC (VTuple xs)); exact H). exact I.
  - destruct t2; try (apply (TC (VDict kvs)); exact H).
    rewrite okb_dict_eq. rewrite okp_dict_eq in H. cbn [wf] in W. apply andb_true_iff in W as [N W].
    assert (GEN : forall l, (forall kv, In kv l -> In kv kvs) -> okp_dict kvs0 l -> okb_dict conv bidir always kvs0 kvs l);
      [|apply GEN; [intros; assumption|exact H]].
    clear H. intros l. induction l as [|[k v1] l IHl]; intros SUB H; [exact I|].
    cbn in H. destruct H as [H0 H]. cbn. split; [|apply IHl; [intros kv Hkv; apply SUB; right; exact Hkv|exact H]].
    destruct (assoc k kvs0) as [v2|] eqn:A2; [|exact I].
    rewrite (assoc_nodup kvs k v1 k N (SUB _ (or_introl eq_refl)) (py_eq_refl k)).
    eapply Forall_forall in IH; [|apply (SUB _ (or_introl eq_refl))]. cbn [snd] in IH. apply IH; [|exact H0].
    eapply forallb_forall in W; [|apply (SUB _ (or_introl eq_refl))]. exact W.
  - destruct t2; apply (TC (VSet xs)); exact H.
  - destruct t2; apply (TC (VFrozen xs)); exact H.
Qed.

(* v + Delta(DeepDiff(t1, t2)) = t2 for every well-formed v that equals t1 up to dict / set
   order and from which the omitted values of type changes are rebuilt as well ([okb]) *)
Theorem roundtrip_from ro ao t1 t2 v :
  guards t1 t2 -> opsv t1 t2 [] -> wf v = true -> veqb v t1 = true -> okb conv bidir always v t1 t2 ->
  let r := run_diff hatom udiff ops nos nos c t1 t2 in
  let d := to_delta conv bidir always ops t1 t2 (fst r) (snd r) in
  orders_ok_at ro ao d ->
  exists t2', apply conv ro ao d v = (t2', 0) /\ veqb t2' t2 = true.
Proof.
  intros G OV Wv Vv OB r d HO.
  pose proof (good_all t1 t2 [] G OV t1 t2 eq_refl eq_refl) as [Hm HG].
  specialize (HG v Wv Vv OB).
  assert (Ed : d = D hatom udiff ops c conv bidir always t1 t2 t1 t2 []).
  { unfold d, r, run_diff, D, E. destruct (diff hatom udiff ops nos nos c t1 t2 [] []) as [es rec]. reflexivity. }
  rewrite Ed in *. destruct (apply_passes conv ro ao _ v HO Hm) as (P & HA & ->).
  unfold runs_to in HG. cbn [length] in HG. rewrite sbase0 in HG. destruct (HG P HA) as [He Hv].
  assert (Eb : d_bidir (D hatom udiff ops c conv bidir always t1 t2 t1 t2 []) = bidir) by reflexivity.
  rewrite Eb. eexists. split; [|exact Hv]. rewrite He. reflexivity.
Qed.

(* t1 + Delta(DeepDiff(t1, t2)) = t2 *)
Theorem roundtrip_at ro ao t1 t2 :
  guards t1 t2 -> opsv t1 t2 [] ->
  let r := run_diff hatom udiff ops nos nos c t1 t2 in
  let d := to_delta conv bidir always ops t1 t2 (fst r) (snd r) in
  orders_ok_at ro ao d ->
  exists t2', apply conv ro ao d t1 = (t2', 0) /\ veqb t2' t2 = true.
Proof.
  intros G OV. pose proof G as (W1 & _ & _ & OK & _). apply roundtrip_from; try assumption.
  - apply veqb_refl. exact W1.
  - apply okb_self; assumption.
Qed.

Theorem roundtrip ro ao t1 t2 :
  (forall p xs ys, forallb is_atom xs = true -> forallb is_atom ys = true -> valid_ops xs ys (ops p xs ys)) ->
  ro_ok ro -> ao_ok ao -> guards t1 t2 ->
  let r := run_diff hatom udiff ops nos nos c t1 t2 in
  exists t2', apply conv ro ao (to_delta conv bidir always ops t1 t2 (fst r) (snd r)) t1 = (t2', 0) /\ veqb t2' t2 = true.
Proof.
  intros Hops Hro Hao G r. apply roundtrip_at; [exact G|apply opsv_global; exact Hops|apply orders_ok_of_global; assumption].
Qed.

End Roundtrip.

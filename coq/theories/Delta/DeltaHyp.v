(** C01 - the hypotheses of the round-trip theorem as boolean observables, evaluated by
    the correspondence check on what the implementation supplies (difflib opcodes, the
    visiting orders of Delta's sorted passes).  [valid_opsb], [descb], [ascb], [guardsb]
    are sound for the propositions of the theorem (DeltaChain.v); the permutation part of
    [orders_ok_at] is observed on the paths (the paths of one payload category are distinct). *)
From Coq Require Import List ZArith NArith Bool Arith.
Import ListNotations.
From DD Require Import Base.Sx Base.PyStr Base.Value Path.PathModel Diff.Tree Diff.DiffModel
  Delta.DeltaModel Delta.DeltaChain.

Definition ops_table_okb (t1 t2 : value) (tbl : list (path * list opcode)) : bool :=
  forallb (fun pe => valid_opsb (seq_of (resolve t1 (fst pe))) (seq_of (resolve t2 (fst pe))) (snd pe)) tbl.

Definition perm_pathsb (l l' : list path) : bool :=
  Nat.eqb (List.length l) (List.length l') && forallb (fun p => existsb (path_eqb p) l') l.

Definition orders_okb (ro : list (path * value) -> list (path * value))
    (ao : list (path * option value) -> list (path * option value)) (d : delta) : bool :=
  let r6 := map fst (ro (d_irem d)) in
  let r9 := map fst (ro (d_drem d)) in
  let a7 := map fst (ao (map (fun pv => (fst pv, Some (snd pv))) (d_iadd d))) in
  descb r6 && perm_pathsb (map fst (d_irem d)) r6 &&
  descb r9 && perm_pathsb (map fst (d_drem d)) r9 &&
  ascb a7 && perm_pathsb (map fst (d_iadd d)) a7.

Definition sx_hyp (g o r : bool) : sx := SL [sx_bool g; sx_bool o; sx_bool r].

(** sx renderings for the correspondence of the faithful Delta application
    (harness/c01free.py).  No theorem depends on this file. *)
From Coq Require Import List ZArith NArith Bool Arith String.
Import ListNotations.
From DD Require Import Base.Sx Base.PyStr Base.Value Path.PathModel Diff.Tree Diff.DiffModel Diff.DiffShow
  Delta.DeltaModel Delta.DeltaShow Delta.DeltaFaithful.
Local Open Scope string_scope.

Definition sx_exn (e : exn) : sx :=
  SA (match e with EAttribute => "AttributeError" | EType => "TypeError" end).
(* mirror of harness.c01free.result_obs: ["raised", class name] or [canonical result, errors > 0] *)
Definition sx_result_f (r : res (value * nat)) : sx :=
  match r with
  | inl e => SL [SA "raised"; sx_exn e]
  | inr x => sx_result x
  end.

(** C01 - difflib alignment with at most one reported entry (nothing recorded):
    the two sequences differ by one removal, one insertion or one change. *)
From Coq Require Import List ZArith NArith Bool Arith Lia Permutation.
Import ListNotations.
From DD Require Import Base.PyStr Base.Value Base.ValueFacts Path.PathModel Diff.Tree Diff.DiffModel
  Diff.DiffFacts Diff.DiffFaithful Delta.DeltaModel Delta.DeltaFacts Delta.DeltaLocal Delta.DeltaEntries
  Delta.DeltaStruct Delta.DeltaRun Delta.DeltaGuard Delta.DeltaGood Delta.DeltaNodes Delta.DeltaCompose
  Delta.DeltaListNode Delta.DeltaListSim Delta.DeltaSets Delta.DeltaSeq Delta.DeltaSeqNodes Delta.DeltaOpcodes.

Lemma slice_length {A} (l : list A) a b : b <= length l -> length (slice l a b) = b - a.
Proof. intros H. unfold slice. rewrite firstn_length, skipn_length. lia. Qed.

Section Single.
Variable udiff : pystr -> pystr -> pystr.
Variable q : path.

Lemma diff_atom_nil a b p1 p2 : diff_atom udiff nos a b p1 p2 = [] -> a = b.
Proof.
  unfold diff_atom. cbn [nos]. destruct (ty_eqb (atom_ty a) (atom_ty b)) eqn:T; cbn [negb]; [|discriminate].
  apply ty_eqb_true in T.
  destruct a as [|x|x|x|x|x], b as [|y|y|y|y|y]; try discriminate T; intros H;
    try (destruct (py_eq _ _) eqn:P; [apply py_eq_same_ty; assumption|discriminate H]).
  - unfold diff_str in H. destruct (pystr_eqb x y) eqn:P; [apply pystr_eqb_eq in P; congruence|].
    destruct (true && _); discriminate H.
  - unfold diff_str in H. destruct (pystr_eqb x y) eqn:P; [apply pystr_eqb_eq in P; congruence|].
    destruct (_ && _); discriminate H.
Qed.

Lemma py_eq_leaf_refl a : py_eq_leaf (VAtom a) (VAtom a) = true.
Proof. cbn. apply py_eq_refl. Qed.

(* no entry from a pairwise block *)
Lemma pairs_nil sx : forall sy i j, forallb is_atom sx = true -> forallb is_atom sy = true ->
  pairs_leaf udiff nos sx sy i j q q = [] -> (i = j -> sx = sy) /\ (i <> j -> sx = [] /\ sy = []).
Proof.
  induction sx as [|x sx IH]; intros sy i j Ax Ay H.
  - assert (sy = []).
    { destruct sy as [|y sy]; [reflexivity|]. cbn in H. discriminate. }
    subst. split; auto.
  - destruct sy as [|y sy]; [cbn in H; discriminate|]. cbn [pairs_leaf] in H.
    apply app_eq_nil in H as [H1 H2]. cbn in Ax, Ay. apply andb_true_iff in Ax as [Hx Ax], Ay as [Hy Ay].
    destruct x as [a| | | | |]; try discriminate Hx. destruct y as [b| | | | |]; try discriminate Hy.
    destruct (IH sy (S i) (S j) Ax Ay H2) as [I1 I2].
    destruct (negb (i =? j) && py_eq_leaf (VAtom a) (VAtom b)) eqn:C; [cbn in H1; discriminate|].
    cbn [diff_leaf] in H1. apply diff_atom_nil in H1. subst b. rewrite py_eq_leaf_refl, andb_true_r in C.
    apply negb_false_iff in C. apply Nat.eqb_eq in C. subst j. split; [|congruence].
    intros _. f_equal. apply I1. reflexivity.
Qed.

Definition shape (e : entry) (X Y : list value) (k : nat) : Prop :=
  (exists x, X = [x] /\ Y = [] /\ e = rem_entry q (k, x)) \/
  (exists y, X = [] /\ Y = [y] /\ e = add_entry q (k, y)) \/
  (exists a b, X = [VAtom a] /\ Y = [VAtom b] /\ diff_atom udiff nos a b (snoc q (PIdx k)) (snoc q (PIdx k)) = [e]).

(* exactly one entry from an aligned pairwise block *)
Lemma pairs_one sx : forall sy i e, forallb is_atom sx = true -> forallb is_atom sy = true ->
  pairs_leaf udiff nos sx sy i i q q = [e] ->
  exists P X Y S, sx = P ++ X ++ S /\ sy = P ++ Y ++ S /\ shape e X Y (i + length P).
Proof.
  induction sx as [|x sx IH]; intros sy i e Ax Ay H.
  - destruct sy as [|y [|y2 sy]]; cbn in H; try discriminate. inversion H; subst e.
    exists [], [], [y], []. cbn. rewrite Nat.add_0_r. repeat split. right. left. exists y. auto.
  - destruct sy as [|y sy].
    + destruct sx as [|x2 sx]; cbn in H; [|discriminate]. inversion H; subst e.
      exists [], [x], [], []. cbn. rewrite Nat.add_0_r. repeat split. left. exists x. auto.
    + cbn [pairs_leaf] in H. rewrite Nat.eqb_refl in H. cbn [negb andb] in H.
      cbn in Ax, Ay. apply andb_true_iff in Ax as [Hx Ax], Ay as [Hy Ay].
      destruct x as [a| | | | |]; try discriminate Hx. destruct y as [b| | | | |]; try discriminate Hy.
      cbn [diff_leaf] in H.
      destruct (diff_atom_shape udiff a b (snoc q (PIdx i)) (snoc q (PIdx i))) as [E0|(k & d & Hk & E0)]; rewrite E0 in H.
      * cbn [app] in H. apply diff_atom_nil in E0. subst b.
        destruct (IH sy (S i) e Ax Ay H) as (P & X & Y & S & -> & -> & Sh).
        exists (VAtom a :: P), X, Y, S. cbn [length app]. rewrite Nat.add_succ_r. auto.
      * cbn [app] in H. inversion H as [[He Hr]]. destruct (pairs_nil sx sy (S i) (S i) Ax Ay Hr) as [I1 _].
        rewrite (I1 eq_refl). exists [], [VAtom a], [VAtom b], sy. cbn. rewrite Nat.add_0_r. repeat split.
        right. right. exists a, b. rewrite E0. auto.
Qed.


Variables xs ys : list value.
Hypothesis Ax : forallb is_atom xs = true.
Hypothesis Ay : forallb is_atom ys = true.
Hypothesis AF : alias_free (flat_map atoms_of xs ++ flat_map atoms_of ys).

Lemma eq_block o : oi2 o - oi1 o = oj2 o - oj1 o ->
  Forall2 (fun x y => py_eq_leaf x y = true) (slice xs (oi1 o) (oi2 o)) (slice ys (oj1 o) (oj2 o)) ->
  slice xs (oi1 o) (oi2 o) = slice ys (oj1 o) (oj2 o).
Proof.
  intros _ F2. apply eq_leaf_lists; [exact F2|]. intros a b Ha Hb E0. apply AF; [| |exact E0]; apply in_or_app; [left|right];
    apply in_flat_map; eexists; (split; [eapply slice_In; eassumption|left; reflexivity]).
Qed.

Lemma removed_nil sx i : removed_from nos sx i q q = [] -> sx = [].
Proof. destruct sx; [reflexivity|cbn; discriminate]. Qed.
Lemma added_nil sy j : added_from nos sy j q q = [] -> sy = [].
Proof. destruct sy; [reflexivity|cbn; discriminate]. Qed.

Lemma slice_nonempty {A} (l : list A) a b : a < b -> b <= length l -> slice l a b <> [].
Proof. intros H1 H2 E0. apply (f_equal (@length A)) in E0. rewrite slice_length in E0 by exact H2. cbn in E0. lia. Qed.

(* no entry at all: the rests of the two sequences coincide *)
Lemma bo_nil os : forall i j, tiles os i j (length xs) (length ys) -> Forall (block_ok xs ys) os ->
  by_opcodes udiff nos os xs ys q q = [] -> skipn i xs = skipn j ys.
Proof.
  induction os as [|o os IH]; intros i j T HB H.
  - cbn in T. destruct T as [-> ->]. rewrite !skipn_all. reflexivity.
  - pose proof (tiles_bounds _ _ _ _ _ T) as (_ & _ & B3). destruct (B3 o (or_introl eq_refl)) as (_ & _ & Bi & _ & _ & Bj).
    cbn in T. destruct T as (E1 & E2 & L1 & L2 & T). inversion HB as [|? ? Bo HB']; subst.
    unfold by_opcodes in H. cbn [flat_map] in H. apply app_eq_nil in H as [H1 H2].
    rewrite <- (slice_skipn xs (oi1 o) (oi2 o) L1), <- (slice_skipn ys (oj1 o) (oj2 o) L2).
    rewrite (IH _ _ T HB' H2). f_equal.
    unfold block_ok in Bo. destruct (otag o).
    + destruct Bo as [Bl Bf]. apply eq_block; assumption.
    + destruct Bo as [Bi1 Bj1].
      destruct (pairs_nil (slice xs (oi1 o) (oi2 o)) (slice ys (oj1 o) (oj2 o)) (oi1 o) (oj1 o)
                  (slice_atoms xs _ _ Ax) (slice_atoms ys _ _ Ay) H1) as [I1 I2].
      destruct (Nat.eq_dec (oi1 o) (oj1 o)) as [E0|N0]; [apply I1; exact E0|].
      destruct (I2 N0) as [Z _]. exfalso. apply (slice_nonempty xs (oi1 o) (oi2 o)); assumption.
    + destruct Bo as [Bi1 _]. apply removed_nil in H1. exfalso. apply (slice_nonempty xs (oi1 o) (oi2 o)); assumption.
    + destruct Bo as [_ Bj1]. apply added_nil in H1. exfalso. apply (slice_nonempty ys (oj1 o) (oj2 o)); assumption.
Qed.

Lemma app_one {A} (l1 l2 : list A) e : l1 ++ l2 = [e] -> (l1 = [] /\ l2 = [e]) \/ (l1 = [e] /\ l2 = []).
Proof.
  destruct l1 as [|x l1]; cbn; intros H; [left; auto|]. inversion H as [[Hx Hl]]. apply app_eq_nil in Hl as [-> ->]. right. auto.
Qed.

(* exactly one entry, blocks aligned so far *)
Lemma bo_one os : forall i e, tiles os i i (length xs) (length ys) -> Forall (block_ok xs ys) os ->
  by_opcodes udiff nos os xs ys q q = [e] ->
  exists P X Y S, skipn i xs = P ++ X ++ S /\ skipn i ys = P ++ Y ++ S /\ shape e X Y (i + length P).
Proof.
  induction os as [|o os IH]; intros i e T HB H; [cbn in H; discriminate|].
  pose proof (tiles_bounds _ _ _ _ _ T) as (_ & _ & B3). destruct (B3 o (or_introl eq_refl)) as (_ & _ & Bi & _ & _ & Bj).
  cbn in T. destruct T as (E1 & E2 & L1 & L2 & T). apply Forall_cons_iff in HB as [Bo HB'].
  unfold by_opcodes in H. cbn [flat_map] in H. fold (by_opcodes udiff nos os xs ys q q) in H.
  assert (EX : skipn i xs = slice xs (oi1 o) (oi2 o) ++ skipn (oi2 o) xs) by (rewrite <- E1; symmetry; apply slice_skipn; exact L1).
  assert (EY : skipn i ys = slice ys (oj1 o) (oj2 o) ++ skipn (oj2 o) ys) by (rewrite <- E2; symmetry; apply slice_skipn; exact L2).
  rewrite EX, EY. clear EX EY.
  apply app_one in H as [[H1 H2]|[H1 H2]].
  - (* this block is silent *)
    assert (ES : slice xs (oi1 o) (oi2 o) = slice ys (oj1 o) (oj2 o)).
    { unfold block_ok in Bo. destruct (otag o).
      - destruct Bo as [Bl Bf]. apply eq_block; assumption.
      - destruct (pairs_nil (slice xs (oi1 o) (oi2 o)) (slice ys (oj1 o) (oj2 o)) (oi1 o) (oj1 o)
                    (slice_atoms xs _ _ Ax) (slice_atoms ys _ _ Ay) H1) as [I1 _]. apply I1. congruence.
      - destruct Bo as [Bi1 _]. apply removed_nil in H1. exfalso. apply (slice_nonempty xs (oi1 o) (oi2 o)); assumption.
      - destruct Bo as [_ Bj1]. apply added_nil in H1. exfalso. apply (slice_nonempty ys (oj1 o) (oj2 o)); assumption. }
    assert (EL : oi2 o = oj2 o).
    { apply (f_equal (@length value)) in ES. rewrite !slice_length in ES by assumption. lia. }
    rewrite <- EL in T. destruct (IH _ e T HB' H2) as (P & X & Y & S & Hx & Hy & Sh).
    exists (slice xs (oi1 o) (oi2 o) ++ P), X, Y, S. rewrite <- ES. rewrite Hx. rewrite <- EL. rewrite Hy.
    rewrite <- !app_assoc. split; [reflexivity|]. split; [reflexivity|].
    rewrite app_length, slice_length by assumption. replace (i + (oi2 o - oi1 o + length P)) with (oi2 o + length P) by lia. exact Sh.
  - (* this block carries the entry, the rest is silent *)
    pose proof (bo_nil os _ _ T HB' H2) as ER. rewrite ER.
    unfold block_ok in Bo. destruct (otag o).
    + discriminate H1.
    + assert (EJ : oj1 o = oi1 o) by congruence.
      assert (SA : forallb is_atom (slice ys (oj1 o) (oj2 o)) = true) by (apply slice_atoms; exact Ay).
      revert H1 SA. generalize (slice ys (oj1 o) (oj2 o)). intros sy H1 SA. rewrite EJ in H1.
      destruct (pairs_one (slice xs (oi1 o) (oi2 o)) sy (oi1 o) e (slice_atoms xs _ _ Ax) SA H1) as (P & X & Y & S & Hx & Hy & Sh).
      exists P, X, Y, (S ++ skipn (oj2 o) ys). rewrite Hx, Hy. rewrite <- !app_assoc. rewrite <- E1. split; [reflexivity|split; [reflexivity|exact Sh]].
    + destruct Bo as [Bi1 Bj1]. rewrite (removed_from_eq q) in H1.
      destruct (slice xs (oi1 o) (oi2 o)) as [|x [|x2 sx]] eqn:ES; cbn in H1; try discriminate. inversion H1; subst e.
      exists [], [x], [], (skipn (oj2 o) ys). rewrite <- Bj1, slice_same. cbn [app length]. rewrite Nat.add_0_r. rewrite <- E1.
      split; [reflexivity|]. split; [reflexivity|]. left. exists x. auto.
    + destruct Bo as [Bi1 Bj1]. rewrite (added_from_eq q) in H1.
      destruct (slice ys (oj1 o) (oj2 o)) as [|y [|y2 sy]] eqn:ES; cbn in H1; try discriminate. inversion H1; subst e.
      exists [], [], [y], (skipn (oj2 o) ys). rewrite <- Bi1, slice_same. cbn [app length]. rewrite Nat.add_0_r. rewrite <- E2.
      split; [reflexivity|]. split; [reflexivity|]. right. left. exists y. auto.
Qed.

End Single.

(* ---- one removal / one insertion in the middle of a list ---- *)
Section MidSteps.
Variable conv : ty -> value -> option value.
Variable bidir : bool.
Notation istep := (istep conv bidir).

Lemma rem_mid_step P x Sx po e : py_eqv x x = true ->
  istep (mkSt (VList (P ++ x :: Sx)) po e) (IRem [PKey (ik (length P))] x) = mkSt (VList (P ++ Sx)) po e.
Proof.
  intros R. cbn [istep]. unfold remove_one. cbn [removelast last key_atom resolve root].
  rewrite get_item_list_ik. rewrite nth_error_app2 by lia. rewrite Nat.sub_diag. cbn [nth_error].
  rewrite R. cbn [negb].
  unfold del_elem. cbn [resolve root is_tuple untuple upd post errs].
  rewrite del_item_list_ik by (rewrite app_length; cbn; lia).
  rewrite firstn_app, Nat.sub_diag, firstn_all. cbn [firstn]. rewrite app_nil_r.
  rewrite skipn_app. rewrite skipn_all2 by lia. replace (Datatypes.S (length P) - length P) with 1 by lia. cbn [skipn app].
  unfold verify. destruct bidir; [rewrite R|]; reflexivity.
Qed.

Lemma add_mid_step P y Sx po e :
  istep (mkSt (VList (P ++ Sx)) po e) (IAdd true [PKey (ik (length P))] (Some y)) = mkSt (VList (P ++ y :: Sx)) po e.
Proof.
  cbn [istep]. unfold add_one. cbn [removelast last key_atom resolve root int_of_atom ik].
  destruct Sx as [|s Sx].
  - rewrite app_nil_r. rewrite Z.ltb_irrefl. cbn [andb].
    unfold set_new_value. cbn [removelast last key_atom resolve root is_tuple untuple upd post errs].
    change (AInt (Z.of_nat (length P))) with (ik (length P)). rewrite set_item_list_append. reflexivity.
  - assert (L : (Z.of_nat (length P) <? Z.of_nat (length (P ++ s :: Sx)))%Z = true) by (apply Z.ltb_lt; rewrite app_length; cbn; lia).
    rewrite L. assert (L0 : (0 <=? Z.of_nat (length P))%Z = true) by (apply Z.leb_le; lia). rewrite L0. cbn [andb upd].
    unfold with_root. cbn [root post errs]. rewrite Nat2Z.id.
    unfold set_new_value. cbn [removelast last key_atom resolve root is_tuple untuple upd post errs].
    change (AInt (Z.of_nat (length P))) with (ik (length P)).
    unfold list_insert. rewrite firstn_app, Nat.sub_diag, firstn_all. cbn [firstn]. rewrite app_nil_r.
    rewrite skipn_app, skipn_all, Nat.sub_diag. cbn [skipn app].
    rewrite set_item_list_ik by (rewrite app_length; cbn; lia).
    unfold repl. rewrite firstn_app, Nat.sub_diag, firstn_all. cbn [firstn]. rewrite app_nil_r.
    rewrite skipn_app. rewrite skipn_all2 by lia. replace (Datatypes.S (length P) - length P) with 1 by lia. cbn [skipn app].
    reflexivity.
Qed.
End MidSteps.

Section SingleGood.
Variable conv : ty -> value -> option value.
Variables bidir always : bool.
Variable ops : path -> list value -> list value -> list opcode.
Variables T1 T2 : value.
Variable q : path.
Notation td := (to_delta conv bidir always ops T1 T2).
Notation GoodD := (GoodD0 conv bidir).

Lemma strip_idx k : skipn (length q) (npath (snoc q (PIdx k))) = [PKey (ik k)].
Proof. unfold snoc. rewrite skipn_npath. reflexivity. Qed.

Lemma wf_atoms l : forallb is_atom l = true -> forallb wf l = true.
Proof. intros H. apply forallb_forall. intros x Hx. eapply forallb_forall in H; [|exact Hx]. destruct x; try discriminate. reflexivity. Qed.

Lemma good_single_rem P x Sx :
  forallb is_atom (P ++ x :: Sx) = true ->
  GoodD (td (mutual [rem_entry q (length P, x)]) []) (length q) (VList (P ++ x :: Sx)) (VList (P ++ Sx)).
Proof.
  intros At. rewrite mutual_id by (intros a r [<-|[]] _ K; discriminate).
  assert (Wx : wf x = true).
  { apply wf_atoms in At. eapply forallb_forall in At; [exact At|]. apply in_or_app. right. left. reflexivity. }
  split; [reflexivity|]. intros Pp HA.
  unfold sbase, base, p1, p2, p3, p4, p5, p6, p7, p8, p9 in HA. cbn in HA. rewrite strip_idx in HA.
  destruct Pp as [|q1 [|q2 [|q3 [|q4 [|q5 [|q6 [|q7 [|q8 [|q9 [|]]]]]]]]]]; try contradiction.
  cbn in HA. destruct HA as (-> & -> & -> & -> & -> & [P6 _] & [P7 _] & -> & [P9 _]).
  apply Permutation_nil in P7, P9. apply Permutation_length_1_inv in P6. subst.
  unfold run_passes. cbn [fold_left DeltaFacts.irun].
  rewrite (rem_mid_step conv bidir P x Sx [] 0 (py_eqv_rfl x Wx)).
  unfold finish. cbn [post map DeltaFacts.irun fold_left root errs]. split; [reflexivity|].
  apply veqb_refl. cbn [wf]. apply wf_atoms. rewrite forallb_app in *. apply andb_true_iff in At as [A1 A2]. cbn in A2.
  apply andb_true_iff in A2 as [_ A2]. rewrite A1, A2. reflexivity.
Qed.

Lemma good_single_add P y Sx :
  forallb is_atom (P ++ y :: Sx) = true ->
  GoodD (td (mutual [add_entry q (length P, y)]) []) (length q) (VList (P ++ Sx)) (VList (P ++ y :: Sx)).
Proof.
  intros At. rewrite mutual_id by (intros a r _ [<-|[]] _ K; discriminate).
  split; [reflexivity|]. intros Pp HA.
  unfold sbase, base, p1, p2, p3, p4, p5, p6, p7, p8, p9 in HA. cbn in HA. rewrite strip_idx in HA.
  destruct Pp as [|q1 [|q2 [|q3 [|q4 [|q5 [|q6 [|q7 [|q8 [|q9 [|]]]]]]]]]]; try contradiction.
  cbn in HA. destruct HA as (-> & -> & -> & -> & -> & [P6 _] & [P7 _] & -> & [P9 _]).
  apply Permutation_nil in P6, P9. apply Permutation_length_1_inv in P7. subst.
  unfold run_passes. cbn [fold_left DeltaFacts.irun].
  rewrite (add_mid_step conv bidir P y Sx [] 0).
  unfold finish. cbn [post map DeltaFacts.irun fold_left root errs]. split; [reflexivity|].
  apply veqb_refl. cbn [wf]. apply wf_atoms. exact At.
Qed.

End SingleGood.

(** C01 - in-place edits of the items of one list or tuple of atoms. *)
From Coq Require Import List ZArith NArith Bool Arith Lia Permutation.
Import ListNotations.
From DD Require Import Base.PyStr Base.Value Base.ValueFacts Path.PathModel Diff.Tree Diff.DiffModel
  Diff.DiffFacts Diff.DiffFaithful Delta.DeltaModel Delta.DeltaFacts Delta.DeltaLocal Delta.DeltaEntries
  Delta.DeltaStruct Delta.DeltaRun Delta.DeltaGuard Delta.DeltaGood Delta.DeltaNodes Delta.DeltaCompose.

Lemma list_eq_nth0 {A} (a b : list A) : (forall j, nth_error a j = nth_error b j) -> a = b.
Proof.
  revert b; induction a as [|x a IH]; intros [|y b] H.
  - reflexivity.
  - specialize (H 0). discriminate.
  - specialize (H 0). discriminate.
  - pose proof (H 0) as H0. cbn in H0. inversion H0; subst. f_equal. apply IH. intros j. apply (H (S j)).
Qed.

Definition sroot (t : bool) (cur : list value) : value := if t then VTuple cur else VList cur.

Definition apply_edits (edits : list (nat * value)) (cur : list value) : list value :=
  fold_left (fun c iv => repl (fst iv) (snd iv) c) edits cur.

Lemma apply_edits_length edits : forall cur, (forall iv, In iv edits -> fst iv < length cur) ->
  length (apply_edits edits cur) = length cur.
Proof.
  induction edits as [|[i v] edits IH]; intros cur H; unfold apply_edits; cbn [fold_left fst snd]; [reflexivity|].
  assert (Hi : i < length cur) by (apply (H (i, v)); left; reflexivity).
  unfold apply_edits in IH. rewrite IH; [apply repl_length; exact Hi|].
  intros iv Hiv. rewrite repl_length by exact Hi. apply H. right. exact Hiv.
Qed.

Lemma apply_edits_off edits : forall cur j, (forall iv, In iv edits -> fst iv < length cur) ->
  ~ In j (map fst edits) -> nth_error (apply_edits edits cur) j = nth_error cur j.
Proof.
  induction edits as [|[i v] edits IH]; intros cur j H Nj; unfold apply_edits; cbn [fold_left fst snd]; [reflexivity|].
  assert (Hi : i < length cur) by (apply (H (i, v)); left; reflexivity).
  unfold apply_edits in IH. rewrite IH.
  - apply repl_nth_other; [exact Hi|]. intros E0. apply Nj. left. cbn. exact E0.
  - intros iv Hiv. rewrite repl_length by exact Hi. apply H. right. exact Hiv.
  - intros Hin. apply Nj. right. exact Hin.
Qed.

Lemma apply_edits_target edits ys : forall cur,
  length cur = length ys ->
  (forall iv, In iv edits -> nth_error ys (fst iv) = Some (snd iv)) ->
  (forall j, In j (map fst edits) \/ nth_error cur j = nth_error ys j) ->
  apply_edits edits cur = ys.
Proof.
  induction edits as [|[i v] edits IH]; intros cur L Hv Hc; unfold apply_edits; cbn [fold_left fst snd].
  - apply list_eq_nth0. intros j. destruct (Hc j) as [[]|H]. exact H.
  - assert (Hi : i < length cur).
    { rewrite L. apply nth_error_Some. pose proof (Hv (i, v) (or_introl eq_refl)) as Z. cbn in Z. rewrite Z. discriminate. }
    unfold apply_edits in IH. apply IH.
    + rewrite repl_length by exact Hi. exact L.
    + intros iv Hiv. apply Hv. right. exact Hiv.
    + intros j. destruct (Nat.eq_dec i j) as [<-|Nij].
      * right. rewrite repl_nth_same by exact Hi. symmetry. apply (Hv (i, v)). left. reflexivity.
      * destruct (Hc j) as [[E0|H]|H].
        -- cbn in E0. contradiction.
        -- left. exact H.
        -- right. rewrite repl_nth_other by assumption. exact H.
Qed.

Definition isnil {A} (l : list A) : bool := match l with [] => true | _ => false end.

Section Edits.
Variable conv : ty -> value -> option value.
Variable bidir : bool.
Variable xs : list value.      (* the original items *)
Notation istep := (istep conv bidir).
Notation irun := (irun conv bidir).

Definition realizes (x : item) (iv : nat * value) : Prop :=
  match x with
  | IVal c => vc_path c = [PKey (ik (fst iv))] /\ vc_new c = snd iv /\
              (bidir = true -> exists o old, vc_old c = Some o /\ nth_error xs (fst iv) = Some old /\ py_eqv o old = true)
  | IType c => tc_path c = [PKey (ik (fst iv))] /\
               exists old, nth_error xs (fst iv) = Some old /\
                 match tc_new c with Some v' => v' = snd iv | None => conv (tc_new_ty c) old = Some (snd iv) end /\
                 (bidir = true -> exists o, tc_old c = Some o /\ py_eqv o old = true)
  | _ => False
  end.

Lemma get_item_sroot t cur i : get_item (sroot t cur) (ik i) = nth_error cur i.
Proof. destruct t; [apply get_item_tuple_ik|apply get_item_list_ik]. Qed.

Lemma set_new_value_sroot t cur i v po e : i < length cur ->
  set_new_value (mkSt (sroot t cur) po e) [PKey (ik i)] v = mkSt (VList (repl i v cur)) (if t then po ++ [[]] else po) e.
Proof.
  intros Hi. unfold set_new_value. cbn [removelast last key_atom resolve root post errs upd].
  assert (U : untuple (sroot t cur) = VList cur) by (destruct t; reflexivity). rewrite U.
  rewrite set_item_list_ik by exact Hi. destruct t; reflexivity.
Qed.

Lemma edit_step x i v t cur po :
  realizes x (i, v) -> i < length cur -> nth_error cur i = nth_error xs i ->
  istep (mkSt (sroot t cur) po 0) x = mkSt (VList (repl i v cur)) (if t then po ++ [[]] else po) 0.
Proof.
  intros R Hi Hc. destruct x as [c|c| | | | |]; cbn [realizes fst snd] in R; try contradiction.
  - destruct R as (Hp & Hv & Hb). cbn [istep]. unfold vc_step, current_at. rewrite Hp. cbn [root resolve key_atom].
    rewrite get_item_sroot. destruct (nth_error cur i) as [old|] eqn:E; [|apply nth_error_None in E; lia].
    rewrite set_new_value_sroot by exact Hi. rewrite Hv. unfold verify. destruct bidir; [|reflexivity].
    destruct (Hb eq_refl) as (o & old' & Ho & Hold & Eo). rewrite Ho. rewrite <- Hc in Hold. inversion Hold; subst old'. rewrite Eo. reflexivity.
  - destruct R as (Hp & old & Hold & Hn & Hb). cbn [istep]. unfold tc_step, current_at. rewrite Hp. cbn [root resolve key_atom].
    rewrite get_item_sroot, Hc, Hold.
    assert (NV : match tc_new c with Some v0 => Some v0 | None => conv (tc_new_ty c) old end = Some v).
    { destruct (tc_new c); [rewrite Hn; reflexivity|exact Hn]. }
    rewrite NV. rewrite set_new_value_sroot by exact Hi. unfold verify. destruct bidir; [|reflexivity].
    destruct (Hb eq_refl) as (o & Ho & Eo). rewrite Ho, Eo. reflexivity.
Qed.

Lemma run_edits l : forall edits cur t po,
  Forall2 realizes l edits -> NoDup (map fst edits) -> length cur = length xs ->
  (forall iv, In iv edits -> fst iv < length xs /\ nth_error cur (fst iv) = nth_error xs (fst iv)) ->
  irun l (mkSt (sroot t cur) po 0) =
  mkSt (sroot (t && isnil l) (apply_edits edits cur)) (if t && negb (isnil l) then po ++ [[]] else po) 0.
Proof.
  induction l as [|x l IH]; intros edits cur t po HF ND L H; inversion HF as [|? iv ? edits' Rx HF']; subst.
  - cbn. rewrite andb_true_r, andb_false_r. reflexivity.
  - destruct iv as [i v]. cbn [map fst] in ND. inversion ND as [|? ? Ni ND']; subst.
    destruct (H (i, v) (or_introl eq_refl)) as [Hi Hc]. cbn [fst] in Hi, Hc.
    cbn [irun fold_left]. change (fold_left istep l ?s) with (irun l s).
    rewrite (edit_step x i v t cur po Rx) by (try lia; exact Hc).
    change (VList (repl i v cur)) with (sroot false (repl i v cur)).
    rewrite (IH edits' (repl i v cur) false _ HF' ND').
    + cbn [andb isnil negb]. rewrite andb_false_r, andb_true_r. unfold apply_edits at 2. cbn [fold_left fst snd].
      destruct t; reflexivity.
    + rewrite repl_length by lia. exact L.
    + intros iv Hiv. destruct (H iv (or_intror Hiv)) as [H1 H2]. split; [exact H1|].
      rewrite repl_nth_other; [exact H2|lia|]. intros E0. apply Ni. rewrite E0. apply in_map. exact Hiv.
Qed.

End Edits.

(* ---- from values_changed / type_changes entries of the items to edits ---- *)
Definition eidx (e : entry) : nat := match last (ep1 e) (PIdx 0) with PIdx i => i | PKey _ => 0 end.
Definition eov (o : option value) : value := match o with Some v => v | None => VAtom ANone end.
Definition iskind (k : rkind) (e : entry) : bool := rkind_eqb (ekind e) k.

Lemma eidx_snoc q i k p2 a b d : eidx (mkEntry k (snoc q (PIdx i)) p2 a b d) = i.
Proof. unfold eidx, snoc. cbn [ep1]. rewrite last_last. reflexivity. Qed.

Lemma eidx_of e q i : ep1 e = snoc q (PIdx i) -> eidx e = i.
Proof. intros H. unfold eidx. rewrite H. unfold snoc. rewrite last_last. reflexivity. Qed.

Section EntryEdits.
Variable conv : ty -> value -> option value.
Variables bidir always : bool.
Variable ops : path -> list value -> list value -> list opcode.
Variables T1 T2 : value.
Variable q : path.
Variable xs : list value.
Notation td := (to_delta conv bidir always ops T1 T2).
Hypothesis Hconv : forall ty0 v v', conv ty0 v = Some v' -> type_of v' = ty0.

(* an entry that changes the item i of the sequence at q in place *)
Definition item_entry (e : entry) : Prop :=
  exists i a b, ep1 e = snoc q (PIdx i) /\ et1 e = Some (VAtom a) /\ et2 e = Some (VAtom b) /\ nth_error xs i = Some (VAtom a).

Definition edv (es : list entry) : list (nat * value) :=
  flat_map (fun e => if iskind KValue e then [(eidx e, eov (et2 e))] else []) es.
Definition edt (es : list entry) : list (nat * value) :=
  flat_map (fun e => if iskind KType e then [(eidx e, eov (et2 e))] else []) es.

Lemma strip_item i : skipn (length q) (npath (snoc q (PIdx i))) = [PKey (ik i)].
Proof. unfold snoc. rewrite skipn_npath. reflexivity. Qed.

Lemma p1_realizes es rec :
  (forall e, In e es -> ekind e = KValue -> item_entry e) ->
  Forall2 (realizes conv bidir xs) (map (istrip (length q)) (p1 (td es rec))) (edv es).
Proof.
  intros H. unfold p1, edv. unfold to_delta. cbn [d_val].
  induction es as [|e es IH]; cbn [flat_map map]; [constructor|].
  assert (IH' : Forall2 (realizes conv bidir xs)
            (map (istrip (length q)) (map IVal (flat_map (fun e0 => match ekind e0 with
               | KValue => [mkVC (npath (ep1 e0)) (new_path_opt e0) (if bidir then et1 e0 else None)
                                 (match et2 e0 with Some v => v | None => VAtom ANone end)]
               | _ => [] end) es)))
            (flat_map (fun e0 => if iskind KValue e0 then [(eidx e0, eov (et2 e0))] else []) es)).
  { apply IH. intros e0 H0. apply H. right. exact H0. }
  unfold iskind at 1. destruct (ekind e) eqn:K; cbn [rkind_eqb app]; try exact IH'.
  cbn [map app]. constructor; [|exact IH'].
  destruct (H e (or_introl eq_refl) K) as (i & a & b & Hp & H1 & H2 & Hn).
  rewrite (eidx_of e q i Hp).
  unfold istrip. cbn [imap realizes vc_path vc_new vc_old fst snd]. rewrite Hp, strip_item. rewrite H2. cbn [eov].
  split; [reflexivity|]. split; [reflexivity|]. intros ->. exists (VAtom a), (VAtom a). rewrite H1. repeat split; try assumption.
  cbn. apply py_eq_refl.
Qed.

Lemma p4_realizes es rec :
  (forall e, In e es -> ekind e = KType -> item_entry e) ->
  Forall2 (realizes conv bidir xs) (map (istrip (length q)) (p4 (td es rec))) (edt es).
Proof.
  intros H. unfold p4, edt. unfold to_delta. cbn [d_type].
  induction es as [|e es IH]; cbn [flat_map map]; [constructor|].
  match goal with |- Forall2 _ (map _ (map _ (?a ++ ?l))) (?b ++ ?m) =>
    assert (IH' : Forall2 (realizes conv bidir xs) (map (istrip (length q)) (map IType l)) m) end.
  { apply IH. intros e0 H0. apply H. right. exact H0. }
  unfold iskind at 1. destruct (ekind e) eqn:K; cbn [rkind_eqb app]; try exact IH'.
  cbn [map app]. constructor; [|exact IH'].
  destruct (H e (or_introl eq_refl) K) as (i & a & b & Hp & H1 & H2 & Hn).
  rewrite (eidx_of e q i Hp).
  unfold istrip. cbn [imap realizes tc_path tc_new tc_old tc_new_ty fst snd]. rewrite Hp, strip_item. rewrite H1, H2. cbn [eov].
  split; [reflexivity|]. exists (VAtom a). split; [exact Hn|].
  destruct (bidir || always) eqn:I; cbn [orb andb].
  - split; [reflexivity|]. intros ->. exists (VAtom a). split; [reflexivity|]. cbn. apply py_eq_refl.
  - apply orb_false_iff in I as [-> _]. cbn [type_of].
    destruct (conv (atom_ty b) (VAtom a)) as [a'|] eqn:Cv; cbn [negb andb].
    + destruct (py_eqv a' (VAtom b)) eqn:Ev; cbn [negb].
      * split; [|discriminate]. f_equal.
        apply Hconv in Cv. destruct a' as [a''| | | | |]; cbn in Ev; try discriminate.
        cbn in Cv. f_equal. apply py_eq_same_ty; assumption.
      * split; [reflexivity|discriminate].
    + split; [reflexivity|discriminate].
Qed.

End EntryEdits.

Lemma Forall2_app' {A B} (R : A -> B -> Prop) l1 l2 m1 m2 :
  Forall2 R l1 m1 -> Forall2 R l2 m2 -> Forall2 R (l1 ++ l2) (m1 ++ m2).
Proof. induction 1; cbn; [trivial|]. intros H2. constructor; [assumption|]. apply IHForall2. exact H2. Qed.

Section SeqInplace.
Variable conv : ty -> value -> option value.
Variables bidir always : bool.
Variable ops : path -> list value -> list value -> list opcode.
Variables T1 T2 : value.
Variable q : path.
Notation td := (to_delta conv bidir always ops T1 T2).
Hypothesis Hconv : forall ty0 v v', conv ty0 v = Some v' -> type_of v' = ty0.

Lemma wf_sroot t l : forallb is_atom l = true -> wf (sroot t l) = true.
Proof.
  intros H. assert (forallb wf l = true).
  { apply forallb_forall. intros x Hx. eapply forallb_forall in H; [|exact Hx]. destruct x; try discriminate. reflexivity. }
  destruct t; exact H0.
Qed.

Lemma seq_inplace (tup : bool) xs ys es rec (oo : option (list opv)) :
  let d := td es rec in
  (forall e, In e es -> ekind e = KValue \/ ekind e = KType -> item_entry q xs e) ->
  d_irem d = [] -> d_iadd d = [] -> d_dadd d = [] -> d_drem d = [] -> d_moved d = [] ->
  d_sadd d = [] -> d_srem d = [] ->
  d_ops d = match oo with Some os => [(npath q, os)] | None => [] end ->
  NoDup (map fst (edv es ++ edt es)) ->
  (forall iv, In iv (edv es ++ edt es) -> fst iv < length xs) ->
  match oo with Some os => transformed (apply_edits (edv es ++ edt es) xs) os | None => apply_edits (edv es ++ edt es) xs end = ys ->
  forallb is_atom ys = true ->
  GoodD0 conv bidir d (length q) (sroot tup xs) (sroot tup ys).
Proof.
  intros d HI H6 H7 H8 H9 Hm Hsa Hsr Ho ND Hlt Hres Ay.
  set (l := map (istrip (length q)) (p1 d) ++ map (istrip (length q)) (p4 d)).
  assert (RL : Forall2 (realizes conv bidir xs) l (edv es ++ edt es)).
  { apply Forall2_app'.
    - apply p1_realizes. intros e He K. apply HI; [exact He|left; exact K].
    - apply p4_realizes; [exact Hconv|]. intros e He K. apply HI; [exact He|right; exact K]. }
  assert (RUN : irun conv bidir l (mkSt (sroot tup xs) [] 0) =
                mkSt (sroot (tup && isnil l) (apply_edits (edv es ++ edt es) xs)) (if tup && negb (isnil l) then [[]] else []) 0).
  { rewrite (run_edits conv bidir xs l (edv es ++ edt es) xs tup [] RL ND eq_refl).
    - reflexivity.
    - intros iv Hiv. split; [apply Hlt; exact Hiv|reflexivity]. }
  assert (FIN : finish conv bidir (irun conv bidir (map (istrip (length q)) (p1 d ++ p2 d ++ p3 d ++ p4 d ++ p5 d)) (mkSt (sroot tup xs) [] 0))
                = mkSt (sroot tup ys) (if tup && negb (isnil l) then [[]] else []) 0).
  { assert (EL : map (istrip (length q)) (p1 d ++ p2 d ++ p3 d ++ p4 d ++ p5 d) = l ++ map (istrip (length q)) (p5 d)).
    { unfold p2, p3. rewrite Hsa, Hsr. cbn [map app]. rewrite !map_app. unfold l. rewrite app_assoc. reflexivity. }
    rewrite EL, irun_app, RUN. unfold p5. rewrite Ho.
    set (cur := apply_edits (edv es ++ edt es) xs) in *.
    assert (OPS : irun conv bidir (map (istrip (length q)) (map (fun po => IOps (fst po) (snd po)) match oo with Some os => [(npath q, os)] | None => [] end))
                    (mkSt (sroot (tup && isnil l) cur) (if tup && negb (isnil l) then [[]] else []) 0)
                  = mkSt (sroot (tup && isnil l) ys) (if tup && negb (isnil l) then [[]] else []) 0).
    { destruct oo as [os|]; cbn [map]; [|rewrite <- Hres; reflexivity].
      unfold istrip. cbn [imap fst snd]. rewrite skipn_npath_self. cbn [DeltaFacts.irun fold_left istep].
      unfold upd_step. cbn [root upd]. rewrite <- Hres. destruct (tup && isnil l); reflexivity. }
    rewrite OPS. unfold finish. cbn [post].
    destruct tup; cbn [andb]; [|reflexivity]. destruct (isnil l); cbn [negb map]; [reflexivity|].
    cbn [DeltaFacts.irun fold_left istep]. unfold upd_step. cbn [root upd sroot post_fun]. reflexivity. }
  apply GoodD_inplace; try assumption.
  - rewrite FIN. reflexivity.
  - rewrite FIN. cbn [root]. apply veqb_refl. apply wf_sroot. exact Ay.
Qed.

End SeqInplace.

(** C08, round 3: the opcode oracle needs no hypothesis beyond validity.
    [ops_sorted2] / [ops_disjoint] (the t1 and t2 ranges of the opcodes are sorted
    and disjoint) follow from the tiling property of a valid alignment - but the
    diff consults the oracle on all-atom lists only, where validity is assumed.
    [restrict ops] answers [] elsewhere; the diff and the delta built with it are
    the diff and the delta built with [ops] ([diff_restrict], [to_delta_restrict]:
    every recorded-opcode path resolves to all-atom sequences on both sides), and
    [restrict ops] is sorted everywhere.  The theorems of DeltaReverseFrom.v are
    restated without the sortedness hypothesis. *)
From Coq Require Import List ZArith NArith Bool Arith Lia Permutation.
Import ListNotations.
From DD Require Import Base.PyStr Base.Value Base.ValueFacts Path.PathModel
  Diff.Tree Diff.DiffModel Diff.DiffFacts Diff.DiffFaithful Diff.DiffPaths
  Delta.DeltaModel Delta.DeltaGuard Delta.DeltaRun Delta.DeltaGood
  Delta.DeltaVerify Delta.DeltaVerifyIndep Delta.DeltaReverse Delta.DeltaReverseInplace
  Delta.DeltaReverseSym Delta.DeltaReverseDefault Delta.DeltaReverseSeq Delta.DeltaReverseFrom.

Definition restrict (ops : path -> list value -> list value -> list opcode)
    (p : path) (xs ys : list value) : list opcode :=
  if forallb is_atom xs && forallb is_atom ys then ops p xs ys else [].

(* ---- a valid alignment is sorted ---- *)
Lemma tiles_ok2 os : forall i j n m, tiles os i j n m -> ops_ok2 i j os = true.
Proof.
  induction os as [|o os IH]; intros i j n m H; [reflexivity|].
  cbn in H. destruct H as (H1 & H2 & H3 & H4 & H5). cbn [ops_ok2].
  repeat (apply andb_true_iff; split); try (apply Nat.leb_le; lia). eapply IH. exact H5.
Qed.

Lemma restrict_sorted ops :
  (forall p xs ys, forallb is_atom xs = true -> forallb is_atom ys = true -> valid_ops xs ys (ops p xs ys)) ->
  ops_sorted2 (restrict ops).
Proof.
  intros H p xs ys. unfold restrict. destruct (forallb is_atom xs && forallb is_atom ys) eqn:E; [|reflexivity].
  apply andb_true_iff in E as [Ax Ay]. destruct (H p xs ys Ax Ay) as [T _]. eapply tiles_ok2. exact T.
Qed.

Lemma restrict_valid ops :
  (forall p xs ys, forallb is_atom xs = true -> forallb is_atom ys = true -> valid_ops xs ys (ops p xs ys)) ->
  forall p xs ys, forallb is_atom xs = true -> forallb is_atom ys = true -> valid_ops xs ys (restrict ops p xs ys).
Proof. intros H p xs ys Ax Ay. unfold restrict. rewrite Ax, Ay. apply H; assumption. Qed.

(* ---- the diff never asks the oracle about anything else ---- *)
Section Ext.
Variable hatom : atom -> pystr.
Variable udiff : pystr -> pystr -> pystr.
Variable ops : path -> list value -> list value -> list opcode.
Variable skip excl : path -> bool.
Variable c : cfg.
Notation dR := (diff hatom udiff (restrict ops) skip excl c).
Notation dO := (diff hatom udiff ops skip excl c).

Lemma go_list_ext xs : Forall (fun x => forall y p1 p2, dR x y p1 p2 = dO x y p1 p2) xs ->
  forall ys i p1 p2, go_list skip dR p1 p2 xs ys i = go_list skip dO p1 p2 xs ys i.
Proof.
  induction 1 as [|x xs Hx _ IH]; intros ys i p1 p2; [reflexivity|].
  destruct ys as [|y ys]; [reflexivity|]. cbn [go_list]. rewrite Hx, IH. reflexivity.
Qed.

Lemma seq_body_ext xs ys p1 p2 : Forall (fun x => forall y p1 p2, dR x y p1 p2 = dO x y p1 p2) xs ->
  seq_body hatom udiff (restrict ops) skip excl c xs ys p1 p2 = seq_body hatom udiff ops skip excl c xs ys p1 p2.
Proof.
  intros IH. unfold seq_body. destruct (negb (zip c) && forallb is_atom xs && forallb is_atom ys) eqn:E.
  - apply andb_true_iff in E as [E Ay]. apply andb_true_iff in E as [_ Ax].
    unfold default_leaf_list, restrict. rewrite Ax, Ay. reflexivity.
  - apply go_list_ext. exact IH.
Qed.

Lemma go_common_ext kvs2 k2 p1 p2 l : Forall (fun kv => forall y p1 p2, dR (snd kv) y p1 p2 = dO (snd kv) y p1 p2) l ->
  go_common c dR kvs2 k2 p1 p2 l = go_common c dO kvs2 k2 p1 p2 l.
Proof.
  induction 1 as [|[k v1] l Hk _ IH]; [reflexivity|]. cbn [go_common]. rewrite IH.
  destruct (keep_key c k); [|reflexivity]. destruct (find (py_eq k) k2); [|reflexivity].
  destruct (assoc a kvs2); [|reflexivity]. cbn [snd] in Hk. rewrite Hk. reflexivity.
Qed.

Theorem diff_restrict : forall t1 t2 p1 p2, dR t1 t2 p1 p2 = dO t1 t2 p1 p2.
Proof.
  induction t1 as [a|xs IH|xs IH|kvs IH|xs|xs] using value_ind'; intros t2 p1 p2;
    (destruct (skip p1) eqn:Hs; [rewrite !diff_skip by exact Hs; reflexivity|]);
    (match goal with |- DiffModel.diff _ _ _ _ _ _ ?t1 t2 _ _ = _ => destruct (ty_eqb (type_of t1) (type_of t2)) eqn:T end;
     [|rewrite !diff_type by assumption; reflexivity]);
    apply ty_eqb_true in T; destruct t2; try discriminate T; try (destruct a; discriminate T).
  - rewrite !diff_atom_eq by exact Hs. reflexivity.
  - rewrite !diff_list by exact Hs. apply seq_body_ext. exact IH.
  - rewrite !diff_tuple by exact Hs. apply seq_body_ext. exact IH.
  - rewrite !diff_dict by exact Hs. unfold dict_body. destruct (dict_shortcut _ _ _ _ _); [reflexivity|].
    rewrite go_common_ext by exact IH. reflexivity.
  - rewrite !diff_vset by exact Hs. reflexivity.
  - rewrite !diff_vfrozen by exact Hs. reflexivity.
Qed.

Lemma run_diff_restrict t1 t2 :
  run_diff hatom udiff (restrict ops) skip excl c t1 t2 = run_diff hatom udiff ops skip excl c t1 t2.
Proof. unfold run_diff. rewrite diff_restrict. reflexivity. Qed.

(* ---- recorded-opcode paths resolve to all-atom sequences ---- *)
Variables r1 r2 : value.
Definition rec_atoms (q : path) : Prop :=
  exists v1 v2 xs ys, resolve r1 q = Some v1 /\ resolve r2 q = Some v2 /\
    seq_items v1 = Some xs /\ seq_items v2 = Some ys /\ forallb is_atom xs = true /\ forallb is_atom ys = true.
Notation RA := (Forall rec_atoms).

Definition IHA (t1 : value) : Prop :=
  forall t2 p, wf t1 = true -> resolve r1 p = Some t1 -> resolve r2 p = Some t2 -> RA (snd (dO t1 t2 p p)).

Lemma A_go_list xs : Forall IHA xs -> forall ys i v1 v2 XS YS p,
  resolve r1 p = Some v1 -> seq_items v1 = Some XS ->
  resolve r2 p = Some v2 -> seq_items v2 = Some YS ->
  (forall k x, nth_error xs k = Some x -> nth_error XS (i + k) = Some x) ->
  (forall k y, nth_error ys k = Some y -> nth_error YS (i + k) = Some y) ->
  forallb wf xs = true ->
  RA (snd (go_list skip dO p p xs ys i)).
Proof.
  induction 1 as [|x xs Hx _ IH]; intros ys i v1 v2 XS YS p H1 S1 H2 S2 N1 N2 W.
  - cbn. constructor.
  - destruct ys as [|y ys]; [cbn [go_list snd]; constructor|].
    cbn in W. apply andb_true_iff in W as [Wx W].
    cbn [go_list]. unfold app2. cbn [snd]. apply Forall_app; split.
    + apply Hx.
      * exact Wx.
      * eapply resolve_seq_item; try eassumption. specialize (N1 0 x eq_refl). rewrite Nat.add_0_r in N1. exact N1.
      * eapply resolve_seq_item; try eassumption. specialize (N2 0 y eq_refl). rewrite Nat.add_0_r in N2. exact N2.
    + eapply IH; try eassumption.
      * intros k z Hk. specialize (N1 (S k) z Hk). rewrite Nat.add_succ_r in N1. exact N1.
      * intros k z Hk. specialize (N2 (S k) z Hk). rewrite Nat.add_succ_r in N2. exact N2.
Qed.

Lemma A_seq_body xs ys v1 v2 p : Forall IHA xs ->
  resolve r1 p = Some v1 -> seq_items v1 = Some xs ->
  resolve r2 p = Some v2 -> seq_items v2 = Some ys -> forallb wf xs = true ->
  RA (snd (seq_body hatom udiff ops skip excl c xs ys p p)).
Proof.
  intros IH H1 S1 H2 S2 W. unfold seq_body.
  destruct (negb (zip c) && forallb is_atom xs && forallb is_atom ys) eqn:E.
  - apply andb_true_iff in E as [E Ay]. apply andb_true_iff in E as [_ Ax].
    destruct (default_leaf_list udiff ops skip xs ys p p) as [es rec]. cbn [snd].
    destruct rec; [|constructor]. constructor; [|constructor].
    exists v1, v2, xs, ys. repeat split; assumption.
  - eapply A_go_list; try eassumption; intros k z Hk; exact Hk.
Qed.

Lemma A_go_common kvs1 kvs2 p :
  resolve r1 p = Some (VDict kvs1) -> resolve r2 p = Some (VDict kvs2) ->
  forall l, (forall k v, In (k, v) l -> assoc k kvs1 = Some v) -> forallb (fun kv => wf (snd kv)) l = true ->
  Forall (fun kv => IHA (snd kv)) l ->
  RA (snd (go_common c dO kvs2 (keys_of c kvs2) p p l)).
Proof.
  intros H1 H2. induction l as [|[k v1] l IH]; intros Sub W HI; cbn; [constructor|].
  apply Forall_cons_iff in HI as [Hk HI']. cbn in W. apply andb_true_iff in W as [Wk W].
  assert (Rest : RA (snd (go_common c dO kvs2 (keys_of c kvs2) p p l))).
  { apply IH; [intros k0 v0 Hkv; apply Sub; right; exact Hkv|exact W|exact HI']. }
  destruct (keep_key c k); [|exact Rest].
  destruct (find (py_eq k) (keys_of c kvs2)) as [k'|] eqn:Fk; [|exact Rest].
  destruct (assoc k' kvs2) as [v2|] eqn:A2; [|exact Rest].
  unfold app2. cbn [snd]. apply Forall_app; split; [|exact Rest].
  apply find_some in Fk as [Hk' E]. cbn in Hk. apply Hk.
  - exact Wk.
  - unfold snoc. rewrite resolve_snoc, H1. rewrite get_item_key_dict.
    pose proof (Sub k v1 (or_introl eq_refl)) as A1.
    (* assoc k' kvs1 = assoc k kvs1 because k == k' *)
    clear - A1 E. induction kvs1 as [|[k0 v0] r IHr]; cbn in *; [discriminate|].
    destruct (py_eq k0 k) eqn:E0.
    + rewrite (py_eq_trans k0 k k' E0 E). exact A1.
    + destruct (py_eq k0 k') eqn:E1; [|apply IHr; exact A1].
      exfalso. rewrite py_eq_sym in E. rewrite (py_eq_trans k0 k' k E1 E) in E0. discriminate.
  - unfold snoc. rewrite resolve_snoc, H2. rewrite get_item_key_dict. exact A2.
Qed.

Theorem diff_rec_atoms : forall t1, IHA t1.
Proof.
  induction t1 as [a|xs IH|xs IH|kvs IH|xs|xs] using value_ind'; intros t2 p W H1 H2;
    (destruct (skip p) eqn:Hs; [rewrite diff_skip by exact Hs; constructor|]);
    (match goal with |- context [DiffModel.diff _ _ _ _ _ _ ?t1 t2 _ _] => destruct (ty_eqb (type_of t1) (type_of t2)) eqn:T end;
     [|rewrite diff_type by assumption; cbn [snd]; constructor]);
    apply ty_eqb_true in T; destruct t2; try discriminate T; try (destruct a; discriminate T).
  - rewrite diff_atom_eq by exact Hs. destruct (negb _); constructor.
  - rewrite diff_list by exact Hs. eapply A_seq_body; try eassumption; reflexivity.
  - rewrite diff_tuple by exact Hs. eapply A_seq_body; try eassumption; reflexivity.
  - rewrite diff_dict by exact Hs. unfold dict_body. destruct (dict_shortcut _ _ _ _ _); cbn [snd]; [constructor|].
    cbn in W. apply andb_true_iff in W as [N1 W].
    apply (A_go_common kvs kvs0); try assumption.
    intros k v Hkv. apply (assoc_nodup kvs k v k N1 Hkv (py_eq_refl k)).
  - rewrite diff_vset by exact Hs. constructor.
  - rewrite diff_vfrozen by exact Hs. constructor.
Qed.
End Ext.

(* ---- hence the delta is the same ---- *)
Lemma to_delta_restrict conv bidir always ops t1 t2 es rec :
  Forall (rec_atoms t1 t2) rec ->
  to_delta conv bidir always (restrict ops) t1 t2 es rec = to_delta conv bidir always ops t1 t2 es rec.
Proof.
  intros H. unfold to_delta. f_equal. apply map_ext_in. intros p Hp.
  eapply Forall_forall in H; [|exact Hp]. destruct H as (v1 & v2 & xs & ys & R1 & R2 & S1 & S2 & Ax & Ay).
  rewrite R1, R2.
  assert (E1 : seq_of (Some v1) = xs) by (destruct v1; cbn in S1; try discriminate; inversion S1; reflexivity).
  assert (E2 : seq_of (Some v2) = ys) by (destruct v2; cbn in S2; try discriminate; inversion S2; reflexivity).
  rewrite E1, E2. unfold restrict. rewrite Ax, Ay. reflexivity.
Qed.

Lemma delta_of_restrict hatom udiff ops skip excl c conv bidir always t1 t2 :
  wf t1 = true ->
  to_delta conv bidir always (restrict ops) t1 t2
    (fst (run_diff hatom udiff (restrict ops) skip excl c t1 t2)) (snd (run_diff hatom udiff (restrict ops) skip excl c t1 t2)) =
  to_delta conv bidir always ops t1 t2
    (fst (run_diff hatom udiff ops skip excl c t1 t2)) (snd (run_diff hatom udiff ops skip excl c t1 t2)).
Proof.
  intros W. rewrite run_diff_restrict. apply to_delta_restrict.
  unfold run_diff. pose proof (diff_rec_atoms hatom udiff ops skip excl c t1 t2 t1 t2 [] W eq_refl eq_refl) as H.
  destruct (diff hatom udiff ops skip excl c t1 t2 [] []) as [es rec]. exact H.
Qed.

(* ------------------------------------------------------------------ *)
(* the theorems of DeltaReverseFrom.v for EVERY valid opcode oracle    *)
(* ------------------------------------------------------------------ *)
Section Valid.
Variable hatom : atom -> pystr.
Variable udiff : pystr -> pystr -> pystr.
Variable ops : path -> list value -> list value -> list opcode.
Variable c : cfg.
Variable conv : ty -> value -> option value.
Variable always : bool.
Hypothesis Hthr : thr_num c <= thr_den c.
Hypothesis Hinj : forall a b, hatom a = hatom b -> a = b.
Hypothesis Hconv : forall ty0 v v', conv ty0 v = Some v' -> type_of v' = ty0.
Variable ro : list (path * value) -> list (path * value).
Variable ao : list (path * option value) -> list (path * option value).
Hypothesis Hops : forall p xs ys, forallb is_atom xs = true -> forallb is_atom ys = true ->
                                  valid_ops xs ys (ops p xs ys).
Variables t1 t2 : value.
Hypothesis G21 : guards c conv true always t2 t1.
Hypothesis KO : korder t1 t2.

Notation nos := DeltaReverseSym.nos.
Let esf := fst (diff hatom udiff ops nos nos c t1 t2 [] []).
Let r := run_diff hatom udiff ops nos nos c t1 t2.
Let d := to_delta conv true always ops t1 t2 (fst r) (snd r).

Hypothesis HOr : orders_ok_at ro ao (reverse d).
(* either mutual_add_removes changes nothing, or: no negative int dict key in t1 and no tuple
   is the parent (in t2) of a location the subtraction writes a value change to *)
Hypothesis Hclash :
  no_clash esf \/
  (keys_nonneg t1 = true /\ forall cc, In cc (d_val (reverse d)) -> ntp t2 (vc_path cc)).

Let ED : to_delta conv true always (restrict ops) t1 t2
           (fst (run_diff hatom udiff (restrict ops) nos nos c t1 t2)) (snd (run_diff hatom udiff (restrict ops) nos nos c t1 t2)) = d.
Proof. destruct G21 as (_ & W1 & _). apply delta_of_restrict. exact W1. Qed.
Let EF : diff hatom udiff (restrict ops) nos nos c t1 t2 [] [] = diff hatom udiff ops nos nos c t1 t2 [] [].
Proof. apply diff_restrict. Qed.

Let HclashR :
  no_clash esf \/
  ((zip c = true \/ ops_sorted2 (restrict ops)) /\ keys_nonneg t1 = true /\
   forall cc, In cc (d_val (reverse d)) -> ntp t2 (vc_path cc)).
Proof.
  destruct Hclash as [NC|[N1 N]]; [left; exact NC|right].
  split; [right; apply restrict_sorted; exact Hops|]. split; assumption.
Qed.

Theorem sub_inverts_from_valid v2 :
  wf v2 = true -> veqb v2 t2 = true ->
  exists t1', sub conv ro ao d v2 = Some (t1', 0) /\ veqb t1' t1 = true.
Proof.
  pose proof (sub_inverts_from hatom udiff (restrict ops) c conv always Hthr Hinj Hconv ro ao (restrict_valid ops Hops) t1 t2 G21 KO) as T.
  cbv zeta in T. rewrite ED, EF in T. exact (T HOr HclashR v2).
Qed.

Corollary sub_inverts_py_valid :
  exists t1', sub conv ro ao d t2 = Some (t1', 0) /\ wf t1' = true /\ py_eqv t1' t1 = true /\ py_eqv t1 t1' = true.
Proof.
  pose proof (sub_inverts_py hatom udiff (restrict ops) c conv always Hthr Hinj Hconv ro ao (restrict_valid ops Hops) t1 t2 G21 KO) as T.
  cbv zeta in T. rewrite ED, EF in T. exact (T HOr HclashR).
Qed.

Hypothesis G12 : guards c conv true always t1 t2.
Hypothesis HOf : orders_ok_at ro ao d.

Theorem add_then_sub_valid :
  exists t2' t1', apply conv ro ao d t1 = (t2', 0) /\ veqb t2' t2 = true /\
                  sub conv ro ao d t2' = Some (t1', 0) /\ veqb t1' t1 = true.
Proof.
  pose proof (add_then_sub_default hatom udiff (restrict ops) c conv always Hthr Hinj Hconv ro ao (restrict_valid ops Hops) t1 t2 G21 KO) as T.
  cbv zeta in T. rewrite ED, EF in T. exact (T HOr HclashR G12 HOf).
Qed.

Theorem sub_then_add_valid :
  exists t1' t2', sub conv ro ao d t2 = Some (t1', 0) /\ veqb t1' t1 = true /\
                  apply conv ro ao d t1' = (t2', 0) /\ veqb t2' t2 = true.
Proof.
  pose proof (sub_then_add_default hatom udiff (restrict ops) c conv always Hthr Hinj Hconv ro ao (restrict_valid ops Hops) t1 t2 G21 KO) as T.
  cbv zeta in T. rewrite ED, EF in T. exact (T HOr HclashR G12 HOf).
Qed.

Theorem seq_from_valid : forall k,
  (forall v, wf v = true -> veqb v t1 = true ->
     exists v', run_seq conv ro ao d (alternating Plus k) v = Some (v', 0) /\
                veqb v' (if Nat.even k then t1 else t2) = true) /\
  (forall v, wf v = true -> veqb v t2 = true ->
     exists v', run_seq conv ro ao d (alternating Minus k) v = Some (v', 0) /\
                veqb v' (if Nat.even k then t2 else t1) = true).
Proof.
  pose proof (seq_from hatom udiff (restrict ops) c conv always Hthr Hinj Hconv ro ao (restrict_valid ops Hops) t1 t2 G21 KO) as T.
  cbv zeta in T. rewrite ED, EF in T. exact (T HOr HclashR G12 HOf).
Qed.

End Valid.

Section ValidExact.
Variable hatom : atom -> pystr.
Variable udiff : pystr -> pystr -> pystr.
Variable ops : path -> list value -> list value -> list opcode.
Variable c : cfg.
Variable conv : ty -> value -> option value.
Variable always : bool.
Hypothesis Hthr : thr_num c <= thr_den c.
Hypothesis Hinj : forall a b, hatom a = hatom b -> a = b.
Hypothesis Hconv : forall ty0 v v', conv ty0 v = Some v' -> type_of v' = ty0.
Variable ro : list (path * value) -> list (path * value).
Variable ao : list (path * option value) -> list (path * option value).
Hypothesis Hops : forall p xs ys, forallb is_atom xs = true -> forallb is_atom ys = true ->
                                  valid_ops xs ys (ops p xs ys).
Variables t1 t2 : value.
Hypothesis G21 : guards c conv true always t2 t1.
Hypothesis O1 : ordfree t1 = true.

Notation nos := DeltaReverseSym.nos.
Let esf := fst (diff hatom udiff ops nos nos c t1 t2 [] []).
Let r := run_diff hatom udiff ops nos nos c t1 t2.
Let d := to_delta conv true always ops t1 t2 (fst r) (snd r).

Hypothesis HOr : orders_ok_at ro ao (reverse d).
Hypothesis Hclash : no_clash esf \/ (forall cc, In cc (d_val (reverse d)) -> ntp t2 (vc_path cc)).

Let ED : to_delta conv true always (restrict ops) t1 t2
           (fst (run_diff hatom udiff (restrict ops) nos nos c t1 t2)) (snd (run_diff hatom udiff (restrict ops) nos nos c t1 t2)) = d.
Proof. destruct G21 as (_ & W1 & _). apply delta_of_restrict. exact W1. Qed.
Let EF : diff hatom udiff (restrict ops) nos nos c t1 t2 [] [] = diff hatom udiff ops nos nos c t1 t2 [] [].
Proof. apply diff_restrict. Qed.
Let HclashR :
  no_clash esf \/
  ((zip c = true \/ ops_sorted2 (restrict ops)) /\ forall cc, In cc (d_val (reverse d)) -> ntp t2 (vc_path cc)).
Proof.
  destruct Hclash as [NC|N]; [left; exact NC|right]. split; [right; apply restrict_sorted; exact Hops|exact N].
Qed.

Theorem sub_inverts_exact_valid : sub conv ro ao d t2 = Some (t1, 0).
Proof.
  pose proof (sub_inverts_exact hatom udiff (restrict ops) c conv always Hthr Hinj Hconv ro ao (restrict_valid ops Hops) t1 t2 G21 O1) as T.
  cbv zeta in T. rewrite ED, EF in T. exact (T HOr HclashR).
Qed.

Hypothesis G12 : guards c conv true always t1 t2.
Hypothesis O2 : ordfree t2 = true.
Hypothesis HOf : orders_ok_at ro ao d.

Theorem back_and_forth_exact_valid k :
  run_seq conv ro ao d (alternating Plus k) t1 = Some (if Nat.even k then t1 else t2, 0) /\
  run_seq conv ro ao d (alternating Minus k) t2 = Some (if Nat.even k then t2 else t1, 0).
Proof.
  pose proof (back_and_forth_exact hatom udiff (restrict ops) c conv always Hthr Hinj Hconv ro ao (restrict_valid ops Hops) t1 t2 G21 O1) as T.
  cbv zeta in T. rewrite ED, EF in T. exact (T HOr HclashR G12 O2 HOf k).
Qed.

End ValidExact.

(* ------------------------------------------------------------------ *)
(* the independence guard of the detection theorems, for every oracle  *)
(* that is a valid alignment of all-atom lists (no [ops_disjoint])     *)
(* ------------------------------------------------------------------ *)
Lemma tiles_ok os : forall i j n m, tiles os i j n m -> ops_ok i os = true.
Proof.
  induction os as [|o os IH]; intros i j n m H; [reflexivity|].
  cbn in H. destruct H as (H1 & H2 & H3 & H4 & H5). cbn [ops_ok].
  repeat (apply andb_true_iff; split); try (apply Nat.leb_le; lia). eapply IH. exact H5.
Qed.

Lemma restrict_disjoint ops :
  (forall p xs ys, forallb is_atom xs = true -> forallb is_atom ys = true -> valid_ops xs ys (ops p xs ys)) ->
  ops_disjoint (restrict ops).
Proof.
  intros H p xs ys. unfold restrict. destruct (forallb is_atom xs && forallb is_atom ys) eqn:E; [|reflexivity].
  apply andb_true_iff in E as [Ax Ay]. destruct (H p xs ys Ax Ay) as [T _]. eapply tiles_ok. exact T.
Qed.

Theorem indep_guard_valid hatom udiff ops skip excl c conv always ops' t1 t2 :
  (forall p xs ys, forallb is_atom xs = true -> forallb is_atom ys = true -> valid_ops xs ys (ops p xs ys)) ->
  wf t1 = true -> wf t2 = true -> keys_nonneg t2 = true ->
  let r := run_diff hatom udiff ops skip excl c t1 t2 in
  indep_verified (to_delta conv true always ops' t1 t2 (fst r) (snd r)) = true.
Proof.
  intros H W1 W2 N r. unfold r. rewrite <- run_diff_restrict.
  apply diff_delta_indep_ops; try assumption. apply restrict_disjoint. exact H.
Qed.

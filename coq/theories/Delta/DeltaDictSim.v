(** C01 - the round trip for a dict compared key by key, given the round trip
    for the values of its common keys. *)
From Coq Require Import List ZArith NArith Bool Arith Lia Permutation.
Import ListNotations.
From DD Require Import Base.PyStr Base.Value Base.ValueFacts Path.PathModel Diff.Tree Diff.DiffModel
  Diff.DiffFacts Diff.DiffFaithful Delta.DeltaModel Delta.DeltaFacts Delta.DeltaLocal Delta.DeltaEntries
  Delta.DeltaStruct Delta.DeltaRun Delta.DeltaGuard Delta.DeltaGood Delta.DeltaCompose Delta.DeltaListNode
  Delta.DeltaListSim Delta.DeltaDictNode.

(* ---- dict primitives ---- *)
Lemma nodup_py l a b : nodup_atoms l = true -> In a l -> In b l -> a <> b -> py_eq a b = false.
Proof.
  induction l as [|x l IH]; cbn; intros N Ha Hb Nab; [destruct Ha|].
  apply andb_true_iff in N as [Nx N]. apply negb_true_iff in Nx.
  destruct Ha as [->|Ha], Hb as [->|Hb].
  - congruence.
  - destruct (py_eq a b) eqn:E; [|reflexivity].
    assert (mem_atom a l = true) by (apply mem_atom_In; exists b; split; assumption). congruence.
  - destruct (py_eq a b) eqn:E; [|reflexivity]. rewrite py_eq_sym in E.
    assert (mem_atom b l = true) by (apply mem_atom_In; exists a; split; assumption). congruence.
  - apply IH; assumption.
Qed.

Lemma nodup_NoDup l : nodup_atoms l = true -> NoDup l.
Proof.
  induction l as [|x l IH]; cbn; intros N; [constructor|].
  apply andb_true_iff in N as [Nx N]. apply negb_true_iff in Nx. constructor; [|apply IH; exact N].
  intros H. assert (mem_atom x l = true) by (apply mem_atom_In; exists x; split; [exact H|apply py_eq_refl]). congruence.
Qed.

Lemma assoc_app_l {B} k (l1 l2 : list (atom * B)) v : assoc k l1 = Some v -> assoc k (l1 ++ l2) = Some v.
Proof.
  induction l1 as [|[k' v'] l1 IH]; cbn; [discriminate|]. destruct (py_eq k' k); [trivial|exact IH].
Qed.
Lemma assoc_app_r {B} k (l1 l2 : list (atom * B)) : assoc k l1 = None -> assoc k (l1 ++ l2) = assoc k l2.
Proof.
  induction l1 as [|[k' v'] l1 IH]; cbn; [reflexivity|]. destruct (py_eq k' k); [discriminate|exact IH].
Qed.

Lemma assoc_In_key {B} k (l : list (atom * B)) : nodup_atoms (map fst l) = true -> In k (map fst l) -> exists v, assoc k l = Some v /\ In (k, v) l.
Proof.
  intros N H. apply in_map_iff in H as ([k0 v] & E0 & Hin). cbn in E0. subst k0. exists v. split; [|exact Hin].
  eapply assoc_nodup; [exact N|exact Hin|apply py_eq_refl].
Qed.

Lemma dict_del_spec kvs k v :
  nodup_atoms (map fst kvs) = true -> assoc k kvs = Some v ->
  exists kvs', dict_del kvs k = Some kvs' /\ nodup_atoms (map fst kvs') = true /\
    (forall k', In k' (map fst kvs') -> In k' (map fst kvs) /\ py_eq k' k = false) /\
    (forall k', py_eq k k' = false -> assoc k' kvs' = assoc k' kvs).
Proof.
  induction kvs as [|[k0 v0] kvs IH]; cbn; intros N A; [discriminate|].
  apply andb_true_iff in N as [N0 N]. apply negb_true_iff in N0.
  destruct (py_eq k0 k) eqn:E.
  - exists kvs. split; [reflexivity|]. split; [exact N|]. split.
    + intros k' Hk'. split; [right; exact Hk'|]. destruct (py_eq k' k) eqn:E2; [|reflexivity].
      assert (mem_atom k0 (map fst kvs) = true).
      { apply mem_atom_In. exists k'. split; [exact Hk'|]. eapply py_eq_trans; [exact E|rewrite py_eq_sym; exact E2]. }
      congruence.
    + intros k' Nk. destruct (py_eq k0 k') eqn:E2; [|reflexivity].
      rewrite (py_eq_trans k k0 k') in Nk; [discriminate|rewrite py_eq_sym; exact E|exact E2].
  - destruct (IH N A) as (kvs' & Hd & Nd & Hk & Ha). exists ((k0, v0) :: kvs'). rewrite Hd. split; [reflexivity|].
    split; [|split].
    + cbn. apply andb_true_iff. split; [|exact Nd]. apply negb_true_iff.
      destruct (mem_atom k0 (map fst kvs')) eqn:M; [|reflexivity].
      apply mem_atom_In in M as (b & Hb & Eb). destruct (Hk b Hb) as [Hb' _].
      assert (mem_atom k0 (map fst kvs) = true) by (apply mem_atom_In; exists b; split; assumption). congruence.
    + intros k' [<-|Hk']; [split; [left; reflexivity|exact E]|]. destruct (Hk k' Hk') as [H1 H2]. split; [right; exact H1|exact H2].
    + intros k' Nk. cbn. destruct (py_eq k0 k'); [reflexivity|apply Ha; exact Nk].
Qed.

Section DictSteps.
Variable conv : ty -> value -> option value.
Variable bidir : bool.
Notation istep := (istep conv bidir).
Notation irun := (irun conv bidir).

Lemma dict_add_step kvs k v po e :
  istep (mkSt (VDict kvs) po e) (IAdd false [PKey k] (Some v)) = mkSt (VDict (dict_set kvs k v)) po e.
Proof. reflexivity. Qed.

Lemma dict_rem_step kvs kvs' k v cur po e :
  assoc k kvs = Some cur -> py_eqv v cur = true -> dict_del kvs k = Some kvs' ->
  istep (mkSt (VDict kvs) po e) (IRem [PKey k] v) = mkSt (VDict kvs') po e.
Proof.
  intros A R Dl. cbn [istep]. unfold remove_one. cbn [removelast last key_atom resolve root get_item].
  rewrite A. unfold del_elem. cbn [resolve root is_tuple untuple upd del_item post errs]. rewrite Dl. cbn [option_map].
  unfold verify. destruct bidir; [rewrite R|]; reflexivity.
Qed.

Lemma Rel_reroot_dict K kvs kvs' po e S :
  Rel K (mkSt (VDict kvs) po e) S ->
  (forall k, In k K -> assoc k kvs' = assoc k kvs) ->
  Rel K (mkSt (VDict kvs') po e) S.
Proof.
  intros (H1 & H2 & H3 & H4 & H5) A. unfold Rel. cbn [root post errs] in *.
  split; [|split; [|split; [exact H3|split; [exact H4|exact H5]]]].
  - cbn [sepK] in *. destruct H1 as [M P]. split; [|exact P]. intros k Hk.
    pose proof (H2 k Hk) as G. cbn in G. rewrite <- (A k Hk) in G.
    destruct (mem_atom k (map fst kvs')) eqn:E; [reflexivity|]. apply assoc_None in E. congruence.
  - intros k Hk. cbn [get_item]. rewrite (A k Hk). apply (H2 k Hk).
Qed.

End DictSteps.

Definition nextP (q : list item) (x : item) (q' : list item) : Prop :=
  exists l1 l2, q = l1 ++ x :: l2 /\ q' = l1 ++ l2.

Lemma own_run_perm (own : item -> bool) l : forall r,
  Permutation (filter own l) r -> own_run (list item) nextP own r l [].
Proof.
  induction l as [|x l IH]; intros r HP; cbn in HP.
  - apply Permutation_nil in HP. subst. constructor.
  - destruct (own x) eqn:O.
    + assert (Hx : In x r) by (eapply Permutation_in; [exact HP|left; reflexivity]).
      apply in_split in Hx as (l1 & l2 & ->).
      eapply own_run_own; [exact O|exists l1, l2; split; reflexivity|].
      apply IH. eapply Permutation_cons_app_inv. exact HP.
    + apply own_run_child; [exact O|apply IH; exact HP].
Qed.

Section DictPasses.
Variable conv : ty -> value -> option value.
Variable bidir : bool.
Notation istep := (istep conv bidir).
Notation irun := (irun conv bidir).
Variable K : list atom.          (* the common keys *)
Variable AK : list atom.         (* the added keys *)
Variable f : atom -> value.      (* their values *)

Lemma dict_own_adds l : forall kvs po e,
  irun (map (fun k => IAdd false [PKey k] (Some (f k))) l) (mkSt (VDict kvs) po e) =
  mkSt (VDict (fold_left (fun acc k => dict_set acc k (f k)) l kvs)) po e.
Proof. induction l as [|k l IH]; intros kvs po e; cbn [map fold_left]; [reflexivity|]. apply IH. Qed.

Lemma fold_dict_set_new l : forall kvs,
  (forall k, In k l -> mem_atom k (map fst kvs) = false) -> nodup_atoms l = true ->
  fold_left (fun acc k => dict_set acc k (f k)) l kvs = kvs ++ map (fun k => (k, f k)) l.
Proof.
  induction l as [|k l IH]; intros kvs H N; cbn [fold_left map]; [rewrite app_nil_r; reflexivity|].
  cbn in N. apply andb_true_iff in N as [Nk N]. apply negb_true_iff in Nk.
  rewrite dict_set_new by (apply H; left; reflexivity). rewrite IH.
  - rewrite <- app_assoc. reflexivity.
  - intros k' Hk'. rewrite map_app. cbn [map fst]. unfold mem_atom. rewrite existsb_app. cbn [existsb].
    fold (mem_atom k' (map fst kvs)). rewrite (H k' (or_intror Hk')). cbn [orb]. rewrite orb_false_r.
    destruct (py_eq k' k) eqn:E; [|reflexivity]. rewrite py_eq_sym in E.
    assert (mem_atom k l = true) by (apply mem_atom_In; exists k'; split; assumption). congruence.
  - exact N.
Qed.

Hypothesis HKA : forall k0 k', In k0 K -> In k' AK -> py_eq k0 k' = false.

Definition ikey (x : item) : atom := match ipath x with [PKey k] => k | _ => ANone end.

Lemma nodup_split l1 a l2 : nodup_atoms (l1 ++ a :: l2) = true ->
  nodup_atoms (l1 ++ l2) = true /\ forall b, In b (l1 ++ l2) -> py_eq a b = false.
Proof.
  induction l1 as [|x l1 IH]; cbn [app nodup_atoms]; intros N.
  - apply andb_true_iff in N as [Na N]. split; [exact N|]. intros b Hb. apply negb_true_iff in Na.
    destruct (py_eq a b) eqn:E; [|reflexivity].
    assert (mem_atom a l2 = true) by (apply mem_atom_In; exists b; split; assumption). congruence.
  - apply andb_true_iff in N as [Nx N]. destruct (IH N) as [N' H']. apply negb_true_iff in Nx. split.
    + apply andb_true_iff. split; [|exact N']. apply negb_true_iff.
      destruct (mem_atom x (l1 ++ l2)) eqn:M; [|reflexivity].
      apply mem_atom_In in M as (b & Hb & Eb).
      assert (mem_atom x (l1 ++ a :: l2) = true).
      { apply mem_atom_In. exists b. split; [|exact Eb]. apply in_app_or in Hb as [Hb|Hb]; apply in_or_app; [left|right; right]; exact Hb. }
      congruence.
    + intros b [<-|Hb]; [|apply H'; exact Hb].
      destruct (py_eq a x) eqn:E; [|reflexivity]. rewrite py_eq_sym in E.
      assert (mem_atom x (l1 ++ a :: l2) = true).
      { apply mem_atom_In. exists a. split; [apply in_or_app; right; left; reflexivity|exact E]. }
      congruence.
Qed.

(* the state of the dict while the removals of its own keys are carried out *)
Definition InvD (R : list item) (W : value) : Prop :=
  exists kvs, W = VDict kvs /\ nodup_atoms (map fst kvs) = true /\
    (forall k0, In k0 K -> mem_atom k0 (map fst kvs) = true) /\
    (forall k', In k' (map fst kvs) -> In k' K \/ In k' AK \/ exists v, In (IRem [PKey k'] v) R) /\
    (forall k', In k' AK -> assoc k' kvs = Some (f k')) /\
    nodup_atoms (map ikey R) = true /\
    (forall x, In x R -> exists k v cur, x = IRem [PKey k] v /\ assoc k kvs = Some cur /\ py_eqv v cur = true /\
                          (forall k0, In k0 K -> py_eq k0 k = false) /\ (forall k', In k' AK -> py_eq k k' = false)).

Lemma dict_pass9 s S c9 R0 q9 :
  Rel K s S -> InvD R0 (root s) -> child_items K c9 -> Permutation (R0 ++ c9) q9 ->
  Rel K (irun q9 s) (fun k => irun (restrictL k q9) (S k)) /\ InvD [] (root (irun q9 s)).
Proof.
  intros HR HI Hc HP.
  assert (OwnR : forall x, In x R0 -> own6 x = true /\ forall k0, In k0 K -> fkey x <> Some k0).
  { intros x Hx. destruct HI as (kvs & _ & _ & _ & _ & _ & _ & HRI). destruct (HRI x Hx) as (k & v & cur & -> & _ & _ & HK0 & _).
    split; [reflexivity|]. intros k0 Hk0 E0. unfold fkey in E0. cbn in E0. inversion E0; subst k0.
    pose proof (HK0 k Hk0) as Z. rewrite py_eq_refl in Z. discriminate. }
  destruct (rel_fold conv bidir K (list item) InvD nextP own6) with
    (l := q9) (s := s) (S := S) (q := R0) (qf := @nil item) as [A B].
  - (* child steps *)
    intros R W k v W' (kvs & -> & N & HKp & HK & HA & NR & HRI) Hk HS. cbn in HS. inversion HS; subst W'.
    pose proof (HKp k Hk) as Mk.
    exists (dict_set kvs k v). split; [reflexivity|]. rewrite dict_set_keys by exact Mk.
    split; [exact N|]. split; [exact HKp|]. split; [exact HK|]. split; [|split; [exact NR|]].
    + intros k' Hk'. rewrite assoc_dict_set_other by (apply HKA; assumption). apply HA. exact Hk'.
    + intros x Hx. destruct (HRI x Hx) as (kr & vr & cr & -> & Ar & Wr & HK0 & HA0).
      exists kr, vr, cr. split; [reflexivity|]. split; [|auto].
      rewrite assoc_dict_set_other by (apply HK0; exact Hk). exact Ar.
  - (* own steps *)
    intros R R' s0 S0 x HR0 (kvs & Hroot & N & HKp & HK & HA & NR & HRI) Ox (l1 & l2 & -> & ->).
    assert (Hxin : In x (l1 ++ x :: l2)) by (apply in_or_app; right; left; reflexivity).
    destruct (HRI x Hxin) as (k & v & cur & -> & Ak & Wv & HK0 & HA0).
    destruct (dict_del_spec kvs k cur N Ak) as (kvs' & Hd & Nd & Hkeys & Hassoc).
    destruct s0 as [W po e]. cbn [root] in Hroot. subst W.
    rewrite (dict_rem_step conv bidir kvs kvs' k v cur po e Ak Wv Hd). cbn [root].
    rewrite map_app in NR. cbn [map] in NR. apply nodup_split in NR as [NR' NRk]. rewrite <- map_app in NR', NRk.
    split.
    + eapply Rel_reroot_dict; [exact HR0|]. intros k0 Hk0. apply Hassoc. rewrite py_eq_sym. apply HK0. exact Hk0.
    + exists kvs'. split; [reflexivity|]. split; [exact Nd|]. split; [|split; [|split; [|split; [exact NR'|]]]].
      * intros k0 Hk0. pose proof (HKp k0 Hk0) as M. destruct (mem_atom k0 (map fst kvs')) eqn:M'; [reflexivity|].
        apply assoc_None in M'. rewrite Hassoc in M' by (rewrite py_eq_sym; apply HK0; exact Hk0).
        apply assoc_None in M'. congruence.
      * intros k' Hk'. destruct (Hkeys k' Hk') as [Hin Np]. destruct (HK k' Hin) as [H1|[H1|(v' & H1)]]; [auto|auto|].
        right. right. exists v'. apply in_app_or in H1 as [H1|[H1|H1]].
        -- apply in_or_app. left. exact H1.
        -- inversion H1; subst k'. rewrite py_eq_refl in Np. discriminate.
        -- apply in_or_app. right. exact H1.
      * intros k' Hk'. rewrite Hassoc by (apply HA0; exact Hk'). apply HA. exact Hk'.
      * intros y Hy. assert (Hy' : In y (l1 ++ IRem [PKey k] v :: l2)).
        { apply in_app_or in Hy as [Hy|Hy]; apply in_or_app; [left|right; right]; exact Hy. }
        destruct (HRI y Hy') as (ky & vy & cy & -> & Ay & Wy & HKy & HAy).
        exists ky, vy, cy. split; [reflexivity|]. split; [|auto].
        rewrite Hassoc; [exact Ay|]. apply (NRk ky). change ky with (ikey (IRem [PKey ky] vy)). apply in_map. exact Hy.
  - (* the other items are child items *)
    intros x Hx Ox. apply (Permutation_in _ (Permutation_sym HP)) in Hx. apply in_app_or in Hx as [Hx|Hx].
    + destruct (OwnR x Hx) as [O _]. congruence.
    + apply Hc. exact Hx.
  - exact HR.
  - exact HI.
  - apply own_run_perm. eapply Permutation_trans; [apply Permutation_sym, Permutation_filter'; exact HP|].
    rewrite filter_app. rewrite (filter_all own6 R0) by (intros x Hx; apply OwnR; exact Hx).
    rewrite (filter_nil own6 c9) by (intros x Hx; eapply child_not_own6; eassumption).
    rewrite app_nil_r. apply Permutation_refl.
  - split; [|exact B]. eapply Rel_ext; [|exact A]. intros k Hk. unfold runS, restrictL. f_equal. f_equal.
    apply filter_ext_in'. intros x Hx. unfold cls0, cls. destruct (own6 x) eqn:Ox; [|reflexivity].
    cbn [negb andb]. apply (Permutation_in _ (Permutation_sym HP)) in Hx. apply in_app_or in Hx as [Hx|Hx].
    + destruct (OwnR x Hx) as [_ Hf]. specialize (Hf k Hk). destruct (fkey x) as [k'|]; [|reflexivity].
      destruct (atom_eqb k' k) eqn:E; [|reflexivity]. apply atom_eqb_eq in E. subst k'. congruence.
    + rewrite (child_not_own6 _ _ _ Hc Hx) in Ox. discriminate.
Qed.

End DictPasses.

Lemma same_off_dict K kvs W : same_off K (VDict kvs) W ->
  exists b, W = VDict b /\ map fst kvs = map fst b /\
    forall k', (forall k, In k K -> py_eq k k' = false) -> assoc k' kvs = assoc k' b.
Proof. destruct W; cbn; try contradiction. intros [H1 H2]. eexists; split; [reflexivity|]. split; assumption. Qed.

Section DictGood.
Variable hatom : atom -> pystr.
Variable udiff : pystr -> pystr -> pystr.
Variable ops : path -> list value -> list value -> list opcode.
Variable c : cfg.
Variable conv : ty -> value -> option value.
Variables bidir always : bool.
Variables T1 T2 : value.
Variable q : path.
Variables kvs1 kvs2 : list (atom * value).
Notation D := (D hatom udiff ops c conv bidir always T1 T2).
Notation DC := (DC hatom udiff ops c conv bidir always T1 T2 q kvs2).
Notation Good := (Good hatom udiff ops c conv bidir always).
Notation GoodD := (GoodD conv bidir always).
Notation irun := (irun conv bidir).
Notation run_passes := (run_passes conv bidir).
Notation finish := (finish conv bidir).
Notation td := (to_delta conv bidir always ops T1 T2).

Hypothesis Hkeep1 : forall k, In k (map fst kvs1) -> keep_key c k = true.
Hypothesis Hkeep2 : forall k, In k (map fst kvs2) -> keep_key c k = true.
Hypothesis Hident : forall k k', In k (map fst kvs1) -> In k' (map fst kvs2) -> py_eq k k' = true -> k = k'.
Hypothesis N1 : nodup_atoms (map fst kvs1) = true.
Hypothesis N2 : nodup_atoms (map fst kvs2) = true.

Notation K := (ckeys kvs2 kvs1).
Notation AK := (akeys kvs1 kvs2).
Notation RK := (rkeys kvs1 kvs2).
Definition fv (k : atom) : value := ov (assoc k kvs2).

Lemma DC_moved l :
  (forall kv, In kv l -> In (fst kv) (map fst kvs1)) -> NoDup (map fst l) ->
  (forall k v1 v2, In (k, v1) l -> assoc k kvs2 = Some v2 -> d_moved (D v1 v2 (snoc q (PKey k))) = []) ->
  d_moved (DC l) = [].
Proof.
  induction l as [|[k v1] l IH]; intros Sub ND H; [reflexivity|].
  assert (Sub' : forall kv, In kv l -> In (fst kv) (map fst kvs1)) by (intros kv H0; apply Sub; right; exact H0).
  cbn [map] in ND. apply NoDup_cons_iff in ND as [Nk ND]. cbn [fst] in Nk.
  pose proof (Sub (k, v1) (or_introl eq_refl)) as Hk. cbn [fst] in Hk.
  assert (IHl : d_moved (DC l) = []).
  { apply IH; try assumption. intros k0 v0 v20 H0 A0. apply (H k0 v0 v20); [right; exact H0|exact A0]. }
  destruct (assoc k kvs2) as [v2|] eqn:A.
  - rewrite (DC_cons hatom udiff ops c conv bidir always T1 T2 q kvs1 kvs2 Hkeep1 Hkeep2 Hident k v1 v2 l Hk Sub' Nk A).
    cbn [dapp d_moved]. rewrite IHl, (H k v1 v2 (or_introl eq_refl) A). reflexivity.
  - rewrite (DC_skip hatom udiff ops c conv bidir always T1 T2 q kvs1 kvs2 Hkeep1 Hkeep2 Hident k v1 l Hk A). exact IHl.
Qed.

Lemma K_spec k : In k K <-> In k (map fst kvs1) /\ exists v2, assoc k kvs2 = Some v2.
Proof.
  split; [apply ckeys_spec|]. intros [H1 (v2 & A)]. unfold ckeys.
  apply in_map_iff in H1 as ([k0 v1] & E0 & Hin). cbn in E0. subst k0.
  apply in_map_iff. exists (k, v1). split; [reflexivity|]. apply filter_In. split; [exact Hin|].
  unfold has2. cbn [fst]. rewrite A. reflexivity.
Qed.

Lemma K_in2 k : In k K -> In k (map fst kvs2).
Proof.
  intros H. apply K_spec in H as [H1 (v2 & A)]. apply assoc_In in A as (k' & Hin & E).
  assert (Hk' : In k' (map fst kvs2)) by (apply in_map_iff; exists (k', v2); split; [reflexivity|exact Hin]).
  rewrite py_eq_sym in E. rewrite (Hident k k' H1 Hk' E). exact Hk'.
Qed.

Lemma HKA : forall k0 k', In k0 K -> In k' AK -> py_eq k0 k' = false.
Proof.
  intros k0 k' H0 H'. apply K_spec in H0 as [H0 _]. apply akeys_spec in H' as [_ M].
  destruct (py_eq k0 k') eqn:E; [|reflexivity]. rewrite py_eq_sym in E.
  assert (mem_atom k' (map fst kvs1) = true) by (apply mem_atom_In; exists k0; split; assumption). congruence.
Qed.

Lemma keys2_split k : In k (map fst kvs2) -> In k K \/ In k AK.
Proof.
  intros H. destruct (mem_atom k (map fst kvs1)) eqn:M.
  - left. apply mem_atom_In in M as (k1 & H1 & E). rewrite py_eq_sym in E. pose proof (Hident k1 k H1 H E) as <-.
    apply K_spec. split; [exact H1|]. destruct (assoc_In_key k1 kvs2 N2 H) as (v2 & A & _). exists v2. exact A.
  - right. unfold akeys. apply filter_In. split; [exact H|]. rewrite M. reflexivity.
Qed.

Lemma keys1_split k : In k (map fst kvs1) -> In k K \/ In k RK.
Proof.
  intros H. destruct (assoc k kvs2) as [v2|] eqn:A.
  - left. apply K_spec. split; [exact H|exists v2; exact A].
  - right. unfold rkeys. apply filter_In. split; [exact H|]. apply assoc_None in A. rewrite A. reflexivity.
Qed.


Definition S0d : atom -> st := fun k => mkSt (ov (assoc k kvs1)) [] 0.

Lemma Rel_init_dict : Rel K (mkSt (VDict kvs1) [] 0) S0d.
Proof.
  unfold Rel. cbn [root post errs]. split; [|split; [|split; [|split]]].
  - cbn [sepK]. split.
    + intros k Hk. apply K_spec in Hk as [Hk _]. apply mem_atom_In. exists k. split; [exact Hk|apply py_eq_refl].
    + intros k k' Hk Hk' N. apply K_spec in Hk as [Hk _]. apply K_spec in Hk' as [Hk' _]. apply (nodup_py (map fst kvs1)); assumption.
  - intros k Hk. apply K_spec in Hk as [Hk _]. destruct (assoc_In_key k kvs1 N1 Hk) as (v & A & _).
    cbn [get_item]. unfold S0d. rewrite A. reflexivity.
  - intros k Hk. reflexivity.
  - intros p [].
  - intros _. reflexivity.
Qed.

Lemma restrictL_own_adds k l : (forall k', In k' l -> k' <> k) ->
  restrictL k (map (fun k' => IAdd false [PKey k'] (Some (ov (assoc k' kvs2)))) l) = [].
Proof.
  intros H. unfold restrictL. rewrite filter_nil; [reflexivity|]. intros x Hx.
  apply in_map_iff in Hx as (k' & <- & Hk'). eapply cls0_false; [reflexivity|]. apply H. exact Hk'.
Qed.
Lemma restrictL_own_rems k l : (forall k', In k' l -> k' <> k) ->
  restrictL k (map (fun k' => IRem [PKey k'] (ov (assoc k' kvs1))) l) = [].
Proof.
  intros H. unfold restrictL. rewrite filter_nil; [reflexivity|]. intros x Hx.
  apply in_map_iff in Hx as (k' & <- & Hk'). eapply cls0_false; [reflexivity|]. apply H. exact Hk'.
Qed.

Lemma AK_nodup : nodup_atoms AK = true.
Proof.
  unfold akeys. generalize N2. generalize (map fst kvs2). intros l. induction l as [|x l IH]; cbn; intros N; [reflexivity|].
  apply andb_true_iff in N as [Nx N]. destruct (negb (mem_atom x (map fst kvs1))); [|apply IH; exact N].
  cbn. apply andb_true_iff. split; [|apply IH; exact N]. apply negb_true_iff. apply negb_true_iff in Nx.
  destruct (mem_atom x (filter _ l)) eqn:M; [|reflexivity]. apply mem_atom_In in M as (b & Hb & E).
  apply filter_In in Hb as [Hb _]. assert (mem_atom x l = true) by (apply mem_atom_In; exists b; split; assumption). congruence.
Qed.
Lemma RK_nodup : nodup_atoms RK = true.
Proof.
  unfold rkeys. generalize N1. generalize (map fst kvs1). intros l. induction l as [|x l IH]; cbn; intros N; [reflexivity|].
  apply andb_true_iff in N as [Nx N]. destruct (negb (mem_atom x (map fst kvs2))); [|apply IH; exact N].
  cbn. apply andb_true_iff. split; [|apply IH; exact N]. apply negb_true_iff. apply negb_true_iff in Nx.
  destruct (mem_atom x (filter _ l)) eqn:M; [|reflexivity]. apply mem_atom_In in M as (b & Hb & E).
  apply filter_In in Hb as [Hb _]. assert (mem_atom x l = true) by (apply mem_atom_In; exists b; split; assumption). congruence.
Qed.


Definition S0b (kvsb : list (atom * value)) : atom -> st := fun k => mkSt (ov (assoc k kvsb)) [] 0.

Lemma Rel_init_dict_b kvsb : nodup_atoms (map fst kvsb) = true -> (forall k, In k K -> In k (map fst kvsb)) ->
  Rel K (mkSt (VDict kvsb) [] 0) (S0b kvsb).
Proof.
  intros Nb HK. unfold Rel. cbn [root post errs]. split; [|split; [|split; [|split]]].
  - cbn [sepK]. split.
    + intros k Hk. apply mem_atom_In. exists k. split; [apply HK; exact Hk|apply py_eq_refl].
    + intros k k' Hk Hk' N. apply K_spec in Hk as [Hk _]. apply K_spec in Hk' as [Hk' _]. apply (nodup_py (map fst kvs1)); assumption.
  - intros k Hk. destruct (assoc_In_key k kvsb Nb (HK k Hk)) as (v & A & _).
    cbn [get_item]. unfold S0b. rewrite A. reflexivity.
  - intros k Hk. reflexivity.
  - intros p [].
  - intros _. reflexivity.
Qed.

Lemma mem_atom_perm k l l' : Permutation l l' -> mem_atom k l = mem_atom k l'.
Proof.
  intros P. destruct (mem_atom k l) eqn:M1, (mem_atom k l') eqn:M2; try reflexivity.
  - apply mem_atom_In in M1 as (b & Hb & E). assert (mem_atom k l' = true) by (apply mem_atom_In; exists b; split; [eapply Permutation_in; eassumption|exact E]). congruence.
  - apply mem_atom_In in M2 as (b & Hb & E). assert (mem_atom k l = true) by (apply mem_atom_In; exists b; split; [eapply Permutation_in; [apply Permutation_sym; exact P|exact Hb]|exact E]). congruence.
Qed.

Theorem dict_node_good :
  dict_shortcut nos c (keys_of c kvs1) (keys_of c kvs2) q = false ->
  resolve T1 q = Some (VDict kvs1) -> resolve T2 q = Some (VDict kvs2) ->
  forallb (fun kv => wf (snd kv)) kvs1 = true -> forallb (fun kv => wf (snd kv)) kvs2 = true ->
  (forall k v1 v2, In (k, v1) kvs1 -> assoc k kvs2 = Some v2 -> Good v1 v2 (snoc q (PKey k))) ->
  GoodD (D (VDict kvs1) (VDict kvs2) q) (length q) (VDict kvs1) (VDict kvs2).
Proof.
  intros Sh R1 R2 W1 W2 HG.
  assert (Sub : forall kv, In kv kvs1 -> In (fst kv) (map fst kvs1)) by (intros kv H; apply in_map; exact H).
  assert (ND1 : NoDup (map fst kvs1)) by (apply nodup_NoDup; exact N1).
  assert (HGD : forall k v1 v2, In (k, v1) kvs1 -> assoc k kvs2 = Some v2 ->
            DeltaGood.GoodD conv bidir always (D v1 v2 (snoc q (PKey k))) (S (length q)) v1 v2).
  { intros k v1 v2 Hin A. rewrite <- (snoc_length q (PKey k)). apply (HG k v1 v2 Hin A).
    - unfold snoc. rewrite resolve_snoc, R1. cbn [key_atom get_item]. eapply assoc_nodup; [exact N1|exact Hin|apply py_eq_refl].
    - unfold snoc. rewrite resolve_snoc, R2. cbn [key_atom get_item]. exact A. }
  rewrite (D_dict hatom udiff ops c conv bidir always T1 T2 q kvs1 kvs2 Hkeep1 Hkeep2 Hident Sh).
  split.
  { cbn [dapp d_moved]. rewrite (DC_moved kvs1 Sub ND1) by (intros k v1 v2 Hin A; apply (HGD k v1 v2 Hin A)).
    unfold to_delta. cbn [d_moved]. rewrite !flat_map_map_nil by reflexivity. reflexivity. }
  intros vb Wvb Vvb OB. destruct vb as [| | |kvsb| |]; try (cbn in Vvb; discriminate Vvb).
  cbn [wf] in Wvb. apply andb_true_iff in Wvb as [Nb Wb].
  pose proof (veqb_dict_keys kvsb kvs1 Vvb ND1) as PKb.
  assert (VB : forall k vv, In (k, vv) kvsb -> exists v1, In (k, v1) kvs1 /\ veqb vv v1 = true).
  { rewrite veqb_dict in Vvb. apply andb_true_iff in Vvb as [_ V3]. intros k vv Hin.
    destruct (dict_veq_elim kvs1 kvsb V3 k vv Hin) as (v1 & L & E). exists v1. split; [apply lookup_In; exact L|exact E]. }
  assert (KB : forall k, In k (map fst kvs1) <-> In k (map fst kvsb)).
  { intros k. split; intros Hk; [eapply Permutation_in; [exact PKb|exact Hk]|eapply Permutation_in; [apply Permutation_sym; exact PKb|exact Hk]]. }
  assert (MB : forall k, mem_atom k (map fst kvsb) = mem_atom k (map fst kvs1)) by (intros k; symmetry; apply mem_atom_perm; exact PKb).
  assert (AB : forall k v1, In (k, v1) kvs1 -> exists vv, assoc k kvsb = Some vv /\ In (k, vv) kvsb /\ wf vv = true /\ veqb vv v1 = true).
  { intros k v1 Hin. assert (Hk : In k (map fst kvsb)) by (apply KB; apply in_map_iff; exists (k, v1); split; [reflexivity|exact Hin]).
    destruct (assoc_In_key k kvsb Nb Hk) as (vv & A & Hvv). exists vv. split; [exact A|]. split; [exact Hvv|].
    split; [eapply forallb_forall in Wb; [|exact Hvv]; exact Wb|].
    destruct (VB k vv Hvv) as (v1' & Hin' & E). assert (v1' = v1); [|subst; exact E].
    pose proof (assoc_nodup kvs1 k v1' k N1 Hin' (py_eq_refl k)). pose proof (assoc_nodup kvs1 k v1 k N1 Hin (py_eq_refl k)). congruence. }
  intros P HA. rewrite !sbase_dapp in HA.
  rewrite sbase_adds, sbase_rems in HA.
  destruct (DC_struct hatom udiff ops c conv bidir always T1 T2 q kvs1 kvs2 Hkeep1 Hkeep2 Hident kvs1 Sub ND1) as (Sa & Sb & Sc).
  pose proof (Sb 0) as C1. pose proof (Sb 1) as C2. pose proof (Sb 2) as C3. pose proof (Sb 3) as C4. pose proof (Sb 4) as C5.
  pose proof (Sb 5) as C6. pose proof (Sb 6) as C7. pose proof (Sb 7) as C8. pose proof (Sb 8) as C9.
  remember (sbase (length q) (DC kvs1)) as B eqn:EB.
  assert (LB : length B = 9) by (subst B; reflexivity).
  destruct B as [|c1 [|c2 [|c3 [|c4 [|c5 [|c6 [|c7 [|c8 [|c9 [|]]]]]]]]]]; try discriminate LB.
  cbn [nth] in C1, C2, C3, C4, C5, C6, C7, C8, C9.
  cbn [zipapp app] in HA.
  destruct P as [|q1 [|q2 [|q3 [|q4 [|q5 [|q6 [|q7 [|q8 [|q9 [|]]]]]]]]]]; try contradiction.
  pose proof HA as HA0.
  cbn in HA. destruct HA as (-> & -> & -> & -> & -> & [P6 D6] & [P7 D7] & -> & [P9 D9]).
  (* passes 1-7 *)
  assert (R0 : Rel K (mkSt (VDict kvsb) [] 0) (S0b kvsb)).
  { apply Rel_init_dict_b; [exact Nb|]. intros k Hk. apply KB. apply K_spec in Hk as [Hk _]. exact Hk. }
  destruct (rel_passes_children conv bidir K [c1; c2; c3; c4; c5; q6; q7] _ _
     (Forall_cons _ C1 (Forall_cons _ C2 (Forall_cons _ C3 (Forall_cons _ C4 (Forall_cons _ C5
       (Forall_cons _ (child_items_perm _ _ _ P6 C6) (Forall_cons _ (child_items_perm _ _ _ P7 C7) (Forall_nil _)))))))) R0)
    as [R7 O7].
  cbn [root] in O7. apply same_off_dict in O7 as (kvs7 & Hk7 & Keys7 & Off7).
  set (A8 := map (fun k : atom => IAdd false [PKey k] (Some (ov (assoc k kvs2)))) AK) in *.
  set (R9 := map (fun k : atom => IRem [PKey k] (ov (assoc k kvs1))) RK) in *.
  assert (Erun : run_passes [c1; c2; c3; c4; c5; q6; q7; A8 ++ c8; q9] (mkSt (VDict kvsb) [] 0)
                 = irun q9 (irun c8 (irun A8 (run_passes [c1; c2; c3; c4; c5; q6; q7] (mkSt (VDict kvsb) [] 0))))).
  { unfold DeltaRun.run_passes. cbn [fold_left]. rewrite irun_app. reflexivity. }
  rewrite Erun. clear Erun.
  remember (run_passes [c1; c2; c3; c4; c5; q6; q7] (mkSt (VDict kvsb) [] 0)) as s7 eqn:Es7.
  destruct s7 as [W7 po7 e7]. cbn [root] in Hk7. subst W7.
  (* pass 8: the node's own additions, then the children's *)
  assert (M7 : forall k, In k AK -> mem_atom k (map fst kvs7) = false).
  { intros k Hk. rewrite <- Keys7, MB. apply akeys_spec in Hk as [_ M]. exact M. }
  set (kvs7' := kvs7 ++ map (fun k => (k, ov (assoc k kvs2))) AK).
  assert (EA8 : irun A8 (mkSt (VDict kvs7) po7 e7) = mkSt (VDict kvs7') po7 e7).
  { unfold A8. rewrite (dict_own_adds conv bidir (fun k => ov (assoc k kvs2)) AK kvs7 po7 e7).
    rewrite (fold_dict_set_new (fun k => ov (assoc k kvs2)) AK kvs7 M7 AK_nodup). reflexivity. }
  rewrite EA8.
  assert (R7' : Rel K (mkSt (VDict kvs7') po7 e7) (fun k => run_passes (restrictP k [c1; c2; c3; c4; c5; q6; q7]) (S0b kvsb k))).
  { eapply Rel_reroot_dict; [exact R7|]. intros k Hk. destruct R7 as (_ & G7 & _). pose proof (G7 k Hk) as G. cbn [root get_item] in G.
    unfold kvs7'. rewrite G. apply assoc_app_l. exact G. }
  destruct (rel_fold_children conv bidir K c8 _ _ C8 R7') as [R8 O8].
  cbn [root] in O8. apply same_off_dict in O8 as (kvs8 & Hk8 & Keys8 & Off8).
  (* pass 9 *)
  assert (nonK_R : forall k, In k RK -> forall k0, In k0 K -> py_eq k0 k = false).
  { intros k Hk k0 Hk0. apply rkeys_spec in Hk as [Hk M]. apply K_spec in Hk0 as [Hk0 (v2 & A0)].
    apply (nodup_py (map fst kvs1)); try assumption. intros E0. subst k0. apply assoc_None in M. congruence. }
  assert (nonK_A : forall k, In k AK -> forall k0, In k0 K -> py_eq k0 k = false) by (intros k Hk k0 Hk0; apply HKA; assumption).
  assert (I8 : InvD K AK (fun k => ov (assoc k kvs2)) R9 (root (irun c8 (mkSt (VDict kvs7') po7 e7)))).
  { rewrite Hk8. exists kvs8. split; [reflexivity|].
    assert (Ekeys : map fst kvs8 = map fst kvsb ++ AK).
    { rewrite <- Keys8. unfold kvs7'. rewrite map_app, map_map. cbn [fst]. rewrite map_id, <- Keys7. reflexivity. }
    split; [|split; [|split; [|split; [|split]]]].
    - rewrite Ekeys. pose proof AK_nodup as NA.
      assert (X : forall k, In k AK -> mem_atom k (map fst kvsb) = false) by (intros k Hk; rewrite MB; apply akeys_spec in Hk as [_ M]; exact M).
      clear -Nb X NA. revert X NA. generalize AK. generalize Nb. generalize (map fst kvsb). intros l. induction l as [|x l IH]; intros Nl ak X NA; [exact NA|].
      cbn in Nl. apply andb_true_iff in Nl as [Nx Nl]. cbn. apply andb_true_iff. split.
      + apply negb_true_iff. apply negb_true_iff in Nx. unfold mem_atom in *. rewrite existsb_app, Nx. cbn [orb].
        destruct (existsb (py_eq x) ak) eqn:Ex; [|reflexivity]. apply existsb_exists in Ex as (b & Hb & E0).
        specialize (X b Hb). cbn in X. rewrite py_eq_sym in E0. rewrite E0 in X. discriminate.
      + apply IH; try assumption. intros k Hk. specialize (X k Hk). cbn in X. apply orb_false_iff in X as [_ X]. exact X.
    - intros k0 Hk0. destruct R8 as (S8 & _). rewrite Hk8 in S8. cbn [sepK] in S8. apply S8. exact Hk0.
    - intros k' Hk'. rewrite Ekeys in Hk'. apply in_app_or in Hk' as [Hk'|Hk']; [|right; left; exact Hk'].
      apply KB in Hk'. destruct (keys1_split k' Hk') as [H|H]; [left; exact H|]. right. right. exists (ov (assoc k' kvs1)).
      unfold R9. apply in_map_iff. exists k'. split; [reflexivity|exact H].
    - intros k' Hk'. rewrite <- Off8 by (intros k0 Hk0; apply nonK_A; assumption).
      unfold kvs7'. rewrite assoc_app_r by (apply assoc_None; apply M7; exact Hk').
      apply (assoc_nodup (map (fun k => (k, ov (assoc k kvs2))) AK) k' _ k').
      + rewrite map_map. cbn [fst]. rewrite map_id. exact AK_nodup.
      + apply in_map_iff. exists k'. split; [reflexivity|exact Hk'].
      + apply py_eq_refl.
    - unfold R9. rewrite map_map. cbn. rewrite map_id. exact RK_nodup.
    - intros x Hx. unfold R9 in Hx. apply in_map_iff in Hx as (k & <- & Hk).
      pose proof (rkeys_spec _ _ k Hk) as [Hk1 Mk2].
      destruct (assoc_In_key k kvs1 N1 Hk1) as (v1 & A1 & Hin1).
      destruct (AB k v1 Hin1) as (vv & Ab & _ & _ & Vv).
      exists k, v1, vv. rewrite A1. cbn [ov]. split; [reflexivity|]. split; [|split; [|split]].
      + rewrite <- Off8 by (apply nonK_R; exact Hk). unfold kvs7'.
        assert (A7 : assoc k kvs7 = Some vv) by (rewrite <- Off7 by (apply nonK_R; exact Hk); exact Ab).
        apply assoc_app_l. exact A7.
      + eapply forallb_forall in W1; [|exact Hin1]. destruct (veqb_facts vv v1 Vv W1) as (_ & _ & Z). exact Z.
      + apply nonK_R. exact Hk.
      + intros k' Hk'. apply akeys_spec in Hk' as [_ M]. destruct (py_eq k k') eqn:E0; [|reflexivity].
        rewrite py_eq_sym in E0. assert (mem_atom k' (map fst kvs1) = true) by (apply mem_atom_In; exists k; split; assumption). congruence. }
  destruct (dict_pass9 conv bidir K AK (fun k => ov (assoc k kvs2)) HKA _ _ c9 R9 q9 R8 I8 C9 P9) as [R9' I9].
  destruct (rel_finish conv bidir K _ _ R9') as [R10 O10].
  destruct I9 as (kvs9 & Hk9 & Nd9 & Kp9 & Kc9 & Ka9 & _ & _).
  rewrite Hk9 in O10. apply same_off_dict in O10 as (kvs10 & Hk10 & Keys10 & Off10).
  (* the children *)
  set (P := [c1; c2; c3; c4; c5; q6; q7; A8 ++ c8; q9]) in *.
  assert (CH : forall k v1 v2, In (k, v1) kvs1 -> assoc k kvs2 = Some v2 ->
     errs (finish (irun (restrictL k q9) (irun (restrictL k c8) (run_passes (restrictP k [c1; c2; c3; c4; c5; q6; q7]) (S0b kvsb k))))) = 0 /\
     veqb (root (finish (irun (restrictL k q9) (irun (restrictL k c8) (run_passes (restrictP k [c1; c2; c3; c4; c5; q6; q7]) (S0b kvsb k)))))) v2 = true).
  { intros k v1 v2 Hin A.
    assert (HkK : In k K) by (apply K_spec; split; [apply in_map_iff; exists (k, v1); split; [reflexivity|exact Hin]|exists v2; exact A]).
    assert (EA : restrictL k A8 = []).
    { apply restrictL_own_adds. intros k' Hk' E0. subst k'. pose proof (HKA k k HkK Hk') as Z. rewrite py_eq_refl in Z. discriminate. }
    assert (ER : restrictL k R9 = []).
    { apply restrictL_own_rems. intros k' Hk' E0. subst k'. pose proof (nonK_R k Hk' k HkK) as Z. rewrite py_eq_refl in Z. discriminate. }
    destruct (AB k v1 Hin) as (vv & Ab & Hvv & Wvv & Vvv).
    assert (ES : S0b kvsb k = mkSt vv [] 0).
    { unfold S0b. rewrite Ab. reflexivity. }
    assert (EP : finish (irun (restrictL k q9) (irun (restrictL k c8) (run_passes (restrictP k [c1; c2; c3; c4; c5; q6; q7]) (S0b kvsb k))))
                 = finish (run_passes (restrictP k P) (mkSt vv [] 0))).
    { rewrite ES. unfold P, restrictP, DeltaRun.run_passes. cbn [map fold_left]. rewrite restrictL_app, EA. reflexivity. }
    rewrite EP. destruct (HGD k v1 v2 Hin A) as [_ HRT]. apply (HRT vv Wvv Vvv (okb_dict_in conv bidir always kvsb kvs1 kvs2 OB k v1 v2 vv Hin A Ab)).
    rewrite <- (Sa k v1 v2 Hin A).
    pose proof (Arr_restrict k _ _ HA0) as AR. unfold restrictP, P in AR. cbn [map] in AR.
    rewrite !restrictL_app, EA in AR. fold R9 in AR. rewrite ER in AR. cbn [app] in AR.
    unfold P, restrictP. cbn [map]. rewrite restrictL_app, EA. cbn [app]. exact AR. }
  destruct R10 as (HS10 & HG10 & _ & _ & HE10).
  split.
  - apply HE10. intros k Hk. pose proof Hk as Hk0. apply K_spec in Hk as [Hk1 (v2 & A)].
    destruct (assoc_In_key k kvs1 N1 Hk1) as (v1 & _ & Hin). apply (CH k v1 v2 Hin A).
  - rewrite Hk10. apply veqb_dict_ext.
    + rewrite <- Keys10. exact Nd9.
    + exact N2.
    + intros k Hk. rewrite <- Keys10 in Hk. destruct (Kc9 k Hk) as [H|[H|(v & [])]]; [apply K_in2; exact H|].
      apply akeys_spec in H as [H _]. exact H.
    + intros k Hk. rewrite <- Keys10.
      assert (Hmem : mem_atom k (map fst kvs9) = true).
      { destruct (keys2_split k Hk) as [H|H]; [apply Kp9; exact H|].
        pose proof (Ka9 k H) as A. destruct (mem_atom k (map fst kvs9)) eqn:M; [reflexivity|]. apply assoc_None in M. congruence. }
      apply mem_atom_In in Hmem as (k' & Hk' & E0).
      assert (k = k'); [|subst k'; exact Hk'].
      destruct (Kc9 k' Hk') as [H'|[H'|(v & [])]].
      * apply K_spec in H' as [H1' _]. symmetry. apply Hident; [exact H1'|exact Hk|rewrite py_eq_sym; exact E0].
      * apply akeys_spec in H' as [H2' _].
        destruct (atom_eqb k k') eqn:Eb; [apply atom_eqb_eq in Eb; exact Eb|].
        exfalso. assert (Hne : k <> k') by (intros ->; rewrite atom_eqb_refl in Eb; discriminate).
        pose proof (nodup_py (map fst kvs2) k k' N2 Hk H2' Hne) as Z. congruence.
    + intros k v v2 Hin Hin2.
      assert (A2 : assoc k kvs2 = Some v2) by (eapply assoc_nodup; [exact N2|exact Hin2|apply py_eq_refl]).
      assert (Hk10' : In k (map fst kvs10)) by (apply in_map_iff; exists (k, v); split; [reflexivity|exact Hin]).
      assert (A10 : assoc k kvs10 = Some v).
      { eapply assoc_nodup; [rewrite <- Keys10; exact Nd9|exact Hin|apply py_eq_refl]. }
      rewrite <- Keys10 in Hk10'. destruct (Kc9 k Hk10') as [H|[H|(v' & [])]].
      * pose proof (HG10 k H) as G. rewrite Hk10 in G. cbn [get_item] in G. rewrite A10 in G. inversion G as [Ev].
        pose proof H as H0. apply K_spec in H0 as [Hk1 _]. destruct (assoc_In_key k kvs1 N1 Hk1) as (v1 & _ & Hin1).
        apply (CH k v1 v2 Hin1 A2).
      * rewrite <- Off10 in A10 by (intros k0 Hk0; apply nonK_A; assumption).
        rewrite (Ka9 k H) in A10. rewrite A2 in A10. cbn in A10. inversion A10; subst v.
        apply veqb_refl. eapply forallb_forall in W2; [|exact Hin2]. exact W2.
Qed.

End DictGood.

(** C08: the entries of an ordered diff satisfy the guard [sym_ok] of the
    reversal theorem (DeltaReverse.reverse_to_delta_mirror), except for the
    one clause that is false of the code: a moved item is only ==-equal, not
    identical, at its two ends (1 vs True).

    Path shape of every reported level, by structural induction on t1, for
    both alignment modes, every opcode oracle and every skip oracle: the two
    paths of a level are equal, or - for value / type changes and moved items
    inside an all-atom list - differ in the last index only. *)
From Coq Require Import List ZArith NArith Bool Arith Lia.
Import ListNotations.
From DD Require Import Base.PyStr Base.Value Base.ValueFacts Path.PathModel Path.PathLex
  Diff.Tree Diff.DiffModel Diff.DiffFacts Diff.DiffFaithful Delta.DeltaModel Delta.DeltaReverse.

Definition leafkind (k : rkind) : bool :=
  match k with KValue | KType | KIterMoved => true | _ => false end.
Definition pp (p1 p2 : path) : Prop :=
  p1 = p2 \/ exists p i j, p1 = p ++ [PIdx i] /\ p2 = p ++ [PIdx j].
Definition pshape (e : entry) : Prop :=
  ep1 e = ep2 e \/ (leafkind (ekind e) = true /\ pp (ep1 e) (ep2 e)).

Section Shape.
Variable hatom : atom -> pystr.
Variable udiff : pystr -> pystr -> pystr.
Variable ops : path -> list value -> list value -> list opcode.
Variable skip excl : path -> bool.
Variable c : cfg.
Notation diff := (diff hatom udiff ops skip excl c).
Notation S := pshape.

Lemma S_report_eq k p a b d : Forall S (report skip k p p a b d).
Proof. unfold report. destruct (skip p); constructor; [|constructor]. left. reflexivity. Qed.

Lemma S_report_leaf k p1 p2 a b d : leafkind k = true -> pp p1 p2 -> Forall S (report skip k p1 p2 a b d).
Proof. intros K H. unfold report. destruct (skip p1); constructor; [|constructor]. right. split; assumption. Qed.

Lemma S_diff_atom a b p1 p2 : pp p1 p2 -> Forall S (diff_atom udiff skip a b p1 p2).
Proof.
  intros H. unfold diff_atom. destruct (skip p1); [constructor|].
  destruct (negb _); [apply S_report_leaf; [reflexivity|exact H]|].
  destruct a, b; try (destruct (py_eq _ _); [constructor|apply S_report_leaf; [reflexivity|exact H]]).
  - destruct (diff_str udiff false s s0) as [ch d]. destruct ch; [apply S_report_leaf; [reflexivity|exact H]|constructor].
  - destruct (diff_str udiff true s s0) as [ch d]. destruct ch; [apply S_report_leaf; [reflexivity|exact H]|constructor].
Qed.

Lemma S_removed_from xs i p : Forall S (removed_from skip xs i p p).
Proof.
  revert i; induction xs as [|x xs IH]; intros i; cbn; [constructor|].
  apply Forall_app; split; [apply S_report_eq|apply IH].
Qed.

Lemma S_added_from ys j p : Forall S (added_from skip ys j p p).
Proof.
  revert j; induction ys as [|y ys IH]; intros j; cbn; [constructor|].
  apply Forall_app; split; [apply S_report_eq|apply IH].
Qed.

Lemma pp_snoc p i j : pp (snoc p (PIdx i)) (snoc p (PIdx j)).
Proof. right. exists p, i, j. split; reflexivity. Qed.

Lemma S_pairs_leaf xs ys i j p : Forall S (pairs_leaf udiff skip xs ys i j p p).
Proof.
  revert ys i j; induction xs as [|x xs IH]; intros ys i j.
  - cbn. destruct ys; apply S_added_from.
  - destruct ys as [|y ys]; [apply S_removed_from|].
    cbn [pairs_leaf]. apply Forall_app; split; [|apply IH].
    destruct (negb (i =? j) && py_eq_leaf x y).
    + apply S_report_leaf; [reflexivity|apply pp_snoc].
    + unfold diff_leaf. destruct x, y; try constructor. apply S_diff_atom. apply pp_snoc.
Qed.

Lemma S_by_opcodes os xs ys p : Forall S (by_opcodes udiff skip os xs ys p p).
Proof.
  unfold by_opcodes. induction os as [|o os IH]; cbn; [constructor|].
  apply Forall_app; split; [|exact IH].
  destruct (otag o); [constructor|apply S_pairs_leaf|apply S_removed_from|apply S_added_from].
Qed.

Lemma S_default_leaf_list xs ys p : Forall S (fst (default_leaf_list udiff ops skip xs ys p p)).
Proof.
  unfold default_leaf_list. destruct (1 <? _); [|apply S_by_opcodes].
  destruct (_ <=? _); [apply S_pairs_leaf|apply S_by_opcodes].
Qed.

Lemma S_diff_set xs ys p : Forall S (diff_set hatom skip xs ys p p).
Proof.
  unfold diff_set. apply Forall_app; split; apply Forall_forall; intros e He;
    apply in_flat_map in He as (y & _ & He); (destruct (existsb _ _); [destruct He|]);
    unfold report_set in He; (destruct (skip p); [destruct He|]); destruct He as [<-|[]]; left; reflexivity.
Qed.

Definition IHS (t1 : value) : Prop := forall t2 p, Forall S (fst (diff t1 t2 p p)).

Lemma S_go_list xs : Forall IHS xs -> forall ys i p, Forall S (fst (go_list skip diff p p xs ys i)).
Proof.
  induction 1 as [|x xs Hx _ IH]; intros ys i p.
  - cbn. apply S_added_from.
  - destruct ys as [|y ys]; [cbn [go_list fst]; apply S_removed_from|].
    cbn [go_list]. unfold app2. cbn [fst]. apply Forall_app; split; [apply Hx|apply IH].
Qed.

Lemma S_seq_body xs ys p : Forall IHS xs -> Forall S (fst (seq_body hatom udiff ops skip excl c xs ys p p)).
Proof.
  intros IH. unfold seq_body. destruct (negb (zip c) && forallb is_atom xs && forallb is_atom ys).
  - pose proof (S_default_leaf_list xs ys p) as P.
    destruct (default_leaf_list udiff ops skip xs ys p p) as [es rec]. exact P.
  - apply S_go_list. exact IH.
Qed.

Lemma S_go_common kvs2 k2 p l : Forall (fun kv => IHS (snd kv)) l ->
  Forall S (fst (go_common c diff kvs2 k2 p p l)).
Proof.
  induction 1 as [|[k v1] l Hk _ IH]; cbn; [constructor|].
  destruct (keep_key c k); [|exact IH].
  destruct (find (py_eq k) k2) as [k'|]; [|exact IH].
  destruct (assoc k' kvs2) as [v2|]; [|exact IH].
  unfold app2. cbn [fst]. apply Forall_app; split; [apply Hk|exact IH].
Qed.

Lemma S_dict_body kvs1 kvs2 p : Forall (fun kv => IHS (snd kv)) kvs1 ->
  Forall S (fst (dict_body hatom udiff ops skip excl c kvs1 kvs2 p p)).
Proof.
  intros IH. unfold dict_body. destruct (dict_shortcut _ _ _ _ _); cbn [fst]; [apply S_report_eq|].
  apply Forall_app; split; [|apply Forall_app; split].
  - apply Forall_forall. intros e He. apply in_flat_map in He as (k & _ & He).
    destruct (mem_atom k _); [destruct He|]. pose proof (S_report_eq KDictAdd (snoc p (PKey k)) None (assoc k kvs2) None) as F.
    eapply Forall_forall in F; eassumption.
  - apply Forall_forall. intros e He. apply in_flat_map in He as (k & _ & He).
    destruct (mem_atom k _); [destruct He|]. pose proof (S_report_eq KDictRem (snoc p (PKey k)) (assoc k kvs1) None None) as F.
    eapply Forall_forall in F; eassumption.
  - apply S_go_common. exact IH.
Qed.

Theorem diff_pshape : forall t1, IHS t1.
Proof.
  induction t1 as [a|xs IH|xs IH|kvs IH|xs|xs] using value_ind'; intros t2 p;
    (destruct (skip p) eqn:Hs; [rewrite diff_skip by exact Hs; apply Forall_nil|]);
    (match goal with |- context [diff ?t1 t2 _ _] => destruct (ty_eqb (type_of t1) (type_of t2)) eqn:T end;
     [|rewrite diff_type by assumption; cbn [fst]; apply S_report_eq]);
    apply ty_eqb_true in T; destruct t2; try discriminate T; try (destruct a; discriminate T).
  - rewrite diff_atom_eq by exact Hs. cbn in T. rewrite T.
    replace (ty_eqb (atom_ty a0) (atom_ty a0)) with true by (destruct (atom_ty a0); reflexivity).
    cbn [negb fst]. apply S_diff_atom. left. reflexivity.
  - rewrite diff_list by exact Hs. apply S_seq_body. exact IH.
  - rewrite diff_tuple by exact Hs. apply S_seq_body. exact IH.
  - rewrite diff_dict by exact Hs. apply S_dict_body. exact IH.
  - rewrite diff_vset by exact Hs. cbn [fst]. apply S_diff_set.
  - rewrite diff_vfrozen by exact Hs. cbn [fst]. apply S_diff_set.
Qed.

End Shape.

Lemma mutual_pshape es : Forall pshape es -> Forall pshape (mutual es).
Proof.
  intros HS. apply Forall_forall. intros e He. unfold mutual in He.
  apply in_flat_map in He as (e0 & H0 & He).
  pose proof (proj1 (Forall_forall _ _) HS e0 H0) as S0.
  destruct (ekind e0) eqn:K; try (destruct He as [<-|[]]; exact S0).
  - destruct (last_with_path _ _); [destruct He|]. destruct He as [<-|[]]. exact S0.
  - destruct (last_with_path (ep1 e0) (filter (is_kind KIterAdd) es)) as [a|]; [|destruct He as [<-|[]]; exact S0].
    destruct (last_with_path (ep1 e0) (filter (is_kind KIterRem) es)) as [r|]; [|destruct He as [<-|[]]; exact S0].
    destruct He as [<-|[]]. left. cbn. destruct S0 as [E|[L _]]; [exact E|]. rewrite K in L. discriminate.
Qed.

(* ---- from the path shape to the guard ---- *)
Lemma p_of_Z_inj a b : p_of_Z a = p_of_Z b -> a = b.
Proof.
  intros E. pose proof (literal_eval_int a) as Ha. rewrite E, literal_eval_int in Ha. congruence.
Qed.

Lemma render_snoc p k : render (p ++ [k]) = render p ++ render_key k.
Proof. unfold render. rewrite flat_map_app. cbn [flat_map]. rewrite app_nil_r, app_assoc. reflexivity. Qed.

Lemma render_idx_inj p i j : render (p ++ [PIdx i]) = render (p ++ [PIdx j]) -> i = j.
Proof.
  rewrite !render_snoc. intros E. apply app_inv_head in E.
  unfold render_key in E. cbn [key_atom stringify_param repr_atom] in E.
  cbn [app] in E. injection E as E. apply app_inv_tail in E. apply p_of_Z_inj in E. lia.
Qed.

Lemma pp_path_guard e : pp (ep1 e) (ep2 e) -> path_guard e.
Proof.
  intros [E|(p & i & j & E1 & E2)] R; [rewrite E; reflexivity|].
  rewrite E1, E2 in *. apply render_idx_inj in R. subst. reflexivity.
Qed.

Lemma pp_removelast p1 p2 : pp p1 p2 -> removelast p1 = removelast p2.
Proof.
  intros [E|(p & i & j & E1 & E2)]; [rewrite E; reflexivity|].
  subst. rewrite !removelast_last. reflexivity.
Qed.

Lemma pshape_pp e : pshape e -> pp (ep1 e) (ep2 e).
Proof. intros [E|[_ H]]; [left; exact E|exact H]. Qed.

(* [sym_ok] for a faithful entry of the right shape; the clause "a moved
   item is the same object at both ends" is the one thing the diff does not
   guarantee and stays a hypothesis *)
Lemma sym_ok_of_shape t1 t2 e :
  pshape e -> faithful false t1 t2 e -> (ekind e = KIterMoved -> et1 e = et2 e) -> sym_ok e.
Proof.
  intros HS HF HM. unfold sym_ok. unfold faithful in HF.
  destruct (ekind e) eqn:K.
  - apply pp_path_guard, pshape_pp, HS.
  - split; [apply pp_path_guard, pshape_pp, HS|].
    destruct HF as (a & b & _ & Hb & _). exists b. exact Hb.
  - destruct HS as [E|[L _]]; [exact E|rewrite K in L; discriminate].
  - destruct HS as [E|[L _]]; [exact E|rewrite K in L; discriminate].
  - destruct HS as [E|[L _]]; [exact E|rewrite K in L; discriminate].
  - destruct HS as [E|[L _]]; [exact E|rewrite K in L; discriminate].
  - split; [apply HM; reflexivity|apply pp_removelast, pshape_pp, HS].
  - destruct HS as [E|[L _]]; [exact E|rewrite K in L; discriminate].
  - destruct HS as [E|[L _]]; [exact E|rewrite K in L; discriminate].
  - exact I.
Qed.

Section Run.
Variable hatom : atom -> pystr.
Variable udiff : pystr -> pystr -> pystr.
Variable ops : path -> list value -> list value -> list opcode.
Variable skip excl : path -> bool.
Variable c : cfg.

Theorem run_diff_pshape t1 t2 : Forall pshape (fst (run_diff hatom udiff ops skip excl c t1 t2)).
Proof.
  unfold run_diff. pose proof (diff_pshape hatom udiff ops skip excl c t1 t2 []) as H.
  destruct (diff hatom udiff ops skip excl c t1 t2 [] []) as [es rec]. cbn [fst] in *.
  apply mutual_pshape. exact H.
Qed.

Definition moved_identical (es : list entry) : Prop :=
  Forall (fun e => ekind e = KIterMoved -> et1 e = et2 e) es.

Theorem run_diff_sym_ok t1 t2 :
  thr_num c <= thr_den c -> wf t1 = true -> wf t2 = true ->
  moved_identical (fst (run_diff hatom udiff ops skip excl c t1 t2)) ->
  Forall sym_ok (fst (run_diff hatom udiff ops skip excl c t1 t2)).
Proof.
  intros Hthr W1 W2 HM. apply Forall_forall. intros e He.
  apply (sym_ok_of_shape t1 t2).
  - eapply Forall_forall in He; [exact He|apply run_diff_pshape].
  - eapply run_diff_faithful; eassumption.
  - eapply Forall_forall in HM; eassumption.
Qed.

(* the subtraction of the bidirectional delta of a diff is the addition of
   the delta of the mirrored result tree *)
Theorem sub_of_diff_delta conv conv' ro ao always ops' t1 t2 v :
  thr_num c <= thr_den c -> wf t1 = true -> wf t2 = true ->
  let r := run_diff hatom udiff ops skip excl c t1 t2 in
  moved_identical (fst r) ->
  sub conv ro ao (to_delta conv' true always ops' t1 t2 (fst r) (snd r)) v =
  Some (apply conv ro ao (to_delta conv' true always (mirror_ops ops') t2 t1 (map mirror_entry (fst r)) (snd r)) v).
Proof.
  intros Hthr W1 W2 r HM. apply sub_is_add_of_mirror. apply run_diff_sym_ok; assumption.
Qed.

End Run.

(** C08: exact inversion for the in-place fragment.  A bidirectional delta
    whose payload consists of value / type changes at pairwise independent
    existing locations (any number, any nesting depth) and that applies to v1
    without error giving v2 is undone exactly by its reverse:
    v2 - delta = v1, no error logged.  Proved on the passes themselves
    (writes at diverging paths commute, a second write overwrites the first,
    writing back the value found is the identity). *)
From Coq Require Import List ZArith NArith Bool Arith Lia.
Import ListNotations.
From DD Require Import Base.PyStr Base.Value Base.ValueFacts Path.PathModel
  Diff.Tree Diff.DiffModel Diff.DiffFacts Diff.DiffFaithful
  Delta.DeltaModel Delta.DeltaVerify Delta.DeltaReverse.

(* ------------------------------------------------------------------ *)
(* Python == is reflexive on well-formed values                        *)
(* ------------------------------------------------------------------ *)
Lemma dict_go_refl kvs : nodup_atoms (map fst kvs) = true ->
  forall l, (forall kv, In kv l -> In kv kvs) ->
  Forall (fun kv => py_eqv (snd kv) (snd kv) = true) l -> dict_go kvs l = true.
Proof.
  intros N. induction l as [|[k v] l IH]; intros Sub HF; cbn; [reflexivity|].
  apply Forall_cons_iff in HF as [Hv HF].
  rewrite (assoc_nodup kvs k v k N (Sub _ (or_introl eq_refl)) (py_eq_refl k)).
  cbn in Hv. rewrite Hv. cbn. apply IH; [|exact HF]. intros kv Hkv. apply Sub. right. exact Hkv.
Qed.

Lemma py_eqv_refl : forall v, wf v = true -> py_eqv v v = true.
Proof.
  induction v as [a|xs IH|xs IH|kvs IH|xs|xs] using value_ind'; intros W.
  - cbn. apply py_eq_refl.
  - cbn in W. cbn. revert W. induction IH as [|x xs Hx _ IHxs]; intros W; [reflexivity|].
    cbn in W. apply andb_true_iff in W as [W1 W2]. rewrite (Hx W1). cbn. apply IHxs. exact W2.
  - cbn in W. cbn. revert W. induction IH as [|x xs Hx _ IHxs]; intros W; [reflexivity|].
    cbn in W. apply andb_true_iff in W as [W1 W2]. rewrite (Hx W1). cbn. apply IHxs. exact W2.
  - cbn in W. apply andb_true_iff in W as [N W]. rewrite py_eqv_dict, Nat.eqb_refl. cbn.
    apply dict_go_refl; [exact N|intros kv H; exact H|].
    apply Forall_forall. intros kv Hkv. eapply Forall_forall in IH; [|exact Hkv]. apply IH.
    eapply forallb_forall in W; [|exact Hkv]. exact W.
  - cbn. rewrite Nat.eqb_refl. cbn. apply forallb_forall. intros x Hx. apply mem_atom_In.
    exists x. split; [exact Hx|apply py_eq_refl].
  - cbn. rewrite Nat.eqb_refl. cbn. apply forallb_forall. intros x Hx. apply mem_atom_In.
    exists x. split; [exact Hx|apply py_eq_refl].
Qed.

(* ------------------------------------------------------------------ *)
(* item assignment: overwrite, swap, identity                          *)
(* ------------------------------------------------------------------ *)
Lemma list_set_twice xs : forall i x y xs1,
  list_set xs i x = Some xs1 -> i < length xs -> list_set xs1 i y = list_set xs i y.
Proof.
  induction xs as [|z xs IH]; intros i x y xs1 H L; [cbn in L; lia|].
  destruct i as [|i]; cbn in H.
  - inversion H; subst. reflexivity.
  - destruct (list_set xs i x) as [r|] eqn:E; [|discriminate]. inversion H; subst. cbn.
    rewrite (IH i x y r E) by (cbn in L; lia). reflexivity.
Qed.

Lemma list_set_swap xs : forall i j x y xi xj, i <> j -> i < length xs -> j < length xs ->
  list_set xs i x = Some xi -> list_set xs j y = Some xj ->
  exists xij, list_set xi j y = Some xij /\ list_set xj i x = Some xij.
Proof.
  induction xs as [|z xs IH]; intros i j x y xi xj N Li Lj Hi Hj; [cbn in Li; lia|].
  destruct i as [|i], j as [|j]; try congruence; cbn in Hi, Hj.
  - inversion Hi; subst. destruct (list_set xs j y) as [r|] eqn:E; [|discriminate]. inversion Hj; subst.
    exists (x :: r). cbn. rewrite E. split; reflexivity.
  - inversion Hj; subst. destruct (list_set xs i x) as [r|] eqn:E; [|discriminate]. inversion Hi; subst.
    exists (y :: r). cbn. rewrite E. split; reflexivity.
  - destruct (list_set xs i x) as [ri|] eqn:Ei; [|discriminate]. inversion Hi; subst.
    destruct (list_set xs j y) as [rj|] eqn:Ej; [|discriminate]. inversion Hj; subst.
    destruct (IH i j x y ri rj) as (rij & H1 & H2); try assumption; try (cbn in Li, Lj; lia).
    exists (z :: rij). cbn. rewrite H1, H2. split; reflexivity.
Qed.

Lemma list_set_lt_some xs : forall i x, i < length xs -> exists xs', list_set xs i x = Some xs'.
Proof.
  induction xs as [|z xs IH]; intros i x L; [cbn in L; lia|].
  destruct i as [|i]; cbn; [eexists; reflexivity|].
  destruct (IH i x) as [l' Hl']; [cbn in L; lia|]. rewrite Hl'. eexists; reflexivity.
Qed.

Lemma list_set_id xs : forall i x, nth_error xs i = Some x -> list_set xs i x = Some xs.
Proof.
  induction xs as [|z xs IH]; intros [|i] x H; cbn in *; try discriminate.
  - inversion H; reflexivity.
  - rewrite (IH i x H). reflexivity.
Qed.

Lemma dict_set_twice kvs k x y : dict_set (dict_set kvs k x) k y = dict_set kvs k y.
Proof.
  induction kvs as [|[k' v'] r IH]; cbn.
  - rewrite py_eq_refl. reflexivity.
  - destruct (py_eq k' k) eqn:E; cbn; rewrite E; [reflexivity|]. rewrite IH. reflexivity.
Qed.

Lemma dict_set_id kvs k x : assoc k kvs = Some x -> dict_set kvs k x = kvs.
Proof.
  induction kvs as [|[k' v'] r IH]; cbn; [discriminate|].
  destruct (py_eq k' k); [intros H; inversion H; reflexivity|].
  intros H. rewrite IH by exact H. reflexivity.
Qed.

Lemma dict_set_swap kvs a b x y : py_eq a b = false ->
  assoc a kvs <> None -> assoc b kvs <> None ->
  dict_set (dict_set kvs a x) b y = dict_set (dict_set kvs b y) a x.
Proof.
  intros N. induction kvs as [|[k v] r IH]; cbn; intros Ha Hb; [congruence|].
  destruct (py_eq k a) eqn:Ea, (py_eq k b) eqn:Eb.
  - exfalso. rewrite py_eq_sym in Ea. rewrite (py_eq_trans a k b Ea Eb) in N. discriminate.
  - cbn. rewrite Ea, Eb. reflexivity.
  - cbn. rewrite Ea, Eb. reflexivity.
  - cbn. rewrite Ea, Eb. rewrite IH by assumption. reflexivity.
Qed.

Definition settable (v : value) : bool := match v with VList _ | VDict _ => true | _ => false end.

Lemma set_item_settable obj k x o' : set_item obj k x = Some o' -> settable obj = true /\ settable o' = true.
Proof.
  destruct obj; cbn; try discriminate.
  - destruct (list_index xs k); [|discriminate]. destruct (list_set xs n x); [|discriminate].
    intros H; inversion H; subst. split; reflexivity.
  - intros H; inversion H; subst. split; reflexivity.
Qed.

Lemma settable_not_tuple v : settable v = true -> is_tuple v = false.
Proof. destruct v; cbn; congruence. Qed.

(* an existing list item: the index in range *)
Lemma get_item_list_index xs k c :
  get_item (VList xs) k = Some c ->
  exists i, list_index xs k = Some i /\ nth_error xs i = Some c.
Proof.
  cbn. unfold list_index. destruct (int_of_atom k) as [z|]; [|discriminate].
  unfold seq_index. cbv zeta.
  destruct (Z.ltb_spec z 0) as [Hneg|Hpos].
  - destruct (Z.ltb_spec (z + Z.of_nat (length xs)) 0) as [A|A]; [discriminate|].
    destruct (Z.leb_spec (Z.of_nat (length xs)) (z + Z.of_nat (length xs))) as [B|B]; [discriminate|]. cbn [orb].
    intros Hn. destruct (Z.leb_spec (- Z.of_nat (length xs)) z) as [C|C]; [|lia].
    eexists; split; [reflexivity|exact Hn].
  - destruct (Z.ltb_spec z 0) as [A|A]; [lia|].
    destruct (Z.leb_spec (Z.of_nat (length xs)) z) as [B|B]; [discriminate|]. cbn [orb].
    intros Hn. eexists; split; [reflexivity|exact Hn].
Qed.

Lemma list_index_length xs xs' k : length xs' = length xs -> list_index xs' k = list_index xs k.
Proof. intros H. unfold list_index. rewrite H. reflexivity. Qed.

Lemma set_item_twice obj k x y o1 c :
  set_item obj k x = Some o1 -> get_item obj k = Some c -> set_item o1 k y = set_item obj k y.
Proof.
  intros S G. destruct obj; cbn in S; try discriminate.
  - destruct (get_item_list_index xs k c G) as (i & Li & Hn).
    assert (L : i < length xs) by (apply nth_error_Some; congruence).
    rewrite Li in S. destruct (list_set xs i x) as [xs1|] eqn:E; [|discriminate]. inversion S; subst.
    cbn. rewrite (list_index_length xs xs1 k (list_set_length xs i x xs1 E L)), Li.
    rewrite (list_set_twice xs i x y xs1 E L). reflexivity.
  - inversion S; subst. cbn. rewrite dict_set_twice. reflexivity.
Qed.

Lemma set_item_id obj k x : get_item obj k = Some x -> settable obj = true -> set_item obj k x = Some obj.
Proof.
  intros G T. destruct obj; try discriminate T.
  - destruct (get_item_list_index xs k x G) as (i & Li & Hn). cbn. rewrite Li, (list_set_id xs i x Hn). reflexivity.
  - cbn in *. rewrite dict_set_id by exact G. reflexivity.
Qed.

Lemma set_item_swap obj a b x y ca cb oa ob :
  sep a b = true -> get_item obj a = Some ca -> get_item obj b = Some cb ->
  set_item obj a x = Some oa -> set_item obj b y = Some ob ->
  exists oab, set_item oa b y = Some oab /\ set_item ob a x = Some oab.
Proof.
  unfold sep. intros H Ga Gb Sa Sb. apply andb_true_iff in H as [H Nb]. apply andb_true_iff in H as [N Na].
  apply negb_true_iff in N.
  destruct obj; cbn in Sa; try discriminate.
  - destruct (get_item_list_index xs a ca Ga) as (i & Li & Hi).
    destruct (get_item_list_index xs b cb Gb) as (j & Lj & Hj).
    assert (Lti : i < length xs) by (apply nth_error_Some; congruence).
    assert (Ltj : j < length xs) by (apply nth_error_Some; congruence).
    cbn in Sb. rewrite Li in Sa. rewrite Lj in Sb.
    destruct (list_set xs i x) as [xi|] eqn:Ei; [|discriminate]. inversion Sa; subst.
    destruct (list_set xs j y) as [xj|] eqn:Ej; [|discriminate]. inversion Sb; subst.
    assert (Nij : i <> j).
    { assert (exists za, int_of_atom a = Some za) as [za Ia]
        by (unfold list_index in Li; destruct (int_of_atom a); [eexists; reflexivity|discriminate]).
      assert (exists zb, int_of_atom b = Some zb) as [zb Ib]
        by (unfold list_index in Lj; destruct (int_of_atom b); [eexists; reflexivity|discriminate]).
      unfold nonneg_key in Na, Nb. rewrite Ia in Na. rewrite Ib in Nb. apply Z.leb_le in Na, Nb.
      rewrite (int_of_atom_py_eq a b za zb Ia Ib) in N. apply Z.eqb_neq in N.
      rewrite (list_index_nonneg xs a i za Li Ia Na), (list_index_nonneg xs b j zb Lj Ib Nb).
      intros E. apply N. apply Z2Nat.inj; assumption. }
    destruct (list_set_swap xs i j x y xi xj Nij Lti Ltj Ei Ej) as (xij & H1 & H2).
    exists (VList xij). cbn.
    rewrite (list_index_length xs xi b (list_set_length xs i x xi Ei Lti)), Lj, H1.
    rewrite (list_index_length xs xj a (list_set_length xs j y xj Ej Ltj)), Li, H2. split; reflexivity.
  - cbn in Sb. inversion Sa; inversion Sb; subst. cbn in Ga, Gb.
    exists (VDict (dict_set (dict_set kvs a x) b y)). cbn. split; [reflexivity|].
    rewrite (dict_set_swap kvs a b x y N) by congruence. reflexivity.
Qed.

(* ------------------------------------------------------------------ *)
(* upd: read back, overwrite, identity, commutation                    *)
(* ------------------------------------------------------------------ *)
Definition const_w (x : value) : value -> option value := fun _ => Some x.

Lemma upd_get : forall p r f r', upd r p f = Some r' ->
  exists o o', resolve r p = Some o /\ f o = Some o' /\ resolve r' p = Some o'.
Proof.
  induction p as [|k p IH]; intros r f r' U.
  - cbn in U. exists r, r'. repeat split; [exact U].
  - apply upd_cons_inv in U as (ch & ch' & G & U' & S).
    destruct (IH ch f ch' U') as (o & o' & R & F & R').
    exists o, o'. cbn [resolve]. rewrite G, (get_item_set_item_same _ _ _ _ S). repeat split; assumption.
Qed.

Lemma upd_const_twice : forall p r x y r1,
  upd r p (const_w y) = Some r1 -> upd r1 p (const_w x) = upd r p (const_w x).
Proof.
  induction p as [|k p IH]; intros r x y r1 U; [reflexivity|].
  apply upd_cons_inv in U as (ch & ch1 & G & U' & S).
  rewrite !upd_cons. rewrite (get_item_set_item_same _ _ _ _ S), G.
  rewrite (IH ch x y ch1 U').
  destruct (upd ch p (const_w x)) as [c'|]; [|reflexivity].
  destruct (set_item_settable _ _ _ _ S) as [T T1].
  rewrite (set_item_twice r (key_atom k) ch1 c' r1 ch S G).
  destruct r, r1; try discriminate T; try discriminate T1; reflexivity.
Qed.

Lemma upd_const_id : forall p r x y r1,
  resolve r p = Some x -> upd r p (const_w y) = Some r1 -> upd r p (const_w x) = Some r.
Proof.
  induction p as [|k p IH]; intros r x y r1 R U.
  - cbn in R. inversion R; subst. reflexivity.
  - apply upd_cons_inv in U as (ch & ch1 & G & U' & S).
    cbn [resolve] in R. rewrite G in R.
    rewrite upd_cons, G, (IH ch x y ch1 R U').
    destruct (set_item_settable _ _ _ _ S) as [T _].
    rewrite (set_item_id r (key_atom k) ch G T).
    destruct r; try discriminate T; reflexivity.
Qed.

Lemma upd_comm : forall p q r f g r1 r2, diverge p q = true ->
  upd r p f = Some r1 -> upd r q g = Some r2 ->
  exists r12, upd r1 q g = Some r12 /\ upd r2 p f = Some r12.
Proof.
  induction p as [|a p IH]; intros q r f g r1 r2 D U1 U2; [destruct q; discriminate|].
  destruct q as [|b q]; [discriminate|]. cbn [diverge] in D.
  apply upd_cons_inv in U1 as (cha & ca & Ga & Ua & Sa).
  apply upd_cons_inv in U2 as (chb & cb & Gb & Ub & Sb).
  destruct (set_item_settable _ _ _ _ Sa) as [T Ta]. destruct (set_item_settable _ _ _ _ Sb) as [_ Tb].
  destruct (pkey_eqb a b) eqn:E.
  - apply pkey_eqb_eq in E. subst b. rewrite Ga in Gb. inversion Gb; subst chb.
    destruct (IH q cha f g ca cb D Ua Ub) as (c12 & H1 & H2).
    destruct (set_item_settable _ _ _ _ Sa) as [_ T1].
    assert (exists r12, set_item r (key_atom a) c12 = Some r12) as [r12 S12].
    { destruct r; try discriminate T.
      - destruct (get_item_list_index xs (key_atom a) cha Ga) as (i & Li & Hi).
        assert (L : i < length xs) by (apply nth_error_Some; congruence).
        cbn. rewrite Li. destruct (list_set_lt_some xs i c12 L) as [l' Hl']. rewrite Hl'. eexists; reflexivity.
      - cbn. eexists; reflexivity. }
    exists r12. rewrite !upd_cons.
    rewrite (get_item_set_item_same _ _ _ _ Sa), H1, (get_item_set_item_same _ _ _ _ Sb), H2.
    rewrite (set_item_twice r (key_atom a) ca c12 r1 cha Sa Ga), (set_item_twice r (key_atom a) cb c12 r2 cha Sb Ga), S12.
    destruct r1, r2; try discriminate Ta; try discriminate Tb; split; reflexivity.
  - destruct (set_item_swap r (key_atom a) (key_atom b) ca cb cha chb r1 r2 D Ga Gb Sa Sb) as (r12 & H1 & H2).
    exists r12. rewrite !upd_cons.
    rewrite (get_item_set_item_other _ _ _ _ _ Sa) by (rewrite sep_sym; exact D). rewrite Gb, Ub.
    rewrite (get_item_set_item_other _ _ _ _ _ Sb D). rewrite Ga, Ua. rewrite H1, H2.
    destruct r1, r2; try discriminate Ta; try discriminate Tb; split; reflexivity.
Qed.

(* after a successful write every container above the written item is a list or a dict *)
Lemma upd_prefix_settable : forall pre suf r f r' o',
  suf <> [] -> upd r (pre ++ suf) f = Some r' -> resolve r' pre = Some o' -> settable o' = true.
Proof.
  induction pre as [|k pre IH]; intros suf r f r' o' N U R.
  - cbn in R. inversion R; subst. destruct suf as [|k suf]; [congruence|]. cbn [app] in U.
    apply upd_cons_inv in U as (ch & ch' & G & U' & S). apply (set_item_settable _ _ _ _ S).
  - cbn [app] in U. apply upd_cons_inv in U as (ch & ch' & G & U' & S).
    cbn [resolve] in R. rewrite (get_item_set_item_same _ _ _ _ S) in R. eapply IH; eassumption.
Qed.

Lemma upd_app : forall p1 p2 r f, upd r (p1 ++ p2) f = upd r p1 (fun o => upd o p2 f).
Proof.
  induction p1 as [|k p1 IH]; intros p2 r f; [reflexivity|].
  cbn [app]. rewrite !upd_cons. destruct (get_item r (key_atom k)); [|reflexivity].
  rewrite IH. reflexivity.
Qed.

Lemma upd_ext_at : forall p r f g o, resolve r p = Some o -> f o = g o -> upd r p f = upd r p g.
Proof.
  induction p as [|k p IH]; intros r f g o R E.
  - cbn in R. inversion R; subst. exact E.
  - cbn [resolve] in R. rewrite !upd_cons. destruct (get_item r (key_atom k)) as [ch|]; [|discriminate].
    rewrite (IH ch f g o R E). reflexivity.
Qed.

(* ------------------------------------------------------------------ *)
(* writes: one value / type change as (path, expected old, new)        *)
(* ------------------------------------------------------------------ *)
Definition wr := (path * value * value)%type.
Definition wpath (w : wr) : path := fst (fst w).
Definition wstep (s : st) (w : wr) : st :=
  match current_at s (fst (fst w)) with
  | Some cur => verify true (Some (snd (fst w))) cur (set_new_value s (fst (fst w)) (snd w))
  | None => err s
  end.
Definition flipw (w : wr) : wr := (fst (fst w), snd w, snd (fst w)).

(* the parent of the written item is not a tuple (no coercion, no post-processing) *)
Definition ntp (r : value) (p : path) : Prop :=
  match p with
  | [] => True
  | _ => match resolve r (removelast p) with Some o => is_tuple o = false | None => True end
  end.

Lemma wstep_mono s w : errs s <= errs (wstep s w).
Proof.
  unfold wstep. destruct (current_at s (fst (fst w))) as [cur|]; [|cbn; lia].
  pose proof (set_new_value_mono s (fst (fst w)) (snd w)).
  pose proof (verify_mono true (Some (snd (fst w))) cur (set_new_value s (fst (fst w)) (snd w))). lia.
Qed.

Lemma wfold_mono L : mono (fold_left wstep L).
Proof. apply fold_mono. intros. apply wstep_mono. Qed.

(* with the item present and a non-tuple parent, _set_new_value is the
   functional update at the full path *)
Lemma set_new_value_upd s p x cur :
  resolve (root s) p = Some cur -> ntp (root s) p ->
  set_new_value s p x = match upd (root s) p (const_w x) with
                        | Some r' => mkSt r' (post s) (errs s)
                        | None => err s
                        end.
Proof.
  intros R N. destruct p as [|k0 p0]; [reflexivity|].
  assert (E : k0 :: p0 = removelast (k0 :: p0) ++ [last (k0 :: p0) (PIdx 0)])
    by (apply app_removelast_last; discriminate).
  unfold set_new_value. unfold ntp in N.
  set (op := removelast (k0 :: p0)) in *. set (k := last (k0 :: p0) (PIdx 0)) in *.
  rewrite E in R. rewrite resolve_snoc in R.
  destruct (resolve (root s) op) as [obj|] eqn:Ro; [|discriminate].
  rewrite N. rewrite E, upd_app.
  rewrite (upd_ext_at op (root s) (fun o => upd o [k] (const_w x))
             (fun o => set_item (untuple o) (key_atom k) x) obj Ro).
  - reflexivity.
  - rewrite upd_cons, R. cbn [upd const_w]. destruct obj; try reflexivity. discriminate N.
Qed.

(* a run of writes in which every step finds its item, passes the
   verification, coerces nothing and succeeds *)
Inductive wrun : list wr -> value -> value -> Prop :=
| wrun_nil r : wrun [] r r
| wrun_cons p e x L r cur r' R :
    resolve r p = Some cur -> py_eqv e cur = true -> ntp r p ->
    upd r p (const_w x) = Some r' -> wrun L r' R -> wrun ((p, e, x) :: L) r R.

Lemma wrun_sound L r R : wrun L r R ->
  forall s, root s = r -> fold_left wstep L s = mkSt R (post s) (errs s).
Proof.
  induction 1 as [r|p e x L r cur r' R Hr He Hn Hu _ IH]; intros s Hs.
  - cbn. subst. destruct s; reflexivity.
  - cbn [fold_left]. subst r.
    assert (E : wstep s (p, e, x) = mkSt r' (post s) (errs s)).
    { unfold wstep, current_at. cbn [fst snd]. rewrite Hr.
      rewrite (set_new_value_upd s p x cur Hr Hn), Hu. unfold verify. rewrite He. reflexivity. }
    rewrite E. rewrite (IH (mkSt r' (post s) (errs s)) eq_refl). reflexivity.
Qed.

Lemma diverge_removelast : forall p q, diverge p q = true ->
  diverge (removelast p) q = true \/ exists suf, suf <> [] /\ q = removelast p ++ suf.
Proof.
  induction p as [|a p IH]; intros q D; [destruct q; discriminate|].
  destruct q as [|b q]; [discriminate|]. cbn [diverge] in D.
  destruct p as [|a' p'].
  - right. exists (b :: q). split; [discriminate|reflexivity].
  - change (removelast (a :: a' :: p')) with (a :: removelast (a' :: p')).
    destruct (pkey_eqb a b) eqn:E.
    + apply pkey_eqb_eq in E. subst b. destruct (IH q D) as [H|(suf & N & H)].
      * left. cbn [diverge]. rewrite pkey_eqb_refl. exact H.
      * right. exists suf. split; [exact N|]. rewrite H. reflexivity.
    + left. cbn [diverge]. rewrite E. exact D.
Qed.

Lemma ntp_preserved r q f r' p :
  upd r q f = Some r' -> diverge p q = true -> ntp r p -> ntp r' p.
Proof.
  intros U D N. destruct p as [|k0 p0]; [exact I|]. unfold ntp in *.
  set (op := removelast (k0 :: p0)) in *.
  destruct (diverge_removelast (k0 :: p0) q D) as [H|(suf & Ns & H)]; fold op in H.
  - rewrite (upd_frame q r f r' op U H). exact N.
  - destruct (resolve r' op) as [o'|] eqn:R; [|exact I].
    rewrite H in U. apply settable_not_tuple. eapply upd_prefix_settable; eassumption.
Qed.

Lemma ntp_own_write r p f r' : upd r p f = Some r' -> ntp r' p.
Proof.
  intros U. destruct p as [|k0 p0]; [exact I|]. unfold ntp.
  destruct (resolve r' (removelast (k0 :: p0))) as [o'|] eqn:R; [|exact I].
  rewrite (app_removelast_last (PIdx 0) (l := k0 :: p0)) in U by discriminate.
  apply settable_not_tuple. eapply upd_prefix_settable; [|exact U|exact R]. discriminate.
Qed.

Definition all_div (p : path) (L : list wr) : Prop := forall w, In w L -> diverge p (wpath w) = true.

Lemma wrun_frame L r R p : wrun L r R -> all_div p L -> resolve R p = resolve r p.
Proof.
  induction 1 as [r|q e x L r cur r' R Hr He Hn Hu _ IH]; intros D; [reflexivity|].
  rewrite IH by (intros w Hw; apply D; right; exact Hw).
  eapply upd_frame; [exact Hu|]. apply (D (q, e, x)). left. reflexivity.
Qed.

Lemma wrun_ntp L r R p : wrun L r R -> all_div p L -> ntp r p -> ntp R p.
Proof.
  induction 1 as [r|q e x L r cur r' R Hr He Hn Hu _ IH]; intros D N; [exact N|].
  apply IH; [intros w Hw; apply D; right; exact Hw|].
  eapply ntp_preserved; [exact Hu| |exact N]. apply (D (q, e, x)). left. reflexivity.
Qed.

(* a write at a path diverging from all paths of a run commutes with the run *)
Lemma wrun_comm L r R : wrun L r R -> forall p f r', all_div p L ->
  upd r p f = Some r' -> exists R', wrun L r' R' /\ upd R p f = Some R'.
Proof.
  induction 1 as [r|q e x L r cur r2 R Hr He Hn Hu _ IH]; intros p f r' D U.
  - exists r'. split; [constructor|exact U].
  - assert (Dq : diverge p q = true) by (apply (D (q, e, x)); left; reflexivity).
    assert (Dq' : diverge q p = true) by (rewrite diverge_sym; exact Dq).
    destruct (upd_comm p q r f (const_w x) r' r2 Dq U Hu) as (r12 & H1 & H2).
    destruct (IH p f r12) as (R' & HR & HU); [intros w Hw; apply D; right; exact Hw|exact H2|].
    exists R'. split; [|exact HU].
    econstructor; [| exact He | | exact H1 | exact HR].
    + rewrite (upd_frame p r f r' q U Dq'). exact Hr.
    + eapply ntp_preserved; [exact U|exact Dq'|exact Hn].
Qed.

Lemma pairwise_div_cons_all p (L : list wr) :
  pairwise_div (p :: map wpath L) = true -> all_div p L /\ pairwise_div (map wpath L) = true.
Proof.
  cbn. intros H. apply andb_true_iff in H as [H1 H2]. split; [|exact H2].
  intros w Hw. eapply forallb_forall in H1; [exact H1|]. apply in_map. exact Hw.
Qed.

(* the heart: a clean run of writes whose expected values are the values of
   the base is undone by the run of the flipped writes *)
Theorem wrun_invert : forall L r0 R,
  pairwise_div (map wpath L) = true ->
  (forall w, In w L -> resolve r0 (wpath w) = Some (snd (fst w)) /\ wf (snd w) = true) ->
  wrun L r0 R -> wrun (map flipw L) R r0.
Proof.
  induction L as [|[[p e] x] L IH]; intros r0 R P H Hrun.
  - inversion Hrun; subst. constructor.
  - inversion Hrun as [|p' e' x' L' r cur r1 R' Hr He Hn Hu Hrest]; subst.
    cbn [map] in P. change (wpath (p, e, x)) with p in P.
    destruct (pairwise_div_cons_all p L P) as [D P'].
    destruct (H (p, e, x) (or_introl eq_refl)) as [He0 Wx]. cbn in He0, Wx.
    (* the state after the first forward write *)
    destruct (upd_get p r0 (const_w x) r1 Hu) as (o & o' & _ & Ho' & R1). cbn in Ho'. inversion Ho'; subst o'.
    (* writing e back at p into r1 gives r0 *)
    assert (Uback : upd r1 p (const_w e) = Some r0).
    { rewrite (upd_const_twice p r0 e x r1 Hu). eapply upd_const_id; eassumption. }
    destruct (wrun_comm L r1 R Hrest p (const_w e) r0 D Uback) as (Rs & Hrun0 & Uend).
    cbn [map]. change (flipw (p, e, x)) with (p, x, e).
    apply (wrun_cons p x e (map flipw L) R x Rs r0).
    + rewrite (wrun_frame L r1 R p Hrest D). exact R1.
    + apply py_eqv_refl. exact Wx.
    + eapply wrun_ntp; [exact Hrest|exact D|]. eapply ntp_own_write. exact Hu.
    + exact Uend.
    + apply IH; [exact P'| |exact Hrun0]. intros w Hw. apply H. right. exact Hw.
Qed.

(* a run of wsteps without a logged error is a clean run *)
Lemma wrun_of_clean_fold : forall L s,
  pairwise_div (map wpath L) = true ->
  (forall w, In w L -> ntp (root s) (wpath w)) ->
  errs (fold_left wstep L s) = errs s ->
  wrun L (root s) (root (fold_left wstep L s)).
Proof.
  induction L as [|[[p e] x] L IH]; intros s P N Z; [constructor|].
  cbn [fold_left] in *. cbn [map] in P. change (wpath (p, e, x)) with p in P.
  destruct (pairwise_div_cons_all p L P) as [D P'].
  pose proof (wfold_mono L (wstep s (p, e, x))) as M. pose proof (wstep_mono s (p, e, x)) as M0.
  assert (Z0 : errs (wstep s (p, e, x)) = errs s) by lia.
  assert (Np : ntp (root s) p) by (apply (N (p, e, x)); left; reflexivity).
  unfold wstep, current_at in Z0. cbn [fst snd] in Z0.
  destruct (resolve (root s) p) as [cur|] eqn:Hr; [|cbn in Z0; lia].
  rewrite (set_new_value_upd s p x cur Hr Np) in Z0.
  destruct (upd (root s) p (const_w x)) as [r'|] eqn:Hu.
  2:{ unfold verify in Z0. destruct (py_eqv e cur); cbn in Z0; lia. }
  unfold verify in Z0. destruct (py_eqv e cur) eqn:He; [|cbn in Z0; lia].
  assert (E : wstep s (p, e, x) = mkSt r' (post s) (errs s)).
  { unfold wstep, current_at. cbn [fst snd]. rewrite Hr.
    rewrite (set_new_value_upd s p x cur Hr Np), Hu. unfold verify. rewrite He. reflexivity. }
  rewrite E in *.
  econstructor; [exact Hr|exact He|exact Np|exact Hu|].
  apply (IH (mkSt r' (post s) (errs s))); [exact P'| |cbn [errs] in *; lia].
  intros w Hw. cbn [root]. eapply ntp_preserved; [exact Hu| |apply N; right; exact Hw].
  rewrite diverge_sym. apply D. exact Hw.
Qed.

(* ------------------------------------------------------------------ *)
(* the in-place fragment of deltas                                     *)
(* ------------------------------------------------------------------ *)
Definition vc_inplace (c : vchange) : Prop := vc_new_path c = None /\ exists o, vc_old c = Some o.
Definition tc_inplace (c : tchange) : Prop :=
  tc_new_path c = None /\ (exists o, tc_old c = Some o) /\ exists n, tc_new c = Some n.
Record inplace (d : delta) : Prop := mkInplace {
  ip_val : Forall vc_inplace (d_val d);
  ip_type : Forall tc_inplace (d_type d);
  ip_dadd : d_dadd d = []; ip_drem : d_drem d = [];
  ip_iadd : d_iadd d = []; ip_irem : d_irem d = []; ip_moved : d_moved d = [];
  ip_sadd : d_sadd d = []; ip_srem : d_srem d = []; ip_ops : d_ops d = []
}.

Definition vcw (c : vchange) : wr := (vc_path c, ovv (vc_old c), vc_new c).
Definition tcw (c : tchange) : wr := (tc_path c, ovv (tc_old c), ovv (tc_new c)).
Definition writes (d : delta) : list wr := map vcw (d_val d) ++ map tcw (d_type d).

Lemma inplace_reverse d : inplace d -> inplace (reverse d).
Proof.
  intros [Hv Ht H1 H2 H3 H4 H5 H6 H7 H8]. constructor; unfold reverse;
    cbn [d_val d_type d_dadd d_drem d_iadd d_irem d_moved d_sadd d_srem d_ops]; try assumption.
  - apply Forall_forall. intros c Hc. apply in_map_iff in Hc as (c0 & <- & _). split; [reflexivity|eexists; reflexivity].
  - apply Forall_forall. intros c Hc. apply in_map_iff in Hc as (c0 & <- & H0).
    eapply Forall_forall in Ht; [|exact H0]. destruct Ht as (_ & Ho & Hn). split; [reflexivity|]. cbn. split; assumption.
  - rewrite H5. reflexivity.
  - rewrite H8. reflexivity.
Qed.

Lemma writes_reverse d : inplace d -> writes (reverse d) = map flipw (writes d).
Proof.
  intros [Hv Ht _ _ _ _ _ _ _ _]. unfold writes, reverse. cbn [d_val d_type].
  rewrite map_app, !map_map. f_equal.
  - apply map_ext_in. intros c Hc. eapply Forall_forall in Hv; [|exact Hc]. destruct Hv as [E _].
    unfold vcw, flipw. cbn. rewrite E. reflexivity.
  - apply map_ext_in. intros c Hc. eapply Forall_forall in Ht; [|exact Hc]. destruct Ht as [E _].
    unfold tcw, flipw. cbn. rewrite E. reflexivity.
Qed.

Section Inplace.
Variable conv : ty -> value -> option value.
Variable rem_order : list (path * value) -> list (path * value).
Variable add_order : list (path * option value) -> list (path * option value).
Hypothesis rem_order_nil : rem_order [] = [].

Lemma vstep_wstep s c : vc_inplace c -> vstep true s c = wstep s (vcw c).
Proof. intros [_ [o E]]. unfold vstep, wstep, vcw. cbn [fst snd]. rewrite E. reflexivity. Qed.

Lemma tstep_wstep s c : tc_inplace c -> tstep conv true s c = wstep s (tcw c).
Proof.
  intros (_ & [o E] & [n En]). unfold tstep, wstep, tcw. cbn [fst snd]. rewrite E, En. cbn [ovv].
  destruct (current_at s (tc_path c)); reflexivity.
Qed.

Lemma apply_inplace d v : inplace d -> d_bidir d = true ->
  apply conv rem_order add_order d v =
  let s := do_post (fold_left wstep (writes d) (mkSt v [] 0)) in (root s, errs s).
Proof.
  intros [Hv Ht H1 H2 H3 H4 H5 H6 H7 H8] B.
  unfold apply, do_iterable_item_removed, do_iterable_item_added. cbv zeta.
  rewrite B, H1, H2, H3, H4, H5, H6, H7, H8. cbn [map app].
  unfold do_item_removed. rewrite rem_order_nil. cbn [fold_left do_set_items do_opcodes do_item_added].
  unfold writes. rewrite fold_left_app.
  rewrite do_values_changed_fold, (do_type_changes_fold conv).
  rewrite !fold_left_map'.
  rewrite (fold_left_ext_in (vstep true) (fun a x => wstep a (vcw x)) (d_val d)).
  2:{ intros a x Hx. apply vstep_wstep. eapply Forall_forall in Hv; eassumption. }
  rewrite (fold_left_ext_in (tstep conv true) (fun a x => wstep a (tcw x)) (d_type d)).
  2:{ intros a x Hx. apply tstep_wstep. eapply Forall_forall in Ht; eassumption. }
  reflexivity.
Qed.

Lemma do_post_nil s : post s = [] -> do_post s = s.
Proof. intros H. unfold do_post. rewrite H. reflexivity. Qed.

(* THE INVERSION THEOREM for the in-place fragment *)
Theorem inplace_sub_inverts d v1 v2 :
  inplace d -> d_bidir d = true ->
  pairwise_div (map wpath (writes d)) = true ->
  (forall w, In w (writes d) ->
     resolve v1 (wpath w) = Some (snd (fst w)) /\ wf (snd w) = true /\ ntp v1 (wpath w)) ->
  apply conv rem_order add_order d v1 = (v2, 0) ->
  sub conv rem_order add_order d v2 = Some (v1, 0).
Proof.
  intros Hin B P H A.
  rewrite (apply_inplace d v1 Hin B) in A. cbv zeta in A.
  set (s := fold_left wstep (writes d) (mkSt v1 [] 0)) in *.
  injection A as A1 A2.
  pose proof (do_post_mono s) as Mp. pose proof (wfold_mono (writes d) (mkSt v1 [] 0)) as Mw.
  fold s in Mw. cbn [errs] in Mw.
  assert (Z : errs s = errs (mkSt v1 [] 0)) by (cbn [errs]; lia).
  assert (Hrun : wrun (writes d) v1 (root s)).
  { apply (wrun_of_clean_fold (writes d) (mkSt v1 [] 0) P); [|exact Z].
    intros w Hw. cbn [root]. apply H. exact Hw. }
  pose proof (wrun_sound _ _ _ Hrun (mkSt v1 [] 0) eq_refl) as Es. fold s in Es. cbn [post errs] in Es.
  assert (V2 : root s = v2).
  { rewrite do_post_nil in A1 by (rewrite Es; reflexivity). exact A1. }
  assert (Hback : wrun (map flipw (writes d)) (root s) v1).
  { apply wrun_invert; [exact P| |exact Hrun]. intros w Hw. destruct (H w Hw) as (H1 & H2 & _). split; assumption. }
  unfold sub. rewrite B. f_equal.
  rewrite (apply_inplace (reverse d) v2 (inplace_reverse d Hin) B). cbv zeta.
  rewrite (writes_reverse d Hin). rewrite V2 in Hback.
  rewrite (wrun_sound _ _ _ Hback (mkSt v2 [] 0) eq_refl). cbn [post errs].
  rewrite do_post_nil by reflexivity. reflexivity.
Qed.

(* ... and adding again gives v2 again (this is the hypothesis, restated for
   the chain  v1 + d = v2,  v2 - d = v1,  (v2 - d) + d = v2) *)
Corollary inplace_back_and_forth d v1 v2 :
  inplace d -> d_bidir d = true ->
  pairwise_div (map wpath (writes d)) = true ->
  (forall w, In w (writes d) ->
     resolve v1 (wpath w) = Some (snd (fst w)) /\ wf (snd w) = true /\ ntp v1 (wpath w)) ->
  apply conv rem_order add_order d v1 = (v2, 0) ->
  exists back, sub conv rem_order add_order d v2 = Some (back, 0) /\
               apply conv rem_order add_order d back = (v2, 0) /\ back = v1.
Proof.
  intros Hin B P H A. exists v1. split; [apply inplace_sub_inverts; assumption|]. split; [exact A|reflexivity].
Qed.

End Inplace.

(** sx renderings for the ignore_order Delta correspondence (C01).  No theorem depends on this file. *)
From Coq Require Import List ZArith NArith Bool Arith String.
Import ListNotations.
From DD Require Import Base.Sx Base.PyStr Base.Value Path.PathModel Diff.Tree Diff.DiffModel Diff.DiffShow
  Hash.HashModel DiffIO.DiffIOModel DiffIO.DiffIOShow Delta.DeltaModel Delta.DeltaShow Delta.DeltaIO.
Local Open Scope string_scope.

Definition sx_imap (tag : string) (pm : path * imap) : sx :=
  SL [SA tag; sx_path (fst pm); SL (sx_sort (map (fun iv => SL [sx_nat (fst iv); sx_value (snd iv)]) (snd pm)))].

(* with ignore_order the payload has no iterable_item_added / removed / moved and no opcodes *)
Definition io_payload_base (b : delta) : delta :=
  mkDelta (d_val b) (d_type b) (d_dadd b) (d_drem b) [] [] [] (d_sadd b) (d_srem b) [] (d_bidir b).

Definition sx_delta_io (d : delta_io) : sx :=
  SL [sx_delta (io_payload_base (io_base d));
      SL (sx_sort (map (sx_imap "addat") (io_added d) ++ map (sx_imap "remat") (io_removed d)))].

(* base + Delta(DeepDiff(t1, t2, ignore_order=True, report_repetition=rep)) with the recorded pairings *)
Definition run_dio (ud : list (pystr * pystr * pystr)) (c : cfg) (rep : bool)
    (ps : list (path * list (nat * nat))) (cv : list (ty * value * option value))
    (rem add : list path) (bidir always : bool) (t1 t2 base : value) : sx :=
  let r := run_diff_io hexhash (tbl_udiff ud) no_paths no_paths c rep (tbl_pairs ps) t1 t2 in
  let d := to_delta_io (tbl_conv cv) bidir always t1 t2 (fst r) (snd r) in
  SL [sx_delta_io d;
      sx_result (apply_io hexhash (tbl_conv cv) (order_by rem fst) (order_by add fst) d base)].

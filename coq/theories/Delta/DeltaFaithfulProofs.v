(** C01 - the faithful Delta application (DeltaFaithful.v) against DeltaModel.apply:
    on every run that is insert-regular the two agree (apply_f_sound); with the removal, write and
    post-processing regularity also the fully faithful run agrees (apply_ff_sound); Python's list.insert
    (clamping) and the doubled-distance search against DeltaModel's; static sufficient conditions; the
    witnesses where the models differ. *)
From Coq Require Import List ZArith NArith Bool Arith Lia.
Import ListNotations.
From DD Require Import Base.PyStr Base.Value Path.PathModel Diff.Tree Diff.DiffModel Diff.DiffFacts
  Delta.DeltaModel Delta.DeltaVerify Delta.DeltaFaithful.

(* ------------------------------------------------------------------ *)
(* list.insert                                                         *)
(* ------------------------------------------------------------------ *)
Lemma clamp_index_inside n z : (0 <= z)%Z -> (z <= Z.of_nat n)%Z -> clamp_index n z = Z.to_nat z.
Proof. intros H0 H1. unfold clamp_index. destruct (Z.ltb_spec z 0); [lia|]. rewrite Z.min_l by lia. reflexivity. Qed.
Lemma clamp_index_above n z : (Z.of_nat n <= z)%Z -> clamp_index n z = n.
Proof. intros H. unfold clamp_index. destruct (Z.ltb_spec z 0); [lia|]. rewrite Z.min_r by lia. apply Nat2Z.id. Qed.
Lemma clamp_index_negative n z : (z < 0)%Z -> (- Z.of_nat n <= z)%Z -> clamp_index n z = Z.to_nat (z + Z.of_nat n).
Proof. intros H0 H1. unfold clamp_index. destruct (Z.ltb_spec z 0); [|lia]. rewrite Z.max_r by lia. reflexivity. Qed.
Lemma clamp_index_below n z : (z < - Z.of_nat n)%Z -> clamp_index n z = 0.
Proof. intros H. unfold clamp_index. destruct (Z.ltb_spec z 0); [|lia]. rewrite Z.max_l by lia. reflexivity. Qed.

(* Python: xs.insert(z, v) *)
Lemma py_insert_inside xs z v : (0 <= z)%Z -> (z <= Z.of_nat (List.length xs))%Z ->
  py_insert xs z v = list_insert xs (Z.to_nat z) v.
Proof. intros H0 H1. unfold py_insert. rewrite clamp_index_inside by assumption. reflexivity. Qed.
Lemma py_insert_append xs z v : (Z.of_nat (List.length xs) <= z)%Z -> py_insert xs z v = (xs ++ [v])%list.
Proof.
  intros H. unfold py_insert, list_insert. rewrite clamp_index_above by assumption.
  rewrite firstn_all, skipn_all. reflexivity.
Qed.
Lemma py_insert_negative xs z v : (z < 0)%Z -> (- Z.of_nat (List.length xs) <= z)%Z ->
  py_insert xs z v = list_insert xs (Z.to_nat (z + Z.of_nat (List.length xs))) v.
Proof. intros H0 H1. unfold py_insert. rewrite clamp_index_negative by assumption. reflexivity. Qed.
Lemma py_insert_front xs z v : (z < - Z.of_nat (List.length xs))%Z -> py_insert xs z v = v :: xs.
Proof. intros H. unfold py_insert, list_insert. rewrite clamp_index_below by assumption. reflexivity. Qed.
Lemma py_insert_length xs z v : List.length (py_insert xs z v) = S (List.length xs).
Proof.
  unfold py_insert, list_insert. set (i := clamp_index (List.length xs) z).
  rewrite <- (firstn_skipn i xs) at 3. rewrite !app_length. cbn [List.length]. lia.
Qed.

(* ------------------------------------------------------------------ *)
(* the closest-element search                                          *)
(* ------------------------------------------------------------------ *)
Lemma absdiff_Z a b : Z.abs (2 * Z.of_nat a - 2 * Z.of_nat b) = (2 * Z.of_nat (absdiff a b))%Z.
Proof. unfold absdiff. lia. Qed.

Definition dbl (o : option nat) : option Z := option_map (fun d => (2 * Z.of_nat d)%Z) o.

Lemma closest2_go_nonneg xs : forall idx e expected best bestd,
  closest2_go xs idx (2 * Z.of_nat e) expected best (dbl bestd) = closest_go xs idx e expected best bestd.
Proof.
  induction xs as [|x r IH]; intros idx e expected best bestd; [reflexivity|].
  cbn [closest2_go closest_go]. cbv zeta. rewrite absdiff_Z.
  destruct bestd as [bd|]; cbn [dbl option_map].
  - replace (Z.ltb (2 * Z.of_nat bd) (2 * Z.of_nat (absdiff idx e))) with (Nat.ltb bd (absdiff idx e))
      by (destruct (Nat.ltb_spec bd (absdiff idx e)), (Z.ltb_spec (2 * Z.of_nat bd) (2 * Z.of_nat (absdiff idx e))); lia || reflexivity).
    destruct (Nat.ltb bd (absdiff idx e)); [reflexivity|].
    replace (Z.ltb (2 * Z.of_nat (absdiff idx e)) (2 * Z.of_nat bd)) with (Nat.ltb (absdiff idx e) bd)
      by (destruct (Nat.ltb_spec (absdiff idx e) bd), (Z.ltb_spec (2 * Z.of_nat (absdiff idx e)) (2 * Z.of_nat bd)); lia || reflexivity).
    destruct (py_eqv x expected && Nat.ltb (absdiff idx e) bd).
    + apply (IH (S idx) e expected (Some idx) (Some (absdiff idx e))).
    + apply (IH (S idx) e expected best (Some bd)).
  - destruct (py_eqv x expected).
    + apply (IH (S idx) e expected (Some idx) (Some (absdiff idx e))).
    + apply (IH (S idx) e expected best None).
Qed.

(* for a non-negative int elem the doubled search is DeltaModel's *)
Lemma find_closest2_nonneg xs z expected : (0 <= z)%Z ->
  find_closest2 xs (2 * z) expected = find_closest xs (Z.to_nat z) expected.
Proof.
  intros H. unfold find_closest2, find_closest. rewrite <- (Z2Nat.id z H) at 1.
  apply (closest2_go_nonneg xs 0 (Z.to_nat z) expected None None).
Qed.

(* the first item equal to the expected value, from position idx on *)
Fixpoint first_eq (xs : list value) (idx : nat) (expected : value) : option nat :=
  match xs with
  | [] => None
  | x :: r => if py_eqv x expected then Some idx else first_eq r (S idx) expected
  end.

Lemma closest_go_settled xs idx e expected i bd : bd < absdiff idx e ->
  closest_go xs idx e expected (Some i) (Some bd) = Some i.
Proof. intros H. destruct xs as [|x r]; [reflexivity|]. cbn [closest_go]. cbv zeta. destruct (Nat.ltb_spec bd (absdiff idx e)); [reflexivity|lia]. Qed.
Lemma closest_go_first xs : forall idx e expected, e <= idx ->
  closest_go xs idx e expected None None = first_eq xs idx expected.
Proof.
  induction xs as [|x r IH]; intros idx e expected H; [reflexivity|].
  cbn [closest_go first_eq]. cbv zeta. destruct (py_eqv x expected).
  - apply closest_go_settled. unfold absdiff. lia.
  - apply IH. lia.
Qed.
Lemma closest2_go_settled xs idx t expected i bd : (bd < Z.abs (2 * Z.of_nat idx - t))%Z ->
  closest2_go xs idx t expected (Some i) (Some bd) = Some i.
Proof. intros H. destruct xs as [|x r]; [reflexivity|]. cbn [closest2_go]. cbv zeta. destruct (Z.ltb_spec bd (Z.abs (2 * Z.of_nat idx - t))); [reflexivity|lia]. Qed.
Lemma closest2_go_first xs : forall idx t expected, (t <= 2 * Z.of_nat idx)%Z ->
  closest2_go xs idx t expected None None = first_eq xs idx expected.
Proof.
  induction xs as [|x r IH]; intros idx t expected H; [reflexivity|].
  cbn [closest2_go first_eq]. cbv zeta. destruct (py_eqv x expected).
  - apply closest2_go_settled. lia.
  - apply IH. lia.
Qed.

(* a negative elem: Python's abs(index - elem) grows with the index, the search returns the first equal item,
   which is what DeltaModel computes with elem clipped to 0 *)
Lemma find_closest2_neg xs z expected : (z < 0)%Z ->
  find_closest2 xs (2 * z) expected = find_closest xs (Z.to_nat z) expected.
Proof.
  intros H. unfold find_closest2, find_closest.
  rewrite closest2_go_first by lia. rewrite closest_go_first by lia. reflexivity.
Qed.
Lemma find_closest2_neg_first xs z expected : (z < 0)%Z -> find_closest2 xs (2 * z) expected = first_eq xs 0 expected.
Proof. intros H. unfold find_closest2. apply closest2_go_first. lia. Qed.

Lemma find_closest2_int xs z expected : find_closest2 xs (2 * z) expected = find_closest xs (Z.to_nat z) expected.
Proof. destruct (Z.ltb_spec z 0); [apply find_closest2_neg|apply find_closest2_nonneg]; assumption. Qed.

Lemma num2_int k z : int_of_atom k = Some z -> num2 k = Some (2 * z)%Z.
Proof. destruct k as [|b|x|x|x|x]; cbn; intros H; inversion H; subst; [destruct b|]; reflexivity. Qed.

(* ------------------------------------------------------------------ *)
(* one step                                                            *)
(* ------------------------------------------------------------------ *)
Lemma set_item_indep o k v w : set_item o k v = None -> set_item o k w = None.
Proof.
  destruct o as [a|xs|xs|kvs|xs|xs]; cbn; intros H; try reflexivity; try discriminate H.
  destruct (list_index xs k) as [i|]; [|reflexivity].
  assert (G : forall (l : list value) j, list_set l j v = None -> list_set l j w = None).
  { induction l as [|x l IH]; intros j; destruct j as [|j]; cbn; intros E; try discriminate E; try reflexivity.
    destruct (list_set l j v) eqn:E1; [discriminate E|]. rewrite (IH j E1). reflexivity. }
  destruct (list_set xs i v) eqn:E; [discriminate H|]. rewrite (G xs i E). reflexivity.
Qed.

Lemma set_new_value_f_reg s p v : write_reg s p = true -> set_new_value_f s p v = set_new_value s p v.
Proof.
  unfold write_reg, set_new_value_f, set_new_value. destruct p as [|k0 p0]; [reflexivity|].
  set (op := removelast (k0 :: p0)). set (k := key_atom (last (k0 :: p0) (PIdx 0))).
  destruct (resolve (root s) op) as [obj|]; [|reflexivity]. intros H.
  destruct (upd (root s) op (fun o => set_item (untuple o) k v)); [reflexivity|].
  destruct (is_tuple obj); [|reflexivity]. cbn [negb orb] in H. rewrite H. reflexivity.
Qed.

Lemma add_one_g_false setv s p v :
  add_one_g setv false s p v = inr (match p with
                                    | [] => with_root s (match v with Some x => x | None => VAtom ANone end)
                                    | _ => match resolve (root s) (removelast p) with
                                           | None => err s
                                           | Some _ => setv s p (match v with Some x => x | None => VAtom ANone end)
                                           end
                                    end).
Proof. unfold add_one_g. destruct p as [|k0 p0]; [reflexivity|]. destruct (resolve _ _); reflexivity. Qed.

Lemma add_one_false s p v :
  add_one false s p v = match p with
                        | [] => with_root s (match v with Some x => x | None => VAtom ANone end)
                        | _ => match resolve (root s) (removelast p) with
                               | None => err s
                               | Some _ => set_new_value s p (match v with Some x => x | None => VAtom ANone end)
                               end
                        end.
Proof.
  unfold add_one. destruct p as [|k0 p0]; [reflexivity|]. destruct (resolve _ _) as [obj|]; [|reflexivity].
  destruct obj; reflexivity.
Qed.

(* an insert-regular step: the faithful step completes and is DeltaModel's step, provided the final write is *)
Lemma add_one_g_reg setv ins s p v :
  add_reg ins s p = true ->
  setv s p (match v with Some x => x | None => VAtom ANone end) = set_new_value s p (match v with Some x => x | None => VAtom ANone end) ->
  add_one_g setv ins s p v = inr (add_one ins s p v).
Proof.
  intros H HS. destruct ins.
  2:{ rewrite add_one_g_false, add_one_false. destruct p as [|k0 p0]; [reflexivity|]. destruct (resolve _ _); [rewrite HS|]; reflexivity. }
  unfold add_reg in H. cbn [negb orb] in H.
  unfold add_one_g, add_one. destruct p as [|k0 p0]; [discriminate H|].
  set (op := removelast (k0 :: p0)) in *. set (k := key_atom (last (k0 :: p0) (PIdx 0))) in *.
  set (nv := match v with Some x => x | None => VAtom ANone end) in *.
  destruct (resolve (root s) op) as [obj|]; [|reflexivity].
  apply orb_true_iff in H as [H|H].
  - (* a list and a non-negative int *)
    apply andb_true_iff in H as [HL HK]. destruct obj as [a|xs|xs|kvs|xs|xs]; try discriminate HL.
    unfold nonneg_int in HK. destruct (int_of_atom k) as [z|] eqn:EK; [|discriminate HK]. apply Z.leb_le in HK.
    cbn [py_len]. unfold elem_lt. rewrite (num2_int k z EK).
    replace (Z.ltb (2 * z) (2 * Z.of_nat (List.length xs))) with (Z.ltb z (Z.of_nat (List.length xs)))
      by (destruct (Z.ltb_spec z (Z.of_nat (List.length xs))), (Z.ltb_spec (2 * z) (2 * Z.of_nat (List.length xs))); lia || reflexivity).
    destruct (Z.ltb_spec z (Z.of_nat (List.length xs))) as [Hlt|Hge].
    + assert (E : Z.leb 0 z = true) by (apply Z.leb_le; exact HK). rewrite E. cbn [andb].
      rewrite py_insert_inside by lia. reflexivity.
    + cbn [andb]. rewrite HS. reflexivity.
  - (* elem >= len(obj): nothing is inserted *)
    destruct (py_len obj) as [n|] eqn:EL; [|discriminate H].
    destruct (elem_lt k n) as [b|] eqn:ELT; [|discriminate H]. destruct b; [discriminate H|].
    rewrite HS.
    destruct obj as [a|xs|xs|kvs|xs|xs]; try reflexivity.
    cbn [py_len] in EL. inversion EL; subst n.
    destruct (int_of_atom k) as [z|] eqn:EK; [|reflexivity].
    unfold elem_lt in ELT. rewrite (num2_int k z EK) in ELT.
    assert (E : Z.ltb (2 * z) (2 * Z.of_nat (List.length xs)) = false) by congruence.
    apply Z.ltb_ge in E.
    destruct (Z.ltb_spec z (Z.of_nat (List.length xs))); [lia|]. reflexivity.
Qed.

Lemma add_one_f_reg ins s p v : add_reg ins s p = true -> add_one_f ins s p v = inr (add_one ins s p v).
Proof. intros H. apply add_one_g_reg; [exact H|reflexivity]. Qed.
Lemma add_one_ff_reg ins s p v : add_reg ins s p = true -> write_reg s p = true ->
  add_one_ff ins s p v = inr (add_one ins s p v).
Proof. intros H W. apply add_one_g_reg; [exact H|]. apply set_new_value_f_reg. exact W. Qed.

(* a faithful step that completes without insertion trouble: conversely, every [inl] is an irregular step *)
Lemma add_one_f_raises ins s p v e : add_one_f ins s p v = inl e -> add_reg ins s p = false.
Proof. intros H. destruct (add_reg ins s p) eqn:R; [|reflexivity]. rewrite (add_one_f_reg ins s p v R) in H. discriminate H. Qed.

Lemma remove_one_f_reg bidir s p expected : rem_reg s p expected = true ->
  remove_one_f bidir s p expected = inr (remove_one bidir s p expected).
Proof.
  unfold rem_reg, remove_one_f, remove_one. destruct p as [|k0 p0]; [intros H; discriminate H|].
  set (op := removelast (k0 :: p0)). set (k := key_atom (last (k0 :: p0) (PIdx 0))).
  destruct (resolve (root s) op) as [obj|]; [|reflexivity]. cbv zeta.
  destruct obj as [a|xs|xs|kvs|xs|xs].
  - destruct (get_item (VAtom a) k); [|reflexivity]. intros H. rewrite (proj1 (negb_true_iff _) H). reflexivity.
  - intros H.
    destruct (match get_item (VList xs) k with Some c => negb (py_eqv c expected) | None => true end) eqn:EL; [|reflexivity].
    assert (H' : match xs with [] => true | _ => false end || match int_of_atom k with Some _ => true | None => false end = true).
    { destruct (get_item (VList xs) k) as [c|]; cbn [orb] in H; [|exact H].
      apply negb_true_iff in EL. rewrite EL in H. exact H. }
    destruct xs as [|x xs'].
    + destruct (int_of_atom k); reflexivity.
    + cbn [orb] in H'. destruct (int_of_atom k) as [z|] eqn:EK; [|discriminate H'].
      rewrite (num2_int k z EK), find_closest2_int. destruct (find_closest _ _ _); reflexivity.
  - destruct (get_item (VTuple xs) k); reflexivity.
  - destruct (get_item (VDict kvs) k); reflexivity.
  - destruct (get_item (VSet xs) k); reflexivity.
  - destruct (get_item (VFrozen xs) k); reflexivity.
Qed.

Lemma upd_ext_at' : forall p r f g o, resolve r p = Some o -> f o = g o -> upd r p f = upd r p g.
Proof.
  induction p as [|k p IH]; intros r f g o R E.
  - cbn in R. inversion R; subst. exact E.
  - cbn [resolve] in R. rewrite !upd_cons. destruct (get_item r (key_atom k)) as [ch|]; [|discriminate].
    rewrite (IH ch f g o R E). reflexivity.
Qed.
Lemma upd_unresolved : forall p r f, resolve r p = None -> upd r p f = None.
Proof.
  induction p as [|k p IH]; intros r f R; [discriminate R|].
  cbn [resolve] in R. rewrite upd_cons. destruct (get_item r (key_atom k)) as [ch|]; [|reflexivity].
  rewrite (IH ch f R). reflexivity.
Qed.
Lemma resolve_last (r : value) (p : path) : p <> [] ->
  resolve r p = match resolve r (removelast p) with
                | Some obj => get_item obj (key_atom (last p (PIdx 0)))
                | None => None
                end.
Proof. intros H. rewrite (app_removelast_last (PIdx 0) H) at 1. apply resolve_snoc. Qed.

Definition post_fun' (o : value) : option value :=
  match o with VList xs => Some (VTuple xs) | VTuple xs => Some (VTuple xs) | _ => None end.

Lemma post_one_f_reg s p : post_reg s p = true -> post_one_f s p = inr (post_one s p).
Proof.
  unfold post_reg, post_one_f, post_one. destruct p as [|k0 p0].
  - intros H. cbn [upd]. destruct (root s) as [a|xs|xs|kvs|xs|xs]; try discriminate H; reflexivity.
  - set (p := k0 :: p0). assert (NE : p <> []) by discriminate.
    pose proof (resolve_last (root s) p NE) as RL.
    destruct (resolve (root s) (removelast p)) as [obj|].
    2:{ intros _. rewrite (upd_unresolved p (root s) _ RL). reflexivity. }
    destruct (get_item obj (key_atom (last p (PIdx 0)))) as [c|].
    + intros H. f_equal.
      rewrite (upd_ext_at' p (root s) py_tuple post_fun' c RL); [reflexivity|].
      apply orb_true_iff in H as [H|H].
      * destruct c; try discriminate H; reflexivity.
      * destruct c as [a|xs|xs|kvs|xs|xs]; try discriminate H. destruct a; try discriminate H; reflexivity.
    + intros H. rewrite H. rewrite (upd_unresolved p (root s) _ RL). reflexivity.
Qed.

(* ------------------------------------------------------------------ *)
(* runs                                                                *)
(* ------------------------------------------------------------------ *)
Lemma fold_res_reg {A} (f : st -> A -> res st) (step : st -> A -> st) (reg : st -> A -> bool) :
  (forall s x, reg s x = true -> f s x = inr (step s x)) ->
  forall l s, fold_reg step reg l s = true -> fold_res f l s = inr (fold_left step l s).
Proof.
  intros H l. induction l as [|x l IH]; intros s R; [reflexivity|].
  cbn [fold_reg] in R. apply andb_true_iff in R as [R1 R2].
  cbn [fold_res fold_left]. rewrite (H s x R1). apply IH. exact R2.
Qed.
Lemma fold_res_lift {A} (step : st -> A -> st) l : forall s, fold_res (fun s x => inr (step s x)) l s = inr (fold_left step l s).
Proof. induction l as [|x l IH]; intros s; [reflexivity|]. cbn [fold_res fold_left]. apply IH. Qed.
Lemma fold_reg_and {A} (step : st -> A -> st) (r1 r2 : st -> A -> bool) l : forall s,
  fold_reg step r1 l s = true -> fold_reg step r2 l s = true -> fold_reg step (fun s x => r1 s x && r2 s x) l s = true.
Proof.
  induction l as [|x l IH]; intros s H1 H2; [reflexivity|]. cbn [fold_reg] in *.
  apply andb_true_iff in H1 as [A1 B1]. apply andb_true_iff in H2 as [A2 B2]. rewrite A1, A2. cbn [andb]. apply IH; assumption.
Qed.
(* a run that ends in an exception met an irregular step *)
Lemma fold_res_raises {A} (f : st -> A -> res st) (step : st -> A -> st) (reg : st -> A -> bool) :
  (forall s x, reg s x = true -> f s x = inr (step s x)) ->
  forall l s e, fold_res f l s = inl e -> fold_reg step reg l s = false.
Proof.
  intros H l s e E. destruct (fold_reg step reg l s) eqn:R; [|reflexivity].
  rewrite (fold_res_reg f step reg H l s R) in E. discriminate E.
Qed.

Section Sound.
Variable conv : ty -> value -> option value.
Variable ro : list (path * value) -> list (path * value).
Variable ao : list (path * option value) -> list (path * option value).

Lemma do_item_added_f_reg sort ins l s : added_reg ao sort ins l s = true ->
  do_item_added_f ao sort ins l s = inr (do_item_added ao sort ins l s).
Proof.
  unfold added_reg, do_item_added_f, do_item_added_w, do_item_added. intros H.
  apply (fold_res_reg _ _ (fun s pv => add_reg ins s (fst pv))); [|exact H].
  intros s0 x R. apply add_one_f_reg. exact R.
Qed.

Lemma do_item_added_f_noins sort l s :
  do_item_added_f ao sort false l s = inr (do_item_added ao sort false l s).
Proof.
  apply do_item_added_f_reg. unfold added_reg. generalize (if sort then ao l else l). intros l0. revert s.
  induction l0 as [|x l0 IH]; intros s; [reflexivity|]. cbn [fold_reg]. rewrite IH. reflexivity.
Qed.

Lemma do_iterable_item_added_f_reg d s : iterable_added_reg ao d s = true ->
  do_iterable_item_added_f ao d s = inr (do_iterable_item_added ao d s).
Proof.
  unfold iterable_added_reg, do_iterable_item_added_f, do_iterable_item_added_w, do_iterable_item_added. cbv zeta.
  set (added := (map (fun pv => (fst pv, Some (snd pv))) (d_iadd d) ++ map (fun m => (snd (fst m), None)) (d_moved d))%list).
  intros H.
  destruct added as [|a0 added'].
  - cbn [rbind]. destruct (d_moved d) as [|m0 ms]; [reflexivity|]. apply (do_item_added_f_noins true).
  - pose proof (do_item_added_f_reg true true (a0 :: added') s H) as E1. unfold do_item_added_f in E1. rewrite E1. cbn [rbind].
    destruct (d_moved d) as [|m0 ms]; [reflexivity|]. apply (do_item_added_f_noins true).
Qed.

(* (i) the faithful run (insertion refined) completes and is DeltaModel's on every insert-regular run *)
Theorem apply_f_sound d v : insert_regular conv ro ao d v = true ->
  apply_f conv ro ao d v = inr (apply conv ro ao d v).
Proof.
  intros H. unfold apply_f, apply_w, apply. cbv zeta.
  set (s5 := do_opcodes (d_ops d) _).
  assert (E6 : do_iterable_item_removed_w ro lift_rem (d_bidir d) d s5 = inr (do_iterable_item_removed ro (d_bidir d) d s5)).
  { unfold do_iterable_item_removed_w, do_item_removed_w, do_iterable_item_removed, do_item_removed, lift_rem. apply fold_res_lift. }
  rewrite E6. cbn [rbind].
  assert (E7 : do_iterable_item_added_w ao add_one_f d (do_iterable_item_removed ro (d_bidir d) d s5)
               = inr (do_iterable_item_added ao d (do_iterable_item_removed ro (d_bidir d) d s5))).
  { apply (do_iterable_item_added_f_reg d _ H). }
  rewrite E7. cbn [rbind].
  pose proof (do_item_added_f_noins false) as E8. unfold do_item_added_f in E8. rewrite E8. cbn [rbind].
  assert (E9 : forall s, do_item_removed_w ro lift_rem (d_bidir d) (d_drem d) s = inr (do_item_removed ro (d_bidir d) (d_drem d) s)).
  { intros s. unfold do_item_removed_w, do_item_removed, lift_rem. apply fold_res_lift. }
  rewrite E9. cbn [rbind].
  assert (E10 : forall s, do_post_w lift_post s = inr (do_post s)).
  { intros s. unfold do_post_w, do_post, lift_post. apply (fold_res_lift post_one). }
  rewrite E10. reflexivity.
Qed.

(* conversely: a result of the faithful run on an insert-regular run is DeltaModel's result, and an exception
   means that the run is not insert-regular *)
Corollary apply_f_complete d v r : insert_regular conv ro ao d v = true ->
  apply_f conv ro ao d v = inr r -> r = apply conv ro ao d v.
Proof. intros H E. rewrite (apply_f_sound d v H) in E. inversion E. reflexivity. Qed.
Corollary apply_f_raises d v e : apply_f conv ro ao d v = inl e -> insert_regular conv ro ao d v = false.
Proof. intros E. destruct (insert_regular conv ro ao d v) eqn:H; [|reflexivity]. rewrite (apply_f_sound d v H) in E. discriminate E. Qed.

(* (ii) static: nothing is added to an iterable *)
Theorem insert_regular_no_iterable_added d v : d_iadd d = [] -> d_moved d = [] -> insert_regular conv ro ao d v = true.
Proof. intros H1 H2. unfold insert_regular, iterable_added_reg. rewrite H1, H2. reflexivity. Qed.
Corollary apply_f_no_iterable_added d v : d_iadd d = [] -> d_moved d = [] ->
  apply_f conv ro ao d v = inr (apply conv ro ao d v).
Proof. intros H1 H2. apply apply_f_sound. apply insert_regular_no_iterable_added; assumption. Qed.

(* ---- exact characterisation when the added paths end in non-negative ints (every delta of a diff) ---- *)
Lemma add_one_f_irregular s p v : add_reg true s p = false -> ends_nonneg p = true ->
  exists e, add_one_f true s p v = inl e.
Proof.
  unfold add_reg, ends_nonneg, add_one_f, add_one_g. cbn [negb orb]. destruct p as [|k0 p0]; [intros _ _; eexists; reflexivity|].
  set (op := removelast (k0 :: p0)). set (k := key_atom (last (k0 :: p0) (PIdx 0))).
  destruct (resolve (root s) op) as [obj|]; [|intros H; discriminate H]. intros H NN.
  apply orb_false_iff in H as [H1 H2]. rewrite NN, andb_true_r in H1.
  destruct (py_len obj) as [n|]; [|eexists; reflexivity].
  destruct (elem_lt k n) as [b|]; [|eexists; reflexivity]. destruct b; [|discriminate H2].
  destruct obj; try discriminate H1; eexists; reflexivity.
Qed.

Lemma fold_res_irregular {A} (f : st -> A -> res st) (step : st -> A -> st) (reg : st -> A -> bool) (Q : A -> Prop) :
  (forall s x, reg s x = true -> f s x = inr (step s x)) ->
  (forall s x, Q x -> reg s x = false -> exists e, f s x = inl e) ->
  forall l s, (forall x, In x l -> Q x) -> fold_reg step reg l s = false -> exists e, fold_res f l s = inl e.
Proof.
  intros H1 H2 l. induction l as [|x l IH]; intros s HQ R; [discriminate R|].
  cbn [fold_reg] in R. cbn [fold_res]. destruct (reg s x) eqn:Rx.
  - rewrite (H1 s x Rx). cbn [andb] in R. apply IH; [|exact R]. intros y Hy. apply HQ. right. exact Hy.
  - destruct (H2 s x (HQ x (or_introl eq_refl)) Rx) as [e E]. rewrite E. exists e. reflexivity.
Qed.

(* on such a delta the faithful run raises exactly when DeltaModel's run is not insert-regular; [ao] visits only
   items it was given (it is a sort) *)
Theorem apply_f_raises_iff d v : nonneg_paths d = true -> (forall x, In x (ao (added_items d)) -> In x (added_items d)) ->
  ((exists e, apply_f conv ro ao d v = inl e) <-> insert_regular conv ro ao d v = false).
Proof.
  intros NN Hao. split; [intros [e E]; apply (apply_f_raises d v e E)|].
  unfold added_items in Hao.
  intros H. unfold apply_f, apply_w. cbv zeta.
  unfold insert_regular, iterable_added_reg, state6, state5 in H. cbv zeta in H.
  set (s5 := do_opcodes (d_ops d) _) in *.
  assert (E6 : do_iterable_item_removed_w ro lift_rem (d_bidir d) d s5 = inr (do_iterable_item_removed ro (d_bidir d) d s5)).
  { unfold do_iterable_item_removed_w, do_item_removed_w, do_iterable_item_removed, do_item_removed, lift_rem. apply fold_res_lift. }
  rewrite E6. cbn [rbind]. set (s6 := do_iterable_item_removed ro (d_bidir d) d s5) in *.
  unfold do_iterable_item_added_w. cbv zeta.
  set (added := (map (fun pv => (fst pv, Some (snd pv))) (d_iadd d) ++ map (fun m => (snd (fst m), None)) (d_moved d))%list) in *.
  assert (QA : forall x, In x added -> ends_nonneg (fst x) = true).
  { intros x Hx. unfold added in Hx. unfold nonneg_paths in NN. apply andb_true_iff in NN as [N1 N2].
    apply in_app_or in Hx as [Hx|Hx]; apply in_map_iff in Hx as (y & <- & Hy); cbn [fst].
    - eapply forallb_forall in N1; [|exact Hy]. exact N1.
    - eapply forallb_forall in N2; [|exact Hy]. exact N2. }
  destruct added as [|a0 added'] eqn:EA; [discriminate H|].
  unfold added_reg in H. unfold do_item_added_w.
  destruct (fold_res_irregular (fun s pv => add_one_f true s (fst pv) (snd pv)) (fun s pv => add_one true s (fst pv) (snd pv))
              (fun s pv => add_reg true s (fst pv)) (fun x => ends_nonneg (fst x) = true)
              (fun s x R => add_one_f_reg true s (fst x) (snd x) R)
              (fun s x Q R => add_one_f_irregular s (fst x) (snd x) R Q)
              (ao (a0 :: added')) s6 (fun x Hx => QA x (Hao x Hx)) H) as [e E].
  rewrite E. exists e. reflexivity.
Qed.

(* ---- the fully faithful run ---- *)
Lemma do_item_added_ff_reg sort ins l s : added_reg ao sort ins l s = true -> written_reg ao sort ins l s = true ->
  do_item_added_w ao add_one_ff sort ins l s = inr (do_item_added ao sort ins l s).
Proof.
  unfold added_reg, written_reg, do_item_added_w, do_item_added. intros H W.
  apply (fold_res_reg _ _ (fun s pv => add_reg ins s (fst pv) && write_reg s (fst pv))).
  - intros s0 x R. apply andb_true_iff in R as [R1 R2]. apply add_one_ff_reg; assumption.
  - apply (fold_reg_and _ (fun s pv => add_reg ins s (fst pv)) (fun s pv => write_reg s (fst pv))); assumption.
Qed.
Lemma added_reg_noins sort l s : added_reg ao sort false l s = true.
Proof.
  unfold added_reg. generalize (if sort then ao l else l). intros l0. revert s.
  induction l0 as [|x l0 IH]; intros s; [reflexivity|]. cbn [fold_reg]. rewrite IH. reflexivity.
Qed.

Theorem apply_ff_sound d v :
  insert_regular conv ro ao d v = true -> write_regular conv ro ao d v = true ->
  removal_regular conv ro ao d v = true -> post_regular conv ro ao d v = true ->
  apply_ff conv ro ao d v = inr (apply conv ro ao d v).
Proof.
  intros HI HW HR HP. unfold apply_ff, apply_w, apply. cbv zeta.
  unfold removal_regular, state8, state6, state5 in HR. apply andb_true_iff in HR as [HR6 HR9].
  unfold insert_regular, iterable_added_reg, state6, state5 in HI. cbv zeta in HI.
  unfold write_regular, state7a, added_items, state6, state5 in HW. apply andb_true_iff in HW as [HW HW8]. apply andb_true_iff in HW as [HW7 HW7b].
  unfold post_regular, state9, state8, state6, state5 in HP.
  set (s5 := do_opcodes (d_ops d) _) in *.
  assert (E6 : do_iterable_item_removed_w ro remove_one_f (d_bidir d) d s5 = inr (do_iterable_item_removed ro (d_bidir d) d s5)).
  { unfold do_iterable_item_removed_w, do_item_removed_w, do_iterable_item_removed, do_item_removed.
    apply (fold_res_reg _ _ (fun s pv => rem_reg s (fst pv) (snd pv))); [|exact HR6].
    intros s0 x R. apply remove_one_f_reg. exact R. }
  rewrite E6. cbn [rbind].
  set (s6 := do_iterable_item_removed ro (d_bidir d) d s5) in *.
  assert (E7 : do_iterable_item_added_w ao add_one_ff d s6 = inr (do_iterable_item_added ao d s6)).
  { unfold do_iterable_item_added_w, do_iterable_item_added. cbv zeta.
    set (added := (map (fun pv => (fst pv, Some (snd pv))) (d_iadd d) ++ map (fun m => (snd (fst m), None)) (d_moved d))%list) in *.
    destruct added as [|a0 added'].
    - cbn [rbind]. destruct (d_moved d) as [|m0 ms]; [reflexivity|]. apply do_item_added_ff_reg; [apply added_reg_noins|exact HW7b].
    - rewrite (do_item_added_ff_reg true true (a0 :: added') s6 HI HW7). cbn [rbind].
      destruct (d_moved d) as [|m0 ms]; [reflexivity|]. apply do_item_added_ff_reg; [apply added_reg_noins|exact HW7b]. }
  rewrite E7. cbn [rbind].
  rewrite (do_item_added_ff_reg false false _ _ (added_reg_noins false _ _) HW8). cbn [rbind].
  set (s8 := do_item_added ao false false _ (do_iterable_item_added ao d s6)) in *.
  assert (E9 : do_item_removed_w ro remove_one_f (d_bidir d) (d_drem d) s8 = inr (do_item_removed ro (d_bidir d) (d_drem d) s8)).
  { unfold do_item_removed_w, do_item_removed.
    apply (fold_res_reg _ _ (fun s pv => rem_reg s (fst pv) (snd pv))); [|exact HR9].
    intros s0 x R. apply remove_one_f_reg. exact R. }
  rewrite E9. cbn [rbind].
  set (s9 := do_item_removed ro (d_bidir d) (d_drem d) s8) in *.
  assert (E10 : do_post_w post_one_f s9 = inr (do_post s9)).
  { unfold do_post_w, do_post. apply (fold_res_reg post_one_f post_one (fun s p => post_reg s p)); [|exact HP].
    intros s0 x R. apply post_one_f_reg. exact R. }
  rewrite E10. reflexivity.
Qed.
End Sound.

(* ------------------------------------------------------------------ *)
(* (iv) witnesses: where the models differ, the faithful one is the code *)
(* ------------------------------------------------------------------ *)
From Coq Require Import String.
From DD Require Import Delta.DeltaChain Delta.DeltaExamples.
Local Open Scope string_scope.

Definition rt_f (hatom : atom -> pystr) ops c conv bidir always t1 t2 : res (value * nat) :=
  apply_f conv (@rev _) (fun l => l) (delta_of hatom (fun _ _ => []) ops c conv bidir always t1 t2) t1.
Definition rt_ff (hatom : atom -> pystr) ops c conv bidir always t1 t2 : res (value * nat) :=
  apply_ff conv (@rev _) (fun l => l) (delta_of hatom (fun _ _ => []) ops c conv bidir always t1 t2) t1.

(* (1,2) + Delta(DeepDiff((1,2),(1,7,2))): AttributeError 'tuple' object has no attribute 'insert';
   DeltaModel.apply answers ((1,7), no error) *)
Lemma tuple_insert_raises :
  rt_f hatom_ex f6_ops ex_cfg conv_none false false f6_t1 f6_t2 = inl EAttribute /\
  rt_ff hatom_ex f6_ops ex_cfg conv_none false false f6_t1 f6_t2 = inl EAttribute /\
  rt hatom_ex f6_ops ex_cfg conv_none false false f6_t1 f6_t2 = (VTuple [I 1; I 7], 0) /\
  insert_regular conv_none (@rev _) (fun l => l) (delta_of hatom_ex (fun _ _ => []) f6_ops ex_cfg conv_none false false f6_t1 f6_t2) f6_t1 = false.
Proof. vm_compute. repeat split; reflexivity. Qed.

(* (1,2) + Delta(DeepDiff((1,2),(1,2,3))) = (1,2,3): a trailing append never calls insert *)
Definition app_t2 : value := VTuple [I 1; I 2; I 3].
Definition app_ops := ops_tbl [([], [mkOp OEqual 0 2 0 2; mkOp OInsert 2 2 2 3])].
Lemma tuple_append_ok :
  rt_f hatom_ex app_ops ex_cfg conv_none false false f6_t1 app_t2 = inr (app_t2, 0) /\
  rt_ff hatom_ex app_ops ex_cfg conv_none false false f6_t1 app_t2 = inr (app_t2, 0) /\
  rt hatom_ex app_ops ex_cfg conv_none false false f6_t1 app_t2 = (app_t2, 0) /\
  insert_regular conv_none (@rev _) (fun l => l) (delta_of hatom_ex (fun _ _ => []) app_ops ex_cfg conv_none false false f6_t1 app_t2) f6_t1 = true /\
  d_iadd (delta_of hatom_ex (fun _ _ => []) app_ops ex_cfg conv_none false false f6_t1 app_t2) = [([PKey (AInt 2)], I 3)].
Proof. vm_compute. repeat split; reflexivity. Qed.

Definition free_delta (iadd irem : list (path * value)) (moved : list (path * path * value)) (dadd drem : list (path * value))
    (val : list vchange) : delta :=
  mkDelta val [] dadd drem iadd irem moved [] [] [] false.
Definition app_f d v := apply_f conv_none (@rev _) (fun l => l) d v.
Definition app_ff d v := apply_ff conv_none (@rev _) (fun l => l) d v.
Definition app_m d v := apply conv_none (@rev _) (fun l => l) d v.
Definition NoneV : value := VAtom ANone.

(* [1,2,3] + Delta({'iterable_item_added': {'root[-1]': 9}}) = [1, 2, None, 9]  (insert(-1, None), then obj[-1] = 9);
   DeltaModel.apply answers [1, 2, 9] *)
Lemma negative_index_insert :
  let d := free_delta [([PKey (AInt (-1))], I 9)] [] [] [] [] [] in
  let v := VList [I 1; I 2; I 3] in
  app_f d v = inr (VList [I 1; I 2; NoneV; I 9], 0) /\ app_ff d v = inr (VList [I 1; I 2; NoneV; I 9], 0) /\
  app_m d v = (VList [I 1; I 2; I 9], 0) /\ insert_regular conv_none (@rev _) (fun l => l) d v = false.
Proof. vm_compute. repeat split; reflexivity. Qed.

(* a move applied from a plain payload: [1,2,3,4] + Delta({'iterable_item_moved': {'root[0]': {'new_path': 'root[2]', 'value': 1}}})
   = [2, 3, 1, 4]: insert-regular, all three models agree *)
Lemma moved_regular :
  let d := free_delta [] [] [([PKey (AInt 0)], [PKey (AInt 2)], I 1)] [] [] [] in
  let v := VList [I 1; I 2; I 3; I 4] in
  insert_regular conv_none (@rev _) (fun l => l) d v = true /\
  app_f d v = inr (VList [I 2; I 3; I 1; I 4], 0) /\ app_ff d v = inr (VList [I 2; I 3; I 1; I 4], 0) /\
  app_m d v = (VList [I 2; I 3; I 1; I 4], 0).
Proof. vm_compute. repeat split; reflexivity. Qed.

(* No condition on the shape of the paths and the absence of tuples makes a run insert-regular:
   {'a': 1} + Delta({'iterable_item_added': {'root[0]': 9}}) raises AttributeError ('dict' object has no attribute 'insert'),
   [5] + Delta({'iterable_item_added': {'root[0][0]': 9}}) raises TypeError (object of type 'int' has no len());
   the paths end in a non-negative int and there is no tuple anywhere *)
Definition nsp_d1 : delta := free_delta [([PKey (AInt 0)], I 9)] [] [] [] [] [].          (* iterable_item_added root[0] = 9 *)
Definition nsp_v1 : value := VDict [(s "a", I 1)].                                          (* {'a': 1} *)
Definition nsp_r1 : value := VDict [(s "a", I 1); (AInt 0, I 9)].
Definition nsp_d2 : delta := free_delta [([PKey (AInt 0); PKey (AInt 0)], I 9)] [] [] [] [] [].   (* root[0][0] = 9 *)
Definition nsp_v2 : value := VList [I 5].                                                    (* [5] *)
Lemma no_static_path_condition :
  nonneg_paths nsp_d1 = true /\ app_f nsp_d1 nsp_v1 = inl EAttribute /\ app_m nsp_d1 nsp_v1 = (nsp_r1, 0) /\
  nonneg_paths nsp_d2 = true /\ app_f nsp_d2 nsp_v2 = inl EType /\ app_m nsp_d2 nsp_v2 = (nsp_v2, 1).
Proof. vm_compute. repeat split; reflexivity. Qed.

(* the fully faithful run: a write that fails on a tuple leaves the coercion behind -
   (1,2,3) + Delta({'dictionary_item_added': {'root[5]': 9}, 'dictionary_item_removed': {'root[0]': 3}}) = (1, 2), one error:
   the tuple is a list when the removal looks for the value 3; DeltaModel.apply deletes index 0 *)
Lemma failed_write_coerces :
  let d := free_delta [] [] [] [([PKey (AInt 5)], I 9)] [([PKey (AInt 0)], I 3)] [] in
  let v := VTuple [I 1; I 2; I 3] in
  app_ff d v = inr (VTuple [I 1; I 2], 1) /\ app_m d v = (VTuple [I 2; I 3], 1) /\
  write_regular conv_none (@rev _) (fun l => l) d v = false.
Proof. vm_compute. repeat split; reflexivity. Qed.

(* 'abc' + Delta({'iterable_item_removed': {'root[0]': 'a'}}): TypeError ('str' object doesn't support item deletion);
   [1,2,3] + Delta({'iterable_item_removed': {'root[0.5]': 2}}) = [1, 3] (the float distance search) *)
Lemma removal_irregular :
  app_ff (free_delta [] [([PKey (AInt 0)], Sv "a")] [] [] [] []) (Sv "abc") = inl EType /\
  app_m (free_delta [] [([PKey (AInt 0)], Sv "a")] [] [] [] []) (Sv "abc") = (Sv "abc", 1) /\
  app_ff (free_delta [] [([PKey (AHalf 1)], I 2)] [] [] [] []) (VList [I 1; I 2; I 3]) = inr (VList [I 1; I 3], 0) /\
  app_m (free_delta [] [([PKey (AHalf 1)], I 2)] [] [] [] []) (VList [I 1; I 2; I 3]) = (VList [I 1; I 2; I 3], 0).
Proof. vm_compute. repeat split; reflexivity. Qed.

(* {1: (1,2)} + Delta({'values_changed': {'root[1][0]': {'new_value': 9}}, 'dictionary_item_removed': {'root[1]': 5}}):
   TypeError (sequence item 1: expected str instance, int found) while post-processing the vanished tuple;
   [(1,2)] + Delta({'values_changed': {'root[0][0]': {'new_value': 9}}, 'dictionary_item_added': {'root[0]': {'a': 1, 'b': 2}}})
   = [('a', 'b')]: tuple(dict) *)
Lemma post_irregular :
  app_ff (free_delta [] [] [] [] [([PKey (AInt 1)], I 5)] [mkVC [PKey (AInt 1); PKey (AInt 0)] None None (I 9)])
         (VDict [(AInt 1, VTuple [I 1; I 2])]) = inl EType /\
  app_m (free_delta [] [] [] [] [([PKey (AInt 1)], I 5)] [mkVC [PKey (AInt 1); PKey (AInt 0)] None None (I 9)])
        (VDict [(AInt 1, VTuple [I 1; I 2])]) = (VDict [], 1) /\
  app_ff (free_delta [] [] [] [([PKey (AInt 0)], VDict [(s "a", I 1); (s "b", I 2)])] [] [mkVC [PKey (AInt 0); PKey (AInt 0)] None None (I 9)])
         (VList [VTuple [I 1; I 2]]) = inr (VList [VTuple [Sv "a"; Sv "b"]], 0) /\
  app_m (free_delta [] [] [] [([PKey (AInt 0)], VDict [(s "a", I 1); (s "b", I 2)])] [] [mkVC [PKey (AInt 0); PKey (AInt 0)] None None (I 9)])
        (VList [VTuple [I 1; I 2]]) = (VList [VDict [(s "a", I 1); (s "b", I 2)]], 1).
Proof. vm_compute. repeat split; reflexivity. Qed.

(* the four regularity guards of apply_ff_sound hold together on a delta that uses every refined pass *)
Lemma regular_example :
  let d := free_delta [([PKey (AInt 1)], I 9)] [([PKey (AInt (-1))], I 4)] [([PKey (AInt 0)], [PKey (AInt 2)], I 1)]
                      [([PKey (AInt 0); PKey (AInt 2)], I 8)] [] [mkVC [PKey (AInt 0); PKey (AInt 0)] None None (I 7)] in
  let v := VList [VTuple [I 5; I 6]; I 2; I 3; I 4] in
  insert_regular conv_none (@rev _) (fun l => l) d v = true /\ write_regular conv_none (@rev _) (fun l => l) d v = true /\
  removal_regular conv_none (@rev _) (fun l => l) d v = true /\ post_regular conv_none (@rev _) (fun l => l) d v = true /\
  app_ff d v = inr (app_m d v).
Proof. vm_compute. repeat split; reflexivity. Qed.

(** C08: the witness for the role of [korder] (see NOTES_C08.md). *)
From Coq Require Import List ZArith NArith Bool Arith String Lia.
Import ListNotations.
From DD Require Import Base.PyStr Base.Value Path.PathModel Diff.Tree Diff.DiffModel Diff.DiffShow
  Delta.DeltaModel Delta.DeltaGuard Delta.DeltaChain Delta.DeltaVerify Delta.DeltaReverse Delta.DeltaReverseKinds Delta.DeltaReverseSym
  Delta.DeltaVerifyHyp Delta.DeltaVerifyEx Delta.DeltaVerifyEx2.
Local Open Scope string_scope.

(* ---- korder: {'a':1,'b':2} -> {'b':20,'a':10} (the common keys in another order) ---- *)
Definition kx_t1 : value := VDict [(K "a", I 1); (K "b", I 2)].
Definition kx_t2 : value := VDict [(K "b", I 20); (K "a", I 10)].
Definition kx_d : delta := mk_d ex_cfg ex_ops kx_t1 kx_t2.
Definition kx_f := fst (diff hatom_simple (fun _ _ => []) ex_ops DeltaReverseSym.nos DeltaReverseSym.nos ex_cfg kx_t1 kx_t2 [] []).
Definition kx_r := fst (diff hatom_simple (fun _ _ => []) ex_ops DeltaReverseSym.nos DeltaReverseSym.nos ex_cfg kx_t2 kx_t1 [] []).

(* all other guards hold; the diff symmetry FAILS (the reverse tree lists root['b'] first, the mirrored forward tree
   root['a']); the model lists the forward entries in t1's key order; and yet t2 - d is t1 and t1 + d is t2,
   up to order, without error: korder is a guard of the symmetry LEMMA, not of the inversion statement *)
Example kx_witness :
  korderb kx_t1 kx_t2 = false /\
  guardsb ex_cfg true false kx_t2 kx_t1 = true /\ guardsb ex_cfg true false kx_t1 kx_t2 = true /\
  ~ keq kx_r (map mirror_entry kx_f) /\
  map vc_path (d_val kx_d) = [[PKey (K "a")]; [PKey (K "b")]] /\
  (exists r, ex_sub kx_d kx_t2 = Some (r, 0) /\ veqb r kx_t1 = true) /\
  (exists r, ex_apply kx_d kx_t1 = (r, 0) /\ veqb r kx_t2 = true).
Proof.
  split; [vm_compute; reflexivity|]. split; [vm_compute; reflexivity|]. split; [vm_compute; reflexivity|].
  split.
  - intros H. specialize (H KValue). vm_compute in H. discriminate H.
  - split; [vm_compute; reflexivity|]. split; eexists; split; vm_compute; reflexivity.
Qed.

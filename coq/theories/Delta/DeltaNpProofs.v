(** Proofs about the numpy Delta model (Delta/DeltaNp.v), property C01 "numpy arrays edited
    in place".  Main statements, for ALL well-formed arrays (NpModel.nwf: >= 1 dimension, any
    number of dimensions, any axis lengths, typed elements), every difflib oracle [ops], both
    [zip] modes, directed and bidirectional deltas:

      np_patch        delta(a, b) + c, for any base c of the shape and dtype of a and b, is c
                      with exactly the positions where a and b differ overwritten by b's
                      elements; a bidirectional delta logs one error per overwritten position
                      where c differs from a, a directed one logs nothing
      np_roundtrip    delta(a, b) + a = (b, 0)           (b as an array: dtype, shape, data)
      np_delta_in_model   the diff of such a pair is representable; _numpy_paths = b's dtype
      apply_np_nwf    ANY payload on a well-formed array gives a well-formed array of the same
                      dtype and shape (errors are logged, nothing is ever resized or retyped)
      apply_np_errors_bound   at most 2 errors per payload entry
      np_delta_idempotent     applying the directed delta a second time changes nothing
    and the witnesses [np_roundtrip_other_base_refuted], [np_roundtrip_other_shape_refuted],
    [np_roundtrip_untyped_refuted], [np_dtype_change_outside_model].

    That the operand of + is not modified is trivial here (apply_np is a function of its
    arguments); it is checked dynamically by harness/c01np.py (deepcopy in Delta.__add__).

    The only facts taken from the diff side are the pointwise characterisation
    NpProofs.np_same_shape_is_pointwise (+ indices_count / indices_length / nwf_inv /
    dt_ok_py_eq), used in the bridging section "diff side" below. *)
From Coq Require Import List ZArith NArith Bool Arith Lia.
Import ListNotations.
From DD Require Import Base.PyStr Base.Value Path.PathModel Diff.Tree Diff.DiffModel
  Diff.NpModel Diff.NpProofs Delta.DeltaNp.

(* ------------------------------------------------------------------ *)
(** * Lists *)

Lemma dnp_flat_map_flat_map {A B C} (f : A -> list B) (g : B -> list C) l :
  flat_map g (flat_map f l) = flat_map (fun x => flat_map g (f x)) l.
Proof. induction l as [|x l IH]; cbn; [reflexivity|]. rewrite flat_map_app, IH. reflexivity. Qed.

Lemma dnp_map_flat_map {A B C} (f : A -> list B) (g : B -> C) l :
  map g (flat_map f l) = flat_map (fun x => map g (f x)) l.
Proof. induction l as [|x l IH]; cbn; [reflexivity|]. rewrite map_app, IH. reflexivity. Qed.

Lemma dnp_flat_map_ext_in {A B} (f g : A -> list B) l :
  (forall x, In x l -> f x = g x) -> flat_map f l = flat_map g l.
Proof.
  induction l as [|x l IH]; intros H; cbn; [reflexivity|].
  rewrite (H x (or_introl eq_refl)), IH; [reflexivity|]. intros y Hy. apply H. right. exact Hy.
Qed.

Lemma dnp_seq_shift a m : seq a m = map (fun k => a + k) (seq 0 m).
Proof.
  revert a. induction m as [|m IH]; intros a; [reflexivity|].
  cbn [seq map]. f_equal; [lia|]. rewrite <- (seq_shift m 0), map_map, (IH (S a)).
  apply map_ext. intros k. lia.
Qed.

(* n consecutive blocks of m offsets are the offsets below n * m *)
Lemma dnp_blocks {B} (f : nat -> B) m n : forall s,
  flat_map (fun i => map (fun k => f (i * m + k)) (seq 0 m)) (seq s n) = map f (seq (s * m) (n * m)).
Proof.
  induction n as [|n IH]; intros s; [reflexivity|].
  cbn [seq flat_map]. rewrite (IH (S s)).
  replace (S n * m) with (m + n * m) by lia. rewrite seq_app, map_app. f_equal.
  - rewrite (dnp_seq_shift (s * m) m), map_map. reflexivity.
  - f_equal. f_equal. lia.
Qed.

Lemma dnp_forallb_firstn {A} (P : A -> bool) n : forall l, forallb P l = true -> forallb P (firstn n l) = true.
Proof.
  induction n as [|n IH]; intros [|x l] H; cbn; try reflexivity.
  cbn in H. apply andb_true_iff in H as [Hx Hl]. rewrite Hx, (IH l Hl). reflexivity.
Qed.
Lemma dnp_forallb_skipn {A} (P : A -> bool) n : forall l, forallb P l = true -> forallb P (skipn n l) = true.
Proof.
  induction n as [|n IH]; intros [|x l] H; cbn; try reflexivity; [exact H|].
  cbn in H. apply andb_true_iff in H as [_ Hl]. exact (IH l Hl).
Qed.
Lemma dnp_forallb_repeat {A} (P : A -> bool) v n : P v = true -> forallb P (repeat v n) = true.
Proof. intros H. induction n as [|n IH]; cbn; [reflexivity|]. rewrite H, IH. reflexivity. Qed.

(* ------------------------------------------------------------------ *)
(** * [locate]: the k-th multi-index of a shape addresses the k-th element *)

Lemma locate_indices sh : forall off,
  map (fun idx => locate sh idx off) (indices sh) = map (fun k => Some (off + k, 1)) (seq 0 (prod sh)).
Proof.
  induction sh as [|n r IH]; intros off.
  - cbn. rewrite Nat.add_0_r. reflexivity.
  - cbn [indices]. rewrite dnp_map_flat_map.
    transitivity (flat_map (fun i => map (fun k => Some (off + (i * prod r + k), 1)) (seq 0 (prod r))) (seq 0 n)).
    + apply dnp_flat_map_ext_in. intros i Hi. apply in_seq in Hi. rewrite map_map. cbn [locate].
      destruct (Nat.ltb_spec i n) as [_|Hge]; [|lia].
      rewrite (IH (off + i * prod r)). apply map_ext. intros k. do 2 f_equal. lia.
    + rewrite (dnp_blocks (fun j => Some (off + j, 1)) (prod r) n 0). reflexivity.
Qed.

Lemma locate_nth sh k idx : nth_error (indices sh) k = Some idx -> locate sh idx 0 = Some (k, 1).
Proof.
  intros H.
  assert (Hk : k < prod sh).
  { rewrite <- indices_count. apply nth_error_Some. congruence. }
  pose proof (map_nth_error (fun i => locate sh i 0) k (indices sh) H) as M.
  rewrite locate_indices in M.
  assert (S : nth_error (seq 0 (prod sh)) k = Some k).
  { rewrite (nth_error_nth' _ 0) by (rewrite seq_length; exact Hk). rewrite seq_nth by exact Hk. reflexivity. }
  rewrite (map_nth_error (fun j => Some (0 + j, 1)) k (seq 0 (prod sh)) S) in M.
  cbn in M. congruence.
Qed.

(* the addressed block lies inside the array *)
Lemma locate_bound p : forall sh off0 off len,
  locate sh p off0 = Some (off, len) -> off0 <= off /\ off + len <= off0 + prod sh.
Proof.
  induction p as [|i p IH]; intros sh off0 off len H; cbn [locate] in H.
  - injection H as <- <-. lia.
  - destruct sh as [|n sh']; [discriminate|].
    destruct (Nat.ltb i n) eqn:Hi; [|discriminate]. apply Nat.ltb_lt in Hi.
    apply IH in H as [H1 H2]. rewrite prod_cons. nia.
Qed.

(* ------------------------------------------------------------------ *)
(** * [fill] and [np_cast] *)

Lemma fill_length l off len v : off + len <= length l -> length (fill l off len v) = length l.
Proof. intros H. unfold fill. rewrite !app_length, firstn_length, repeat_length, skipn_length. lia. Qed.

Lemma fill_typed d l off len v :
  forallb (dt_ok d) l = true -> dt_ok d v = true -> forallb (dt_ok d) (fill l off len v) = true.
Proof.
  intros Hl Hv. unfold fill. rewrite !forallb_app.
  rewrite dnp_forallb_firstn, dnp_forallb_repeat, dnp_forallb_skipn by assumption. reflexivity.
Qed.

(* writing one element in the middle *)
Lemma fill_mid (r : list atom) z t y : fill (r ++ z :: t) (length r) 1 y = r ++ y :: t.
Proof.
  unfold fill. rewrite firstn_app, Nat.sub_diag, firstn_all. cbn [firstn]. rewrite app_nil_r.
  rewrite skipn_app, skipn_all2 by lia.
  replace (length r + 1 - length r) with 1 by lia. reflexivity.
Qed.

(* numpy never stores anything but an element of the dtype *)
Lemma np_cast_typed d v w : np_cast d v = Some w -> dt_ok d w = true.
Proof. destruct d, v; cbn; intros H; try discriminate; injection H as <-; reflexivity. Qed.

(* no cast inside one dtype *)
Lemma np_cast_same d v : dt_ok d v = true -> np_cast d v = Some v.
Proof. destruct d, v; cbn; intros H; try discriminate; reflexivity. Qed.

(* inside one dtype Python's == is identity, and it is reflexive *)
Lemma typed_py_eq d x y : dt_ok d x = true -> dt_ok d y = true -> py_eq x y = true -> x = y.
Proof. exact (dt_ok_py_eq d x y). Qed.
Lemma typed_py_eq_refl d x : dt_ok d x = true -> py_eq x x = true.
Proof. destruct d, x; cbn; intros H; try discriminate; unfold py_eq; cbn; apply Z.eqb_refl. Qed.

(* ------------------------------------------------------------------ *)
(** * Every payload: the array keeps dtype, shape and well-formedness *)

Lemma apply_one_keeps bidir a c : nwf a = true ->
  let r := fst (apply_one bidir a c) in nwf r = true /\ dtype r = dtype a /\ shape r = shape a.
Proof.
  intros W. cbn zeta. unfold apply_one.
  destruct (locate (shape a) (nc_path c) 0) as [[off len]|] eqn:L; [|cbn; auto].
  destruct (np_cast (dtype a) (nc_new c)) as [v|] eqn:C; [|cbn; auto].
  cbn [fst dtype shape]. split; [|split; reflexivity].
  apply nwf_inv in W as (Sh & Len & Ty).
  apply locate_bound in L as [_ L]. cbn in L. unfold size in Len.
  unfold nwf. cbn [shape data dtype]. unfold size. cbn [shape].
  rewrite fill_length by lia. rewrite Len, Nat.eqb_refl.
  rewrite (fill_typed _ _ _ _ _ Ty (np_cast_typed _ _ _ C)).
  destruct (shape a); [contradiction|reflexivity].
Qed.

Lemma apply_one_errors bidir a c : snd (apply_one bidir a c) <= 2.
Proof.
  unfold apply_one. destruct (locate _ _ _) as [[off len]|]; [|cbn; lia].
  assert (V : forall o x, verify_errs bidir o x <= 1).
  { intros o x. unfold verify_errs. destruct bidir; [|lia]. destruct o as [o|]; [|lia]. destruct (py_eq o x); lia. }
  destruct (np_cast _ _); cbn [snd]; specialize (V (nc_old c) (nth off (data a) ANone)); lia.
Qed.

Lemma apply_fold_keeps bidir cs : forall a e, nwf a = true ->
  let r := fold_left (apply_step bidir) cs (a, e) in
  nwf (fst r) = true /\ dtype (fst r) = dtype a /\ shape (fst r) = shape a /\ snd r <= e + 2 * length cs.
Proof.
  induction cs as [|c cs IH]; intros a e W; cbn zeta.
  - cbn. repeat split; try assumption; lia.
  - cbn [fold_left].
    change (apply_step bidir (a, e) c) with (fst (apply_one bidir a c), e + snd (apply_one bidir a c)).
    destruct (apply_one_keeps bidir a c W) as (W' & D' & S').
    pose proof (apply_one_errors bidir a c) as E'.
    destruct (IH (fst (apply_one bidir a c)) (e + snd (apply_one bidir a c)) W') as (W'' & D'' & S'' & E'').
    repeat split; try assumption; try congruence. cbn [length]. lia.
Qed.

Theorem apply_np_nwf bidir p a : nwf a = true ->
  nwf (fst (apply_np bidir p a)) = true /\
  dtype (fst (apply_np bidir p a)) = dtype a /\ shape (fst (apply_np bidir p a)) = shape a.
Proof.
  intros W. destruct (apply_fold_keeps bidir (nd_changes p) a 0 W) as (H1 & H2 & H3 & _). auto.
Qed.

Theorem apply_np_errors_bound bidir p a : nwf a = true ->
  snd (apply_np bidir p a) <= 2 * length (nd_changes p).
Proof.
  intros W. destruct (apply_fold_keeps bidir (nd_changes p) a 0 W) as (_ & _ & _ & H). exact H.
Qed.

(* ------------------------------------------------------------------ *)
(** * The specification of delta(a, b) + c *)

(* c with the positions where a and b differ overwritten by b's elements *)
Fixpoint merge3 (xs ys zs : list atom) : list atom :=
  match xs, ys, zs with
  | x :: xs', y :: ys', z :: zs' => (if py_eq x y then z else y) :: merge3 xs' ys' zs'
  | _, _, _ => []
  end.
(* the overwritten positions where c differs from a: what a bidirectional delta complains about *)
Fixpoint stale (xs ys zs : list atom) : nat :=
  match xs, ys, zs with
  | x :: xs', y :: ys', z :: zs' =>
      (if py_eq x y then 0 else if py_eq x z then 0 else 1) + stale xs' ys' zs'
  | _, _, _ => 0
  end.

Lemma merge3_self d xs : forall ys, length xs = length ys ->
  forallb (dt_ok d) xs = true -> forallb (dt_ok d) ys = true -> merge3 xs ys xs = ys.
Proof.
  induction xs as [|x xs IH]; intros [|y ys] L Tx Ty; cbn in L; try discriminate; [reflexivity|].
  cbn in Tx, Ty. apply andb_true_iff in Tx as [Tx Txs], Ty as [Ty Tys]. cbn [merge3].
  rewrite (IH ys) by (assumption || lia). destruct (py_eq x y) eqn:E; [|reflexivity].
  rewrite (typed_py_eq d x y Tx Ty E). reflexivity.
Qed.

Lemma merge3_same xs : forall ys, length xs = length ys -> merge3 xs ys ys = ys.
Proof.
  induction xs as [|x xs IH]; intros [|y ys] L; cbn in L; try discriminate; [reflexivity|].
  cbn [merge3]. rewrite (IH ys) by lia. destruct (py_eq x y); reflexivity.
Qed.

Lemma stale_self d xs : forall ys, forallb (dt_ok d) xs = true -> stale xs ys xs = 0.
Proof.
  induction xs as [|x xs IH]; intros [|y ys] Tx; try reflexivity.
  cbn in Tx. apply andb_true_iff in Tx as [Tx Txs]. cbn [stale].
  rewrite (typed_py_eq_refl d x Tx), (IH ys Txs). destruct (py_eq x y); reflexivity.
Qed.

(* the payload entries of the pointwise specification *)
Definition chg (bidir : bool) (c : list nat * (atom * atom)) : list npchange :=
  if py_eq (fst (snd c)) (snd (snd c)) then []
  else [mkNC (fst c) (snd (snd c)) (if bidir then Some (fst (snd c)) else None)].

(* the main induction: the entries of the multi-indexes I2 (a suffix of the enumeration)
   rewrite the corresponding suffix of the data, one element per entry *)
Lemma apply_suffix bidir d sh : forall I2 I1 r1 a2 b2 c2 e,
  indices sh = I1 ++ I2 -> length r1 = length I1 ->
  length a2 = length I2 -> length b2 = length I2 -> length c2 = length I2 ->
  forallb (dt_ok d) b2 = true ->
  fold_left (apply_step bidir) (flat_map (chg bidir) (combine I2 (combine a2 b2))) (mkArr d sh (r1 ++ c2), e)
  = (mkArr d sh (r1 ++ merge3 a2 b2 c2), e + (if bidir then stale a2 b2 c2 else 0)).
Proof.
  induction I2 as [|idx I2 IH]; intros I1 r1 a2 b2 c2 e HI Lr La Lb Lc Tb.
  - destruct a2, b2, c2; try discriminate. cbn. f_equal. destruct bidir; lia.
  - destruct a2 as [|x a2], b2 as [|y b2], c2 as [|z c2]; try discriminate.
    cbn in La, Lb, Lc, Tb. apply andb_true_iff in Tb as [Ty Tb].
    assert (HI' : indices sh = (I1 ++ [idx]) ++ I2) by (rewrite <- app_assoc; exact HI).
    assert (Lr' : forall w, length (r1 ++ [w]) = length (I1 ++ [idx])) by (intros w; rewrite !app_length; cbn; lia).
    cbn [combine flat_map merge3 stale]. unfold chg at 1. cbn [fst snd].
    destruct (py_eq x y) eqn:E.
    + cbn [app]. replace (r1 ++ z :: c2) with ((r1 ++ [z]) ++ c2) by (rewrite <- app_assoc; reflexivity).
      rewrite (IH (I1 ++ [idx]) (r1 ++ [z]) a2 b2 c2 e HI' (Lr' z)) by (assumption || lia).
      rewrite <- app_assoc. reflexivity.
    + cbn [app fold_left].
      match goal with |- context [apply_step bidir (?st, e) ?ch] =>
        change (apply_step bidir (st, e) ch) with (fst (apply_one bidir st ch), e + snd (apply_one bidir st ch)) end.
      unfold apply_one. cbn [shape dtype data nc_path nc_new nc_old].
      assert (Loc : locate sh idx 0 = Some (length r1, 1)).
      { apply locate_nth. rewrite HI, Lr, nth_error_app2, Nat.sub_diag by lia. reflexivity. }
      rewrite Loc, (np_cast_same d y Ty). cbn [fst snd]. rewrite fill_mid.
      rewrite app_nth2, Nat.sub_diag by lia. cbn [nth].
      replace (r1 ++ y :: c2) with ((r1 ++ [y]) ++ c2) by (rewrite <- app_assoc; reflexivity).
      rewrite (IH (I1 ++ [idx]) (r1 ++ [y]) a2 b2 c2 _ HI' (Lr' y)) by (assumption || lia).
      rewrite <- app_assoc. cbn [app]. f_equal.
      unfold verify_errs. destruct bidir; [|lia]. destruct (py_eq x z); lia.
Qed.

(* ------------------------------------------------------------------ *)
(** * Diff side: the payload of a same-shape pair *)

Lemma idx_of_idx_path idx : idx <> [] -> idx_of_path (idx_path idx) = Some idx.
Proof.
  destruct idx as [|i [|j r]]; intros H; [congruence|reflexivity|].
  unfold idx_path, tpath. cbn [idx_of_path idx_of_key]. rewrite app_nil_r.
  rewrite <- app_removelast_last by discriminate. reflexivity.
Qed.

Lemma npath_eqb_refl_idx idx : npath_eqb (idx_path idx) (idx_path idx) = true.
Proof.
  destruct idx as [|i [|j r]]; [reflexivity| |]; cbn [idx_path tpath npath_eqb npkey_eqb pkey_eqb].
  - rewrite Nat.eqb_refl. reflexivity.
  - rewrite shape_eqb_refl, Nat.eqb_refl. reflexivity.
Qed.

Lemma np_changes_spec bidir a b : shape a <> [] ->
  np_changes bidir (np_spec a b) = flat_map (chg bidir) (combine (indices (shape a)) (combine (data a) (data b))).
Proof.
  intros Sh. unfold np_changes, np_spec. rewrite dnp_flat_map_flat_map.
  apply dnp_flat_map_ext_in. intros [idx [x y]] Hin. apply in_combine_l in Hin.
  assert (Hn : idx <> []).
  { apply indices_length in Hin. destruct idx; [|discriminate]. destruct (shape a); [congruence|discriminate]. }
  unfold chg. cbn [fst snd]. destruct (py_eq x y); [reflexivity|].
  cbn [flat_map]. unfold change_of. cbn [nkind np1 nt1 nt2]. rewrite (idx_of_idx_path idx Hn). reflexivity.
Qed.

Lemma np_in_model_spec a b : shape a <> [] -> np_in_model (np_spec a b) = true.
Proof.
  intros Sh. unfold np_in_model, np_spec. apply forallb_forall. intros e He.
  apply in_flat_map in He as ([idx [x y]] & Hin & He). apply in_combine_l in Hin.
  assert (Hn : idx <> []).
  { apply indices_length in Hin. destruct idx; [|discriminate]. destruct (shape a); [congruence|discriminate]. }
  cbn [fst snd] in He. destruct (py_eq x y); [destruct He|]. destruct He as [<-|[]].
  unfold change_of. cbn [nkind np1 np2 nt1 nt2]. rewrite (idx_of_idx_path idx Hn). apply npath_eqb_refl_idx.
Qed.

(* ------------------------------------------------------------------ *)
(** * Main theorems *)

Section Main.
Variable ops : path -> list value -> list value -> list opcode.
Variable zip : bool.

(* the diff of two arrays of one shape and dtype is representable as a numpy delta *)
Theorem np_delta_in_model a b :
  nwf a = true -> nwf b = true -> dtype a = dtype b -> shape a = shape b ->
  np_in_model (np_run_diff ops zip a b) = true /\
  forall bidir, nd_numpy (np_delta ops zip bidir a b) = Some (dtype b).
Proof.
  intros Wa Wb Dt Sh. split.
  - rewrite (np_same_shape_is_pointwise ops zip a b Wa Wb Dt Sh). apply np_in_model_spec.
    apply nwf_inv in Wa as (N & _). exact N.
  - intros bidir. unfold np_delta, delta_np, np_numpy_paths. cbn [nd_numpy]. rewrite Dt.
    destruct (dtype b); reflexivity.
Qed.

(* delta(a, b) + c *)
Theorem np_patch bidir a b c :
  nwf a = true -> nwf b = true -> nwf c = true ->
  dtype a = dtype b -> shape a = shape b -> dtype c = dtype a -> shape c = shape a ->
  apply_np bidir (np_delta ops zip bidir a b) c
  = (mkArr (dtype c) (shape c) (merge3 (data a) (data b) (data c)),
     if bidir then stale (data a) (data b) (data c) else 0).
Proof.
  intros Wa Wb Wc Dt Sh Dc Sc.
  unfold apply_np, np_delta, delta_np. cbn [nd_changes].
  rewrite (np_same_shape_is_pointwise ops zip a b Wa Wb Dt Sh).
  pose proof (nwf_inv a Wa) as (Na & La & _). pose proof (nwf_inv b Wb) as (_ & Lb & Tb).
  pose proof (nwf_inv c Wc) as (_ & Lc & _). unfold size in La, Lb, Lc.
  rewrite (np_changes_spec bidir a b Na).
  rewrite <- Sh in Lb. rewrite Sc in Lc. rewrite <- (indices_count (shape a)) in La, Lb, Lc.
  destruct c as [dc sc datc]. cbn [dtype shape data] in *. subst dc sc. rewrite <- Dt in Tb.
  exact (apply_suffix bidir (dtype a) (shape a) (indices (shape a)) [] [] (data a) (data b) datc 0
           eq_refl eq_refl La Lb Lc Tb).
Qed.

(* C01 on numeric arrays of one shape and dtype: the delta applied to its own first array
   gives the second array, as an array, and logs nothing - directed or bidirectional *)
Theorem np_roundtrip bidir a b :
  nwf a = true -> nwf b = true -> dtype a = dtype b -> shape a = shape b ->
  apply_np bidir (np_delta ops zip bidir a b) a = (b, 0).
Proof.
  intros Wa Wb Dt Sh. rewrite (np_patch bidir a b a Wa Wb Wa Dt Sh eq_refl eq_refl).
  pose proof (nwf_inv a Wa) as (_ & La & Ta). pose proof (nwf_inv b Wb) as (_ & Lb & Tb). unfold size in La, Lb.
  rewrite <- Dt in Tb.
  rewrite (merge3_self (dtype a) (data a) (data b)) by (assumption || (rewrite La, Lb, Sh; reflexivity)).
  rewrite (stale_self (dtype a) (data a) (data b) Ta).
  destruct b as [db sb datb]. cbn [dtype shape data] in *. subst db sb. destruct bidir; reflexivity.
Qed.

(* applying the (directed) delta a second time changes nothing *)
Theorem np_delta_idempotent a b :
  nwf a = true -> nwf b = true -> dtype a = dtype b -> shape a = shape b ->
  apply_np false (np_delta ops zip false a b) (fst (apply_np false (np_delta ops zip false a b) a)) = (b, 0).
Proof.
  intros Wa Wb Dt Sh. rewrite (np_roundtrip false a b Wa Wb Dt Sh). cbn [fst].
  rewrite (np_patch false a b b Wa Wb Wb Dt Sh (eq_sym Dt) (eq_sym Sh)).
  pose proof (nwf_inv a Wa) as (_ & La & _). pose proof (nwf_inv b Wb) as (_ & Lb & _). unfold size in La, Lb.
  rewrite (merge3_same (data a) (data b)) by (rewrite La, Lb, Sh; reflexivity).
  destruct b; reflexivity.
Qed.

End Main.

(* ------------------------------------------------------------------ *)
(** * The hypotheses are satisfiable; natural generalisations that fail *)

Definition np_no_ops (_ : path) (_ _ : list value) : list opcode := [].

Definition rt_a : narr := mkArr DInt64 [2; 3] [AInt 1; AInt 2; AInt 3; AInt 4; AInt 5; AInt 6].
Definition rt_b : narr := mkArr DInt64 [2; 3] [AInt 1; AInt 9; AInt 3; AInt 4; AInt 5; AInt 7].
Definition rt_c : narr := mkArr DInt64 [2; 3] [AInt 0; AInt 0; AInt 3; AInt 4; AInt 5; AInt 6].

(* a non-trivial 2-d pair: two entries, at root[0][1] and root[1][2] *)
Example np_roundtrip_satisfiable :
  nwf rt_a = true /\ nwf rt_b = true /\ dtype rt_a = dtype rt_b /\ shape rt_a = shape rt_b /\ rt_a <> rt_b /\
  np_delta np_no_ops false true rt_a rt_b
    = mkND [mkNC [0; 1] (AInt 9) (Some (AInt 2)); mkNC [1; 2] (AInt 7) (Some (AInt 6))] (Some DInt64) /\
  apply_np true (np_delta np_no_ops false true rt_a rt_b) rt_a = (rt_b, 0).
Proof. repeat split; try (vm_compute; reflexivity). discriminate. Qed.

(* the delta is a patch, not a copy of b: on another base array of the same shape the result
   is not b, and a bidirectional delta says so (one error: root[0][1] was 2, is 0) *)
Theorem np_roundtrip_other_base_refuted :
  nwf rt_c = true /\ dtype rt_c = dtype rt_a /\ shape rt_c = shape rt_a /\
  fst (apply_np false (np_delta np_no_ops false false rt_a rt_b) rt_c) <> rt_b /\
  apply_np true (np_delta np_no_ops false true rt_a rt_b) rt_c
    = (mkArr DInt64 [2; 3] [AInt 0; AInt 9; AInt 3; AInt 4; AInt 5; AInt 7], 1).
Proof. repeat split; try (vm_compute; reflexivity). vm_compute. discriminate. Qed.

(* shape a = shape b cannot be dropped: two arrays without elements whose shapes differ behind
   the zero-length axis have an EMPTY diff (C02-EMPTY-ARRAY-SHAPE), the empty delta is
   representable, and it leaves the shape of a *)
Definition rt_z03 : narr := mkArr DFloat64 [0; 3] [].
Definition rt_z02 : narr := mkArr DFloat64 [0; 2] [].
Theorem np_roundtrip_other_shape_refuted :
  nwf rt_z03 = true /\ nwf rt_z02 = true /\ dtype rt_z03 = dtype rt_z02 /\
  np_in_model (np_run_diff np_no_ops false rt_z03 rt_z02) = true /\
  apply_np false (np_delta np_no_ops false false rt_z03 rt_z02) rt_z03 = (rt_z03, 0) /\ rt_z03 <> rt_z02.
Proof. repeat split; try (vm_compute; reflexivity). discriminate. Qed.

(* typed elements (nwf) cannot be dropped: == does not see the difference between True and 1 *)
Definition rt_u1 : narr := mkArr DInt64 [1] [AInt 1].
Definition rt_u2 : narr := mkArr DInt64 [1] [ABool true].
Theorem np_roundtrip_untyped_refuted :
  nwf rt_u1 = true /\ nwf rt_u2 = false /\ shape rt_u1 = shape rt_u2 /\ dtype rt_u1 = dtype rt_u2 /\
  fst (apply_np false (np_delta np_no_ops false false rt_u1 rt_u2) rt_u1) <> rt_u2.
Proof. repeat split; try (vm_compute; reflexivity). vm_compute. discriminate. Qed.

(* a dtype change is one type_changes level holding the whole arrays: not a numpy delta of this
   model (np_array_factory is outside) *)
Definition rt_f : narr := mkArr DFloat64 [2; 3] [AHalf 2; AHalf 4; AHalf 6; AHalf 8; AHalf 10; AHalf 12].
Theorem np_dtype_change_outside_model :
  nwf rt_f = true /\ shape rt_a = shape rt_f /\
  np_in_model (np_run_diff np_no_ops false rt_a rt_f) = false /\
  nd_numpy (np_delta np_no_ops false false rt_a rt_f) = None.
Proof. repeat split; vm_compute; reflexivity. Qed.

(* the error branches: an index out of range, a path that is too long, None into an int array
   log one error each and leave the array alone; a path that is too short fills the row *)
Example apply_np_error_branches :
  apply_np false (mkND [mkNC [0; 3] (AInt 9) None; mkNC [1; 1; 0] (AInt 9) None; mkNC [0; 1] ANone None] (Some DInt64)) rt_a
    = (rt_a, 3) /\
  apply_np false (mkND [mkNC [1] (AInt 9) None] (Some DInt64)) rt_a
    = (mkArr DInt64 [2; 3] [AInt 1; AInt 2; AInt 3; AInt 9; AInt 9; AInt 9], 0) /\
  np_dom false (mkND [mkNC [0; 3] (AInt 9) None; mkNC [1] (AInt 9) None] (Some DInt64)) rt_a = true.
Proof. repeat split; vm_compute; reflexivity. Qed.

(** C01 - [DeltaInplace.T] (a list / dict item of a tuple is edited in place) against DeltaModel: [T.upd] succeeds wherever
    [upd] does, with the same result, and is [upd] when no tuple lies on the way; witnesses: a list and a dict inside a
    tuple round-trip in T where DeltaModel logs errors, a set inside a tuple still fails (F4's exact remaining defect). *)
From Coq Require Import List ZArith NArith Bool Arith Lia.
Import ListNotations.
From DD Require Import Base.PyStr Base.Value Base.ValueFacts Path.PathModel Diff.Tree Diff.DiffModel
  Delta.DeltaModel Delta.DeltaGuard Delta.DeltaGood Delta.DeltaChain Delta.DeltaExamples Delta.DeltaInplace.

Lemma put_item_not_tuple v k c c' : is_tuple v = false -> put_item v k c c' = set_item v k c'.
Proof. destruct v; try reflexivity; discriminate. Qed.

(* wherever the shared model's write succeeds, the in-place one does, with the same result *)
Lemma upd_refines : forall p v f r, upd v p f = Some r -> T.upd v p f = Some r.
Proof.
  induction p as [|k p IH]; intros v f r U; [exact U|]. cbn [upd T.upd] in *.
  destruct (get_item v (key_atom k)) as [ch|]; [|discriminate].
  destruct (upd ch p f) as [ch'|] eqn:E; [|discriminate]. rewrite (IH ch f ch' E).
  destruct v; try exact U; discriminate U.
Qed.

(* no tuple on the way (the written object itself may be one): the two agree *)
Fixpoint no_tuple_above (v : value) (p : path) : bool :=
  match p with
  | [] => true
  | k :: r => negb (is_tuple v) && match get_item v (key_atom k) with Some ch => no_tuple_above ch r | None => true end
  end.

Lemma upd_same : forall p v f, no_tuple_above v p = true -> T.upd v p f = upd v p f.
Proof.
  induction p as [|k p IH]; intros v f N; [reflexivity|]. cbn [upd T.upd no_tuple_above] in *.
  apply andb_true_iff in N as [Nt N]. apply negb_true_iff in Nt.
  destruct (get_item v (key_atom k)) as [ch|]; [|reflexivity]. rewrite (IH ch f N).
  destruct (upd ch p f) as [ch'|]; [|reflexivity]. rewrite put_item_not_tuple by exact Nt.
  destruct v; try reflexivity; discriminate Nt.
Qed.

(* t1 + Delta(DeepDiff(t1, t2)) in the in-place model *)
Definition rt_t (hatom : atom -> pystr) ops c conv bidir always t1 t2 : value * nat :=
  T.apply conv (@rev _) (fun l => l) (delta_of hatom (fun _ _ => []) ops c conv bidir always t1 t2) t1.

(* ([1,2],3) -> ([9,1,2],3) and ({'a':1},3) -> ({'a':1,'b':2},3): as on the implementation *)
Definition ip_l1 : value := VTuple [VList [I 1; I 2]; I 3].
Definition ip_l2 : value := VTuple [VList [I 9; I 1; I 2]; I 3].
Definition ip_d1 : value := VTuple [VDict [(AStr [97%N], I 1)]; I 3].
Definition ip_d2 : value := VTuple [VDict [(AStr [97%N], I 1); (AStr [98%N], I 2)]; I 3].
Definition zip_cfg : cfg := mkCfg true 0 1 true.

Lemma inplace_witnesses :
  (rt_t hatom_ex no_ops zip_cfg conv_none false false ip_l1 ip_l2 = (ip_l2, 0) /\
   snd (rt hatom_ex no_ops zip_cfg conv_none false false ip_l1 ip_l2) <> 0) /\
  (rt_t hatom_ex no_ops zip_cfg conv_none false false ip_d1 ip_d2 = (ip_d2, 0) /\
   snd (rt hatom_ex no_ops zip_cfg conv_none false false ip_d1 ip_d2) <> 0) /\
  (* F4 as it remains: a set inside a tuple has to be replaced as an object *)
  (rt_t hatom_ex no_ops zip_cfg conv_none false false f4_t1 f4_t2 = (f4_t1, 2) /\ veqb f4_t1 f4_t2 = false).
Proof. vm_compute. repeat split; discriminate. Qed.

(** C01 - edit chains, and decidable sufficient conditions for the guards. *)
From Coq Require Import List ZArith NArith Bool Arith Lia Permutation.
Import ListNotations.
From DD Require Import Base.PyStr Base.Value Base.ValueFacts Path.PathModel Diff.Tree Diff.DiffModel
  Diff.DiffFacts Diff.DiffFaithful Delta.DeltaModel Delta.DeltaFacts Delta.DeltaLocal Delta.DeltaEntries
  Delta.DeltaStruct Delta.DeltaRun Delta.DeltaGuard Delta.DeltaGood Delta.DeltaNodes Delta.DeltaSeqNodes Delta.DeltaRoundtrip.

(* ---- decidable sufficient conditions ---- *)
Fixpoint alias_freeb (l : list atom) : bool :=
  match l with
  | [] => true
  | a :: r => forallb (fun b => negb (py_eq a b) || atom_eqb a b) r && alias_freeb r
  end.

Lemma alias_freeb_sound l : alias_freeb l = true -> alias_free l.
Proof.
  induction l as [|x l IH]; intros H a b Ha Hb E; [destruct Ha|].
  cbn in H. apply andb_true_iff in H as [H1 H2].
  assert (X : forall y, In y l -> py_eq x y = true -> x = y).
  { intros y Hy Ey. eapply forallb_forall in H1; [|exact Hy]. rewrite Ey in H1. cbn in H1. apply atom_eqb_eq. exact H1. }
  destruct Ha as [<-|Ha], Hb as [<-|Hb].
  - reflexivity.
  - apply X; assumption.
  - symmetry. apply X; [exact Ha|rewrite py_eq_sym; exact E].
  - apply IH; assumption.
Qed.

Section Checker.
Variable c : cfg.
Variable conv : ty -> value -> option value.
Variables bidir always : bool.
Hypothesis Hconv : forall ty0 v v', conv ty0 v = Some v' -> type_of v' = ty0.

(* type changes: values included (bidirectional / always_include_values) or scalar to scalar *)
Fixpoint okpb (t1 t2 : value) {struct t1} : bool :=
  match t1, t2 with
  | VList xs, VList ys =>
      (fix go (xs ys : list value) {struct xs} : bool :=
         match xs, ys with
         | x :: xs', y :: ys' => okpb x y && go xs' ys'
         | _, _ => true
         end) xs ys
  | VTuple xs, VTuple ys => forallb is_atom xs && forallb is_atom ys && Nat.eqb (length xs) (length ys)
  | VDict kvs1, VDict kvs2 =>
      (fix go (l : list (atom * value)) : bool :=
         match l with
         | [] => true
         | (k, v1) :: r => match assoc k kvs2 with Some v2 => okpb v1 v2 | None => true end && go r
         end) kvs1
  | _, _ => ty_eqb (type_of t1) (type_of t2) || bidir || always || (is_atom t1 && is_atom t2)
  end.

Lemma okpb_sound : forall t1 t2, okpb t1 t2 = true -> okp conv bidir always t1 t2.
Proof.
  assert (LEAF : forall t1 t2, ty_eqb (type_of t1) (type_of t2) || bidir || always || (is_atom t1 && is_atom t2) = true ->
            if ty_eqb (type_of t1) (type_of t2) then True else tc_guard conv bidir always t1 t2).
  { intros t1 t2 H. destruct (ty_eqb (type_of t1) (type_of t2)); [exact I|]. cbn [orb] in H.
    destruct (bidir || always) eqn:I0.
    - left. exact I0.
    - cbn in H. apply andb_true_iff in H as [A1 A2].
      destruct t1, t2; try discriminate. apply (tc_guard_atoms conv bidir always Hconv). }
  induction t1 as [a|xs IH|xs IH|kvs IH|xs|xs] using value_ind'; intros t2 H; destruct t2; try (apply LEAF; exact H).
  - rewrite okp_list_eq. cbn in H. revert xs0 H. induction IH as [|x xs Hx _ IHl]; intros ys H; [exact I|].
    destruct ys as [|y ys]; [exact I|]. apply andb_true_iff in H as [H1 H2]. cbn. split; [apply Hx; exact H1|apply IHl; exact H2].
  - cbn in H. apply andb_true_iff in H as [H H3]. apply andb_true_iff in H as [H1 H2]. apply Nat.eqb_eq in H3. cbn. auto.
  - rewrite okp_dict_eq. cbn in H. induction IH as [|[k v] l Hk _ IHl]; [exact I|].
    apply andb_true_iff in H as [H1 H2]. cbn. split; [|apply IHl; exact H2].
    destruct (assoc k kvs0); [apply Hk; exact H1|exact I].
Qed.

Definition guardsb (t1 t2 : value) : bool :=
  wf t1 && wf t2 && alias_freeb (atoms_of t1 ++ atoms_of t2) && okpb t1 t2 &&
  (negb (ignore_private c) || (nopriv t1 && nopriv t2)).

Lemma guardsb_sound t1 t2 : guardsb t1 t2 = true -> guards c conv bidir always t1 t2.
Proof.
  unfold guardsb. intros H. apply andb_true_iff in H as [H H5]. apply andb_true_iff in H as [H H4].
  apply andb_true_iff in H as [H H3]. apply andb_true_iff in H as [H1 H2].
  split; [exact H1|]. split; [exact H2|]. split; [apply alias_freeb_sound; exact H3|]. split; [apply okpb_sound; exact H4|].
  apply orb_true_iff in H5 as [H5|H5].
  - left. apply negb_true_iff in H5. exact H5.
  - right. apply andb_true_iff in H5. exact H5.
Qed.

End Checker.

(* ---- reflection for the order condition ---- *)
Fixpoint idx_ltb (p1 p2 : path) : bool :=
  match p1, p2 with
  | k1 :: r1, k2 :: r2 =>
      if pkey_eqb k1 k2 then idx_ltb r1 r2
      else match k1, k2 with
           | PKey (AInt i), PKey (AInt j) => Z.ltb i j
           | _, _ => false
           end
  | _, _ => false
  end.

Lemma idx_lt_ltb p1 p2 : idx_lt p1 p2 -> idx_ltb p1 p2 = true.
Proof.
  intros (q & i & j & r1 & r2 & -> & -> & L). induction q as [|k q IH]; cbn.
  - destruct (Z.eqb_spec i j); [lia|]. apply Z.ltb_lt. exact L.
  - rewrite pkey_eqb_refl. exact IH.
Qed.

Lemma not_idx_lt p1 p2 : idx_ltb p1 p2 = false -> ~ idx_lt p1 p2.
Proof. intros H L. apply idx_lt_ltb in L. congruence. Qed.

(* ---- chains of edits ---- *)
Section Chain.
Variable hatom : atom -> pystr.
Variable udiff : pystr -> pystr -> pystr.
Variable ops : path -> list value -> list value -> list opcode.
Variable c : cfg.
Variable conv : ty -> value -> option value.
Variables bidir always : bool.
Variable ro : list (path * value) -> list (path * value).
Variable ao : list (path * option value) -> list (path * option value).

Hypothesis Hinj : forall a b, hatom a = hatom b -> a = b.
Hypothesis Hconv : forall ty0 v v', conv ty0 v = Some v' -> type_of v' = ty0.

(* Delta(DeepDiff(a, b)) *)
Definition delta_of (a b : value) : delta :=
  let r := run_diff hatom udiff ops nos nos c a b in
  to_delta conv bidir always ops a b (fst r) (snd r).

Definition step_ok (a b : value) : Prop :=
  guards c conv bidir always a b /\ opsv ops a b [] /\ orders_ok_at ro ao (delta_of a b).

Fixpoint chain_ok (prev : value) (rest : list value) : Prop :=
  match rest with
  | [] => True
  | t :: r => step_ok prev t /\ chain_ok t r
  end.

(* every step of the chain, taken from its own left end, arrives at its right end *)
Theorem chain_steps prev rest : chain_ok prev rest ->
  forall i a b, nth_error (prev :: rest) i = Some a -> nth_error rest i = Some b ->
    exists b', apply conv ro ao (delta_of a b) a = (b', 0) /\ veqb b' b = true.
Proof.
  revert prev; induction rest as [|t r IH]; intros prev H i a b Ha Hb; [destruct i; discriminate|].
  cbn in H. destruct H as [(G & OV & HO) H]. destruct i as [|i]; cbn in Ha, Hb.
  - inversion Ha; inversion Hb; subst. apply (roundtrip_at hatom udiff ops c conv bidir always Hinj Hconv ro ao a b G OV HO).
  - apply (IH t H i a b Ha Hb).
Qed.

(* the deltas of consecutive pairs applied in turn to the running result *)
Fixpoint chain_from (cur prev : value) (rest : list value) : list (value * nat) :=
  match rest with
  | [] => []
  | t :: r => let res := apply conv ro ao (delta_of prev t) cur in res :: chain_from (fst res) t r
  end.

Theorem chain_exact rest : forall prev, chain_ok prev rest -> forallb ordfree rest = true ->
  chain_from prev prev rest = map (fun t => (t, 0)) rest.
Proof.
  induction rest as [|t r IH]; intros prev H O; [reflexivity|].
  cbn in H, O. destruct H as [(G & OV & HO) H]. apply andb_true_iff in O as [O1 O2].
  destruct (roundtrip_at hatom udiff ops c conv bidir always Hinj Hconv ro ao prev t G OV HO) as (t' & E & V).
  apply veqb_ordfree in V; [|exact O1]. subst t'.
  assert (E' : apply conv ro ao (delta_of prev t) prev = (t, 0)) by exact E.
  cbn [chain_from map]. rewrite E'. cbn [fst]. f_equal. apply IH; assumption.
Qed.

(* ... and for all values (dicts and sets included).  The constructor call of a type
   change whose values are omitted acts on the CURRENT value, which is known up to dict /
   set order only: [okb_all a b] asks that it rebuilds b from every such value.  It holds
   outright when the values are stored (bidirectional / always_include_values) and when
   a holds no dict / set. *)
Definition okb_all (a b : value) : Prop :=
  forall v, wf v = true -> veqb v a = true -> okb conv bidir always v a b.

Lemma okb_all_flags a b : bidir || always = true -> okb_all a b.
Proof. intros F v _ _. apply okb_flags. exact F. Qed.

Lemma okb_all_ordfree a b : guards c conv bidir always a b -> ordfree a = true -> okb_all a b.
Proof.
  intros (W1 & _ & _ & OK & _) O v _ V. apply veqb_ordfree in V; [|exact O]. subst v.
  apply okb_self; assumption.
Qed.

Fixpoint chain_okv (prev : value) (rest : list value) : Prop :=
  match rest with
  | [] => True
  | t :: r => okb_all prev t /\ chain_okv t r
  end.

Lemma chain_okv_flags : bidir || always = true -> forall rest prev, chain_okv prev rest.
Proof. intros F. induction rest as [|t r IH]; intros prev; [exact I|]. split; [apply okb_all_flags; exact F|apply IH]. Qed.

(* the running result stays equal, up to dict / set order, to the corresponding value of
   the chain, without error; the start may itself be any well-formed value equal to the
   first one up to that order *)
Theorem chain_veq rest : forall cur prev, chain_ok prev rest -> chain_okv prev rest ->
  wf cur = true -> veqb cur prev = true ->
  Forall2 (fun res t => snd res = 0 /\ veqb (fst res) t = true) (chain_from cur prev rest) rest.
Proof.
  induction rest as [|t r IH]; intros cur prev H HV W V; [constructor|].
  cbn in H, HV. destruct H as [(G & OV & HO) H]. destruct HV as [OB HV].
  destruct (roundtrip_from hatom udiff ops c conv bidir always Hinj Hconv ro ao prev t cur G OV W V (OB cur W V) HO) as (t' & E & V').
  assert (E' : apply conv ro ao (delta_of prev t) cur = (t', 0)) by exact E.
  cbn [chain_from]. rewrite E'. cbn [fst]. constructor; [split; [reflexivity|exact V']|].
  apply IH; [exact H|exact HV| |exact V'].
  destruct G as (_ & W2 & _). apply (veqb_facts t' t V' W2).
Qed.

End Chain.

(* ---- boolean checkers for the oracle hypotheses (for the harness) ---- *)
Fixpoint tilesb (os : list opcode) (i j n m : nat) : bool :=
  match os with
  | [] => Nat.eqb i n && Nat.eqb j m
  | o :: r => Nat.eqb (oi1 o) i && Nat.eqb (oj1 o) j && Nat.leb (oi1 o) (oi2 o) && Nat.leb (oj1 o) (oj2 o)
              && tilesb r (oi2 o) (oj2 o) n m
  end.
Definition block_okb (xs ys : list value) (o : opcode) : bool :=
  match otag o with
  | OEqual => Nat.eqb (oi2 o - oi1 o) (oj2 o - oj1 o) &&
              Nat.eqb (List.length (slice xs (oi1 o) (oi2 o))) (List.length (slice ys (oj1 o) (oj2 o))) &&
              forallb (fun xy => py_eq_leaf (fst xy) (snd xy)) (combine (slice xs (oi1 o) (oi2 o)) (slice ys (oj1 o) (oj2 o)))
  | OReplace => Nat.ltb (oi1 o) (oi2 o) && Nat.ltb (oj1 o) (oj2 o)
  | ODelete => Nat.ltb (oi1 o) (oi2 o) && Nat.eqb (oj1 o) (oj2 o)
  | OInsert => Nat.eqb (oi1 o) (oi2 o) && Nat.ltb (oj1 o) (oj2 o)
  end.
Definition valid_opsb (xs ys : list value) (os : list opcode) : bool :=
  tilesb os 0 0 (List.length xs) (List.length ys) && forallb (block_okb xs ys) os.

Lemma tilesb_sound os : forall i j n m, tilesb os i j n m = true -> tiles os i j n m.
Proof.
  induction os as [|o os IH]; intros i j n m H; cbn in H.
  - apply andb_true_iff in H as [H1 H2]. apply Nat.eqb_eq in H1, H2. split; assumption.
  - apply andb_true_iff in H as [H H5]. apply andb_true_iff in H as [H H4]. apply andb_true_iff in H as [H H3].
    apply andb_true_iff in H as [H1 H2]. apply Nat.eqb_eq in H1, H2. apply Nat.leb_le in H3, H4.
    cbn. repeat split; try assumption. apply IH. exact H5.
Qed.

Lemma forall2_combine (l1 l2 : list value) : List.length l1 = List.length l2 ->
  forallb (fun xy => py_eq_leaf (fst xy) (snd xy)) (combine l1 l2) = true ->
  Forall2 (fun x y => py_eq_leaf x y = true) l1 l2.
Proof.
  revert l2; induction l1 as [|x l1 IH]; intros [|y l2] L H; try discriminate L; [constructor|].
  cbn in H. apply andb_true_iff in H as [H1 H2]. constructor; [exact H1|]. apply IH; [cbn in L; lia|exact H2].
Qed.

Lemma valid_opsb_sound xs ys os : valid_opsb xs ys os = true -> valid_ops xs ys os.
Proof.
  unfold valid_opsb. intros H. apply andb_true_iff in H as [H1 H2]. split; [apply tilesb_sound; exact H1|].
  apply Forall_forall. intros o Ho. eapply forallb_forall in H2; [|exact Ho]. unfold block_okb in H2. unfold block_ok.
  destruct (otag o).
  - apply andb_true_iff in H2 as [H2 H5]. apply andb_true_iff in H2 as [H3 H4]. apply Nat.eqb_eq in H3, H4.
    split; [exact H3|apply forall2_combine; assumption].
  - apply andb_true_iff in H2 as [H3 H4]. apply Nat.ltb_lt in H3, H4. auto.
  - apply andb_true_iff in H2 as [H3 H4]. apply Nat.ltb_lt in H3. apply Nat.eqb_eq in H4. auto.
  - apply andb_true_iff in H2 as [H3 H4]. apply Nat.eqb_eq in H3. apply Nat.ltb_lt in H4. auto.
Qed.

Fixpoint descb (l : list path) : bool :=
  match l with [] => true | p :: r => forallb (fun q => negb (idx_ltb p q)) r && descb r end.
Fixpoint ascb (l : list path) : bool :=
  match l with [] => true | p :: r => forallb (fun q => negb (idx_ltb q p)) r && ascb r end.

Lemma descb_sound {A} (l : list (path * A)) : descb (map fst l) = true ->
  ForallOrdPairs (fun x y => ~ idx_lt (fst x) (fst y)) l.
Proof.
  induction l as [|x l IH]; cbn; intros H; [constructor|]. apply andb_true_iff in H as [H1 H2]. constructor; [|apply IH; exact H2].
  apply Forall_forall. intros y Hy. apply not_idx_lt. eapply forallb_forall in H1; [|apply in_map; exact Hy].
  apply negb_true_iff in H1. exact H1.
Qed.
Lemma ascb_sound {A} (l : list (path * A)) : ascb (map fst l) = true ->
  ForallOrdPairs (fun x y => ~ idx_lt (fst y) (fst x)) l.
Proof.
  induction l as [|x l IH]; cbn; intros H; [constructor|]. apply andb_true_iff in H as [H1 H2]. constructor; [|apply IH; exact H2].
  apply Forall_forall. intros y Hy. apply not_idx_lt. eapply forallb_forall in H1; [|apply in_map; exact Hy].
  apply negb_true_iff in H1. exact H1.
Qed.

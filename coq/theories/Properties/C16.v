(** C16 - DeepSearch reports exactly the matching locations.  Final statements only.

    Reading.  [deep_search oracles c item obj] models DeepSearch(obj, item, **c) for ANY item
    of the value universe (atom or container) and any searched object [obj : xvalue]: the value
    universe ([inj]) extended with class instances ([XObj cls attrs]: __dict__ / __slots__ objects,
    attrs = the non-dunder names of dir(obj) with their values; a bound method is an instance without
    attributes), named tuples ([XNamed]), objects whose attributes cannot be read ([XOpaque]), number-like
    leaves outside the atoms ([XNum type value text]: any float, Decimal, date / datetime / timedelta, with
    their exact text str(obj)) and back references of cyclic objects ([XRef]); it returns [RReErr]
    (re.error of re.compile: oracle [re_ok]),
    [RRaise] (the TypeError of __init__) or [ROk evs], evs being the reports in the order the code makes them:
    [EvValue q v] = matched_values entry for the key sequence q, [EvPath q v] = matched_paths
    entry, [EvAttr q n] = matched_paths entry for the bound method n of the str at q (finding
    K16f).  [prepare] is the item normalisation of __init__; (cs, it) is the normalised item.
    The oracles (regular expressions, str(bytes), str(pattern), dir(str)) are universally
    quantified.  [xwf obj] is the representation invariant of Python dicts / sets.

    Exclusion has two readings: the documented one ([vis_doc], [matches_spec_doc],
    [paths_spec_doc]) and the one implemented ([vis], [matches_spec], [paths_spec]); they
    differ by findings K16 / K16b, hence the _refuted / _partial pairs. *)
From Coq Require Import List ZArith NArith Bool String.
Import ListNotations.
From DD Require Import Base.PyStr Base.Value.
From DD Require Path.PathModel.
From DD Require Obj.ObjValue Obj.ObjText Obj.ObjPathText.
From DD Require Import Search.SearchModel Search.SearchSpec Search.SearchProofs Search.SearchExtract Search.SearchObjects
  Search.SearchExtractObj.

(* every reported value path extracts from the object a value that matches the item under
   the chosen mode ([item_match]: by the comparer of its type, or by equality with the item):
   all objects, items (containers included), modes, exclusions *)
Theorem C16_sound :
  forall (slower brepr : pystr -> pystr) (re_search excl_re : pystr -> bool) (re_ok : bool) (re_text : pystr)
         (sa ba : list pystr) (c : config) (item : value) (obj : xvalue) (cs : bool)
         (it : eitem) (evs : list event),
    xwf obj = true ->
    prepare slower brepr re_ok c item = PItem cs it ->
    deep_search slower brepr re_search re_ok excl_re re_text sa ba c item obj = ROk evs ->
    forall (q : path) (v : xvalue),
      In (EvValue q v) evs -> get_at obj q = Some v /\ item_match slower brepr re_search c cs it v = true.
Proof. exact final_sound. Qed.
Print Assumptions C16_sound.

(* matched_values is EXACTLY the set of matching locations that are visible under exclusion
   as implemented ([vis false]: reached by the search; an item of a list / tuple / set that
   equals the searched item is reported and not descended into; a container matches only as
   such an item): all objects, items, modes, exclusions *)
Theorem C16_values_exact :
  forall (slower brepr : pystr -> pystr) (re_search excl_re : pystr -> bool) (re_ok : bool) (re_text : pystr)
         (sa ba : list pystr) (c : config) (item : value) (obj : xvalue) (cs : bool)
         (it : eitem) (evs : list event),
    xwf obj = true ->
    prepare slower brepr re_ok c item = PItem cs it ->
    deep_search slower brepr re_search re_ok excl_re re_text sa ba c item obj = ROk evs ->
    forall (q : path) (v : xvalue),
      In (EvValue q v) evs <-> In (q, v) (matches_spec slower brepr re_search excl_re c cs it obj).
Proof. exact final_values_exact. Qed.
Print Assumptions C16_values_exact.

(* completeness against the DOCUMENTED exclusion is false (K16: the item, not the object, is
   tested against exclude_types) ... *)
Theorem C16_complete_refuted :
  exists (cs : bool) (it : eitem) (evs : list event) (q : path) (v : xvalue),
    xwf k16c_obj = true /\
    prepare lower id_repr true k16c_cfg k16c_item = PItem cs it /\
    deep_search lower id_repr no_re true no_re [] [] [] k16c_cfg k16c_item k16c_obj = ROk evs /\
    In (q, v) (matches_spec_doc lower id_repr no_re no_re k16c_cfg cs it k16c_obj) /\
    ~ In (EvValue q v) evs.
Proof. exact complete_refuted. Qed.
Print Assumptions C16_complete_refuted.

(* ... and for container items (K16h: a list / tuple / dict / set equal to the item is found
   only as an ITEM of a list / tuple / set, never as a dictionary value or the root) ... *)
Theorem C16_complete_container_refuted :
  exists (cs : bool) (it : eitem) (evs : list event) (q : path) (v : xvalue),
    xwf k16h_obj = true /\
    prepare lower id_repr true k16f_cfg k16h_item = PItem cs it /\ item_excl k16f_cfg it = false /\
    deep_search lower id_repr no_re true no_re k16h_text [] [] k16f_cfg k16h_item k16h_obj = ROk evs /\
    In (q, v) (matches_spec_doc lower id_repr no_re no_re k16f_cfg cs it k16h_obj) /\
    ~ In (EvValue q v) evs.
Proof. exact complete_container_refuted. Qed.
Print Assumptions C16_complete_container_refuted.

(* ... and holds whenever the item is an atom whose own type is not excluded *)
Theorem C16_complete_partial :
  forall (slower brepr : pystr -> pystr) (re_search excl_re : pystr -> bool) (re_ok : bool) (re_text : pystr)
         (sa ba : list pystr) (c : config) (item : value) (obj : xvalue) (cs : bool)
         (it : eitem) (evs : list event),
    xwf obj = true ->
    prepare slower brepr re_ok c item = PItem cs it ->
    deep_search slower brepr re_search re_ok excl_re re_text sa ba c item obj = ROk evs ->
    item_excl c it = false ->
    atom_item it = true ->
    forall (q : path) (v : xvalue),
      In (q, v) (matches_spec_doc slower brepr re_search excl_re c cs it obj) -> In (EvValue q v) evs.
Proof. exact final_complete_partial. Qed.
Print Assumptions C16_complete_partial.

(* under the K16 guard (the root and the dictionary values are not of an excluded type)
   matched_values is exactly the documented specification *)
Theorem C16_values_exact_doc_partial :
  forall (slower brepr : pystr -> pystr) (re_search excl_re : pystr -> bool) (re_ok : bool) (re_text : pystr)
         (sa ba : list pystr) (c : config) (item : value) (obj : xvalue) (cs : bool)
         (it : eitem) (evs : list event),
    xwf obj = true ->
    prepare slower brepr re_ok c item = PItem cs it ->
    deep_search slower brepr re_search re_ok excl_re re_text sa ba c item obj = ROk evs ->
    item_excl c it = false ->
    atom_item it = true ->
    k16_guard c obj = true ->
    forall (q : path) (v : xvalue),
      In (EvValue q v) evs <-> In (q, v) (matches_spec_doc slower brepr re_search excl_re c cs it obj).
Proof. exact final_values_exact_doc_partial. Qed.
Print Assumptions C16_values_exact_doc_partial.

(* matched_paths entries for locations are exactly the dictionary entries of visible
   dictionaries whose path text contains the item: all inputs *)
Theorem C16_paths_exact :
  forall (slower brepr : pystr -> pystr) (re_search excl_re : pystr -> bool) (re_ok : bool) (re_text : pystr)
         (sa ba : list pystr) (c : config) (item : value) (obj : xvalue) (cs : bool)
         (it : eitem) (evs : list event),
    xwf obj = true ->
    prepare slower brepr re_ok c item = PItem cs it ->
    deep_search slower brepr re_search re_ok excl_re re_text sa ba c item obj = ROk evs ->
    forall (q : path) (v : xvalue),
      In (EvPath q v) evs <-> In (q, v) (paths_spec slower brepr re_search excl_re re_text c cs it obj).
Proof. exact final_paths_exact. Qed.
Print Assumptions C16_paths_exact.

Theorem C16_paths_exact_doc_partial :
  forall (slower brepr : pystr -> pystr) (re_search excl_re : pystr -> bool) (re_ok : bool) (re_text : pystr)
         (sa ba : list pystr) (c : config) (item : value) (obj : xvalue) (cs : bool)
         (it : eitem) (evs : list event),
    xwf obj = true ->
    prepare slower brepr re_ok c item = PItem cs it ->
    deep_search slower brepr re_search re_ok excl_re re_text sa ba c item obj = ROk evs ->
    item_excl c it = false ->
    atom_item it = true ->
    k16_guard c obj = true ->
    k16b_guard brepr excl_re c obj = true ->
    forall (q : path) (v : xvalue),
      In (EvPath q v) evs <-> In (q, v) (paths_spec_doc slower brepr re_search excl_re re_text c cs it obj).
Proof. exact final_paths_exact_doc_partial. Qed.
Print Assumptions C16_paths_exact_doc_partial.

(* matched_paths can contain paths that are not locations of the object (K16f) ... *)
Theorem C16_paths_only_locations_refuted :
  exists (evs : list event) (q : path) (n : pystr),
    xwf k16f_obj = true /\
    deep_search lower id_repr no_re true no_re [] k16f_attrs [] k16f_cfg (VAtom ANone) k16f_obj = ROk evs /\
    In (EvAttr q n) evs.
Proof. exact paths_only_locations_refuted. Qed.
Print Assumptions C16_paths_only_locations_refuted.

(* ... but only when the item is None or a container *)
Theorem C16_paths_only_locations_partial :
  forall (slower brepr : pystr -> pystr) (re_search excl_re : pystr -> bool) (re_ok : bool) (re_text : pystr)
         (sa ba : list pystr) (c : config) (item : value) (obj : xvalue) (cs : bool)
         (it : eitem) (evs : list event),
    xwf obj = true ->
    prepare slower brepr re_ok c item = PItem cs it ->
    deep_search slower brepr re_search re_ok excl_re re_text sa ba c item obj = ROk evs ->
    forall a : atom, item = VAtom a -> a <> ANone ->
    forall (q : path) (n : pystr), ~ In (EvAttr q n) evs.
Proof. exact final_only_locations_partial. Qed.
Print Assumptions C16_paths_only_locations_partial.

(* "excluded paths and types never appear" is false: a float reported with exclude_types=[float]
   (K16), an excluded path reported under matched_paths (K16b) ... *)
Theorem C16_exclusions_refuted :
  (exists (evs : list event) (q : path) (v : xvalue),
      xwf k16_obj = true /\
      deep_search lower id_repr no_re true no_re [] [] [] k16_cfg k16_item k16_obj = ROk evs /\
      In (EvValue q v) evs /\ ty_excl k16_cfg (xtype_of v) = true)
  /\ (exists (evs : list event) (q : path) (v : xvalue),
         xwf k16b_obj = true /\
         deep_search lower id_repr no_re true no_re [] [] [] k16b_cfg k16b_item k16b_obj = ROk evs /\
         In (EvPath q v) evs /\ path_excl id_repr no_re k16b_cfg q = true).
Proof. exact (conj exclusions_types_refuted exclusions_paths_refuted). Qed.
Print Assumptions C16_exclusions_refuted.

(* ... and true under the guards: nothing reported is excluded in the documented sense (neither
   the location nor any ancestor has an excluded path or type) *)
Theorem C16_exclusions_partial :
  forall (slower brepr : pystr -> pystr) (re_search excl_re : pystr -> bool) (re_ok : bool) (re_text : pystr)
         (sa ba : list pystr) (c : config) (item : value) (obj : xvalue) (cs : bool)
         (it : eitem) (evs : list event),
    xwf obj = true ->
    prepare slower brepr re_ok c item = PItem cs it ->
    deep_search slower brepr re_search re_ok excl_re re_text sa ba c item obj = ROk evs ->
    k16_guard c obj = true ->
    (forall (q : path) (v : xvalue), In (EvValue q v) evs -> vis_doc brepr excl_re c [] obj q = true) /\
    (k16b_guard brepr excl_re c obj = true ->
     forall (q : path) (v : xvalue), In (EvPath q v) evs -> vis_doc brepr excl_re c [] obj q = true).
Proof. exact final_exclusions_partial. Qed.
Print Assumptions C16_exclusions_partial.

(* the guards are satisfiable by a non-trivial input *)
Theorem C16_guards_satisfiable :
  xwf guard_obj = true /\ k16_guard guard_cfg guard_obj = true /\
  k16b_guard id_repr no_re guard_cfg guard_obj = true /\
  item_excl guard_cfg (EAtom guard_item) = false /\
  deep_search lower id_repr no_re true no_re [] [] [] guard_cfg guard_item_v guard_obj = ROk guard_evs.
Proof. exact guards_satisfiable. Qed.
Print Assumptions C16_guards_satisfiable.

(* DeepSearch never raises, apart from the documented TypeError of __init__ ("The passed item
   ... is not usable for regex"): for ALL objects, items and modes the constructor raises exactly
   when use_regexp is on and the item is neither a str / bytes nor a number that loose mode turns
   into its text.  (Findings K16d / K16i, the TypeErrors of the traversal, are fixed in /repo by
   9553299, 49764d9, bcd9dc1 and the model follows: it has no raise event any more.) *)
Theorem C16_never_raises :
  forall (slower brepr : pystr -> pystr) (re_search excl_re : pystr -> bool) (re_ok : bool) (re_text : pystr)
         (sa ba : list pystr) (c : config) (item : value) (obj : xvalue),
    deep_search slower brepr re_search re_ok excl_re re_text sa ba c item obj = RRaise <->
    use_regexp c = true /\ item_is_text item = false /\ loose_number c item = false.
Proof. exact never_raises. Qed.
Print Assumptions C16_never_raises.

(* ... and re.error (out of re.compile in __init__) exactly when use_regexp is on, the item reaches
   re.compile (a str / bytes, or a number that loose mode turns into its text) and is not a valid
   regular expression ([re_ok] = false: an oracle, computed by Python's re on the normalised - lower-cased
   - item): the three outcomes RRaise / RReErr / ROk are characterised for ALL inputs *)
Theorem C16_re_error_exact :
  forall (slower brepr : pystr -> pystr) (re_search excl_re : pystr -> bool) (re_ok : bool) (re_text : pystr)
         (sa ba : list pystr) (c : config) (item : value) (obj : xvalue),
    deep_search slower brepr re_search re_ok excl_re re_text sa ba c item obj = RReErr <->
    use_regexp c = true /\ (item_is_text item = true \/ loose_number c item = true) /\ re_ok = false.
Proof. exact re_error_exact. Qed.
Print Assumptions C16_re_error_exact.

(* the former K16d / K16i witnesses now return results: a str item is found in the str only;
   a bytes pattern is found in the bytes only and is not applied to the text of a number *)
Theorem C16_str_in_bytes_not_found :
  deep_search lower id_repr no_re true no_re [] [] [] k16f_cfg k16d_item k16d_obj
  = ROk [EvValue [SIdx 1] (XAtom (AStr (s2p "abc")))].
Proof. exact str_in_bytes_not_found. Qed.
Print Assumptions C16_str_in_bytes_not_found.

Theorem C16_bytes_pattern_on_numbers :
  deep_search lower id_repr k16i_re true no_re [] [] [] k16i_cfg k16i_item k16i_obj
  = ROk [EvValue [SIdx 1] (XAtom (ABytes (s2p "1")))].
Proof. exact bytes_pattern_on_numbers. Qed.
Print Assumptions C16_bytes_pattern_on_numbers.

(* the result dictionary matched_values (keyed by path text): every entry comes from a
   reported location with that text and that value, and every reported location's text is a key *)
Theorem C16_result_dict :
  forall (brepr : pystr -> pystr) (evs : list event),
    (forall (t : pystr) (v : xvalue), In (t, v) (matched_values brepr evs) ->
        exists q : path, render brepr q = t /\ In (EvValue q v) evs) /\
    (forall (q : path) (v : xvalue), In (EvValue q v) evs ->
        exists v' : xvalue, In (render brepr q, v') (matched_values brepr evs)).
Proof. exact matched_values_spec. Qed.
Print Assumptions C16_result_dict.

(* ... and EXACTLY so when the reported paths are tame (then no two reported locations share a
   text): the observable dictionary matched_values is the set of (path text, value) of the
   specification's locations - for all objects (instances and named tuples included: an attribute
   step is not tame), items, modes ... *)
Theorem C16_result_dict_exact_partial :
  forall (slower brepr : pystr -> pystr) (re_search excl_re : pystr -> bool) (re_ok : bool) (re_text : pystr)
         (sa ba : list pystr) (c : config) (item : value) (obj : xvalue) (cs : bool)
         (it : eitem) (evs : list event),
    xwf obj = true ->
    prepare slower brepr re_ok c item = PItem cs it ->
    deep_search slower brepr re_search re_ok excl_re re_text sa ba c item obj = ROk evs ->
    (forall q v, In (EvValue q v) evs -> tame_path q = true) ->
    forall (t : pystr) (v : xvalue),
      In (t, v) (matched_values brepr evs) <->
      exists q : path, render brepr q = t /\ In (q, v) (matches_spec slower brepr re_search excl_re c cs it obj).
Proof. exact result_dict_exact_partial. Qed.
Print Assumptions C16_result_dict_exact_partial.

(* ... the guard is satisfiable ... *)
Theorem C16_result_dict_guard_satisfiable :
  forall q v, In (EvValue q v) guard_evs -> tame_path q = true.
Proof. exact result_dict_guard_satisfiable. Qed.
Print Assumptions C16_result_dict_guard_satisfiable.

(* ... and needed (K16g): the keys "a']['b" and "a" -> "b" give two locations with ONE text, the
   dictionary keeps one of the two reported values *)
Theorem C16_result_dict_refuted :
  exists (evs : list event) (q : path) (v : xvalue),
    wf amb_val = true /\
    deep_search lower id_repr no_re true no_re [] [] [] k16f_cfg k16g_item (inj amb_val) = ROk evs /\
    In (EvValue q v) evs /\ ~ In (render id_repr q, v) (matched_values id_repr evs).
Proof. exact result_dict_refuted. Qed.
Print Assumptions C16_result_dict_refuted.

(* ---- class instances, named tuples, `unprocessed` ---- *)

(* the `unprocessed` events are EXACTLY the objects whose attributes cannot be read that the search
   enters (visible under exclusion as implemented): all objects, items, modes *)
Theorem C16_unprocessed_exact :
  forall (slower brepr : pystr -> pystr) (re_search excl_re : pystr -> bool) (re_ok : bool) (re_text : pystr)
         (sa ba : list pystr) (c : config) (item : value) (obj : xvalue) (cs : bool)
         (it : eitem) (evs : list event),
    xwf obj = true ->
    prepare slower brepr re_ok c item = PItem cs it ->
    deep_search slower brepr re_search re_ok excl_re re_text sa ba c item obj = ROk evs ->
    forall q : path,
      In (EvUnproc q) evs <-> In q (unprocessed_spec slower brepr excl_re c cs it obj).
Proof. exact final_unprocessed_exact. Qed.
Print Assumptions C16_unprocessed_exact.

(* the result list `unprocessed` holds exactly the texts of those locations *)
Theorem C16_unprocessed_list :
  forall (brepr : pystr -> pystr) (evs : list event) (t : pystr),
    In t (unprocessed brepr evs) <-> exists q : path, render brepr q = t /\ In (EvUnproc q) evs.
Proof. exact unprocessed_list_spec. Qed.
Print Assumptions C16_unprocessed_list.

(* nothing is reported under matched_values at such an object, and nothing at all below it *)
Theorem C16_unprocessed_silent :
  forall (slower brepr : pystr -> pystr) (re_search excl_re : pystr -> bool) (re_ok : bool) (re_text : pystr)
         (sa ba : list pystr) (c : config) (item : value) (obj : xvalue) (cs : bool)
         (it : eitem) (evs : list event),
    xwf obj = true ->
    prepare slower brepr re_ok c item = PItem cs it ->
    deep_search slower brepr re_search re_ok excl_re re_text sa ba c item obj = ROk evs ->
    forall (q : path) (cl : pystr), get_at obj q = Some (XOpaque cl) ->
      (forall v, ~ In (EvValue q v) evs) /\
      (forall r s v, ~ In (EvValue (q ++ s :: r)%list v) evs) /\
      (forall r s v, ~ In (EvPath (q ++ s :: r)%list v) evs).
Proof. exact final_opaque_silent. Qed.
Print Assumptions C16_unprocessed_silent.

(* a concrete run over an instance with a list, a str and a bound method, an unreadable object and
   a named tuple held by a dictionary (reports in the implementation's order; path text root[2]['k'].y) *)
Theorem C16_objects_example :
  xwf ex_obj = true /\
  deep_search lower id_repr no_re true no_re [] [] [] ex_cfg (VAtom (AStr (s2p "x"))) ex_obj
  = ROk [EvValue [SIdx 0; SAttr (s2p "a"); SIdx 0] (XAtom (AStr (s2p "x")));
         EvValue [SIdx 0; SAttr (s2p "b")] (XAtom (AStr (s2p "x1")));
         EvPath [SIdx 0; SAttr (s2p "xmeth")] (XObj (s2p "method") []);
         EvUnproc [SIdx 1];
         EvPath [SIdx 2; SKey (AStr (s2p "k")); SAttr (s2p "x")] (XAtom (AInt 1));
         EvValue [SIdx 2; SKey (AStr (s2p "k")); SAttr (s2p "y")] (XAtom (AStr (s2p "x")))]
  /\ render id_repr [SIdx 2; SKey (AStr (s2p "k")); SAttr (s2p "y")] = s2p "root[2]['k'].y".
Proof. exact objects_example. Qed.
Print Assumptions C16_objects_example.

(* a named tuple that == a tuple item is found as a dictionary value, unlike a tuple there (K16h);
   as an item of a list it is reported by the equality shortcut; an instance never equals an item *)
Theorem C16_named_tuple_found :
  deep_search lower id_repr no_re true no_re (s2p "(1, 2.0)") [] [] ex_cfg nt_item nt_obj
  = ROk [EvValue [SKey (AStr (s2p "k"))] (XNamed (s2p "P") [(s2p "x", XAtom (AHalf 2)); (s2p "y", XAtom (AInt 2))])].
Proof. exact named_tuple_found_as_dict_value. Qed.
Print Assumptions C16_named_tuple_found.

(* K16 with classes: an instance of an excluded class that is a dictionary value is entered and
   its attribute reported; the same instance and a named tuple (a tuple for exclude_types) are
   skipped as items of a list *)
Theorem C16_exclusions_classes_refuted :
  exists (evs : list event) (q : path) (v : xvalue) (par : path) (w : xvalue),
    xwf k16o_obj = true /\
    deep_search lower id_repr no_re true no_re [] [] [] k16o_cfg (VAtom (AInt 7)) k16o_obj = ROk evs /\
    evs = [EvValue q v] /\ q = [SIdx 1; SKey (AStr (s2p "k")); SAttr (s2p "a")] /\
    par = [SIdx 1; SKey (AStr (s2p "k"))] /\ get_at k16o_obj par = Some w /\
    ty_excl k16o_cfg (xtype_of w) = true.
Proof. exact exclusions_classes_refuted. Qed.
Print Assumptions C16_exclusions_classes_refuted.

(* number-like leaves outside the atom universe ([XNum type value text]: floats such as 0.1 / 1e-07 /
   1e+16 / nan, Decimals, dates): found by == with the number they stand for and, in loose mode, by
   their exact text str(obj) - part of [leaf_match] ([xnum_match]) in every theorem above *)
Theorem C16_numbers_example :
  deep_search lower id_repr no_re true no_re [] [] [] ex_cfg (VAtom (AHalf 3)) num_obj
  = ROk [EvValue [SIdx 1] (XNum (TyObj (s2p "Decimal")) (Some (AHalf 3)) (s2p "1.5"))]
  /\ deep_search lower id_repr no_re true no_re [] [] [] ex_cfg (VAtom (AInt 10000000000000000)) num_obj
     = ROk [EvValue [SIdx 2] (XNum (TyB TFloat) (Some (AInt 10000000000000000)) (s2p "1e+16"))]
  /\ deep_search lower id_repr no_re true no_re [] [] [] loose_cfg (VAtom (AStr (s2p "1e-07"))) num_obj
     = ROk [EvValue [SIdx 0] (XNum (TyB TFloat) None (s2p "1e-07"))]
  /\ deep_search lower id_repr no_re true no_re [] [] [] loose_cfg (VAtom (AStr (s2p "1E-07"))) num_obj
     = ROk [EvValue [SIdx 0] (XNum (TyB TFloat) None (s2p "1e-07"))]
  /\ deep_search lower id_repr no_re true no_re [] [] [] (mkConfig true false false false [] []) (VAtom (AStr (s2p "1E-07"))) num_obj
     = ROk []
  /\ deep_search lower id_repr no_re true no_re [] [] [] ex_cfg (VAtom (AStr (s2p "2024-01-02"))) num_obj = ROk [].
Proof. exact numbers_example. Qed.
Print Assumptions C16_numbers_example.

(* CYCLIC OBJECTS.  [XRef] = a child that IS one of its own ancestors; the parents_ids guard passes over
   it (all the exactness theorems above include it: [paths_spec] leaves such entries out).  Finite
   unfolding: for an atom item the search of the object graph reports exactly what the search of the
   tree cut at the first repetition on every path ([prune]: entries / attributes that hold a back
   reference removed, positions of lists kept) reports, the reported values being the cut sub-objects *)
Theorem C16_cyclic_finite_unfolding :
  forall (slower brepr : pystr -> pystr) (re_search excl_re : pystr -> bool) (re_text : pystr)
         (sa ba : list pystr) (c : config) (cs : bool) (it : eitem),
    atom_item it = true ->
    forall (obj : xvalue) (p : path),
      search slower brepr re_search excl_re re_text sa ba c cs it (prune obj) p
      = map (ev_map prune) (search slower brepr re_search excl_re re_text sa ba c cs it obj p).
Proof. exact search_prune. Qed.
Print Assumptions C16_cyclic_finite_unfolding.

(* d = {'k': 'x', 'self': d, 'l': ['x', d]} *)
Theorem C16_cyclic_example :
  deep_search lower id_repr no_re true no_re [] [] [] ex_cfg (VAtom (AStr (s2p "l"))) cyc_obj
  = ROk [EvPath [SKey (AStr (s2p "l"))] (XList [XAtom (AStr (s2p "x")); XRef])]
  /\ deep_search lower id_repr no_re true no_re [] [] [] ex_cfg (VAtom (AStr (s2p "x"))) cyc_obj
     = ROk [EvValue [SKey (AStr (s2p "k"))] (XAtom (AStr (s2p "x")));
            EvValue [SKey (AStr (s2p "l")); SIdx 0] (XAtom (AStr (s2p "x")))].
Proof. exact cyclic_example. Qed.
Print Assumptions C16_cyclic_example.

(* on plain values the equality of the shortcut is Python's == of the shared universe *)
Theorem C16_plain_equality : forall (v w : value), xeqv (inj v) w = py_eqv v w.
Proof. exact xeqv_inj. Qed.
Print Assumptions C16_plain_equality.

(* deepdiff.extract (model and proofs of the Path block, C09) resolves every reported
   matched_values / matched_paths path to the reported value, provided the keys on the path
   are tame (str keys without a single quote and inside the C09 round-trip guard, no bytes
   keys, no attribute steps: there search.py's own printer and path.py's printer produce the
   same text) and no set is subscripted on the way; stated for plain values [inj obj], the
   universe of the Path block ... *)
Theorem C16_sound_extract_partial :
  forall (slower brepr : pystr -> pystr) (re_search excl_re : pystr -> bool) (re_ok : bool) (re_text : pystr)
         (sa ba : list pystr) (c : config) (item : value) (obj : value) (cs : bool)
         (it : eitem) (evs : list event),
    wf obj = true ->
    prepare slower brepr re_ok c item = PItem cs it ->
    deep_search slower brepr re_search re_ok excl_re re_text sa ba c item (inj obj) = ROk evs ->
    forall (q : path) (w : xvalue),
      In (EvValue q w) evs -> tame_path q = true -> set_free_along (inj obj) q = true ->
      exists v : value, w = inj v /\ PathModel.extract obj (render brepr q) = Some v
                        /\ item_match slower brepr re_search c cs it w = true.
Proof. exact sound_extract_partial. Qed.
Print Assumptions C16_sound_extract_partial.

Theorem C16_paths_extract_partial :
  forall (slower brepr : pystr -> pystr) (re_search excl_re : pystr -> bool) (re_ok : bool) (re_text : pystr)
         (sa ba : list pystr) (c : config) (item : value) (obj : value) (cs : bool)
         (it : eitem) (evs : list event),
    wf obj = true ->
    prepare slower brepr re_ok c item = PItem cs it ->
    deep_search slower brepr re_search re_ok excl_re re_text sa ba c item (inj obj) = ROk evs ->
    forall (q : path) (w : xvalue),
      In (EvPath q w) evs -> tame_path q = true -> set_free_along (inj obj) q = true ->
      exists v : value, w = inj v /\ PathModel.extract obj (render brepr q) = Some v.
Proof. exact paths_extract_partial. Qed.
Print Assumptions C16_paths_extract_partial.

(* ... and for objects made of plain values AND class instances ([xof obj], obj : ovalue of the Obj
   block): the Obj block's model of extract with getattr for `.name` elements ([oextract],
   ObjPathText.oextract_render) resolves every reported matched_values / matched_paths path to the
   reported value when keys are tame and attribute names are plain identifiers ([otame_path]:
   ObjPathText.attr_ok - not starting with "__", not None / True / False) ... *)
Theorem C16_extract_attribute_paths_partial :
  forall (slower brepr : pystr -> pystr) (re_search excl_re : pystr -> bool) (re_ok : bool) (re_text : pystr)
         (sa ba : list pystr) (c : config) (item : value) (obj : ObjValue.ovalue) (cs : bool)
         (it : eitem) (evs : list event),
    xwf (xof obj) = true ->
    prepare slower brepr re_ok c item = PItem cs it ->
    deep_search slower brepr re_search re_ok excl_re re_text sa ba c item (xof obj) = ROk evs ->
    forall (q : path) (w : xvalue),
      In (EvValue q w) evs \/ In (EvPath q w) evs ->
      otame_path q = true -> set_free_along (xof obj) q = true ->
      exists v : ObjValue.ovalue, w = xof v /\ ObjText.oextract obj (render brepr q) = Some v.
Proof. exact sound_extract_obj_partial. Qed.
Print Assumptions C16_extract_attribute_paths_partial.

(* ... the guard on attribute names is needed: DeepSearch(A(__q=5), 5) reports root.__q, which
   path.py reads as the root itself (it drops every element that starts with "__") *)
Theorem C16_extract_attribute_paths_refuted :
  exists (evs : list event) (q : path) (w : xvalue),
    xwf (xof priv_obj) = true /\
    deep_search lower id_repr no_re true no_re [] [] [] k16f_cfg (VAtom (AInt 5)) (xof priv_obj) = ROk evs /\
    In (EvValue q w) evs /\ set_free_along (xof priv_obj) q = true /\
    ObjText.oextract priv_obj (render id_repr q) <> Some (ObjValue.OAtom (AInt 5)).
Proof. exact sound_extract_obj_refuted. Qed.
Print Assumptions C16_extract_attribute_paths_refuted.

(* search.py's printer and path.py's printer agree on tame paths *)
Theorem C16_render_is_path_render :
  forall (brepr : pystr -> pystr) (p : path), tame_path p = true ->
    render brepr p = PathModel.render (map to_pkey p).
Proof. exact render_tame. Qed.
Print Assumptions C16_render_is_path_render.

(* ... and not in general (K16g): a key containing a single quote *)
Theorem C16_sound_extract_refuted :
  exists (evs : list event) (q : path) (v : xvalue),
    wf k16g_val = true /\
    deep_search lower id_repr no_re true no_re [] [] [] k16f_cfg k16g_item (inj k16g_val) = ROk evs /\
    In (EvValue q v) evs /\ set_free_along (inj k16g_val) q = true /\
    PathModel.extract k16g_val (render id_repr q) = None.
Proof. exact sound_extract_refuted. Qed.
Print Assumptions C16_sound_extract_refuted.

(** C08 - bidirectional deltas invert and detect a mismatched base.
    Final statements only.  Model: Delta/DeltaModel.v ([apply] = Delta.__add__ as
    its passes over (root, post, errs); [errs] counts the calls of _raise_or_log:
    with raise_errors=True the real run raises at the first one, with False it
    logs and goes on; [reverse] = _get_reverse_diff; [sub] = __rsub__).
    All statements are for ALL deltas / bases / oracles unless a guard is shown.
    Oracles: conv (new_type(old_value)), ro / ao (the visiting orders of
    _do_item_removed / _do_item_added), the opcode oracle of the diff. *)
From Coq Require Import List ZArith NArith Bool Arith String.
Import ListNotations.
From DD Require Import Base.PyStr Base.Value Path.PathModel Diff.Tree Diff.DiffModel Diff.DiffShow
  Diff.DiffFaithful Delta.DeltaModel Delta.DeltaGuard Delta.DeltaRun Delta.DeltaGood Delta.DeltaChain Delta.DeltaVerify Delta.DeltaVerifyDiff Delta.DeltaVerifyIndep Delta.DeltaVerifyEx
  Delta.DeltaReverse Delta.DeltaReverseDiff Delta.DeltaReverseInplace Delta.DeltaReverseDiffInplace Delta.DeltaReverseTuple Delta.DeltaReverseSeq Delta.DeltaReverseC01
  Delta.DeltaReverseKinds Delta.DeltaReverseSym Delta.DeltaReverseZip
  Delta.DeltaReverseSymD Delta.DeltaReverseDefault Delta.DeltaVerifyPerm
  Diff.DiffPaths Delta.DeltaReverseClash Delta.DeltaReverseClashInv Delta.DeltaVerifyHyp
  Delta.DeltaReverseFrom Delta.DeltaReverseOracle Delta.DeltaVerifyMore Delta.DeltaVerifyEx2 Delta.DeltaReverseFromEx Delta.DeltaReverseKorderEx Delta.DeltaVerifyBase Delta.DeltaVerifySubDiff.
From DD Require Delta.DeltaExamples.

(* ================================================================== *)
(* 1. a non-bidirectional delta refuses subtraction                    *)
(* ================================================================== *)
Theorem C08_directed_refuses_sub :
  forall conv ro ao d v, d_bidir d = false -> sub conv ro ao d v = None.
Proof. exact directed_refuses_sub. Qed.
Print Assumptions C08_directed_refuses_sub.

Theorem C08_directed_delta_of_diff_refuses_sub :
  forall conv ro ao always ops t1 t2 es rec v,
    sub conv ro ao (to_delta conv false always ops t1 t2 es rec) v = None.
Proof. intros. apply directed_refuses_sub. reflexivity. Qed.
Print Assumptions C08_directed_delta_of_diff_refuses_sub.

(* every +/- sequence that contains a subtraction is refused *)
Theorem C08_directed_sequences_refused :
  forall conv ro ao d l1 l2 v, d_bidir d = false -> run_seq conv ro ao d (l1 ++ Minus :: l2) v = None.
Proof. exact directed_seq_refused. Qed.
Print Assumptions C08_directed_sequences_refused.

(* ================================================================== *)
(* 2. the error counter never decreases                                *)
(* ================================================================== *)
(* [passes] is the list of the ten passes of Delta.__add__; [mono f] =
   forall s, errs s <= errs (f s) *)
Theorem C08_every_pass_monotone :
  forall conv ro ao d, Forall mono (passes conv ro ao d).
Proof. exact passes_mono. Qed.
Print Assumptions C08_every_pass_monotone.

Theorem C08_errors_after_any_prefix_of_passes_remain :
  forall conv ro ao d v k,
    errs (run_passes (firstn k (passes conv ro ao d)) (mkSt v [] 0)) <= snd (apply conv ro ao d v).
Proof. exact errs_after_prefix. Qed.
Print Assumptions C08_errors_after_any_prefix_of_passes_remain.

(* ================================================================== *)
(* 3. a mismatched base is reported                                    *)
(* ================================================================== *)
(* [vc_bad r c] / [tc_bad r c]: in r there is nothing at the path of c, or c
   records no old value, or the value found is != (Python, py_eqv) the recorded
   old value.  [diverge p q]: the paths leave a common prefix through two keys
   that are not ==-equal and not negative ints (neither path is a prefix of the
   other; they address different sub-objects of every root). *)

(* 3a. for the root as the step that reaches the entry sees it: no guard *)
Theorem C08_detects_when_reached_value :
  forall conv ro ao d v l1 c l2,
    d_bidir d = true -> d_val d = l1 ++ c :: l2 ->
    vc_bad (root (do_values_changed true l1 (mkSt v [] 0))) c = true ->
    0 < snd (apply conv ro ao d v).
Proof. exact apply_detects_value_when_reached. Qed.
Print Assumptions C08_detects_when_reached_value.

Theorem C08_detects_when_reached_type :
  forall conv ro ao d v l1 c l2,
    d_bidir d = true -> d_type d = l1 ++ c :: l2 ->
    tc_bad (root (do_type_changes conv true l1 (before_types d v))) c = true ->
    0 < snd (apply conv ro ao d v).
Proof. exact apply_detects_type_when_reached. Qed.
Print Assumptions C08_detects_when_reached_type.

(* 3b. for the initial base, when the entries applied earlier write at
   diverging paths *)
Theorem C08_detects_corruption :
  forall conv ro ao d v c cur old,
    d_bidir d = true -> pairwise_div (map vc_path (d_val d)) = true ->
    In c (d_val d) ->
    resolve v (vc_path c) = Some cur -> vc_old c = Some old -> py_eqv old cur = false ->
    0 < snd (apply conv ro ao d v).
Proof.
  intros conv ro ao d v c cur old B P Hin R O N.
  apply (apply_detects_value_indep conv ro ao d v c B P Hin).
  unfold vc_bad, old_mismatch. rewrite R, O, N. reflexivity.
Qed.
Print Assumptions C08_detects_corruption.

Theorem C08_detects_missing_location :
  forall conv ro ao d v c,
    d_bidir d = true -> pairwise_div (map vc_path (d_val d)) = true ->
    In c (d_val d) -> resolve v (vc_path c) = None ->
    0 < snd (apply conv ro ao d v).
Proof.
  intros conv ro ao d v c B P Hin R.
  apply (apply_detects_value_indep conv ro ao d v c B P Hin).
  unfold vc_bad, old_mismatch. rewrite R. reflexivity.
Qed.
Print Assumptions C08_detects_missing_location.

Theorem C08_detects_corruption_type :
  forall conv ro ao d v c,
    d_bidir d = true -> indep_verified d = true ->
    In c (d_type d) -> tc_bad v c = true ->
    0 < snd (apply conv ro ao d v).
Proof. exact apply_detects_type_indep. Qed.
Print Assumptions C08_detects_corruption_type.

(* 3c. for the bidirectional delta of a diff and the ORIGINAL t1 (with C04: the
   recorded old value is the value t1 has at the location): a base that has
   nothing at a changed location, or a value != the one t1 has there *)
Theorem C08_detects_corruption_of_diff :
  forall hatom udiff ops skip excl c conv ro ao always ops' t1 t2,
    thr_num c <= thr_den c -> wf t1 = true -> wf t2 = true ->
    let r := run_diff hatom udiff ops skip excl c t1 t2 in
    let d := to_delta conv true always ops' t1 t2 (fst r) (snd r) in
    indep_verified d = true ->
    forall e v, In e (fst r) -> ekind e = KValue \/ ekind e = KType ->
      differs_at t1 v (ep1 e) ->
      0 < snd (apply conv ro ao d v).
Proof.
  intros hatom udiff ops skip excl c conv ro ao always ops' t1 t2 Hthr W1 W2 r d G e v He [K|K] D.
  - eapply diff_delta_detects_value; eassumption.
  - eapply diff_delta_detects_type; eassumption.
Qed.
Print Assumptions C08_detects_corruption_of_diff.

(* 3d. the guard [indep_verified] is a theorem for the delta of a diff: in
   positional mode (zip_ordered_iterables=True) outright, in default mode when
   the t1 ranges of the opcodes the oracle returns are sorted and disjoint
   ([ops_disjoint], true of difflib).  [keys_nonneg t2]: no negative int among
   the dict keys of t2 (the container-agnostic [diverge] cannot tell such a key
   from a list index). *)
Theorem C08_indep_guard_of_diff :
  forall hatom udiff ops skip excl c conv always ops' t1 t2,
    zip c = true \/ ops_disjoint ops ->
    wf t1 = true -> wf t2 = true -> keys_nonneg t2 = true ->
    let r := run_diff hatom udiff ops skip excl c t1 t2 in
    indep_verified (to_delta conv true always ops' t1 t2 (fst r) (snd r)) = true.
Proof.
  intros hatom udiff ops skip excl c conv always ops' t1 t2 [Z|O].
  - apply diff_delta_indep_zip. exact Z.
  - apply diff_delta_indep_ops. exact O.
Qed.
Print Assumptions C08_indep_guard_of_diff.

(* hence, without any independence hypothesis *)
Theorem C08_detects_corruption_of_diff_all :
  forall hatom udiff ops skip excl c conv ro ao always ops' t1 t2,
    zip c = true \/ ops_disjoint ops ->
    thr_num c <= thr_den c -> wf t1 = true -> wf t2 = true -> keys_nonneg t2 = true ->
    let r := run_diff hatom udiff ops skip excl c t1 t2 in
    let d := to_delta conv true always ops' t1 t2 (fst r) (snd r) in
    forall e v, In e (fst r) -> ekind e = KValue \/ ekind e = KType ->
      differs_at t1 v (ep1 e) ->
      0 < snd (apply conv ro ao d v).
Proof.
  intros hatom udiff ops skip excl c conv ro ao always ops' t1 t2 M Hthr W1 W2 N2 r d e v He K D.
  apply (C08_detects_corruption_of_diff hatom udiff ops skip excl c conv ro ao always ops' t1 t2 Hthr W1 W2
           (C08_indep_guard_of_diff hatom udiff ops skip excl c conv always ops' t1 t2 M W1 W2 N2) e v He K D).
Qed.
Print Assumptions C08_detects_corruption_of_diff_all.

(* ... and for EVERY opcode oracle that is a valid alignment of all-atom lists (round 3): the tiling
   property implies [ops_disjoint] where the diff consults the oracle *)
Theorem C08_indep_guard_of_diff_valid :
  forall hatom udiff ops skip excl c conv always ops' t1 t2,
    (forall p xs ys, forallb is_atom xs = true -> forallb is_atom ys = true -> valid_ops xs ys (ops p xs ys)) ->
    wf t1 = true -> wf t2 = true -> keys_nonneg t2 = true ->
    let r := run_diff hatom udiff ops skip excl c t1 t2 in
    indep_verified (to_delta conv true always ops' t1 t2 (fst r) (snd r)) = true.
Proof. exact indep_guard_valid. Qed.
Print Assumptions C08_indep_guard_of_diff_valid.

Theorem C08_detects_corruption_of_diff_all_valid :
  forall hatom udiff ops skip excl c conv ro ao always ops' t1 t2,
    (forall p xs ys, forallb is_atom xs = true -> forallb is_atom ys = true -> valid_ops xs ys (ops p xs ys)) ->
    thr_num c <= thr_den c -> wf t1 = true -> wf t2 = true -> keys_nonneg t2 = true ->
    let r := run_diff hatom udiff ops skip excl c t1 t2 in
    let d := to_delta conv true always ops' t1 t2 (fst r) (snd r) in
    forall e v, In e (fst r) -> ekind e = KValue \/ ekind e = KType ->
      differs_at t1 v (ep1 e) ->
      0 < snd (apply conv ro ao d v).
Proof.
  intros hatom udiff ops skip excl c conv ro ao always ops' t1 t2 M Hthr W1 W2 N2 r d e v He K D.
  apply (C08_detects_corruption_of_diff hatom udiff ops skip excl c conv ro ao always ops' t1 t2 Hthr W1 W2
           (C08_indep_guard_of_diff_valid hatom udiff ops skip excl c conv always ops' t1 t2 M W1 W2 N2) e v He K D).
Qed.
Print Assumptions C08_detects_corruption_of_diff_all_valid.

(* the hypotheses are satisfiable (a nested dict / list pair in positional mode) *)
Theorem C08_detects_corruption_of_diff_all_instance :
  zip ex_cfg = true /\ wf ex_t1 = true /\ wf ex_t2 = true /\ keys_nonneg ex_t2 = true /\
  exists e, In e (fst ex_r) /\ ekind e = KValue /\ differs_at ex_t1 ex_base_val (ep1 e).
Proof.
  repeat split; try reflexivity.
  exists (mkEntry KValue [PKey (K "a"%string); PIdx 1] [PKey (K "a"%string); PIdx 1] (Some (I 2)) (Some (I 5)) None).
  split; [vm_compute; left; reflexivity|]. split; [reflexivity|].
  unfold differs_at. vm_compute. eexists. split; reflexivity.
Qed.
Print Assumptions C08_detects_corruption_of_diff_all_instance.

(* ... and in default mode with recorded opcodes ([1,2,3,4] -> [0,1,2,3,5] with
   the opcodes difflib returns; base [1,2,3,7]) *)
Theorem C08_detects_corruption_of_diff_all_instance_default_mode :
  zip ex4_cfg = false /\ ops_disjoint ex4_ops /\ snd ex4_r = [[]] /\
  wf ex4_t1 = true /\ wf ex4_t2 = true /\ keys_nonneg ex4_t2 = true /\
  (exists e, In e (fst ex4_r) /\ ekind e = KValue /\ differs_at ex4_t1 ex4_base (ep1 e)) /\
  0 < snd (apply ex_conv ex_ro ex_ao ex4_d ex4_base).
Proof.
  assert (E : In (mkEntry KValue [PIdx 3] [PIdx 4] (Some (I 4)) (Some (I 5)) None) (fst ex4_r))
    by (vm_compute; right; left; reflexivity).
  assert (D : differs_at ex4_t1 ex4_base [PIdx 3])
    by (unfold differs_at; vm_compute; eexists; split; reflexivity).
  split; [reflexivity|]. split; [intros p xs ys; reflexivity|]. split; [reflexivity|].
  split; [reflexivity|]. split; [reflexivity|]. split; [reflexivity|]. split.
  - eexists. split; [exact E|]. split; [reflexivity|exact D].
  - assert (M : zip ex4_cfg = true \/ ops_disjoint ex4_ops) by (right; intros p xs ys; reflexivity).
    assert (T : thr_num ex4_cfg <= thr_den ex4_cfg) by (cbn; repeat constructor).
    exact (C08_detects_corruption_of_diff_all hatom_simple (fun _ _ => []) ex4_ops no_paths no_paths ex4_cfg
             ex_conv ex_ro ex_ao false ex4_ops ex4_t1 ex4_t2 M T eq_refl eq_refl eq_refl
             _ ex4_base E (or_introl eq_refl) D).
Qed.
Print Assumptions C08_detects_corruption_of_diff_all_instance_default_mode.

(* the typed reading is false: the comparison is Python !=, a base holding 2.0
   where 2 was recorded is accepted without any error *)
Theorem C08_detects_typed_corruption_refuted :
  exists c cur old,
    In c (d_val ex_d) /\ resolve ex_base_alias (vc_path c) = Some cur /\ vc_old c = Some old /\
    value_eqb old cur = false /\ py_eqv old cur = true /\
    apply ex_conv ex_ro ex_ao ex_d ex_base_alias = (ex_t2, 0).
Proof. exact ex_typed_corruption_accepted. Qed.
Print Assumptions C08_detects_typed_corruption_refuted.

(* the guards are satisfiable: a three-entry delta of a nested diff, its
   corrupted bases (value, type, missing key) *)
Theorem C08_detection_guards_satisfiable :
  indep_verified ex_d = true /\ d_bidir ex_d = true /\
  List.length (d_val ex_d) = 2 /\ List.length (d_type ex_d) = 1 /\
  0 < snd (apply ex_conv ex_ro ex_ao ex_d ex_base_val) /\
  0 < snd (apply ex_conv ex_ro ex_ao ex_d ex_base_type) /\
  0 < snd (apply ex_conv ex_ro ex_ao ex_d ex_base_missing) /\
  apply ex_conv ex_ro ex_ao ex_d ex_t1 = (ex_t2, 0).
Proof.
  split; [exact ex_indep|]. split; [reflexivity|]. split; [vm_compute; reflexivity|].
  split; [vm_compute; reflexivity|]. split; [exact ex_detect_value|]. split; [exact ex_detect_type|].
  split; [exact ex_detect_missing|exact ex_forward].
Qed.
Print Assumptions C08_detection_guards_satisfiable.

(* ================================================================== *)
(* 4. structure of the reversal                                        *)
(* ================================================================== *)
Theorem C08_reverse_keeps_bidirectional : forall d, d_bidir (reverse d) = d_bidir d.
Proof. exact reverse_bidir. Qed.
Print Assumptions C08_reverse_keeps_bidirectional.

(* reversing twice gives the delta back up to what reversal drops: new_path
   (the reverse key replaces the path) and absent old values ([dnorm]) ... *)
Theorem C08_reverse_reverse : forall d, reverse (reverse d) = dnorm d.
Proof. exact reverse_reverse. Qed.
Print Assumptions C08_reverse_reverse.

(* ... exactly, when there is nothing to drop; in particular on every reversed delta *)
Theorem C08_reverse_involutive_clean : forall d, clean d -> reverse (reverse d) = d.
Proof. exact reverse_reverse_clean. Qed.
Print Assumptions C08_reverse_involutive_clean.

Theorem C08_reverse_thrice : forall d, reverse (reverse (reverse d)) = reverse d.
Proof. exact reverse_thrice. Qed.
Print Assumptions C08_reverse_thrice.

(* the reverse of the delta of a result tree is, for every field apply reads,
   the forward delta of the mirrored tree (old <-> new, t1-path <-> t2-path,
   added <-> removed, opcodes mirrored) with t1 and t2 exchanged *)
Theorem C08_reverse_is_delta_of_mirror :
  forall conv conv' always ops t1 t2 es rec,
    Forall sym_ok es ->
    same_payload (reverse (to_delta conv true always ops t1 t2 es rec))
                 (to_delta conv' true always (mirror_ops ops) t2 t1 (map mirror_entry es) rec).
Proof. exact reverse_to_delta_mirror. Qed.
Print Assumptions C08_reverse_is_delta_of_mirror.

Theorem C08_apply_reads_payload_only :
  forall conv ro ao d d' v, same_payload d d' -> apply conv ro ao d v = apply conv ro ao d' v.
Proof. exact apply_same_payload. Qed.
Print Assumptions C08_apply_reads_payload_only.

(* hence  v - delta  =  v + (forward delta of the mirrored tree); the guard
   [sym_ok] holds for every entry of an ordered diff (both modes, every opcode /
   skip oracle) provided moved items are identical at both ends *)
Theorem C08_sub_of_diff_delta_is_add_of_mirror :
  forall hatom udiff ops skip excl c conv conv' ro ao always ops' t1 t2 v,
    thr_num c <= thr_den c -> wf t1 = true -> wf t2 = true ->
    let r := run_diff hatom udiff ops skip excl c t1 t2 in
    moved_identical (fst r) ->
    sub conv ro ao (to_delta conv' true always ops' t1 t2 (fst r) (snd r)) v =
    Some (apply conv ro ao (to_delta conv' true always (mirror_ops ops') t2 t1
                                     (map mirror_entry (fst r)) (snd r)) v).
Proof. exact sub_of_diff_delta. Qed.
Print Assumptions C08_sub_of_diff_delta_is_add_of_mirror.

(* ================================================================== *)
(* 5. t2 - delta = t1                                                  *)
(* ================================================================== *)
(* the full statement is false of the faithful model (finding KA): the
   bidirectional delta of {False,'a'} -> {0,'a'} subtracted from {0,'a'}
   gives {'a'} and logs nothing *)
Definition ka_t1 : value := VSet [ABool false; K "a"%string].
Definition ka_t2 : value := VSet [AInt 0; K "a"%string].
Theorem C08_sub_inverts_refuted :
  let r := run_diff hatom_simple (fun _ _ => []) ex_ops no_paths no_paths ex_cfg ka_t1 ka_t2 in
  let d := to_delta ex_conv true false ex_ops ka_t1 ka_t2 (fst r) (snd r) in
  wf ka_t1 = true /\ wf ka_t2 = true /\
  sub ex_conv ex_ro ex_ao d ka_t2 = Some (VSet [K "a"%string], 0) /\
  py_eqv (VSet [K "a"%string]) ka_t1 = false.
Proof. vm_compute. repeat split. Qed.
Print Assumptions C08_sub_inverts_refuted.

(* partial: the in-place fragment.  A bidirectional delta made of value / type
   changes only ([inplace]; any number, any nesting depth) at pairwise
   diverging existing locations, whose recorded old values are the values of
   v1 (C04 for the delta of a diff), whose new values are well-formed, with
   no tuple as the parent of a written item ([ntp]): if v1 + d = v2 without
   error then v2 - d = v1 without error *)
Theorem C08_sub_inverts_partial :
  forall conv ro ao, ro [] = [] ->
  forall d v1 v2,
    inplace d -> d_bidir d = true ->
    pairwise_div (map wpath (writes d)) = true ->
    (forall w, In w (writes d) ->
       resolve v1 (wpath w) = Some (snd (fst w)) /\ wf (snd w) = true /\ ntp v1 (wpath w)) ->
    apply conv ro ao d v1 = (v2, 0) ->
    sub conv ro ao d v2 = Some (v1, 0).
Proof. exact inplace_sub_inverts. Qed.
Print Assumptions C08_sub_inverts_partial.

Theorem C08_sub_inverts_partial_guard_satisfiable :
  inplace ex_d /\ d_bidir ex_d = true /\
  pairwise_div (map wpath (writes ex_d)) = true /\
  (forall w, In w (writes ex_d) ->
     resolve ex_t1 (wpath w) = Some (snd (fst w)) /\ wf (snd w) = true /\ ntp ex_t1 (wpath w)) /\
  apply ex_conv ex_ro ex_ao ex_d ex_t1 = (ex_t2, 0) /\ List.length (writes ex_d) = 3.
Proof.
  split; [exact ex_inplace|]. split; [reflexivity|]. destruct ex_writes_ok as [P H].
  split; [exact P|]. split; [exact H|]. split; [exact ex_forward|vm_compute; reflexivity].
Qed.
Print Assumptions C08_sub_inverts_partial_guard_satisfiable.

(* a flat tuple (the one tuple shape Delta can edit: the root tuple is coerced to a
   list by the first write and restored by _do_post_process): the run on
   (x0,..,xn) is the run on [x0,..,xn] re-tupled, errors included ... *)
Theorem C08_flat_tuple_is_list_run :
  forall conv ro ao, ro [] = [] ->
  forall d xs,
    inplace d -> d_bidir d = true -> Forall (fun w => flat_path (wpath w)) (writes d) ->
    exists ys n, apply conv ro ao d (VList xs) = (VList ys, n) /\
                 apply conv ro ao d (VTuple xs) = (VTuple ys, n).
Proof. exact flat_tuple_transfer. Qed.
Print Assumptions C08_flat_tuple_is_list_run.

(* ... hence the inversion theorem without the no-tuple-parent guard *)
Theorem C08_sub_inverts_partial_flat_tuple :
  forall conv ro ao, ro [] = [] ->
  forall d xs v2,
    inplace d -> d_bidir d = true -> Forall (fun w => flat_path (wpath w)) (writes d) ->
    pairwise_div (map wpath (writes d)) = true ->
    (forall w, In w (writes d) ->
       resolve (VTuple xs) (wpath w) = Some (snd (fst w)) /\ wf (snd w) = true) ->
    apply conv ro ao d (VTuple xs) = (v2, 0) ->
    sub conv ro ao d v2 = Some (VTuple xs, 0).
Proof. exact flat_tuple_sub_inverts. Qed.
Print Assumptions C08_sub_inverts_partial_flat_tuple.

Theorem C08_sub_inverts_partial_flat_tuple_instance :
  inplace ex5_d /\ Forall (fun w => flat_path (wpath w)) (writes ex5_d) /\
  pairwise_div (map wpath (writes ex5_d)) = true /\
  (forall w, In w (writes ex5_d) ->
     resolve (VTuple ex5_xs) (wpath w) = Some (snd (fst w)) /\ wf (snd w) = true) /\
  apply ex_conv ex_ro ex_ao ex5_d (VTuple ex5_xs) = (ex5_t2, 0) /\ List.length (writes ex5_d) = 2.
Proof. split; [exact ex5_inplace|exact ex5_guards]. Qed.
Print Assumptions C08_sub_inverts_partial_flat_tuple_instance.

(* the same for the bidirectional delta of a diff that reports value / type
   changes at one path each ([inplace_entry]) and records no opcodes: all
   hypotheses about the delta are discharged from the diff model (C04, the
   independence theorem); what remains is C01 (t1 + d = t2 without error) and
   "no tuple is the parent of a changed item" *)
Theorem C08_sub_inverts_of_diff_partial :
  forall hatom udiff ops skip excl c conv ro ao always ops' t1 t2,
    zip c = true \/ ops_disjoint ops ->
    thr_num c <= thr_den c -> wf t1 = true -> wf t2 = true -> keys_nonneg t2 = true ->
    ro [] = [] ->
    let r := run_diff hatom udiff ops skip excl c t1 t2 in
    let d := to_delta conv true always ops' t1 t2 (fst r) (snd r) in
    snd r = [] -> Forall inplace_entry (fst r) ->
    (forall e, In e (fst r) -> ntp t1 (npath (ep1 e))) ->
    apply conv ro ao d t1 = (t2, 0) ->
    sub conv ro ao d t2 = Some (t1, 0).
Proof.
  intros hatom udiff ops skip excl c conv ro ao always ops' t1 t2 M Hthr W1 W2 N2 Hro r d Hrec Hes Hn A.
  pose proof (C08_indep_guard_of_diff hatom udiff ops skip excl c conv always ops' t1 t2 M W1 W2 N2) as G.
  fold r in G. cbv zeta in G. unfold d in *. rewrite Hrec in *.
  apply diff_inplace_sub_inverts; try assumption.
  apply Forall_forall. intros e He. eapply run_diff_faithful; eassumption.
Qed.
Print Assumptions C08_sub_inverts_of_diff_partial.

Theorem C08_sub_inverts_of_diff_partial_instance :
  zip ex_cfg = true /\ wf ex_t1 = true /\ wf ex_t2 = true /\ keys_nonneg ex_t2 = true /\
  snd ex_r = [] /\ Forall inplace_entry (fst ex_r) /\ List.length (fst ex_r) = 3 /\
  (forall e, In e (fst ex_r) -> ntp ex_t1 (npath (ep1 e))) /\
  apply ex_conv ex_ro ex_ao ex_d ex_t1 = (ex_t2, 0).
Proof.
  repeat split; try reflexivity.
  - vm_compute. repeat constructor; (left; reflexivity) || (right; reflexivity).
  - intros e He. vm_compute in He. repeat (destruct He as [<-|He]; [vm_compute; reflexivity|]). contradiction.
Qed.
Print Assumptions C08_sub_inverts_of_diff_partial_instance.

(* ================================================================== *)
(* 6. back and forth, any length                                       *)
(* ================================================================== *)
(* [run_seq d l v]: the value after the +/- sequence l and the total number
   of errors; [alternating Plus k] = +,-,+,... (k steps) *)
Theorem C08_back_and_forth :
  forall conv ro ao d t1 t2,
    apply conv ro ao d t1 = (t2, 0) -> sub conv ro ao d t2 = Some (t1, 0) ->
    forall k,
      run_seq conv ro ao d (alternating Plus k) t1 = Some (if Nat.even k then t1 else t2, 0) /\
      run_seq conv ro ao d (alternating Minus k) t2 = Some (if Nat.even k then t2 else t1, 0).
Proof. exact back_and_forth. Qed.
Print Assumptions C08_back_and_forth.

Theorem C08_back_and_forth_partial :
  forall conv ro ao, ro [] = [] ->
  forall d v1 v2,
    inplace d -> d_bidir d = true ->
    pairwise_div (map wpath (writes d)) = true ->
    (forall w, In w (writes d) ->
       resolve v1 (wpath w) = Some (snd (fst w)) /\ wf (snd w) = true /\ ntp v1 (wpath w)) ->
    apply conv ro ao d v1 = (v2, 0) ->
    forall k,
      run_seq conv ro ao d (alternating Plus k) v1 = Some (if Nat.even k then v1 else v2, 0) /\
      run_seq conv ro ao d (alternating Minus k) v2 = Some (if Nat.even k then v2 else v1, 0).
Proof. intros conv ro ao H. exact (inplace_back_and_forth_any conv ro ao H). Qed.
Print Assumptions C08_back_and_forth_partial.

(* ================================================================== *)
(* 7. with C01 plugged in (Delta/DeltaRoundtrip.v)                     *)
(* ================================================================== *)
(* For the bidirectional delta of a diff that reports value / type changes at
   one path each: under the guards of C01 ([guards]: wf, no ==-equal atoms of
   different type, tuples of atoms of equal length; injective set-member hash,
   typed constructor oracle, valid opcodes, sorted visiting orders) and the
   guards of the independence theorem, the sum t1 + d exists without error, is
   t2 up to dict / set order, and subtracting d from it gives back t1 exactly *)
Theorem C08_add_then_sub_of_diff :
  forall hatom udiff ops c conv always,
    (forall a b, hatom a = hatom b -> a = b) ->
    (forall ty0 v v', conv ty0 v = Some v' -> type_of v' = ty0) ->
  forall ro ao, ro_ok ro -> ao_ok ao ->
    (forall p xs ys, forallb is_atom xs = true -> forallb is_atom ys = true -> valid_ops xs ys (ops p xs ys)) ->
  forall t1 t2,
    guards c conv true always t1 t2 ->
    zip c = true \/ ops_disjoint ops -> thr_num c <= thr_den c -> keys_nonneg t2 = true ->
    let r := run_diff hatom udiff ops nos nos c t1 t2 in
    let d := to_delta conv true always ops t1 t2 (fst r) (snd r) in
    snd r = [] -> Forall inplace_entry (fst r) ->
    (forall e, In e (fst r) -> ntp t1 (npath (ep1 e))) ->
    exists t2', apply conv ro ao d t1 = (t2', 0) /\ veqb t2' t2 = true /\
                sub conv ro ao d t2' = Some (t1, 0).
Proof. exact add_then_sub_of_diff. Qed.
Print Assumptions C08_add_then_sub_of_diff.

(* ... every +,-,+,... sequence of any length moves between t1 and that sum ... *)
Theorem C08_back_and_forth_of_diff :
  forall hatom udiff ops c conv always,
    (forall a b, hatom a = hatom b -> a = b) ->
    (forall ty0 v v', conv ty0 v = Some v' -> type_of v' = ty0) ->
  forall ro ao, ro_ok ro -> ao_ok ao ->
    (forall p xs ys, forallb is_atom xs = true -> forallb is_atom ys = true -> valid_ops xs ys (ops p xs ys)) ->
  forall t1 t2,
    guards c conv true always t1 t2 ->
    zip c = true \/ ops_disjoint ops -> thr_num c <= thr_den c -> keys_nonneg t2 = true ->
    let r := run_diff hatom udiff ops nos nos c t1 t2 in
    let d := to_delta conv true always ops t1 t2 (fst r) (snd r) in
    snd r = [] -> Forall inplace_entry (fst r) ->
    (forall e, In e (fst r) -> ntp t1 (npath (ep1 e))) ->
    exists t2', veqb t2' t2 = true /\
      forall k,
        run_seq conv ro ao d (alternating Plus k) t1 = Some (if Nat.even k then t1 else t2', 0) /\
        run_seq conv ro ao d (alternating Minus k) t2' = Some (if Nat.even k then t2' else t1, 0).
Proof. exact back_and_forth_of_diff. Qed.
Print Assumptions C08_back_and_forth_of_diff.

(* ... and when t2 holds no dict / set the sum is t2 itself: the first two
   clauses of the property, unconditionally on that fragment *)
Theorem C08_sub_inverts_of_diff_ordfree :
  forall hatom udiff ops c conv always,
    (forall a b, hatom a = hatom b -> a = b) ->
    (forall ty0 v v', conv ty0 v = Some v' -> type_of v' = ty0) ->
  forall ro ao, ro_ok ro -> ao_ok ao ->
    (forall p xs ys, forallb is_atom xs = true -> forallb is_atom ys = true -> valid_ops xs ys (ops p xs ys)) ->
  forall t1 t2,
    guards c conv true always t1 t2 ->
    zip c = true \/ ops_disjoint ops -> thr_num c <= thr_den c -> keys_nonneg t2 = true ->
    let r := run_diff hatom udiff ops nos nos c t1 t2 in
    let d := to_delta conv true always ops t1 t2 (fst r) (snd r) in
    snd r = [] -> Forall inplace_entry (fst r) ->
    (forall e, In e (fst r) -> ntp t1 (npath (ep1 e))) ->
    ordfree t2 = true ->
    apply conv ro ao d t1 = (t2, 0) /\ sub conv ro ao d t2 = Some (t1, 0).
Proof. exact sub_inverts_of_diff_ordfree. Qed.
Print Assumptions C08_sub_inverts_of_diff_ordfree.

(* the guards on the data hold together for the nested example pair *)
Theorem C08_add_then_sub_of_diff_data_guards_instance :
  guardsb ex_cfg true false ex_t1 ex_t2 = true /\ zip ex_cfg = true /\ keys_nonneg ex_t2 = true /\
  snd ex_r = [] /\ Forall inplace_entry (fst ex_r) /\
  (forall e, In e (fst ex_r) -> ntp ex_t1 (npath (ep1 e))).
Proof.
  split; [vm_compute; reflexivity|].
  destruct C08_sub_inverts_of_diff_partial_instance as (Z & _ & _ & N & R & I & _ & T & _).
  repeat split; assumption.
Qed.
Print Assumptions C08_add_then_sub_of_diff_data_guards_instance.

(* ================================================================== *)
(* 8. t2 - delta = t1 for ALL payload categories, positional mode      *)
(* ================================================================== *)
(* the ordered diff is symmetric in positional mode: the tree of DeepDiff(t2,t1)
   is, kind by kind and up to the diff text ([keq]), the mirrored tree of
   DeepDiff(t1,t2) - for values without ==-aliased atoms, with all dict keys
   visible, whose paired dicts list their common keys in the same order ([sg]) *)
Theorem C08_diff_symmetric_positional :
  forall hatom udiff ops c, zip c = true ->
  forall t1 t2 p, sg c t1 t2 ->
    keq (fst (diff hatom udiff ops DeltaReverseSym.nos DeltaReverseSym.nos c t2 t1 p p))
        (map mirror_entry (fst (diff hatom udiff ops DeltaReverseSym.nos DeltaReverseSym.nos c t1 t2 p p))).
Proof. intros hatom udiff ops c Z t1. exact (diff_sym hatom udiff ops c Z t1). Qed.
Print Assumptions C08_diff_symmetric_positional.

(* to_delta reads the tree only through the per-kind sub-lists, never the diff text *)
Theorem C08_delta_of_kindwise_equal_trees :
  forall conv bidir always ops T1 T2 es es' rec,
    keq es es' -> to_delta conv bidir always ops T1 T2 es rec = to_delta conv bidir always ops T1 T2 es' rec.
Proof. exact to_delta_keq. Qed.
Print Assumptions C08_delta_of_kindwise_equal_trees.

(* hence, with C01 at the reverse pair: value / type changes, dictionary items,
   iterable items, set items, any nesting.  Guards: C01's [guards] for (t2,t1)
   (wf, no ==-aliased atoms, tuples of atoms of equal length, visible keys) and its
   oracle conditions; [korder t1 t2]; no negative int dict keys; threshold <= 1.
   The result is t1 up to dict insertion order / set order ([veqb]). *)
Theorem C08_sub_inverts_positional :
  forall hatom udiff ops c conv always,
    zip c = true -> thr_num c <= thr_den c ->
    (forall a b, hatom a = hatom b -> a = b) ->
    (forall ty0 v v', conv ty0 v = Some v' -> type_of v' = ty0) ->
  forall ro ao, ro_ok ro -> ao_ok ao ->
    (forall p xs ys, forallb is_atom xs = true -> forallb is_atom ys = true -> valid_ops xs ys (ops p xs ys)) ->
  forall t1 t2,
    guards c conv true always t2 t1 -> korder t1 t2 ->
    keys_nonneg t1 = true -> keys_nonneg t2 = true ->
    let r := run_diff hatom udiff ops DeltaReverseSym.nos DeltaReverseSym.nos c t1 t2 in
    let d := to_delta conv true always ops t1 t2 (fst r) (snd r) in
    exists t1', sub conv ro ao d t2 = Some (t1', 0) /\ veqb t1' t1 = true.
Proof. exact zip_sub_inverts. Qed.
Print Assumptions C08_sub_inverts_positional.

Theorem C08_add_and_sub_positional :
  forall hatom udiff ops c conv always,
    zip c = true -> thr_num c <= thr_den c ->
    (forall a b, hatom a = hatom b -> a = b) ->
    (forall ty0 v v', conv ty0 v = Some v' -> type_of v' = ty0) ->
  forall ro ao, ro_ok ro -> ao_ok ao ->
    (forall p xs ys, forallb is_atom xs = true -> forallb is_atom ys = true -> valid_ops xs ys (ops p xs ys)) ->
  forall t1 t2,
    guards c conv true always t2 t1 -> korder t1 t2 ->
    keys_nonneg t1 = true -> keys_nonneg t2 = true ->
    guards c conv true always t1 t2 ->
    let r := run_diff hatom udiff ops DeltaReverseSym.nos DeltaReverseSym.nos c t1 t2 in
    let d := to_delta conv true always ops t1 t2 (fst r) (snd r) in
    (exists t2', apply conv ro ao d t1 = (t2', 0) /\ veqb t2' t2 = true) /\
    (exists t1', sub conv ro ao d t2 = Some (t1', 0) /\ veqb t1' t1 = true).
Proof. exact zip_add_and_sub. Qed.
Print Assumptions C08_add_and_sub_positional.

(* the guards on the data hold together for a pair with a changed set, a grown
   list, a removed key and a type change *)
Theorem C08_sub_inverts_positional_data_guards_instance :
  zip ex_cfg = true /\ guardsb ex_cfg true false ex2_t2 ex2_t1 = true /\ guardsb ex_cfg true false ex2_t1 ex2_t2 = true /\
  korder ex2_t1 ex2_t2 /\ keys_nonneg ex2_t1 = true /\ keys_nonneg ex2_t2 = true /\
  d_sadd ex2_d <> [] /\ d_iadd ex2_d <> [] /\ d_drem ex2_d <> [] /\ d_type ex2_d <> [].
Proof.
  split; [reflexivity|]. split; [vm_compute; reflexivity|]. split; [vm_compute; reflexivity|].
  split; [cbn; repeat split|]. split; [reflexivity|]. split; [reflexivity|].
  repeat split; vm_compute; discriminate.
Qed.
Print Assumptions C08_sub_inverts_positional_data_guards_instance.

(* ================================================================== *)
(* 9. default mode (difflib alignments) and the order of a pass        *)
(* ================================================================== *)
(* the symmetry of the diff holds in BOTH modes before mutual_add_removes, with
   the mirrored opcode oracle; the same opcode paths are recorded *)
Theorem C08_diff_symmetric :
  forall hatom udiff ops c t1 t2 p, sg c t1 t2 ->
    keq (fst (diff hatom udiff (mirror_ops ops) DeltaReverseSym.nos DeltaReverseSym.nos c t2 t1 p p))
        (map mirror_entry (fst (diff hatom udiff ops DeltaReverseSym.nos DeltaReverseSym.nos c t1 t2 p p))) /\
    snd (diff hatom udiff (mirror_ops ops) DeltaReverseSym.nos DeltaReverseSym.nos c t2 t1 p p) =
    snd (diff hatom udiff ops DeltaReverseSym.nos DeltaReverseSym.nos c t1 t2 p p).
Proof. intros hatom udiff ops c t1. exact (diff_sym2 hatom udiff ops c t1). Qed.
Print Assumptions C08_diff_symmetric.

(* t2 - delta = t1 up to dict / set order, ALL categories, ANY mode (recorded
   opcodes and moved items included), when mutual_add_removes changes nothing:
   no list index is both removed and added in the tree of DeepDiff(t1,t2)
   ([no_clash]).  No keys_nonneg guard. *)
Theorem C08_sub_inverts_default_partial :
  forall hatom udiff ops c conv always,
    thr_num c <= thr_den c ->
    (forall a b, hatom a = hatom b -> a = b) ->
    (forall ty0 v v', conv ty0 v = Some v' -> type_of v' = ty0) ->
  forall ro ao, ro_ok ro -> ao_ok ao ->
    (forall p xs ys, forallb is_atom xs = true -> forallb is_atom ys = true -> valid_ops xs ys (ops p xs ys)) ->
  forall t1 t2,
    guards c conv true always t2 t1 -> korder t1 t2 ->
    no_clash (fst (diff hatom udiff ops DeltaReverseSym.nos DeltaReverseSym.nos c t1 t2 [] [])) ->
    let r := run_diff hatom udiff ops DeltaReverseSym.nos DeltaReverseSym.nos c t1 t2 in
    let d := to_delta conv true always ops t1 t2 (fst r) (snd r) in
    exists t1', sub conv ro ao d t2 = Some (t1', 0) /\ veqb t1' t1 = true.
Proof. exact default_sub_inverts. Qed.
Print Assumptions C08_sub_inverts_default_partial.

Theorem C08_sub_inverts_default_partial_instance :
  zip ex4_cfg = false /\ guardsb ex4_cfg true false ex4_t2 ex4_t1 = true /\ korder ex4_t1 ex4_t2 /\
  no_clash (fst (diff hatom_simple (fun _ _ => []) ex4_ops DeltaReverseSym.nos DeltaReverseSym.nos ex4_cfg ex4_t1 ex4_t2 [] [])) /\
  snd ex4_r = [[]] /\ d_ops ex4_d <> [] /\ d_val ex4_d <> [].
Proof.
  split; [reflexivity|]. split; [vm_compute; reflexivity|]. split; [cbn; repeat split|]. split.
  - intros a r Ha Hr Ka Kr. vm_compute in Ha, Hr.
    destruct Hr as [<-|[<-|[]]]; discriminate Kr.
  - split; [reflexivity|]. split; vm_compute; discriminate.
Qed.
Print Assumptions C08_sub_inverts_default_partial_instance.

(* the order of the entries of a values_changed / type_changes pass: irrelevant
   for a clean (error-free) bidirectional pass that coerces no tuple and whose
   paths diverge pairwise (same root, same post list, same error count) ... *)
Theorem C08_values_changed_perm_clean :
  forall l l' s,
    Permutation.Permutation l l' -> pairwise_div (map vc_path l) = true ->
    Forall (fun c => exists o, vc_old c = Some o) l ->
    (forall c, In c l -> ntp (root s) (vc_path c)) ->
    errs (do_values_changed true l s) = errs s ->
    do_values_changed true l' s = do_values_changed true l s.
Proof. exact values_changed_perm_clean. Qed.
Print Assumptions C08_values_changed_perm_clean.

Theorem C08_type_changes_perm_clean :
  forall conv l l' s,
    Permutation.Permutation l l' -> pairwise_div (map tc_path l) = true ->
    Forall (fun c => (exists o, tc_old c = Some o) /\ exists n, tc_new c = Some n) l ->
    (forall c, In c l -> ntp (root s) (tc_path c)) ->
    errs (do_type_changes conv true l s) = errs s ->
    do_type_changes conv true l' s = do_type_changes conv true l s.
Proof. exact type_changes_perm_clean. Qed.
Print Assumptions C08_type_changes_perm_clean.

(* ... and false without those guards (finding F4 seen through the order of a
   pass): on the tuple (1, [2]) writing root[0] first coerces the root and lets
   root[1][0] be written; in the other order that write fails *)
Theorem C08_values_changed_perm_refuted :
  Permutation.Permutation [pr_c1; pr_c2] [pr_c2; pr_c1] /\
  pairwise_div (map vc_path [pr_c1; pr_c2]) = true /\
  errs (do_values_changed true [pr_c1; pr_c2] (mkSt pr_root [] 0)) = 0 /\
  errs (do_values_changed true [pr_c2; pr_c1] (mkSt pr_root [] 0)) = 1 /\
  root (do_values_changed true [pr_c1; pr_c2] (mkSt pr_root [] 0)) <>
  root (do_values_changed true [pr_c2; pr_c1] (mkSt pr_root [] 0)).
Proof. exact perm_refuted. Qed.
Print Assumptions C08_values_changed_perm_refuted.

(* ================================================================== *)
(* 10. default mode including the clash case                           *)
(* ================================================================== *)
(* when a list index is both removed and added, mutual_add_removes merges the two
   levels into a value change at the position of the removal: after mutual, the
   reverse tree is kind by kind the mirrored forward tree, except that its value
   changes come in another order *)
Theorem C08_mutual_mirror :
  forall esf esr,
    keq esr (map mirror_entry esf) -> iterk_same_paths esf ->
    NoDup (map ep1 (filter (is_kind KIterAdd) esf)) -> NoDup (map ep1 (filter (is_kind KIterRem) esf)) ->
    (forall k, k <> KValue -> ksub k (mutual esr) = ksub k (map mirror_entry (mutual esf))) /\
    Permutation.Permutation (ksub KValue (mutual esr)) (ksub KValue (map mirror_entry (mutual esf))).
Proof. exact mutual_mirror. Qed.
Print Assumptions C08_mutual_mirror.

(* t2 - delta = t1 up to dict / set order: ALL categories, ANY mode, with or without
   clashes.  Guards: C01's guards for (t2,t1) and its oracle conditions; korder;
   keys_nonneg t1; opcode t1 and t2 ranges sorted and disjoint in default mode
   (ops_sorted2, true of difflib); no tuple is the parent, in t2, of a location the
   subtraction writes a value change to (the order-insensitivity of the
   values_changed pass needs a coercion-free pass: C08_values_changed_perm_refuted) *)
Theorem C08_sub_inverts_default :
  forall hatom udiff ops c conv always,
    thr_num c <= thr_den c ->
    (forall a b, hatom a = hatom b -> a = b) ->
    (forall ty0 v v', conv ty0 v = Some v' -> type_of v' = ty0) ->
  forall ro ao, ro_ok ro -> ao_ok ao ->
    (forall p xs ys, forallb is_atom xs = true -> forallb is_atom ys = true -> valid_ops xs ys (ops p xs ys)) ->
    zip c = true \/ ops_sorted2 ops ->
  forall t1 t2,
    guards c conv true always t2 t1 -> korder t1 t2 -> keys_nonneg t1 = true ->
    let r := run_diff hatom udiff ops DeltaReverseSym.nos DeltaReverseSym.nos c t1 t2 in
    let d := to_delta conv true always ops t1 t2 (fst r) (snd r) in
    (forall cc, In cc (d_val (reverse d)) -> ntp t2 (vc_path cc)) ->
    exists t1', sub conv ro ao d t2 = Some (t1', 0) /\ veqb t1' t1 = true.
Proof. exact clash_sub_inverts. Qed.
Print Assumptions C08_sub_inverts_default.

(* the data guards hold for the K17 pair of C04 (['a','b','a','b'] -> ['c','a','b','b','a'] with
   the opcodes difflib returns), which IS a clash case: index 3 is removed and added *)
Definition k17_cfg : cfg := mkCfg false 33 100 true.
Definition k17_r := run_diff hatom_simple (fun _ _ => []) k17_ops DeltaReverseSym.nos DeltaReverseSym.nos k17_cfg k17_t1 k17_t2.
Definition k17_d : delta := to_delta ex_conv true false k17_ops k17_t1 k17_t2 (fst k17_r) (snd k17_r).
Theorem C08_sub_inverts_default_clash_instance :
  no_clashb (fst (diff hatom_simple (fun _ _ => []) k17_ops DeltaReverseSym.nos DeltaReverseSym.nos k17_cfg k17_t1 k17_t2 [] [])) = false /\
  guardsb k17_cfg true false k17_t2 k17_t1 = true /\ korder k17_t1 k17_t2 /\ keys_nonneg k17_t1 = true /\
  ops_ok2 0 0 (k17_ops [] [] []) = true /\
  (forall cc, In cc (d_val (reverse k17_d)) -> ntp k17_t2 (vc_path cc)) /\
  sub ex_conv ex_ro ex_ao k17_d k17_t2 = Some (k17_t1, 0).
Proof.
  split; [vm_compute; reflexivity|]. split; [vm_compute; reflexivity|]. split; [cbn; repeat split|].
  split; [reflexivity|]. split; [reflexivity|]. split; [|vm_compute; reflexivity].
  apply ntp_valsb_sound. vm_compute. reflexivity.
Qed.
Print Assumptions C08_sub_inverts_default_clash_instance.

(* ================================================================== *)
(* 11. both directions chained, all categories, both modes (round 3)   *)
(* ================================================================== *)
(* C01 identifies t1 + d with t2 only up to dict insertion order / set order, so the
   one-step facts chain only if subtraction is known FROM EVERY BASE that equals t2 up
   to that order.  Guards: C01's guards for (t2,t1); korder; the order oracles sort the
   lists of the reversed delta ([orders_ok_at ro ao (reverse d)]: weaker than the global
   ro_ok / ao_ok of sections 8-10); and either mutual_add_removes changes nothing
   ([no_clash]) or the two guards of the clash case.  The opcode oracle is ANY valid
   alignment of all-atom lists: sortedness of its ranges ([ops_sorted2] of section 10) is a
   consequence of the tiling property, and the diff never consults it on other lists
   (Delta/DeltaReverseOracle.v) *)
Theorem C08_sub_inverts_from_any_equal_base :
  forall hatom udiff ops c conv always,
    thr_num c <= thr_den c ->
    (forall a b, hatom a = hatom b -> a = b) ->
    (forall ty0 v v', conv ty0 v = Some v' -> type_of v' = ty0) ->
  forall ro ao,
    (forall p xs ys, forallb is_atom xs = true -> forallb is_atom ys = true -> valid_ops xs ys (ops p xs ys)) ->
  forall t1 t2,
    guards c conv true always t2 t1 -> korder t1 t2 ->
    let r := run_diff hatom udiff ops DeltaReverseSym.nos DeltaReverseSym.nos c t1 t2 in
    let d := to_delta conv true always ops t1 t2 (fst r) (snd r) in
    orders_ok_at ro ao (reverse d) ->
    (no_clash (fst (diff hatom udiff ops DeltaReverseSym.nos DeltaReverseSym.nos c t1 t2 [] [])) \/
     (keys_nonneg t1 = true /\ forall cc, In cc (d_val (reverse d)) -> ntp t2 (vc_path cc))) ->
    forall v2, wf v2 = true -> veqb v2 t2 = true ->
      exists t1', sub conv ro ao d v2 = Some (t1', 0) /\ veqb t1' t1 = true.
Proof. exact sub_inverts_from_valid. Qed.
Print Assumptions C08_sub_inverts_from_any_equal_base.

(* the property's "==": the difference is a well-formed value Python-equal to t1 (both ways) *)
Theorem C08_sub_inverts_python_equal :
  forall hatom udiff ops c conv always,
    thr_num c <= thr_den c ->
    (forall a b, hatom a = hatom b -> a = b) ->
    (forall ty0 v v', conv ty0 v = Some v' -> type_of v' = ty0) ->
  forall ro ao,
    (forall p xs ys, forallb is_atom xs = true -> forallb is_atom ys = true -> valid_ops xs ys (ops p xs ys)) ->
  forall t1 t2,
    guards c conv true always t2 t1 -> korder t1 t2 ->
    let r := run_diff hatom udiff ops DeltaReverseSym.nos DeltaReverseSym.nos c t1 t2 in
    let d := to_delta conv true always ops t1 t2 (fst r) (snd r) in
    orders_ok_at ro ao (reverse d) ->
    (no_clash (fst (diff hatom udiff ops DeltaReverseSym.nos DeltaReverseSym.nos c t1 t2 [] [])) \/
     (keys_nonneg t1 = true /\ forall cc, In cc (d_val (reverse d)) -> ntp t2 (vc_path cc))) ->
    exists t1', sub conv ro ao d t2 = Some (t1', 0) /\ wf t1' = true /\ py_eqv t1' t1 = true /\ py_eqv t1 t1' = true.
Proof. exact sub_inverts_py_valid. Qed.
Print Assumptions C08_sub_inverts_python_equal.

(* (t1 + d) - d ~ t1 : the sum exists without error, is t2 up to order, and subtracting d
   from THAT SUM gives t1 up to order without error *)
Theorem C08_add_then_sub_default :
  forall hatom udiff ops c conv always,
    thr_num c <= thr_den c ->
    (forall a b, hatom a = hatom b -> a = b) ->
    (forall ty0 v v', conv ty0 v = Some v' -> type_of v' = ty0) ->
  forall ro ao,
    (forall p xs ys, forallb is_atom xs = true -> forallb is_atom ys = true -> valid_ops xs ys (ops p xs ys)) ->
  forall t1 t2,
    guards c conv true always t2 t1 -> korder t1 t2 ->
    let r := run_diff hatom udiff ops DeltaReverseSym.nos DeltaReverseSym.nos c t1 t2 in
    let d := to_delta conv true always ops t1 t2 (fst r) (snd r) in
    orders_ok_at ro ao (reverse d) ->
    (no_clash (fst (diff hatom udiff ops DeltaReverseSym.nos DeltaReverseSym.nos c t1 t2 [] [])) \/
     (keys_nonneg t1 = true /\ forall cc, In cc (d_val (reverse d)) -> ntp t2 (vc_path cc))) ->
    guards c conv true always t1 t2 -> orders_ok_at ro ao d ->
    exists t2' t1', apply conv ro ao d t1 = (t2', 0) /\ veqb t2' t2 = true /\
                    sub conv ro ao d t2' = Some (t1', 0) /\ veqb t1' t1 = true.
Proof. exact add_then_sub_valid. Qed.
Print Assumptions C08_add_then_sub_default.

(* (t2 - d) + d ~ t2 : "adding it back returns t2 again" *)
Theorem C08_sub_then_add_default :
  forall hatom udiff ops c conv always,
    thr_num c <= thr_den c ->
    (forall a b, hatom a = hatom b -> a = b) ->
    (forall ty0 v v', conv ty0 v = Some v' -> type_of v' = ty0) ->
  forall ro ao,
    (forall p xs ys, forallb is_atom xs = true -> forallb is_atom ys = true -> valid_ops xs ys (ops p xs ys)) ->
  forall t1 t2,
    guards c conv true always t2 t1 -> korder t1 t2 ->
    let r := run_diff hatom udiff ops DeltaReverseSym.nos DeltaReverseSym.nos c t1 t2 in
    let d := to_delta conv true always ops t1 t2 (fst r) (snd r) in
    orders_ok_at ro ao (reverse d) ->
    (no_clash (fst (diff hatom udiff ops DeltaReverseSym.nos DeltaReverseSym.nos c t1 t2 [] [])) \/
     (keys_nonneg t1 = true /\ forall cc, In cc (d_val (reverse d)) -> ntp t2 (vc_path cc))) ->
    guards c conv true always t1 t2 -> orders_ok_at ro ao d ->
    exists t1' t2', sub conv ro ao d t2 = Some (t1', 0) /\ veqb t1' t1 = true /\
                    apply conv ro ao d t1' = (t2', 0) /\ veqb t2' t2 = true.
Proof. exact sub_then_add_valid. Qed.
Print Assumptions C08_sub_then_add_default.

(* every +,-,+,... sequence of ANY length, from EVERY well-formed base equal to the left
   end up to order: total error count 0, result equal to the right end up to order *)
Theorem C08_back_and_forth_default :
  forall hatom udiff ops c conv always,
    thr_num c <= thr_den c ->
    (forall a b, hatom a = hatom b -> a = b) ->
    (forall ty0 v v', conv ty0 v = Some v' -> type_of v' = ty0) ->
  forall ro ao,
    (forall p xs ys, forallb is_atom xs = true -> forallb is_atom ys = true -> valid_ops xs ys (ops p xs ys)) ->
  forall t1 t2,
    guards c conv true always t2 t1 -> korder t1 t2 ->
    let r := run_diff hatom udiff ops DeltaReverseSym.nos DeltaReverseSym.nos c t1 t2 in
    let d := to_delta conv true always ops t1 t2 (fst r) (snd r) in
    orders_ok_at ro ao (reverse d) ->
    (no_clash (fst (diff hatom udiff ops DeltaReverseSym.nos DeltaReverseSym.nos c t1 t2 [] [])) \/
     (keys_nonneg t1 = true /\ forall cc, In cc (d_val (reverse d)) -> ntp t2 (vc_path cc))) ->
    guards c conv true always t1 t2 -> orders_ok_at ro ao d ->
    forall k,
      (forall v, wf v = true -> veqb v t1 = true ->
         exists v', run_seq conv ro ao d (alternating Plus k) v = Some (v', 0) /\
                    veqb v' (if Nat.even k then t1 else t2) = true) /\
      (forall v, wf v = true -> veqb v t2 = true ->
         exists v', run_seq conv ro ao d (alternating Minus k) v = Some (v', 0) /\
                    veqb v' (if Nat.even k then t2 else t1) = true).
Proof. exact seq_from_valid. Qed.
Print Assumptions C08_back_and_forth_default.

(* the global order hypotheses of sections 8-10 imply the per-delta ones used here *)
Theorem C08_global_orders_suffice :
  forall ro ao d, ro_ok ro -> ao_ok ao -> orders_ok_at ro ao d /\ orders_ok_at ro ao (reverse d).
Proof. intros ro ao d Hr Ha. split; apply orders_ok_of_global; assumption. Qed.
Print Assumptions C08_global_orders_suffice.

(* all hypotheses hold TOGETHER - including a GLOBAL opcode oracle valid on every pair of all-atom
   lists - for a pair with a changed set, a grown list, a removed key and a type change in default
   mode; hence (by the theorem, not by computation) its sequences of every length *)
Theorem C08_back_and_forth_default_instance :
  zip ex2g_cfg = false /\
  (forall p xs ys, forallb is_atom xs = true -> forallb is_atom ys = true -> valid_ops xs ys (k17g_ops p xs ys)) /\
  guards ex2g_cfg DeltaExamples.conv_none true false ex2_t2 ex2_t1 /\ guards ex2g_cfg DeltaExamples.conv_none true false ex2_t1 ex2_t2 /\
  korder ex2_t1 ex2_t2 /\ orders_ok_at id_ro id_ao ex2g_d /\ orders_ok_at id_ro id_ao (reverse ex2g_d) /\
  no_clash (fst (diff DeltaExamples.hatom_ex (fun _ _ => []) k17g_ops DeltaReverseSym.nos DeltaReverseSym.nos ex2g_cfg ex2_t1 ex2_t2 [] [])) /\
  d_sadd ex2g_d <> [] /\ d_iadd ex2g_d <> [] /\ d_drem ex2g_d <> [] /\ d_type ex2g_d <> [] /\
  forall k,
    (exists v, run_seq DeltaExamples.conv_none id_ro id_ao ex2g_d (alternating Plus k) ex2_t1 = Some (v, 0) /\
               veqb v (if Nat.even k then ex2_t1 else ex2_t2) = true) /\
    (exists v, run_seq DeltaExamples.conv_none id_ro id_ao ex2g_d (alternating Minus k) ex2_t2 = Some (v, 0) /\
               veqb v (if Nat.even k then ex2_t2 else ex2_t1) = true).
Proof.
  destruct ex2g_all_hypotheses as (Z & G21 & G12 & KO & HOf & HOr & NC & _ & A & B & C & D).
  repeat (split; [assumption || (intros; apply k17g_valid)|]). exact ex2g_back_and_forth.
Qed.
Print Assumptions C08_back_and_forth_default_instance.

(* the role of [korder]: it is the hypothesis of the SYMMETRY LEMMA (section 9), which is false without it - the
   model lists the common keys of a dict pair in t1's order, so the reverse tree and the mirrored forward tree order
   their value changes differently - while the inversion statement itself holds on the witness in the model
   ({'a':1,'b':2} -> {'b':20,'a':10}; all other guards hold), and the implementation inverts it too (harness, DOC_CASES).
   [korder t1 t2] says literally "the common keys of paired dicts come in the same order in t1 and t2", i.e. the model's
   traversal order (t1's) is the code's (t2's: t2_keys & t1_keys): it marks a modelling gap in the ORDER of a pass, observed
   harmless, not a condition of the property *)
Theorem C08_diff_symmetric_without_korder_refuted :
  korderb kx_t1 kx_t2 = false /\
  guardsb ex_cfg true false kx_t2 kx_t1 = true /\ guardsb ex_cfg true false kx_t1 kx_t2 = true /\
  ~ keq kx_r (map mirror_entry kx_f) /\
  map vc_path (d_val kx_d) = [[PKey (K "a"%string)]; [PKey (K "b"%string)]] /\
  (exists r, ex_sub kx_d kx_t2 = Some (r, 0) /\ veqb r kx_t1 = true) /\
  (exists r, ex_apply kx_d kx_t1 = (r, 0) /\ veqb r kx_t2 = true).
Proof. exact kx_witness. Qed.
Print Assumptions C08_diff_symmetric_without_korder_refuted.

(* ================================================================== *)
(* 12. exact equality where the model allows it (round 3)              *)
(* ================================================================== *)
(* "up to order" cannot be dropped in general: a removed dict key comes back at the END
   of the dict ({'a':1,'b':2} -> {'b':2}: {'b':2} - d = {'b':2,'a':1}); the two values
   are Python-equal, not identical *)
Theorem C08_sub_inverts_exact_refuted :
  ex_sub ex11_d ex11_t2 = Some (VDict [(K "b"%string, I 2); (K "a"%string, I 1)], 0) /\
  VDict [(K "b"%string, I 2); (K "a"%string, I 1)] <> ex11_t1 /\
  veqb (VDict [(K "b"%string, I 2); (K "a"%string, I 1)]) ex11_t1 = true /\
  py_eqv (VDict [(K "b"%string, I 2); (K "a"%string, I 1)]) ex11_t1 = true.
Proof. exact ex11_order. Qed.
Print Assumptions C08_sub_inverts_exact_refuted.

(* the tuple guard inside C01's [guards] (paired tuples hold atoms only) is needed as well: finding F4 seen through
   subtraction - (1, {2}) -> (1, {3}): (1, {3}) - d is (1, {3}) itself and two errors are logged *)
Theorem C08_sub_inverts_tuple_container_refuted :
  wf f4s_t1 = true /\ wf f4s_t2 = true /\ ex_sub f4s_d f4s_t2 = Some (f4s_t2, 2) /\ py_eqv f4s_t2 f4s_t1 = false.
Proof. exact f4s_sub. Qed.
Print Assumptions C08_sub_inverts_tuple_container_refuted.

(* values without dicts and sets (lists / tuples / atoms, any nesting): t2 - d IS t1.
   korder and keys_nonneg hold automatically and disappear from the statement *)
Theorem C08_sub_inverts_exact_partial :
  forall hatom udiff ops c conv always,
    thr_num c <= thr_den c ->
    (forall a b, hatom a = hatom b -> a = b) ->
    (forall ty0 v v', conv ty0 v = Some v' -> type_of v' = ty0) ->
  forall ro ao,
    (forall p xs ys, forallb is_atom xs = true -> forallb is_atom ys = true -> valid_ops xs ys (ops p xs ys)) ->
  forall t1 t2,
    guards c conv true always t2 t1 -> ordfree t1 = true ->
    let r := run_diff hatom udiff ops DeltaReverseSym.nos DeltaReverseSym.nos c t1 t2 in
    let d := to_delta conv true always ops t1 t2 (fst r) (snd r) in
    orders_ok_at ro ao (reverse d) ->
    (no_clash (fst (diff hatom udiff ops DeltaReverseSym.nos DeltaReverseSym.nos c t1 t2 [] [])) \/
     (forall cc, In cc (d_val (reverse d)) -> ntp t2 (vc_path cc))) ->
    sub conv ro ao d t2 = Some (t1, 0).
Proof. exact sub_inverts_exact_valid. Qed.
Print Assumptions C08_sub_inverts_exact_partial.

(* ... and with C01 at (t1,t2): t1 + d = t2, t2 - d = t1, every alternating sequence of any
   length - the first clause of the property, exactly as stated, on that fragment *)
Theorem C08_back_and_forth_exact_partial :
  forall hatom udiff ops c conv always,
    thr_num c <= thr_den c ->
    (forall a b, hatom a = hatom b -> a = b) ->
    (forall ty0 v v', conv ty0 v = Some v' -> type_of v' = ty0) ->
  forall ro ao,
    (forall p xs ys, forallb is_atom xs = true -> forallb is_atom ys = true -> valid_ops xs ys (ops p xs ys)) ->
  forall t1 t2,
    guards c conv true always t2 t1 -> ordfree t1 = true ->
    let r := run_diff hatom udiff ops DeltaReverseSym.nos DeltaReverseSym.nos c t1 t2 in
    let d := to_delta conv true always ops t1 t2 (fst r) (snd r) in
    orders_ok_at ro ao (reverse d) ->
    (no_clash (fst (diff hatom udiff ops DeltaReverseSym.nos DeltaReverseSym.nos c t1 t2 [] [])) \/
     (forall cc, In cc (d_val (reverse d)) -> ntp t2 (vc_path cc))) ->
    guards c conv true always t1 t2 -> ordfree t2 = true -> orders_ok_at ro ao d ->
    forall k,
      run_seq conv ro ao d (alternating Plus k) t1 = Some (if Nat.even k then t1 else t2, 0) /\
      run_seq conv ro ao d (alternating Minus k) t2 = Some (if Nat.even k then t2 else t1, 0).
Proof. exact back_and_forth_exact_valid. Qed.
Print Assumptions C08_back_and_forth_exact_partial.

(* the hypotheses hold together for the K17 pair, a CLASH case with recorded opcodes, under a
   global valid opcode oracle; conclusion obtained from the theorem *)
Theorem C08_back_and_forth_exact_instance :
  thr_num k17g_cfg <= thr_den k17g_cfg /\
  (forall p xs ys, forallb is_atom xs = true -> forallb is_atom ys = true -> valid_ops xs ys (k17g_ops p xs ys)) /\
  guards k17g_cfg DeltaExamples.conv_none true false k17_t2 k17_t1 /\ guards k17g_cfg DeltaExamples.conv_none true false k17_t1 k17_t2 /\
  ordfree k17_t1 = true /\ ordfree k17_t2 = true /\
  orders_ok_at id_ro id_ao k17g_d /\ orders_ok_at id_ro id_ao (reverse k17g_d) /\
  ops_sorted2 k17g_ops /\ (forall cc, In cc (d_val (reverse k17g_d)) -> ntp k17_t2 (vc_path cc)) /\
  no_clashb (fst (diff DeltaExamples.hatom_ex (fun _ _ => []) k17g_ops DeltaReverseSym.nos DeltaReverseSym.nos k17g_cfg k17_t1 k17_t2 [] [])) = false /\
  forall k,
    run_seq DeltaExamples.conv_none id_ro id_ao k17g_d (alternating Plus k) k17_t1 = Some (if Nat.even k then k17_t1 else k17_t2, 0) /\
    run_seq DeltaExamples.conv_none id_ro id_ao k17g_d (alternating Minus k) k17_t2 = Some (if Nat.even k then k17_t2 else k17_t1, 0).
Proof.
  destruct k17g_all_hypotheses as (H1 & H2 & G21 & G12 & O1 & O2 & HOf & HOr & S2 & N).
  destruct k17g_shape as (NC & _).
  repeat (split; [assumption|]). exact k17g_back_and_forth.
Qed.
Print Assumptions C08_back_and_forth_exact_instance.

(* ================================================================== *)
(* 13. what _do_item_removed verifies (round 3)                        *)
(* ================================================================== *)
(* [rem_bad r p e]: in r the parent of p is missing, or it is NOT a list and holds at the
   last key of p a value != (Python) the recorded value e.  [before_drem d v] /
   [before_irem d v]: the state in which the dictionary_item_removed / iterable_item_removed
   pass starts; [rstep] = one removal.  No guard: all deltas, all bases, all oracles; the
   root is the one the step that reaches the entry sees (as in 3a) *)
Theorem C08_detects_removed_dict_item_when_reached :
  forall conv ro ao d v l1 p e l2,
    d_bidir d = true -> ro (d_drem d) = l1 ++ (p, e) :: l2 ->
    rem_bad (root (fold_left rstep l1 (before_drem conv ro ao d v))) p e = true ->
    0 < snd (apply conv ro ao d v).
Proof. exact apply_detects_removed_when_reached. Qed.
Print Assumptions C08_detects_removed_dict_item_when_reached.

Theorem C08_detects_removed_iterable_item_when_reached :
  forall conv ro ao d v l1 p e l2,
    d_bidir d = true ->
    ro (d_irem d ++ map (fun m => (fst (fst m), snd m)) (d_moved d)) = l1 ++ (p, e) :: l2 ->
    rem_bad (root (fold_left rstep l1 (before_irem conv d v))) p e = true ->
    0 < snd (apply conv ro ao d v).
Proof. exact apply_detects_iter_removed_when_reached. Qed.
Print Assumptions C08_detects_removed_iterable_item_when_reached.

(* ... and for the INITIAL base (wave 2).  The base is constrained only where the entry lives: at [op] it holds a dict
   whose value at the removed key is != (Python) the recorded one.  [leaves_alone q d] (a boolean on the delta): every
   write  obj[key] = value  (values_changed, type_changes, dictionary_item_added) goes to a path diverging from q - it may
   sit in the same dict -, every operation that can shift list indexes or rewrites a whole object (iterable items removed /
   added / moved, opcodes, set items) works on an object whose path diverges from q; [earlier_ok q l1]: a removal visited
   before the entry does that too, or removes another key of the same dict.  The order oracles only have to return items
   of their argument *)
Theorem C08_detects_removed_dict_item_initial_base :
  forall conv ro ao,
    (forall l x, In x (ro l) -> In x l) -> (forall l x, In x (ao l) -> In x l) ->
  forall op kk cur d v l1 e l2 kvs,
    d_bidir d = true -> ro (d_drem d) = l1 ++ (op ++ [kk], e) :: l2 ->
    resolve v op = Some (VDict kvs) -> assoc (key_atom kk) kvs = Some cur -> py_eqv e cur = false ->
    leaves_alone (op ++ [kk]) d = true -> earlier_ok (op ++ [kk]) l1 = true ->
    0 < snd (apply conv ro ao d v).
Proof. exact apply_detects_removed_initial. Qed.
Print Assumptions C08_detects_removed_dict_item_initial_base.

(* the guards hold for a delta with a value change in the SAME dict and a list removal elsewhere
   ({'d': {'a':1,'b':2,'c':3}, 'l': [1,2,3]} -> {'d': {'a':10,'c':3}, 'l': [1,2]}, base with d.b = 9) *)
Theorem C08_detects_removed_dict_item_initial_base_instance :
  d_val ex12_d <> [] /\ d_irem ex12_d <> [] /\
  leaves_alone ([PKey (K "d"%string)] ++ [PKey (K "b"%string)])%list ex12_d = true /\
  earlier_ok ([PKey (K "d"%string)] ++ [PKey (K "b"%string)])%list [] = true /\
  0 < snd (ex_apply ex12_d ex12_base).
Proof. exact ex12_detect. Qed.
Print Assumptions C08_detects_removed_dict_item_initial_base_instance.

(* the detection clause for SUBTRACTION: v - d applies the reversed delta, whose recorded old value is the
   forward entry's NEW value and whose location is new_path when there is one ([rpath] / [rtpath]); a base
   that has nothing there or a value != the recorded new value is reported.  Guards as in 3b, on the reversed delta *)
Theorem C08_sub_detects_corruption :
  forall conv ro ao d v c,
    d_bidir d = true -> pairwise_div (map vc_path (d_val (reverse d))) = true ->
    In c (d_val d) -> old_mismatch v (rpath c) (Some (vc_new c)) = true ->
    exists r n, sub conv ro ao d v = Some (r, n) /\ 0 < n.
Proof. exact sub_detects_value. Qed.
Print Assumptions C08_sub_detects_corruption.

Theorem C08_sub_detects_corruption_type :
  forall conv ro ao d v c,
    d_bidir d = true -> indep_verified (reverse d) = true ->
    In c (d_type d) -> old_mismatch v (rtpath c) (tc_new c) = true ->
    exists r n, sub conv ro ao d v = Some (r, n) /\ 0 < n.
Proof. exact sub_detects_type. Qed.
Print Assumptions C08_sub_detects_corruption_type.

(* ... and for the bidirectional delta of a diff the guard is a theorem (wave 2): the reversed delta has, up to the order
   of its values_changed pass, the payload of the delta of the reverse diff, whose independence is proved.  Data guards
   only: C01's guards for (t2,t1), korder, no negative int dict key in t1; every valid opcode oracle *)
Theorem C08_indep_guard_of_reversed_diff_delta :
  forall hatom udiff ops c conv always,
    thr_num c <= thr_den c ->
    (forall p xs ys, forallb is_atom xs = true -> forallb is_atom ys = true -> valid_ops xs ys (ops p xs ys)) ->
  forall t1 t2,
    guards c conv true always t2 t1 -> korder t1 t2 -> keys_nonneg t1 = true ->
    let r := run_diff hatom udiff ops DeltaReverseSym.nos DeltaReverseSym.nos c t1 t2 in
    indep_verified (reverse (to_delta conv true always ops t1 t2 (fst r) (snd r))) = true.
Proof. exact reverse_indep_valid. Qed.
Print Assumptions C08_indep_guard_of_reversed_diff_delta.

Theorem C08_sub_detects_corruption_of_diff :
  forall hatom udiff ops c conv always,
    thr_num c <= thr_den c ->
    (forall p xs ys, forallb is_atom xs = true -> forallb is_atom ys = true -> valid_ops xs ys (ops p xs ys)) ->
  forall t1 t2,
    guards c conv true always t2 t1 -> korder t1 t2 -> keys_nonneg t1 = true ->
    let r := run_diff hatom udiff ops DeltaReverseSym.nos DeltaReverseSym.nos c t1 t2 in
    let d := to_delta conv true always ops t1 t2 (fst r) (snd r) in
  forall ro ao v,
    (forall cc, In cc (d_val d) -> old_mismatch v (rpath cc) (Some (vc_new cc)) = true ->
       exists r0 n, sub conv ro ao d v = Some (r0, n) /\ 0 < n) /\
    (forall cc, In cc (d_type d) -> old_mismatch v (rtpath cc) (tc_new cc) = true ->
       exists r0 n, sub conv ro ao d v = Some (r0, n) /\ 0 < n).
Proof.
  intros hatom udiff ops c conv always Hthr Hops t1 t2 G KO N r d ro ao v. split.
  - exact (sub_detects_value_of_diff hatom udiff ops c conv always Hthr Hops t1 t2 G KO N ro ao v).
  - exact (sub_detects_type_of_diff hatom udiff ops c conv always Hthr Hops t1 t2 G KO N ro ao v).
Qed.
Print Assumptions C08_sub_detects_corruption_of_diff.

Theorem C08_sub_detects_corruption_instance :
  indep_verified (reverse ex_d) = true /\
  (exists r n, ex_sub ex_d ex_t2_bad_val = Some (r, n) /\ 0 < n) /\
  (exists r n, ex_sub ex_d ex_t2_bad_type = Some (r, n) /\ 0 < n) /\
  ex_sub ex_d ex_t2 = Some (ex_t1, 0).
Proof. exact ex_sub_detects. Qed.
Print Assumptions C08_sub_detects_corruption_instance.

(* instances: {'a':1,'b':2} -> {'a':1} applied to {'a':1,'b':9}; (1,2,3) -> (1,2) applied to (1,2,9) *)
Theorem C08_detects_removed_item_instances :
  d_drem ex6_d = [([PKey (K "b"%string)], I 2)] /\ 0 < snd (ex_apply ex6_d ex6_base) /\
  d_irem ex7_d = [([PKey (AInt 2)], I 3)] /\ 0 < snd (ex_apply ex7_d ex7_base).
Proof.
  split; [exact (proj1 ex6_payload)|]. split; [exact ex6_detect|]. exact ex7_detect.
Qed.
Print Assumptions C08_detects_removed_item_instances.

(* documented behaviour of the code, OUTSIDE the property's quantifier (it names values_changed /
   type_changes locations): mismatches the verification does NOT report - a removed LIST item that
   differs (the recorded value is searched elsewhere, the removal skipped), a removed dict key that is
   missing, an absent set member, added items / keys over a differing base, the old values of opcodes.
   Each line: the payload, the base, result and error count 0.  Replayed on the implementation on
   every run (harness/props/c08.py DOC_CASES) *)
Theorem C08_detection_does_not_extend_to_other_categories :
  ex_apply ex3_d ex3_base = (ex3_base, 0) /\
  ex_apply ex6_d ex6_base_missing = (ex6_base_missing, 0) /\
  ex_apply ex8_d (VSet [AInt 1; AInt 5]) = (VSet [AInt 1; AInt 5], 0) /\
  ex_apply ex9_d (VList [I 1; I 7]) = (VList [I 1; I 7; I 3], 0) /\
  ex_apply ex10_d (VDict [(K "a"%string, I 1); (K "b"%string, I 7)]) = (VDict [(K "a"%string, I 1); (K "b"%string, I 2)], 0) /\
  ex_apply ex4_d (VList [I 9; I 9; I 9; I 4]) = (VList [I 0; I 9; I 9; I 9; I 5], 0).
Proof.
  split; [exact (proj2 (proj2 (proj2 (proj2 ex3_removed_item_mismatch_accepted))))|].
  split; [exact (proj2 ex6_missing_key_accepted)|]. split; [exact (proj2 ex8_set_item_not_verified)|].
  split; [exact (proj2 ex9_added_item_not_verified)|]. split; [exact (proj2 ex10_added_key_not_verified)|].
  exact (proj2 ex4_opcodes_not_verified).
Qed.
Print Assumptions C08_detection_does_not_extend_to_other_categories.

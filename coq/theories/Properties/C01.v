(** C01 - t1 + Delta(DeepDiff(t1, t2)) equals t2 with the same container types.
    Final statements only.  Models: Diff/DiffModel.v (ordered diff, both alignment
    modes, difflib opcodes as an oracle), Delta/DeltaModel.v (payload construction,
    Delta.__add__ as its fixed sequence of passes, post-processing).

    [veqb a b]: typed structural equality (atoms identical, list/tuple pointwise,
    same constructors) up to dict insertion order and set iteration order.
    [guards]: well-formed inputs, no two atoms that are == but not identical
    (finding KA), tuples hold atoms only and keep their length (F4/F6), a type change
    whose values are omitted is rebuilt exactly by the constructor call (F7 family),
    no dict key hidden by ignore_private_variables.
    [opsv]: the opcode oracle is a valid alignment (blocks tile both lists in order,
    equal blocks are ==-equal item by item) at every pair of all-atom lists compared.
    [orders_ok_at]: the visiting orders of the sorted passes are permutations in which
    of two paths diverging at an integer key the larger (removals) / smaller
    (additions) one comes first.
    The statement holds for every configuration: alignment mode (zip c), threshold
    (thr_num / thr_den, any), bidirectional, always_include_values; verbosity and
    view do not enter the payload (checked by the correspondence). *)
From Coq Require Import List ZArith NArith Bool Arith Permutation.
Import ListNotations.
From DD Require Import Base.PyStr Base.Value Path.PathModel Diff.Tree Diff.DiffModel
  Hash.HashModel DiffIO.DiffIOModel
  Delta.DeltaModel Delta.DeltaRun Delta.DeltaGuard Delta.DeltaGood Delta.DeltaRoundtrip Delta.DeltaChain Delta.DeltaExamples
  Delta.DeltaIO Delta.DeltaIOProofs.

(* the round trip, for all nested values inside the guards *)
Theorem C01_roundtrip_partial :
  forall hatom udiff ops c conv bidir always,
    (forall a b, hatom a = hatom b -> a = b) ->
    (forall ty0 v v', conv ty0 v = Some v' -> type_of v' = ty0) ->
  forall ro ao t1 t2,
    guards c conv bidir always t1 t2 -> opsv ops t1 t2 [] ->
    let r := run_diff hatom udiff ops nos nos c t1 t2 in
    let d := to_delta conv bidir always ops t1 t2 (fst r) (snd r) in
    orders_ok_at ro ao d ->
    exists t2', apply conv ro ao d t1 = (t2', 0) /\ veqb t2' t2 = true.
Proof. exact roundtrip_at. Qed.
Print Assumptions C01_roundtrip_partial.

(* the same with the oracle hypotheses stated once and for all *)
Theorem C01_roundtrip_oracles_partial :
  forall hatom udiff ops c conv bidir always,
    (forall a b, hatom a = hatom b -> a = b) ->
    (forall ty0 v v', conv ty0 v = Some v' -> type_of v' = ty0) ->
  forall ro ao t1 t2,
    (forall p xs ys, forallb is_atom xs = true -> forallb is_atom ys = true -> valid_ops xs ys (ops p xs ys)) ->
    ro_ok ro -> ao_ok ao -> guards c conv bidir always t1 t2 ->
    let r := run_diff hatom udiff ops nos nos c t1 t2 in
    exists t2', apply conv ro ao (to_delta conv bidir always ops t1 t2 (fst r) (snd r)) t1 = (t2', 0) /\ veqb t2' t2 = true.
Proof. exact roundtrip. Qed.
Print Assumptions C01_roundtrip_oracles_partial.

(* step by step along a chain of edits t0, t1, ..., tn (any length) *)
Theorem C01_chain_steps_partial :
  forall hatom udiff ops c conv bidir always ro ao,
    (forall a b, hatom a = hatom b -> a = b) ->
    (forall ty0 v v', conv ty0 v = Some v' -> type_of v' = ty0) ->
  forall t0 rest, chain_ok hatom udiff ops c conv bidir always ro ao t0 rest ->
  forall i a b, nth_error (t0 :: rest) i = Some a -> nth_error rest i = Some b ->
    exists b', apply conv ro ao (delta_of hatom udiff ops c conv bidir always a b) a = (b', 0) /\ veqb b' b = true.
Proof. exact chain_steps. Qed.
Print Assumptions C01_chain_steps_partial.

(* the deltas applied in turn to the running result reproduce every ti exactly
   (values without dicts and sets, where equality up to order is equality) *)
Theorem C01_chain_exact_partial :
  forall hatom udiff ops c conv bidir always ro ao,
    (forall a b, hatom a = hatom b -> a = b) ->
    (forall ty0 v v', conv ty0 v = Some v' -> type_of v' = ty0) ->
  forall rest t0, chain_ok hatom udiff ops c conv bidir always ro ao t0 rest -> forallb ordfree rest = true ->
    chain_from hatom udiff ops c conv bidir always ro ao t0 t0 rest = map (fun t => (t, 0)) rest.
Proof. exact chain_exact. Qed.
Print Assumptions C01_chain_exact_partial.

(* ... and for ALL values, dicts and sets included: the running result - started from
   any well-formed value equal to t0 up to dict / set order - stays equal up to that
   order to every ti, and no error is logged.  A type change whose values are omitted
   is rebuilt by the constructor call on the CURRENT value, which is known up to that
   order only; [chain_okv] ([okb_all] at every step) asks that the call rebuilds the new
   value from every such current value as well.  It holds outright when the values are
   stored (next theorem), when conv never applies, and at steps whose left end holds no
   dict / set ([okb_all_ordfree]); without it the statement is false
   (C01_chain_veq_refuted_rebuild). *)
Theorem C01_chain_veq_partial :
  forall hatom udiff ops c conv bidir always ro ao,
    (forall a b, hatom a = hatom b -> a = b) ->
    (forall ty0 v v', conv ty0 v = Some v' -> type_of v' = ty0) ->
  forall rest cur t0, chain_ok hatom udiff ops c conv bidir always ro ao t0 rest ->
    chain_okv conv bidir always t0 rest ->
    wf cur = true -> veqb cur t0 = true ->
    Forall2 (fun res t => snd res = 0 /\ veqb (fst res) t = true)
      (chain_from hatom udiff ops c conv bidir always ro ao cur t0 rest) rest.
Proof. exact chain_veq. Qed.
Print Assumptions C01_chain_veq_partial.

(* with bidirectional=True or always_include_values=True nothing more is asked *)
Theorem C01_chain_veq_stored_values_partial :
  forall hatom udiff ops c conv bidir always ro ao,
    (forall a b, hatom a = hatom b -> a = b) ->
    (forall ty0 v v', conv ty0 v = Some v' -> type_of v' = ty0) ->
    bidir || always = true ->
  forall rest cur t0, chain_ok hatom udiff ops c conv bidir always ro ao t0 rest ->
    wf cur = true -> veqb cur t0 = true ->
    Forall2 (fun res t => snd res = 0 /\ veqb (fst res) t = true)
      (chain_from hatom udiff ops c conv bidir always ro ao cur t0 rest) rest.
Proof.
  intros hatom udiff ops c conv bidir always ro ao Hinj Hconv F rest cur t0 H W V.
  apply (chain_veq hatom udiff ops c conv bidir always ro ao Hinj Hconv rest cur t0 H); try assumption.
  apply chain_okv_flags. exact F.
Qed.
Print Assumptions C01_chain_veq_stored_values_partial.

(* the single step from a reordered base: apply transports along [veqb] *)
Theorem C01_roundtrip_veq_base_partial :
  forall hatom udiff ops c conv bidir always,
    (forall a b, hatom a = hatom b -> a = b) ->
    (forall ty0 v v', conv ty0 v = Some v' -> type_of v' = ty0) ->
  forall ro ao t1 t2 v,
    guards c conv bidir always t1 t2 -> opsv ops t1 t2 [] ->
    wf v = true -> veqb v t1 = true -> okb conv bidir always v t1 t2 ->
    let r := run_diff hatom udiff ops nos nos c t1 t2 in
    let d := to_delta conv bidir always ops t1 t2 (fst r) (snd r) in
    orders_ok_at ro ao d ->
    exists t2', apply conv ro ao d v = (t2', 0) /\ veqb t2' t2 = true.
Proof. exact roundtrip_from. Qed.
Print Assumptions C01_roundtrip_veq_base_partial.

(* satisfiable: a two-step chain through nested dicts, a set and a frozenset, started from
   a reordered copy of t0 (not equal to it, and t0 is not order-free) *)
Example C01_chain_veq_guards_satisfiable :
  chain_ok hatom_ex (fun _ _ => []) no_ops ex_cfg conv_none false false (@rev _) (fun l => l) cv0 [cv1; cv2] /\
  chain_okv conv_none false false cv0 [cv1; cv2] /\
  (wf cv_start = true /\ veqb cv_start cv0 = true /\ value_eqb cv_start cv0 = false /\ ordfree cv0 = false) /\
  Forall2 (fun res t => snd res = 0 /\ veqb (fst res) t = true)
    (chain_from hatom_ex (fun _ _ => []) no_ops ex_cfg conv_none false false (@rev _) (fun l => l) cv_start cv0 [cv1; cv2])
    [cv1; cv2].
Proof. exact (conj cv_chain_ok (conj cv_chain_okv (conj cv_start_ok cv_chain))). Qed.
Print Assumptions C01_chain_veq_guards_satisfiable.

(* without [chain_okv]: {'k': {'a':1,'b':2}} -> {'k': ['a','b']} inside the guards of the
   round trip; list(old) == new, so the values are omitted; from the equal dict
   {'k': {'b':2,'a':1}} the same delta builds {'k': ['b','a']}, without error *)
Theorem C01_chain_veq_refuted_rebuild :
  guards ex_cfg keys_conv false false rb_t1 rb_t2 /\
  wf rb_v = true /\ veqb rb_v rb_t1 = true /\
  apply keys_conv (@rev _) (fun l => l) (delta_of hatom_ex (fun _ _ => []) no_ops ex_cfg keys_conv false false rb_t1 rb_t2) rb_t1 = (rb_t2, 0) /\
  apply keys_conv (@rev _) (fun l => l) (delta_of hatom_ex (fun _ _ => []) no_ops ex_cfg keys_conv false false rb_t1 rb_t2) rb_v = (rb_res, 0) /\
  veqb rb_res rb_t2 = false.
Proof. exact (conj rb_guards refuted_rebuild). Qed.
Print Assumptions C01_chain_veq_refuted_rebuild.

(* the guards are decidable-sufficient and satisfiable by a non-trivial pair:
   nested dict / lists / tuple / set with a recorded difflib alignment, a single
   insertion, a positional list with trailing removals, added and removed keys, set items,
   an in-place tuple change and a type change *)
Example C01_guards_satisfiable :
  guards ex_cfg conv_none false false ex_t1 ex_t2 /\ opsv ex_ops ex_t1 ex_t2 [] /\
  orders_ok_at (@rev _) (fun l => l) ex_delta /\
  (List.length (d_val ex_delta) = 1 /\ List.length (d_type ex_delta) = 1 /\ List.length (d_dadd ex_delta) = 1 /\
   List.length (d_drem ex_delta) = 1 /\ List.length (d_iadd ex_delta) = 1 /\ List.length (d_irem ex_delta) = 2 /\
   List.length (d_sadd ex_delta) = 1 /\ List.length (d_srem ex_delta) = 1 /\ List.length (d_ops ex_delta) = 1 /\
   veqb ex_t1 ex_t2 = false) /\
  exists t2', apply conv_none (@rev _) (fun l => l) ex_delta ex_t1 = (t2', 0) /\ veqb t2' ex_t2 = true.
Proof. exact (conj ex_guards (conj ex_opsv (conj ex_orders (conj ex_nontrivial ex_roundtrip)))). Qed.
Print Assumptions C01_guards_satisfiable.

(* ---- without the guards the statement is false of the faithful model ---- *)
(* KA: {False,'a'} -> {0,'a'} gives {'a'} *)
Theorem C01_roundtrip_refuted_alias :
  wf ka_t1 = true /\ wf ka_t2 = true /\
  rt hatom_ex no_ops ex_cfg conv_none false false ka_t1 ka_t2 = (ka_res, 0) /\ veqb ka_res ka_t2 = false.
Proof. exact refuted_alias. Qed.
Print Assumptions C01_roundtrip_refuted_alias.

(* F4: (1,{2}) -> (1,{3}) is left unchanged and two errors are logged *)
Theorem C01_roundtrip_refuted_tuple_container :
  rt hatom_ex no_ops (mkCfg true 0 1 true) conv_none false false f4_t1 f4_t2 = (f4_t1, 2) /\ veqb f4_t1 f4_t2 = false.
Proof. exact refuted_tuple_container. Qed.
Print Assumptions C01_roundtrip_refuted_tuple_container.

(* F6: (1,2) -> (1,7,2): the item is not inserted into the tuple *)
Theorem C01_roundtrip_refuted_tuple_length :
  rt hatom_ex f6_ops ex_cfg conv_none false false f6_t1 f6_t2 = (VTuple [I 1; I 7], 0) /\ veqb (VTuple [I 1; I 7]) f6_t2 = false.
Proof. exact refuted_tuple_length. Qed.
Print Assumptions C01_roundtrip_refuted_tuple_length.

(* F7 family: [[1,{2}]] -> {1: frozenset({2})}: dict(old) == new, so the values are
   omitted and the delta rebuilds {1: {2}} *)
Theorem C01_roundtrip_refuted_omitted_values :
  wf f7_t1 = true /\ wf f7_t2 = true /\ alias_freeb (atoms_of f7_t1 ++ atoms_of f7_t2) = true /\
  rt hatom_ex no_ops ex_cfg f7_conv false false f7_t1 f7_t2 = (VDict [(AInt 1, VSet [AInt 2])], 0) /\
  veqb (VDict [(AInt 1, VSet [AInt 2])]) f7_t2 = false.
Proof. exact refuted_omitted_values. Qed.
Print Assumptions C01_roundtrip_refuted_omitted_values.

(* keys hidden by ignore_private_variables never reach the delta *)
Theorem C01_roundtrip_refuted_private_keys :
  rt hatom_ex no_ops ex_cfg conv_none false false pk_t1 pk_t2 = (pk_t1, 0) /\ veqb pk_t1 pk_t2 = false.
Proof. exact refuted_private_keys. Qed.
Print Assumptions C01_roundtrip_refuted_private_keys.

(* ---- ignore_order=True, report_repetition=True on lists of distinct scalars ----
   Models: DiffIO/DiffIOModel.v (ignore-order diff with the pairing as an oracle),
   Delta/DeltaIO.v (index-map payload, _do_ignore_order).  For EVERY pairing oracle
   (paired items travel as values_changed / type_changes at the old index, unpaired ones as
   iterable_items_added_at_indexes / removed_at_indexes), every hasher that separates the
   atoms involved, every threshold, bidirectional, always_include_values: the result is a
   list, no error is logged, and its items are a permutation of t2's. *)
Theorem C01_ignore_order_perm_partial :
  forall H udiff c pairs conv bidir always ro ao (X Y : list atom),
    (forall a b, In a (X ++ Y) -> In b (X ++ Y) -> hatom_io H c true a = hatom_io H c true b -> a = b) ->
    NoDup X -> NoDup Y -> alias_free (X ++ Y) ->
    (forall ty0 v v', conv ty0 v = Some v' -> type_of v' = ty0) ->
    ro [] = [] ->
    let t1 := VList (map VAtom X) in
    let t2 := VList (map VAtom Y) in
    let r := run_diff_io H udiff nos nos c true pairs t1 t2 in
    exists zs, apply_io H conv ro ao (to_delta_io conv bidir always t1 t2 (fst r) (snd r)) t1 = (VList zs, 0)
               /\ Permutation zs (map VAtom Y).
Proof. exact io_roundtrip. Qed.
Print Assumptions C01_ignore_order_perm_partial.

(* satisfiable: [1,2,3,4] -> [2,'a',None,7,9] with the pairing the implementation chose;
   the model computes [2,'a',None,9,7] *)
Example C01_ignore_order_guards_satisfiable :
  (exists zs, io_result = (VList zs, 0) /\ Permutation zs (ys io_Y)) /\
  io_result = (VList (map VAtom [AInt 2; AStr [97%N]; ANone; AInt 9; AInt 7]), 0).
Proof. exact io_example. Qed.
Print Assumptions C01_ignore_order_guards_satisfiable.

(* without alias-freeness: [1] -> [True, 1] rebuilds [True] *)
Theorem C01_ignore_order_perm_refuted_alias :
  let r := run_diff_io hexhash (fun _ _ => []) nos nos io_cfg true (fun _ => []) (VList [VAtom (AInt 1)]) (VList [VAtom (ABool true); VAtom (AInt 1)]) in
  apply_io hexhash conv_none_io (fun l => l) (fun l => l)
    (to_delta_io conv_none_io false false (VList [VAtom (AInt 1)]) (VList [VAtom (ABool true); VAtom (AInt 1)]) (fst r) (snd r))
    (VList [VAtom (AInt 1)]) = (VList [VAtom (ABool true)], 0).
Proof. exact io_refuted_alias. Qed.
Print Assumptions C01_ignore_order_perm_refuted_alias.

(* ------------------------------------------------------------------ *)
(** EXTENSION beyond the property's stated domain: values holding INSTANCES OF CLASSES
    (objects with attributes, Obj/ObjValue.v [ovalue]).  [odelta] / [oapply] (Obj/ObjModel.v) are
    the payload construction and Delta.__add__ above on the encoding
      OObj cls attrs |-> { TAG cls : { attr : value }, TAG2 cls : cls }
    (attribute_added / attribute_removed travel as additions / removals below the attribute dict;
    setattr / delattr are functional updates of it), decoded; tied to Delta on real class instances
    by the extension stream of harness/objcommon.py.
    [oveqb a b] (Obj/ObjRoundtrip.v): typed structural equality - same class, atoms identical -
    up to dict insertion order, ATTRIBUTE order and set iteration order.
    The guards are those of C01_roundtrip_partial, asked of the encodings: [guards ... (enc t1) (enc t2)]
    is decided by Delta.DeltaChain.guardsb on the encodings; it excludes instances below tuples
    (F4/F6) and private attribute names (ignore_private_variables), as for dicts.  Extra guard
    0 < threshold_to_diff_deeper (the default is 0.33): there the payload is the payload of the encoded
    run (C04_objects_positive_threshold_is_encoded_run); at 0 the model builds it from the entries with the
    type changes of class-changing pairs put back (Obj.ObjModel.tagfix) - compared with the implementation
    by the correspondence, not covered by this theorem.
    What the model does not have, and the implementation does (Obj/NOTES.md): `del obj.__dict__[name]`
    on a __slots__ instance (observation OBJ1) and the `!=` on instances of a class without __eq__
    when a list item is removed (observation OBJ2). *)
From DD Require Obj.ObjValue Obj.ObjModel Obj.ObjRoundtrip Obj.ObjExamples Delta.DeltaChain.

Theorem C01_objects_roundtrip_partial :
  forall hatom udiff ops c conv bidir always,
    (forall a b, hatom a = hatom b -> a = b) ->
    (forall ty0 v v', conv ty0 v = Some v' -> type_of v' = ty0) ->
  forall ro ao (t1 t2 : Obj.ObjValue.ovalue),
    0 < thr_num c -> Obj.ObjValue.owf t1 = true -> Obj.ObjValue.owf t2 = true ->
    guards c conv bidir always (Obj.ObjValue.enc t1) (Obj.ObjValue.enc t2) ->
    opsv ops (Obj.ObjValue.enc t1) (Obj.ObjValue.enc t2) [] ->
    let d := Obj.ObjModel.odelta hatom udiff ops c conv bidir always t1 t2 in
    orders_ok_at ro ao d ->
    exists t2', Obj.ObjModel.oapply conv ro ao d t1 = (t2', 0) /\ Obj.ObjRoundtrip.oveqb t2' t2 = true.
Proof. intros. eapply Obj.ObjRoundtrip.oroundtrip_at; eassumption. Qed.
Print Assumptions C01_objects_roundtrip_partial.

Theorem C01_objects_roundtrip_oracles_partial :
  forall hatom udiff ops c conv bidir always,
    (forall a b, hatom a = hatom b -> a = b) ->
    (forall ty0 v v', conv ty0 v = Some v' -> type_of v' = ty0) ->
  forall ro ao (t1 t2 : Obj.ObjValue.ovalue),
    (forall p xs ys, forallb is_atom xs = true -> forallb is_atom ys = true -> valid_ops xs ys (ops p xs ys)) ->
    ro_ok ro -> ao_ok ao -> 0 < thr_num c -> Obj.ObjValue.owf t1 = true -> Obj.ObjValue.owf t2 = true ->
    guards c conv bidir always (Obj.ObjValue.enc t1) (Obj.ObjValue.enc t2) ->
    exists t2', Obj.ObjModel.oapply conv ro ao (Obj.ObjModel.odelta hatom udiff ops c conv bidir always t1 t2) t1 = (t2', 0)
                /\ Obj.ObjRoundtrip.oveqb t2' t2 = true.
Proof. intros. eapply Obj.ObjRoundtrip.oroundtrip; eassumption. Qed.
Print Assumptions C01_objects_roundtrip_oracles_partial.

(* the same with the guards as ONE boolean function of the two values (Delta.DeltaChain.guardsb on the
   encodings: well-formed, alias-free atoms, tuples hold scalars only and keep their length, a type change
   either stores its values or is scalar to scalar, no private dict key / attribute name) *)
Theorem C01_objects_roundtrip_decidable_guards_partial :
  forall hatom udiff ops c conv bidir always,
    (forall a b, hatom a = hatom b -> a = b) ->
    (forall ty0 v v', conv ty0 v = Some v' -> type_of v' = ty0) ->
  forall ro ao (t1 t2 : Obj.ObjValue.ovalue),
    (forall p xs ys, forallb is_atom xs = true -> forallb is_atom ys = true -> valid_ops xs ys (ops p xs ys)) ->
    ro_ok ro -> ao_ok ao -> 0 < thr_num c -> Obj.ObjValue.owf t1 = true -> Obj.ObjValue.owf t2 = true ->
    Delta.DeltaChain.guardsb c bidir always (Obj.ObjValue.enc t1) (Obj.ObjValue.enc t2) = true ->
    exists t2', Obj.ObjModel.oapply conv ro ao (Obj.ObjModel.odelta hatom udiff ops c conv bidir always t1 t2) t1 = (t2', 0)
                /\ Obj.ObjRoundtrip.oveqb t2' t2 = true.
Proof.
  intros hatom udiff ops c conv bidir always Hinj Hconv ro ao t1 t2 Hops Hro Hao Hpos W1 W2 G.
  eapply Obj.ObjRoundtrip.oroundtrip; try eassumption.
  eapply Delta.DeltaChain.guardsb_sound; eassumption.
Qed.
Print Assumptions C01_objects_roundtrip_decidable_guards_partial.

(* a result of Delta known up to order decodes to the object value up to order: the decoding
   does not depend on the order in which a rebuilt dict holds the two items of an instance *)
Theorem C01_objects_decode_up_to_order :
  forall (t : Obj.ObjValue.ovalue) (v : value),
    Obj.ObjValue.owf t = true -> veqb v (Obj.ObjValue.enc t) = true ->
    Obj.ObjRoundtrip.oveqb (Obj.ObjValue.dec v) t = true.
Proof. exact Obj.ObjRoundtrip.dec_veqb. Qed.
Print Assumptions C01_objects_decode_up_to_order.

(* the guards are satisfiable by a pair with instances as dict values, list items and attribute
   values: values_changed x2 (one two attribute levels deep), a class change, attribute_added x2,
   attribute_removed, an instance removed from a list, set items added / removed below an attribute *)
Example C01_objects_guards_satisfiable :
  0 < thr_num Obj.ObjExamples.ox_cfg /\
  (Obj.ObjValue.owf Obj.ObjExamples.ox_t1 = true /\ Obj.ObjValue.owf Obj.ObjExamples.ox_t2 = true) /\
  guards Obj.ObjExamples.ox_cfg conv_none false false (Obj.ObjValue.enc Obj.ObjExamples.ox_t1) (Obj.ObjValue.enc Obj.ObjExamples.ox_t2) /\
  opsv no_ops (Obj.ObjValue.enc Obj.ObjExamples.ox_t1) (Obj.ObjValue.enc Obj.ObjExamples.ox_t2) [] /\
  orders_ok_at (@rev _) (fun l => l) Obj.ObjExamples.ox_delta /\
  (length (fst Obj.ObjExamples.ox_run) = 9 /\ Obj.ObjValue.opy_eqv Obj.ObjExamples.ox_t1 Obj.ObjExamples.ox_t2 = false) /\
  exists t2', Obj.ObjModel.oapply conv_none (@rev _) (fun l => l) Obj.ObjExamples.ox_delta Obj.ObjExamples.ox_t1 = (t2', 0)
              /\ Obj.ObjRoundtrip.oveqb t2' Obj.ObjExamples.ox_t2 = true.
Proof.
  refine (conj (Nat.lt_0_1) (conj Obj.ObjExamples.ox_wf (conj Obj.ObjExamples.ox_guards (conj Obj.ObjExamples.ox_opsv
           (conj Obj.ObjExamples.ox_orders (conj _ Obj.ObjExamples.ox_roundtrip)))))).
  destruct Obj.ObjExamples.ox_nontrivial as (_ & _ & _ & _ & _ & _ & _ & A & B). exact (conj A B).
Qed.
Print Assumptions C01_objects_guards_satisfiable.

(** C01 - t1 + Delta(DeepDiff(t1, t2)) equals t2 with the same container types.
    Final statements only.  Models: Diff/DiffModel.v (ordered diff, both alignment
    modes, difflib opcodes as an oracle), Delta/DeltaModel.v (payload construction,
    Delta.__add__ as its fixed sequence of passes, post-processing).

    [veqb a b]: typed structural equality (atoms identical, list/tuple pointwise,
    same constructors) up to dict insertion order and set iteration order.
    [guards]: well-formed inputs, no two atoms that are == but not identical
    (finding KA), tuples hold atoms only and keep their length (F4/F6), a type change
    whose values are omitted is rebuilt exactly by the constructor call (F7 family),
    no dict key hidden by ignore_private_variables.
    [opsv]: the opcode oracle is a valid alignment (blocks tile both lists in order,
    equal blocks are ==-equal item by item) at every pair of all-atom lists compared.
    [orders_ok_at]: the visiting orders of the sorted passes are permutations in which
    of two paths diverging at an integer key the larger (removals) / smaller
    (additions) one comes first.
    The statement holds for every configuration: alignment mode (zip c), threshold
    (thr_num / thr_den, any), bidirectional, always_include_values; verbosity and
    view do not enter the payload (checked by the correspondence). *)
From Coq Require Import List ZArith NArith Bool Arith Permutation.
Import ListNotations.
From DD Require Import Base.PyStr Base.Value Path.PathModel Diff.Tree Diff.DiffModel
  Hash.HashModel DiffIO.DiffIOModel
  Delta.DeltaModel Delta.DeltaRun Delta.DeltaGuard Delta.DeltaGood Delta.DeltaRoundtrip Delta.DeltaChain Delta.DeltaExamples
  Delta.DeltaIO Delta.DeltaIOProofs
  Delta.DeltaChainRun Delta.DeltaChainAll Delta.DeltaIOReloc Delta.DeltaIOPre Delta.DeltaIOLocal Delta.DeltaIOPlant Delta.DeltaIOPlantEx Delta.DeltaIOPlantList Delta.DeltaIOPlantListEx Delta.DeltaIOLevelsB.

(* the round trip, for all nested values inside the guards *)
Theorem C01_roundtrip_partial :
  forall hatom udiff ops c conv bidir always,
    (forall a b, hatom a = hatom b -> a = b) ->
    (forall ty0 v v', conv ty0 v = Some v' -> type_of v' = ty0) ->
  forall ro ao t1 t2,
    guards c conv bidir always t1 t2 -> opsv ops t1 t2 [] ->
    let r := run_diff hatom udiff ops nos nos c t1 t2 in
    let d := to_delta conv bidir always ops t1 t2 (fst r) (snd r) in
    orders_ok_at ro ao d ->
    exists t2', apply conv ro ao d t1 = (t2', 0) /\ veqb t2' t2 = true.
Proof. exact roundtrip_at. Qed.
Print Assumptions C01_roundtrip_partial.

(* the same with the oracle hypotheses stated once and for all *)
Theorem C01_roundtrip_oracles_partial :
  forall hatom udiff ops c conv bidir always,
    (forall a b, hatom a = hatom b -> a = b) ->
    (forall ty0 v v', conv ty0 v = Some v' -> type_of v' = ty0) ->
  forall ro ao t1 t2,
    (forall p xs ys, forallb is_atom xs = true -> forallb is_atom ys = true -> valid_ops xs ys (ops p xs ys)) ->
    ro_ok ro -> ao_ok ao -> guards c conv bidir always t1 t2 ->
    let r := run_diff hatom udiff ops nos nos c t1 t2 in
    exists t2', apply conv ro ao (to_delta conv bidir always ops t1 t2 (fst r) (snd r)) t1 = (t2', 0) /\ veqb t2' t2 = true.
Proof. exact roundtrip. Qed.
Print Assumptions C01_roundtrip_oracles_partial.

(* step by step along a chain of edits t0, t1, ..., tn (any length) *)
Theorem C01_chain_steps_partial :
  forall hatom udiff ops c conv bidir always ro ao,
    (forall a b, hatom a = hatom b -> a = b) ->
    (forall ty0 v v', conv ty0 v = Some v' -> type_of v' = ty0) ->
  forall t0 rest, chain_ok hatom udiff ops c conv bidir always ro ao t0 rest ->
  forall i a b, nth_error (t0 :: rest) i = Some a -> nth_error rest i = Some b ->
    exists b', apply conv ro ao (delta_of hatom udiff ops c conv bidir always a b) a = (b', 0) /\ veqb b' b = true.
Proof. exact chain_steps. Qed.
Print Assumptions C01_chain_steps_partial.

(* the deltas applied in turn to the running result reproduce every ti exactly
   (values without dicts and sets, where equality up to order is equality) *)
Theorem C01_chain_exact_partial :
  forall hatom udiff ops c conv bidir always ro ao,
    (forall a b, hatom a = hatom b -> a = b) ->
    (forall ty0 v v', conv ty0 v = Some v' -> type_of v' = ty0) ->
  forall rest t0, chain_ok hatom udiff ops c conv bidir always ro ao t0 rest -> forallb ordfree rest = true ->
    chain_from hatom udiff ops c conv bidir always ro ao t0 t0 rest = map (fun t => (t, 0)) rest.
Proof. exact chain_exact. Qed.
Print Assumptions C01_chain_exact_partial.

(* ... and for ALL values, dicts and sets included: the running result - started from
   any well-formed value equal to t0 up to dict / set order - stays equal up to that
   order to every ti, and no error is logged.  A type change whose values are omitted
   is rebuilt by the constructor call on the CURRENT value, which is known up to that
   order only; [chain_okv] ([okb_all] at every step) asks that the call rebuilds the new
   value from every such current value as well.  It holds outright when the values are
   stored (next theorem), when conv never applies, and at steps whose left end holds no
   dict / set ([okb_all_ordfree]); without it the statement is false
   (C01_chain_veq_refuted_rebuild). *)
Theorem C01_chain_veq_partial :
  forall hatom udiff ops c conv bidir always ro ao,
    (forall a b, hatom a = hatom b -> a = b) ->
    (forall ty0 v v', conv ty0 v = Some v' -> type_of v' = ty0) ->
  forall rest cur t0, chain_ok hatom udiff ops c conv bidir always ro ao t0 rest ->
    chain_okv conv bidir always t0 rest ->
    wf cur = true -> veqb cur t0 = true ->
    Forall2 (fun res t => snd res = 0 /\ veqb (fst res) t = true)
      (chain_from hatom udiff ops c conv bidir always ro ao cur t0 rest) rest.
Proof. exact chain_veq. Qed.
Print Assumptions C01_chain_veq_partial.

(* with bidirectional=True or always_include_values=True nothing more is asked *)
Theorem C01_chain_veq_stored_values_partial :
  forall hatom udiff ops c conv bidir always ro ao,
    (forall a b, hatom a = hatom b -> a = b) ->
    (forall ty0 v v', conv ty0 v = Some v' -> type_of v' = ty0) ->
    bidir || always = true ->
  forall rest cur t0, chain_ok hatom udiff ops c conv bidir always ro ao t0 rest ->
    wf cur = true -> veqb cur t0 = true ->
    Forall2 (fun res t => snd res = 0 /\ veqb (fst res) t = true)
      (chain_from hatom udiff ops c conv bidir always ro ao cur t0 rest) rest.
Proof.
  intros hatom udiff ops c conv bidir always ro ao Hinj Hconv F rest cur t0 H W V.
  apply (chain_veq hatom udiff ops c conv bidir always ro ao Hinj Hconv rest cur t0 H); try assumption.
  apply chain_okv_flags. exact F.
Qed.
Print Assumptions C01_chain_veq_stored_values_partial.

(* the single step from a reordered base: apply transports along [veqb] *)
Theorem C01_roundtrip_veq_base_partial :
  forall hatom udiff ops c conv bidir always,
    (forall a b, hatom a = hatom b -> a = b) ->
    (forall ty0 v v', conv ty0 v = Some v' -> type_of v' = ty0) ->
  forall ro ao t1 t2 v,
    guards c conv bidir always t1 t2 -> opsv ops t1 t2 [] ->
    wf v = true -> veqb v t1 = true -> okb conv bidir always v t1 t2 ->
    let r := run_diff hatom udiff ops nos nos c t1 t2 in
    let d := to_delta conv bidir always ops t1 t2 (fst r) (snd r) in
    orders_ok_at ro ao d ->
    exists t2', apply conv ro ao d v = (t2', 0) /\ veqb t2' t2 = true.
Proof. exact roundtrip_from. Qed.
Print Assumptions C01_roundtrip_veq_base_partial.

(* satisfiable: a two-step chain through nested dicts, a set and a frozenset, started from
   a reordered copy of t0 (not equal to it, and t0 is not order-free) *)
Example C01_chain_veq_guards_satisfiable :
  chain_ok hatom_ex (fun _ _ => []) no_ops ex_cfg conv_none false false (@rev _) (fun l => l) cv0 [cv1; cv2] /\
  chain_okv conv_none false false cv0 [cv1; cv2] /\
  (wf cv_start = true /\ veqb cv_start cv0 = true /\ value_eqb cv_start cv0 = false /\ ordfree cv0 = false) /\
  Forall2 (fun res t => snd res = 0 /\ veqb (fst res) t = true)
    (chain_from hatom_ex (fun _ _ => []) no_ops ex_cfg conv_none false false (@rev _) (fun l => l) cv_start cv0 [cv1; cv2])
    [cv1; cv2].
Proof. exact (conj cv_chain_ok (conj cv_chain_okv (conj cv_start_ok cv_chain))). Qed.
Print Assumptions C01_chain_veq_guards_satisfiable.

(* without [chain_okv]: {'k': {'a':1,'b':2}} -> {'k': ['a','b']} inside the guards of the
   round trip; list(old) == new, so the values are omitted; from the equal dict
   {'k': {'b':2,'a':1}} the same delta builds {'k': ['b','a']}, without error *)
Theorem C01_chain_veq_refuted_rebuild :
  guards ex_cfg keys_conv false false rb_t1 rb_t2 /\
  wf rb_v = true /\ veqb rb_v rb_t1 = true /\
  apply keys_conv (@rev _) (fun l => l) (delta_of hatom_ex (fun _ _ => []) no_ops ex_cfg keys_conv false false rb_t1 rb_t2) rb_t1 = (rb_t2, 0) /\
  apply keys_conv (@rev _) (fun l => l) (delta_of hatom_ex (fun _ _ => []) no_ops ex_cfg keys_conv false false rb_t1 rb_t2) rb_v = (rb_res, 0) /\
  veqb rb_res rb_t2 = false.
Proof. exact (conj rb_guards refuted_rebuild). Qed.
Print Assumptions C01_chain_veq_refuted_rebuild.

(* ---- chains: the hypothesis about the constructor oracle, weakened and made observable ----
   C01_chain_veq_partial under the weaker hypothesis that its proof uses: [okb] at the RUNNING results only
   ([chain_okv_run]: at every step, at the value the delta is actually applied to) instead of at every
   reordering of every left end ([chain_okv]).  [chain_okv_run] is decidable for a computable constructor
   oracle; its exact boolean is evaluated on every step of every generated chain and compared with a Python
   mirror (harness/c01chain.py). *)
Theorem C01_chain_veq_run_partial :
  forall hatom udiff ops c conv bidir always ro ao,
    (forall a b, hatom a = hatom b -> a = b) ->
    (forall ty0 v v', conv ty0 v = Some v' -> type_of v' = ty0) ->
  forall rest cur t0, chain_ok hatom udiff ops c conv bidir always ro ao t0 rest ->
    chain_okv_run hatom udiff ops c conv bidir always ro ao cur t0 rest ->
    wf cur = true -> veqb cur t0 = true ->
    Forall2 (fun res t => snd res = 0 /\ veqb (fst res) t = true)
      (chain_from hatom udiff ops c conv bidir always ro ao cur t0 rest) rest.
Proof. exact chain_veq_run. Qed.
Print Assumptions C01_chain_veq_run_partial.

(* the hypotheses as booleans: [okbb] is exactly [okb], [chain_okv_runb] (runs the chain on the model) exactly
   [chain_okv_run]; the old hypothesis [chain_okv] implies the new one wherever the old theorem applied, and has
   itself a decidable sufficient condition ([chain_okvb]: okb at each of the finitely many reorderings of the left
   end - every permutation of every dict's items and every set's members, at every depth) *)
Theorem C01_chain_okv_run_decidable :
  (forall conv bidir always t1 t2 v, okbb conv bidir always v t1 t2 = true <-> okb conv bidir always v t1 t2) /\
  (forall hatom udiff ops c conv bidir always ro ao rest cur t0,
     chain_okv_runb hatom udiff ops c conv bidir always ro ao cur t0 rest = true <->
     chain_okv_run hatom udiff ops c conv bidir always ro ao cur t0 rest) /\
  (forall hatom udiff ops c conv bidir always ro ao,
     (forall a b, hatom a = hatom b -> a = b) ->
     (forall ty0 v v', conv ty0 v = Some v' -> type_of v' = ty0) ->
   forall rest cur t0, chain_ok hatom udiff ops c conv bidir always ro ao t0 rest ->
     chain_okv conv bidir always t0 rest -> wf cur = true -> veqb cur t0 = true ->
     chain_okv_run hatom udiff ops c conv bidir always ro ao cur t0 rest) /\
  (forall conv bidir always rest t0, wf t0 = true -> forallb wf rest = true ->
     chain_okvb conv bidir always t0 rest = true -> chain_okv conv bidir always t0 rest).
Proof. exact (conj okbb_iff (conj chain_okv_runb_iff (conj chain_okv_implies_run chain_okvb_sound))). Qed.
Print Assumptions C01_chain_okv_run_decidable.

(* strictly weaker: {'k':{'a':1,'b':2},'z':{'p':1,'q':2}} -> (edit below 'z') -> {'k':['a','b'],...} started from
   {'z':{'q':2,'p':1},'k':{'a':1,'b':2}} (a reordered copy that leaves the dict under 'k' alone): [chain_okv_run] holds and
   the theorem applies, [chain_okv] fails (at the reordering {'k':{'b':2,'a':1},...} of t1); and the witness of
   C01_chain_veq_refuted_rebuild started from its own t1 *)
Example C01_chain_okv_run_strict :
  (chain_ok hatom_ex (fun _ _ => []) no_ops ex_cfg keys_conv false false (@rev _) (fun l => l) rc_t0 [rc_t1; rc_t2] /\
   (wf rc_start = true /\ veqb rc_start rc_t0 = true /\ value_eqb rc_start rc_t0 = false) /\
   chain_okv_run hatom_ex (fun _ _ => []) no_ops ex_cfg keys_conv false false (@rev _) (fun l => l) rc_start rc_t0 [rc_t1; rc_t2] /\
   ~ chain_okv keys_conv false false rc_t0 [rc_t1; rc_t2] /\
   Forall2 (fun res t => snd res = 0 /\ veqb (fst res) t = true)
     (chain_from hatom_ex (fun _ _ => []) no_ops ex_cfg keys_conv false false (@rev _) (fun l => l) rc_start rc_t0 [rc_t1; rc_t2])
     [rc_t1; rc_t2]) /\
  (chain_okv_run hatom_ex (fun _ _ => []) no_ops ex_cfg keys_conv false false (@rev _) (fun l => l) rb_t1 rb_t1 [rb_t2] /\
   ~ chain_okv keys_conv false false rb_t1 [rb_t2]).
Proof. exact (conj chain_okv_run_strict (conj rb_okv_run rb_not_okv)). Qed.
Print Assumptions C01_chain_okv_run_strict.

(* the guards are decidable-sufficient and satisfiable by a non-trivial pair:
   nested dict / lists / tuple / set with a recorded difflib alignment, a single
   insertion, a positional list with trailing removals, added and removed keys, set items,
   an in-place tuple change and a type change *)
Example C01_guards_satisfiable :
  guards ex_cfg conv_none false false ex_t1 ex_t2 /\ opsv ex_ops ex_t1 ex_t2 [] /\
  orders_ok_at (@rev _) (fun l => l) ex_delta /\
  (List.length (d_val ex_delta) = 1 /\ List.length (d_type ex_delta) = 1 /\ List.length (d_dadd ex_delta) = 1 /\
   List.length (d_drem ex_delta) = 1 /\ List.length (d_iadd ex_delta) = 1 /\ List.length (d_irem ex_delta) = 2 /\
   List.length (d_sadd ex_delta) = 1 /\ List.length (d_srem ex_delta) = 1 /\ List.length (d_ops ex_delta) = 1 /\
   veqb ex_t1 ex_t2 = false) /\
  exists t2', apply conv_none (@rev _) (fun l => l) ex_delta ex_t1 = (t2', 0) /\ veqb t2' ex_t2 = true.
Proof. exact (conj ex_guards (conj ex_opsv (conj ex_orders (conj ex_nontrivial ex_roundtrip)))). Qed.
Print Assumptions C01_guards_satisfiable.

(* ---- without the guards the statement is false of the faithful model ---- *)
(* KA: {False,'a'} -> {0,'a'} gives {'a'} *)
Theorem C01_roundtrip_refuted_alias :
  wf ka_t1 = true /\ wf ka_t2 = true /\
  rt hatom_ex no_ops ex_cfg conv_none false false ka_t1 ka_t2 = (ka_res, 0) /\ veqb ka_res ka_t2 = false.
Proof. exact refuted_alias. Qed.
Print Assumptions C01_roundtrip_refuted_alias.

(* F4: (1,{2}) -> (1,{3}) is left unchanged and two errors are logged *)
Theorem C01_roundtrip_refuted_tuple_container :
  rt hatom_ex no_ops (mkCfg true 0 1 true) conv_none false false f4_t1 f4_t2 = (f4_t1, 2) /\ veqb f4_t1 f4_t2 = false.
Proof. exact refuted_tuple_container. Qed.
Print Assumptions C01_roundtrip_refuted_tuple_container.

(* F6: (1,2) -> (1,7,2): the item is not inserted into the tuple *)
Theorem C01_roundtrip_refuted_tuple_length :
  rt hatom_ex f6_ops ex_cfg conv_none false false f6_t1 f6_t2 = (VTuple [I 1; I 7], 0) /\ veqb (VTuple [I 1; I 7]) f6_t2 = false.
Proof. exact refuted_tuple_length. Qed.
Print Assumptions C01_roundtrip_refuted_tuple_length.

(* F7 family: [[1,{2}]] -> {1: frozenset({2})}: dict(old) == new, so the values are
   omitted and the delta rebuilds {1: {2}} *)
Theorem C01_roundtrip_refuted_omitted_values :
  wf f7_t1 = true /\ wf f7_t2 = true /\ alias_freeb (atoms_of f7_t1 ++ atoms_of f7_t2) = true /\
  rt hatom_ex no_ops ex_cfg f7_conv false false f7_t1 f7_t2 = (VDict [(AInt 1, VSet [AInt 2])], 0) /\
  veqb (VDict [(AInt 1, VSet [AInt 2])]) f7_t2 = false.
Proof. exact refuted_omitted_values. Qed.
Print Assumptions C01_roundtrip_refuted_omitted_values.

(* keys hidden by ignore_private_variables never reach the delta *)
Theorem C01_roundtrip_refuted_private_keys :
  rt hatom_ex no_ops ex_cfg conv_none false false pk_t1 pk_t2 = (pk_t1, 0) /\ veqb pk_t1 pk_t2 = false.
Proof. exact refuted_private_keys. Qed.
Print Assumptions C01_roundtrip_refuted_private_keys.

(* ---- ignore_order=True, report_repetition=True on lists of distinct scalars ----
   Models: DiffIO/DiffIOModel.v (ignore-order diff with the pairing as an oracle),
   Delta/DeltaIO.v (index-map payload, _do_ignore_order).  For EVERY pairing oracle
   (paired items travel as values_changed / type_changes at the old index, unpaired ones as
   iterable_items_added_at_indexes / removed_at_indexes), every hasher that separates the
   atoms involved, every threshold, bidirectional, always_include_values: the result is a
   list, no error is logged, and its items are a permutation of t2's. *)
Theorem C01_ignore_order_perm_partial :
  forall H udiff c pairs conv bidir always ro ao (X Y : list atom),
    (forall a b, In a (X ++ Y) -> In b (X ++ Y) -> hatom_io H c true a = hatom_io H c true b -> a = b) ->
    NoDup X -> NoDup Y -> alias_free (X ++ Y) ->
    (forall ty0 v v', conv ty0 v = Some v' -> type_of v' = ty0) ->
    ro [] = [] ->
    let t1 := VList (map VAtom X) in
    let t2 := VList (map VAtom Y) in
    let r := run_diff_io H udiff nos nos c true pairs t1 t2 in
    exists zs, apply_io H conv ro ao (to_delta_io conv bidir always t1 t2 (fst r) (snd r)) t1 = (VList zs, 0)
               /\ Permutation zs (map VAtom Y).
Proof. exact io_roundtrip. Qed.
Print Assumptions C01_ignore_order_perm_partial.

(* satisfiable: [1,2,3,4] -> [2,'a',None,7,9] with the pairing the implementation chose;
   the model computes [2,'a',None,9,7] *)
Example C01_ignore_order_guards_satisfiable :
  (exists zs, io_result = (VList zs, 0) /\ Permutation zs (ys io_Y)) /\
  io_result = (VList (map VAtom [AInt 2; AStr [97%N]; ANone; AInt 9; AInt 7]), 0).
Proof. exact io_example. Qed.
Print Assumptions C01_ignore_order_guards_satisfiable.

(* without alias-freeness: [1] -> [True, 1] rebuilds [True] *)
Theorem C01_ignore_order_perm_refuted_alias :
  let r := run_diff_io hexhash (fun _ _ => []) nos nos io_cfg true (fun _ => []) (VList [VAtom (AInt 1)]) (VList [VAtom (ABool true); VAtom (AInt 1)]) in
  apply_io hexhash conv_none_io (fun l => l) (fun l => l)
    (to_delta_io conv_none_io false false (VList [VAtom (AInt 1)]) (VList [VAtom (ABool true); VAtom (AInt 1)]) (fst r) (snd r))
    (VList [VAtom (AInt 1)]) = (VList [VAtom (ABool true)], 0).
Proof. exact io_refuted_alias. Qed.
Print Assumptions C01_ignore_order_perm_refuted_alias.

(* ... at ANY path through dict levels.  [planted a b q u1 u2]: u1 and u2 are the same context of list / dict levels
   around a resp. b, the hole at path q; [dict_level c]: a dict key not hidden by ignore_private_variables.  The pairing
   oracle is asked at the path of the list.  The result is t1's context around a list whose items are a permutation of
   t2's list: nothing else of t1 is touched, no error is logged. *)
Theorem C01_ignore_order_perm_at_path_partial :
  forall H udiff c pairs conv bidir always ro ao (X Y : list atom),
    (forall a b, In a (X ++ Y) -> In b (X ++ Y) -> hatom_io H c true a = hatom_io H c true b -> a = b) ->
    NoDup X -> NoDup Y -> alias_free (X ++ Y) ->
    (forall ty0 v v', conv ty0 v = Some v' -> type_of v' = ty0) ->
    ro [] = [] -> thr_num c <= thr_den c ->
  forall q t1 t2,
    planted (VList (map VAtom X)) (VList (map VAtom Y)) q t1 t2 -> Forall (dict_level c) q -> wf t1 = true -> wf t2 = true ->
    let r := run_diff_io H udiff nos nos c true pairs t1 t2 in
    exists u' zs, apply_io H conv ro ao (to_delta_io conv bidir always t1 t2 (fst r) (snd r)) t1 = (u', 0)
                  /\ planted (VList (map VAtom X)) (VList zs) q t1 u' /\ Permutation zs (map VAtom Y).
Proof. exact io_roundtrip_planted. Qed.
Print Assumptions C01_ignore_order_perm_at_path_partial.

(* corollaries and the machinery behind it, each part for more than the theorem needs.  Read through the path: t1, t2
   and the result hold at q the list X, the list Y, a permutation of Y.  Locality: ANY ignore-order payload of the hole
   (no dict items added / removed), prefixed with q, acts on the hole only - through list AND dict levels (the diff
   side - relocation [Delta/DeltaIOReloc.v], dict levels [dio_planted] - is what restricts the theorem to dict levels) *)
Theorem C01_ignore_order_at_path_corollaries :
  (forall H udiff c pairs conv bidir always ro ao (X Y : list atom),
    (forall a b, In a (X ++ Y) -> In b (X ++ Y) -> hatom_io H c true a = hatom_io H c true b -> a = b) ->
    NoDup X -> NoDup Y -> alias_free (X ++ Y) ->
    (forall ty0 v v', conv ty0 v = Some v' -> type_of v' = ty0) ->
    ro [] = [] -> thr_num c <= thr_den c ->
   forall q t1 t2,
    planted (VList (map VAtom X)) (VList (map VAtom Y)) q t1 t2 -> Forall (dict_level c) q -> wf t1 = true -> wf t2 = true ->
    let r := run_diff_io H udiff nos nos c true pairs t1 t2 in
    exists u' zs, apply_io H conv ro ao (to_delta_io conv bidir always t1 t2 (fst r) (snd r)) t1 = (u', 0)
                  /\ resolve t1 q = Some (VList (map VAtom X)) /\ resolve t2 q = Some (VList (map VAtom Y))
                  /\ resolve u' q = Some (VList zs) /\ Permutation zs (map VAtom Y)) /\
  (forall H conv ro ao, ro [] = [] ->
   forall a b q u1 u2, planted a b q u1 u2 -> wf u1 = true ->
   forall d r, d_dadd (io_base d) = [] -> d_drem (io_base d) = [] ->
    apply_io H conv ro ao d a = (r, 0) ->
    exists u', apply_io H conv ro ao (diopre (npath q) d) u1 = (u', 0) /\ planted a r q u1 u').
Proof. exact (conj io_roundtrip_at_path apply_io_planted). Qed.
Print Assumptions C01_ignore_order_at_path_corollaries.

(* ... and below LIST levels.  There the planted item takes part in the hash matching of its level.  [lev_ok H c pairs a b p q u1 u2]
   (Delta/DeltaIOPlantList.v): a context of dict levels (key not hidden) and of list levels at which the item hashes of the two
   planted values occur nowhere among the siblings' hashes, differ from each other, and the pairing oracle of that level pairs
   exactly the two ([pairs p = [(n, n)]]); every context of dict levels is one ([dict_levels_ok]).  When the oracle does NOT
   pair them the whole item is removed and added and the result is t2 itself at that level (last part of the Example below;
   a general statement needs AnySet-membership hypotheses with default-parameter hashes: not done). *)
Theorem C01_ignore_order_perm_below_lists_partial :
  forall H udiff c pairs conv bidir always ro ao (X Y : list atom),
    (forall a b, In a (X ++ Y) -> In b (X ++ Y) -> hatom_io H c true a = hatom_io H c true b -> a = b) ->
    NoDup X -> NoDup Y -> alias_free (X ++ Y) ->
    (forall ty0 v v', conv ty0 v = Some v' -> type_of v' = ty0) ->
    ro [] = [] -> thr_num c <= thr_den c ->
  forall q t1 t2,
    lev_ok H c pairs (VList (map VAtom X)) (VList (map VAtom Y)) [] q t1 t2 -> wf t1 = true -> wf t2 = true ->
    let r := run_diff_io H udiff nos nos c true pairs t1 t2 in
    exists u' zs, apply_io H conv ro ao (to_delta_io conv bidir always t1 t2 (fst r) (snd r)) t1 = (u', 0)
                  /\ planted (VList (map VAtom X)) (VList zs) q t1 u' /\ Permutation zs (map VAtom Y).
Proof. exact io_roundtrip_levels. Qed.
Print Assumptions C01_ignore_order_perm_below_lists_partial.

(* [lev_ok] has a boolean sufficient condition on an explicit context ([fill cx v]: the levels cx around v): the harness
   evaluates it inside Coq on every planted pair it generates, with the recorded pairings and the correspondence's hasher,
   and compares it with what the recorded pairings say (c01.py: case list c01iol) *)
Theorem C01_ignore_order_lev_ok_decidable_sufficient :
  forall H c pairs cx a b p, lev_okb H c pairs cx a b p = true -> lev_ok H c pairs a b p (cpath cx) (fill cx a) (fill cx b).
Proof. exact lev_okb_sound. Qed.
Print Assumptions C01_ignore_order_lev_ok_decidable_sufficient.

(* satisfiable with the implementation's pairings: {'k': [0, [1,2,3,4], 'x']} -> {'k': [0, [2,1,4,7], 'x']} (hexhash separates the
   siblings 0, 'x' from the two lists; root['k'] pairs the lists, root['k'][1] pairs the 7 with the 3): the model computes
   {'k': [0, [1,2,7,4], 'x']}, as the implementation; with a pairing that leaves the lists unpaired the result is t2 itself *)
Example C01_ignore_order_below_lists_guards_satisfiable :
  lev_ok hexhash io_cfg ll_pairs (VList (xs ll_X)) (VList (ys ll_Y)) [] ll_q ll_t1 ll_t2 /\
  ((exists u' zs, ll_result = (u', 0) /\ planted (VList (xs ll_X)) (VList zs) ll_q ll_t1 u' /\ Permutation zs (ys ll_Y)) /\
   ll_result = (ll_ctx (VList (map VAtom [AInt 1; AInt 2; AInt 7; AInt 4])), 0)) /\
  (let r := run_diff_io hexhash (fun _ _ => []) nos nos io_cfg true (fun _ => []) ll_t1 ll_t2 in
   apply_io hexhash conv_none_io (fun l => l) (fun l => l) (to_delta_io conv_none_io false false ll_t1 ll_t2 (fst r) (snd r)) ll_t1 = (ll_t2, 0)).
Proof. exact (conj ll_lev_ok (conj ll_example ll_unpaired)). Qed.
Print Assumptions C01_ignore_order_below_lists_guards_satisfiable.

(* satisfiable: {'z': 0, 'k': {'m': [1,2,3,4], 'z': None}} -> the same around [2,'a',None,7,9] with the implementation's
   pairing asked at root['k']['m']; the model computes the context around [2,'a',None,9,7] (so does the implementation) *)
Example C01_ignore_order_at_path_guards_satisfiable :
  (exists u' zs, pl_result = (u', 0) /\ planted (VList (xs io_X)) (VList zs) pl_q pl_t1 u' /\ Permutation zs (ys io_Y)) /\
  pl_result = (pl_ctx (VList (map VAtom [AInt 2; AStr [97%N]; ANone; AInt 9; AInt 7])), 0).
Proof. exact pl_example. Qed.
Print Assumptions C01_ignore_order_at_path_guards_satisfiable.

(* [dict_level] is needed: below a key hidden by ignore_private_variables ({'__p': [1,2,3,4]}) the diff is empty and
   the list stays as it was (documented behaviour of DeepDiff, same on the implementation) *)
Theorem C01_ignore_order_perm_refuted_hidden_key :
  let t1 := VDict [(kP, VList (xs io_X))] in
  let t2 := VDict [(kP, VList (ys io_Y))] in
  let r := run_diff_io hexhash (fun _ _ => []) nos nos io_cfg true (fun _ => []) t1 t2 in
  planted (VList (xs io_X)) (VList (ys io_Y)) [PKey kP] t1 t2 /\ ~ dict_level io_cfg (PKey kP) /\
  apply_io hexhash conv_none_io (fun l => l) (fun l => l) (to_delta_io conv_none_io false false t1 t2 (fst r) (snd r)) t1 = (t1, 0).
Proof. exact io_refuted_hidden_key. Qed.
Print Assumptions C01_ignore_order_perm_refuted_hidden_key.

(* BEYOND the property's text ("lists of distinct scalars"): extension witnesses, not findings; both reproduce on the
   implementation (extension stream IgnoreOrderBeyondText of c01.py compares the model with it on such inputs).
   Repetitions: [3, 3] -> [1], the 3 paired with the 1, rebuilds [1, 1].  Nested ignore-order lists:
   [[], [8]] -> [[], [39, 24], [8, 16]], [8] paired with [8, 16]: the 16 is added at its t1 path root[1], where the
   rebuilt outer list now holds [39, 24]: [[], [39, 16, 24], [8]] *)
Theorem C01_ignore_order_beyond_text_refuted :
  (let t1 := VList [VAtom (AInt 3); VAtom (AInt 3)] in
   let t2 := VList [VAtom (AInt 1)] in
   let r := run_diff_io hexhash (fun _ _ => []) nos nos io_cfg true (fun p => match p with [] => [(0, 0)] | _ => [] end) t1 t2 in
   apply_io hexhash conv_none_io (fun l => l) (fun l => l) (to_delta_io conv_none_io false false t1 t2 (fst r) (snd r)) t1
   = (VList [VAtom (AInt 1); VAtom (AInt 1)], 0)) /\
  (let i z := VAtom (AInt z) in
   let t1 := VList [VList []; VList [i 8%Z]] in
   let t2 := VList [VList []; VList [i 39%Z; i 24%Z]; VList [i 8%Z; i 16%Z]] in
   let r := run_diff_io hexhash (fun _ _ => []) nos nos io_cfg true (fun p => match p with [] => [(2, 1)] | _ => [] end) t1 t2 in
   apply_io hexhash conv_none_io (fun l => l) (fun l => l) (to_delta_io conv_none_io false false t1 t2 (fst r) (snd r)) t1
   = (VList [VList []; VList [i 39%Z; i 16%Z; i 24%Z]; VList [i 8%Z]], 0)).
Proof. exact (conj io_refuted_repetition io_refuted_nested). Qed.
Print Assumptions C01_ignore_order_beyond_text_refuted.

(* ---- the faithful application: an exception that escapes Delta.__add__ is a result ----
   Delta/DeltaFaithful.v refines DeltaModel.apply where it was documented as not following the code: [apply_f] refines
   the insert branch of _do_item_added (`if insert and elem < len(obj): obj.insert(elem, None)`: AttributeError for a
   tuple / dict / set / str, TypeError for len of a scalar or a non-numeric elem, Python's clamping list.insert for a
   NEGATIVE index); [apply_ff] also a failed write after a tuple coercion, removals at float / str elems and
   tuple(...) in post-processing.  [res A = exn + A], inl = the exception escapes.  [insert_regular] (a boolean computed
   along DeltaModel's run): no insertion raises and none is at a negative index.  The harness compares apply_f / apply_ff
   with the implementation on tuples of DIFFERENT length and on hand-built payloads (harness/c01free.py). *)
From DD Require Delta.DeltaFaithful Delta.DeltaFaithfulProofs Delta.DeltaFaithfulRoundtrip.
Section Faithful.
Import Delta.DeltaFaithful Delta.DeltaFaithfulProofs Delta.DeltaFaithfulRoundtrip.

(* inside the guards the faithful application has exactly two outcomes: it raises and the run is not insert-regular, or
   it completes, is insert-regular and arrives at t2 (up to dict / set order) without error; in particular
   C01_roundtrip_partial holds of the faithful application on every insert-regular run *)
Theorem C01_roundtrip_faithful_or_raises :
  forall hatom udiff ops c conv bidir always,
    (forall a b, hatom a = hatom b -> a = b) ->
    (forall ty0 v v', conv ty0 v = Some v' -> type_of v' = ty0) ->
  forall ro ao t1 t2,
    guards c conv bidir always t1 t2 -> opsv ops t1 t2 [] ->
    let r := run_diff hatom udiff ops nos nos c t1 t2 in
    let d := to_delta conv bidir always ops t1 t2 (fst r) (snd r) in
    orders_ok_at ro ao d ->
    (insert_regular conv ro ao d t1 = true -> exists t2', apply_f conv ro ao d t1 = inr (t2', 0) /\ veqb t2' t2 = true) /\
    (nonneg_paths d = true ->
     ((exists e, apply_f conv ro ao d t1 = inl e) /\ insert_regular conv ro ao d t1 = false) \/
     (exists t2', apply_f conv ro ao d t1 = inr (t2', 0) /\ veqb t2' t2 = true /\ insert_regular conv ro ao d t1 = true)).
Proof.
  intros hatom udiff ops c conv bidir always Hinj Hconv ro ao t1 t2 G OV r d HO. split.
  - exact (roundtrip_f_at hatom udiff ops c conv bidir always Hinj Hconv ro ao t1 t2 G OV HO).
  - exact (roundtrip_f_or_raises hatom udiff ops c conv bidir always Hinj Hconv ro ao t1 t2 G OV HO).
Qed.
Print Assumptions C01_roundtrip_faithful_or_raises.

(* agreement with DeltaModel.apply: on every insert-regular run; exactly those when the added paths end in list positions;
   statically when nothing is added to an iterable; the fully faithful application under the four regularities; the
   closest-element search for an int elem of either sign is DeltaModel's *)
Theorem C01_faithful_agrees :
  (forall conv ro ao d v, insert_regular conv ro ao d v = true -> apply_f conv ro ao d v = inr (apply conv ro ao d v)) /\
  (forall conv ro ao d v, nonneg_paths d = true -> (forall x, In x (ao (added_items d)) -> In x (added_items d)) ->
    ((exists e, apply_f conv ro ao d v = inl e) <-> insert_regular conv ro ao d v = false)) /\
  (forall conv ro ao d v, d_iadd d = [] -> d_moved d = [] -> apply_f conv ro ao d v = inr (apply conv ro ao d v)) /\
  (forall conv ro ao d v,
    insert_regular conv ro ao d v = true -> write_regular conv ro ao d v = true ->
    removal_regular conv ro ao d v = true -> post_regular conv ro ao d v = true ->
    apply_ff conv ro ao d v = inr (apply conv ro ao d v)) /\
  (forall xs z expected, find_closest2 xs (2 * z) expected = find_closest xs (Z.to_nat z) expected).
Proof. exact (conj apply_f_sound (conj apply_f_raises_iff (conj apply_f_no_iterable_added (conj apply_ff_sound find_closest2_int)))). Qed.
Print Assumptions C01_faithful_agrees.

(* witnesses (each as on the implementation).  "F6" on the faithful model: (1,2) + Delta(DeepDiff((1,2),(1,7,2))) raises
   AttributeError where DeltaModel answers (1,7) (C01_roundtrip_refuted_tuple_length); a trailing append to a tuple
   (1,2) -> (1,2,3) succeeds; [1,2,3] + Delta({'iterable_item_added': {'root[-1]': 9}}) = [1, 2, None, 9] where
   DeltaModel answers [1, 2, 9]; no condition on paths and the absence of tuples makes a run regular (dict.insert, len(5)) *)
Theorem C01_faithful_witnesses :
  (rt_f hatom_ex f6_ops ex_cfg conv_none false false f6_t1 f6_t2 = inl EAttribute /\
   rt_ff hatom_ex f6_ops ex_cfg conv_none false false f6_t1 f6_t2 = inl EAttribute /\
   rt hatom_ex f6_ops ex_cfg conv_none false false f6_t1 f6_t2 = (VTuple [I 1; I 7], 0) /\
   insert_regular conv_none (@rev _) (fun l => l) (delta_of hatom_ex (fun _ _ => []) f6_ops ex_cfg conv_none false false f6_t1 f6_t2) f6_t1 = false) /\
  (rt_f hatom_ex app_ops ex_cfg conv_none false false f6_t1 app_t2 = inr (app_t2, 0) /\
   rt_ff hatom_ex app_ops ex_cfg conv_none false false f6_t1 app_t2 = inr (app_t2, 0) /\
   rt hatom_ex app_ops ex_cfg conv_none false false f6_t1 app_t2 = (app_t2, 0) /\
   insert_regular conv_none (@rev _) (fun l => l) (delta_of hatom_ex (fun _ _ => []) app_ops ex_cfg conv_none false false f6_t1 app_t2) f6_t1 = true /\
   d_iadd (delta_of hatom_ex (fun _ _ => []) app_ops ex_cfg conv_none false false f6_t1 app_t2) = [([PKey (AInt 2)], I 3)]) /\
  (let d := free_delta [([PKey (AInt (-1))], I 9)] [] [] [] [] [] in
   let v := VList [I 1; I 2; I 3] in
   app_f d v = inr (VList [I 1; I 2; NoneV; I 9], 0) /\ app_ff d v = inr (VList [I 1; I 2; NoneV; I 9], 0) /\
   app_m d v = (VList [I 1; I 2; I 9], 0) /\ insert_regular conv_none (@rev _) (fun l => l) d v = false) /\
  (nonneg_paths nsp_d1 = true /\ app_f nsp_d1 nsp_v1 = inl EAttribute /\ app_m nsp_d1 nsp_v1 = (nsp_r1, 0) /\
   nonneg_paths nsp_d2 = true /\ app_f nsp_d2 nsp_v2 = inl EType /\ app_m nsp_d2 nsp_v2 = (nsp_v2, 1)).
Proof. exact (conj tuple_insert_raises (conj tuple_append_ok (conj negative_index_insert no_static_path_condition))). Qed.
Print Assumptions C01_faithful_witnesses.
End Faithful.

(* ---- list / dict items of tuples are edited IN PLACE ----
   The code mutates the object it reaches through the path: a list or dict that is an item of a tuple is edited without anything
   being written into the tuple (([1,2],3) -> ([9,1,2],3) round-trips on the implementation).  The shared DeltaModel.upd refuses
   every write below a tuple (block C08's proofs rest on it: "after a successful write every container above is a list or dict"),
   so DeltaModel is not faithful there - outside [guards], which keep tuples to scalars.  Delta/DeltaInplace.v, module T, repeats
   DeltaModel's passes verbatim over [T.upd], which puts a list child (dict child) of a tuple back when it is still a list (dict).
   T is compared with the implementation on pairs with list / dict / set items of tuples (c01.py inplace_tuple_stream); a tuple that
   is an item of a tuple stays outside both models.  Here: T.upd succeeds wherever upd does, with the same result; the two agree
   when no tuple lies above the written object; witnesses - a list and a dict inside a tuple round-trip in T with 0 errors where
   DeltaModel logs errors, a set inside a tuple still fails (2 errors, unchanged): finding F4 as it remains. *)
From DD Require Delta.DeltaInplace Delta.DeltaInplaceProofs.
Section Inplace.
Import Delta.DeltaInplace Delta.DeltaInplaceProofs.
Theorem C01_inplace_tuple_items :
  (forall p v f r, upd v p f = Some r -> T.upd v p f = Some r) /\
  (forall p v f, no_tuple_above v p = true -> T.upd v p f = upd v p f) /\
  ((rt_t hatom_ex no_ops zip_cfg conv_none false false ip_l1 ip_l2 = (ip_l2, 0) /\
    snd (rt hatom_ex no_ops zip_cfg conv_none false false ip_l1 ip_l2) <> 0) /\
   (rt_t hatom_ex no_ops zip_cfg conv_none false false ip_d1 ip_d2 = (ip_d2, 0) /\
    snd (rt hatom_ex no_ops zip_cfg conv_none false false ip_d1 ip_d2) <> 0) /\
   (rt_t hatom_ex no_ops zip_cfg conv_none false false f4_t1 f4_t2 = (f4_t1, 2) /\ veqb f4_t1 f4_t2 = false)).
Proof. exact (conj upd_refines (conj upd_same inplace_witnesses)). Qed.
Print Assumptions C01_inplace_tuple_items.
End Inplace.

(* ---- numpy arrays "edited in place" ----
   Models: Diff/NpModel.v (the diff of numeric arrays: dtype, shape, row-major data), Delta/DeltaNp.v (the
   values_changed payload with _numpy_paths, _do_values_changed writing through the index path; casts, out-of-range
   indexes and too short / too long paths modelled, the rest excluded by the domain predicate np_dom).  For all
   well-formed numeric arrays of one shape and dtype (ANY number of dimensions >= 1), directed or bidirectional
   delta:  Delta(DeepDiff(a, b)) + a  is b as an array (dtype, shape, every element), nothing logged. *)
From DD Require Diff.NpModel Delta.DeltaNp Delta.DeltaNpProofs.
Section Numpy.
Import Diff.NpModel Delta.DeltaNp Delta.DeltaNpProofs.

Theorem C01_numpy_roundtrip :
  forall (ops : path -> list value -> list value -> list opcode) (zip bidir : bool) (a b : narr),
    nwf a = true -> nwf b = true -> dtype a = dtype b -> shape a = shape b ->
    apply_np bidir (np_delta ops zip bidir a b) a = (b, 0).
Proof. exact DeltaNpProofs.np_roundtrip. Qed.
Print Assumptions C01_numpy_roundtrip.

(* around it: the diff of such a pair is a values_changed-only payload with _numpy_paths = b's dtype; on ANY base c of
   that shape and dtype the result is c with the positions where a and b differ overwritten by b's elements (a
   bidirectional delta logs one error per overwritten position where c <> a); ANY payload (hand-written paths,
   out-of-range indexes, casts) keeps dtype, shape and well-formedness; [shape a = shape b] cannot be dropped
   (zeros((0,3)) vs zeros((0,2)): empty representable delta, same on the implementation); satisfiable by a 2-d pair *)
Theorem C01_numpy_facts :
  (forall (ops : path -> list value -> list value -> list opcode) (zip : bool) (a b : narr),
    nwf a = true -> nwf b = true -> dtype a = dtype b -> shape a = shape b ->
    np_in_model (np_run_diff ops zip a b) = true /\
    (forall bidir : bool, nd_numpy (np_delta ops zip bidir a b) = Some (dtype b))) /\
  (forall (ops : path -> list value -> list value -> list opcode) (zip bidir : bool) (a b c : narr),
    nwf a = true -> nwf b = true -> nwf c = true ->
    dtype a = dtype b -> shape a = shape b -> dtype c = dtype a -> shape c = shape a ->
    apply_np bidir (np_delta ops zip bidir a b) c
    = (mkArr (dtype c) (shape c) (merge3 (data a) (data b) (data c)),
       if bidir then stale (data a) (data b) (data c) else 0)) /\
  (forall (bidir : bool) (p : npdelta) (a : narr), nwf a = true ->
    nwf (fst (apply_np bidir p a)) = true /\
    dtype (fst (apply_np bidir p a)) = dtype a /\ shape (fst (apply_np bidir p a)) = shape a) /\
  (nwf rt_z03 = true /\ nwf rt_z02 = true /\ dtype rt_z03 = dtype rt_z02 /\
   np_in_model (np_run_diff np_no_ops false rt_z03 rt_z02) = true /\
   apply_np false (np_delta np_no_ops false false rt_z03 rt_z02) rt_z03 = (rt_z03, 0) /\ rt_z03 <> rt_z02) /\
  (nwf rt_a = true /\ nwf rt_b = true /\ dtype rt_a = dtype rt_b /\ shape rt_a = shape rt_b /\ rt_a <> rt_b /\
   np_delta np_no_ops false true rt_a rt_b
     = mkND [mkNC [0; 1] (AInt 9) (Some (AInt 2)); mkNC [1; 2] (AInt 7) (Some (AInt 6))] (Some DInt64) /\
   apply_np true (np_delta np_no_ops false true rt_a rt_b) rt_a = (rt_b, 0)).
Proof.
  exact (conj DeltaNpProofs.np_delta_in_model (conj DeltaNpProofs.np_patch (conj DeltaNpProofs.apply_np_nwf
        (conj DeltaNpProofs.np_roundtrip_other_shape_refuted DeltaNpProofs.np_roundtrip_satisfiable)))).
Qed.
Print Assumptions C01_numpy_facts.
End Numpy.

(* ------------------------------------------------------------------ *)
(** EXTENSION beyond the property's stated domain: values holding INSTANCES OF CLASSES
    (objects with attributes, Obj/ObjValue.v [ovalue]).  [odelta] / [oapply] (Obj/ObjModel.v) are
    the payload construction and Delta.__add__ above on the encoding
      OObj cls attrs |-> { TAG cls : { attr : value }, TAG2 cls : cls }
    (attribute_added / attribute_removed travel as additions / removals below the attribute dict;
    setattr / delattr are functional updates of it), decoded; tied to Delta on real class instances
    by the extension stream of harness/objcommon.py.
    [oveqb a b] (Obj/ObjRoundtrip.v): typed structural equality - same class, atoms identical -
    up to dict insertion order, ATTRIBUTE order and set iteration order.
    The guards are those of C01_roundtrip_partial, asked of the encodings: [guards ... (enc t1) (enc t2)]
    is decided by Delta.DeltaChain.guardsb on the encodings; it excludes instances below tuples
    (F4/F6) and private attribute names (ignore_private_variables), as for dicts.  Extra guard
    0 < threshold_to_diff_deeper (the default is 0.33): there the payload is the payload of the encoded
    run (C04_objects_positive_threshold_is_encoded_run); at 0 the model builds it from the entries with the
    type changes of class-changing pairs put back (Obj.ObjModel.tagfix) - compared with the implementation
    by the correspondence, not covered by this theorem.
    What the model does not have, and the implementation does (Obj/NOTES.md): `del obj.__dict__[name]`
    on a __slots__ instance (observation OBJ1) and the `!=` on instances of a class without __eq__
    when a list item is removed (observation OBJ2). *)
From DD Require Obj.ObjValue Obj.ObjModel Obj.ObjRoundtrip Obj.ObjExamples Delta.DeltaChain.

Theorem C01_objects_roundtrip_partial :
  forall hatom udiff ops c conv bidir always,
    (forall a b, hatom a = hatom b -> a = b) ->
    (forall ty0 v v', conv ty0 v = Some v' -> type_of v' = ty0) ->
  forall ro ao (t1 t2 : Obj.ObjValue.ovalue),
    0 < thr_num c -> Obj.ObjValue.owf t1 = true -> Obj.ObjValue.owf t2 = true ->
    guards c conv bidir always (Obj.ObjValue.enc t1) (Obj.ObjValue.enc t2) ->
    opsv ops (Obj.ObjValue.enc t1) (Obj.ObjValue.enc t2) [] ->
    let d := Obj.ObjModel.odelta hatom udiff ops c conv bidir always t1 t2 in
    orders_ok_at ro ao d ->
    exists t2', Obj.ObjModel.oapply conv ro ao d t1 = (t2', 0) /\ Obj.ObjRoundtrip.oveqb t2' t2 = true.
Proof. intros. eapply Obj.ObjRoundtrip.oroundtrip_at; eassumption. Qed.
Print Assumptions C01_objects_roundtrip_partial.

Theorem C01_objects_roundtrip_oracles_partial :
  forall hatom udiff ops c conv bidir always,
    (forall a b, hatom a = hatom b -> a = b) ->
    (forall ty0 v v', conv ty0 v = Some v' -> type_of v' = ty0) ->
  forall ro ao (t1 t2 : Obj.ObjValue.ovalue),
    (forall p xs ys, forallb is_atom xs = true -> forallb is_atom ys = true -> valid_ops xs ys (ops p xs ys)) ->
    ro_ok ro -> ao_ok ao -> 0 < thr_num c -> Obj.ObjValue.owf t1 = true -> Obj.ObjValue.owf t2 = true ->
    guards c conv bidir always (Obj.ObjValue.enc t1) (Obj.ObjValue.enc t2) ->
    exists t2', Obj.ObjModel.oapply conv ro ao (Obj.ObjModel.odelta hatom udiff ops c conv bidir always t1 t2) t1 = (t2', 0)
                /\ Obj.ObjRoundtrip.oveqb t2' t2 = true.
Proof. intros. eapply Obj.ObjRoundtrip.oroundtrip; eassumption. Qed.
Print Assumptions C01_objects_roundtrip_oracles_partial.

(* the same with the guards as ONE boolean function of the two values (Delta.DeltaChain.guardsb on the
   encodings: well-formed, alias-free atoms, tuples hold scalars only and keep their length, a type change
   either stores its values or is scalar to scalar, no private dict key / attribute name) *)
Theorem C01_objects_roundtrip_decidable_guards_partial :
  forall hatom udiff ops c conv bidir always,
    (forall a b, hatom a = hatom b -> a = b) ->
    (forall ty0 v v', conv ty0 v = Some v' -> type_of v' = ty0) ->
  forall ro ao (t1 t2 : Obj.ObjValue.ovalue),
    (forall p xs ys, forallb is_atom xs = true -> forallb is_atom ys = true -> valid_ops xs ys (ops p xs ys)) ->
    ro_ok ro -> ao_ok ao -> 0 < thr_num c -> Obj.ObjValue.owf t1 = true -> Obj.ObjValue.owf t2 = true ->
    Delta.DeltaChain.guardsb c bidir always (Obj.ObjValue.enc t1) (Obj.ObjValue.enc t2) = true ->
    exists t2', Obj.ObjModel.oapply conv ro ao (Obj.ObjModel.odelta hatom udiff ops c conv bidir always t1 t2) t1 = (t2', 0)
                /\ Obj.ObjRoundtrip.oveqb t2' t2 = true.
Proof.
  intros hatom udiff ops c conv bidir always Hinj Hconv ro ao t1 t2 Hops Hro Hao Hpos W1 W2 G.
  eapply Obj.ObjRoundtrip.oroundtrip; try eassumption.
  eapply Delta.DeltaChain.guardsb_sound; eassumption.
Qed.
Print Assumptions C01_objects_roundtrip_decidable_guards_partial.

(* a result of Delta known up to order decodes to the object value up to order: the decoding
   does not depend on the order in which a rebuilt dict holds the two items of an instance *)
Theorem C01_objects_decode_up_to_order :
  forall (t : Obj.ObjValue.ovalue) (v : value),
    Obj.ObjValue.owf t = true -> veqb v (Obj.ObjValue.enc t) = true ->
    Obj.ObjRoundtrip.oveqb (Obj.ObjValue.dec v) t = true.
Proof. exact Obj.ObjRoundtrip.dec_veqb. Qed.
Print Assumptions C01_objects_decode_up_to_order.

(* the guards are satisfiable by a pair with instances as dict values, list items and attribute
   values: values_changed x2 (one two attribute levels deep), a class change, attribute_added x2,
   attribute_removed, an instance removed from a list, set items added / removed below an attribute *)
Example C01_objects_guards_satisfiable :
  0 < thr_num Obj.ObjExamples.ox_cfg /\
  (Obj.ObjValue.owf Obj.ObjExamples.ox_t1 = true /\ Obj.ObjValue.owf Obj.ObjExamples.ox_t2 = true) /\
  guards Obj.ObjExamples.ox_cfg conv_none false false (Obj.ObjValue.enc Obj.ObjExamples.ox_t1) (Obj.ObjValue.enc Obj.ObjExamples.ox_t2) /\
  opsv no_ops (Obj.ObjValue.enc Obj.ObjExamples.ox_t1) (Obj.ObjValue.enc Obj.ObjExamples.ox_t2) [] /\
  orders_ok_at (@rev _) (fun l => l) Obj.ObjExamples.ox_delta /\
  (length (fst Obj.ObjExamples.ox_run) = 9 /\ Obj.ObjValue.opy_eqv Obj.ObjExamples.ox_t1 Obj.ObjExamples.ox_t2 = false) /\
  exists t2', Obj.ObjModel.oapply conv_none (@rev _) (fun l => l) Obj.ObjExamples.ox_delta Obj.ObjExamples.ox_t1 = (t2', 0)
              /\ Obj.ObjRoundtrip.oveqb t2' Obj.ObjExamples.ox_t2 = true.
Proof.
  refine (conj (Nat.lt_0_1) (conj Obj.ObjExamples.ox_wf (conj Obj.ObjExamples.ox_guards (conj Obj.ObjExamples.ox_opsv
           (conj Obj.ObjExamples.ox_orders (conj _ Obj.ObjExamples.ox_roundtrip)))))).
  destruct Obj.ObjExamples.ox_nontrivial as (_ & _ & _ & _ & _ & _ & _ & A & B). exact (conj A B).
Qed.
Print Assumptions C01_objects_guards_satisfiable.

(** C04 - every reported entry of an ordered diff is backed by the inputs.
    Final statements only.  Model: Diff/DiffModel.v (both alignment modes; the
    difflib opcodes are an arbitrary oracle [ops], so the theorems hold for
    whichever alignment the heuristic chooses); [resolve] is the model of
    deepdiff.extract on key sequences (Path/PathModel.v). *)
From Coq Require Import List ZArith Bool Arith.
Import ListNotations.
From DD Require Import Base.PyStr Base.Value Path.PathModel Diff.Tree Diff.DiffModel Diff.DiffFaithful.

(* [faithful false t1 t2 e]: the path of e resolves in t1 to the reported old value /
   removed item, (through new_path) in t2 to the reported new value / added item,
   a type change really changes the type, a moved item has equal values, an added
   dictionary key does not resolve in t1 nor a removed one in t2.
   [faithful true]: in addition a changed value really differs (Python !=). *)

Theorem C04_entries_resolve :
  forall hatom udiff ops skip excl c t1 t2,
    thr_num c <= thr_den c -> wf t1 = true -> wf t2 = true ->
    forall e, In e (fst (run_diff hatom udiff ops skip excl c t1 t2)) -> faithful false t1 t2 e.
Proof. intros. eapply run_diff_faithful; eassumption. Qed.
Print Assumptions C04_entries_resolve.

(* every changed value really differs, for all entries except those manufactured by
   mutual_add_removes_to_become_value_changes from an add and a remove at one path *)
Theorem C04_changed_really_differ_partial :
  forall hatom udiff ops skip excl c t1 t2,
    thr_num c <= thr_den c -> wf t1 = true -> wf t2 = true ->
    forall e, In e (fst (run_diff hatom udiff ops skip excl c t1 t2)) ->
              In e (fst (diff hatom udiff ops skip excl c t1 t2 [] [])) -> faithful true t1 t2 e.
Proof. intros. eapply run_diff_faithful; eassumption. Qed.
Print Assumptions C04_changed_really_differ_partial.

(* the full statement is false: finding K17 (witness replayed on the implementation
   by harness/props/c04.py) *)
Theorem C04_changed_really_differ_refuted :
  exists e, In e (fst (run_diff (fun _ => []) (fun _ _ => []) k17_ops (fun _ => false) (fun _ => false)
                         (mkCfg false 33 100 true) k17_t1 k17_t2)) /\
            ekind e = KValue /\ et1 e = et2 e.
Proof. exact changed_value_differs_refuted. Qed.
Print Assumptions C04_changed_really_differ_refuted.

(** C04 - every reported entry of an ordered diff is backed by the inputs.
    Final statements only.  Model: Diff/DiffModel.v (both alignment modes; the
    difflib opcodes are an arbitrary oracle [ops], so the theorems hold for
    whichever alignment the heuristic chooses); [resolve] is the model of
    deepdiff.extract on key sequences (Path/PathModel.v). *)
From Coq Require Import List ZArith Bool Arith Lia.
Import ListNotations.
From DD Require Import Base.PyStr Base.Value Path.PathModel Diff.Tree Diff.DiffModel Diff.DiffFaithful
  Diff.DiffPaths Diff.TextView Diff.TextFaithful.

(* [faithful false t1 t2 e]: the path of e resolves in t1 to the reported old value /
   removed item, (through new_path) in t2 to the reported new value / added item,
   a type change really changes the type, a moved item has equal values, an added
   dictionary key does not resolve in t1 nor a removed one in t2.
   [faithful true]: in addition a changed value really differs (Python !=). *)

Theorem C04_entries_resolve :
  forall hatom udiff ops skip excl c t1 t2,
    thr_num c <= thr_den c -> wf t1 = true -> wf t2 = true ->
    forall e, In e (fst (run_diff hatom udiff ops skip excl c t1 t2)) -> faithful false t1 t2 e.
Proof. intros. eapply run_diff_faithful; eassumption. Qed.
Print Assumptions C04_entries_resolve.

(* every changed value really differs, for all entries except those manufactured by
   mutual_add_removes_to_become_value_changes from an add and a remove at one path *)
Theorem C04_changed_really_differ_partial :
  forall hatom udiff ops skip excl c t1 t2,
    thr_num c <= thr_den c -> wf t1 = true -> wf t2 = true ->
    forall e, In e (fst (run_diff hatom udiff ops skip excl c t1 t2)) ->
              In e (fst (diff hatom udiff ops skip excl c t1 t2 [] [])) -> faithful true t1 t2 e.
Proof. intros. eapply run_diff_faithful; eassumption. Qed.
Print Assumptions C04_changed_really_differ_partial.

(* the full statement is false: finding K17 (witness replayed on the implementation
   by harness/props/c04.py) *)
Theorem C04_changed_really_differ_refuted :
  exists e, In e (fst (run_diff (fun _ => []) (fun _ _ => []) k17_ops (fun _ => false) (fun _ => false)
                         (mkCfg false 33 100 true) k17_t1 k17_t2)) /\
            ekind e = KValue /\ et1 e = et2 e.
Proof. exact changed_value_differs_refuted. Qed.
Print Assumptions C04_changed_really_differ_refuted.

(* ---- the same on the TEXT view: path strings and deepdiff.extract -------------------- *)
(* [tfaithful strong t1 t2 te] (Diff/TextFaithful.v): the path string of the entry extracts
   from t1 the reported old value / removed item, (through new_path when given) from t2
   the reported new value / added item; old_type/new_type are the types of those values
   and differ; an added dictionary key cannot be extracted from t1 nor a removed one
   from t2.  [keys_ok]: C09's guard on the dict keys of the inputs. *)

(* only changed values, changed types and moved items can have a t2 path that differs
   from the t1 path *)
Theorem C04_only_changes_shift :
  forall hatom udiff ops skip excl c t1 t2 e,
    In e (fst (run_diff hatom udiff ops skip excl c t1 t2)) ->
    ep1 e = ep2 e \/ ekind e = KValue \/ ekind e = KType \/ ekind e = KIterMoved.
Proof.
  intros. pose proof (run_diff_same_paths hatom udiff ops skip excl c t1 t2) as S.
  eapply Forall_forall in S; [exact S|eassumption].
Qed.
Print Assumptions C04_only_changes_shift.

(* verbose_level=2: every entry of the result dict *)
Theorem C04_text_entries_faithful :
  forall hatom udiff ops skip excl c verbose t1 t2,
    2 <= verbose -> thr_num c <= thr_den c -> wf t1 = true -> wf t2 = true ->
    keys_ok t1 = true -> keys_ok t2 = true ->
    forall te, In te (text_view verbose (fst (run_diff hatom udiff ops skip excl c t1 t2))) ->
               tfaithful false t1 t2 te.
Proof. intros. eapply text_faithful; eassumption. Qed.
Print Assumptions C04_text_entries_faithful.

Theorem C04_text_changed_really_differ_partial :
  forall hatom udiff ops skip excl c verbose t1 t2,
    2 <= verbose -> thr_num c <= thr_den c -> wf t1 = true -> wf t2 = true ->
    keys_ok t1 = true -> keys_ok t2 = true ->
    forall e, In e (fst (run_diff hatom udiff ops skip excl c t1 t2)) ->
              In e (fst (diff hatom udiff ops skip excl c t1 t2 [] [])) ->
    forall te, In te (text_of verbose e) -> tfaithful true t1 t2 te.
Proof. intros. eapply text_faithful_strong_partial; eassumption. Qed.
Print Assumptions C04_text_changed_really_differ_partial.

(* verbose_level 0 and 1 (1 is the default): every entry except the changed values /
   types whose item moved to another index of t2 *)
Theorem C04_text_default_verbosity_partial :
  forall hatom udiff ops skip excl c verbose t1 t2,
    thr_num c <= thr_den c -> wf t1 = true -> wf t2 = true ->
    keys_ok t1 = true -> keys_ok t2 = true ->
    forall e, In e (fst (run_diff hatom udiff ops skip excl c t1 t2)) ->
              (render (ep1 e) = render (ep2 e) \/
               ~ (ekind e = KValue \/ ekind e = KType \/ ekind e = KIterMoved)) ->
    forall te, In te (text_of verbose e) -> tfaithful false t1 t2 te.
Proof.
  intros hatom udiff ops skip excl c verbose t1 t2 Hthr W1 W2 K1 K2 e He [Hp|Hn].
  - eapply text_v1_faithful_partial; eassumption.
  - eapply text_v1_faithful_unshifted; eassumption.
Qed.
Print Assumptions C04_text_default_verbosity_partial.

(* the full statement at verbose_level=1 is false: finding K18 (new_path is only given
   at verbose_level=2); the same run at verbose_level=2 carries new_path *)
Theorem C04_text_default_verbosity_refuted :
  (exists te, In te (text_view 1 (fst k18_run)) /\ ~ tfaithful false k18_t1 k18_t2 te) /\
  (forall te, In te (text_view 2 (fst k18_run)) -> tfaithful false k18_t1 k18_t2 te).
Proof.
  split; [exact text_v1_new_path_refuted|].
  intros te Hte. unfold k18_run in Hte.
  refine (text_faithful _ _ _ _ _ _ 2 k18_t1 k18_t2 _ _ _ _ _ _ te Hte);
    try reflexivity; apply Nat.leb_le; reflexivity.
Qed.
Print Assumptions C04_text_default_verbosity_refuted.

(* non-vacuity: the hypotheses hold of a pair with a non-empty result in which the difflib pass wins *)
Example C04_hypotheses_satisfiable :
  wf k18_t1 = true /\ wf k18_t2 = true /\ keys_ok k18_t1 = true /\ keys_ok k18_t2 = true /\
  length (text_view 2 (fst k18_run)) = 2 /\ snd k18_run = [[]].
Proof. vm_compute. repeat split; reflexivity. Qed.

(* ------------------------------------------------------------------ *)
(** EXTENSION beyond the property's stated domain: values holding INSTANCES OF CLASSES
    (objects with attributes, Obj/ObjValue.v [ovalue]; [orun] = the run above on the encoding
    OObj cls attrs |-> { TAG cls : { attr : value }, TAG2 cls : cls }, decoded: a level below an
    attribute dict is an attribute level, dictionary_item_added/removed there is
    attribute_added/removed, a changed pair whose classes differ is type_changes; tied to
    DeepDiff on real class instances by the extension stream of harness/objcommon.py).

    [ofaithful t1 t2 e] (Obj/ObjFaithful.v): the path of e, followed through dict keys,
    sequence indexes AND getattr steps ([oresolve]), leads in t1 to the reported old value /
    removed item / removed attribute and in t2 to the reported new value / added item / added
    attribute; type_changes has values of different type or class and values_changed values
    of the same; an added key or attribute does not resolve in t1, a removed one not in t2;
    attribute_added / attribute_removed paths end in an attribute element and
    dictionary_item_added / removed paths do not; a moved item has equal values.
    The statement holds for every configuration, threshold_to_diff_deeper = 0 included (there the
    encoded run takes a pair of instances of different classes apart, and Obj.ObjModel.tagfix puts
    the one type_changes of the pair back, as _diff does before it looks at any threshold). *)
From DD Require Obj.ObjValue Obj.ObjModel Obj.ObjFacts Obj.ObjFaithful Obj.ObjExamples Delta.DeltaExamples.

Theorem C04_objects_entries_resolve :
  forall hatom udiff ops c (t1 t2 : Obj.ObjValue.ovalue),
    thr_num c <= thr_den c ->
    Obj.ObjValue.owf t1 = true -> Obj.ObjValue.owf t2 = true ->
    forall e, In e (fst (Obj.ObjModel.orun hatom udiff ops c t1 t2)) -> Obj.ObjFaithful.ofaithful t1 t2 e.
Proof. intros. eapply Obj.ObjFaithful.orun_faithful; eassumption. Qed.
Print Assumptions C04_objects_entries_resolve.

(* with a positive threshold (the default is 0.33) the entries are exactly the decoded entries of the
   encoded run: it never takes a pair of different classes apart *)
Theorem C04_objects_positive_threshold_is_encoded_run :
  forall hatom udiff ops c (t1 t2 : Obj.ObjValue.ovalue),
    0 < thr_num c -> Obj.ObjValue.owf t1 = true -> Obj.ObjValue.owf t2 = true ->
    fst (Obj.ObjModel.orun hatom udiff ops c t1 t2) =
    map Obj.ObjModel.dec_entry (fst (run_diff hatom udiff ops Obj.ObjModel.nopaths Obj.ObjModel.nopaths c
                                       (Obj.ObjValue.enc t1) (Obj.ObjValue.enc t2))).
Proof.
  intros. unfold Obj.ObjModel.orun. cbn [fst]. rewrite Obj.ObjFaithful.tagfix_id_run by assumption. reflexivity.
Qed.
Print Assumptions C04_objects_positive_threshold_is_encoded_run.

(* threshold 0, [PA(x=1), PA(), {'a':1}, PA(x=1)] against [PB(x=1), {'a':1}, PB(y=2), PA(y=1)]: the encoded
   run has 12 entries, 10 of them the keys of the three pairs of different type; the result has the three
   type_changes, one attribute_added and one attribute_removed - all faithful *)
Example C04_objects_threshold_zero :
  (length (filter (fun e => Obj.ObjExamples.okind_eqb (Obj.ObjModel.oekind e) (Obj.ObjModel.OK KType)) (fst Obj.ObjExamples.thr0_run)) = 3 /\
   length (filter (fun e => Obj.ObjExamples.okind_eqb (Obj.ObjModel.oekind e) Obj.ObjModel.OKAttrAdd) (fst Obj.ObjExamples.thr0_run)) = 1 /\
   length (filter (fun e => Obj.ObjExamples.okind_eqb (Obj.ObjModel.oekind e) Obj.ObjModel.OKAttrRem) (fst Obj.ObjExamples.thr0_run)) = 1 /\
   length (fst Obj.ObjExamples.thr0_run) = 5 /\
   length (fst (run_diff Delta.DeltaExamples.hatom_ex (fun _ _ => []) Delta.DeltaExamples.no_ops Obj.ObjModel.nopaths Obj.ObjModel.nopaths
                  Obj.ObjExamples.thr0_cfg (Obj.ObjValue.enc Obj.ObjExamples.thr0_t1) (Obj.ObjValue.enc Obj.ObjExamples.thr0_t2))) = 12) /\
  (forall e, In e (fst Obj.ObjExamples.thr0_run) -> Obj.ObjFaithful.ofaithful Obj.ObjExamples.thr0_t1 Obj.ObjExamples.thr0_t2 e).
Proof. exact (conj Obj.ObjExamples.thr0_kinds Obj.ObjExamples.thr0_faithful). Qed.
Print Assumptions C04_objects_threshold_zero.

(* a changed value really differs (by class and attribute values, [opy_eqv]), for every values_changed entry
   of the encoded run that mutual_add_removes_to_become_value_changes did not manufacture; such an entry is
   an entry of the result *)
Theorem C04_objects_changed_really_differ_partial :
  forall hatom udiff ops c (t1 t2 : Obj.ObjValue.ovalue),
    thr_num c <= thr_den c -> Obj.ObjValue.owf t1 = true -> Obj.ObjValue.owf t2 = true ->
    forall e, In e (fst (diff hatom udiff ops Obj.ObjModel.nopaths Obj.ObjModel.nopaths c
                           (Obj.ObjValue.enc t1) (Obj.ObjValue.enc t2) [] [])) -> ekind e = KValue ->
      In (Obj.ObjModel.dec_entry e) (fst (Obj.ObjModel.orun hatom udiff ops c t1 t2)) /\
      forall a b, Obj.ObjModel.oet1 (Obj.ObjModel.dec_entry e) = Some a -> Obj.ObjModel.oet2 (Obj.ObjModel.dec_entry e) = Some b ->
                  Obj.ObjValue.opy_eqv a b = false.
Proof. intros. eapply Obj.ObjFaithful.orun_changed_differ; eassumption. Qed.
Print Assumptions C04_objects_changed_really_differ_partial.

(* the full statement is false, as for plain values (finding K17) *)
Theorem C04_objects_changed_really_differ_refuted :
  exists e, In e (fst (Obj.ObjModel.orun (fun _ => []) (fun _ _ => []) k17_ops (mkCfg false 33 100 true)
                         Obj.ObjExamples.ok17_t1 Obj.ObjExamples.ok17_t2)) /\
            Obj.ObjModel.oekind e = Obj.ObjModel.OK KValue /\ Obj.ObjModel.oet1 e = Obj.ObjModel.oet2 e /\ Obj.ObjModel.oet1 e <> None.
Proof. exact Obj.ObjExamples.ok17_refuted. Qed.
Print Assumptions C04_objects_changed_really_differ_refuted.

(* equality by class and attribute values is exactly Python == of the encodings *)
Theorem C04_objects_equality_is_encoded_equality :
  forall a b : Obj.ObjValue.ovalue, Obj.ObjValue.owf a = true -> Obj.ObjValue.owf b = true ->
    (Obj.ObjValue.opy_eqv a b = true <-> py_eqv (Obj.ObjValue.enc a) (Obj.ObjValue.enc b) = true).
Proof. intros a b Wa Wb. split; [apply Obj.ObjFacts.opy_eqv_enc|apply Obj.ObjFacts.enc_py_eqv; assumption]. Qed.
Print Assumptions C04_objects_equality_is_encoded_equality.

(* non-vacuity: a pair of nested values with instances at dict values, in a list and as attribute
   values, whose run has 9 entries: values_changed x2 (one two attribute levels deep),
   type_changes (class changed), attribute_added x2, attribute_removed, iterable_item_removed (an
   instance), set_item_added / removed below an attribute - all faithful by the theorem *)
Example C04_objects_hypotheses_satisfiable :
  (Obj.ObjValue.owf Obj.ObjExamples.ox_t1 = true /\ Obj.ObjValue.owf Obj.ObjExamples.ox_t2 = true) /\
  (Obj.ObjExamples.count_kind (Obj.ObjModel.OK KValue) = 2 /\ Obj.ObjExamples.count_kind (Obj.ObjModel.OK KType) = 1 /\
   Obj.ObjExamples.count_kind Obj.ObjModel.OKAttrAdd = 2 /\ Obj.ObjExamples.count_kind Obj.ObjModel.OKAttrRem = 1 /\
   Obj.ObjExamples.count_kind (Obj.ObjModel.OK KIterRem) = 1 /\ Obj.ObjExamples.count_kind (Obj.ObjModel.OK KSetAdd) = 1 /\
   Obj.ObjExamples.count_kind (Obj.ObjModel.OK KSetRem) = 1 /\ length (fst Obj.ObjExamples.ox_run) = 9 /\
   Obj.ObjValue.opy_eqv Obj.ObjExamples.ox_t1 Obj.ObjExamples.ox_t2 = false) /\
  (forall e, In e (fst Obj.ObjExamples.ox_run) -> Obj.ObjFaithful.ofaithful Obj.ObjExamples.ox_t1 Obj.ObjExamples.ox_t2 e).
Proof. exact (conj Obj.ObjExamples.ox_wf (conj Obj.ObjExamples.ox_nontrivial Obj.ObjExamples.ox_faithful)). Qed.
Print Assumptions C04_objects_hypotheses_satisfiable.

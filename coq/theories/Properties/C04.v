(** C04 - every reported entry of an ordered diff is backed by the inputs.
    Final statements only.  Model: Diff/DiffModel.v (both alignment modes; the
    difflib opcodes are an arbitrary oracle [ops], so the theorems hold for
    whichever alignment the heuristic chooses); [resolve] is the model of
    deepdiff.extract on key sequences (Path/PathModel.v). *)
From Coq Require Import List ZArith Bool Arith Lia.
Import ListNotations.
From DD Require Import Base.PyStr Base.Value Path.PathModel Diff.Tree Diff.DiffModel Diff.DiffFaithful
  Diff.DiffPaths Diff.TextView Diff.TextFaithful.

(* [faithful false t1 t2 e]: the path of e resolves in t1 to the reported old value /
   removed item, (through new_path) in t2 to the reported new value / added item,
   a type change really changes the type, a moved item has equal values, an added
   dictionary key does not resolve in t1 nor a removed one in t2.
   [faithful true]: in addition a changed value really differs (Python !=). *)

Theorem C04_entries_resolve :
  forall hatom udiff ops skip excl c t1 t2,
    thr_num c <= thr_den c -> wf t1 = true -> wf t2 = true ->
    forall e, In e (fst (run_diff hatom udiff ops skip excl c t1 t2)) -> faithful false t1 t2 e.
Proof. intros. eapply run_diff_faithful; eassumption. Qed.
Print Assumptions C04_entries_resolve.

(* every changed value really differs, for all entries except those manufactured by
   mutual_add_removes_to_become_value_changes from an add and a remove at one path *)
Theorem C04_changed_really_differ_partial :
  forall hatom udiff ops skip excl c t1 t2,
    thr_num c <= thr_den c -> wf t1 = true -> wf t2 = true ->
    forall e, In e (fst (run_diff hatom udiff ops skip excl c t1 t2)) ->
              In e (fst (diff hatom udiff ops skip excl c t1 t2 [] [])) -> faithful true t1 t2 e.
Proof. intros. eapply run_diff_faithful; eassumption. Qed.
Print Assumptions C04_changed_really_differ_partial.

(* the full statement is false: finding K17 (witness replayed on the implementation
   by harness/props/c04.py) *)
Theorem C04_changed_really_differ_refuted :
  exists e, In e (fst (run_diff (fun _ => []) (fun _ _ => []) k17_ops (fun _ => false) (fun _ => false)
                         (mkCfg false 33 100 true) k17_t1 k17_t2)) /\
            ekind e = KValue /\ et1 e = et2 e.
Proof. exact changed_value_differs_refuted. Qed.
Print Assumptions C04_changed_really_differ_refuted.

(* ---- the same on the TEXT view: path strings and deepdiff.extract -------------------- *)
(* [tfaithful strong t1 t2 te] (Diff/TextFaithful.v): the path string of the entry extracts
   from t1 the reported old value / removed item, (through new_path when given) from t2
   the reported new value / added item; old_type/new_type are the types of those values
   and differ; an added dictionary key cannot be extracted from t1 nor a removed one
   from t2.  [keys_ok]: C09's guard on the dict keys of the inputs. *)

(* only changed values, changed types and moved items can have a t2 path that differs
   from the t1 path *)
Theorem C04_only_changes_shift :
  forall hatom udiff ops skip excl c t1 t2 e,
    In e (fst (run_diff hatom udiff ops skip excl c t1 t2)) ->
    ep1 e = ep2 e \/ ekind e = KValue \/ ekind e = KType \/ ekind e = KIterMoved.
Proof.
  intros. pose proof (run_diff_same_paths hatom udiff ops skip excl c t1 t2) as S.
  eapply Forall_forall in S; [exact S|eassumption].
Qed.
Print Assumptions C04_only_changes_shift.

(* verbose_level=2: every entry of the result dict *)
Theorem C04_text_entries_faithful :
  forall hatom udiff ops skip excl c verbose t1 t2,
    2 <= verbose -> thr_num c <= thr_den c -> wf t1 = true -> wf t2 = true ->
    keys_ok t1 = true -> keys_ok t2 = true ->
    forall te, In te (text_view verbose (fst (run_diff hatom udiff ops skip excl c t1 t2))) ->
               tfaithful false t1 t2 te.
Proof. intros. eapply text_faithful; eassumption. Qed.
Print Assumptions C04_text_entries_faithful.

Theorem C04_text_changed_really_differ_partial :
  forall hatom udiff ops skip excl c verbose t1 t2,
    2 <= verbose -> thr_num c <= thr_den c -> wf t1 = true -> wf t2 = true ->
    keys_ok t1 = true -> keys_ok t2 = true ->
    forall e, In e (fst (run_diff hatom udiff ops skip excl c t1 t2)) ->
              In e (fst (diff hatom udiff ops skip excl c t1 t2 [] [])) ->
    forall te, In te (text_of verbose e) -> tfaithful true t1 t2 te.
Proof. intros. eapply text_faithful_strong_partial; eassumption. Qed.
Print Assumptions C04_text_changed_really_differ_partial.

(* verbose_level 0 and 1 (1 is the default): every entry except the changed values /
   types whose item moved to another index of t2 *)
Theorem C04_text_default_verbosity_partial :
  forall hatom udiff ops skip excl c verbose t1 t2,
    thr_num c <= thr_den c -> wf t1 = true -> wf t2 = true ->
    keys_ok t1 = true -> keys_ok t2 = true ->
    forall e, In e (fst (run_diff hatom udiff ops skip excl c t1 t2)) ->
              (render (ep1 e) = render (ep2 e) \/
               ~ (ekind e = KValue \/ ekind e = KType \/ ekind e = KIterMoved)) ->
    forall te, In te (text_of verbose e) -> tfaithful false t1 t2 te.
Proof.
  intros hatom udiff ops skip excl c verbose t1 t2 Hthr W1 W2 K1 K2 e He [Hp|Hn].
  - eapply text_v1_faithful_partial; eassumption.
  - eapply text_v1_faithful_unshifted; eassumption.
Qed.
Print Assumptions C04_text_default_verbosity_partial.

(* the full statement at verbose_level=1 is false: finding K18 (new_path is only given
   at verbose_level=2); the same run at verbose_level=2 carries new_path *)
Theorem C04_text_default_verbosity_refuted :
  (exists te, In te (text_view 1 (fst k18_run)) /\ ~ tfaithful false k18_t1 k18_t2 te) /\
  (forall te, In te (text_view 2 (fst k18_run)) -> tfaithful false k18_t1 k18_t2 te).
Proof.
  split; [exact text_v1_new_path_refuted|].
  intros te Hte. unfold k18_run in Hte.
  refine (text_faithful _ _ _ _ _ _ 2 k18_t1 k18_t2 _ _ _ _ _ _ te Hte);
    try reflexivity; apply Nat.leb_le; reflexivity.
Qed.
Print Assumptions C04_text_default_verbosity_refuted.

(* non-vacuity: the hypotheses hold of a pair with a non-empty result in which the difflib pass wins *)
Example C04_hypotheses_satisfiable :
  wf k18_t1 = true /\ wf k18_t2 = true /\ keys_ok k18_t1 = true /\ keys_ok k18_t2 = true /\
  length (text_view 2 (fst k18_run)) = 2 /\ snd k18_run = [[]].
Proof. vm_compute. repeat split; reflexivity. Qed.

(* ====================================================================================== *)
(** EXACT characterisation of the two findings (Diff/FaithfulShape.v, FaithfulSource.v, FaithfulExact.v):
    every entry is faithful EXCEPT exactly the entries of two shapes, each read off the difflib opcodes.

    [at_level t1 t2 q xs ys]: q resolves in t1 to a list/tuple with items xs and in t2 to one with items ys.
    [leafb c xs ys]: default alignment mode and both all-atom (the difflib code path).
    [removes_at os xs ys i]: some block of os removes t1 index i - i lies in a 'delete' block, or in the
      surplus of the t1 chunk of a 'replace' block (chunks cut as Python slices cut them);
    [adds_at os xs ys i]: some block adds t2 index i - 'insert' block, or surplus of the t2 chunk of a
      'replace' block.  [C04_replay_removed_levels] / [C04_replay_added_levels] say that these are exactly the
      iterable_item_removed / iterable_item_added levels of the opcode replay. *)
From DD Require Import Diff.FaithfulShape Diff.FaithfulSource Diff.FaithfulExact.

Theorem C04_replay_removed_levels :
  forall udiff skip os xs ys p e,
    (In e (by_opcodes udiff skip os xs ys p p) /\ ekind e = KIterRem) <->
    exists i x, removes_at os xs ys i = true /\ nth_error xs i = Some x /\
                skip (snoc p (PIdx i)) = false /\ e = rem_entry p i x.
Proof. exact by_opcodes_rem_iff. Qed.
Print Assumptions C04_replay_removed_levels.

Theorem C04_replay_added_levels :
  forall udiff skip os xs ys p e,
    (In e (by_opcodes udiff skip os xs ys p p) /\ ekind e = KIterAdd) <->
    exists i y, adds_at os xs ys i = true /\ nth_error ys i = Some y /\
                skip (snoc p (PIdx i)) = false /\ e = add_entry p i y.
Proof. exact by_opcodes_add_iff. Qed.
Print Assumptions C04_replay_added_levels.

(* K17, exactly.  [k17_shape ops skip c t1 t2 rec e]: e is values_changed at q ++ [i], both paths equal, where
   q is a pair of all-atom sequences whose opcodes were recorded in _iterable_opcodes (q in rec: the opcode
   replay won), some block removes t1 index i and some block adds t2 index i, the level is not excluded, and
   t1[q][i] == t2[q][i]; old_value / new_value are those two items. *)
Theorem C04_K17_exact :
  forall hatom udiff ops skip excl c t1 t2,
    thr_num c <= thr_den c -> wf t1 = true -> wf t2 = true ->
    forall e,
      (In e (fst (run_diff hatom udiff ops skip excl c t1 t2)) /\ ~ faithful true t1 t2 e) <->
      k17_shape ops skip c t1 t2 (snd (run_diff hatom udiff ops skip excl c t1 t2)) e.
Proof. intros. apply k17_exact; assumption. Qed.
Print Assumptions C04_K17_exact.

(* the full statement of the property at tree level, with the exception spelled out *)
Theorem C04_entries_faithful_except_K17 :
  forall hatom udiff ops skip excl c t1 t2,
    thr_num c <= thr_den c -> wf t1 = true -> wf t2 = true ->
    forall e, In e (fst (run_diff hatom udiff ops skip excl c t1 t2)) ->
      faithful true t1 t2 e \/
      k17_shape ops skip c t1 t2 (snd (run_diff hatom udiff ops skip excl c t1 t2)) e.
Proof. intros. apply faithful_except_k17; assumption. Qed.
Print Assumptions C04_entries_faithful_except_K17.

(* the shape is inhabited by the real difflib opcodes of the finding's witness *)
Example C04_K17_shape_witness :
  In k17_entry (fst k17_run) /\
  k17_shape k17_ops (fun _ => false) (mkCfg false 33 100 true) k17_t1 k17_t2 (snd k17_run) k17_entry.
Proof. exact k17_shape_witness. Qed.

(* ---- the two paths of a level, and new_path ---- *)
(* the t2 path is the t1 path, or the level is a changed value / changed type / moved item and the two paths
   are q ++ [i] and q ++ [j] for one parent q *)
Theorem C04_paths_shape :
  forall hatom udiff ops skip excl c t1 t2 e,
    In e (fst (run_diff hatom udiff ops skip excl c t1 t2)) ->
    ep1 e = ep2 e \/
    ((ekind e = KValue \/ ekind e = KType \/ ekind e = KIterMoved) /\
     exists q i j, ep1 e = snoc q (PIdx i) /\ ep2 e = snoc q (PIdx j)).
Proof.
  intros. pose proof (run_diff_paths_shape hatom udiff ops skip excl c t1 t2) as S.
  eapply Forall_forall in S; [exact S|eassumption].
Qed.
Print Assumptions C04_paths_shape.

(* "(through new_path when given)", verbose_level >= 2, EVERY opcode oracle, no guard for the first four
   clauses: a values_changed / type_changes level whose two sides sit at different places (then: at two
   different indexes i <> j of one list) carries new_path = the printed t2 path, which differs from the entry's
   own path; one whose sides sit at the same place carries none; and - when the keys on the entry's own path
   print and parse back (C09's guard, on this path only) - the path extracts old_value from t1 and new_path
   (or the path when there is none) extracts new_value from t2. *)
Theorem C04_text_new_path_given :
  forall hatom udiff ops skip excl c verbose t1 t2,
    2 <= verbose -> thr_num c <= thr_den c -> wf t1 = true -> wf t2 = true ->
    forall e, In e (fst (run_diff hatom udiff ops skip excl c t1 t2)) -> (ekind e = KValue \/ ekind e = KType) ->
    exists old new,
      et1 e = Some old /\ et2 e = Some new /\
      (ep1 e = ep2 e -> new_path_of e = None) /\
      (ep1 e <> ep2 e ->
         new_path_of e = Some (render (ep2 e)) /\ render (ep2 e) <> render (ep1 e) /\
         exists q i j, i <> j /\ ep1 e = snoc q (PIdx i) /\ ep2 e = snoc q (PIdx j)) /\
      (text_of verbose e =
         match ekind e with
         | KValue => [TValue (render (ep1 e)) old new (new_path_of e) (ediff e)]
         | _ => [TType (render (ep1 e)) (type_of old) (type_of new) (new_path_of e) (Some (old, new))]
         end) /\
      (path_ok (ep1 e) = true ->
         extract t1 (render (ep1 e)) = Some old /\
         extract t2 (match new_path_of e with Some np => np | None => render (ep1 e) end) = Some new).
Proof. intros. eapply text_new_path_given; eassumption. Qed.
Print Assumptions C04_text_new_path_given.

(* ---- the text theorems with the entry-LOCAL guard: only the dict keys on the entry's own path must satisfy
   C09's guard (the whole-input guard [keys_ok] of the theorems above implies it: TextFaithful.entry_paths_ok);
   entries below sequences only need none ---- *)
Theorem C04_text_entries_faithful_local :
  forall hatom udiff ops skip excl c verbose t1 t2,
    2 <= verbose -> thr_num c <= thr_den c -> wf t1 = true -> wf t2 = true ->
    forall e, In e (fst (run_diff hatom udiff ops skip excl c t1 t2)) -> path_ok (ep1 e) = true ->
    forall te, In te (text_of verbose e) -> tfaithful false t1 t2 te.
Proof. intros. eapply text_faithful_local; eassumption. Qed.
Print Assumptions C04_text_entries_faithful_local.

Theorem C04_text_changed_really_differ_local_partial :
  forall hatom udiff ops skip excl c verbose t1 t2,
    2 <= verbose -> thr_num c <= thr_den c -> wf t1 = true -> wf t2 = true ->
    forall e, In e (fst (run_diff hatom udiff ops skip excl c t1 t2)) ->
              In e (fst (diff hatom udiff ops skip excl c t1 t2 [] [])) -> path_ok (ep1 e) = true ->
    forall te, In te (text_of verbose e) -> tfaithful true t1 t2 te.
Proof. intros. eapply text_faithful_strong_local; eassumption. Qed.
Print Assumptions C04_text_changed_really_differ_local_partial.

(* the local guard is strictly weaker than the whole-input one, and cannot be dropped (C09 finding K5 on the
   entry's own key) *)
Example C04_text_local_guard_weaker :
  keys_ok lg_t1 = false /\ fst (lg_run lg_t1 lg_t2) <> [] /\
  forallb (fun e => path_ok (ep1 e)) (fst (lg_run lg_t1 lg_t2)) = true.
Proof. exact text_local_guard_weaker. Qed.
Theorem C04_text_without_local_guard_refuted :
  exists e te, In e (fst (lg_run lg_t1' lg_t3)) /\ path_ok (ep1 e) = false /\ In te (text_of 2 e) /\
               ~ tfaithful false lg_t1' lg_t3 te.
Proof. exact text_local_guard_needed. Qed.
Print Assumptions C04_text_without_local_guard_refuted.

(* ---- K18, exactly ---- *)
(* a changed value / type whose two paths differ is the k-th compared pair of a 'replace' block whose chunks
   start at different indexes, in an all-atom list on which the opcode replay was used (recorded, or it made
   at most one level), and the two atoms are not ==  [shifted_shape] ... *)
Theorem C04_shifted_levels_source :
  forall hatom udiff ops skip excl c t1 t2,
    thr_num c <= thr_den c -> wf t1 = true -> wf t2 = true ->
    forall e, In e (fst (run_diff hatom udiff ops skip excl c t1 t2)) ->
      (ekind e = KValue \/ ekind e = KType) -> ep1 e <> ep2 e ->
      exists q xs ys o k a b,
        shifted_shape udiff ops skip c t1 t2 (snd (run_diff hatom udiff ops skip excl c t1 t2)) e q xs ys o k a b.
Proof. intros. eapply shifted_source; eassumption. Qed.
Print Assumptions C04_shifted_levels_source.

(* ... and every such pair of a recorded list is reported *)
Theorem C04_shifted_pairs_reported :
  forall hatom udiff ops skip excl c t1 t2,
    thr_num c <= thr_den c -> wf t1 = true -> wf t2 = true ->
    forall q xs ys o k a b,
      at_level t1 t2 q xs ys -> In q (snd (run_diff hatom udiff ops skip excl c t1 t2)) ->
      In o (ops q xs ys) -> otag o = OReplace ->
      nth_error (slice xs (oi1 o) (oi2 o)) k = Some (VAtom a) ->
      nth_error (slice ys (oj1 o) (oj2 o)) k = Some (VAtom b) ->
      py_eq a b = false -> skip (snoc q (PIdx (oi1 o + k))) = false ->
      exists e, In e (fst (run_diff hatom udiff ops skip excl c t1 t2)) /\ (ekind e = KType \/ ekind e = KValue) /\
        ep1 e = snoc q (PIdx (oi1 o + k)) /\ ep2 e = snoc q (PIdx (oj1 o + k)) /\
        et1 e = Some (VAtom a) /\ et2 e = Some (VAtom b).
Proof. intros. eapply shifted_reported; eassumption. Qed.
Print Assumptions C04_shifted_pairs_reported.

(* verbose_level=1 (the default): an entry fails the property IFF it is such a pair and t2 does not happen to
   hold the reported new value at the t1 index too  [k18_shape] *)
Theorem C04_K18_exact :
  forall hatom udiff ops skip excl c t1 t2,
    thr_num c <= thr_den c -> wf t1 = true -> wf t2 = true ->
    forall e te, In e (fst (run_diff hatom udiff ops skip excl c t1 t2)) -> path_ok (ep1 e) = true ->
      In te (text_of 1 e) ->
      (~ tfaithful false t1 t2 te <->
       k18_shape udiff ops skip c t1 t2 (snd (run_diff hatom udiff ops skip excl c t1 t2)) e).
Proof. intros. apply k18_exact; assumption. Qed.
Print Assumptions C04_K18_exact.

Theorem C04_text_default_verbosity_except_K18 :
  forall hatom udiff ops skip excl c t1 t2,
    thr_num c <= thr_den c -> wf t1 = true -> wf t2 = true ->
    forall e te, In e (fst (run_diff hatom udiff ops skip excl c t1 t2)) -> path_ok (ep1 e) = true ->
      In te (text_of 1 e) ->
      tfaithful false t1 t2 te \/
      k18_shape udiff ops skip c t1 t2 (snd (run_diff hatom udiff ops skip excl c t1 t2)) e.
Proof. intros. apply text_v1_except_k18; assumption. Qed.
Print Assumptions C04_text_default_verbosity_except_K18.

Example C04_K18_shape_witness :
  In k18_entry (fst k18_run) /\
  k18_shape (fun _ _ => []) k18_ops (fun _ => false) (mkCfg false 33 100 true) k18_t1 k18_t2 (snd k18_run) k18_entry.
Proof. exact k18_shape_witness. Qed.

(* ====================================================================================== *)
(** The same for the run WITH DeepDiff's run-wide ==-keyed DeepHash table (Diff/DiffMemo.v [run_diff_m], the
    model that is faithful on inputs whose sets hold ==-aliased members such as 1 / True / 1.0; Diff/FaithfulMemo.v):
    every hasher H, every DeepHash option set o, all well-formed inputs, NO alias guard.  The run with the table
    reports the same set of levels and records the same opcode paths as the memo-free run whose item hash is read
    off the final table ([run_diff_m_same_entries]), so every statement above carries over. *)
From DD Require Hash.HashModel Diff.DiffMemo Diff.DiffMemoProofs Diff.DiffMemoFinal Diff.FaithfulMemo.

Theorem C04_with_table_entries_resolve :
  forall H o udiff ops skip excl c t1 t2,
    thr_num c <= thr_den c -> wf t1 = true -> wf t2 = true ->
    forall e, In e (fst (fst (DiffMemo.run_diff_m H o udiff ops skip excl c t1 t2))) -> faithful false t1 t2 e.
Proof. intros. eapply DiffMemoFinal.run_diff_m_faithful_any; eassumption. Qed.
Print Assumptions C04_with_table_entries_resolve.

Theorem C04_with_table_K17_exact :
  forall H o udiff ops skip excl c t1 t2,
    thr_num c <= thr_den c -> wf t1 = true -> wf t2 = true ->
    forall e,
      (In e (fst (fst (DiffMemo.run_diff_m H o udiff ops skip excl c t1 t2))) /\ ~ faithful true t1 t2 e) <->
      k17_shape ops skip c t1 t2 (snd (fst (DiffMemo.run_diff_m H o udiff ops skip excl c t1 t2))) e.
Proof. intros. apply FaithfulMemo.memo_k17_exact; assumption. Qed.
Print Assumptions C04_with_table_K17_exact.

Theorem C04_with_table_text_entries_faithful :
  forall H o udiff ops skip excl c verbose t1 t2,
    2 <= verbose -> thr_num c <= thr_den c -> wf t1 = true -> wf t2 = true ->
    forall e, In e (fst (fst (DiffMemo.run_diff_m H o udiff ops skip excl c t1 t2))) -> path_ok (ep1 e) = true ->
    forall te, In te (text_of verbose e) -> tfaithful false t1 t2 te.
Proof. intros. eapply FaithfulMemo.memo_text_faithful; eassumption. Qed.
Print Assumptions C04_with_table_text_entries_faithful.

Theorem C04_with_table_K18_exact :
  forall H o udiff ops skip excl c t1 t2,
    thr_num c <= thr_den c -> wf t1 = true -> wf t2 = true ->
    forall e te, In e (fst (fst (DiffMemo.run_diff_m H o udiff ops skip excl c t1 t2))) -> path_ok (ep1 e) = true ->
      In te (text_of 1 e) ->
      (~ tfaithful false t1 t2 te <->
       k18_shape udiff ops skip c t1 t2 (snd (fst (DiffMemo.run_diff_m H o udiff ops skip excl c t1 t2))) e).
Proof. intros. apply FaithfulMemo.memo_k18_exact; assumption. Qed.
Print Assumptions C04_with_table_K18_exact.

(* the table model on a pair outside the alias-free guard: sets holding 1 vs 1.0, a list holding 1/True vs 1.0/2 *)
Example C04_with_table_alias_run_nonempty :
  wf FaithfulMemo.al_t1 = true /\ wf FaithfulMemo.al_t2 = true /\
  HashModel.no_alias (DiffMemoProofs.set_members FaithfulMemo.al_t1 ++ DiffMemoProofs.set_members FaithfulMemo.al_t2) = false /\
  length (fst (fst (DiffMemo.run_diff_m HashModel.hexhash HashModel.default_opts (fun _ _ => []) FaithfulMemo.al_ops
                      (fun _ => false) (fun _ => false) (mkCfg false 33 100 true) FaithfulMemo.al_t1 FaithfulMemo.al_t2))) = 3.
Proof. exact FaithfulMemo.memo_alias_run_nonempty. Qed.

(* ------------------------------------------------------------------ *)
(** EXTENSION beyond the property's stated domain: values holding INSTANCES OF CLASSES
    (objects with attributes, Obj/ObjValue.v [ovalue]; [orun] = the run above on the encoding
    OObj cls attrs |-> { TAG cls : { attr : value }, TAG2 cls : cls }, decoded: a level below an
    attribute dict is an attribute level, dictionary_item_added/removed there is
    attribute_added/removed, a changed pair whose classes differ is type_changes; tied to
    DeepDiff on real class instances by the extension stream of harness/objcommon.py).

    [ofaithful t1 t2 e] (Obj/ObjFaithful.v): the path of e, followed through dict keys,
    sequence indexes AND getattr steps ([oresolve]), leads in t1 to the reported old value /
    removed item / removed attribute and in t2 to the reported new value / added item / added
    attribute; type_changes has values of different type or class and values_changed values
    of the same; an added key or attribute does not resolve in t1, a removed one not in t2;
    attribute_added / attribute_removed paths end in an attribute element and
    dictionary_item_added / removed paths do not; a moved item has equal values.
    The statement holds for every configuration, threshold_to_diff_deeper = 0 included (there the
    encoded run takes a pair of instances of different classes apart, and Obj.ObjModel.tagfix puts
    the one type_changes of the pair back, as _diff does before it looks at any threshold). *)
From DD Require Obj.ObjValue Obj.ObjModel Obj.ObjFacts Obj.ObjFaithful Obj.ObjExamples Delta.DeltaExamples.

Theorem C04_objects_entries_resolve :
  forall hatom udiff ops c (t1 t2 : Obj.ObjValue.ovalue),
    thr_num c <= thr_den c ->
    Obj.ObjValue.owf t1 = true -> Obj.ObjValue.owf t2 = true ->
    forall e, In e (fst (Obj.ObjModel.orun hatom udiff ops c t1 t2)) -> Obj.ObjFaithful.ofaithful t1 t2 e.
Proof. intros. eapply Obj.ObjFaithful.orun_faithful; eassumption. Qed.
Print Assumptions C04_objects_entries_resolve.

(* with a positive threshold (the default is 0.33) the entries are exactly the decoded entries of the
   encoded run: it never takes a pair of different classes apart *)
Theorem C04_objects_positive_threshold_is_encoded_run :
  forall hatom udiff ops c (t1 t2 : Obj.ObjValue.ovalue),
    0 < thr_num c -> Obj.ObjValue.owf t1 = true -> Obj.ObjValue.owf t2 = true ->
    fst (Obj.ObjModel.orun hatom udiff ops c t1 t2) =
    map Obj.ObjModel.dec_entry (fst (run_diff hatom udiff ops Obj.ObjModel.nopaths Obj.ObjModel.nopaths c
                                       (Obj.ObjValue.enc t1) (Obj.ObjValue.enc t2))).
Proof.
  intros. unfold Obj.ObjModel.orun. cbn [fst]. rewrite Obj.ObjFaithful.tagfix_id_run by assumption. reflexivity.
Qed.
Print Assumptions C04_objects_positive_threshold_is_encoded_run.

(* threshold 0, [PA(x=1), PA(), {'a':1}, PA(x=1)] against [PB(x=1), {'a':1}, PB(y=2), PA(y=1)]: the encoded
   run has 12 entries, 10 of them the keys of the three pairs of different type; the result has the three
   type_changes, one attribute_added and one attribute_removed - all faithful *)
Example C04_objects_threshold_zero :
  (length (filter (fun e => Obj.ObjExamples.okind_eqb (Obj.ObjModel.oekind e) (Obj.ObjModel.OK KType)) (fst Obj.ObjExamples.thr0_run)) = 3 /\
   length (filter (fun e => Obj.ObjExamples.okind_eqb (Obj.ObjModel.oekind e) Obj.ObjModel.OKAttrAdd) (fst Obj.ObjExamples.thr0_run)) = 1 /\
   length (filter (fun e => Obj.ObjExamples.okind_eqb (Obj.ObjModel.oekind e) Obj.ObjModel.OKAttrRem) (fst Obj.ObjExamples.thr0_run)) = 1 /\
   length (fst Obj.ObjExamples.thr0_run) = 5 /\
   length (fst (run_diff Delta.DeltaExamples.hatom_ex (fun _ _ => []) Delta.DeltaExamples.no_ops Obj.ObjModel.nopaths Obj.ObjModel.nopaths
                  Obj.ObjExamples.thr0_cfg (Obj.ObjValue.enc Obj.ObjExamples.thr0_t1) (Obj.ObjValue.enc Obj.ObjExamples.thr0_t2))) = 12) /\
  (forall e, In e (fst Obj.ObjExamples.thr0_run) -> Obj.ObjFaithful.ofaithful Obj.ObjExamples.thr0_t1 Obj.ObjExamples.thr0_t2 e).
Proof. exact (conj Obj.ObjExamples.thr0_kinds Obj.ObjExamples.thr0_faithful). Qed.
Print Assumptions C04_objects_threshold_zero.

(* a changed value really differs (by class and attribute values, [opy_eqv]), for every values_changed entry
   of the encoded run that mutual_add_removes_to_become_value_changes did not manufacture; such an entry is
   an entry of the result *)
Theorem C04_objects_changed_really_differ_partial :
  forall hatom udiff ops c (t1 t2 : Obj.ObjValue.ovalue),
    thr_num c <= thr_den c -> Obj.ObjValue.owf t1 = true -> Obj.ObjValue.owf t2 = true ->
    forall e, In e (fst (diff hatom udiff ops Obj.ObjModel.nopaths Obj.ObjModel.nopaths c
                           (Obj.ObjValue.enc t1) (Obj.ObjValue.enc t2) [] [])) -> ekind e = KValue ->
      In (Obj.ObjModel.dec_entry e) (fst (Obj.ObjModel.orun hatom udiff ops c t1 t2)) /\
      forall a b, Obj.ObjModel.oet1 (Obj.ObjModel.dec_entry e) = Some a -> Obj.ObjModel.oet2 (Obj.ObjModel.dec_entry e) = Some b ->
                  Obj.ObjValue.opy_eqv a b = false.
Proof. intros. eapply Obj.ObjFaithful.orun_changed_differ; eassumption. Qed.
Print Assumptions C04_objects_changed_really_differ_partial.

(* the full statement is false, as for plain values (finding K17) *)
Theorem C04_objects_changed_really_differ_refuted :
  exists e, In e (fst (Obj.ObjModel.orun (fun _ => []) (fun _ _ => []) k17_ops (mkCfg false 33 100 true)
                         Obj.ObjExamples.ok17_t1 Obj.ObjExamples.ok17_t2)) /\
            Obj.ObjModel.oekind e = Obj.ObjModel.OK KValue /\ Obj.ObjModel.oet1 e = Obj.ObjModel.oet2 e /\ Obj.ObjModel.oet1 e <> None.
Proof. exact Obj.ObjExamples.ok17_refuted. Qed.
Print Assumptions C04_objects_changed_really_differ_refuted.

(* equality by class and attribute values is exactly Python == of the encodings *)
Theorem C04_objects_equality_is_encoded_equality :
  forall a b : Obj.ObjValue.ovalue, Obj.ObjValue.owf a = true -> Obj.ObjValue.owf b = true ->
    (Obj.ObjValue.opy_eqv a b = true <-> py_eqv (Obj.ObjValue.enc a) (Obj.ObjValue.enc b) = true).
Proof. intros a b Wa Wb. split; [apply Obj.ObjFacts.opy_eqv_enc|apply Obj.ObjFacts.enc_py_eqv; assumption]. Qed.
Print Assumptions C04_objects_equality_is_encoded_equality.

(* non-vacuity: a pair of nested values with instances at dict values, in a list and as attribute
   values, whose run has 9 entries: values_changed x2 (one two attribute levels deep),
   type_changes (class changed), attribute_added x2, attribute_removed, iterable_item_removed (an
   instance), set_item_added / removed below an attribute - all faithful by the theorem *)
Example C04_objects_hypotheses_satisfiable :
  (Obj.ObjValue.owf Obj.ObjExamples.ox_t1 = true /\ Obj.ObjValue.owf Obj.ObjExamples.ox_t2 = true) /\
  (Obj.ObjExamples.count_kind (Obj.ObjModel.OK KValue) = 2 /\ Obj.ObjExamples.count_kind (Obj.ObjModel.OK KType) = 1 /\
   Obj.ObjExamples.count_kind Obj.ObjModel.OKAttrAdd = 2 /\ Obj.ObjExamples.count_kind Obj.ObjModel.OKAttrRem = 1 /\
   Obj.ObjExamples.count_kind (Obj.ObjModel.OK KIterRem) = 1 /\ Obj.ObjExamples.count_kind (Obj.ObjModel.OK KSetAdd) = 1 /\
   Obj.ObjExamples.count_kind (Obj.ObjModel.OK KSetRem) = 1 /\ length (fst Obj.ObjExamples.ox_run) = 9 /\
   Obj.ObjValue.opy_eqv Obj.ObjExamples.ox_t1 Obj.ObjExamples.ox_t2 = false) /\
  (forall e, In e (fst Obj.ObjExamples.ox_run) -> Obj.ObjFaithful.ofaithful Obj.ObjExamples.ox_t1 Obj.ObjExamples.ox_t2 e).
Proof. exact (conj Obj.ObjExamples.ox_wf (conj Obj.ObjExamples.ox_nontrivial Obj.ObjExamples.ox_faithful)). Qed.
Print Assumptions C04_objects_hypotheses_satisfiable.

(* ---- the TEXT of the reported paths (C04's text view, for values with instances) --------------------------
   [okeys_ok] (Obj/ObjTextPaths.v): every dict key of the value satisfies C09's guard on keys and every attribute
   name is a plain identifier (Obj.ObjPathText.attr_ok).  Then every path the run reports - for every entry kind,
   every configuration - satisfies Obj.ObjPathText.opath_ok (no class slot, only such keys and names), so the text
   DeepDiff prints for it is parsed back to the same elements, and deepdiff.extract on that text follows exactly the
   keys / indexes / attribute names of the path: with C04_objects_entries_resolve, the reported text extracts the
   reported values.  (Before round 3 wave 2 this was only observed by the obj_c09 stream.) *)
From DD Require Obj.ObjTextPaths Obj.ObjPathText Obj.ObjText.

Theorem C04_objects_reported_paths_ok_partial :
  forall hatom udiff ops c (t1 t2 : Obj.ObjValue.ovalue),
    Obj.ObjValue.owf t1 = true -> Obj.ObjTextPaths.okeys_ok t1 = true ->
    Obj.ObjValue.owf t2 = true -> Obj.ObjTextPaths.okeys_ok t2 = true ->
    forall e, In e (fst (Obj.ObjModel.orun hatom udiff ops c t1 t2)) ->
      Obj.ObjPathText.opath_ok (Obj.ObjModel.oep1 e) = true /\ Obj.ObjPathText.opath_ok (Obj.ObjModel.oep2 e) = true.
Proof. intros. eapply Obj.ObjTextPaths.orun_paths_ok; try eassumption; split; assumption. Qed.
Print Assumptions C04_objects_reported_paths_ok_partial.

Theorem C04_objects_text_paths_extract_partial :
  forall hatom udiff ops c (t1 t2 : Obj.ObjValue.ovalue),
    thr_num c <= thr_den c ->
    Obj.ObjValue.owf t1 = true -> Obj.ObjTextPaths.okeys_ok t1 = true ->
    Obj.ObjValue.owf t2 = true -> Obj.ObjTextPaths.okeys_ok t2 = true ->
    forall e, In e (fst (Obj.ObjModel.orun hatom udiff ops c t1 t2)) ->
      Obj.ObjFaithful.ofaithful t1 t2 e /\
      Obj.ObjText.oextract t1 (Obj.ObjText.orender (Obj.ObjModel.oep1 e)) = Obj.ObjValue.oresolve t1 (Obj.ObjModel.oep1 e) /\
      Obj.ObjText.oextract t2 (Obj.ObjText.orender (Obj.ObjModel.oep2 e)) = Obj.ObjValue.oresolve t2 (Obj.ObjModel.oep2 e) /\
      (forall root, Obj.ObjText.oextract root (Obj.ObjText.orender (Obj.ObjModel.oep1 e)) = Obj.ObjValue.oresolve root (Obj.ObjModel.oep1 e)).
Proof. intros. eapply Obj.ObjTextPaths.orun_text_faithful; try eassumption; split; assumption. Qed.
Print Assumptions C04_objects_text_paths_extract_partial.

(* without the guard: PA(__x=1) against PA(__x=2) with ignore_private_variables=False reports root.__x, whose text
   extracts the instance itself instead of 1 (observation OBJ3) *)
Theorem C04_objects_text_paths_extract_refuted_private_attribute :
  Obj.ObjValue.owf Obj.ObjTextPaths.tp_t1 = true /\ Obj.ObjValue.owf Obj.ObjTextPaths.tp_t2 = true /\
  Obj.ObjTextPaths.okeys_ok Obj.ObjTextPaths.tp_t1 = false /\
  exists e, In e (fst (Obj.ObjModel.orun (fun _ => []) (fun _ _ => []) (fun _ _ _ => []) (mkCfg false 1 3 false)
                         Obj.ObjTextPaths.tp_t1 Obj.ObjTextPaths.tp_t2)) /\
    Obj.ObjValue.oresolve Obj.ObjTextPaths.tp_t1 (Obj.ObjModel.oep1 e) = Some (Obj.ObjValue.OAtom (AInt 1)) /\
    Obj.ObjText.oextract Obj.ObjTextPaths.tp_t1 (Obj.ObjText.orender (Obj.ObjModel.oep1 e)) = Some Obj.ObjTextPaths.tp_t1.
Proof. exact Obj.ObjTextPaths.text_paths_refuted. Qed.
Print Assumptions C04_objects_text_paths_extract_refuted_private_attribute.

(* the guard holds of the pair of C04_objects_hypotheses_satisfiable (9 entries of 7 kinds) *)
Example C04_objects_text_paths_guard_satisfiable :
  Obj.ObjTextPaths.okeys_ok Obj.ObjExamples.ox_t1 = true /\ Obj.ObjTextPaths.okeys_ok Obj.ObjExamples.ox_t2 = true /\
  length (fst Obj.ObjExamples.ox_run) = 9.
Proof. vm_compute. repeat split; reflexivity. Qed.
Print Assumptions C04_objects_text_paths_guard_satisfiable.

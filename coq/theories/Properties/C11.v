(** C11 - ignore / tolerance options only remove differences and never make
    DeepDiff fail.  Final statements only.

    [run_optF udiff ops c F t1 t2]  the model of DeepDiff(t1, t2, **F) in ordered
        mode (Options/OptModel.v): [Ok (entries, recorded opcode paths) | Err
        ValueError | Err TypeError]; [c] = zip_ordered_iterables,
        threshold_to_diff_deeper, ignore_private_variables; [F] = the record of
        ignore_string_case, ignore_string_type_changes,
        ignore_numeric_type_changes, significant_digits, math_epsilon,
        exclude_types - ANY combination, so every statement covers all single
        options and all pairs; [udiff], [ops] = difflib (oracles).
    [no_opts]   all options off.
    [alt_full]  the property as stated: a positional copy whose atoms - leaves,
        dict keys, set members - are altered in any aspect an enabled option
        ignores ([altA]).  REFUTED for the faithful model (7 witnesses).
    [copy] / [alt]  the same with the three relations the code implements: what
        a leaf comparison ignores ([altL]: math_epsilon overrides
        significant_digits), what key cleaning identifies ([altK]), what the
        hash text of a set member identifies ([altS]); [alt] matches dict
        entries and set members up to order.
    [guard]     every compared dict has good kept keys: pairwise different for
        Python and after cleaning.
    History: the model followed two defects that /repo has since fixed - the
    TypeError of the path printer on bytes keys (0fac13b) and K8, the ValueError
    of key cleaning on numeric keys without a precision (d664dbb); with them the
    [Err] results, the [safe] guard and two _refuted theorems went away. *)
From Coq Require Import List ZArith NArith Bool Arith.
Import ListNotations.
From DD Require Import Base.PyStr Base.Value Diff.Tree Diff.DiffModel.
From DD Require Import Options.OptModel Options.OptProofsBase Options.OptProofsTie Options.OptProofsAtoms
  Options.OptProofsKeys Options.OptProofsLists Options.OptProofsAlt Options.OptProofsSafe Options.OptProofsMono
  Options.OptProofsRun Options.OptProofsBool Options.OptProofsWitness Options.OptDtModel Options.OptProofsDt.

(** ** The option-aware model under the default options IS Diff.DiffModel.diff *)
Theorem C11_no_options_is_diff_model :
  forall udiff ops c t1 t2 p1 p2,
  diffF udiff ops c no_opts t1 t2 p1 p2 = Ok (diff (hatomF no_opts) udiff ops nop nop c t1 t2 p1 p2).
Proof. exact diffF_no_opts. Qed.
Print Assumptions C11_no_options_is_diff_model.

Theorem C11_no_options_is_run_diff :
  forall udiff ops c t1 t2,
  run_optF udiff ops c no_opts t1 t2 = Ok (run_diff (hatomF no_opts) udiff ops nop nop c t1 t2).
Proof. exact run_optF_no_opts. Qed.
Print Assumptions C11_no_options_is_run_diff.

(** ** Clause 1: a copy altered only in what the options ignore has an empty diff *)
(* atom level: leaves, keys, set members *)
Theorem C11_leaf_alt_empty : forall udiff F a b p1 p2, altL F a b = true -> diff_atomF udiff F a b p1 p2 = [].
Proof. exact diff_atomF_altL. Qed.
Print Assumptions C11_leaf_alt_empty.

Theorem C11_key_alt_same_clean_key : forall F a b ca cb, cleaning F = true -> altK F a b = true ->
  clean_key F a = Ok ca -> clean_key F b = Ok cb -> py_eq ca cb = true.
Proof. exact clean_key_altK. Qed.
Print Assumptions C11_key_alt_same_clean_key.

Theorem C11_set_member_alt_same_hash : forall F a b, altS F a b = true -> hatomF F a = hatomF F b.
Proof. exact hatomF_altS. Qed.
Print Assumptions C11_set_member_alt_same_hash.

(* all values: entries of dicts and members of sets matched up to order *)
Theorem C11_alt_empty_partial :
  forall F c udiff ops,
  thr_num c <= thr_den c ->
  (zip c = true \/ (o_excl F = [] /\ forall p xs ys, tiles (ops p xs ys) 0 0 (length xs) (length ys) = true)) ->
  forall t1 t2, alt F c t1 t2 -> guard F c t1 = true -> guard F c t2 = true ->
  run_optF udiff ops c F t1 t2 = Ok ([], []).
Proof. exact alt_empty_run. Qed.
Print Assumptions C11_alt_empty_partial.

(* positional copies *)
Theorem C11_copy_empty_partial :
  forall F c udiff ops,
  thr_num c <= thr_den c ->
  (zip c = true \/ (o_excl F = [] /\ forall p xs ys, tiles (ops p xs ys) 0 0 (length xs) (length ys) = true)) ->
  forall t1 t2, copy F c t1 t2 -> guard F c t1 = true -> guard F c t2 = true ->
  run_optF udiff ops c F t1 t2 = Ok ([], []).
Proof. exact copy_empty_run. Qed.
Print Assumptions C11_copy_empty_partial.

(* the leaf relation restricts the full one *)
Theorem C11_leaf_relation_restricts_full : forall F a b, altL F a b = true -> altA F a b = true.
Proof. exact altL_altA. Qed.
Print Assumptions C11_leaf_relation_restricts_full.

(* the full-strength statement is false: *)
Example C11_numeric_key_without_precision :   (* K8, fixed by d664dbb: the key is left alone *)
  let a := VDict [(AInt 1, vi 5)] in
  run cdef Fcase a a = Ok ([], []) /\ run cdef Fstrty a a = Ok ([], []) /\
  clean_key Fcase (AInt 1) = Ok (AInt 1).
Proof. exact numeric_key_without_precision. Qed.

Theorem C11_alt_sig_key_refuted :          (* significant_digits not applied to keys *)
  exists a b, alt_full (Fsig 0) cdef a b /\ exists r, run cdef (Fsig 0) a b = Ok r /\ fst r <> [].
Proof. exact alt_sig_key_refuted. Qed.
Print Assumptions C11_alt_sig_key_refuted.

Theorem C11_alt_eps_key_refuted :          (* math_epsilon not applied to keys *)
  exists a b, alt_full (Feps (1%Z, 0%N)) cdef a b /\ exists r, run cdef (Feps (1%Z, 0%N)) a b = Ok r /\ fst r <> [].
Proof. exact alt_eps_key_refuted. Qed.
Print Assumptions C11_alt_eps_key_refuted.

Theorem C11_alt_eps_set_refuted :          (* math_epsilon not applied to set members *)
  exists a b, alt_full (Feps (1%Z, 0%N)) cdef a b /\ exists r, run cdef (Feps (1%Z, 0%N)) a b = Ok r /\ fst r <> [].
Proof. exact alt_eps_set_refuted. Qed.
Print Assumptions C11_alt_eps_set_refuted.

Theorem C11_alt_eps_over_sig_refuted :     (* math_epsilon overrides significant_digits: an option ADDS a difference *)
  let F1 := Fsig 0 in
  let F2 := mkOpts false false false (Some 0%N) (Some (1%Z, 2%N)) [] in
  exists a b, alt_full F2 czip a b /\ run czip F1 a b = Ok ([], []) /\ exists r, run czip F2 a b = Ok r /\ fst r <> [].
Proof. exact alt_eps_over_sig_refuted. Qed.
Print Assumptions C11_alt_eps_over_sig_refuted.

Theorem C11_alt_excl_key_refuted :         (* exclude_types not applied to keys *)
  exists a b, alt_full (Fexcl [TInt]) cdef a b /\ exists r, run cdef (Fexcl [TInt]) a b = Ok r /\ fst r <> [].
Proof. exact alt_excl_key_refuted. Qed.
Print Assumptions C11_alt_excl_key_refuted.

Theorem C11_alt_excl_default_list_refuted : (* exclude_types in the default list mode, with difflib's opcodes for the pair *)
  alt_full (Fexcl [TInt]) cdef (VList lw1) (VList lw2) /\
  tiles (ops_w [] lw1 lw2) 0 0 (List.length lw1) (List.length lw2) = true /\
  run_optF ud0 ops_w czip (Fexcl [TInt]) (VList lw1) (VList lw2) = Ok ([], []) /\
  exists r, run_optF ud0 ops_w cdef (Fexcl [TInt]) (VList lw1) (VList lw2) = Ok r /\ fst r <> [].
Proof. exact alt_excl_default_list_refuted. Qed.
Print Assumptions C11_alt_excl_default_list_refuted.

Theorem C11_alt_bytes_key_case_refuted :   (* ignore_string_case does not lower-case bytes keys *)
  exists a b, alt_full Fcase cdef a b /\ exists r, run cdef Fcase a b = Ok r /\ fst r <> [].
Proof. exact alt_bytes_key_case_refuted. Qed.
Print Assumptions C11_alt_bytes_key_case_refuted.

(** ** Clause 2: plain diff empty => diff under the options empty *)
Theorem C11_monotone_partial :
  forall F c udiff ops,
  thr_num c <= thr_den c ->
  (zip c = true \/ (o_excl F = [] /\ forall p xs ys, tiles (ops p xs ys) 0 0 (length xs) (length ys) = true)) ->
  (forall p q xs ys, ops p xs ys = ops q xs ys) ->
  forall KU SU : atom -> Prop,
  (cleaning F = true -> forall k k', KU k -> KU k' -> py_eq k k' = true -> atom_ty k = atom_ty k') ->
  (forall x y, SU x -> SU y -> hatomF no_opts x = hatomF no_opts y -> x = y) ->
  forall t1 t2 r,
  run_optF udiff ops c no_opts t1 t2 = Ok ([], r) ->
  guard F c t1 = true -> guard F c t2 = true -> atoms_in KU SU t1 -> atoms_in KU SU t2 ->
  run_optF udiff ops c F t1 t2 = Ok ([], []).
Proof. exact monotone_run. Qed.
Print Assumptions C11_monotone_partial.

(* the same with all guards as ONE boolean: [mono_ok] = guard of both values, Python-equal keys of equal type
   (when keys are cleaned), no two different set members with one plain hash text *)
Theorem C11_monotone_partial_bool :
  forall F c udiff ops,
  thr_num c <= thr_den c ->
  (zip c = true \/ (o_excl F = [] /\ forall p xs ys, tiles (ops p xs ys) 0 0 (length xs) (length ys) = true)) ->
  (forall p q xs ys, ops p xs ys = ops q xs ys) ->
  forall t1 t2 r,
  run_optF udiff ops c no_opts t1 t2 = Ok ([], r) -> mono_ok F c t1 t2 = true ->
  run_optF udiff ops c F t1 t2 = Ok ([], []).
Proof. exact monotone_run_bool. Qed.
Print Assumptions C11_monotone_partial_bool.

Example C11_mono_ok_satisfiable : mono_ok Fmix czip m1 m2 = true.
Proof. reflexivity. Qed.

Theorem C11_monotone_key_collision_refuted :
  exists a b, wf a = true /\ wf b = true /\ run cdef no_opts a b = Ok ([], []) /\
              exists r, run cdef Fcase a b = Ok r /\ fst r <> [].
Proof. exact monotone_key_collision_refuted. Qed.
Print Assumptions C11_monotone_key_collision_refuted.

Theorem C11_monotone_alias_key_refuted :
  let F := mkOpts true false false (Some 2%N) None [] in
  exists a b, wf a = true /\ wf b = true /\ run cdef no_opts a b = Ok ([], []) /\
              exists r, run cdef F a b = Ok r /\ fst r <> [].
Proof. exact monotone_alias_key_refuted. Qed.
Print Assumptions C11_monotone_alias_key_refuted.

Theorem C11_monotone_tag_set_refuted :
  exists a b, run cdef no_opts a b = Ok ([], []) /\ exists r, run cdef (Fsig 2) a b = Ok r /\ fst r <> [].
Proof. exact monotone_tag_set_refuted. Qed.
Print Assumptions C11_monotone_tag_set_refuted.

(** ** Clause 3: no option makes DeepDiff raise on inputs it accepts without *)
Theorem C11_no_new_raise :
  forall F c udiff ops t1 t2 r,
  run_optF udiff ops c no_opts t1 t2 = Ok r -> exists r', run_optF udiff ops c F t1 t2 = Ok r'.
Proof. exact no_new_raise_run. Qed.
Print Assumptions C11_no_new_raise.

(* stronger: the model never raises, for all values, options and oracles *)
Theorem C11_never_raises :
  forall F c udiff ops t1 t2 p1 p2, exists r, diffF udiff ops c F t1 t2 p1 p2 = Ok r.
Proof. exact never_raises. Qed.
Print Assumptions C11_never_raises.

(** ** truncate_datetime / default_timezone: atom level only (datetimes are not atoms of the structural model) *)
Theorem C11_dt_same_instant_other_zone : forall dtz us1 o1 us2 o2,
  (us1 - 60000000 * o1 = us2 - 60000000 * o2)%Z ->
  dt_changed None dtz (mkDt us1 (Some o1)) (mkDt us2 (Some o2)) = false.
Proof. exact dt_same_instant. Qed.
Print Assumptions C11_dt_same_instant_other_zone.

Theorem C11_dt_naive_is_default_zone : forall t dtz us,
  dt_changed t dtz (mkDt us None) (mkDt us (Some dtz)) = false.
Proof. exact dt_naive_is_default_zone. Qed.
Print Assumptions C11_dt_naive_is_default_zone.

Theorem C11_dt_truncate_same_bucket : forall u dtz us1 us2 o,
  (us1 / unit_us u = us2 / unit_us u)%Z ->
  dt_changed (Some u) dtz (mkDt us1 o) (mkDt us2 o) = false.
Proof. exact dt_trunc_same_bucket. Qed.
Print Assumptions C11_dt_truncate_same_bucket.

Theorem C11_dt_truncate_before_zone_refuted :   (* monotonicity fails for truncate_datetime: one instant, two zones *)
  exists a b, dt_instant None 0 a = dt_instant None 0 b /\
              dt_changed None 0 a b = false /\ dt_changed (Some UHour) 0 a b = true.
Proof. exact dt_trunc_before_tz_refuted. Qed.
Print Assumptions C11_dt_truncate_before_zone_refuted.

(** * The same three clauses over the EXTENDED universe (Options/XValue.v, XModel.v):
      floats are arbitrary dyadic rationals m/2^e (so numeric perturbations below
      significant_digits / math_epsilon live inside structures), datetimes are atoms
      (leaves, dict keys, set members), and the options record has truncate_datetime
      and default_timezone.  Names are qualified with the X modules; [XModel.run_optF]
      has the same dispatcher as [run_optF].  The two models are connected by the embedding theorem [C11_models_agree]
      at the end of this file. *)
From DD Require Options.XValue Options.XModel Options.XProofsBase Options.XProofsAtoms Options.XProofsKeys
  Options.XProofsLists Options.XProofsAlt Options.XProofsSafe Options.XProofsMono Options.XProofsRun Options.XProofsWitness.

Theorem C11x_leaf_alt_empty : forall udiff F a b p1 p2,
  XProofsAtoms.altL F a b = true -> XModel.diff_atomF udiff F a b p1 p2 = [].
Proof. exact XProofsAtoms.diff_atomF_altL. Qed.
Print Assumptions C11x_leaf_alt_empty.

Theorem C11x_set_member_alt_same_hash : forall F a b, XProofsAtoms.altS F a b = true -> XModel.hatomF F a = XModel.hatomF F b.
Proof. exact XProofsAtoms.hatomF_altS. Qed.
Print Assumptions C11x_set_member_alt_same_hash.

Theorem C11x_alt_empty_partial :
  forall F c udiff ops,
  XValue.thr_num c <= XValue.thr_den c ->
  (XValue.zip c = true \/ (XModel.o_excl F = [] /\ forall p xs ys, XProofsLists.tiles (ops p xs ys) 0 0 (length xs) (length ys) = true)) ->
  forall t1 t2, XProofsAlt.alt F c t1 t2 -> XProofsAlt.guard F c t1 = true -> XProofsAlt.guard F c t2 = true ->
  XModel.run_optF udiff ops c F t1 t2 = XModel.Ok ([], []).
Proof. exact XProofsAlt.alt_empty_run. Qed.
Print Assumptions C11x_alt_empty_partial.

Theorem C11x_copy_empty_partial :
  forall F c udiff ops,
  XValue.thr_num c <= XValue.thr_den c ->
  (XValue.zip c = true \/ (XModel.o_excl F = [] /\ forall p xs ys, XProofsLists.tiles (ops p xs ys) 0 0 (length xs) (length ys) = true)) ->
  forall t1 t2, XProofsRun.copy F c t1 t2 -> XProofsAlt.guard F c t1 = true -> XProofsAlt.guard F c t2 = true ->
  XModel.run_optF udiff ops c F t1 t2 = XModel.Ok ([], []).
Proof. exact XProofsRun.copy_empty_run. Qed.
Print Assumptions C11x_copy_empty_partial.

Theorem C11x_monotone_partial :
  forall F c udiff ops,
  XValue.thr_num c <= XValue.thr_den c ->
  (XValue.zip c = true \/ (XModel.o_excl F = [] /\ forall p xs ys, XProofsLists.tiles (ops p xs ys) 0 0 (length xs) (length ys) = true)) ->
  (forall p q xs ys, ops p xs ys = ops q xs ys) ->
  forall KU SU LU : XValue.atom -> Prop,
  (XModel.cleaning F = true -> forall k k', KU k -> KU k' -> XValue.py_eq k k' = true -> XValue.atom_ty k = XValue.atom_ty k') ->
  (forall x y, SU x -> SU y -> XModel.hatomF XModel.no_opts x = XModel.hatomF XModel.no_opts y -> x = y) ->
  (forall u1 o1 u2 o2, LU (XValue.ADt u1 o1) -> LU (XValue.ADt u2 o2) ->
     dt_changed None 0 (mkDt u1 o1) (mkDt u2 o2) = false -> XValue.ADt u1 o1 = XValue.ADt u2 o2) ->
  forall t1 t2 r,
  XModel.run_optF udiff ops c XModel.no_opts t1 t2 = XModel.Ok ([], r) ->
  XProofsAlt.guard F c t1 = true -> XProofsAlt.guard F c t2 = true ->
  XProofsMono.atoms_in KU SU LU t1 -> XProofsMono.atoms_in KU SU LU t2 ->
  XModel.run_optF udiff ops c F t1 t2 = XModel.Ok ([], []).
Proof. exact XProofsRun.monotone_run. Qed.
Print Assumptions C11x_monotone_partial.

Theorem C11x_no_new_raise_partial :
  forall F c udiff ops t1 t2 r,
  XModel.run_optF udiff ops c XModel.no_opts t1 t2 = XModel.Ok r ->
  XProofsSafe.safe F t1 = true -> XProofsSafe.safe F t2 = true -> exists r', XModel.run_optF udiff ops c F t1 t2 = XModel.Ok r'.
Proof. exact XProofsRun.no_new_raise_run. Qed.
Print Assumptions C11x_no_new_raise_partial.

(* refuted: datetime options at keys / in sets, truncation before the zone, datetime keys under key cleaning *)
Theorem C11x_datetime_key_raises_refuted :
  exists a, XProofsWitness.xrun XProofsWitness.xcdef XModel.no_opts a a = XModel.Ok ([], []) /\
            XProofsWitness.xrun XProofsWitness.xcdef (XProofsWitness.XFcase_sig 2) a a = XModel.Err XModel.EType.
Proof. exact XProofsWitness.x_datetime_key_raises_refuted. Qed.
Print Assumptions C11x_datetime_key_raises_refuted.

Theorem C11x_truncate_key_refuted :
  exists a b k k', a = XValue.VDict [(k, XProofsWitness.xvi 1)] /\ b = XValue.VDict [(k', XProofsWitness.xvi 1)] /\
    XProofsAtoms.dt_full (XProofsWitness.XFtrunc UMinute) k k' = true /\
    exists r, XProofsWitness.xrun XProofsWitness.xcdef (XProofsWitness.XFtrunc UMinute) a b = XModel.Ok r /\ fst r <> [].
Proof. exact XProofsWitness.x_trunc_key_refuted. Qed.
Print Assumptions C11x_truncate_key_refuted.

Theorem C11x_truncate_set_refuted :
  exists k k', XProofsAtoms.dt_full (XProofsWitness.XFtrunc UMinute) k k' = true /\
    exists r, XProofsWitness.xrun XProofsWitness.xcdef (XProofsWitness.XFtrunc UMinute) (XValue.VSet [k]) (XValue.VSet [k']) = XModel.Ok r /\ fst r <> [].
Proof. exact XProofsWitness.x_trunc_set_refuted. Qed.
Print Assumptions C11x_truncate_set_refuted.

Theorem C11x_default_timezone_key_refuted :
  exists k k', XProofsAtoms.dt_full (XProofsWitness.XFtz 120) k k' = true /\
    exists r, XProofsWitness.xrun XProofsWitness.xcdef (XProofsWitness.XFtz 120)
                (XValue.VDict [(k, XProofsWitness.xvi 1)]) (XValue.VDict [(k', XProofsWitness.xvi 1)]) = XModel.Ok r /\ fst r <> [].
Proof. exact XProofsWitness.x_tz_key_refuted. Qed.
Print Assumptions C11x_default_timezone_key_refuted.

Theorem C11x_truncate_before_zone_monotone_refuted :
  exists a b, XProofsWitness.xrun XProofsWitness.xcdef XModel.no_opts a b = XModel.Ok ([], []) /\
    exists r, XProofsWitness.xrun XProofsWitness.xcdef (XProofsWitness.XFtrunc UHour) a b = XModel.Ok r /\ fst r <> [].
Proof. exact XProofsWitness.x_trunc_before_tz_monotone_refuted. Qed.
Print Assumptions C11x_truncate_before_zone_monotone_refuted.

Theorem C11x_default_timezone_monotone_refuted :
  exists a b, XProofsWitness.xrun XProofsWitness.xcdef XModel.no_opts a b = XModel.Ok ([], []) /\
    exists r, XProofsWitness.xrun XProofsWitness.xcdef (XProofsWitness.XFtz 120) a b = XModel.Ok r /\ fst r <> [].
Proof. exact XProofsWitness.x_default_timezone_monotone_refuted. Qed.
Print Assumptions C11x_default_timezone_monotone_refuted.

(** * The two models agree: [emb] embeds the shared universe into the extended one (half-integer floats to dyadic
      rationals in lowest terms, other atoms identical), [embF] the option records (truncate_datetime off,
      default_timezone UTC), [embC] the configuration, [embRes] results (entries, paths, values); the extended model on
      embedded inputs computes the embedding of what the old model computes - for every oracle of the extended
      model that agrees with the old one's on embedded sequences (one always exists: [opsX_of_agree]). *)
From DD Require Options.OptEmbedNum Options.OptEmbed Options.OptEmbedCor.

Theorem C11_models_agree :
  forall udiff ops opsX,
  (forall p xs ys, opsX (OptEmbed.embP p) (map OptEmbed.emb xs) (map OptEmbed.emb ys) = map OptEmbed.embO (ops p xs ys)) ->
  forall c F t1 t2,
  XModel.run_optF udiff opsX (OptEmbed.embC c) (OptEmbed.embF F) (OptEmbed.emb t1) (OptEmbed.emb t2)
  = OptEmbed.embRes (run_optF udiff ops c F t1 t2).
Proof. exact OptEmbed.models_agree. Qed.
Print Assumptions C11_models_agree.

Theorem C11_models_agree_diff :     (* the same before mutual_add_removes, at any pair of paths *)
  forall udiff ops opsX,
  (forall p xs ys, opsX (OptEmbed.embP p) (map OptEmbed.emb xs) (map OptEmbed.emb ys) = map OptEmbed.embO (ops p xs ys)) ->
  forall c F t1 t2 p1 p2,
  XModel.diffF udiff opsX (OptEmbed.embC c) (OptEmbed.embF F) (OptEmbed.emb t1) (OptEmbed.emb t2) (OptEmbed.embP p1) (OptEmbed.embP p2)
  = OptEmbed.embRes (diffF udiff ops c F t1 t2 p1 p2).
Proof. exact OptEmbed.emb_diffF. Qed.
Print Assumptions C11_models_agree_diff.

Theorem C11_models_agree_empty :
  forall udiff ops opsX,
  (forall p xs ys, opsX (OptEmbed.embP p) (map OptEmbed.emb xs) (map OptEmbed.emb ys) = map OptEmbed.embO (ops p xs ys)) ->
  forall c F t1 t2,
  run_optF udiff ops c F t1 t2 = Ok ([], []) <->
  XModel.run_optF udiff opsX (OptEmbed.embC c) (OptEmbed.embF F) (OptEmbed.emb t1) (OptEmbed.emb t2) = XModel.Ok ([], []).
Proof. exact OptEmbed.models_agree_empty. Qed.
Print Assumptions C11_models_agree_empty.

Theorem C11_agreeing_oracle_exists :
  forall ops p xs ys,
  OptEmbedCor.opsX_of ops (OptEmbed.embP p) (map OptEmbed.emb xs) (map OptEmbed.emb ys) = map OptEmbed.embO (ops p xs ys).
Proof. exact OptEmbedCor.opsX_of_agree. Qed.
Print Assumptions C11_agreeing_oracle_exists.

(* an old-model theorem as a corollary of the extended model's: clause 3 *)
Theorem C11_never_raises_via_extended_model :
  forall udiff ops c F t1 t2, exists r, run_optF udiff ops c F t1 t2 = Ok r.
Proof. exact OptEmbedCor.never_raises_via_extended. Qed.
Print Assumptions C11_never_raises_via_extended_model.

(** C11 - ignore / tolerance options only remove differences and never make
    DeepDiff fail.  Final statements only.

    [run_optF udiff ops c F t1 t2]  the model of DeepDiff(t1, t2, **F) in ordered
        mode (Options/OptModel.v): [Ok (entries, recorded opcode paths) | Err
        ValueError | Err TypeError]; [c] = zip_ordered_iterables,
        threshold_to_diff_deeper, ignore_private_variables; [F] = the record of
        ignore_string_case, ignore_string_type_changes,
        ignore_numeric_type_changes, significant_digits, math_epsilon,
        exclude_types - ANY combination, so every statement covers all single
        options and all pairs; [udiff], [ops] = difflib (oracles).
    [no_opts]   all options off.
    [alt_full]  the property as stated: a positional copy whose atoms - leaves,
        dict keys, set members - are altered in any aspect an enabled option
        ignores ([altA]).  REFUTED for the faithful model (7 witnesses).
    [copy] / [alt]  the same with the three relations the code implements: what
        a leaf comparison ignores ([altL]: math_epsilon overrides
        significant_digits), what key cleaning identifies ([altK]), what the
        hash text of a set member identifies ([altS]); [alt] matches dict
        entries and set members up to order.
    [guard]     every compared dict has good kept keys: pairwise different for
        Python and after cleaning.
    History: the model followed two defects that /repo has since fixed - the
    TypeError of the path printer on bytes keys (0fac13b) and K8, the ValueError
    of key cleaning on numeric keys without a precision (d664dbb); with them the
    [Err] results, the [safe] guard and two _refuted theorems went away. *)
From Coq Require Import List ZArith NArith Bool Arith.
Import ListNotations.
From DD Require Import Base.PyStr Base.Value Diff.Tree Diff.DiffModel.
From DD Require Import Options.OptModel Options.OptProofsBase Options.OptProofsTie Options.OptProofsAtoms
  Options.OptProofsKeys Options.OptProofsLists Options.OptProofsAlt Options.OptProofsSafe Options.OptProofsMono
  Options.OptProofsRun Options.OptProofsBool Options.OptProofsWitness Options.OptDtModel Options.OptProofsDt.

(** ** The option-aware model under the default options IS Diff.DiffModel.diff *)
Theorem C11_no_options_is_diff_model :
  forall udiff ops c t1 t2 p1 p2,
  diffF udiff ops c no_opts t1 t2 p1 p2 = Ok (diff (hatomF no_opts) udiff ops nop nop c t1 t2 p1 p2).
Proof. exact diffF_no_opts. Qed.
Print Assumptions C11_no_options_is_diff_model.

Theorem C11_no_options_is_run_diff :
  forall udiff ops c t1 t2,
  run_optF udiff ops c no_opts t1 t2 = Ok (run_diff (hatomF no_opts) udiff ops nop nop c t1 t2).
Proof. exact run_optF_no_opts. Qed.
Print Assumptions C11_no_options_is_run_diff.

(** ** Clause 1: a copy altered only in what the options ignore has an empty diff *)
(* atom level: leaves, keys, set members *)
Theorem C11_leaf_alt_empty : forall udiff F a b p1 p2, altL F a b = true -> diff_atomF udiff F a b p1 p2 = [].
Proof. exact diff_atomF_altL. Qed.
Print Assumptions C11_leaf_alt_empty.

Theorem C11_key_alt_same_clean_key : forall F a b ca cb, cleaning F = true -> altK F a b = true ->
  clean_key F a = Ok ca -> clean_key F b = Ok cb -> py_eq ca cb = true.
Proof. exact clean_key_altK. Qed.
Print Assumptions C11_key_alt_same_clean_key.

Theorem C11_set_member_alt_same_hash : forall F a b, altS F a b = true -> hatomF F a = hatomF F b.
Proof. exact hatomF_altS. Qed.
Print Assumptions C11_set_member_alt_same_hash.

(* all values: entries of dicts and members of sets matched up to order *)
Theorem C11_alt_empty_partial :
  forall F c udiff ops,
  thr_num c <= thr_den c ->
  (zip c = true \/ (o_excl F = [] /\ forall p xs ys, tiles (ops p xs ys) 0 0 (length xs) (length ys) = true)) ->
  forall t1 t2, alt F c t1 t2 -> guard F c t1 = true -> guard F c t2 = true ->
  run_optF udiff ops c F t1 t2 = Ok ([], []).
Proof. exact alt_empty_run. Qed.
Print Assumptions C11_alt_empty_partial.

(* positional copies *)
Theorem C11_copy_empty_partial :
  forall F c udiff ops,
  thr_num c <= thr_den c ->
  (zip c = true \/ (o_excl F = [] /\ forall p xs ys, tiles (ops p xs ys) 0 0 (length xs) (length ys) = true)) ->
  forall t1 t2, copy F c t1 t2 -> guard F c t1 = true -> guard F c t2 = true ->
  run_optF udiff ops c F t1 t2 = Ok ([], []).
Proof. exact copy_empty_run. Qed.
Print Assumptions C11_copy_empty_partial.

(* the leaf relation restricts the full one *)
Theorem C11_leaf_relation_restricts_full : forall F a b, altL F a b = true -> altA F a b = true.
Proof. exact altL_altA. Qed.
Print Assumptions C11_leaf_relation_restricts_full.

(* the full-strength statement is false: *)
Example C11_numeric_key_without_precision :   (* K8, fixed by d664dbb: the key is left alone *)
  let a := VDict [(AInt 1, vi 5)] in
  run cdef Fcase a a = Ok ([], []) /\ run cdef Fstrty a a = Ok ([], []) /\
  clean_key Fcase (AInt 1) = Ok (AInt 1).
Proof. exact numeric_key_without_precision. Qed.

Theorem C11_alt_sig_key_refuted :          (* significant_digits not applied to keys *)
  exists a b, alt_full (Fsig 0) cdef a b /\ exists r, run cdef (Fsig 0) a b = Ok r /\ fst r <> [].
Proof. exact alt_sig_key_refuted. Qed.
Print Assumptions C11_alt_sig_key_refuted.

Theorem C11_alt_eps_key_refuted :          (* math_epsilon not applied to keys *)
  exists a b, alt_full (Feps (1%Z, 0%N)) cdef a b /\ exists r, run cdef (Feps (1%Z, 0%N)) a b = Ok r /\ fst r <> [].
Proof. exact alt_eps_key_refuted. Qed.
Print Assumptions C11_alt_eps_key_refuted.

Theorem C11_alt_eps_set_refuted :          (* math_epsilon not applied to set members *)
  exists a b, alt_full (Feps (1%Z, 0%N)) cdef a b /\ exists r, run cdef (Feps (1%Z, 0%N)) a b = Ok r /\ fst r <> [].
Proof. exact alt_eps_set_refuted. Qed.
Print Assumptions C11_alt_eps_set_refuted.

Theorem C11_alt_eps_over_sig_refuted :     (* math_epsilon overrides significant_digits: an option ADDS a difference *)
  let F1 := Fsig 0 in
  let F2 := mkOpts false false false (Some 0%N) (Some (1%Z, 2%N)) [] in
  exists a b, alt_full F2 czip a b /\ run czip F1 a b = Ok ([], []) /\ exists r, run czip F2 a b = Ok r /\ fst r <> [].
Proof. exact alt_eps_over_sig_refuted. Qed.
Print Assumptions C11_alt_eps_over_sig_refuted.

Theorem C11_alt_excl_key_refuted :         (* exclude_types not applied to keys *)
  exists a b, alt_full (Fexcl [TInt]) cdef a b /\ exists r, run cdef (Fexcl [TInt]) a b = Ok r /\ fst r <> [].
Proof. exact alt_excl_key_refuted. Qed.
Print Assumptions C11_alt_excl_key_refuted.

Theorem C11_alt_excl_default_list_refuted : (* exclude_types in the default list mode, with difflib's opcodes for the pair *)
  alt_full (Fexcl [TInt]) cdef (VList lw1) (VList lw2) /\
  tiles (ops_w [] lw1 lw2) 0 0 (List.length lw1) (List.length lw2) = true /\
  run_optF ud0 ops_w czip (Fexcl [TInt]) (VList lw1) (VList lw2) = Ok ([], []) /\
  exists r, run_optF ud0 ops_w cdef (Fexcl [TInt]) (VList lw1) (VList lw2) = Ok r /\ fst r <> [].
Proof. exact alt_excl_default_list_refuted. Qed.
Print Assumptions C11_alt_excl_default_list_refuted.

Theorem C11_alt_bytes_key_case_refuted :   (* ignore_string_case does not lower-case bytes keys *)
  exists a b, alt_full Fcase cdef a b /\ exists r, run cdef Fcase a b = Ok r /\ fst r <> [].
Proof. exact alt_bytes_key_case_refuted. Qed.
Print Assumptions C11_alt_bytes_key_case_refuted.

(** ** Clause 2: plain diff empty => diff under the options empty *)
Theorem C11_monotone_partial :
  forall F c udiff ops,
  thr_num c <= thr_den c ->
  (zip c = true \/ (o_excl F = [] /\ forall p xs ys, tiles (ops p xs ys) 0 0 (length xs) (length ys) = true)) ->
  (forall p q xs ys, ops p xs ys = ops q xs ys) ->
  forall KU SU : atom -> Prop,
  (cleaning F = true -> forall k k', KU k -> KU k' -> py_eq k k' = true -> atom_ty k = atom_ty k') ->
  (forall x y, SU x -> SU y -> hatomF no_opts x = hatomF no_opts y -> x = y) ->
  forall t1 t2 r,
  run_optF udiff ops c no_opts t1 t2 = Ok ([], r) ->
  guard F c t1 = true -> guard F c t2 = true -> atoms_in KU SU t1 -> atoms_in KU SU t2 ->
  run_optF udiff ops c F t1 t2 = Ok ([], []).
Proof. exact monotone_run. Qed.
Print Assumptions C11_monotone_partial.

(* the same with all guards as ONE boolean: [mono_ok] = guard of both values, Python-equal keys of equal type
   (when keys are cleaned), no two different set members with one plain hash text *)
Theorem C11_monotone_partial_bool :
  forall F c udiff ops,
  thr_num c <= thr_den c ->
  (zip c = true \/ (o_excl F = [] /\ forall p xs ys, tiles (ops p xs ys) 0 0 (length xs) (length ys) = true)) ->
  (forall p q xs ys, ops p xs ys = ops q xs ys) ->
  forall t1 t2 r,
  run_optF udiff ops c no_opts t1 t2 = Ok ([], r) -> mono_ok F c t1 t2 = true ->
  run_optF udiff ops c F t1 t2 = Ok ([], []).
Proof. exact monotone_run_bool. Qed.
Print Assumptions C11_monotone_partial_bool.

Example C11_mono_ok_satisfiable : mono_ok Fmix czip m1 m2 = true.
Proof. reflexivity. Qed.

Theorem C11_monotone_key_collision_refuted :
  exists a b, wf a = true /\ wf b = true /\ run cdef no_opts a b = Ok ([], []) /\
              exists r, run cdef Fcase a b = Ok r /\ fst r <> [].
Proof. exact monotone_key_collision_refuted. Qed.
Print Assumptions C11_monotone_key_collision_refuted.

Theorem C11_monotone_alias_key_refuted :
  let F := mkOpts true false false (Some 2%N) None [] in
  exists a b, wf a = true /\ wf b = true /\ run cdef no_opts a b = Ok ([], []) /\
              exists r, run cdef F a b = Ok r /\ fst r <> [].
Proof. exact monotone_alias_key_refuted. Qed.
Print Assumptions C11_monotone_alias_key_refuted.

Theorem C11_monotone_tag_set_refuted :
  exists a b, run cdef no_opts a b = Ok ([], []) /\ exists r, run cdef (Fsig 2) a b = Ok r /\ fst r <> [].
Proof. exact monotone_tag_set_refuted. Qed.
Print Assumptions C11_monotone_tag_set_refuted.

(** ** Clause 3: no option makes DeepDiff raise on inputs it accepts without *)
Theorem C11_no_new_raise :
  forall F c udiff ops t1 t2 r,
  run_optF udiff ops c no_opts t1 t2 = Ok r -> exists r', run_optF udiff ops c F t1 t2 = Ok r'.
Proof. exact no_new_raise_run. Qed.
Print Assumptions C11_no_new_raise.

(* stronger: the model never raises, for all values, options and oracles *)
Theorem C11_never_raises :
  forall F c udiff ops t1 t2 p1 p2, exists r, diffF udiff ops c F t1 t2 p1 p2 = Ok r.
Proof. exact never_raises. Qed.
Print Assumptions C11_never_raises.

(** ** truncate_datetime / default_timezone: atom level only (datetimes are not atoms of the structural model) *)
Theorem C11_dt_same_instant_other_zone : forall dtz us1 o1 us2 o2,
  (us1 - 60000000 * o1 = us2 - 60000000 * o2)%Z ->
  dt_changed None dtz (mkDt us1 (Some o1)) (mkDt us2 (Some o2)) = false.
Proof. exact dt_same_instant. Qed.
Print Assumptions C11_dt_same_instant_other_zone.

Theorem C11_dt_naive_is_default_zone : forall t dtz us,
  dt_changed t dtz (mkDt us None) (mkDt us (Some dtz)) = false.
Proof. exact dt_naive_is_default_zone. Qed.
Print Assumptions C11_dt_naive_is_default_zone.

Theorem C11_dt_truncate_same_bucket : forall u dtz us1 us2 o,
  (us1 / unit_us u = us2 / unit_us u)%Z ->
  dt_changed (Some u) dtz (mkDt us1 o) (mkDt us2 o) = false.
Proof. exact dt_trunc_same_bucket. Qed.
Print Assumptions C11_dt_truncate_same_bucket.

Theorem C11_dt_truncate_before_zone_refuted :   (* monotonicity fails for truncate_datetime: one instant, two zones *)
  exists a b, dt_instant None 0 a = dt_instant None 0 b /\
              dt_changed None 0 a b = false /\ dt_changed (Some UHour) 0 a b = true.
Proof. exact dt_trunc_before_tz_refuted. Qed.
Print Assumptions C11_dt_truncate_before_zone_refuted.

(** * The three clauses - and option COMPOSITION - over the EXTENDED universe (Options/YValue.v, YModel.v; round 3):
      floats are arbitrary dyadic rationals m/2^e and float('nan') OBJECTS (with identity), Decimal (m * 10^e),
      datetime (naive / fixed offset), date, time, timedelta and members of Enum classes are atoms (leaves, dict keys,
      set members); the options record has truncate_datetime, default_timezone, ignore_nan_inequality, use_enum_value
      and number_format_notation.  The leaf function [YModel.leafR] returns Err where the code raises (the type check
      skipped by use_enum_value, round() / replace() on the datetime types, int(round(nan, 0))).  Names are qualified
      with the Y modules; the old model embeds into this one ([C11_models_agree] at the end of the file). *)
From DD Require Options.YValue Options.YModel Options.YProofsBase Options.YProofsAtoms Options.YProofsKeys
  Options.YProofsLists Options.YProofsAlt Options.YProofsSafe Options.YProofsMono Options.YProofsRun Options.YProofsWitness
  Options.YProofsCompNum Options.YProofsComp Options.YProofsCompWitness.

(* clause 1 at a leaf: altL = representation-equal | same string up to case / str-bytes | numbers (int, float, Decimal) equal
   under the precision or tolerance in force | datetimes of one normalised instant | two nan objects under
   ignore_nan_inequality | an Enum member and its value under use_enum_value *)
Theorem C11x_leaf_alt_empty : forall udiff F a b p1 p2,
  YProofsAtoms.altL F a b = true -> YModel.diff_atomF udiff F a b p1 p2 = [].
Proof. exact YProofsAtoms.diff_atomF_altL. Qed.
Print Assumptions C11x_leaf_alt_empty.

(* ... and it neither reports nor RAISES (unconditional since /repo 1c8f0f8: a date / timedelta under truncate_datetime raised before) *)
Theorem C11x_leaf_alt_ok : forall udiff F a b p1 p2,
  YProofsAtoms.altL F a b = true -> YModel.leafR udiff F a b p1 p2 = YModel.Ok [].
Proof. exact YProofsAtoms.leafR_altL. Qed.
Print Assumptions C11x_leaf_alt_ok.

Theorem C11x_key_alt_same_clean_key : forall F a b ca cb, YModel.cleaning F = true -> YProofsAtoms.altK F a b = true ->
  YModel.clean_key F a = YModel.Ok ca -> YModel.clean_key F b = YModel.Ok cb -> YValue.py_eq ca cb = true.
Proof. exact YProofsAtoms.clean_key_altK. Qed.
Print Assumptions C11x_key_alt_same_clean_key.

Theorem C11x_set_member_alt_same_hash : forall F a b, YProofsAtoms.altS F a b = true -> YModel.hatomF F a = YModel.hatomF F b.
Proof. exact YProofsAtoms.hatomF_altS. Qed.
Print Assumptions C11x_set_member_alt_same_hash.

Theorem C11x_alt_empty_partial :
  forall F c udiff ops,
  YValue.thr_num c <= YValue.thr_den c ->
  (YValue.zip c = true \/ (YModel.o_excl F = [] /\ forall p xs ys, YProofsLists.tiles (ops p xs ys) 0 0 (length xs) (length ys) = true)) ->
  forall t1 t2, YProofsAlt.alt F c t1 t2 -> YProofsAlt.guard F c t1 = true -> YProofsAlt.guard F c t2 = true ->
  YModel.run_optF udiff ops c F t1 t2 = YModel.Ok ([], []).
Proof. exact YProofsAlt.alt_empty_run. Qed.
Print Assumptions C11x_alt_empty_partial.

Theorem C11x_copy_empty_partial :
  forall F c udiff ops,
  YValue.thr_num c <= YValue.thr_den c ->
  (YValue.zip c = true \/ (YModel.o_excl F = [] /\ forall p xs ys, YProofsLists.tiles (ops p xs ys) 0 0 (length xs) (length ys) = true)) ->
  forall t1 t2, YProofsRun.copy F c t1 t2 -> YProofsAlt.guard F c t1 = true -> YProofsAlt.guard F c t2 = true ->
  YModel.run_optF udiff ops c F t1 t2 = YModel.Ok ([], []).
Proof. exact YProofsRun.copy_empty_run. Qed.
Print Assumptions C11x_copy_empty_partial.

Example C11x_alt_instance :      (* nan leaves under ignore_nan_inequality, Decimal / float under significant_digits, a date, an Enum member, ... *)
  YProofsWitness.xrun YProofsWitness.xczip YProofsWitness.YFnew YProofsWitness.ye1 YProofsWitness.ye2 = YModel.Ok ([], []).
Proof. exact YProofsWitness.y_alt_by_theorem. Qed.

(* clause 2 *)
Theorem C11x_monotone_partial :
  forall F c udiff ops,
  YValue.thr_num c <= YValue.thr_den c ->
  (YValue.zip c = true \/ (YModel.o_excl F = [] /\ forall p xs ys, YProofsLists.tiles (ops p xs ys) 0 0 (length xs) (length ys) = true)) ->
  (forall p q xs ys, ops p xs ys = ops q xs ys) ->
  forall KU SU LU : YValue.atom -> Prop,
  (YModel.cleaning F = true -> forall k k', KU k -> KU k' -> YValue.py_eq k k' = true -> YValue.atom_ty k = YValue.atom_ty k') ->
  (YModel.cleaning F = true -> forall k, KU k -> YValue.canon_atom k = true) ->
  (YModel.cleaning F = true -> forall k k', KU k -> KU k' -> YProofsMono.multi_rep k = true ->
     YValue.atom_ty k = YValue.atom_ty k' -> YValue.py_eq k k' = true -> k = k') ->
  (forall x y, SU x -> SU y -> YModel.hatomF YModel.no_opts x = YModel.hatomF YModel.no_opts y -> x = y) ->
  (forall u1 o1 u2 o2, LU (YValue.ADt u1 o1) -> LU (YValue.ADt u2 o2) ->
     dt_changed None 0 (mkDt u1 o1) (mkDt u2 o2) = false -> YValue.ADt u1 o1 = YValue.ADt u2 o2) ->
  (forall a, LU a -> YValue.canon_atom a = true) ->
  (forall a b, LU a -> LU b -> YProofsMono.multi_rep a = true -> YValue.atom_ty a = YValue.atom_ty b -> YValue.py_eq a b = true -> a = b) ->
  forall t1 t2 r,
  YModel.run_optF udiff ops c YModel.no_opts t1 t2 = YModel.Ok ([], r) ->
  YProofsAlt.guard F c t1 = true -> YProofsAlt.guard F c t2 = true ->
  YProofsMono.atoms_in KU SU LU t1 -> YProofsMono.atoms_in KU SU LU t2 ->
  YModel.run_optF udiff ops c F t1 t2 = YModel.Ok ([], []).
Proof. exact YProofsRun.monotone_run. Qed.
Print Assumptions C11x_monotone_partial.

Example C11x_monotone_instance :
  YProofsWitness.xrun YProofsWitness.xczip YProofsWitness.YFnew YProofsWitness.ym YProofsWitness.ym = YModel.Ok ([], []).
Proof. exact YProofsWitness.y_monotone_instance. Qed.

(* clause 3: under the boolean guard [safe] (no Enum member under use_enum_value, no nan under 0 digits, no datetime type under ignore_numeric_type_changes, no datetime-type key when key cleaning meets
   a precision, no timedelta set member under a precision) the model never returns Err - for ALL values and options *)
Theorem C11x_never_raises_partial :
  forall F c udiff ops t1 t2,
  YProofsSafe.safe F t1 = true -> YProofsSafe.safe F t2 = true -> exists r, YModel.run_optF udiff ops c F t1 t2 = YModel.Ok r.
Proof. exact YProofsSafe.never_raises_run. Qed.
Print Assumptions C11x_never_raises_partial.

Theorem C11x_never_raises_diff_partial :
  forall F c udiff ops t1 t2 p1 p2,
  YProofsSafe.safe F t1 = true -> YProofsSafe.safe F t2 = true -> exists r, YModel.diffF udiff ops c F t1 t2 p1 p2 = YModel.Ok r.
Proof. exact YProofsSafe.never_raises. Qed.
Print Assumptions C11x_never_raises_diff_partial.

Theorem C11x_no_new_raise_partial :
  forall F c udiff ops t1 t2 r,
  YModel.run_optF udiff ops c YModel.no_opts t1 t2 = YModel.Ok r ->
  YProofsSafe.safe F t1 = true -> YProofsSafe.safe F t2 = true -> exists r', YModel.run_optF udiff ops c F t1 t2 = YModel.Ok r'.
Proof. exact YProofsRun.no_new_raise_run. Qed.
Print Assumptions C11x_no_new_raise_partial.

Theorem C11x_plain_never_raises : forall v, YProofsSafe.safe YModel.no_opts v = true.      (* without options every value is safe *)
Proof. exact YProofsSafe.safe_no_opts. Qed.
Print Assumptions C11x_plain_never_raises.

Example C11x_safe_instance : YProofsSafe.safe YProofsWitness.YFnew YProofsWitness.ye2 = true.
Proof. exact YProofsWitness.y_safe. Qed.

(* every part of the guard is needed: the raising corners, each a recorded finding *)
Theorem C11x_datetime_key_raises_refuted :
  exists a, YProofsWitness.xrun YProofsWitness.xcdef YModel.no_opts a a = YModel.Ok ([], []) /\
            YProofsWitness.xrun YProofsWitness.xcdef (YProofsWitness.XFcase_sig 2) a a = YModel.Err YModel.EType.
Proof. exact YProofsWitness.x_datetime_key_raises_refuted. Qed.
Print Assumptions C11x_datetime_key_raises_refuted.

(* C11-TRUNC-DATE (fixed in /repo by 1c8f0f8, the model follows): under truncate_datetime a date / timedelta compares as without it *)
Example C11x_truncate_date_fixed :
  YProofsWitness.xrun YProofsWitness.xcdef (YProofsWitness.XFtrunc UMinute) (YValue.VAtom (YValue.ADate 2024 6 1)) (YValue.VAtom (YValue.ADate 2024 6 1)) = YModel.Ok ([], []) /\
  YProofsWitness.xrun YProofsWitness.xcdef (YProofsWitness.XFtrunc UMinute) (YValue.VAtom (YValue.ATd 5000000)) (YValue.VAtom (YValue.ATd 5000000)) = YModel.Ok ([], []) /\
  YProofsWitness.xrun YProofsWitness.xcdef (YProofsWitness.XFtrunc UMinute) (YValue.VAtom (YValue.ADate 2024 6 1)) (YValue.VAtom (YValue.ADate 2024 6 2))
    = YModel.Ok ([YValue.mkEntry YValue.KValue [] [] (Some (YValue.VAtom (YValue.ADate 2024 6 1))) (Some (YValue.VAtom (YValue.ADate 2024 6 2))) None], []).
Proof. exact YProofsWitness.y_trunc_date_fixed. Qed.

Theorem C11x_timedelta_set_raises_refuted :          (* C11-SIG-TIMEDELTA-SET *)
  exists a, YProofsWitness.xrun YProofsWitness.xcdef YModel.no_opts (YValue.VSet [a]) (YValue.VSet [a]) = YModel.Ok ([], []) /\
    YProofsWitness.xrun YProofsWitness.xcdef (YProofsWitness.XFsig 2) (YValue.VSet [a]) (YValue.VSet [a]) = YModel.Err YModel.EType /\
    YProofsAlt.member_ok (YProofsWitness.XFsig 2) a = false.
Proof. exact YProofsWitness.y_set_td_refuted. Qed.
Print Assumptions C11x_timedelta_set_raises_refuted.

Theorem C11x_nan_zero_digits_set_raises_refuted :    (* C11-SIG0-NAN *)
  exists a, YProofsWitness.xrun YProofsWitness.xcdef YModel.no_opts (YValue.VSet [a]) (YValue.VSet [a]) = YModel.Ok ([], []) /\
    YProofsWitness.xrun YProofsWitness.xcdef (YProofsWitness.XFsig 0) (YValue.VSet [a]) (YValue.VSet [a]) = YModel.Err YModel.EValue /\
    YProofsAlt.member_ok (YProofsWitness.XFsig 0) a = false.
Proof. exact YProofsWitness.y_set_nan0_refuted. Qed.
Print Assumptions C11x_nan_zero_digits_set_raises_refuted.

Theorem C11x_nan_zero_digits_key_raises_refuted :
  exists k, YProofsWitness.xrun YProofsWitness.xcdef YModel.no_opts (YValue.VDict [(k, YProofsWitness.xvi 1)])
              (YValue.VDict [(k, YProofsWitness.xvi 1)]) = YModel.Ok ([], []) /\
    YProofsWitness.xrun YProofsWitness.xcdef (YProofsWitness.XFcase_sig 0) (YValue.VDict [(k, YProofsWitness.xvi 1)])
              (YValue.VDict [(k, YProofsWitness.xvi 1)]) = YModel.Err YModel.EValue /\
    YProofsAtoms.key_cleanable (YProofsWitness.XFcase_sig 0) k = false.
Proof. exact YProofsWitness.y_key_nan0_refuted. Qed.
Print Assumptions C11x_nan_zero_digits_key_raises_refuted.

Theorem C11x_numeric_group_datetime_raises_refuted : (* C11-NUMGROUP-DATETIME, through difflib opcodes that pair a number with a datetime *)
  exists t, YProofsLists.tiles (YProofsWitness.yops_shift [] [] []) 0 0 2 2 = true /\
    YModel.run_optF YProofsWitness.xud0 YProofsWitness.yops_shift YProofsWitness.xcdef YModel.no_opts t t = YModel.Ok ([], []) /\
    YModel.run_optF YProofsWitness.xud0 YProofsWitness.yops_shift YProofsWitness.xcdef YProofsWitness.XFnumty t t = YModel.Err YModel.EType /\
    YProofsAlt.guard YProofsWitness.XFnumty YProofsWitness.xcdef t = false.
Proof. exact YProofsWitness.y_items_guard_refuted. Qed.
Print Assumptions C11x_numeric_group_datetime_raises_refuted.

(* use_enum_value: None against a member whose value is None is related and reports nothing (C11-ENUM-NONE, fixed in /repo by
   c9e614d - the model follows); two members of one class are NOT related: _diff_enum reports the .name child *)
Example C11x_enum_none_fixed :      (* the member NOTHING = None of the class Opt *)
  let a := YValue.AEnum [79; 112; 116]%N [78; 79; 84; 72; 73; 78; 71]%N 0 YValue.ENone in
  YProofsAtoms.enum_rel YProofsWitness.XFenum a YValue.ANone = true /\
  YProofsAtoms.altL YProofsWitness.XFenum a YValue.ANone = true /\ YProofsAtoms.altL YProofsWitness.XFenum YValue.ANone a = true /\
  YProofsWitness.xrun YProofsWitness.xcdef YProofsWitness.XFenum (YValue.VAtom a) (YValue.VAtom YValue.ANone) = YModel.Ok ([], []) /\
  YProofsWitness.xrun YProofsWitness.xcdef YProofsWitness.XFenum (YValue.VAtom YValue.ANone) (YValue.VAtom a) = YModel.Ok ([], []).
Proof. exact YProofsWitness.y_enum_none_fixed. Qed.

Theorem C11x_enum_same_class_refuted :
  exists a b, YValue.atom_eqb (YModel.unwrap YProofsWitness.XFenum a) (YModel.unwrap YProofsWitness.XFenum b) = true /\
    exists r, YProofsWitness.xrun YProofsWitness.xcdef YProofsWitness.XFenum (YValue.VAtom a) (YValue.VAtom b) = YModel.Ok r /\ fst r <> [].
Proof. exact YProofsWitness.y_enum_same_class_refuted. Qed.
Print Assumptions C11x_enum_same_class_refuted.

(* refuted: datetime options at keys / in sets, truncation before the zone *)
Theorem C11x_truncate_key_refuted :
  exists a b k k', a = YValue.VDict [(k, YProofsWitness.xvi 1)] /\ b = YValue.VDict [(k', YProofsWitness.xvi 1)] /\
    YProofsAtoms.dt_full (YProofsWitness.XFtrunc UMinute) k k' = true /\
    exists r, YProofsWitness.xrun YProofsWitness.xcdef (YProofsWitness.XFtrunc UMinute) a b = YModel.Ok r /\ fst r <> [].
Proof. exact YProofsWitness.x_trunc_key_refuted. Qed.
Print Assumptions C11x_truncate_key_refuted.

Theorem C11x_truncate_set_refuted :
  exists k k', YProofsAtoms.dt_full (YProofsWitness.XFtrunc UMinute) k k' = true /\
    exists r, YProofsWitness.xrun YProofsWitness.xcdef (YProofsWitness.XFtrunc UMinute) (YValue.VSet [k]) (YValue.VSet [k']) = YModel.Ok r /\ fst r <> [].
Proof. exact YProofsWitness.x_trunc_set_refuted. Qed.
Print Assumptions C11x_truncate_set_refuted.

Theorem C11x_default_timezone_key_refuted :
  exists k k', YProofsAtoms.dt_full (YProofsWitness.XFtz 120) k k' = true /\
    exists r, YProofsWitness.xrun YProofsWitness.xcdef (YProofsWitness.XFtz 120)
                (YValue.VDict [(k, YProofsWitness.xvi 1)]) (YValue.VDict [(k', YProofsWitness.xvi 1)]) = YModel.Ok r /\ fst r <> [].
Proof. exact YProofsWitness.x_tz_key_refuted. Qed.
Print Assumptions C11x_default_timezone_key_refuted.

Theorem C11x_truncate_before_zone_monotone_refuted :
  exists a b, YProofsWitness.xrun YProofsWitness.xcdef YModel.no_opts a b = YModel.Ok ([], []) /\
    exists r, YProofsWitness.xrun YProofsWitness.xcdef (YProofsWitness.XFtrunc UHour) a b = YModel.Ok r /\ fst r <> [].
Proof. exact YProofsWitness.x_trunc_before_tz_monotone_refuted. Qed.
Print Assumptions C11x_truncate_before_zone_monotone_refuted.

Theorem C11x_default_timezone_monotone_refuted :
  exists a b, YProofsWitness.xrun YProofsWitness.xcdef YModel.no_opts a b = YModel.Ok ([], []) /\
    exists r, YProofsWitness.xrun YProofsWitness.xcdef (YProofsWitness.XFtz 120) a b = YModel.Ok r /\ fst r <> [].
Proof. exact YProofsWitness.x_default_timezone_monotone_refuted. Qed.
Print Assumptions C11x_default_timezone_monotone_refuted.

(** * Option COMPOSITION: an option only removes differences, also when it is added to other options.
      [ole F G]: G has every ignore / tolerance option of F (ignore_string_case, ignore_string_type_changes,
      ignore_numeric_type_changes, ignore_nan_inequality, use_enum_value, exclude_types, significant_digits,
      math_epsilon, truncate_datetime); default_timezone and the notation are shared parameters.  For ALL atoms a b:
      what the leaf comparison reports under G sits at the path of something it reports under F; in particular
      F-empty implies G-empty.  Taking F := A and G := A + B (and F := B): result(A and B) embeds into result(A)
      and into result(B). *)
Theorem C11x_compose_leaf_empty :
  forall udiff F G, YProofsComp.ole F G ->
  forall a b p1 p2 q1 q2 eG, YProofsComp.pair_ok F G a b ->
  YModel.leafR udiff F a b p1 p2 = YModel.Ok [] -> YModel.leafR udiff G a b q1 q2 = YModel.Ok eG -> eG = [].
Proof. exact YProofsComp.leafR_mono. Qed.
Print Assumptions C11x_compose_leaf_empty.

Theorem C11x_compose_leaf_entrywise :
  forall udiff F G, YProofsComp.ole F G ->
  forall a b p1 p2 q2 eF eG, YProofsComp.pair_ok F G a b ->
  YModel.leafR udiff F a b p1 p2 = YModel.Ok eF -> YModel.leafR udiff G a b p1 q2 = YModel.Ok eG -> YProofsComp.covers eF eG.
Proof. exact YProofsComp.leafR_covers. Qed.
Print Assumptions C11x_compose_leaf_entrywise.

(* numbers that Python finds equal (int / bool / float / Decimal of one exact value) are rendered alike under every precision *)
Theorem C11x_equal_numbers_render_alike :
  forall F d a b, YModel.o_note F = false -> YProofsCompNum.is_num a = true -> YProofsCompNum.is_num b = true ->
  YValue.py_eq a b = true -> YModel.nstr F d a = YModel.nstr F d b.
Proof. exact YProofsCompNum.nstr_py_eq. Qed.
Print Assumptions C11x_equal_numbers_render_alike.

(* two DISTINCT nan objects under ignore_nan_inequality + math_epsilon: not reported, by the theorem (the corner of the
   round-3 seeded change C11-8) *)
Example C11x_compose_nan_eps_instance : forall eG,
  YModel.leafR YProofsCompWitness.cud0 (YProofsCompWitness.CFnan_eps (0%Z, 0%N)) (YValue.ANan 1) (YValue.ANan 2) [] [] = YModel.Ok eG -> eG = [].
Proof. exact YProofsCompWitness.nan_eps_by_theorem. Qed.

(* ... and for WHOLE values in the positional list mode: every entry of the result under G sits at the path of an entry
   of the result under F.  [stable]: the kept keys of every compared dict are pairwise different and key cleaning leaves
   them alone under both option sets (where keys are cleaned, composition fails: C11-KEY-COLLISION, C11-ALIAS-KEY);
   set members: equal hash texts under F stay equal under G (fails for K1 tag collisions: C11-TAG-SET); the default
   list mode is outside (the choice between the difflib pass and the pairwise pass depends on the NUMBER of reports). *)
From DD Require Options.YProofsCompStruct.

Theorem C11x_compose_partial :
  forall udiff ops c F G, YProofsComp.ole F G ->
  forall SU : YValue.atom -> Prop,
  (forall x y, SU x -> SU y -> YModel.hatomF F x = YModel.hatomF F y ->
     YModel.hatomF G x = YModel.hatomF G y /\ YModel.excl_hash G x = YModel.excl_hash G y) ->
  forall KU LU : YValue.atom -> Prop,
  YValue.zip c = true ->
  (forall a b, LU a -> LU b -> YProofsComp.pair_ok F G a b) ->
  forall t1 t2 rF rG,
  YProofsCompStruct.stable c F G t1 = true -> YProofsCompStruct.stable c F G t2 = true ->
  YProofsMono.atoms_in KU SU LU t1 -> YProofsMono.atoms_in KU SU LU t2 ->
  YModel.run_optF udiff ops c F t1 t2 = YModel.Ok rF ->
  YModel.run_optF udiff ops c G t1 t2 = YModel.Ok rG -> YProofsComp.covers (fst rF) (fst rG).
Proof. exact YProofsCompStruct.comp_run. Qed.
Print Assumptions C11x_compose_partial.

Theorem C11x_compose_diff_partial :      (* before mutual_add_removes, at any path *)
  forall udiff ops c F G, YProofsComp.ole F G ->
  forall SU : YValue.atom -> Prop,
  (forall x y, SU x -> SU y -> YModel.hatomF F x = YModel.hatomF F y ->
     YModel.hatomF G x = YModel.hatomF G y /\ YModel.excl_hash G x = YModel.excl_hash G y) ->
  forall KU LU : YValue.atom -> Prop,
  YValue.zip c = true ->
  (forall a b, LU a -> LU b -> YProofsComp.pair_ok F G a b) ->
  forall t1 t2 p1 p2 q2 rF rG,
  YProofsCompStruct.stable c F G t1 = true -> YProofsCompStruct.stable c F G t2 = true ->
  YProofsMono.atoms_in KU SU LU t1 -> YProofsMono.atoms_in KU SU LU t2 ->
  YModel.diffF udiff ops c F t1 t2 p1 p2 = YModel.Ok rF ->
  YModel.diffF udiff ops c G t1 t2 p1 q2 = YModel.Ok rG -> YProofsComp.covers (fst rF) (fst rG).
Proof. exact YProofsCompStruct.comp_diff. Qed.
Print Assumptions C11x_compose_diff_partial.

(* the two options A and B together: result(A and B) embeds entry-wise into result(A) AND into result(B) *)
Theorem C11x_compose_two_options_partial :
  forall udiff ops c (A B AB : YModel.opts) (KU SU LU : YValue.atom -> Prop),
  YValue.zip c = true ->
  YProofsComp.ole A AB -> YProofsComp.ole B AB ->
  (forall H, H = A \/ H = B -> forall x y, SU x -> SU y -> YModel.hatomF H x = YModel.hatomF H y ->
     YModel.hatomF AB x = YModel.hatomF AB y /\ YModel.excl_hash AB x = YModel.excl_hash AB y) ->
  (forall H, H = A \/ H = B -> forall a b, LU a -> LU b -> YProofsComp.pair_ok H AB a b) ->
  forall t1 t2 rA rB rAB,
  YProofsCompStruct.stable c A AB t1 = true -> YProofsCompStruct.stable c A AB t2 = true ->
  YProofsCompStruct.stable c B AB t1 = true -> YProofsCompStruct.stable c B AB t2 = true ->
  YProofsMono.atoms_in KU SU LU t1 -> YProofsMono.atoms_in KU SU LU t2 ->
  YModel.run_optF udiff ops c A t1 t2 = YModel.Ok rA ->
  YModel.run_optF udiff ops c B t1 t2 = YModel.Ok rB ->
  YModel.run_optF udiff ops c AB t1 t2 = YModel.Ok rAB ->
  YProofsComp.covers (fst rA) (fst rAB) /\ YProofsComp.covers (fst rB) (fst rAB).
Proof. exact YProofsCompStruct.comp_and. Qed.
Print Assumptions C11x_compose_two_options_partial.

(* non-vacuity: A = ignore_string_case + ignore_nan_inequality, B = ignore_string_case + significant_digits=2 on dicts with
   lists of nan / Decimal / float / str leaves and a set: the three runs, the two embeddings, and fewer entries under A and B *)
Example C11x_compose_instance :
  exists rA rB rAB,
    YModel.run_optF YProofsCompStruct.cs_ud YProofsCompStruct.cs_ops YProofsCompStruct.cs_zip YProofsCompStruct.cs_A
      YProofsCompStruct.cs_t1 YProofsCompStruct.cs_t2 = YModel.Ok rA /\
    YModel.run_optF YProofsCompStruct.cs_ud YProofsCompStruct.cs_ops YProofsCompStruct.cs_zip YProofsCompStruct.cs_B
      YProofsCompStruct.cs_t1 YProofsCompStruct.cs_t2 = YModel.Ok rB /\
    YModel.run_optF YProofsCompStruct.cs_ud YProofsCompStruct.cs_ops YProofsCompStruct.cs_zip YProofsCompStruct.cs_AB
      YProofsCompStruct.cs_t1 YProofsCompStruct.cs_t2 = YModel.Ok rAB /\
    YProofsComp.covers (fst rA) (fst rAB) /\ YProofsComp.covers (fst rB) (fst rAB) /\
    length (fst rAB) < length (fst rA) /\ length (fst rAB) <= length (fst rB) /\ fst rAB <> [].
Proof. exact YProofsCompStruct.cs_comp_instance. Qed.

(* float(Decimal) and math.isclose see only the VALUE: equal rationals convert to the same double, so numbers Python finds
   equal (int / bool / float / Decimal; ints and floats within 53 bits) are close under every math_epsilon - this is what
   removed the "no Decimal leaf when math_epsilon is added" side condition of [pair_ok] and the Decimal half of the rigidity
   hypotheses of C11x_monotone_partial *)
From DD Require Options.YProofsDec Options.YProofsCompDefault.
Theorem C11x_nearest_double_by_value :
  forall p q p' q', (0 < q)%Z -> (0 < q')%Z -> (p * q')%Z = (p' * q)%Z -> YModel.dy_of_q p q = YModel.dy_of_q p' q'.
Proof. exact YProofsDec.dy_of_q_eq. Qed.
Print Assumptions C11x_nearest_double_by_value.

Theorem C11x_equal_numbers_are_close :
  forall a b x y e, YProofsCompNum.is_num a = true -> YProofsCompNum.is_num b = true ->
  YProofsDec.is_double a = true -> YProofsDec.is_double b = true ->
  YModel.fl_of a = Some (Some x) -> YModel.fl_of b = Some (Some y) -> YValue.py_eq a b = true -> is_close x y e = true.
Proof. exact YProofsDec.is_close_py_eq_dec. Qed.
Print Assumptions C11x_equal_numbers_are_close.

Theorem C11x_equal_decimals_alt :      (* Decimal('1.5') / Decimal('1.50'): related under EVERY option set, notation 'e' included *)
  forall F m e m' e', YValue.py_eq (YValue.ADec m e) (YValue.ADec m' e') = true ->
  YProofsAtoms.altL F (YValue.ADec m e) (YValue.ADec m' e') = true.
Proof. exact YProofsMono.dec_altL. Qed.
Print Assumptions C11x_equal_decimals_alt.

(* the entry-wise embedding FAILS in the default list mode, for the real difflib opcodes of the pair (they tile):
   DeepDiff([1, 1.5], [1.75, 1.75, 1.5]) reports at root[0], root[1] (difflib pass: 2 reports, pairwise pass: 3); math_epsilon=0.5
   removes one report of the pairwise pass, which is then preferred and reports at root[0], root[2] *)
Theorem C11x_compose_default_mode_refuted :
  exists rF rG,
    YProofsComp.ole YModel.no_opts YProofsCompDefault.DFeps /\
    (YProofsComp.pair_ok YModel.no_opts YProofsCompDefault.DFeps (YValue.AFloat 3 1) (YValue.AFloat 7 2) /\
     YProofsComp.pair_ok YModel.no_opts YProofsCompDefault.DFeps (YValue.AInt 1) (YValue.AFloat 7 2)) /\
    YProofsLists.tiles (YProofsCompDefault.dops nil nil nil) 0 0 2 3 = true /\
    YModel.run_optF YProofsCompDefault.dud0 YProofsCompDefault.dops YProofsCompDefault.dcdef YModel.no_opts
      YProofsCompDefault.dt1 YProofsCompDefault.dt2 = YModel.Ok rF /\
    YModel.run_optF YProofsCompDefault.dud0 YProofsCompDefault.dops YProofsCompDefault.dcdef YProofsCompDefault.DFeps
      YProofsCompDefault.dt1 YProofsCompDefault.dt2 = YModel.Ok rG /\
    ~ YProofsComp.covers (fst rF) (fst rG).
Proof. exact YProofsCompDefault.comp_default_mode_refuted. Qed.
Print Assumptions C11x_compose_default_mode_refuted.

(* where composition FAILS: exactly the side conditions of [ole] / [pair_ok] *)
Theorem C11x_compose_eps_over_sig_refuted :          (* C11-EPS-OVER-SIG: every field of ole but le_eps *)
  exists F G a b r, YProofsCompWitness.ole_but_eps F G /\
    YProofsCompWitness.crun F a b = YModel.Ok ([], []) /\ YProofsCompWitness.crun G a b = YModel.Ok r /\ fst r <> [].
Proof. exact YProofsCompWitness.comp_eps_over_sig_refuted. Qed.
Print Assumptions C11x_compose_eps_over_sig_refuted.

Theorem C11x_compose_sig_over_numty_refuted :        (* significant_digits=0 added to ignore_numeric_type_changes (12 digits): every field but le_sig *)
  exists F G a b r, YProofsCompWitness.ole_but_sig F G /\
    YProofsCompWitness.crun F a b = YModel.Ok ([], []) /\ YProofsCompWitness.crun G a b = YModel.Ok r /\ fst r <> [].
Proof. exact YProofsCompWitness.comp_sig_over_numty_refuted. Qed.
Print Assumptions C11x_compose_sig_over_numty_refuted.

Theorem C11x_compose_truncate_zone_refuted :         (* C11-TRUNC-BEFORE-TZ: ole holds, pair_ok fails *)
  exists F G a b r, YProofsComp.ole F G /\
    YProofsCompWitness.crun F (YValue.VAtom a) (YValue.VAtom b) = YModel.Ok ([], []) /\
    YProofsCompWitness.crun G (YValue.VAtom a) (YValue.VAtom b) = YModel.Ok r /\ fst r <> [] /\ ~ YProofsComp.pair_ok F G a b.
Proof. exact YProofsCompWitness.comp_trunc_zone_refuted. Qed.
Print Assumptions C11x_compose_truncate_zone_refuted.

(** * The weak composition in BOTH list modes: what is empty under F stays empty under a larger option set G (the default
      mode for every opcode oracle whose lists tile, exclude_types off on both sides; no threshold hypothesis). *)
From DD Require Options.YProofsCompEmpty Options.YMemo Options.YProofsMemo.
Theorem C11x_compose_empty_partial :
  forall udiff ops c F G, YProofsComp.ole F G ->
  forall KU SU LU : YValue.atom -> Prop,
  (forall x y, SU x -> SU y -> YModel.hatomF F x = YModel.hatomF F y ->
     YModel.hatomF G x = YModel.hatomF G y /\ YModel.excl_hash G x = YModel.excl_hash G y) ->
  (forall a b, LU a -> LU b -> YProofsComp.pair_ok F G a b) ->
  (YValue.zip c = true \/ (YModel.o_excl F = nil /\ YModel.o_excl G = nil /\
     forall p xs ys, YProofsLists.tiles (ops p xs ys) 0 0 (length xs) (length ys) = true)) ->
  forall t1 t2 r rG,
  YProofsCompStruct.stable c F G t1 = true -> YProofsCompStruct.stable c F G t2 = true ->
  YProofsMono.atoms_in KU SU LU t1 -> YProofsMono.atoms_in KU SU LU t2 ->
  YModel.run_optF udiff ops c F t1 t2 = YModel.Ok (nil, r) -> YModel.run_optF udiff ops c G t1 t2 = YModel.Ok rG -> fst rG = nil.
Proof. exact YProofsCompEmpty.comp_empty_run. Qed.
Print Assumptions C11x_compose_empty_partial.

(** * The DeepHash memo table (finding K2 = C11-MEMO-SET) inside the model: [YMemo.diffM] is the dispatcher with the run's table
      threaded through the traversal (lookup by == BEFORE _skip_this; t1's members, then t2's; dict children in the order of
      t2's keys).  Where no two set members are ==-equal with different hash text / exclusion ([alias_freeP]) the table
      changes nothing: all C11x theorems about [run_optF] are theorems about the run with the table.  Where aliases exist
      the two differ (refuted), and the correspondence check ties [run_memoF] to the implementation on exactly those inputs. *)
Theorem C11x_memo_agrees_partial :
  forall udiff ops c F (SU : YValue.atom -> Prop), YProofsMemo.alias_freeP F SU ->
  forall t2 t1 m p1 p2,
  YProofsCompStruct.stable c F F t1 = true -> YProofsCompStruct.stable c F F t2 = true ->
  YProofsMono.atoms_in (fun _ => True) SU (fun _ => True) t1 -> YProofsMono.atoms_in (fun _ => True) SU (fun _ => True) t2 ->
  YProofsMemo.memo_okP F SU m ->
  YProofsMemo.simR F SU (YMemo.diffM udiff ops c F m t1 t2 p1 p2) (YModel.diffF udiff ops c F t1 t2 p1 p2).
Proof. exact YProofsMemo.diffM_sim. Qed.
Print Assumptions C11x_memo_agrees_partial.

Theorem C11x_memo_agrees_empty_partial :
  forall udiff ops c F (SU : YValue.atom -> Prop), YProofsMemo.alias_freeP F SU ->
  forall t1 t2,
  YProofsCompStruct.stable c F F t1 = true -> YProofsCompStruct.stable c F F t2 = true ->
  YProofsMono.atoms_in (fun _ => True) SU (fun _ => True) t1 -> YProofsMono.atoms_in (fun _ => True) SU (fun _ => True) t2 ->
  ((exists e, YMemo.run_memoF udiff ops c F t1 t2 = YModel.Err e) <-> (exists e, YModel.run_optF udiff ops c F t1 t2 = YModel.Err e)) /\
  ((exists ps, YMemo.run_memoF udiff ops c F t1 t2 = YModel.Ok (nil, ps)) <-> (exists ps, YModel.run_optF udiff ops c F t1 t2 = YModel.Ok (nil, ps))).
Proof. exact YProofsMemo.run_memoF_empty. Qed.
Print Assumptions C11x_memo_agrees_empty_partial.

Theorem C11x_memo_agrees_no_dict_partial :      (* without dicts: the very same result, entry order included *)
  forall udiff ops c F (SU : YValue.atom -> Prop), YProofsMemo.alias_freeP F SU ->
  forall t1 t2, YProofsMemo.nodict t1 = true -> YProofsMemo.nodict t2 = true ->
  YProofsMono.atoms_in (fun _ => True) SU (fun _ => True) t1 -> YProofsMono.atoms_in (fun _ => True) SU (fun _ => True) t2 ->
  YMemo.run_memoF udiff ops c F t1 t2 = YModel.run_optF udiff ops c F t1 t2.
Proof. exact YProofsMemo.run_memoF_nodict. Qed.
Print Assumptions C11x_memo_agrees_no_dict_partial.

Theorem C11x_memo_alias_refuted :               (* {1} against {1.0}: two reports without the table, none with it *)
  YProofsMemo.mm_kinds (YModel.run_optF YProofsMemo.mm_ud YProofsMemo.mm_ops YProofsMemo.mm_c YModel.no_opts
     (YValue.VSet (YValue.AInt 1 :: nil)) (YValue.VSet (YValue.AFloat 1 0 :: nil))) = Some (YValue.KSetAdd :: YValue.KSetRem :: nil) /\
  YProofsMemo.mm_kinds (YMemo.run_memoF YProofsMemo.mm_ud YProofsMemo.mm_ops YProofsMemo.mm_c YModel.no_opts
     (YValue.VSet (YValue.AInt 1 :: nil)) (YValue.VSet (YValue.AFloat 1 0 :: nil))) = Some nil /\
  ~ YProofsMemo.alias_free YModel.no_opts (YValue.AInt 1 :: YValue.AFloat 1 0 :: nil).
Proof. exact YProofsMemo.memo_alias_refuted. Qed.
Print Assumptions C11x_memo_alias_refuted.

Theorem C11x_memo_alias_excluded_refuted :      (* exclude_types=[float]: {1.0} vs {1} is reported, unless a 1 was hashed earlier in the run *)
  YProofsMemo.mm_kinds (YMemo.run_memoF YProofsMemo.mm_ud YProofsMemo.mm_ops YProofsMemo.mm_c YProofsMemo.MFxfloat
     (YValue.VSet (YValue.AFloat 1 0 :: nil)) (YValue.VSet (YValue.AInt 1 :: nil))) = Some (YValue.KSetAdd :: nil) /\
  YProofsMemo.mm_kinds (YModel.run_optF YProofsMemo.mm_ud YProofsMemo.mm_ops YProofsMemo.mm_c YProofsMemo.MFxfloat
     (YValue.VList (YValue.VSet (YValue.AInt 1 :: nil) :: YValue.VSet (YValue.AFloat 1 0 :: nil) :: nil))
     (YValue.VList (YValue.VSet (YValue.AInt 1 :: nil) :: YValue.VSet (YValue.AInt 1 :: nil) :: nil))) = Some (YValue.KSetAdd :: nil) /\
  YProofsMemo.mm_kinds (YMemo.run_memoF YProofsMemo.mm_ud YProofsMemo.mm_ops YProofsMemo.mm_c YProofsMemo.MFxfloat
     (YValue.VList (YValue.VSet (YValue.AInt 1 :: nil) :: YValue.VSet (YValue.AFloat 1 0 :: nil) :: nil))
     (YValue.VList (YValue.VSet (YValue.AInt 1 :: nil) :: YValue.VSet (YValue.AInt 1 :: nil) :: nil))) = Some nil.
Proof. exact YProofsMemo.memo_alias_excluded_refuted. Qed.
Print Assumptions C11x_memo_alias_excluded_refuted.

(** * The two models agree: [emb] embeds the shared universe into the extended one (half-integer floats to dyadic
      rationals in lowest terms, other atoms identical), [embF] the option records (the new options off,
      default_timezone UTC), [embC] the configuration, [embRes] results (entries, paths, values); the extended model on
      embedded inputs computes the embedding of what the old model computes - for every oracle of the extended
      model that agrees with the old one's on embedded sequences (one always exists: [opsX_of_agree]). *)
From DD Require Options.OptEmbedNum Options.YEmbed Options.YEmbedCor.

Theorem C11_models_agree :
  forall udiff ops opsX,
  (forall p xs ys, opsX (YEmbed.embP p) (map YEmbed.emb xs) (map YEmbed.emb ys) = map YEmbed.embO (ops p xs ys)) ->
  forall c F t1 t2,
  YModel.run_optF udiff opsX (YEmbed.embC c) (YEmbed.embF F) (YEmbed.emb t1) (YEmbed.emb t2)
  = YEmbed.embRes (run_optF udiff ops c F t1 t2).
Proof. exact YEmbed.models_agree. Qed.
Print Assumptions C11_models_agree.

Theorem C11_models_agree_diff :     (* the same before mutual_add_removes, at any pair of paths *)
  forall udiff ops opsX,
  (forall p xs ys, opsX (YEmbed.embP p) (map YEmbed.emb xs) (map YEmbed.emb ys) = map YEmbed.embO (ops p xs ys)) ->
  forall c F t1 t2 p1 p2,
  YModel.diffF udiff opsX (YEmbed.embC c) (YEmbed.embF F) (YEmbed.emb t1) (YEmbed.emb t2) (YEmbed.embP p1) (YEmbed.embP p2)
  = YEmbed.embRes (diffF udiff ops c F t1 t2 p1 p2).
Proof. exact YEmbed.emb_diffF. Qed.
Print Assumptions C11_models_agree_diff.

Theorem C11_models_agree_empty :
  forall udiff ops opsX,
  (forall p xs ys, opsX (YEmbed.embP p) (map YEmbed.emb xs) (map YEmbed.emb ys) = map YEmbed.embO (ops p xs ys)) ->
  forall c F t1 t2,
  run_optF udiff ops c F t1 t2 = Ok ([], []) <->
  YModel.run_optF udiff opsX (YEmbed.embC c) (YEmbed.embF F) (YEmbed.emb t1) (YEmbed.emb t2) = YModel.Ok ([], []).
Proof. exact YEmbed.models_agree_empty. Qed.
Print Assumptions C11_models_agree_empty.

Theorem C11_agreeing_oracle_exists :
  forall ops p xs ys,
  YEmbedCor.opsX_of ops (YEmbed.embP p) (map YEmbed.emb xs) (map YEmbed.emb ys) = map YEmbed.embO (ops p xs ys).
Proof. exact YEmbedCor.opsX_of_agree. Qed.
Print Assumptions C11_agreeing_oracle_exists.

(* an old-model theorem as a corollary of the extended model's: clause 3 *)
Theorem C11_never_raises_via_extended_model :
  forall udiff ops c F t1 t2, exists r, run_optF udiff ops c F t1 t2 = Ok r.
Proof. exact YEmbedCor.never_raises_via_extended. Qed.
Print Assumptions C11_never_raises_via_extended_model.

(** C17 - a DeepDiff result does not depend on caching, on a pre-seeded hashes
    table, on repetition.  Final statements only.

    The caching layer of an ignore-order run (DiffIO/MemoModel.v): a run is a
    program [prog] of memoised calls - [Call k body cont]: "look key k up in
    self._distance_cache; on a miss compute the value by [body] (which may make
    memoised calls itself: the nested DeepDiff that computes a distance) and store
    it; continue with [cont value]".  [run_cached sched p (mkM (empty cap) 0)]
    evaluates it with the LFU cache model of C18 of capacity [cap], where
    [sched n] is DISTANCE_CACHE_ENABLED at the n-th time the code reads it (the
    auto-tuner of cache_tuning_sample_size: an arbitrary schedule);
    [run_pure p] evaluates it without any cache (cache_size=0). *)
From Coq Require Import List ZArith NArith Bool.
Import ListNotations.
From DD Require Import Base.PyStr Base.Value Lfu.LfuModel Diff.DiffModel Hash.HashModel Hash.HashProofsC06 Hash.HashProofsMemo
  DiffIO.DiffIOModel DiffIO.MemoModel DiffIO.MemoProofs DiffIO.DiffIOProofsExt DiffIO.DiffIOCache DiffIO.DiffIOCacheProofs DiffIO.MemoKeys DiffIO.DiffIOOrder DiffIO.DiffIOMemoVerdict.

(* Full strength (every run) is false of the faithful model: when the same key is computed
   with two values the cached run returns something else.  deepdiff does exactly this: the
   distance cache key is symmetric in the two hashes, the rough distance is not (finding
   C17-K17, replayed on the implementation at every run). *)
Theorem C17_cache_transparent_refuted :
  run_pure two_faced = 12%Z /\
  fst (fst (run_cached (fun _ => true) two_faced (mkM (empty 5) 0))) = 11%Z /\
  forall spec, ~ consistent spec two_faced.
Proof. exact two_faced_refutes. Qed.
Print Assumptions C17_cache_transparent_refuted.

(* The theorem: for every capacity, every enable/disable schedule, every run in which the
   value computed for a key is a function of the key ([consistent]: holds when max_passes /
   max_diffs are not exhausted mid-run and no hash pair is needed in both orientations with
   different distances), the cached evaluation returns the cache-less result. *)
Theorem C17_cache_transparent_partial :
  forall (V : Type) (spec : key -> V) (p : prog V),
  consistent spec p ->
  forall (cap : nat) (sched : nat -> bool),
  fst (fst (run_cached sched p (mkM (empty cap) 0))) = run_pure p.
Proof. exact cache_transparent. Qed.
Print Assumptions C17_cache_transparent_partial.

(* ... from ANY cache whose entries are right (e.g. one left by an earlier part of the run),
   and the cache stays right: the invariant that makes the statement compositional *)
Theorem C17_cache_invariant_partial :
  forall (V : Type) (spec : key -> V) (sched : nat -> bool) (p : prog V) (s : mstate V),
  consistent spec p -> cache_ok spec (mcache s) ->
  fst (fst (run_cached sched p s)) = run_pure p /\ cache_ok spec (mcache (snd (fst (run_cached sched p s)))).
Proof. exact memo_transparent. Qed.
Print Assumptions C17_cache_invariant_partial.

(* cache_size x cache_tuning_sample_size: any two settings agree *)
Theorem C17_cache_settings_agree_partial :
  forall (V : Type) (spec : key -> V) (p : prog V),
  consistent spec p ->
  forall cap cap' sched sched',
  fst (fst (run_cached sched p (mkM (empty cap) 0))) = fst (fst (run_cached sched' p (mkM (empty cap') 0))).
Proof. exact cache_settings_agree. Qed.
Print Assumptions C17_cache_settings_agree_partial.

(* ... on the RESULT of the ignore-order diff (DiffIO/DiffIOModel.v): if the pairing of every
   level is the value of a program of memoised calls, evaluating those programs with the cache
   (any capacity, any schedule) gives the very result of the cache-less run *)
Theorem C17_result_cache_independent_partial :
  forall (H : pystr -> pystr) udiff skip excl c rep (V : Type) (spec : key -> V)
         (pp : path -> prog V) (dec : V -> list (nat * nat)),
  (forall p, consistent spec (pp p)) ->
  forall (cap : path -> nat) (sched : path -> nat -> bool) t1 t2,
  run_diff_io H udiff skip excl c rep
    (fun p => dec (fst (fst (run_cached (sched p) (pp p) (mkM (empty (cap p)) 0))))) t1 t2 =
  run_diff_io H udiff skip excl c rep (fun p => dec (run_pure (pp p))) t1 t2.
Proof. exact result_cache_independent. Qed.
Print Assumptions C17_result_cache_independent_partial.

(* ... with ONE cache threaded through the whole traversal, in the implementation's order
   (DiffIO/DiffIOCache.v: [diff_io_st]; the pairs of a level are "computed by a body or served from
   the cache" - [pp p] evaluated with the current cache state): any schedule, any right initial
   cache (in particular the empty one of any capacity) gives the result of the cache-less traversal
   [diff_io_o] with the pairs the bodies compute, and leaves a right cache behind.
   ([diff_io_o] lists the children of a dict in the order of t2's keys, as the code does; see the next theorem.) *)
Theorem C17_one_cache_transparent_partial :
  forall (H : pystr -> pystr) udiff skip excl c rep (V : Type) (spec : key -> V)
         (sched : nat -> bool) (pp : path -> prog V) (dec : path -> V -> list (nat * nat)),
  (forall p, consistent spec (pp p)) ->
  forall t1 t2 p1 p2 (s : mstate V), cache_ok spec (mcache s) ->
  fst (fst (diff_io_st H udiff skip excl c rep V sched pp dec t1 t2 p1 p2 s)) =
    diff_io_o H udiff skip excl c rep (fun p => dec p (run_pure (pp p))) t1 t2 p1 p2 /\
  cache_ok spec (mcache (snd (fst (diff_io_st H udiff skip excl c rep V sched pp dec t1 t2 p1 p2 s)))).
Proof. exact st_transparent. Qed.
Print Assumptions C17_one_cache_transparent_partial.

(* ... and against [diff_io] itself: the two traversals list the same entries (DiffIO/DiffIOOrder.v) *)
Theorem C17_one_cache_vs_diff_io_partial :
  forall (H : pystr -> pystr) udiff skip excl c rep (V : Type) (spec : key -> V)
         (sched : nat -> bool) (pp : path -> prog V) (dec : path -> V -> list (nat * nat)),
  (forall p, consistent spec (pp p)) ->
  forall t1 t2 p1 p2 (s : mstate V), cache_ok spec (mcache s) -> wf t1 = true -> wf t2 = true ->
  let r := fst (fst (diff_io_st H udiff skip excl c rep V sched pp dec t1 t2 p1 p2 s)) in
  let r' := diff_io H udiff skip excl c rep (fun p => dec p (run_pure (pp p))) t1 t2 p1 p2 in
  Permutation.Permutation (fst r) (fst r') /\ Permutation.Permutation (snd r) (snd r') /\
  cache_ok spec (mcache (snd (fst (diff_io_st H udiff skip excl c rep V sched pp dec t1 t2 p1 p2 s)))).
Proof. exact st_vs_diff_io. Qed.
Print Assumptions C17_one_cache_vs_diff_io_partial.

Theorem C17_one_cache_settings_agree_partial :
  forall (H : pystr -> pystr) udiff skip excl c rep (V : Type) (spec : key -> V)
         (pp : path -> prog V) (dec : path -> V -> list (nat * nat)),
  (forall p, consistent spec (pp p)) ->
  forall cap cap' sched sched' t1 t2,
  fst (fst (run_diff_io_st H udiff skip excl c rep V sched pp dec t1 t2 (mkM (empty cap) 0))) =
  fst (fst (run_diff_io_st H udiff skip excl c rep V sched' pp dec t1 t2 (mkM (empty cap') 0))).
Proof. exact st_settings_agree. Qed.
Print Assumptions C17_one_cache_settings_agree_partial.

(* Finding K17 is exactly the sorting of the key.  Let [dist added removed] be ANY function of the
   ordered pair of hashes (the rough distance of DeepDiff(removed, added)).
   With an oriented key - injective in the ordered pair, i.e. key1, key2 = added, removed without
   sorting - every program of distance calls is consistent by construction, hence transparent: *)
Theorem C17_oriented_key_consistent :
  forall (A V : Type) (okey : A -> A -> key) (inv : key -> option (A * A)),
  (forall a r, inv (okey a r) = Some (a, r)) ->
  forall (dist : A -> A -> V) (dflt : V) (p : prog V),
  dist_calls A V dist okey p ->
  consistent (spec_of_dist A V inv dist dflt) p /\
  forall cap sched, fst (fst (run_cached sched p (mkM (empty cap) 0))) = run_pure p.
Proof.
  intros A V okey inv Hinv dist dflt p Hp. split.
  - exact (oriented_key_consistent A V okey inv Hinv dist dflt p Hp).
  - apply (oriented_key_transparent A V okey inv Hinv dist dflt p Hp).
Qed.
Print Assumptions C17_oriented_key_consistent.

(* with the sorted key of diff.py:1153 ([skey]: the larger hash first) the same holds if the distance
   is symmetric ... *)
Theorem C17_sorted_key_consistent_if_symmetric :
  forall (A V : Type) (okey : A -> A -> key) (inv : key -> option (A * A)),
  (forall a r, inv (okey a r) = Some (a, r)) ->
  forall (dist : A -> A -> V) (dflt : V) (gt : A -> A -> bool),
  (forall a r, dist a r = dist r a) ->
  forall p, dist_calls A V dist (skey A okey gt) p -> consistent (spec_of_dist A V inv dist dflt) p.
Proof. exact sorted_key_consistent_if_symmetric. Qed.
Print Assumptions C17_sorted_key_consistent_if_symmetric.

(* ... and ONE asymmetric pair needed in both orientations refutes transparency: the second call is
   served the first orientation's distance *)
Theorem C17_sorted_key_refuted :
  forall (A V : Type) (okey : A -> A -> key) (dist : A -> A -> V) (gt : A -> A -> bool) (a r : A),
  gt a r = true -> gt r a = false -> dist a r <> dist r a ->
  dist_calls A V dist (skey A okey gt) (both_orientations A V okey dist gt a r) /\
  run_pure (both_orientations A V okey dist gt a r) = dist r a /\
  fst (fst (run_cached (fun _ => true) (both_orientations A V okey dist gt a r) (mkM (empty 2) 0))) = dist a r /\
  forall spec, ~ consistent spec (both_orientations A V okey dist gt a r).
Proof. exact sorted_key_refuted. Qed.
Print Assumptions C17_sorted_key_refuted.

(* cache_size = 0 (DummyLFU: the cache is never enabled) is the cache-less run, for every run *)
Theorem C17_cache_off_is_pure :
  forall (V : Type) (p : prog V) (s : mstate V),
  fst (fst (run_cached (fun _ => false) p s)) = run_pure p /\
  mcache (snd (fst (run_cached (fun _ => false) p s))) = mcache s.
Proof. exact never_enabled_is_pure. Qed.
Print Assumptions C17_cache_off_is_pure.

(* a previously used [hashes] table: the item hashes the ignore-order diff works with are the
   memo-free ones whatever consistent table is passed in (C06_memo_transparent at DeepDiff's
   hashing options), for values without ==-aliasing against the table *)
Theorem C17_preseeded_hashes_partial :
  forall (H : pystr -> pystr) (c : cfg) (rep : bool) (m : memo) (v : value),
  memo_ok H (io_opts c rep) m -> wf v = true -> alias_free_with m v = true ->
  fst (hash_memo H (io_opts c rep) v m) = hv H c rep v /\
  memo_ok H (io_opts c rep) (snd (hash_memo H (io_opts c rep) v m)).
Proof.
  intros H c rep m v Hok Wv Ha. apply HashProofsMemo.memo_transparent; auto.
Qed.
Print Assumptions C17_preseeded_hashes_partial.

(* the hypotheses are satisfiable by a run with nested calls, repeated keys and value-dependent continuations *)
Theorem C17_guards_satisfiable :
  consistent ex_spec ex_prog /\ run_pure ex_prog = 23%Z /\
  snd (run_cached (fun _ => true) ex_prog (mkM (empty 1) 0)) <> [].
Proof. exact ex_consistent. Qed.
Print Assumptions C17_guards_satisfiable.

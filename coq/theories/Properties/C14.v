(** C14 - a persisted delta behaves identically to the original.
    Final statements only; proofs in Pickle/CodecProofs.v and Pickle/JsonProofs.v;
    models in Pickle/Vm.v (the restricted unpickler) and Pickle/Codec.v
    (payload vocabulary, canonical pickle encoding, JSON conversion). *)
From Coq Require Import List ZArith NArith Bool.
Import ListNotations.
From DD Require Import Base.PyStr Base.Value Pickle.Vm Pickle.Codec Pickle.PickleProofs Pickle.CodecProofs Pickle.JsonProofs
  Pickle.Encodes Pickle.EncodesProofs Path.PathModel Delta.DeltaModel Pickle.DeltaCodec Pickle.DeltaCodecProofs Pickle.JsonDeltaProofs.

(* pickle_load(dump of d) = d for EVERY well-formed payload d (any nesting, every
   category's vocabulary: values, type objects, NoneType, sets, frozensets, tuples,
   index maps, Opcode records, SetOrdered), in every process that resolves the
   class objects d mentions and whose Opcode / SetOrdered constructors accept
   their arguments *)
Theorem C14_pickle_roundtrip : forall (w : world) (d : pv),
  calls_ok w -> types_ok w d -> wfp d = true -> load w (enc_prog d) = Some d.
Proof. exact pickle_roundtrip. Qed.
Print Assumptions C14_pickle_roundtrip.

(* not only the canonical dump: EVERY encoding in the syntactic class [accepts]
   (any opcode variants, single or batched container filling in any number of
   batches, MEMOIZE / BINPUT / PUT after any object, BINGET of any completed memoized
   object - strings, numbers, classes, tuples, frozensets, and lists / dicts / sets /
   Opcode / SetOrdered reachable twice: CPython's scheme; not: a container fetched
   while it is still being filled, i.e. recursive data) loads to the payload it encodes *)
Theorem C14_accepted_encodings_roundtrip : forall (w : world) (prog : list op) (d : pv),
  calls_ok w -> types_ok w d -> wfp d = true -> accepts prog d = true -> load w prog = Some d.
Proof. exact accepts_sound. Qed.
Print Assumptions C14_accepted_encodings_roundtrip.

(* the behaviour of a Delta is a function of its payload (flags travel in the
   payload or are constructor arguments): the reloaded delta does the same *)
Theorem C14_same_behaviour : forall (B : Type) (behaviour : pv -> B) (w : world) (d : pv),
  calls_ok w -> types_ok w d -> wfp d = true ->
  option_map behaviour (load w (enc_prog d)) = Some (behaviour d).
Proof. exact same_behaviour. Qed.
Print Assumptions C14_same_behaviour.

(* THE statement of the property, on the model of Delta application (Delta/DeltaModel.v, tied to
   delta.py by C01/C08's correspondence): a delta d of the application model, persisted as the
   payload Delta.diff holds (pv_of_delta: path strings, type objects, Opcode records ...), dumped
   and reloaded (pickle_load, then the payload read back with the model of deepdiff's path parser)
   is the same delta - so t + reloaded = t + d and t - reloaded = t - d on EVERY base, for every
   conversion / ordering oracle.  Hypotheses: the process resolves the payload's classes, the
   payload is a well-formed dict (distinct paths per category), and every path prints and parses
   back (delta_ok: the C09 guard path_ok on normalised paths) *)
Theorem C14_reloaded_delta_same_result :
  forall conv rem_order add_order (w : world) (d : delta),
  calls_ok w -> types_ok w (pv_of_delta d) -> wfp (pv_of_delta d) = true -> delta_ok d ->
  exists d', reload w (d_bidir d) (enc_prog (pv_of_delta d)) = Some d' /\
    (forall base, apply conv rem_order add_order d' base = apply conv rem_order add_order d base) /\
    (forall base, sub conv rem_order add_order d' base = sub conv rem_order add_order d base).
Proof. intros conv ro ao. exact (reloaded_same_result conv ro ao). Qed.
Print Assumptions C14_reloaded_delta_same_result.

(* the same for every dump in the encoding class accepts *)
Theorem C14_reloaded_delta_same_result_accepted :
  forall conv rem_order add_order (w : world) (prog : list op) (d : delta),
  calls_ok w -> types_ok w (pv_of_delta d) -> wfp (pv_of_delta d) = true -> delta_ok d ->
  accepts prog (pv_of_delta d) = true ->
  exists d', reload w (d_bidir d) prog = Some d' /\
    (forall base, apply conv rem_order add_order d' base = apply conv rem_order add_order d base) /\
    (forall base, sub conv rem_order add_order d' base = sub conv rem_order add_order d base).
Proof. exact reloaded_same_result_accepted. Qed.
Print Assumptions C14_reloaded_delta_same_result_accepted.

(* dumping the reloaded delta again gives the same dump, which loads to the same payload *)
Theorem C14_redump_equivalent : forall (w : world) (d d' : pv),
  calls_ok w -> types_ok w d -> wfp d = true ->
  load w (enc_prog d) = Some d' -> enc_prog d' = enc_prog d /\ load w (enc_prog d') = Some d.
Proof. exact redump_same. Qed.
Print Assumptions C14_redump_equivalent.

(* JSON, full strength (every payload json_dumps accepts comes back equal): FALSE *)
Theorem C14_json_roundtrip_refuted :
  exists d d', wfp d = true /\ json_roundtrip d = Some d' /\ d' <> d.
Proof. exact json_roundtrip_refuted. Qed.
Print Assumptions C14_json_roundtrip_refuted.

(* K12 (fixed in deepdiff c7b983b): a delta with iterable opcodes survives the JSON round trip
   (the Opcode records travel as arrays and are rebuilt positionally); it lies inside json_ok *)
Theorem C14_json_opcode_roundtrip : json_ok opcode_payload = true /\ json_roundtrip opcode_payload = Some opcode_payload.
Proof. split; [exact json_opcode_payload_ok | exact json_opcode_roundtrip]. Qed.
Print Assumptions C14_json_opcode_roundtrip.

(* a type change from / to None comes back with the value None in place of NoneType *)
Theorem C14_json_nonetype_refuted :
  exists d d', wfp d = true /\ json_roundtrip d = Some d' /\ d' <> d.
Proof. exact json_nonetype_refuted. Qed.
Print Assumptions C14_json_nonetype_refuted.

(* on the JSON-representable fragment (string keys, lists, None/bool/int/float/str, builtin
   classes under old_type/new_type, Opcode records with such value lists under _iterable_opcodes)
   the JSON round trip is the identity *)
Theorem C14_json_roundtrip_partial : forall d : pv, json_ok d = true -> json_roundtrip d = Some d.
Proof. exact json_roundtrip_partial. Qed.
Print Assumptions C14_json_roundtrip_partial.

(* JSON and set items.  json_dumps writes the sets of set_item_added / set_item_removed as arrays and
   nothing turns them back: the reloaded payload is [setlist d] - d with exactly those sets replaced
   by the lists of their members (in the set's iteration order), everything else equal - and a second
   trip changes nothing more.  _partial: only for payloads whose [setlist] lies in the JSON fragment
   json_ok (string keys, None/bool/int/float/str, lists, builtin classes under old_type/new_type,
   Opcode records; no tuples, bytes, frozensets as values, NoneType) *)
Theorem C14_json_set_items_roundtrip_partial : forall d : pv, json_ok (setlist d) = true ->
  json_roundtrip d = Some (setlist d) /\ json_roundtrip (setlist d) = Some (setlist d).
Proof. exact json_roundtrip_sets. Qed.
Print Assumptions C14_json_set_items_roundtrip_partial.

(* for the Delta application model the payload with lists is the same delta (unconditionally) ... *)
Theorem C14_setlist_same_delta : forall (b : bool) (p : pv), delta_of_pv b (setlist p) = delta_of_pv b p.
Proof. exact delta_of_pv_setlist. Qed.
Print Assumptions C14_setlist_same_delta.

(* ... so the JSON-persisted delta gives the same result (value and error count) on EVERY base, for +
   and for the bidirectional -, and so does the delta persisted a second time.  _partial: same
   fragment as above, ordered-mode categories (delta_of_pv) *)
Theorem C14_json_reloaded_same_result_partial :
  forall conv rem_order add_order (b : bool) (p : pv) (d : delta),
  json_ok (setlist p) = true -> delta_of_pv b p = Some d ->
  exists p', json_roundtrip p = Some p' /\ p' = setlist p /\ json_roundtrip p' = Some p' /\
    exists d', delta_of_pv b p' = Some d' /\
      (forall base, apply conv rem_order add_order d' base = apply conv rem_order add_order d base) /\
      (forall base, sub conv rem_order add_order d' base = sub conv rem_order add_order d base).
Proof. exact json_reloaded_same_result. Qed.
Print Assumptions C14_json_reloaded_same_result_partial.

(** * On the BYTES of the dump (Pickle/Bytes.v) *)
From DD Require Import Pickle.Bytes Pickle.BytesProofs Pickle.BytesDeltaProofs.

(* the canonical dump as a byte string - protocol 4, one frame - is read by the C unpickler's byte layer
   (opcode bytes, little-endian counts, UTF-8, two's complement LONG1, IEEE doubles, the frame buffer) into
   exactly the opcodes it stands for, without skipping a byte, whatever follows it *)
Theorem C14_bytes_dump_decodes : forall (t : textw) (v : pv) junk, dump_ok v = true ->
  bdecode (c_dialect t) (dump_bytes v ++ junk) = (dump_prog v, DStop, false).
Proof. exact bdecode_dump. Qed.
Print Assumptions C14_bytes_dump_decodes.

(* pickle_load(dump bytes) = the payload *)
Theorem C14_bytes_pickle_roundtrip : forall (w : world) (t : textw) (v : pv) junk,
  calls_ok w -> types_ok w v -> wfp v = true -> dump_ok v = true ->
  load_bytes w (c_dialect t) (dump_bytes v ++ junk) = Some v.
Proof. exact load_bytes_dump. Qed.
Print Assumptions C14_bytes_pickle_roundtrip.

(* the property on bytes: the delta read back from the bytes of its dump - also when the dump is followed by
   other bytes in the file - gives the same result as the original on EVERY base *)
Theorem C14_bytes_reloaded_delta_same_result :
  forall conv rem_order add_order (w : world) (t : textw) (d : delta) junk,
  calls_ok w -> types_ok w (pv_of_delta d) -> wfp (pv_of_delta d) = true -> delta_ok d ->
  dump_ok (pv_of_delta d) = true ->
  exists d', reload_bytes w (c_dialect t) (d_bidir d) (dump_bytes (pv_of_delta d) ++ junk) = Some d' /\
    (forall base, apply conv rem_order add_order d' base = apply conv rem_order add_order d base) /\
    (forall base, sub conv rem_order add_order d' base = sub conv rem_order add_order d base).
Proof. intros conv ro ao. exact (reloaded_bytes_same_result conv ro ao). Qed.
Print Assumptions C14_bytes_reloaded_delta_same_result.

(* one clause of dump_ok in closed form: every half-integer float below 2^53 in magnitude survives its 8 bytes *)
Theorem C14_bytes_half_floats_roundtrip : forall t : Z, (Z.abs t < 2 ^ 53)%Z ->
  (bits_of_half t < 2 ^ 64)%N /\ fl_of_bits (bits_of_half t) = FHalf t.
Proof. exact fl_of_bits_of_half. Qed.
Print Assumptions C14_bytes_half_floats_roundtrip.

(** * Deltas built with ignore_order=True: the index maps (Pickle/DeltaIOCodec.v, Delta/DeltaIO.v) *)
From DD Require Import Delta.DeltaIO Pickle.DeltaIOCodec Pickle.DeltaIOCodecProofs.

(* the payload with iterable_items_added_at_indexes / iterable_items_removed_at_indexes, written from a delta of the
   ignore-order application model and read back, is that delta *)
Theorem C14_ignore_order_payload_roundtrip : forall d : delta_io, delta_io_ok d ->
  delta_io_of_pv (d_bidir (io_base d)) (pv_of_delta_io d) = Some d.
Proof. exact delta_io_of_pv_of_delta_io. Qed.
Print Assumptions C14_ignore_order_payload_roundtrip.

(* the property for them: dumped (canonically / by any accepted encoding / as bytes followed by anything), loaded and
   read back, the delta gives the same result of Delta.__add__ (DeltaIO.apply_io: _do_ignore_order included) on
   EVERY base, for every hasher, conversion and ordering oracle *)
Theorem C14_ignore_order_reloaded_same_result :
  forall H conv rem_order add_order (w : world) (d : delta_io),
  calls_ok w -> types_ok w (pv_of_delta_io d) -> wfp (pv_of_delta_io d) = true -> delta_io_ok d ->
  exists d', reload_io w (d_bidir (io_base d)) (enc_prog (pv_of_delta_io d)) = Some d' /\
    (forall base, apply_io H conv rem_order add_order d' base = apply_io H conv rem_order add_order d base).
Proof. intros H conv ro ao. exact (reloaded_io_same_result H conv ro ao). Qed.
Print Assumptions C14_ignore_order_reloaded_same_result.

Theorem C14_ignore_order_reloaded_same_result_accepted :
  forall H conv rem_order add_order (w : world) (prog : list op) (d : delta_io),
  calls_ok w -> types_ok w (pv_of_delta_io d) -> wfp (pv_of_delta_io d) = true -> delta_io_ok d ->
  accepts prog (pv_of_delta_io d) = true ->
  exists d', reload_io w (d_bidir (io_base d)) prog = Some d' /\
    (forall base, apply_io H conv rem_order add_order d' base = apply_io H conv rem_order add_order d base).
Proof. intros H conv ro ao. exact (reloaded_io_same_result_accepted H conv ro ao). Qed.
Print Assumptions C14_ignore_order_reloaded_same_result_accepted.

Theorem C14_ignore_order_bytes_reloaded_same_result :
  forall H conv rem_order add_order (w : world) (t : textw) (d : delta_io) junk,
  calls_ok w -> types_ok w (pv_of_delta_io d) -> wfp (pv_of_delta_io d) = true -> delta_io_ok d ->
  dump_ok (pv_of_delta_io d) = true ->
  exists d', reload_io_bytes w (c_dialect t) (d_bidir (io_base d)) (dump_bytes (pv_of_delta_io d) ++ junk) = Some d' /\
    (forall base, apply_io H conv rem_order add_order d' base = apply_io H conv rem_order add_order d base).
Proof. intros H conv ro ao. exact (reloaded_io_bytes_same_result H conv ro ao). Qed.
Print Assumptions C14_ignore_order_bytes_reloaded_same_result.

(** * The JSON path: the exact effect of finding C14-JSON-NONETYPE (Pickle/JsonNoneProofs.v) *)
From DD Require Import Pickle.JsonProofs Pickle.JsonNoneProofs.

(* on the JSON-representable fragment extended with NoneType at old_type / new_type, the JSON-persisted delta
   carries [jimg d]: d with exactly those NoneType entries replaced by the value None, nothing else changed *)
Theorem C14_json_nonetype_exact : forall d : pv, json_okN d = true -> json_roundtrip d = Some (jimg d).
Proof. exact json_roundtrip_nonetype. Qed.
Print Assumptions C14_json_nonetype_exact.

(* hence, there, the payload comes back equal IF AND ONLY IF no type change involves None *)
Theorem C14_json_identity_iff_no_nonetype : forall d : pv, json_okN d = true ->
  (json_roundtrip d = Some d <-> has_nonetype d = false).
Proof. exact json_roundtrip_identity_iff. Qed.
Print Assumptions C14_json_identity_iff_no_nonetype.

(* the extended fragment contains the opcode-free fragment of C14_json_roundtrip_partial, where there is no such entry *)
Theorem C14_json_fragment_inside_extended : forall d : pv, json_ok_plain d = true -> json_okN d = true /\ has_nonetype d = false.
Proof. exact json_ok_plain_okN. Qed.
Print Assumptions C14_json_fragment_inside_extended.

(* dump_ok in closed form: conditions on the leaves (strings are code points with fewer than 2^32 UTF-8 bytes, ints fit
   LONG1, half-integer floats are below 2^53, other floats are canonical bit patterns, bytes shorter than 2^32) and on
   the total length *)
From DD Require Import Pickle.DumpOkProofs.
Theorem C14_bytes_dump_ok_closed_form : forall v : pv,
  leaves_ok v = true -> (len (dump_body v) <? 2 ^ 63)%N = true -> dump_ok v = true.
Proof. exact dump_ok_closed_form. Qed.
Print Assumptions C14_bytes_dump_ok_closed_form.

(** * The pickler side: the persistent id of the class type(None) (Pickle/PicklerHook.v; after seeded C14-10) *)
From DD Require Import Pickle.PicklerHook Pickle.PicklerHookProofs.

(* _RestrictedPickler.persistent_id claims the class type(None), under the id "<<NoneType>>", and nothing else *)
Theorem C14_persistent_id_only_nonetype : forall (v : pv) (pid : pystr),
  persistent_id v = Some pid <-> v = PNoneType /\ pid = NONE_TYPE_PID.
Proof. exact persistent_id_only_nonetype. Qed.
Print Assumptions C14_persistent_id_only_nonetype.

(* pickle_dump - the pickler that asks this hook first for EVERY object, as CPython's save() does - writes exactly the
   canonical encoding the theorems above are about: they are theorems about pickle_dump *)
Theorem C14_pickle_dump_is_canonical_encoding : forall v : pv, pickle_dump v = enc_prog v.
Proof. exact pickle_dump_is_enc_prog. Qed.
Print Assumptions C14_pickle_dump_is_canonical_encoding.

(* dump, then load, is the identity on every payload that holds the class type(None) ANYWHERE - as a plain value of an
   added / removed item, as new_value / old_value, inside a list, tuple, dict value, Opcode value list or SetOrdered at
   any depth, with or without a type_changes report next to it (no hypothesis on which categories the payload has) *)
Theorem C14_nonetype_anywhere_roundtrip : forall (w : world) (d : pv),
  calls_ok w -> types_ok w d -> wfp d = true -> mentions_nonetype d = true ->
  load w (pickle_dump d) = Some d.
Proof. exact nonetype_anywhere_roundtrip. Qed.
Print Assumptions C14_nonetype_anywhere_roundtrip.

(* the same, position by position: [plug c PNoneType] = the class in the hole of the one-hole payload c; the positions
   are all there are (every payload that mentions the class is such a plug), and the class asks nothing of the
   allow-list: the payload needs the same class objects as with the value None in its place *)
Theorem C14_nonetype_at_any_position_roundtrip : forall (w : world) (c : pctx),
  calls_ok w -> types_ok w (plug c PNoneType) -> wfp (plug c PNoneType) = true ->
  load w (pickle_dump (plug c PNoneType)) = Some (plug c PNoneType).
Proof. exact nonetype_at_any_position_roundtrip. Qed.
Print Assumptions C14_nonetype_at_any_position_roundtrip.

Theorem C14_nonetype_positions_complete : forall v : pv,
  mentions_nonetype v = true <-> exists c, v = plug c PNoneType.
Proof. intro v. split; [apply mentions_is_plug | intros [c ->]; apply mentions_plug]. Qed.
Print Assumptions C14_nonetype_positions_complete.

Theorem C14_nonetype_needs_no_allow_list_entry : forall c : pctx,
  types_of (plug c PNoneType) = types_of (plug c (PAtom ANone)).
Proof. exact types_of_plug_nonetype. Qed.
Print Assumptions C14_nonetype_needs_no_allow_list_entry.

(* a pickler WITHOUT the hook (pickle.Pickler) writes the very same dump as long as the class does not occur ... *)
Theorem C14_plain_pickler_same_dump : forall v : pv, mentions_nonetype v = false -> dump_with no_hook v = pickle_dump v.
Proof. exact plain_pickler_same_dump. Qed.
Print Assumptions C14_plain_pickler_same_dump.

(* ... and, when it occurs anywhere, a dump (the class by reduction: builtins.type applied to (None,)) that the restricted
   unpickler refuses with ForbiddenModule builtins.type, in every process whose allow-list lacks builtins.type: the
   choice of the pickler must not depend on which report categories the payload has *)
Theorem C14_plain_pickler_dump_refused : forall (w : world) (d : pv),
  ~ allowed w BUILTINS_ TYPE_ -> calls_ok w -> types_ok w d -> wfp d = true -> mentions_nonetype d = true ->
  fst (vm_run w (dump_with no_hook d)) = Err (Forbidden BUILTINS_ TYPE_) /\ load w (dump_with no_hook d) = None.
Proof. intros w d Hna Hco. exact (plain_pickler_dump_refused w Hna Hco d). Qed.
Print Assumptions C14_plain_pickler_dump_refused.

Theorem C14_plain_pickler_loads_iff : forall (w : world) (d : pv),
  ~ allowed w BUILTINS_ TYPE_ -> calls_ok w -> types_ok w d -> wfp d = true ->
  (load w (dump_with no_hook d) = Some d <-> mentions_nonetype d = false).
Proof. intros w d Hna Hco. exact (plain_pickler_loads_iff w Hna Hco d). Qed.
Print Assumptions C14_plain_pickler_loads_iff.

(* the hypothesis holds of the default process (the built-in allow-list does not name builtins.type) *)
Theorem C14_default_process_forbids_builtins_type : ~ allowed default_world BUILTINS_ TYPE_.
Proof. exact default_forbids_type. Qed.
Print Assumptions C14_default_process_forbids_builtins_type.

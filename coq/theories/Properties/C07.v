(** C07 - DeepHash: different content hashes differently.  Final statements only.

    [H] is the hasher; [H_tok] (outputs non-empty and free of , ; : | { }) and
    [H_inj] (injective) are hypotheses of the theorems - they stand for
    SHA-256 hexdigest being collision-free - not axioms. *)
From Coq Require Import List ZArith NArith Bool String.
Import ListNotations.
From DD Require Import Base.PyStr Base.Value Hash.HashModel Hash.Equiv
  Hash.HashProofsBase Hash.HashProofsC06 Hash.HashProofsC07 Hash.HashProofsMemo Hash.HashProofsK2 Hash.HexHash.

(* Full strength (all plain option records in the property's three modes, all
   values) is false of the faithful model: K1 and K4 below. *)

(* K1: a str that spells a serialisation shares the hash of the value it spells (any hasher). *)
Theorem C07_str_vs_tagged_refuted : forall H : pystr -> pystr,
  hash_pure H default_opts (VAtom (AStr (s2p "NONE"))) = hash_pure H default_opts (VAtom ANone) /\
  hash_pure H default_opts (VAtom (AStr (s2p "int:1"))) = hash_pure H default_opts (VAtom (AInt 1)) /\
  hash_pure H default_opts (VAtom (AStr (s2p "bool:true"))) = hash_pure H default_opts (VAtom (ABool true)) /\
  hash_pure H default_opts (VAtom (AStr (s2p "float:1.5"))) = hash_pure H default_opts (VAtom (AHalf 3)) /\
  hash_pure H default_opts (VAtom (AStr (s2p "list:"))) = hash_pure H default_opts (VList []) /\
  hash_pure H default_opts (VAtom (AStr (s2p "dict:{}"))) = hash_pure H default_opts (VDict []) /\
  (forall o a, ~ eqv o (VAtom (AStr a)) (VAtom ANone)) /\
  (forall o a xs, ~ eqv o (VAtom (AStr a)) (VList xs)).
Proof. exact str_vs_tagged_refuted. Qed.
Print Assumptions C07_str_vs_tagged_refuted.

Theorem C07_str_vs_list_refuted : forall H : pystr -> pystr,
  hash_pure H default_opts (VAtom (AStr (s2p "list:" ++ hash_pure H default_opts (VAtom (AInt 1))))) =
  hash_pure H default_opts (VList [VAtom (AInt 1)]).
Proof. exact str_vs_list_refuted. Qed.
Print Assumptions C07_str_vs_list_refuted.

(* K4: ordered mode (ignore_iterable_order=False, ignore_repetition=False) loses positions of repeated items. *)
Theorem C07_ordered_repetition_refuted :
  hash_pure hexhash ordered_mode (VList [VAtom (AInt 1); VAtom (AInt 2); VAtom (AInt 1)]) =
  hash_pure hexhash ordered_mode (VList [VAtom (AInt 1); VAtom (AInt 1); VAtom (AInt 2)]) /\
  ~ eqv ordered_mode (VList [VAtom (AInt 1); VAtom (AInt 2); VAtom (AInt 1)])
                     (VList [VAtom (AInt 1); VAtom (AInt 1); VAtom (AInt 2)]).
Proof. exact ordered_repetition_refuted. Qed.
Print Assumptions C07_ordered_repetition_refuted.

Theorem C07_ordered_repetition_any_hasher_refuted : forall H : pystr -> pystr,
  hash_pure H ordered_mode (VList [VAtom (AInt 1); VAtom (AInt 2); VAtom (AInt 1)]) =
  hash_pure H ordered_mode (VList [VAtom (AInt 1); VAtom (AInt 1); VAtom (AInt 2)]).
Proof. exact ordered_repetition_refuted_any. Qed.
Print Assumptions C07_ordered_repetition_any_hasher_refuted.

(* The theorem: nested-set mode and nested-multiset mode, all tag-safe well-formed values. *)
Theorem C07_hash_inj_partial :
  forall (H : pystr -> pystr),
  (forall s, s <> [] -> sepfree (H s)) -> (forall s t, H s = H t -> s = t) ->
  forall o a b,
  plain o = true -> ignore_iterable_order o = true ->
  tag_safe a = true -> tag_safe b = true -> wf a = true -> wf b = true ->
  hash_pure H o a = hash_pure H o b -> eqv o a b.
Proof.
  intros H H_tok H_inj o a b Hp Hio Ta Tb Wa Wb He.
  apply (hash_inj H H_tok H_inj o Hp); auto.
  - unfold std_mode. rewrite Hio. reflexivity.
  - unfold mode_guard. rewrite Hio. reflexivity.
  - unfold mode_guard. rewrite Hio. reflexivity.
Qed.
Print Assumptions C07_hash_inj_partial.

(* Ordered mode: additionally no list / tuple may hold two items with equal hashes (guard forced by K4). *)
Theorem C07_hash_inj_ordered_partial :
  forall (H : pystr -> pystr),
  (forall s, s <> [] -> sepfree (H s)) -> (forall s t, H s = H t -> s = t) ->
  forall o a b,
  plain o = true -> ignore_iterable_order o = false -> ignore_repetition o = false ->
  tag_safe a = true -> tag_safe b = true -> wf a = true -> wf b = true ->
  distinct_items H o a = true -> distinct_items H o b = true ->
  hash_pure H o a = hash_pure H o b -> eqv o a b.
Proof.
  intros H H_tok H_inj o a b Hp Hio Hir Ta Tb Wa Wb Da Db He.
  apply (hash_inj H H_tok H_inj o Hp); auto.
  - unfold std_mode. rewrite Hir. apply orb_true_r.
  - unfold mode_guard. rewrite Da. apply orb_true_r.
  - unfold mode_guard. rewrite Db. apply orb_true_r.
Qed.
Print Assumptions C07_hash_inj_ordered_partial.

(* "values of different types, a container and a scalar, a string and a non-string never share a hash" *)
Theorem C07_types_differ_partial :
  forall (H : pystr -> pystr),
  (forall s, s <> [] -> sepfree (H s)) -> (forall s t, H s = H t -> s = t) ->
  forall o a b,
  plain o = true -> std_mode o = true ->
  tag_safe a = true -> tag_safe b = true -> wf a = true -> wf b = true ->
  mode_guard H o a = true -> mode_guard H o b = true ->
  type_of a <> type_of b -> hash_pure H o a <> hash_pure H o b.
Proof. exact types_differ_hash_differ. Qed.
Print Assumptions C07_types_differ_partial.

(* On the observable DeepHash(v)[v] the [hashes] table adds collisions (K2) ... *)
Theorem C07_memo_refuted :
  let a := VList [VAtom (AInt 1); VAtom (AHalf 2)] in
  let b := VList [VAtom (AInt 1)] in
  deephash hexhash default_opts a = deephash hexhash default_opts b /\ ~ eqv default_opts a b.
Proof. exact memo_collision_refuted. Qed.
Print Assumptions C07_memo_refuted.

(* ... and none when no two ==-but-not-identical atoms co-occur inside a value. *)
Theorem C07_deephash_inj_partial :
  forall (H : pystr -> pystr),
  (forall s, s <> [] -> sepfree (H s)) -> (forall s t, H s = H t -> s = t) ->
  forall o a b,
  plain o = true -> ignore_iterable_order o = true ->
  tag_safe a = true -> tag_safe b = true -> wf a = true -> wf b = true ->
  alias_free a = true -> alias_free b = true ->
  deephash H o a = deephash H o b -> eqv o a b.
Proof.
  intros H H_tok H_inj o a b Hp Hio Ta Tb Wa Wb Aa Ab He.
  rewrite !deephash_pure in He; auto; try (unfold order_ok; rewrite Hio; reflexivity).
  eapply C07_hash_inj_partial; eauto.
Qed.
Print Assumptions C07_deephash_inj_partial.

(* K2 as a collision, for every hasher whatsoever *)
Theorem C07_memo_any_hasher_refuted : forall H : pystr -> pystr,
  deephash H default_opts (VList [VAtom (AInt 1); VAtom (AHalf 2)]) =
  deephash H default_opts (VList [VAtom (AInt 1)]).
Proof. exact memo_collision_any. Qed.
Print Assumptions C07_memo_any_hasher_refuted.

(* The hasher the correspondence check runs - hex of the UTF-8 encoding - satisfies the hypotheses on strings of
   code points below 0x110000 ... *)
Theorem C07_hexhash_satisfies_hypotheses :
  (forall s, str_ok s -> s <> [] -> sepfree (hexhash s)) /\
  (forall s t, str_ok s -> str_ok t -> hexhash s = hexhash t -> s = t) /\
  (forall o v, val_okb v = true -> str_ok (ser hexhash o v)).
Proof.
  split; [exact hexhash_tok|split; [exact hexhash_inj|]].
  intros o v Hv. apply (hexhash_total_agrees o v Hv).
Qed.
Print Assumptions C07_hexhash_satisfies_hypotheses.

(* ... so for that hasher the theorems hold with NO hypothesis on the hasher ([val_okb]: every str / bytes of the
   value consists of code points below 0x110000 - true of every Python str). *)
Theorem C07_hash_inj_hexhash_partial :
  forall o a b,
  plain o = true -> ignore_iterable_order o = true ->
  tag_safe a = true -> tag_safe b = true -> wf a = true -> wf b = true ->
  val_okb a = true -> val_okb b = true ->
  hash_pure hexhash o a = hash_pure hexhash o b -> eqv o a b.
Proof.
  intros o a b Hp Hio Ta Tb Wa Wb Va Vb He.
  apply (hash_inj_hexhash o a b Hp); auto.
  - unfold std_mode. rewrite Hio. reflexivity.
  - unfold mode_guard. rewrite Hio. reflexivity.
  - unfold mode_guard. rewrite Hio. reflexivity.
Qed.
Print Assumptions C07_hash_inj_hexhash_partial.

Theorem C07_hash_inj_ordered_hexhash_partial :
  forall o a b,
  plain o = true -> ignore_iterable_order o = false -> ignore_repetition o = false ->
  tag_safe a = true -> tag_safe b = true -> wf a = true -> wf b = true ->
  val_okb a = true -> val_okb b = true ->
  distinct_items hexhash o a = true -> distinct_items hexhash o b = true ->
  hash_pure hexhash o a = hash_pure hexhash o b -> eqv o a b.
Proof.
  intros o a b Hp Hio Hir Ta Tb Wa Wb Va Vb Da Db He.
  apply (hash_inj_hexhash o a b Hp); auto.
  - unfold std_mode. rewrite Hir. apply orb_true_r.
  - unfold mode_guard. rewrite Da. apply orb_true_r.
  - unfold mode_guard. rewrite Db. apply orb_true_r.
Qed.
Print Assumptions C07_hash_inj_ordered_hexhash_partial.

Theorem C07_deephash_inj_hexhash_partial :
  forall o a b,
  plain o = true -> ignore_iterable_order o = true ->
  tag_safe a = true -> tag_safe b = true -> wf a = true -> wf b = true ->
  val_okb a = true -> val_okb b = true ->
  alias_free a = true -> alias_free b = true ->
  deephash hexhash o a = deephash hexhash o b -> eqv o a b.
Proof.
  intros o a b Hp Hio Ta Tb Wa Wb Va Vb Aa Ab He.
  rewrite !deephash_pure in He; auto; try (unfold order_ok; rewrite Hio; reflexivity).
  eapply C07_hash_inj_hexhash_partial; eauto.
Qed.
Print Assumptions C07_deephash_inj_hexhash_partial.

(* the guards are satisfiable by a non-trivial value; the hypotheses on H by a concrete hasher *)
Theorem C07_guards_satisfiable :
  (let v := VList [VDict [(AStr (s2p "a"), VTuple [VAtom (AInt 1); VAtom (AHalf 2); VAtom (ABool true)]);
                          (AInt 1, VSet [ANone; AStr (s2p "x y")])];
                   VAtom (ABytes (s2p "a")); VList []] in
   tag_safe v = true /\ wf v = true /\ mode_guard hexhash ordered_mode v = true /\
   mode_guard hexhash set_mode (VList [v; v]) = true) /\
  (forall s, s <> [] -> sepfree (unary_hash s)) /\ (forall s t, unary_hash s = unary_hash t -> s = t).
Proof. split; [exact guards_example|split; [exact unary_hash_tok|exact unary_hash_inj]]. Qed.
Print Assumptions C07_guards_satisfiable.

(** C07 - DeepHash: different content hashes differently.  Final statements only.

    [H] is the hasher; [H_tok] (outputs non-empty and free of , ; : | { }) and
    [H_inj] (injective) are hypotheses of the theorems - they stand for
    SHA-256 hexdigest being collision-free - not axioms. *)
From Coq Require Import List ZArith NArith Bool String.
Import ListNotations.
From DD Require Import Base.PyStr Base.Value Hash.HashModel Hash.Equiv
  Hash.HashProofsBase Hash.HashProofsC06 Hash.HashProofsC07 Hash.HashProofsMemo Hash.HashProofsK2 Hash.HexHash
  Hash.HashAlike Hash.HashProofsAlike Hash.HashXModel Hash.HashProofsAlikeG Hash.HashXProofsInj Hash.HashXLeaves Hash.HashKeys Hash.HashKeysProofs Hash.HashXLeavesDelta.

(* Full strength (all plain option records in the property's three modes, all
   values) is false of the faithful model: K1 and K4 below. *)

(* K1: a str that spells a serialisation shares the hash of the value it spells (any hasher). *)
Theorem C07_str_vs_tagged_refuted : forall H : pystr -> pystr,
  hash_pure H default_opts (VAtom (AStr (s2p "NONE"))) = hash_pure H default_opts (VAtom ANone) /\
  hash_pure H default_opts (VAtom (AStr (s2p "int:1"))) = hash_pure H default_opts (VAtom (AInt 1)) /\
  hash_pure H default_opts (VAtom (AStr (s2p "bool:true"))) = hash_pure H default_opts (VAtom (ABool true)) /\
  hash_pure H default_opts (VAtom (AStr (s2p "float:1.5"))) = hash_pure H default_opts (VAtom (AHalf 3)) /\
  hash_pure H default_opts (VAtom (AStr (s2p "list:"))) = hash_pure H default_opts (VList []) /\
  hash_pure H default_opts (VAtom (AStr (s2p "dict:{}"))) = hash_pure H default_opts (VDict []) /\
  (forall o a, ~ eqv o (VAtom (AStr a)) (VAtom ANone)) /\
  (forall o a xs, ~ eqv o (VAtom (AStr a)) (VList xs)).
Proof. exact str_vs_tagged_refuted. Qed.
Print Assumptions C07_str_vs_tagged_refuted.

Theorem C07_str_vs_list_refuted : forall H : pystr -> pystr,
  hash_pure H default_opts (VAtom (AStr (s2p "list:" ++ hash_pure H default_opts (VAtom (AInt 1))))) =
  hash_pure H default_opts (VList [VAtom (AInt 1)]).
Proof. exact str_vs_list_refuted. Qed.
Print Assumptions C07_str_vs_list_refuted.

(* K4: ordered mode (ignore_iterable_order=False, ignore_repetition=False) loses positions of repeated items. *)
Theorem C07_ordered_repetition_refuted :
  hash_pure hexhash ordered_mode (VList [VAtom (AInt 1); VAtom (AInt 2); VAtom (AInt 1)]) =
  hash_pure hexhash ordered_mode (VList [VAtom (AInt 1); VAtom (AInt 1); VAtom (AInt 2)]) /\
  ~ eqv ordered_mode (VList [VAtom (AInt 1); VAtom (AInt 2); VAtom (AInt 1)])
                     (VList [VAtom (AInt 1); VAtom (AInt 1); VAtom (AInt 2)]).
Proof. exact ordered_repetition_refuted. Qed.
Print Assumptions C07_ordered_repetition_refuted.

Theorem C07_ordered_repetition_any_hasher_refuted : forall H : pystr -> pystr,
  hash_pure H ordered_mode (VList [VAtom (AInt 1); VAtom (AInt 2); VAtom (AInt 1)]) =
  hash_pure H ordered_mode (VList [VAtom (AInt 1); VAtom (AInt 1); VAtom (AInt 2)]).
Proof. exact ordered_repetition_refuted_any. Qed.
Print Assumptions C07_ordered_repetition_any_hasher_refuted.

(* The theorem: nested-set mode and nested-multiset mode, all tag-safe well-formed values. *)
Theorem C07_hash_inj_partial :
  forall (H : pystr -> pystr),
  (forall s, s <> [] -> sepfree (H s)) -> (forall s t, H s = H t -> s = t) ->
  forall o a b,
  plain o = true -> ignore_iterable_order o = true ->
  tag_safe a = true -> tag_safe b = true -> wf a = true -> wf b = true ->
  hash_pure H o a = hash_pure H o b -> eqv o a b.
Proof.
  intros H H_tok H_inj o a b Hp Hio Ta Tb Wa Wb He.
  apply (hash_inj H H_tok H_inj o Hp); auto.
  - unfold std_mode. rewrite Hio. reflexivity.
  - unfold mode_guard. rewrite Hio. reflexivity.
  - unfold mode_guard. rewrite Hio. reflexivity.
Qed.
Print Assumptions C07_hash_inj_partial.

(* Ordered mode: additionally no list / tuple may hold two items with equal hashes (guard forced by K4). *)
Theorem C07_hash_inj_ordered_partial :
  forall (H : pystr -> pystr),
  (forall s, s <> [] -> sepfree (H s)) -> (forall s t, H s = H t -> s = t) ->
  forall o a b,
  plain o = true -> ignore_iterable_order o = false -> ignore_repetition o = false ->
  tag_safe a = true -> tag_safe b = true -> wf a = true -> wf b = true ->
  distinct_items H o a = true -> distinct_items H o b = true ->
  hash_pure H o a = hash_pure H o b -> eqv o a b.
Proof.
  intros H H_tok H_inj o a b Hp Hio Hir Ta Tb Wa Wb Da Db He.
  apply (hash_inj H H_tok H_inj o Hp); auto.
  - unfold std_mode. rewrite Hir. apply orb_true_r.
  - unfold mode_guard. rewrite Da. apply orb_true_r.
  - unfold mode_guard. rewrite Db. apply orb_true_r.
Qed.
Print Assumptions C07_hash_inj_ordered_partial.

(* "values of different types, a container and a scalar, a string and a non-string never share a hash" *)
Theorem C07_types_differ_partial :
  forall (H : pystr -> pystr),
  (forall s, s <> [] -> sepfree (H s)) -> (forall s t, H s = H t -> s = t) ->
  forall o a b,
  plain o = true -> std_mode o = true ->
  tag_safe a = true -> tag_safe b = true -> wf a = true -> wf b = true ->
  mode_guard H o a = true -> mode_guard H o b = true ->
  type_of a <> type_of b -> hash_pure H o a <> hash_pure H o b.
Proof. exact types_differ_hash_differ. Qed.
Print Assumptions C07_types_differ_partial.

(* On the observable DeepHash(v)[v] the [hashes] table adds collisions (K2) ... *)
Theorem C07_memo_refuted :
  let a := VList [VAtom (AInt 1); VAtom (AHalf 2)] in
  let b := VList [VAtom (AInt 1)] in
  deephash hexhash default_opts a = deephash hexhash default_opts b /\ ~ eqv default_opts a b.
Proof. exact memo_collision_refuted. Qed.
Print Assumptions C07_memo_refuted.

(* ... and none when no two ==-but-not-identical atoms co-occur inside a value. *)
Theorem C07_deephash_inj_partial :
  forall (H : pystr -> pystr),
  (forall s, s <> [] -> sepfree (H s)) -> (forall s t, H s = H t -> s = t) ->
  forall o a b,
  plain o = true -> ignore_iterable_order o = true ->
  tag_safe a = true -> tag_safe b = true -> wf a = true -> wf b = true ->
  alias_free a = true -> alias_free b = true ->
  deephash H o a = deephash H o b -> eqv o a b.
Proof.
  intros H H_tok H_inj o a b Hp Hio Ta Tb Wa Wb Aa Ab He.
  rewrite !deephash_pure in He; auto; try (unfold order_ok; rewrite Hio; reflexivity).
  eapply C07_hash_inj_partial; eauto.
Qed.
Print Assumptions C07_deephash_inj_partial.

(* K2 as a collision, for every hasher whatsoever *)
Theorem C07_memo_any_hasher_refuted : forall H : pystr -> pystr,
  deephash H default_opts (VList [VAtom (AInt 1); VAtom (AHalf 2)]) =
  deephash H default_opts (VList [VAtom (AInt 1)]).
Proof. exact memo_collision_any. Qed.
Print Assumptions C07_memo_any_hasher_refuted.

(* The hasher the correspondence check runs - hex of the UTF-8 encoding - satisfies the hypotheses on strings of
   code points below 0x110000 ... *)
Theorem C07_hexhash_satisfies_hypotheses :
  (forall s, str_ok s -> s <> [] -> sepfree (hexhash s)) /\
  (forall s t, str_ok s -> str_ok t -> hexhash s = hexhash t -> s = t) /\
  (forall o v, val_okb v = true -> str_ok (ser hexhash o v)).
Proof.
  split; [exact hexhash_tok|split; [exact hexhash_inj|]].
  intros o v Hv. apply (hexhash_total_agrees o v Hv).
Qed.
Print Assumptions C07_hexhash_satisfies_hypotheses.

(* ... so for that hasher the theorems hold with NO hypothesis on the hasher ([val_okb]: every str / bytes of the
   value consists of code points below 0x110000 - true of every Python str). *)
Theorem C07_hash_inj_hexhash_partial :
  forall o a b,
  plain o = true -> ignore_iterable_order o = true ->
  tag_safe a = true -> tag_safe b = true -> wf a = true -> wf b = true ->
  val_okb a = true -> val_okb b = true ->
  hash_pure hexhash o a = hash_pure hexhash o b -> eqv o a b.
Proof.
  intros o a b Hp Hio Ta Tb Wa Wb Va Vb He.
  apply (hash_inj_hexhash o a b Hp); auto.
  - unfold std_mode. rewrite Hio. reflexivity.
  - unfold mode_guard. rewrite Hio. reflexivity.
  - unfold mode_guard. rewrite Hio. reflexivity.
Qed.
Print Assumptions C07_hash_inj_hexhash_partial.

Theorem C07_hash_inj_ordered_hexhash_partial :
  forall o a b,
  plain o = true -> ignore_iterable_order o = false -> ignore_repetition o = false ->
  tag_safe a = true -> tag_safe b = true -> wf a = true -> wf b = true ->
  val_okb a = true -> val_okb b = true ->
  distinct_items hexhash o a = true -> distinct_items hexhash o b = true ->
  hash_pure hexhash o a = hash_pure hexhash o b -> eqv o a b.
Proof.
  intros o a b Hp Hio Hir Ta Tb Wa Wb Va Vb Da Db He.
  apply (hash_inj_hexhash o a b Hp); auto.
  - unfold std_mode. rewrite Hir. apply orb_true_r.
  - unfold mode_guard. rewrite Da. apply orb_true_r.
  - unfold mode_guard. rewrite Db. apply orb_true_r.
Qed.
Print Assumptions C07_hash_inj_ordered_hexhash_partial.

Theorem C07_deephash_inj_hexhash_partial :
  forall o a b,
  plain o = true -> ignore_iterable_order o = true ->
  tag_safe a = true -> tag_safe b = true -> wf a = true -> wf b = true ->
  val_okb a = true -> val_okb b = true ->
  alias_free a = true -> alias_free b = true ->
  deephash hexhash o a = deephash hexhash o b -> eqv o a b.
Proof.
  intros o a b Hp Hio Ta Tb Wa Wb Va Vb Aa Ab He.
  rewrite !deephash_pure in He; auto; try (unfold order_ok; rewrite Hio; reflexivity).
  eapply C07_hash_inj_hexhash_partial; eauto.
Qed.
Print Assumptions C07_deephash_inj_hexhash_partial.

(* the guards are satisfiable by a non-trivial value; the hypotheses on H by a concrete hasher *)
Theorem C07_guards_satisfiable :
  (let v := VList [VDict [(AStr (s2p "a"), VTuple [VAtom (AInt 1); VAtom (AHalf 2); VAtom (ABool true)]);
                          (AInt 1, VSet [ANone; AStr (s2p "x y")])];
                   VAtom (ABytes (s2p "a")); VList []] in
   tag_safe v = true /\ wf v = true /\ mode_guard hexhash ordered_mode v = true /\
   mode_guard hexhash set_mode (VList [v; v]) = true) /\
  (forall s, s <> [] -> sepfree (unary_hash s)) /\ (forall s t, unary_hash s = unary_hash t -> s = t).
Proof. split; [exact guards_example|split; [exact unary_hash_tok|exact unary_hash_inj]]. Qed.
Print Assumptions C07_guards_satisfiable.

(* ------------------------------------------------------------------ *)
(* Round 3: the EXACT characterisation of hash equality.  [heqb o a b] (Hash/HashAlike.v) is a decidable relation
   written without reference to the hash model: scalars alike iff same type and value; lists / tuples alike iff
   the class sequences of their items (classes = alike items) agree as the mode says - as sets, as multisets, as
   first-occurrence sequences, or (ignore_iterable_order=False, ignore_repetition=False) as first-occurrence COUNT
   TABLES, which is K4; dicts alike iff the same multiset of (key, class of value) over the visible items; sets /
   frozensets alike iff their member sequences IN ITERATION ORDER agree as the mode says, which is K3.
   For every hasher that is injective with non-empty separator-free outputs, every plain option record in each of
   the FOUR (ignore_repetition, ignore_iterable_order) combinations, and all tag-safe values (no wf, no
   distinct_items, no small_sets): *)
Theorem C07_hash_alike_exact :
  forall (H : pystr -> pystr),
  (forall s, s <> [] -> sepfree (H s)) -> (forall s t, H s = H t -> s = t) ->
  forall o a b, plain o = true -> tag_safe a = true -> tag_safe b = true ->
  (hash_pure H o a = hash_pure H o b <-> heqb o a b = true).
Proof. intros H H_tok H_inj o a b Hp. apply (hash_alike H H_tok H_inj o Hp). Qed.
Print Assumptions C07_hash_alike_exact.

(* the same with no hypothesis on the hasher, for the hasher the correspondence check runs *)
Theorem C07_hash_alike_exact_hexhash :
  forall o a b, plain o = true ->
  tag_safe a = true -> tag_safe b = true -> val_okb a = true -> val_okb b = true ->
  (hash_pure hexhash o a = hash_pure hexhash o b <-> heqb o a b = true).
Proof. exact hash_alike_hexhash. Qed.
Print Assumptions C07_hash_alike_exact_hexhash.

(* What [heqb] is, without any hasher in the statement: an equivalence relation; in the order-insensitive modes
   exactly [eqv]; in ordered mode exactly [eqvi] (equal content, sets in the same iteration order) on values in
   which no list / tuple holds two alike items ([norep], a condition on the INPUT replacing the hash-level guard
   [distinct_items H o]); [eqvi] always implies alike. *)
Theorem C07_heqb_is_the_mode_equivalence :
  forall o, plain o = true ->
  ((forall a, tag_safe a = true -> heqb o a a = true) /\
   (forall a b, tag_safe a = true -> tag_safe b = true -> heqb o a b = true -> heqb o b a = true) /\
   (forall a b c, tag_safe a = true -> tag_safe b = true -> tag_safe c = true ->
      heqb o a b = true -> heqb o b c = true -> heqb o a c = true)) /\
  (forall a b, ignore_iterable_order o = true ->
     tag_safe a = true -> tag_safe b = true -> wf a = true -> wf b = true ->
     (heqb o a b = true <-> eqv o a b)) /\
  (forall a b, ignore_iterable_order o = false -> ignore_repetition o = false ->
     tag_safe a = true -> tag_safe b = true -> wf a = true -> wf b = true ->
     norep o a = true -> norep o b = true ->
     (heqb o a b = true <-> eqvi o a b)) /\
  (forall a b, tag_safe a = true -> tag_safe b = true -> eqvi o a b -> heqb o a b = true).
Proof.
  intros o Hp. split; [exact (heqb_equivalence o Hp)|]. split; [|split].
  - intros a b Hio Ta Tb Wa Wb. apply heqb_eqv; auto.
  - intros a b Hio Hir Ta Tb Wa Wb Na Nb. apply heqb_eqvi_ordered; auto.
  - intros a b Ta Tb. apply eqvi_heqb; auto.
Qed.
Print Assumptions C07_heqb_is_the_mode_equivalence.

(* Ordered mode with the guard at the level of the input: equal hashes IF AND ONLY IF equal content with sets in
   the same iteration order (the conclusion is finer than [eqv]: K3 is part of it). *)
Theorem C07_ordered_norep_exact :
  forall (H : pystr -> pystr),
  (forall s, s <> [] -> sepfree (H s)) -> (forall s t, H s = H t -> s = t) ->
  forall o a b,
  plain o = true -> ignore_iterable_order o = false -> ignore_repetition o = false ->
  tag_safe a = true -> tag_safe b = true -> wf a = true -> wf b = true ->
  norep o a = true -> norep o b = true ->
  (hash_pure H o a = hash_pure H o b <-> eqvi o a b).
Proof. exact ordered_norep_exact. Qed.
Print Assumptions C07_ordered_norep_exact.

(* the input-level guard implies the hash-level guard of C07_hash_inj_ordered_partial *)
Theorem C07_norep_implies_distinct_items :
  forall (H : pystr -> pystr),
  (forall s, s <> [] -> sepfree (H s)) -> (forall s t, H s = H t -> s = t) ->
  forall o v, plain o = true -> tag_safe v = true -> norep o v = true -> distinct_items H o v = true.
Proof. exact norep_distinct. Qed.
Print Assumptions C07_norep_implies_distinct_items.

(* K4 and K3 inside the exact relation; [norep] is needed (K4 pair: alike, not equal content, not norep) and
   satisfiable by a value that holds a two-member set and nested lists *)
Theorem C07_alike_witnesses :
  (let a := VList [VAtom (AInt 1); VAtom (AInt 2); VAtom (AInt 1)] in
   let b := VList [VAtom (AInt 1); VAtom (AInt 1); VAtom (AInt 2)] in
   heqb ordered_mode a b = true /\ ~ eqvi ordered_mode a b /\ norep ordered_mode a = false /\
   tag_safe a = true /\ tag_safe b = true /\ wf a = true /\ wf b = true) /\
  (heqb ordered_mode (VSet [AInt 0; AInt 8]) (VSet [AInt 8; AInt 0]) = false /\
   eqv ordered_mode (VSet [AInt 0; AInt 8]) (VSet [AInt 8; AInt 0]) /\
   ~ eqvi ordered_mode (VSet [AInt 0; AInt 8]) (VSet [AInt 8; AInt 0])) /\
  (let v := VList [VSet [AInt 0; AInt 8]; VList [VAtom (AInt 1); VAtom (AInt 2)]; VList [VAtom (AInt 2); VAtom (AInt 1)];
                   VDict [(AStr (s2p "a"), VTuple [VAtom (AInt 1); VAtom (AHalf 2); VAtom (ABool true)])]] in
   norep ordered_mode v = true /\ tag_safe v = true /\ wf v = true /\ small_sets v = false /\ eqvi ordered_mode v v).
Proof. split; [exact k4_alike|split; [exact k3_not_alike|exact norep_example]]. Qed.
Print Assumptions C07_alike_witnesses.

(* The extended model (Hash/HashXModel.v).  On embedded base values it IS [hash_pure] (C06_extended_model_conservative),
   so the theorems above are theorems about it there.  Beyond: K1 reaches every new leaf type (a str that spells the
   serialisation of a date / Decimal / Path / namedtuple shares its hash, for every hasher), and the hypothesis H_tok
   is necessary: with apply_hash=False - "the hasher" is the identity, whose outputs contain the separators - a list
   of two strs and a list of one str collide (documented by deepdiff as a testing-only mode). *)
Theorem C07_extended_refuted : forall H : pystr -> pystr,
  (xdeephash H no_skip default_xopts (XAtom (XA (AStr (s2p "datetime:2020-01-02")))) =
   xdeephash H no_skip default_xopts (XAtom (XL (LDate 2020 1 2))) /\
   xdeephash H no_skip default_xopts (XAtom (XA (AStr (s2p "Decimal:1.5")))) =
   xdeephash H no_skip default_xopts (XAtom (XL (LDecimal false 15 (-1)))) /\
   xdeephash H no_skip default_xopts (XAtom (XA (AStr (s2p "PosixPath:/a/b")))) =
   xdeephash H no_skip default_xopts (XAtom (XL (LPath (s2p "/a/b")))) /\
   xdeephash H no_skip default_xopts (XAtom (XA (AStr (s2p "ntPt:{}")))) =
   xdeephash H no_skip default_xopts (XObj ONamed (s2p "Pt") [])) /\
  (let raw := mk_xopts default_opts false false None [] in
   xdeephash H no_skip raw (XList [XAtom (XA (AStr (s2p "a,str:b")))]) =
   xdeephash H no_skip raw (XList [XAtom (XA (AStr (s2p "a"))); XAtom (XA (AStr (s2p "b")))]) /\
   xdeephash H no_skip raw (XList [XAtom (XA (AStr (s2p "a,str:b")))]) <> None).
Proof.
  intro H. split; [repeat split; reflexivity|]. cbv zeta. split; [reflexivity|]. vm_compute. discriminate.
Qed.
Print Assumptions C07_extended_refuted.

(* ------------------------------------------------------------------ *)
(* Wave 2: the exact characterisation on the EXTENDED universe (objects aside).  [tr xo v] replaces every leaf of the
   extended universe (date, datetime, time, timedelta, Decimal, Path) by the str that spells its result text - a leaf
   hashes exactly like that str, which is the mechanism of K1 used as a tool - and leaves base scalars alone.  For
   every injective separator-free hasher, apply_hash=True, plain base options, any truncate_datetime / notation /
   type groups, no exclusion, and values whose GENUINE strs are tag-safe ([xsafe]: K1 is the exact guard; the leaves
   themselves need no guard): equal hashes IFF the translations are alike ([heqb], Hash/HashAlike.v). *)
Theorem C07_extended_hash_alike_exact :
  forall (H : pystr -> pystr),
  (forall s, s <> [] -> sepfree (H s)) -> (forall s t, H s = H t -> s = t) ->
  forall xo a b,
  apply_hash xo = true -> plain (xbase xo) = true ->
  obj_free a = true -> obj_free b = true -> xsafe a = true -> xsafe b = true ->
  (xdeephash H no_skip xo a = xdeephash H no_skip xo b <-> heqb (xbase xo) (tr xo a) (tr xo b) = true).
Proof. exact xhash_alike. Qed.
Print Assumptions C07_extended_hash_alike_exact.

(* ... and the result texts are injective on the leaves' normal forms: a date is its (year, month, day); a datetime
   its UTC instant after truncation ([civil_from_days] has a left inverse: [civil_roundtrip]); a time its truncated
   seconds; a path its text; leaves of different kinds never share a text (timedelta and Decimal: the normal form is
   the text itself - injectivity of str() on them is not proved).  [leaf_ok]: non-negative fields / year >= 0. *)
Theorem C07_extended_leaf_texts_exact :
  forall xo l l', plain (xbase xo) = true ->
  leaf_ok xo l = true -> leaf_ok xo l' = true ->
  (xleaf_result xo l = xleaf_result xo l' <-> leaf_norm xo l = leaf_norm xo l').
Proof. exact xleaf_result_inj. Qed.
Print Assumptions C07_extended_leaf_texts_exact.

(* the relaxed K1 guard on the base universe that makes the reduction possible: a str may also begin with the type
   tag of a leaf of the extended universe *)
Theorem C07_hash_alike_exact_foreign_tags :
  forall (H : pystr -> pystr),
  (forall s, s <> [] -> sepfree (H s)) -> (forall s t, H s = H t -> s = t) ->
  forall o a b, plain o = true -> gsafe a = true -> gsafe b = true ->
  (hash_pure H o a = hash_pure H o b <-> heqb o a b = true).
Proof. intros H H_tok H_inj o a b Hp. apply (hash_alike_g H H_tok H_inj o Hp). Qed.
Print Assumptions C07_hash_alike_exact_foreign_tags.

(* non-trivial instance: 12:00+02:00 and 10:00 UTC are one instant, inside a list next to a date and a path: guards
   hold, normal forms agree, hashes agree; the next second does not *)
Theorem C07_extended_witness :
  let d1 := LDateTime 1577966400000000%Z (Some 120%Z) in
  let d2 := LDateTime 1577959200000000%Z (Some 0%Z) in
  let d3 := LDateTime 1577959201000000%Z None in
  let mk := fun d => XList [XAtom (XL d); XAtom (XL (LDate 2020%Z 1%Z 2%Z)); XDict [(XL (LPath (s2p "/a")), XAtom (XA (AStr (s2p "x"))))]] in
  leaf_ok default_xopts d1 = true /\ leaf_ok default_xopts d2 = true /\
  leaf_norm default_xopts d1 = leaf_norm default_xopts d2 /\ leaf_norm default_xopts d1 <> leaf_norm default_xopts d3 /\
  obj_free (mk d1) = true /\ xsafe (mk d1) = true /\
  xdeephash hexhash no_skip default_xopts (mk d1) = xdeephash hexhash no_skip default_xopts (mk d2) /\
  xdeephash hexhash no_skip default_xopts (mk d1) <> xdeephash hexhash no_skip default_xopts (mk d3).
Proof.
  cbv zeta. repeat split; try reflexivity.
  - vm_compute. discriminate.
  - vm_compute. discriminate.
Qed.
Print Assumptions C07_extended_witness.

(* Dicts whose KEYS are containers (Hash/HashKeys.v; tuples / frozensets / nested tuples as keys): two such dicts hash
   alike IF AND ONLY IF they hold the same multiset of (class of key, class of item) - a key is told apart exactly
   like a value ({(1, 2): 1} against {(2,): 1}: never alike). *)
Theorem C07_container_keys_exact :
  forall (H : pystr -> pystr),
  (forall s, s <> [] -> sepfree (H s)) -> (forall s t, H s = H t -> s = t) ->
  forall o l1 l2, plain o = true ->
  (forall kv, In kv (l1 ++ l2) -> tag_safe (fst kv) = true /\ tag_safe (snd kv) = true) ->
  (kdict_hash H o l1 = kdict_hash H o l2 <-> mset_alike (kalike o) (kvis o l1) (kvis o l2) = true).
Proof. exact kdict_alike. Qed.
Print Assumptions C07_container_keys_exact.

Theorem C07_container_keys_witness :
  let l1 := [(VTuple [VAtom (AInt 1); VAtom (AInt 2)], VAtom (AInt 1))] in
  let l2 := [(VTuple [VAtom (AInt 2)], VAtom (AInt 1))] in
  mset_alike (kalike set_mode) (kvis set_mode l1) (kvis set_mode l2) = false /\
  mset_alike (kalike multiset_mode) (kvis multiset_mode l1) (kvis multiset_mode l2) = false /\
  mset_alike (kalike ordered_mode) (kvis ordered_mode l1) (kvis ordered_mode l2) = false /\
  mset_alike (kalike set_mode) (kvis set_mode l1) (kvis set_mode l1) = true.
Proof. exact kdict_key_pair. Qed.
Print Assumptions C07_container_keys_witness.

(* str(timedelta) is injective: for timedelta leaves the normal form "the text" of C07_extended_leaf_texts_exact is the
   duration itself (remaining: str(Decimal)). *)
Theorem C07_extended_timedelta_text_exact :
  forall us us', (timedelta_text us = timedelta_text us' <-> us = us').
Proof. intros us us'. split; [apply timedelta_text_inj|intros ->; reflexivity]. Qed.
Print Assumptions C07_extended_timedelta_text_exact.

(* Bool keys / members / items and the == -keyed table (Hash/HashProofsBoolKeys.v, added after seeded C07-10).
   [_hash] turns a bool into its BoolObj member BEFORE it consults the table, at every position.  [table_after H o vs]
   = the table left by hashing the values vs one after the other (any values: aliasing, K2, included). *)
From DD Require Import Hash.HashProofsBoolKeys.

(* every hasher, every option record, every history: a bool dict key / set member, and a bool item, get the bool's own
   hash - never the one of a 1 / 1.0 / 0 / 0.0 visited before *)
Theorem C07_bool_own_hash_whatever_was_visited :
  forall (H : pystr -> pystr) o vs b,
  fst (hash_atom_memo H o (ABool b) (table_after H o vs)) = hash_atom H o (ABool b) /\
  fst (hash_memo H o (VAtom (ABool b)) (table_after H o vs)) = hash_atom H o (ABool b).
Proof. exact bool_own_hash_after. Qed.
Print Assumptions C07_bool_own_hash_whatever_was_visited.

(* injective hasher, every option record, every history: as a key / member a bool and an int / float never get the same
   hash (the int / float gets the hash of some int / float: itself or, K2, its == twin) *)
Theorem C07_bool_and_numeric_keys_differ :
  forall (H : pystr -> pystr), (forall s t, H s = H t -> s = t) ->
  forall o vs b a, numeric a = true ->
  fst (hash_atom_memo H o (ABool b) (table_after H o vs)) <> fst (hash_atom_memo H o a (table_after H o vs)) /\
  exists a', numeric a' = true /\ py_eq a' a = true /\
             fst (hash_atom_memo H o a (table_after H o vs)) = hash_atom H o a'.
Proof.
  intros H H_inj o vs b a Hn. split.
  - apply bool_num_keys_differ_after; assumption.
  - apply num_twin_hash; [apply table_after_ok|exact Hn].
Qed.
Print Assumptions C07_bool_and_numeric_keys_differ.

(* the separation at the level of dicts: {True: x} / {False: x} against {n: y} for an int / float n, ANY values x and y,
   hashed on the table left by ANY history - different hashes *)
Theorem C07_bool_keyed_vs_numeric_keyed_dict :
  forall (H : pystr -> pystr),
  (forall s, s <> [] -> sepfree (H s)) -> (forall s t, H s = H t -> s = t) ->
  forall o vs b a x y, plain o = true -> numeric a = true ->
  deephash_with H o (table_after H o vs) (VDict [(ABool b, x)]) <>
  deephash_with H o (table_after H o vs) (VDict [(a, y)]).
Proof. intros H H_tok H_inj o vs b a x y Hp Hn. apply bool_key_dict_separate_after; assumption. Qed.
Print Assumptions C07_bool_keyed_vs_numeric_keyed_dict.

(* the seeded pairs at the root: [1, {True: 'x'}] / [1, {1: 'x'}], [1.0, {True: None}] / [1.0, {1.0: None}],
   {'a': 0, 'b': [{False: []}]} / {'a': 0, 'b': [{0: []}]} - three modes, hex hasher *)
Theorem C07_bool_key_after_twin_witness : forall o, In o [set_mode; multiset_mode; ordered_mode] ->
  deephash hexhash o (VList [VAtom (AInt 1); VDict [(ABool true, VAtom (AStr (s2p "x")))]]) <>
  deephash hexhash o (VList [VAtom (AInt 1); VDict [(AInt 1, VAtom (AStr (s2p "x")))]]) /\
  deephash hexhash o (VList [VAtom (AHalf 2); VDict [(ABool true, VAtom ANone)]]) <>
  deephash hexhash o (VList [VAtom (AHalf 2); VDict [(AHalf 2, VAtom ANone)]]) /\
  deephash hexhash o (VDict [(AStr (s2p "a"), VAtom (AInt 0)); (AStr (s2p "b"), VList [VDict [(ABool false, VList [])]])]) <>
  deephash hexhash o (VDict [(AStr (s2p "a"), VAtom (AInt 0)); (AStr (s2p "b"), VList [VDict [(AInt 0, VList [])]])]).
Proof. exact bool_key_witness. Qed.
Print Assumptions C07_bool_key_after_twin_witness.

(** C20 - CLI: `deep diff A B --create-patch` then `deep patch A <patch>`
    reproduces B in A; with --backup the previous content is kept in A.bak; if
    writing the patched content fails at any step, A is left with its original
    content and no stray backup file remains.

    Final statements only.  Model: Cli/FsModel.v ([save] = the program of
    serialization.save_content_to_path/_save_content for json, [patch_cmd] =
    commands.patch), proofs: Cli/FsProofs.v.  [X] is the (arbitrary) type of
    content units; [pos] the placement of the serialisation step (the code has
    [DInside]); [frame X A f f'] says every path other than A and A.bak is
    unchanged. *)
From Coq Require Import List Bool NArith.
Import ListNotations.
From DD Require Import Base.PyStr Cli.FsModel Cli.FsProofs.

(** no fault: A = new content, A.bak = old content iff keep_backup, no exception *)
Theorem C20_success :
  forall (X : Type) (pos : dumps_pos) (keep : bool) (c : content X) (A : path)
         (f : fs X) (old : content X),
    f A = Some old ->
    exists f' : fs X,
      save pos keep (Some c) A no_fault f = (f', Done) /\
      f' A = Some c /\
      f' (bak A) = (if keep then Some old else None) /\
      frame X A f f'.
Proof. exact save_success. Qed.
Print Assumptions C20_success.

(** exactly one fault, raising an Exception, at any step up to and including
    close (rename to backup, open, serialise, write, close), with arbitrary
    debris left on disk by the failing step: that exception propagates, A has
    its old content, A.bak is gone, nothing else is touched.
    Guard: [fkind ft = KExc] (see C20_single_fault_any_kind_refuted). *)
Theorem C20_single_fault_restores :
  forall (X : Type) (pos : dumps_pos) (keep : bool) (c : content X) (A : path)
         (f : fs X) (old : content X) (k : step) (ft : fault X),
    f A = Some old ->
    write_step k = true ->
    fkind ft = KExc ->
    exists f' : fs X,
      save pos keep (Some c) A (single k ft) f = (f', Raised KExc k) /\
      f' A = Some old /\
      (k <> SBackup -> (pos = DFirst -> k <> SDumps) -> f' (bak A) = None) /\
      (f (bak A) = None -> f' (bak A) = None) /\
      frame X A f f'.
Proof. exact save_single_fault_restores. Qed.
Print Assumptions C20_single_fault_restores.

(** without the guard the statement is false: KeyboardInterrupt during write *)
Theorem C20_single_fault_any_kind_refuted :
  exists (A : path) (f : fs N) (old c : list N) (k : step) (ft : fault N),
    f A = Some old /\ write_step k = true /\
    fst (save DInside false (Some c) A (single k ft) f) A <> Some old /\
    fst (save DInside false (Some c) A (single k ft) f) (bak A) <> None.
Proof. exact single_fault_any_kind_refuted. Qed.
Print Assumptions C20_single_fault_any_kind_refuted.

(** the serialiser rejects the patched document (no injected fault): restored *)
Theorem C20_unserialisable_restores :
  forall (X : Type) (pos : dumps_pos) (keep : bool) (A : path) (f : fs X) (old : content X),
    f A = Some old ->
    exists f' : fs X,
      save pos keep None A no_fault f = (f', Raised KExc SDumps) /\
      f' A = Some old /\ (f (bak A) = None -> f' (bak A) = None) /\ frame X A f f'.
Proof. exact save_unserialisable_restores. Qed.
Print Assumptions C20_unserialisable_restores.

(** EVERY fault schedule: if the call returns normally the result is right *)
Theorem C20_done_is_correct :
  forall (X : Type) (pos : dumps_pos) (keep : bool) (new : option (content X)) (A : path)
         (sch : schedule X) (f f' : fs X) (old : content X),
    f A = Some old ->
    save pos keep new A sch f = (f', Done) ->
    exists c : content X,
      new = Some c /\ f' A = Some c /\
      f' (bak A) = (if keep then Some old else None) /\ frame X A f f'.
Proof. exact save_done_correct. Qed.
Print Assumptions C20_done_is_correct.

(** EVERY fault schedule (any number of faults, any kinds, any debris): if the
    call raises, the old content survives in A or in A.bak *)
Theorem C20_failure_never_loses_content :
  forall (X : Type) (pos : dumps_pos) (keep : bool) (new : option (content X)) (A : path)
         (sch : schedule X) (f f' : fs X) (old : content X) (k : exn_kind) (s : step),
    f A = Some old ->
    save pos keep new A sch f = (f', Raised k s) ->
    (f' A = Some old \/ f' (bak A) = Some old) /\ frame X A f f'.
Proof. exact save_raised_keeps_old. Qed.
Print Assumptions C20_failure_never_loses_content.

(** EVERY fault schedule: whenever what propagates is an Exception raised by a
    step other than the restoring rename / the final remove (e.g. write fails
    and then close fails too), A is restored and the backup is gone *)
Theorem C20_exception_restores_any_schedule :
  forall (X : Type) (pos : dumps_pos) (keep : bool) (new : option (content X)) (A : path)
         (sch : schedule X) (f f' : fs X) (old : content X) (s : step),
    f A = Some old ->
    save pos keep new A sch f = (f', Raised KExc s) ->
    s <> SRestore -> s <> SRemove ->
    f' A = Some old /\
    (body_step s = true -> (pos = DFirst -> s <> SDumps) -> f' (bak A) = None) /\
    (f (bak A) = None -> f' (bak A) = None) /\
    frame X A f f'.
Proof. exact save_exception_restores. Qed.
Print Assumptions C20_exception_restores_any_schedule.

(** outside the statement, stated for honesty *)

(** a BaseException (KeyboardInterrupt) inside the try block is not caught: the
    backup stays and holds the old content (A holds the debris) *)
Theorem C20_interrupt_keeps_backup :
  forall (X : Type) (pos : dumps_pos) (keep : bool) (new : option (content X)) (A : path)
         (sch : schedule X) (f f' : fs X) (old : content X) (s : step),
    f A = Some old ->
    save pos keep new A sch f = (f', Raised KBase s) ->
    body_step s = true -> (pos = DFirst -> s <> SDumps) ->
    f' (bak A) = Some old.
Proof. exact save_interrupt_keeps_backup. Qed.
Print Assumptions C20_interrupt_keeps_backup.

(** the final os.remove fails: new content in place, backup left behind, and
    the command reports an error although A was patched *)
Theorem C20_remove_fault_leaves_backup :
  forall (X : Type) (pos : dumps_pos) (c : content X) (A : path) (f : fs X)
         (old : content X) (ft : fault X),
    f A = Some old ->
    exists f' : fs X,
      save pos false (Some c) A (single SRemove ft) f = (f', Raised (fkind ft) SRemove) /\
      f' A = Some c /\ f' (bak A) = Some old.
Proof. exact save_remove_fault. Qed.
Print Assumptions C20_remove_fault_leaves_backup.

(** double fault (a body step, then the restoring rename): A holds the debris,
    the old content is in A.bak *)
Theorem C20_restore_fault_keeps_backup :
  forall (X : Type) (pos : dumps_pos) (keep : bool) (c : content X) (A : path) (f : fs X)
         (old : content X) (k : step) (d : option (content X)) (ft2 : fault X),
    f A = Some old -> body_step k = true -> k <> SDumps ->
    exists f' : fs X,
      save pos keep (Some c) A (sched_of [(k, mkFault KExc d); (SRestore, ft2)]) f
      = (f', Raised (fkind ft2) SRestore) /\
      f' A = d /\ f' (bak A) = Some old.
Proof. exact save_restore_fault. Qed.
Print Assumptions C20_restore_fault_keeps_backup.

(** an A.bak that existed before `deep patch` (without --backup) is destroyed *)
Theorem C20_preexisting_backup_lost :
  forall (X : Type) (pos : dumps_pos) (c : content X) (A : path) (f : fs X) (old x : content X),
    f A = Some old -> f (bak A) = Some x ->
    exists f' : fs X, save pos false (Some c) A no_fault f = (f', Done) /\ f' (bak A) = None.
Proof. exact save_preexisting_backup_lost. Qed.
Print Assumptions C20_preexisting_backup_lost.

(** the command line level *)

(** diff --create-patch, then patch, no failure: A loads as B's document; the
    backup is kept iff --backup and holds A's previous bytes; nothing else is
    touched.  The three hypotheses are: property C01 (delta application
    reproduces t2), property C14 (a persisted delta is the same delta) and the
    JSON text round trip; they are proved / checked in their own blocks. *)
Theorem C20_patch_reproduces :
  forall (X doc delta : Type) (parse : content X -> option doc)
         (dump : doc -> option (content X)) (pickle : delta -> content X)
         (unpickle : content X -> option delta)
         (mk_delta : doc -> doc -> delta) (apply_delta : delta -> doc -> doc),
    (forall a b : doc, apply_delta (mk_delta a b) a = b) ->
    (forall d : delta, unpickle (pickle d) = Some d) ->
    (forall (d : doc) (c : content X), dump d = Some c -> parse c = Some d) ->
    forall (pos : dumps_pos) (keep : bool) (A B P : path)
           (f : fs X) (ca : content X) (a b : doc) (pd cb' : content X),
      f A = Some ca ->
      parse ca = Some a ->
      load parse f B = Some b ->
      P <> A ->
      P <> bak A ->
      diff_cmd parse pickle mk_delta A B f = Some pd ->
      dump b = Some cb' ->
      exists f' : fs X,
        patch_cmd parse dump unpickle apply_delta pos keep A P no_fault
                  (upd P (Some pd) f) = (f', Done) /\
        load parse f' A = Some b /\
        f' A = Some cb' /\
        f' (bak A) = (if keep then Some ca else None) /\
        (forall q : path, q <> A -> q <> bak A -> q <> P -> f' q = f q).
Proof. exact patch_reproduces. Qed.
Print Assumptions C20_patch_reproduces.

(** one Exception anywhere in `deep patch` (loading the patch or the document,
    applying the delta, any save step up to close): A keeps its bytes, no A.bak
    appears, nothing else changes, and the process does not report success *)
Theorem C20_patch_single_fault_restores :
  forall (X doc delta : Type) (parse : content X -> option doc)
         (dump : doc -> option (content X))
         (unpickle : content X -> option delta)
         (apply_delta : delta -> doc -> doc) (pos : dumps_pos)
         (keep debug : bool) (A P : path) (f : fs X)
         (ca : content X) (a : doc) (dl : delta) (cnew : content X)
         (k : step) (ft : fault X),
    f A = Some ca ->
    parse ca = Some a ->
    match f P with
    | Some c => unpickle c
    | None => None
    end = Some dl ->
    dump (apply_delta dl a) = Some cnew ->
    f (bak A) = None ->
    write_step k = true \/ k = SLoadDelta \/ k = SLoadDoc \/ k = SApply ->
    fkind ft = KExc ->
    exists f' : fs X,
      patch_cmd parse dump unpickle apply_delta pos keep A P (single k ft) f
      = (f', Raised KExc k) /\
      f' A = Some ca /\
      f' (bak A) = None /\
      (forall q : path, q <> A -> q <> bak A -> f' q = f q) /\
      cli_report debug (Raised KExc k) <> CExit 0.
Proof. exact patch_single_fault_restores. Qed.
Print Assumptions C20_patch_single_fault_restores.

(** exit status 0 exactly when the command completed *)
Theorem C20_exit_zero_iff_done :
  forall (debug : bool) (o : outcome), cli_report debug o = CExit 0 <-> o = Done.
Proof. exact cli_report_zero. Qed.
Print Assumptions C20_exit_zero_iff_done.

(** ------------------------------------------------------------------------
    The end-to-end clause on JSON documents, with the C01 premise discharged by
    Delta/DeltaRoundtrip.v (theorem C01_roundtrip_oracles_partial).

    JSON documents = values built from dicts with str keys, lists, str, int,
    half-integer floats, bool, None ([is_json]).  What remains of the C01 guards:
    well-formedness (automatic after JSON parsing), alias-freeness (no two atoms that
    are == but not identical: 1 / 1.0 / true), and no "__"-prefixed keys when
    ignore_private_variables is on (the CLI default).  The tuple guards are vacuous
    and the type-change guard is PROVED from alias-freeness, given the assumption
    [conv_json_ok] on Python's constructor calls list(x) / dict(x) on JSON values
    (result is a well-formed JSON value whose atoms are atoms of x or strings).
    Remaining premises: the oracle validity conditions of C01 (injective member
    hash, typed constructor results, valid difflib opcodes, admissible visiting
    orders), the pickle round trip (= property C14, kept as a premise: C14's
    payload type is not yet connected to DeltaModel.delta) and the JSON text
    round trip.  Result: Delta logs no error and A loads as a document equal to
    B's with identical types, up to object key order ([veqb]). *)
From DD Require Import Cli.JsonDocs.

Theorem C20_patch_reproduces_json_docs :
  forall (X : Type) (parse : FsModel.content X -> option Value.value)
         (dump : Value.value -> option (FsModel.content X))
         (pickle : DeltaModel.delta -> FsModel.content X)
         (unpickle : FsModel.content X -> option DeltaModel.delta)
         (hatom : Value.atom -> PyStr.pystr)
         (udiff : PyStr.pystr -> PyStr.pystr -> PyStr.pystr)
         (ops : Value.path -> list Value.value -> list Value.value -> list Tree.opcode)
         (c : DiffModel.cfg)
         (conv : Value.ty -> Value.value -> option Value.value)
         (ro : list (Value.path * Value.value) -> list (Value.path * Value.value))
         (ao : list (Value.path * option Value.value) -> list (Value.path * option Value.value)),
    (forall a b : Value.atom, hatom a = hatom b -> a = b) ->
    (forall (ty0 : Value.ty) (v v' : Value.value), conv ty0 v = Some v' -> Value.type_of v' = ty0) ->
    conv_json_ok conv ->
    (forall (p : Value.path) (xs ys : list Value.value),
        List.forallb DiffModel.is_atom xs = true ->
        List.forallb DiffModel.is_atom ys = true ->
        DeltaGuard.valid_ops xs ys (ops p xs ys)) ->
    DeltaRun.ro_ok ro ->
    DeltaRun.ao_ok ao ->
    (forall d : DeltaModel.delta, unpickle (pickle d) = Some d) ->
    (forall (d : Value.value) (cc : FsModel.content X), dump d = Some cc -> parse cc = Some d) ->
    forall (pos : FsModel.dumps_pos) (keep : bool) (A B P : FsModel.path) (f : FsModel.fs X)
           (ca : FsModel.content X) (a b : Value.value) (pd : FsModel.content X),
      f A = Some ca ->
      parse ca = Some a ->
      FsModel.load parse f B = Some b ->
      P <> A ->
      P <> FsModel.bak A ->
      is_json a = true ->
      is_json b = true ->
      Value.wf a = true ->
      Value.wf b = true ->
      DeltaGuard.alias_free (DeltaGuard.atoms_of a ++ DeltaGuard.atoms_of b) ->
      DiffModel.ignore_private c = false \/ DeltaGuard.nopriv a = true /\ DeltaGuard.nopriv b = true ->
      FsModel.diff_cmd parse pickle (mk_delta_json hatom udiff ops c conv) A B f = Some pd ->
      exists b' : Value.value,
        DeltaModel.apply conv ro ao (mk_delta_json hatom udiff ops c conv a b) a = (b', 0) /\
        DeltaGuard.veqb b' b = true /\
        (forall cr : FsModel.content X,
            dump b' = Some cr ->
            exists f' : FsModel.fs X,
              FsModel.patch_cmd parse dump unpickle (apply_delta_json conv ro ao) pos keep A P
                                FsModel.no_fault (FsModel.upd P (Some pd) f) = (f', FsModel.Done) /\
              FsModel.load parse f' A = Some b' /\
              f' A = Some cr /\
              f' (FsModel.bak A) = (if keep then Some ca else None) /\
              (forall q : FsModel.path, q <> A -> q <> FsModel.bak A -> q <> P -> f' q = f q)).
Proof.
  intros X parse dump pickle unpickle hatom udiff ops c conv ro ao H1 H2 H3 H4 H5 H6 Hpk Hjs.
  exact (patch_reproduces_json X parse dump pickle unpickle hatom udiff ops c conv ro ao H1 H2 H3 H4 H5 H6 Hjs Hpk).
Qed.
Print Assumptions C20_patch_reproduces_json_docs.

(** the reduced guards, in decidable form, imply the guards of the C01 theorem *)
Theorem C20_json_guards_suffice :
  forall (c : DiffModel.cfg) (conv : Value.ty -> Value.value -> option Value.value),
    (forall (ty0 : Value.ty) (v v' : Value.value), conv ty0 v = Some v' -> Value.type_of v' = ty0) ->
    conv_json_ok conv ->
    forall t1 t2 : Value.value,
      json_guardsb c t1 t2 = true -> DeltaGood.guards c conv false false t1 t2.
Proof. exact json_guardsb_sound. Qed.
Print Assumptions C20_json_guards_suffice.

(** non-vacuity: a nested pair with a list edit, a list -> object and an int -> str
    type change satisfies the reduced guards (and is outside the decidable
    sufficient condition [guardsb] of the C01 block, which rejects container type
    changes unless values are always included) *)
Example C20_json_guards_satisfiable :
  json_guardsb DeltaExamples.ex_cfg jx_t1 jx_t2 = true /\ DeltaGuard.veqb jx_t1 jx_t2 = false /\
  DeltaChain.guardsb DeltaExamples.ex_cfg false false jx_t1 jx_t2 = false.
Proof. exact json_guards_satisfiable. Qed.
Print Assumptions C20_json_guards_satisfiable.

(** alias-freeness cannot be dropped for JSON documents: [1] -> [1.0] leaves [1]
    (Python-equal to B, not the same JSON value); replayed on the real CLI at every run *)
Theorem C20_json_alias_refuted :
  is_json ja_t1 = true /\ is_json ja_t2 = true /\ Value.wf ja_t1 = true /\ Value.wf ja_t2 = true /\
  DeltaGuard.nopriv ja_t1 = true /\ DeltaGuard.nopriv ja_t2 = true /\
  DeltaChain.alias_freeb (DeltaGuard.atoms_of ja_t1 ++ DeltaGuard.atoms_of ja_t2) = false /\
  DeltaExamples.rt DeltaExamples.hatom_ex ja_ops DeltaExamples.ex_cfg DeltaExamples.conv_none false false ja_t1 ja_t2 = (ja_t1, 0) /\
  DeltaGuard.veqb ja_t1 ja_t2 = false /\ Value.py_eqv ja_t1 ja_t2 = true.
Proof. exact json_alias_refuted. Qed.
Print Assumptions C20_json_alias_refuted.

(** ------------------------------------------------------------------------
    The same with the patch file carried by the pickle codec of the C14 block
    (Pickle/DeltaCodec.v): what `deep diff --create-patch` writes is
    [pickle_delta d = enc_prog (pv_of_delta d)], what `deep patch` loads is
    [unpickle_delta w prog = reload w false prog] (restricted-unpickler VM in the process
    [w], then the payload read as a delta; bidirectional = False).  The abstract pickle
    premise is discharged by Pickle/DeltaCodecProofs.reload_canonical_dump.  What remains:
    C01's oracle conditions, [conv_json_ok], the world conditions [calls_ok w] /
    [types_ok w payload] (the process has the allow-listed globals), the JSON text round
    trip, and two DECIDABLE conditions on the delta of the pair:
      [delta_okb d]          every path of the delta is normalised and prints / parses back
                             (C09's [path_ok]); for JSON documents the keys are strings and
                             what can fail is exactly K5 / K6: a key with both quote characters
                             or ending in U+1D1C0 (document-level guard [keys_path_okb];
                             witnesses below = findings C20-K5-QUOTES / C20-K6-ESC)
      [wfp (pv_of_delta d)]  the payload is a well-formed dict (distinct paths per category).
    C20_patch_reproduces_json_docs_pickled (below) replaces both by the document-level guard
    [keys_path_okb a], [keys_path_okb b], using Diff/DiffPaths.v. *)
From DD Require Import Cli.JsonPickle.

Theorem C20_patch_reproduces_json_docs_payload_conditions :
  forall (parse : list Vm.op -> option Value.value)
         (dump : Value.value -> option (list Vm.op))
         (w : Vm.world) (hatom : Value.atom -> PyStr.pystr)
         (udiff : PyStr.pystr -> PyStr.pystr -> PyStr.pystr)
         (ops : Value.path -> list Value.value -> list Value.value -> list Tree.opcode)
         (c : DiffModel.cfg)
         (conv : Value.ty -> Value.value -> option Value.value)
         (ro : list (Value.path * Value.value) -> list (Value.path * Value.value))
         (ao : list (Value.path * option Value.value) -> list (Value.path * option Value.value)),
    (forall a b : Value.atom, hatom a = hatom b -> a = b) ->
    (forall (ty0 : Value.ty) (v v' : Value.value), conv ty0 v = Some v' -> Value.type_of v' = ty0) ->
    JsonDocs.conv_json_ok conv ->
    (forall (p : Value.path) (xs ys : list Value.value),
        List.forallb DiffModel.is_atom xs = true ->
        List.forallb DiffModel.is_atom ys = true ->
        DeltaGuard.valid_ops xs ys (ops p xs ys)) ->
    DeltaRun.ro_ok ro ->
    DeltaRun.ao_ok ao ->
    CodecProofs.calls_ok w ->
    (forall (d : Value.value) (cc : list Vm.op), dump d = Some cc -> parse cc = Some d) ->
    forall (pos : FsModel.dumps_pos) (keep : bool) (A B P : FsModel.path) (f : FsModel.fs Vm.op)
           (ca : FsModel.content Vm.op) (a b : Value.value) (pd : FsModel.content Vm.op),
      f A = Some ca ->
      parse ca = Some a ->
      FsModel.load parse f B = Some b ->
      P <> A ->
      P <> FsModel.bak A ->
      JsonDocs.is_json a = true ->
      JsonDocs.is_json b = true ->
      Value.wf a = true ->
      Value.wf b = true ->
      DeltaGuard.alias_free (DeltaGuard.atoms_of a ++ DeltaGuard.atoms_of b) ->
      DiffModel.ignore_private c = false \/ DeltaGuard.nopriv a = true /\ DeltaGuard.nopriv b = true ->
      let d := JsonDocs.mk_delta_json hatom udiff ops c conv a b in
      delta_okb d = true ->
      Codec.wfp (DeltaCodec.pv_of_delta d) = true ->
      CodecProofs.types_ok w (DeltaCodec.pv_of_delta d) ->
      FsModel.diff_cmd parse pickle_delta (JsonDocs.mk_delta_json hatom udiff ops c conv) A B f = Some pd ->
      exists b' : Value.value,
        DeltaModel.apply conv ro ao d a = (b', 0) /\
        DeltaGuard.veqb b' b = true /\
        (forall cr : list Vm.op,
            dump b' = Some cr ->
            exists f' : FsModel.fs Vm.op,
              FsModel.patch_cmd parse dump (unpickle_delta w) (JsonDocs.apply_delta_json conv ro ao)
                                pos keep A P FsModel.no_fault (FsModel.upd P (Some pd) f) = (f', FsModel.Done) /\
              FsModel.load parse f' A = Some b' /\
              f' A = Some cr /\
              f' (FsModel.bak A) = (if keep then Some ca else None) /\
              (forall q : FsModel.path, q <> A -> q <> FsModel.bak A -> q <> P -> f' q = f q)).
Proof. exact patch_reproduces_json_pickled. Qed.
Print Assumptions C20_patch_reproduces_json_docs_payload_conditions.

(** the decidable payload condition implies C14's [delta_ok] *)
Theorem C20_delta_okb_sound : forall d : DeltaModel.delta, delta_okb d = true -> DeltaCodecProofs.delta_ok d.
Proof. exact delta_okb_sound. Qed.
Print Assumptions C20_delta_okb_sound.

(** non-vacuity: the delta of the pair of C20_json_guards_satisfiable meets both payload
    conditions and comes back from the codec unchanged *)
Example C20_pickled_guards_satisfiable :
  keys_path_okb jx_t1 = true /\ keys_path_okb jx_t2 = true /\
  delta_okb jx_delta = true /\ Codec.wfp (DeltaCodec.pv_of_delta jx_delta) = true /\
  DeltaCodec.delta_of_pv false (DeltaCodec.pv_of_delta jx_delta) = Some jx_delta /\
  (List.length (DeltaModel.d_val jx_delta) + List.length (DeltaModel.d_type jx_delta) +
   List.length (DeltaModel.d_dadd jx_delta) >= 3)%nat.
Proof. exact pickled_guards_satisfiable. Qed.
Print Assumptions C20_pickled_guards_satisfiable.

(** K5: {q'": 1} -> {q'": 2}.  Inside every other guard; the delta applied directly yields
    B, but its path does not survive printing and parsing: the reloaded delta leaves A as it
    was (finding C20-K5-QUOTES, replayed on the real CLI at every run) *)
Theorem C20_keys_quotes_refuted : key_refuted k5_key.
Proof. exact keys_quotes_refuted. Qed.
Print Assumptions C20_keys_quotes_refuted.

(** K6: the same for a key ending in U+1D1C0 (finding C20-K6-ESC) *)
Theorem C20_keys_escape_refuted : key_refuted k6_key.
Proof. exact keys_escape_refuted. Qed.
Print Assumptions C20_keys_escape_refuted.


(** ------------------------------------------------------------------------
    The strengthened end-to-end theorem: the two payload conditions are PROVED from the
    document-level guard [keys_path_okb] (no object key with both quote characters, none
    ending in U+1D1C0 - refuted otherwise, see the two witnesses above), by Cli/JsonPayload.v:
      json_delta_ok     every path of the delta consists of document keys and indices
                        (DiffPaths.run_diff_path_keys), hence prints and parses back;
      json_payload_wfp  paths are distinct per category (DiffPaths.run_diff_paths_distinct /
                        run_diff_rec_distinct), all carried values are sub-values of the
                        well-formed documents (C04's run_diff_faithful), JSON documents
                        produce no set entries.
    Remaining premises: C01's oracle conditions on difflib / sorting / constructor calls
    (injective member hash, [conv] typed and [conv_json_ok], opcodes valid and - for the
    distinctness of paths - with sorted disjoint ranges [ops_sorted2] unless zip mode,
    admissible visiting orders), threshold <= 1, the world conditions of the unpickler VM
    ([calls_ok w], [types_ok w payload]) and the JSON text round trip. *)
From DD Require Import Cli.JsonPayload.

Theorem C20_patch_reproduces_json_docs_pickled :
  forall (parse : list Vm.op -> option Value.value)
         (dump : Value.value -> option (list Vm.op))
         (w : Vm.world) (hatom : Value.atom -> PyStr.pystr)
         (udiff : PyStr.pystr -> PyStr.pystr -> PyStr.pystr)
         (ops : Value.path -> list Value.value -> list Value.value -> list Tree.opcode)
         (c : DiffModel.cfg)
         (conv : Value.ty -> Value.value -> option Value.value)
         (ro : list (Value.path * Value.value) -> list (Value.path * Value.value))
         (ao : list (Value.path * option Value.value) -> list (Value.path * option Value.value)),
    (forall a b : Value.atom, hatom a = hatom b -> a = b) ->
    (forall (ty0 : Value.ty) (v v' : Value.value), conv ty0 v = Some v' -> Value.type_of v' = ty0) ->
    JsonDocs.conv_json_ok conv ->
    (forall (p : Value.path) (xs ys : list Value.value),
        List.forallb DiffModel.is_atom xs = true ->
        List.forallb DiffModel.is_atom ys = true ->
        DeltaGuard.valid_ops xs ys (ops p xs ys)) ->
    DiffModel.zip c = true \/ DiffPaths.ops_sorted2 ops ->
    DiffModel.thr_num c <= DiffModel.thr_den c ->
    DeltaRun.ro_ok ro ->
    DeltaRun.ao_ok ao ->
    CodecProofs.calls_ok w ->
    (forall (d : Value.value) (cc : list Vm.op), dump d = Some cc -> parse cc = Some d) ->
    forall (pos : FsModel.dumps_pos) (keep : bool) (A B P : FsModel.path) (f : FsModel.fs Vm.op)
           (ca : FsModel.content Vm.op) (a b : Value.value) (pd : FsModel.content Vm.op),
      f A = Some ca ->
      parse ca = Some a ->
      FsModel.load parse f B = Some b ->
      P <> A ->
      P <> FsModel.bak A ->
      JsonDocs.is_json a = true ->
      JsonDocs.is_json b = true ->
      Value.wf a = true ->
      Value.wf b = true ->
      DeltaGuard.alias_free (DeltaGuard.atoms_of a ++ DeltaGuard.atoms_of b) ->
      DiffModel.ignore_private c = false \/ DeltaGuard.nopriv a = true /\ DeltaGuard.nopriv b = true ->
      keys_path_okb a = true ->
      keys_path_okb b = true ->
      let d := JsonDocs.mk_delta_json hatom udiff ops c conv a b in
      CodecProofs.types_ok w (DeltaCodec.pv_of_delta d) ->
      FsModel.diff_cmd parse pickle_delta (JsonDocs.mk_delta_json hatom udiff ops c conv) A B f = Some pd ->
      exists b' : Value.value,
        DeltaModel.apply conv ro ao d a = (b', 0) /\
        DeltaGuard.veqb b' b = true /\
        (forall cr : list Vm.op,
            dump b' = Some cr ->
            exists f' : FsModel.fs Vm.op,
              FsModel.patch_cmd parse dump (unpickle_delta w) (JsonDocs.apply_delta_json conv ro ao)
                                pos keep A P FsModel.no_fault (FsModel.upd P (Some pd) f) = (f', FsModel.Done) /\
              FsModel.load parse f' A = Some b' /\
              f' A = Some cr /\
              f' (FsModel.bak A) = (if keep then Some ca else None) /\
              (forall q : FsModel.path, q <> A -> q <> FsModel.bak A -> q <> P -> f' q = f q)).
Proof. exact patch_reproduces_json_keys. Qed.
Print Assumptions C20_patch_reproduces_json_docs_pickled.

(** the two reductions on their own *)
Theorem C20_json_delta_paths_ok :
  forall hatom udiff ops c conv (a b : Value.value),
    keys_path_okb a = true -> keys_path_okb b = true ->
    DeltaCodecProofs.delta_ok (JsonDocs.mk_delta_json hatom udiff ops c conv a b).
Proof. exact json_delta_ok. Qed.
Print Assumptions C20_json_delta_paths_ok.

Theorem C20_json_payload_well_formed :
  forall hatom udiff ops c conv (a b : Value.value),
    keys_path_okb a = true -> keys_path_okb b = true ->
    JsonDocs.is_json a = true -> JsonDocs.is_json b = true -> Value.wf a = true -> Value.wf b = true ->
    DiffModel.thr_num c <= DiffModel.thr_den c ->
    DiffModel.zip c = true \/ DiffPaths.ops_sorted2 ops ->
    Codec.wfp (DeltaCodec.pv_of_delta (JsonDocs.mk_delta_json hatom udiff ops c conv a b)) = true.
Proof. exact json_payload_wfp. Qed.
Print Assumptions C20_json_payload_well_formed.


(** ========================================================================
    Round 3.  (1) PROCESS CRASHES between the steps of the save path, (2) ALL
    branches of _save_content / load_path_content (json, yaml/yml, toml,
    csv/tsv, pickle) with the dispatch on the file extension, (3) HISTORIES of
    several `deep patch` commands.

    Model: Cli/GenModel.v - the save path written once over a record of
    primitives, returning every intermediate file-system state ([save_tr]:
    one labelled entry per primitive step; [crash_states] = the initial state
    and the state of every entry: what a process killed at that point leaves
    behind - no handler runs, the file object's buffer is dropped).  Shapes:
    [ShBuf pos] = the json branch (FsModel.save, theorem C20_json_branch_is_save),
    [ShStream] = the serialiser writes into the open file (yaml, toml, pickle,
    csv), [ShNone] = the serialiser module is missing / the file type is unknown.
    The environment [env] holds what the model cannot know (buffer-dependent
    on-disk contents, atomicity of rename); EVERY theorem quantifies over it.
    Cli/FormatModel.v - [ext_of] / [fmt_of_ext], [patch_cmd_g], [diff_cmd_g],
    [run_hist], [run_saves].  Proofs: Cli/GenProofs.v (relational parametricity
    of the program in its primitives + the program on the two cells A, A.bak),
    Cli/FormatProofs.v, Cli/FormatPickle.v, Cli/HistProofs.v.

    Process crashes are OUTSIDE the statement of property C20 ("if writing the
    patched content fails at any step" - an exception at a step of the save
    path; no code can run after a kill): the theorems below say what IS true. *)
From DD Require Import Cli.GenModel Cli.GenProofs Cli.FormatModel Cli.FormatProofs Cli.HistProofs Cli.FormatPickle.

(** (1) crash points ------------------------------------------------------- *)

(** EVERY crash point, EVERY fault schedule, branch and environment: where the
    original content is, is determined by the step reached ([zone_of]):
      before the first rename completes (a failed rename, a serialisation placed
      before it)                         A = old, A.bak as before      [ZUntouched]
      inside a two-phase rename          A = old and A.bak = old       [ZBoth]
      from the completed rename up to the restoring rename / the final remove
      (open, serialise, write, close, a FAILED restore or remove)
                                         A.bak = old, A anything       [ZMoved]
      after the restoring rename         A = old, A.bak gone           [ZRestored]
      after the final remove             A = new, A.bak gone           [ZCommitted]
    and no other path is touched. *)
Theorem C20_crash_original_by_step :
  forall (X : Type) (sh : shape) (ev : env X) (keep : bool) (new : option (content X))
         (A : path) (sch : schedule X) (f : fs X) (old : content X),
    f A = Some old ->
    Forall
      (fun e : entry (fs X) =>
         zone_inv X old (f (bak A)) new (zone_of sh (fst (fst e)) (snd (fst e))) (view X A (snd e)) /\
         frame X A f (snd e)) (fst (fst (save_tr sh ev keep new A sch f))).
Proof. exact crash_zone. Qed.
Print Assumptions C20_crash_original_by_step.

(** hence at every crash point the original content is in A or in A.bak - unless
    the call had completed, and then A holds the complete new content *)
Theorem C20_crash_never_loses_content :
  forall (X : Type) (sh : shape) (ev : env X) (keep : bool) (new : option (content X))
         (A : path) (sch : schedule X) (f : fs X) (old : content X) (g : fs X),
    f A = Some old ->
    In g (crash_states sh ev keep new A sch f) ->
    (g A = Some old \/
     g (bak A) = Some old \/ (exists c : content X, new = Some c /\ g A = Some c /\ g (bak A) = None)) /\
    frame X A f g.
Proof. exact crash_never_loses_content. Qed.
Print Assumptions C20_crash_never_loses_content.

(** the states with a missing / empty / truncated target, characterised: whenever
    A is neither the complete old nor the complete new content, A.bak holds the
    old content *)
Theorem C20_crash_torn_target_has_backup :
  forall (X : Type) (sh : shape) (ev : env X) (keep : bool) (new : option (content X))
         (A : path) (sch : schedule X) (f : fs X) (old : content X) (g : fs X),
    f A = Some old ->
    In g (crash_states sh ev keep new A sch f) ->
    g A <> Some old -> (forall c : content X, new = Some c -> g A <> Some c) -> g (bak A) = Some old.
Proof. exact crash_torn_target_has_backup. Qed.
Print Assumptions C20_crash_torn_target_has_backup.

(** recovery "if A.bak exists, rename it back" after a crash at ANY point yields
    the complete old content, or - only if the call had completed - the complete
    new content; never a mixture.  Guard: no A.bak before the call. *)
Theorem C20_crash_recover_atomic :
  forall (X : Type) (sh : shape) (ev : env X) (keep : bool) (new : option (content X))
         (A : path) (sch : schedule X) (f : fs X) (old : content X) (g : fs X),
    f A = Some old ->
    f (bak A) = None ->
    In g (crash_states sh ev keep new A sch f) ->
    (recover A g A = Some old \/
     (exists c : content X, new = Some c /\ g A = Some c /\ recover A g A = Some c)) /\
    recover A g (bak A) = None /\ frame X A f (recover A g).
Proof. exact crash_recover_atomic. Qed.
Print Assumptions C20_crash_recover_atomic.

(** the guard is needed: a stale A.bak + a crash before the first rename *)
Theorem C20_crash_recover_preexisting_refuted :
  exists (A : path) (f : fs N) (old stale c : list N) (g : fs N),
    f A = Some old /\
    f (bak A) = Some stale /\
    In g (crash_states (ShBuf DInside) env0 false (Some c) A no_fault f) /\
    recover A g A <> Some old /\ recover A g A <> Some c.
Proof. exact crash_recover_preexisting_refuted. Qed.
Print Assumptions C20_crash_recover_preexisting_refuted.

(** non-vacuity: the nine crash states of a fault-free json run with a two-phase
    rename; the target is missing / empty / half written in five of them *)
Example C20_crash_states_example :
  map (fun g : fs N => (g cx_A, g (bak cx_A)))
      (crash_states (ShBuf DInside) cx_env false (Some [2%N; 3%N]) cx_A no_fault cx_f) =
  [(Some [1%N], None); (Some [1%N], Some [1%N]); (None, Some [1%N]); (Some [], Some [1%N]);
   (Some [], Some [1%N]); (Some [2%N], Some [1%N]); (Some [], Some [1%N]);
   (Some [2%N; 3%N], Some [1%N]); (Some [2%N; 3%N], None)].
Proof. exact ex_crash_states. Qed.
Print Assumptions C20_crash_states_example.

(** the crash states end in the final state of the call *)
Theorem C20_crash_states_end :
  forall (X : Type) (sh : shape) (ev : env X) (keep : bool) (new : option (content X))
         (A : path) (sch : schedule X) (f : fs X) (q : path),
    last (crash_states sh ev keep new A sch f) f q = fst (save_g sh ev keep new A sch f) q.
Proof. exact crash_states_end. Qed.
Print Assumptions C20_crash_states_end.

(** (2) every branch of _save_content ----------------------------------------- *)

(** the generalised program, json shape, plain environment = FsModel.save *)
Theorem C20_json_branch_is_save :
  forall (X : Type) (pos : dumps_pos) (keep : bool) (new : option (content X))
         (A : path) (sch : schedule X) (f : fs X),
    snd (save_g (ShBuf pos) env0 keep new A sch f) = snd (save pos keep new A sch f) /\
    (forall q : path, fst (save_g (ShBuf pos) env0 keep new A sch f) q = fst (save pos keep new A sch f) q).
Proof. exact save_g_json. Qed.
Print Assumptions C20_json_branch_is_save.

(** EVERY schedule, branch, environment: a normal return is correct *)
Theorem C20_all_branches_done_is_correct :
  forall (X : Type) (sh : shape) (ev : env X) (keep : bool) (new : option (content X))
         (A : path) (sch : schedule X) (f f' : fs X) (old : content X),
    f A = Some old ->
    save_g sh ev keep new A sch f = (f', Done) ->
    exists c : content X,
      new = Some c /\ f' A = Some c /\ f' (bak A) = (if keep then Some old else None) /\ frame X A f f'.
Proof. exact save_g_done_correct. Qed.
Print Assumptions C20_all_branches_done_is_correct.

(** EVERY schedule, branch, environment: a raising call never loses the content *)
Theorem C20_all_branches_failure_never_loses_content :
  forall (X : Type) (sh : shape) (ev : env X) (keep : bool) (new : option (content X))
         (A : path) (sch : schedule X) (f f' : fs X) (old : content X) (k : exn_kind) (s : step),
    f A = Some old ->
    save_g sh ev keep new A sch f = (f', Raised k s) ->
    (f' A = Some old \/ f' (bak A) = Some old) /\ frame X A f f'.
Proof. exact save_g_raised_keeps_old. Qed.
Print Assumptions C20_all_branches_failure_never_loses_content.

(** EVERY schedule, branch, environment: a propagating Exception from any step but
    the restoring rename / final remove leaves A restored and the backup gone *)
Theorem C20_all_branches_exception_restores :
  forall (X : Type) (sh : shape) (ev : env X) (keep : bool) (new : option (content X))
         (A : path) (sch : schedule X) (f f' : fs X) (old : content X) (s : step),
    f A = Some old ->
    save_g sh ev keep new A sch f = (f', Raised KExc s) ->
    s <> SRestore ->
    s <> SRemove ->
    f' A = Some old /\
    (body_step s = true -> (sh = ShBuf DFirst -> s <> SDumps) -> f' (bak A) = None) /\
    (f (bak A) = None -> f' (bak A) = None) /\ frame X A f f'.
Proof. exact save_g_exception_restores. Qed.
Print Assumptions C20_all_branches_exception_restores.

Theorem C20_all_branches_interrupt_keeps_backup :
  forall (X : Type) (sh : shape) (ev : env X) (keep : bool) (new : option (content X))
         (A : path) (sch : schedule X) (f f' : fs X) (old : content X) (s : step),
    f A = Some old ->
    save_g sh ev keep new A sch f = (f', Raised KBase s) ->
    body_step s = true -> (sh = ShBuf DFirst -> s <> SDumps) -> f' (bak A) = Some old.
Proof. exact save_g_interrupt_keeps_backup. Qed.
Print Assumptions C20_all_branches_interrupt_keeps_backup.

Theorem C20_all_branches_success :
  forall (X : Type) (sh : shape) (ev : env X) (keep : bool) (c : content X)
         (A : path) (f : fs X) (old : content X),
    sh <> ShNone ->
    f A = Some old ->
    exists f' : fs X,
      save_g sh ev keep (Some c) A no_fault f = (f', Done) /\
      f' A = Some c /\ f' (bak A) = (if keep then Some old else None) /\ frame X A f f'.
Proof. exact save_g_success. Qed.
Print Assumptions C20_all_branches_success.

(** one Exception at any step up to and including close, in any branch (a
    streaming serialiser may already have written part of the file): restored *)
Theorem C20_all_branches_single_fault_restores :
  forall (X : Type) (sh : shape) (ev : env X) (keep : bool) (c : content X)
         (A : path) (f : fs X) (old : content X) (k : step) (ft : fault X),
    sh <> ShNone ->
    f A = Some old ->
    write_step k = true ->
    fkind ft = KExc ->
    exists f' : fs X,
      save_g sh ev keep (Some c) A (single k ft) f = (f', Raised KExc k) /\
      f' A = Some old /\
      (k <> SBackup -> (sh = ShBuf DFirst -> k <> SDumps) -> f' (bak A) = None) /\
      (f (bak A) = None -> f' (bak A) = None) /\ frame X A f f'.
Proof. exact save_g_single_fault_restores. Qed.
Print Assumptions C20_all_branches_single_fault_restores.

(** ImportError (tomli_w / yaml missing) or UnsupportedFormatErr - raised after the
    file was renamed away: restored *)
Theorem C20_unavailable_serialiser_restores :
  forall (X : Type) (ev : env X) (keep : bool) (new : option (content X)) (A : path)
         (f : fs X) (old : content X),
    f A = Some old ->
    exists f' : fs X,
      save_g ShNone ev keep new A no_fault f = (f', Raised KExc SDumps) /\
      f' A = Some old /\ f' (bak A) = None /\ frame X A f f'.
Proof. exact save_g_unavailable_restores. Qed.
Print Assumptions C20_unavailable_serialiser_restores.

(** a streaming serialiser rejects the document half way: restored *)
Theorem C20_stream_reject_restores :
  forall (X : Type) (ev : env X) (keep : bool) (A : path) (f : fs X) (old : content X),
    f A = Some old ->
    exists f' : fs X,
      save_g ShStream ev keep None A no_fault f = (f', Raised KExc SDumps) /\
      f' A = Some old /\ f' (bak A) = None /\ frame X A f f'.
Proof. exact save_g_stream_reject_restores. Qed.
Print Assumptions C20_stream_reject_restores.

(** the dispatch on the extension ([path.split('.')[-1]]): exactly eight spellings *)
Theorem C20_extension_dispatch :
  forall (e : PyStr.pystr) (fm : fmt),
    fmt_of_ext e = Some fm <->
    match fm with
    | FJson => e = EXT_JSON
    | FYaml => e = EXT_YAML \/ e = EXT_YML
    | FToml => e = EXT_TOML
    | FPickle => e = EXT_PICKLE
    | FCsv => e = EXT_CSV \/ e = EXT_TSV
    end.
Proof. exact fmt_of_ext_cases. Qed.
Print Assumptions C20_extension_dispatch.

Theorem C20_extension_of_path :
  (forall (p : list N) (e : PyStr.pystr), has_dot e = false -> ext_of (p ++ DOT :: e) = e) /\
  (forall p : PyStr.pystr, has_dot p = false -> ext_of p = p).
Proof. exact (conj ext_of_app ext_of_nodot). Qed.
Print Assumptions C20_extension_of_path.

(** diff --create-patch, then patch, target of ANY supported type whose modules are
    present (the other file of any loadable type): the command completes, A holds
    the serialisation of B's document in A's format, and A now loads as EXACTLY
    what A's loader makes of that text.  Premises: C01, C14. *)
Theorem C20_patch_reproduces_any_format :
  forall (X doc delta : Type) (parse : fmt -> content X -> option doc)
         (dump : fmt -> doc -> option (content X)) (can_load can_save : fmt -> bool)
         (pickle : delta -> content X) (unpickle : content X -> option delta)
         (mk_delta : doc -> doc -> delta) (apply_delta : delta -> doc -> doc),
    (forall a b : doc, apply_delta (mk_delta a b) a = b) ->
    (forall d : delta, unpickle (pickle d) = Some d) ->
    forall (ev : env X) (keep : bool) (A B P : path) (f : fs X) (fa : fmt) (ca : content X)
           (a b : doc) (pd cb' : content X),
      fmt_of_path A = Some fa ->
      can_load fa = true ->
      can_save fa = true ->
      f A = Some ca ->
      parse fa ca = Some a ->
      load_g parse can_load f B = Some b ->
      P <> A ->
      P <> bak A ->
      diff_cmd_g parse can_load pickle mk_delta A B f = Some pd ->
      dump fa b = Some cb' ->
      exists f' : fs X,
        patch_cmd_g parse dump can_load can_save unpickle apply_delta ev keep A P no_fault
                    (upd P (Some pd) f) = (f', Done) /\
        load_g parse can_load f' A = parse fa cb' /\
        f' A = Some cb' /\
        f' (bak A) = (if keep then Some ca else None) /\
        (forall q : path, q <> A -> q <> bak A -> q <> P -> f' q = f q).
Proof. exact patch_reproduces_g. Qed.
Print Assumptions C20_patch_reproduces_any_format.

(** for every file type whose codec round-trips the document, diff -> patch
    reproduces it - and only then *)
Theorem C20_patch_reproduces_iff_codec_roundtrips :
  forall (X doc delta : Type) (parse : fmt -> content X -> option doc)
         (dump : fmt -> doc -> option (content X)) (can_load can_save : fmt -> bool)
         (pickle : delta -> content X) (unpickle : content X -> option delta)
         (mk_delta : doc -> doc -> delta) (apply_delta : delta -> doc -> doc),
    (forall a b : doc, apply_delta (mk_delta a b) a = b) ->
    (forall d : delta, unpickle (pickle d) = Some d) ->
    forall (ev : env X) (keep : bool) (A B P : path) (f : fs X) (fa : fmt) (ca : content X)
           (a b : doc) (pd cb' : content X),
      fmt_of_path A = Some fa ->
      can_load fa = true ->
      can_save fa = true ->
      f A = Some ca ->
      parse fa ca = Some a ->
      load_g parse can_load f B = Some b ->
      P <> A ->
      P <> bak A ->
      diff_cmd_g parse can_load pickle mk_delta A B f = Some pd ->
      dump fa b = Some cb' ->
      exists f' : fs X,
        patch_cmd_g parse dump can_load can_save unpickle apply_delta ev keep A P no_fault
                    (upd P (Some pd) f) = (f', Done) /\
        (load_g parse can_load f' A = Some b <-> parse fa cb' = Some b).
Proof. exact patch_reproduces_iff_codec_roundtrips. Qed.
Print Assumptions C20_patch_reproduces_iff_codec_roundtrips.

(** the round-trip hypothesis cannot be dropped (a codec that forgets part of the
    value, as csv forgets types): all other premises hold, the command completes,
    A does not load as B's document.  Real codecs outside the hypothesis are
    replayed on the implementation at every run (harness: FORMAT_WITNESSES). *)
Theorem C20_codec_roundtrip_needed_refuted :
  exists (A B P : path) (f : fs N) (b : N) (pd : list N),
    (forall a b0 : N, tx_apply (tx_mk a b0) a = b0) /\
    (forall d : N, tx_unpickle (tx_pickle d) = Some d) /\
    fmt_of_path A = Some FCsv /\
    load_g tx_parse (fun _ => true) f B = Some b /\
    diff_cmd_g tx_parse (fun _ => true) tx_pickle tx_mk A B f = Some pd /\
    snd (patch_cmd_g tx_parse tx_dump (fun _ => true) (fun _ => true) tx_unpickle tx_apply
                     env0 false A P no_fault (upd P (Some pd) f)) = Done /\
    load_g tx_parse (fun _ => true)
           (fst (patch_cmd_g tx_parse tx_dump (fun _ => true) (fun _ => true) tx_unpickle tx_apply
                             env0 false A P no_fault (upd P (Some pd) f))) A <> Some b.
Proof. exact codec_roundtrip_needed_refuted. Qed.
Print Assumptions C20_codec_roundtrip_needed_refuted.

(** the serialiser of A's type rejects B's document (csv: an empty list; toml: a
    None; json: a complex number out of a csv file): `deep patch` fails, A keeps
    its bytes, no backup is left *)
Theorem C20_patch_unserialisable_restores_any_format :
  forall (X doc delta : Type) (parse : fmt -> content X -> option doc)
         (dump : fmt -> doc -> option (content X)) (can_load can_save : fmt -> bool)
         (pickle : delta -> content X) (unpickle : content X -> option delta)
         (mk_delta : doc -> doc -> delta) (apply_delta : delta -> doc -> doc),
    (forall a b : doc, apply_delta (mk_delta a b) a = b) ->
    (forall d : delta, unpickle (pickle d) = Some d) ->
    forall (ev : env X) (keep : bool) (A B P : path) (f : fs X) (fa : fmt) (ca : content X)
           (a b : doc) (pd : content X),
      fmt_of_path A = Some fa ->
      can_load fa = true ->
      can_save fa = true ->
      f A = Some ca ->
      parse fa ca = Some a ->
      load_g parse can_load f B = Some b ->
      P <> A ->
      P <> bak A ->
      f (bak A) = None ->
      diff_cmd_g parse can_load pickle mk_delta A B f = Some pd ->
      dump fa b = None ->
      exists f' : fs X,
        patch_cmd_g parse dump can_load can_save unpickle apply_delta ev keep A P no_fault
                    (upd P (Some pd) f) = (f', Raised KExc SDumps) /\
        f' A = Some ca /\
        f' (bak A) = None /\ (forall q : path, q <> A -> q <> bak A -> q <> P -> f' q = f q).
Proof. exact patch_g_unserialisable_restores. Qed.
Print Assumptions C20_patch_unserialisable_restores_any_format.

Theorem C20_patch_single_fault_restores_any_format :
  forall (X doc delta : Type) (parse : fmt -> content X -> option doc)
         (dump : fmt -> doc -> option (content X)) (can_load can_save : fmt -> bool)
         (unpickle : content X -> option delta) (apply_delta : delta -> doc -> doc)
         (ev : env X) (keep debug : bool) (A P : path) (f : fs X) (fa : fmt) (ca : content X)
         (a : doc) (dl : delta) (cnew : content X) (k : step) (ft : fault X),
    fmt_of_path A = Some fa ->
    can_load fa = true ->
    can_save fa = true ->
    f A = Some ca ->
    parse fa ca = Some a ->
    match f P with
    | Some c => unpickle c
    | None => None
    end = Some dl ->
    dump fa (apply_delta dl a) = Some cnew ->
    f (bak A) = None ->
    write_step k = true \/ k = SLoadDelta \/ k = SLoadDoc \/ k = SApply ->
    fkind ft = KExc ->
    exists f' : fs X,
      patch_cmd_g parse dump can_load can_save unpickle apply_delta ev keep A P (single k ft) f =
      (f', Raised KExc k) /\
      f' A = Some ca /\
      f' (bak A) = None /\
      (forall q : path, q <> A -> q <> bak A -> f' q = f q) /\ cli_report debug (Raised KExc k) <> CExit 0.
Proof. exact patch_g_single_fault_restores. Qed.
Print Assumptions C20_patch_single_fault_restores_any_format.

(** unknown extension, parser module missing, unreadable content: nothing is touched *)
Theorem C20_patch_unloadable_untouched :
  forall (X doc delta : Type) (parse : fmt -> content X -> option doc)
         (dump : fmt -> doc -> option (content X)) (can_load can_save : fmt -> bool)
         (unpickle : content X -> option delta) (apply_delta : delta -> doc -> doc)
         (ev : env X) (keep : bool) (A P : path) (sch : schedule X) (f : fs X),
    load_g parse can_load f A = None ->
    exists (k : exn_kind) (s : step),
      patch_cmd_g parse dump can_load can_save unpickle apply_delta ev keep A P sch f = (f, Raised k s) /\
      (s = SLoadDelta \/ s = SLoadDoc).
Proof. exact patch_g_unloadable_untouched. Qed.
Print Assumptions C20_patch_unloadable_untouched.

(** on a .json path [patch_cmd_g] is FsModel.patch_cmd *)
Theorem C20_patch_cmd_json_instance :
  forall (X doc delta : Type) (parse : fmt -> content X -> option doc)
         (dump : fmt -> doc -> option (content X)) (can_load can_save : fmt -> bool)
         (unpickle : content X -> option delta) (apply_delta : delta -> doc -> doc)
         (keep : bool) (A P : path) (sch : schedule X) (f : fs X),
    fmt_of_path A = Some FJson ->
    can_load FJson = true ->
    can_save FJson = true ->
    snd (patch_cmd_g parse dump can_load can_save unpickle apply_delta env0 keep A P sch f) =
    snd (patch_cmd (parse FJson) (dump FJson) unpickle apply_delta DInside keep A P sch f) /\
    (forall q : path,
        fst (patch_cmd_g parse dump can_load can_save unpickle apply_delta env0 keep A P sch f) q =
        fst (patch_cmd (parse FJson) (dump FJson) unpickle apply_delta DInside keep A P sch f) q).
Proof. exact patch_cmd_g_json. Qed.
Print Assumptions C20_patch_cmd_json_instance.

(** the pickle branch with the codec of the C14 block: the round-trip hypothesis is
    a theorem (every well-formed payload over resolvable classes) *)
Theorem C20_pickle_codec_roundtrips :
  forall (w : Vm.world) (parse0 : fmt -> list Vm.op -> option Codec.pv)
         (dump0 : fmt -> Codec.pv -> option (list Vm.op)) (d : Codec.pv) (c : list Vm.op),
    CodecProofs.calls_ok w ->
    CodecProofs.types_ok w d ->
    Codec.wfp d = true -> dump_p dump0 FPickle d = Some c -> parse_p w parse0 FPickle c = Some d.
Proof. exact pickle_codec_roundtrips. Qed.
Print Assumptions C20_pickle_codec_roundtrips.

Theorem C20_patch_reproduces_pickle_docs :
  forall (w : Vm.world) (parse0 : fmt -> list Vm.op -> option Codec.pv)
         (dump0 : fmt -> Codec.pv -> option (list Vm.op)) (can_load can_save : fmt -> bool)
         (delta : Type) (pickle : delta -> list Vm.op) (unpickle : list Vm.op -> option delta)
         (mk_delta : Codec.pv -> Codec.pv -> delta) (apply_delta : delta -> Codec.pv -> Codec.pv),
    (forall a b : Codec.pv, apply_delta (mk_delta a b) a = b) ->
    (forall d : delta, unpickle (pickle d) = Some d) ->
    forall (ev : env Vm.op) (keep : bool) (A B P : path) (f : fs Vm.op) (ca : content Vm.op)
           (a b : Codec.pv) (pd : content Vm.op),
      fmt_of_path A = Some FPickle ->
      can_load FPickle = true ->
      can_save FPickle = true ->
      CodecProofs.calls_ok w ->
      CodecProofs.types_ok w b ->
      Codec.wfp b = true ->
      f A = Some ca ->
      Codec.load w ca = Some a ->
      load_g (parse_p w parse0) can_load f B = Some b ->
      P <> A ->
      P <> bak A ->
      diff_cmd_g (parse_p w parse0) can_load pickle mk_delta A B f = Some pd ->
      exists f' : fs Vm.op,
        patch_cmd_g (parse_p w parse0) (dump_p dump0) can_load can_save unpickle apply_delta ev keep A P
                    no_fault (upd P (Some pd) f) = (f', Done) /\
        load_g (parse_p w parse0) can_load f' A = Some b /\
        f' A = Some (Codec.enc_prog b) /\
        f' (bak A) = (if keep then Some ca else None) /\
        (forall q : path, q <> A -> q <> bak A -> q <> P -> f' q = f q).
Proof. exact patch_reproduces_pickle_docs. Qed.
Print Assumptions C20_patch_reproduces_pickle_docs.

(** (3) histories ------------------------------------------------------------ *)

(** ONE `deep patch` under ANY schedule whose debris does not load: the invariant
    "the complete version [cur] is in A, or in A.bak while A does not load" is
    kept for [cur], or the command wrote its own content completely *)
Theorem C20_history_step :
  forall (X doc delta : Type) (parse : fmt -> content X -> option doc)
         (dump : fmt -> doc -> option (content X)) (can_load can_save : fmt -> bool)
         (unpickle : content X -> option delta) (apply_delta : delta -> doc -> doc)
         (ev : env X) (keep : bool) (A P : path) (sch : schedule X) (f f' : fs X)
         (o : outcome) (cur : content X) (fa : fmt),
    fmt_of_path A = Some fa ->
    debris_unloadable parse fa ev sch ->
    Inv parse can_load A f cur ->
    patch_cmd_g parse dump can_load can_save unpickle apply_delta ev keep A P sch f = (f', o) ->
    (forall q : path, q <> A -> q <> bak A -> f' q = f q) /\
    (Inv parse can_load A f' cur \/
     (exists (dl : delta) (a : doc) (c : content X),
         parse fa cur = Some a /\ dump fa (apply_delta dl a) = Some c /\ f' A = Some c)) /\
    (o = Done -> f A = Some cur /\ f' (bak A) = (if keep then Some cur else None)).
Proof. exact patch_g_inv_step. Qed.
Print Assumptions C20_history_step.

(** ANY sequence of `deep patch` commands on A - successful, failed, interrupted,
    in any order, under ANY fault schedules whose debris does not load: a complete
    version (a member of any set [Good] that contains the initial content and is
    closed under load / apply a delta / serialise) is in A, or in A.bak while A
    does not load; no other file changes *)
Theorem C20_history_good_version_survives :
  forall (X doc delta : Type) (parse : fmt -> content X -> option doc)
         (dump : fmt -> doc -> option (content X)) (can_load can_save : fmt -> bool)
         (unpickle : content X -> option delta) (apply_delta : delta -> doc -> doc)
         (fa : fmt) (Good : content X -> Prop),
    (forall (c : content X) (a : doc) (dl : delta) (c' : content X),
        Good c -> parse fa c = Some a -> dump fa (apply_delta dl a) = Some c' -> Good c') ->
    forall (A : path) (cs : list (cmd X)) (f : fs X),
      fmt_of_path A = Some fa ->
      Forall (fun c : cmd X => debris_unloadable parse fa (c_env c) (c_sch c)) cs ->
      (exists cur : content X, Good cur /\ Inv parse can_load A f cur) ->
      (exists cur' : content X,
          Good cur' /\
          Inv parse can_load A (fst (run_hist parse dump can_load can_save unpickle apply_delta A cs f)) cur') /\
      (forall q : path,
          q <> A ->
          q <> bak A -> fst (run_hist parse dump can_load can_save unpickle apply_delta A cs f) q = f q).
Proof. exact hist_good_version_survives. Qed.
Print Assumptions C20_history_good_version_survives.

(** the debris guard is needed: two interrupted patches whose debris loads *)
Theorem C20_history_loadable_debris_refuted :
  exists (A _ : path) (f : fs N) (cs : list (cmd N)),
    fmt_of_path A = Some FJson /\
    (exists cur : list N, hx_Good cur /\ Inv hx_parse (fun _ : fmt => true) A f cur) /\
    ~ (exists cur : list N,
          hx_Good cur /\
          Inv hx_parse (fun _ : fmt => true) A
              (fst (run_hist hx_parse hx_dump (fun _ : fmt => true) (fun _ : fmt => true) hx_unpickle
                             (fun d _ : N => d) A cs f)) cur).
Proof. exact hist_loadable_debris_refuted. Qed.
Print Assumptions C20_history_loadable_debris_refuted.

(** ANY sequence of save_content_to_path calls in which every failure is clean (an
    Exception rolled back, or a failure before the rename): (A, A.bak) is EXACTLY
    what the sequential specification [spec_saves] says - a completed call installs
    its content and keeps the previous one iff keep_backup, a call failing before
    the rename changes nothing, a call failing after it restores A and consumes
    an earlier backup file *)
Theorem C20_history_clean_exact :
  forall (X : Type) (A : path) (cs : list (scmd X)) (f : fs X) (old : content X),
    f A = Some old ->
    all_clean cs (snd (run_saves A cs f)) = true ->
    view X A (fst (run_saves A cs f)) = spec_saves cs (snd (run_saves A cs f)) (view X A f) /\
    frame X A f (fst (run_saves A cs f)).
Proof. exact saves_clean_exact. Qed.
Print Assumptions C20_history_clean_exact.

(** patch --backup, then a patch whose write fails: A is restored, the backup of
    the first patch is gone (inside the statement: "no stray backup remains") *)
Example C20_failed_patch_consumes_backup :
  let cs := [hx_cmd true (Some [2%N]) no_fault;
             hx_cmd true (Some [3%N]) (single SWrite {| fkind := KExc; fdisk := Some [] |})] in
  let r := run_saves hx_A cs hx_f in
  snd r = [Done; Raised KExc SWrite] /\
  fst r hx_A = Some [2%N] /\
  fst r (bak hx_A) = None /\
  all_clean cs (snd r) = true /\ spec_saves cs (snd r) (Some [1%N], None) = (Some [2%N], None).
Proof. exact ex_failed_patch_consumes_backup. Qed.
Print Assumptions C20_failed_patch_consumes_backup.

(** non-vacuity of C20_history_good_version_survives: an interrupted patch whose debris
    does not load, then another command - inside the guard; the second command
    refuses to go on (A does not load), the complete version stays in A.bak *)
Example C20_history_guard_satisfiable :
  Forall (fun c => debris_unloadable hx_parse FJson (c_env c) (c_sch c)) hx_hist /\
  (exists cur, hx_Good cur /\ Inv hx_parse (fun _ => true) hx_A hx_f2 cur) /\
  let r := run_hist hx_parse hx_dump (fun _ => true) (fun _ => true) hx_unpickle (fun (d : N) (_ : N) => d)
                    hx_A hx_hist hx_f2 in
  snd r = [Raised KBase SWrite; Raised KExc SLoadDoc] /\
  fst r hx_A = Some [7%N; 8%N; 9%N] /\ fst r (bak hx_A) = Some [1%N].
Proof. exact ex_history_guard_satisfiable. Qed.
Print Assumptions C20_history_guard_satisfiable.


(** ========================================================================
    Wave 2.  (4) the option plumbing of `deep diff` (Cli/OptModel.v, OptProofs.v):
    which options keep "diff -> patch reproduces the file"; (5) two concurrent
    `deep patch` commands on one file (Cli/ConcModel.v, ConcProofs.v; extension). *)
From DD Require Import Cli.OptModel Cli.OptProofs.

(** `deep diff --create-patch <options>` cannot produce a patch exactly under
    --group-by, --ignore-order without --report-repetition, --cache-purge-level 2 *)
Theorem C20_diff_options_fail_iff :
  forall hatom udiff ops conv (o : opts) (a b : Value.value),
    diff_opts hatom udiff ops conv o a b = None <->
    (o_group_by o = true \/ (o_ignore_order o = true /\ o_report_repetition o = false) \/ o_cache_purge_level o = 2).
Proof. exact diff_opts_fails_iff. Qed.
Print Assumptions C20_diff_options_fail_iff.

(** under EVERY exact option combination (nothing ignored: any threshold, verbosity,
    cache / cutoff settings, --report-repetition, --get-deep-distance, --max-passes,
    --progress-logger, --include-private-variables, --debug) the delta is the one of
    the diff model under [cfg_of o] ... *)
Theorem C20_exact_options_delta :
  forall hatom udiff ops conv (o : opts) (a b : Value.value),
    exact o = true ->
    mk_delta_opts hatom udiff ops conv o a b =
    DeltaChain.delta_of hatom udiff ops (cfg_of o) conv false false a b.
Proof. exact mk_delta_opts_exact. Qed.
Print Assumptions C20_exact_options_delta.

(** ... and the end-to-end clause holds (same premises as
    C20_patch_reproduces_json_docs; the '__' guard disappears with
    --include-private-variables) *)
Theorem C20_patch_reproduces_json_docs_options :
  forall (X : Type) (parse : FsModel.content X -> option Value.value)
         (dump : Value.value -> option (FsModel.content X))
         (pickle : DeltaModel.delta -> FsModel.content X)
         (unpickle : FsModel.content X -> option DeltaModel.delta)
         (hatom : Value.atom -> PyStr.pystr)
         (udiff : PyStr.pystr -> PyStr.pystr -> PyStr.pystr)
         (ops : Value.path -> list Value.value -> list Value.value -> list Tree.opcode)
         (conv : Value.ty -> Value.value -> option Value.value)
         (ro : list (Value.path * Value.value) -> list (Value.path * Value.value))
         (ao : list (Value.path * option Value.value) -> list (Value.path * option Value.value)),
    (forall a b : Value.atom, hatom a = hatom b -> a = b) ->
    (forall (ty0 : Value.ty) (v v' : Value.value), conv ty0 v = Some v' -> Value.type_of v' = ty0) ->
    JsonDocs.conv_json_ok conv ->
    (forall (p : Value.path) (xs ys : list Value.value),
        List.forallb DiffModel.is_atom xs = true ->
        List.forallb DiffModel.is_atom ys = true ->
        DeltaGuard.valid_ops xs ys (ops p xs ys)) ->
    DeltaRun.ro_ok ro ->
    DeltaRun.ao_ok ao ->
    (forall (d : Value.value) (cc : FsModel.content X), dump d = Some cc -> parse cc = Some d) ->
    (forall d : DeltaModel.delta, unpickle (pickle d) = Some d) ->
    forall (o : opts) (pos : FsModel.dumps_pos) (keep : bool) (A B P : FsModel.path) (f : FsModel.fs X)
           (ca : FsModel.content X) (a b : Value.value) (pd : FsModel.content X),
      exact o = true ->
      f A = Some ca ->
      parse ca = Some a ->
      FsModel.load parse f B = Some b ->
      P <> A ->
      P <> FsModel.bak A ->
      JsonDocs.is_json a = true ->
      JsonDocs.is_json b = true ->
      Value.wf a = true ->
      Value.wf b = true ->
      DeltaGuard.alias_free (DeltaGuard.atoms_of a ++ DeltaGuard.atoms_of b) ->
      o_include_private o = true \/ DeltaGuard.nopriv a = true /\ DeltaGuard.nopriv b = true ->
      diff_cmd_opts X parse pickle hatom udiff ops conv o A B f = Some pd ->
      exists b' : Value.value,
        DeltaModel.apply conv ro ao (mk_delta_opts hatom udiff ops conv o a b) a = (b', 0) /\
        DeltaGuard.veqb b' b = true /\
        (forall cr : FsModel.content X,
            dump b' = Some cr ->
            exists f' : FsModel.fs X,
              FsModel.patch_cmd parse dump unpickle (JsonDocs.apply_delta_json conv ro ao) pos keep A P
                                FsModel.no_fault (FsModel.upd P (Some pd) f) = (f', FsModel.Done) /\
              FsModel.load parse f' A = Some b' /\
              f' A = Some cr /\
              f' (FsModel.bak A) = (if keep then Some ca else None) /\
              (forall q : FsModel.path, q <> A -> q <> FsModel.bak A -> q <> P -> f' q = f q)).
Proof.
  intros X parse dump pickle unpickle hatom udiff ops conv ro ao H1 H2 H3 H4 H5 H6 H7 H8.
  exact (patch_reproduces_json_opts X parse dump pickle unpickle hatom udiff ops conv ro ao H1 H2 H3 H4 H5 H6 H7 H8).
Qed.
Print Assumptions C20_patch_reproduces_json_docs_options.

(** outside [exact] the clause fails: --exclude-paths root['a'] (modelled: DiffModel's
    [skip]); the other ignoring options are replayed on the real CLI (OPTION_WITNESSES) *)
Theorem C20_option_exclude_paths_refuted :
  delta_possible ox_opts = true /\ exact ox_opts = false /\
  JsonDocs.json_guardsb (cfg_of ox_opts) ox_t1 ox_t2 = true /\
  DeltaModel.apply DeltaExamples.conv_none (@rev _) (fun l => l)
    (mk_delta_opts DeltaExamples.hatom_ex (fun _ _ => []) DeltaExamples.no_ops DeltaExamples.conv_none ox_opts ox_t1 ox_t2) ox_t1
    = (ox_res, 0) /\
  DeltaGuard.veqb ox_res ox_t2 = false /\
  DeltaGuard.veqb (fst (DeltaModel.apply DeltaExamples.conv_none (@rev _) (fun l => l)
               (mk_delta_opts DeltaExamples.hatom_ex (fun _ _ => []) DeltaExamples.no_ops DeltaExamples.conv_none default_opts ox_t1 ox_t2) ox_t1)) ox_t2 = true.
Proof. exact option_exclude_paths_refuted. Qed.
Print Assumptions C20_option_exclude_paths_refuted.

Example C20_exact_options_satisfiable :
  exact default_opts = true /\ exact ox_many = true /\ cfg_of ox_many = DiffModel.mkCfg false 1 1 false.
Proof. exact exact_satisfiable. Qed.
Print Assumptions C20_exact_options_satisfiable.

From DD Require Import Cli.ConcModel Cli.ConcProofs.

(** EVERY interleaving of two concurrent `deep patch` commands (the bound is in the
    statement: two processes, the step programs Load/Backup/Open/Flush[/Remove],
    every merge of their moves): at the end A holds a complete version built on the
    original with at least one update, A.bak is absent or complete, and A has BOTH
    updates exactly when the runs did not overlap *)
Theorem C20_concurrent_every_interleaving :
  forall (k1 k2 : bool) (il : list bool), balanced k1 k2 il = true -> good_end k1 k2 il = true.
Proof. exact conc_every_interleaving. Qed.
Print Assumptions C20_concurrent_every_interleaving.

(** a lost update is silent (both exit 0), and a command can fail although its update is in the file *)
Theorem C20_concurrent_silent_lost_update :
  balanced false false il_lost = true /\
  (let '(p1, p2, f) := run2 false false il_lost in
   finished p1 = true /\ finished p2 = true /\
   content_of (c_A f) f = Some [2%N; 0%N] /\ content_of (c_bak f) f = None) /\
  silent_loss false false il_lost = true.
Proof. exact conc_silent_lost_update. Qed.
Print Assumptions C20_concurrent_silent_lost_update.

Theorem C20_concurrent_false_alarm :
  balanced false false il_alarm = true /\ serial il_alarm = true /\
  (let '(p1, p2, f) := run2 false false il_alarm in
   p_status p1 = Finished /\ p_status p2 = Failed CRemove /\
   content_of (c_A f) f = Some [2%N; 1%N; 0%N]) /\
  false_alarm false false il_alarm = true.
Proof. exact conc_false_alarm. Qed.
Print Assumptions C20_concurrent_false_alarm.

(** ========================================================================
    Placement of the serialisation call (Cli/PlaceModel.v, PlaceProofs.v).
    FormatModel.patch_cmd_g / run_hist fix the json branch at [ShBuf DInside] (where
    the code calls json_dumps).  [patch_cmd_gp pos] / [run_hist_p] take the placement
    as a parameter - the correspondence check evaluates them at the placement it reads
    off the implementation's call trace, so that moving json_dumps out of the `with`
    block (a property-preserving rewrite) is not reported.  Below: at [DInside] they
    ARE the programs of round 3; on a json target [patch_cmd_gp pos] is
    FsModel.patch_cmd at the same [pos] (for which C20_patch_reproduces,
    C20_patch_single_fault_restores ... are stated, all [pos]); the history theorems
    hold for every placement. *)
From DD Require Import Cli.PlaceModel Cli.PlaceProofs.

Theorem C20_placement_inside_is_patch_cmd_g :
  forall (X doc delta : Type) (parse : fmt -> FsModel.content X -> option doc)
         (dump : fmt -> doc -> option (FsModel.content X)) (can_load can_save : fmt -> bool)
         (unpickle : FsModel.content X -> option delta) (apply_delta : delta -> doc -> doc)
         (ev : GenModel.env X) (keep : bool) (A P : FsModel.path) (sch : FsModel.schedule X) (f : FsModel.fs X),
    patch_cmd_gp parse dump can_load can_save unpickle apply_delta FsModel.DInside ev keep A P sch f =
    patch_cmd_g parse dump can_load can_save unpickle apply_delta ev keep A P sch f.
Proof. exact patch_cmd_gp_inside. Qed.
Print Assumptions C20_placement_inside_is_patch_cmd_g.

Theorem C20_placement_inside_is_run_hist :
  forall (X doc delta : Type) (parse : fmt -> FsModel.content X -> option doc)
         (dump : fmt -> doc -> option (FsModel.content X)) (can_load can_save : fmt -> bool)
         (unpickle : FsModel.content X -> option delta) (apply_delta : delta -> doc -> doc)
         (A : FsModel.path) (cs : list (cmd X)) (f : FsModel.fs X),
    run_hist_p parse dump can_load can_save unpickle apply_delta A (map (pair FsModel.DInside) cs) f =
    run_hist parse dump can_load can_save unpickle apply_delta A cs f.
Proof. exact run_hist_p_inside. Qed.
Print Assumptions C20_placement_inside_is_run_hist.

(** the placement concerns the json branch only *)
Theorem C20_placement_other_formats :
  forall (X doc delta : Type) (parse : fmt -> FsModel.content X -> option doc)
         (dump : fmt -> doc -> option (FsModel.content X)) (can_load can_save : fmt -> bool)
         (unpickle : FsModel.content X -> option delta) (apply_delta : delta -> doc -> doc)
         (pos : FsModel.dumps_pos) (ev : GenModel.env X) (keep : bool) (A P : FsModel.path)
         (sch : FsModel.schedule X) (f : FsModel.fs X),
    fmt_of_path A <> Some FJson ->
    patch_cmd_gp parse dump can_load can_save unpickle apply_delta pos ev keep A P sch f =
    patch_cmd_g parse dump can_load can_save unpickle apply_delta ev keep A P sch f.
Proof. exact patch_cmd_gp_other_formats. Qed.
Print Assumptions C20_placement_other_formats.

(** on a .json path [patch_cmd_gp pos] is FsModel.patch_cmd at the same placement *)
Theorem C20_placement_json_instance :
  forall (X doc delta : Type) (parse : fmt -> FsModel.content X -> option doc)
         (dump : fmt -> doc -> option (FsModel.content X)) (can_load can_save : fmt -> bool)
         (unpickle : FsModel.content X -> option delta) (apply_delta : delta -> doc -> doc)
         (pos : FsModel.dumps_pos) (keep : bool) (A P : FsModel.path) (sch : FsModel.schedule X) (f : FsModel.fs X),
    fmt_of_path A = Some FJson ->
    can_load FJson = true ->
    can_save FJson = true ->
    snd (patch_cmd_gp parse dump can_load can_save unpickle apply_delta pos GenModel.env0 keep A P sch f) =
    snd (FsModel.patch_cmd (parse FJson) (dump FJson) unpickle apply_delta pos keep A P sch f) /\
    (forall q : FsModel.path,
        fst (patch_cmd_gp parse dump can_load can_save unpickle apply_delta pos GenModel.env0 keep A P sch f) q =
        fst (FsModel.patch_cmd (parse FJson) (dump FJson) unpickle apply_delta pos keep A P sch f) q).
Proof. exact patch_cmd_gp_json. Qed.
Print Assumptions C20_placement_json_instance.

(** C20_history_step for EVERY placement of the serialisation call *)
Theorem C20_history_step_any_placement :
  forall (X doc delta : Type) (parse : fmt -> FsModel.content X -> option doc)
         (dump : fmt -> doc -> option (FsModel.content X)) (can_load can_save : fmt -> bool)
         (unpickle : FsModel.content X -> option delta) (apply_delta : delta -> doc -> doc)
         (pos : FsModel.dumps_pos) (ev : GenModel.env X) (keep : bool) (A P : FsModel.path)
         (sch : FsModel.schedule X) (f f' : FsModel.fs X) (o : FsModel.outcome) (cur : FsModel.content X) (fa : fmt),
    fmt_of_path A = Some fa ->
    debris_unloadable parse fa ev sch ->
    Inv parse can_load A f cur ->
    patch_cmd_gp parse dump can_load can_save unpickle apply_delta pos ev keep A P sch f = (f', o) ->
    (forall q : FsModel.path, q <> A -> q <> FsModel.bak A -> f' q = f q) /\
    (Inv parse can_load A f' cur \/
     (exists (dl : delta) (a : doc) (c : FsModel.content X),
         parse fa cur = Some a /\ dump fa (apply_delta dl a) = Some c /\ f' A = Some c)) /\
    (o = FsModel.Done -> f A = Some cur /\ f' (FsModel.bak A) = (if keep then Some cur else None)).
Proof. exact patch_gp_inv_step. Qed.
Print Assumptions C20_history_step_any_placement.

(** C20_history_good_version_survives for EVERY placement, command by command *)
Theorem C20_history_good_version_survives_any_placement :
  forall (X doc delta : Type) (parse : fmt -> FsModel.content X -> option doc)
         (dump : fmt -> doc -> option (FsModel.content X)) (can_load can_save : fmt -> bool)
         (unpickle : FsModel.content X -> option delta) (apply_delta : delta -> doc -> doc)
         (fa : fmt) (Good : FsModel.content X -> Prop),
    (forall (c : FsModel.content X) (a : doc) (dl : delta) (c' : FsModel.content X),
        Good c -> parse fa c = Some a -> dump fa (apply_delta dl a) = Some c' -> Good c') ->
    forall (A : FsModel.path) (cs : list (FsModel.dumps_pos * cmd X)) (f : FsModel.fs X),
      fmt_of_path A = Some fa ->
      Forall (fun c : FsModel.dumps_pos * cmd X => debris_unloadable parse fa (c_env (snd c)) (c_sch (snd c))) cs ->
      (exists cur : FsModel.content X, Good cur /\ Inv parse can_load A f cur) ->
      (exists cur' : FsModel.content X,
          Good cur' /\
          Inv parse can_load A (fst (run_hist_p parse dump can_load can_save unpickle apply_delta A cs f)) cur') /\
      (forall q : FsModel.path,
          q <> A ->
          q <> FsModel.bak A -> fst (run_hist_p parse dump can_load can_save unpickle apply_delta A cs f) q = f q).
Proof. exact hist_p_good_version_survives. Qed.
Print Assumptions C20_history_good_version_survives_any_placement.

(** the parameter is not idle: an interrupt at the serialisation step leaves the target
    empty (json_dumps inside the `with` block) or absent (before `open`); the original is
    in A.bak both times *)
Example C20_placement_observable :
  let sch := FsModel.single FsModel.SDumps (FsModel.mkFault FsModel.KBase None) in
  let run pos := patch_cmd_gp hx_parse hx_dump (fun _ => true) (fun _ => true) hx_unpickle (fun (d : N) (_ : N) => d)
                              pos GenModel.env0 false hx_A hx_P sch hx_f2 in
  snd (run FsModel.DInside) = FsModel.Raised FsModel.KBase FsModel.SDumps /\
  snd (run FsModel.DBeforeOpen) = FsModel.Raised FsModel.KBase FsModel.SDumps /\
  fst (run FsModel.DInside) hx_A = Some [] /\ fst (run FsModel.DBeforeOpen) hx_A = None /\
  fst (run FsModel.DInside) (FsModel.bak hx_A) = Some [1%N] /\ fst (run FsModel.DBeforeOpen) (FsModel.bak hx_A) = Some [1%N].
Proof. exact ex_placement_observable. Qed.
Print Assumptions C20_placement_observable.

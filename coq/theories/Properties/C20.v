(** C20 - CLI: `deep diff A B --create-patch` then `deep patch A <patch>`
    reproduces B in A; with --backup the previous content is kept in A.bak; if
    writing the patched content fails at any step, A is left with its original
    content and no stray backup file remains.

    Final statements only.  Model: Cli/FsModel.v ([save] = the program of
    serialization.save_content_to_path/_save_content for json, [patch_cmd] =
    commands.patch), proofs: Cli/FsProofs.v.  [X] is the (arbitrary) type of
    content units; [pos] the placement of the serialisation step (the code has
    [DInside]); [frame X A f f'] says every path other than A and A.bak is
    unchanged. *)
From Coq Require Import List Bool NArith.
Import ListNotations.
From DD Require Import Base.PyStr Cli.FsModel Cli.FsProofs.

(** no fault: A = new content, A.bak = old content iff keep_backup, no exception *)
Theorem C20_success :
  forall (X : Type) (pos : dumps_pos) (keep : bool) (c : content X) (A : path)
         (f : fs X) (old : content X),
    f A = Some old ->
    exists f' : fs X,
      save pos keep (Some c) A no_fault f = (f', Done) /\
      f' A = Some c /\
      f' (bak A) = (if keep then Some old else None) /\
      frame X A f f'.
Proof. exact save_success. Qed.
Print Assumptions C20_success.

(** exactly one fault, raising an Exception, at any step up to and including
    close (rename to backup, open, serialise, write, close), with arbitrary
    debris left on disk by the failing step: that exception propagates, A has
    its old content, A.bak is gone, nothing else is touched.
    Guard: [fkind ft = KExc] (see C20_single_fault_any_kind_refuted). *)
Theorem C20_single_fault_restores :
  forall (X : Type) (pos : dumps_pos) (keep : bool) (c : content X) (A : path)
         (f : fs X) (old : content X) (k : step) (ft : fault X),
    f A = Some old ->
    write_step k = true ->
    fkind ft = KExc ->
    exists f' : fs X,
      save pos keep (Some c) A (single k ft) f = (f', Raised KExc k) /\
      f' A = Some old /\
      (k <> SBackup -> (pos = DFirst -> k <> SDumps) -> f' (bak A) = None) /\
      (f (bak A) = None -> f' (bak A) = None) /\
      frame X A f f'.
Proof. exact save_single_fault_restores. Qed.
Print Assumptions C20_single_fault_restores.

(** without the guard the statement is false: KeyboardInterrupt during write *)
Theorem C20_single_fault_any_kind_refuted :
  exists (A : path) (f : fs N) (old c : list N) (k : step) (ft : fault N),
    f A = Some old /\ write_step k = true /\
    fst (save DInside false (Some c) A (single k ft) f) A <> Some old /\
    fst (save DInside false (Some c) A (single k ft) f) (bak A) <> None.
Proof. exact single_fault_any_kind_refuted. Qed.
Print Assumptions C20_single_fault_any_kind_refuted.

(** the serialiser rejects the patched document (no injected fault): restored *)
Theorem C20_unserialisable_restores :
  forall (X : Type) (pos : dumps_pos) (keep : bool) (A : path) (f : fs X) (old : content X),
    f A = Some old ->
    exists f' : fs X,
      save pos keep None A no_fault f = (f', Raised KExc SDumps) /\
      f' A = Some old /\ (f (bak A) = None -> f' (bak A) = None) /\ frame X A f f'.
Proof. exact save_unserialisable_restores. Qed.
Print Assumptions C20_unserialisable_restores.

(** EVERY fault schedule: if the call returns normally the result is right *)
Theorem C20_done_is_correct :
  forall (X : Type) (pos : dumps_pos) (keep : bool) (new : option (content X)) (A : path)
         (sch : schedule X) (f f' : fs X) (old : content X),
    f A = Some old ->
    save pos keep new A sch f = (f', Done) ->
    exists c : content X,
      new = Some c /\ f' A = Some c /\
      f' (bak A) = (if keep then Some old else None) /\ frame X A f f'.
Proof. exact save_done_correct. Qed.
Print Assumptions C20_done_is_correct.

(** EVERY fault schedule (any number of faults, any kinds, any debris): if the
    call raises, the old content survives in A or in A.bak *)
Theorem C20_failure_never_loses_content :
  forall (X : Type) (pos : dumps_pos) (keep : bool) (new : option (content X)) (A : path)
         (sch : schedule X) (f f' : fs X) (old : content X) (k : exn_kind) (s : step),
    f A = Some old ->
    save pos keep new A sch f = (f', Raised k s) ->
    (f' A = Some old \/ f' (bak A) = Some old) /\ frame X A f f'.
Proof. exact save_raised_keeps_old. Qed.
Print Assumptions C20_failure_never_loses_content.

(** EVERY fault schedule: whenever what propagates is an Exception raised by a
    step other than the restoring rename / the final remove (e.g. write fails
    and then close fails too), A is restored and the backup is gone *)
Theorem C20_exception_restores_any_schedule :
  forall (X : Type) (pos : dumps_pos) (keep : bool) (new : option (content X)) (A : path)
         (sch : schedule X) (f f' : fs X) (old : content X) (s : step),
    f A = Some old ->
    save pos keep new A sch f = (f', Raised KExc s) ->
    s <> SRestore -> s <> SRemove ->
    f' A = Some old /\
    (body_step s = true -> (pos = DFirst -> s <> SDumps) -> f' (bak A) = None) /\
    (f (bak A) = None -> f' (bak A) = None) /\
    frame X A f f'.
Proof. exact save_exception_restores. Qed.
Print Assumptions C20_exception_restores_any_schedule.

(** outside the statement, stated for honesty *)

(** a BaseException (KeyboardInterrupt) inside the try block is not caught: the
    backup stays and holds the old content (A holds the debris) *)
Theorem C20_interrupt_keeps_backup :
  forall (X : Type) (pos : dumps_pos) (keep : bool) (new : option (content X)) (A : path)
         (sch : schedule X) (f f' : fs X) (old : content X) (s : step),
    f A = Some old ->
    save pos keep new A sch f = (f', Raised KBase s) ->
    body_step s = true -> (pos = DFirst -> s <> SDumps) ->
    f' (bak A) = Some old.
Proof. exact save_interrupt_keeps_backup. Qed.
Print Assumptions C20_interrupt_keeps_backup.

(** the final os.remove fails: new content in place, backup left behind, and
    the command reports an error although A was patched *)
Theorem C20_remove_fault_leaves_backup :
  forall (X : Type) (pos : dumps_pos) (c : content X) (A : path) (f : fs X)
         (old : content X) (ft : fault X),
    f A = Some old ->
    exists f' : fs X,
      save pos false (Some c) A (single SRemove ft) f = (f', Raised (fkind ft) SRemove) /\
      f' A = Some c /\ f' (bak A) = Some old.
Proof. exact save_remove_fault. Qed.
Print Assumptions C20_remove_fault_leaves_backup.

(** double fault (a body step, then the restoring rename): A holds the debris,
    the old content is in A.bak *)
Theorem C20_restore_fault_keeps_backup :
  forall (X : Type) (pos : dumps_pos) (keep : bool) (c : content X) (A : path) (f : fs X)
         (old : content X) (k : step) (d : option (content X)) (ft2 : fault X),
    f A = Some old -> body_step k = true -> k <> SDumps ->
    exists f' : fs X,
      save pos keep (Some c) A (sched_of [(k, mkFault KExc d); (SRestore, ft2)]) f
      = (f', Raised (fkind ft2) SRestore) /\
      f' A = d /\ f' (bak A) = Some old.
Proof. exact save_restore_fault. Qed.
Print Assumptions C20_restore_fault_keeps_backup.

(** an A.bak that existed before `deep patch` (without --backup) is destroyed *)
Theorem C20_preexisting_backup_lost :
  forall (X : Type) (pos : dumps_pos) (c : content X) (A : path) (f : fs X) (old x : content X),
    f A = Some old -> f (bak A) = Some x ->
    exists f' : fs X, save pos false (Some c) A no_fault f = (f', Done) /\ f' (bak A) = None.
Proof. exact save_preexisting_backup_lost. Qed.
Print Assumptions C20_preexisting_backup_lost.

(** the command line level *)

(** diff --create-patch, then patch, no failure: A loads as B's document; the
    backup is kept iff --backup and holds A's previous bytes; nothing else is
    touched.  The three hypotheses are: property C01 (delta application
    reproduces t2), property C14 (a persisted delta is the same delta) and the
    JSON text round trip; they are proved / checked in their own blocks. *)
Theorem C20_patch_reproduces :
  forall (X doc delta : Type) (parse : content X -> option doc)
         (dump : doc -> option (content X)) (pickle : delta -> content X)
         (unpickle : content X -> option delta)
         (mk_delta : doc -> doc -> delta) (apply_delta : delta -> doc -> doc),
    (forall a b : doc, apply_delta (mk_delta a b) a = b) ->
    (forall d : delta, unpickle (pickle d) = Some d) ->
    (forall (d : doc) (c : content X), dump d = Some c -> parse c = Some d) ->
    forall (pos : dumps_pos) (keep : bool) (A B P : path)
           (f : fs X) (ca : content X) (a b : doc) (pd cb' : content X),
      f A = Some ca ->
      parse ca = Some a ->
      load parse f B = Some b ->
      P <> A ->
      P <> bak A ->
      diff_cmd parse pickle mk_delta A B f = Some pd ->
      dump b = Some cb' ->
      exists f' : fs X,
        patch_cmd parse dump unpickle apply_delta pos keep A P no_fault
                  (upd P (Some pd) f) = (f', Done) /\
        load parse f' A = Some b /\
        f' A = Some cb' /\
        f' (bak A) = (if keep then Some ca else None) /\
        (forall q : path, q <> A -> q <> bak A -> q <> P -> f' q = f q).
Proof. exact patch_reproduces. Qed.
Print Assumptions C20_patch_reproduces.

(** one Exception anywhere in `deep patch` (loading the patch or the document,
    applying the delta, any save step up to close): A keeps its bytes, no A.bak
    appears, nothing else changes, and the process does not report success *)
Theorem C20_patch_single_fault_restores :
  forall (X doc delta : Type) (parse : content X -> option doc)
         (dump : doc -> option (content X))
         (unpickle : content X -> option delta)
         (apply_delta : delta -> doc -> doc) (pos : dumps_pos)
         (keep debug : bool) (A P : path) (f : fs X)
         (ca : content X) (a : doc) (dl : delta) (cnew : content X)
         (k : step) (ft : fault X),
    f A = Some ca ->
    parse ca = Some a ->
    match f P with
    | Some c => unpickle c
    | None => None
    end = Some dl ->
    dump (apply_delta dl a) = Some cnew ->
    f (bak A) = None ->
    write_step k = true \/ k = SLoadDelta \/ k = SLoadDoc \/ k = SApply ->
    fkind ft = KExc ->
    exists f' : fs X,
      patch_cmd parse dump unpickle apply_delta pos keep A P (single k ft) f
      = (f', Raised KExc k) /\
      f' A = Some ca /\
      f' (bak A) = None /\
      (forall q : path, q <> A -> q <> bak A -> f' q = f q) /\
      cli_report debug (Raised KExc k) <> CExit 0.
Proof. exact patch_single_fault_restores. Qed.
Print Assumptions C20_patch_single_fault_restores.

(** exit status 0 exactly when the command completed *)
Theorem C20_exit_zero_iff_done :
  forall (debug : bool) (o : outcome), cli_report debug o = CExit 0 <-> o = Done.
Proof. exact cli_report_zero. Qed.
Print Assumptions C20_exit_zero_iff_done.

(** C15 - loading a delta dump never resolves a global outside the allow-list.
    Final statements only; proofs in Pickle/PickleProofs.v; model in Pickle/Vm.v. *)
From Coq Require Import List ZArith NArith Bool.
Import ListNotations.
From DD Require Import Base.PyStr Pickle.Vm Pickle.PickleProofs.

(* find_class forbids exactly the pairs whose joined name '{module}.{name}' is
   not on the allow-list, and resolves exactly the members that exist in the
   process - for EVERY allow-list and every process state *)
Theorem C15_find_class_exact : forall (w : world) (m n : pystr),
  (find_class w m n = FCForbidden <-> ~ In (dotted m n) (allow w)) /\
  (forall k, find_class w m n = FCResolved k <-> In (dotted m n) (allow w) /\ lookup w m n = Found k).
Proof. exact find_class_exact. Qed.
Print Assumptions C15_find_class_exact.

(* the allow-list in force is the built-in list plus what the caller passed as
   safe_to_import (None / a string / any iterable) - nothing else *)
Theorem C15_effective_allow_list : forall (a : safe_arg) (s : pystr),
  In s (effective_allow a) <-> In s SAFE_TO_IMPORT \/ In s (user_names a).
Proof. exact effective_allow_spec. Qed.
Print Assumptions C15_effective_allow_list.

(* the membership test is on the JOINED string: a pair passes iff it is one of
   the ways of cutting an allow-list entry at one of its dots ... *)
Theorem C15_allowed_pairs_are_splits : forall (w : world) (m n : pystr),
  In (dotted m n) (allow w) <-> exists s, In s (allow w) /\ In (m, n) (splits s).
Proof. exact allowed_iff_split. Qed.
Print Assumptions C15_allowed_pairs_are_splits.

(* ... so two pairs with the same join get the same verdict from the test *)
Theorem C15_decision_depends_on_join : forall (w : world) (m n m' n' : pystr),
  dotted m n = dotted m' n' ->
  (find_class w m n = FCForbidden <-> find_class w m' n' = FCForbidden).
Proof. exact decision_depends_on_join. Qed.
Print Assumptions C15_decision_depends_on_join.

(* full strength, every program, every process state: FALSE - an EXT opcode
   whose code is in copyreg's process-wide extension cache is served without
   find_class being asked (witness: cache {201: os.getpid}, EXT1 201 () REDUCE) *)
Theorem C15_no_forbidden_resolution_refuted :
  exists w prog out tr, vm_run w prog = (out, tr) /\
    exists k f a, In (ECall k f a) tr /\ safe_b (allow w) f = false.
Proof. exact no_forbidden_resolution_refuted. Qed.
Print Assumptions C15_no_forbidden_resolution_refuted.

(* guard: the extension cache holds no forbidden global (true of a process that
   never registered copyreg extensions).  Then for EVERY opcode program - any
   protocol, any opcode form, any nesting depth, any call / build oracle:
   every resolved name is on the allow-list; every object that is called,
   built, passed as an argument or as a persistent id, and the value returned,
   contain only allowed globals; ForbiddenModule names a non-member *)
Theorem C15_no_forbidden_resolution_partial : forall (w : world) (prog : list op) out tr,
  ext_cache_safe_b w = true -> vm_run w prog = (out, tr) ->
  (forall m n, In (EResolve m n) tr -> In (dotted m n) (allow w)) /\
  (forall e, In e tr -> ev_safe_b (allow w) e = true) /\
  (forall v, out = Done v -> safe_b (allow w) v = true) /\
  (forall m n, out = Err (Forbidden m n) -> ~ In (dotted m n) (allow w)).
Proof. exact no_forbidden_resolution_partial. Qed.
Print Assumptions C15_no_forbidden_resolution_partial.

(* no guard needed: whatever ran before, the first opcode that asks find_class
   for a non-member (GLOBAL, STACK_GLOBAL, INST, EXT through the registry) ends
   the load with ForbiddenModule; the trace is that of the prefix - the opcode
   resolved, called and built nothing - and nothing after it runs *)
Theorem C15_rejected_at_first_forbidden_lookup : forall (w : world) pre o post st1 m n,
  exec w (init w) pre = Some st1 ->
  requested w st1 o = Some (m, n) -> ~ In (dotted m n) (allow w) ->
  vm_run w (pre ++ o :: post) = (Err (Forbidden m n), rev (trace st1)).
Proof. exact rejected_at_first_forbidden_lookup. Qed.
Print Assumptions C15_rejected_at_first_forbidden_lookup.

(* and ForbiddenModule has no other cause *)
Theorem C15_forbidden_only_from_lookup : forall (w : world) prog m n tr,
  vm_run w prog = (Err (Forbidden m n), tr) ->
  exists pre o post st1,
    prog = (pre ++ o :: post)%list /\ exec w (init w) pre = Some st1 /\
    requested w st1 o = Some (m, n) /\ ~ In (dotted m n) (allow w) /\ tr = rev (trace st1).
Proof. intros w prog m n tr H. exact (forbidden_only_from_lookup w prog (init w) m n tr H). Qed.
Print Assumptions C15_forbidden_only_from_lookup.

(* persistent ids (PERSID / BINPERSID) are not a second way to name a global: the only object they
   can produce is NoneType, for the one id "<<NoneType>>"; every other id - whatever its text - is None *)
Theorem C15_persistent_id_only_nonetype : forall pid : obj,
  (persistent_load pid = ONoneType <-> pid = OStr NONE_TYPE_PID) /\
  (persistent_load pid = ONoneType \/ persistent_load pid = ONone).
Proof. exact persistent_load_only_nonetype. Qed.
Print Assumptions C15_persistent_id_only_nonetype.

(* conversely: every dump of a well-formed payload whose class objects are on
   the built-in allow-list loads in the default process - no ForbiddenModule,
   no other error - and yields the payload (corollary of C14_pickle_roundtrip) *)
From DD Require Import Pickle.Codec Pickle.CodecProofs.
Theorem C15_own_dumps_load : forall d : pv, wfp d = true -> types_default_b d = true ->
  exists o tr, vm_run default_world (enc_prog d) = (Done o, tr) /\ decode o = Some d.
Proof. exact own_dumps_load. Qed.
Print Assumptions C15_own_dumps_load.

(* ... and passing safe_to_import, in any of its shapes, never stops them from loading *)
Theorem C15_own_dumps_load_with_safe_to_import : forall (a : safe_arg) (d : pv),
  wfp d = true -> types_default_b d = true ->
  load (with_allow (effective_allow a) default_world) (enc_prog d) = Some d.
Proof. exact own_dumps_load_any_safe. Qed.
Print Assumptions C15_own_dumps_load_with_safe_to_import.

(* the same for every encoding in the class [accepts] (what CPython's pickler emits
   for payloads without a shared mutable sub-object) *)
From DD Require Import Pickle.Encodes Pickle.EncodesProofs.
Theorem C15_accepted_dumps_load : forall (a : safe_arg) (prog : list op) (d : pv),
  wfp d = true -> types_default_b d = true -> accepts prog d = true ->
  load (with_allow (effective_allow a) default_world) prog = Some d.
Proof. exact accepted_dumps_load. Qed.
Print Assumptions C15_accepted_dumps_load.

(** * The same over BYTE STRINGS (Pickle/Bytes.v: the byte layer of the C unpickler - opcode bytes, little-endian
    and two's complement arguments, newline-terminated text, UTF-8 / raw-unicode-escape, FRAME buffering with
    its dropping of frame remainders - under the machine) *)
From DD Require Import Pickle.Bytes Pickle.BytesProofs.

(* for EVERY byte string handed to pickle_load(content), every reader dialect (any treatment of number text
   outside the canonical decimal forms, FRAME buffered or skipped) and every process whose extension cache
   holds no forbidden global: every resolved name is on the allow-list, everything called, built, passed or
   returned contains only allowed globals, ForbiddenModule names a non-member *)
Theorem C15_bytes_no_forbidden_resolution_partial :
  forall (w : world) (d : dialect) (bs : list N) out tr,
  ext_cache_safe_b w = true -> load_content w d bs = (out, tr) ->
  (forall m n, In (EResolve m n) tr -> In (dotted m n) (allow w)) /\
  (forall e, In e tr -> ev_safe_b (allow w) e = true) /\
  (forall v, out = Done v -> safe_b (allow w) v = true) /\
  (forall m n, out = Err (Forbidden m n) -> ~ In (dotted m n) (allow w)).
Proof. exact bytes_no_forbidden_resolution. Qed.
Print Assumptions C15_bytes_no_forbidden_resolution_partial.

(* without the guard: false, by the bytes 80 02 82 c9 29 52 2e (PROTO 2, EXT1 201, (), REDUCE, STOP) *)
Theorem C15_bytes_no_forbidden_resolution_refuted :
  exists w bs out tr, load_content w (c_dialect no_text) bs = (out, tr) /\
    exists k f a, In (ECall k f a) tr /\ safe_b (allow w) f = false.
Proof. exact bytes_no_forbidden_resolution_refuted. Qed.
Print Assumptions C15_bytes_no_forbidden_resolution_refuted.

(* no guard: whatever bytes precede and follow, the first decoded opcode that asks for a non-member ends the
   load with ForbiddenModule and the trace of the prefix *)
Theorem C15_bytes_rejected_at_first_forbidden_lookup :
  forall (w : world) (d : dialect) (bs : list N) pre o post st1 m n,
  bs <> [] -> bdecode_ops d bs = (pre ++ o :: post)%list ->
  exec w (init w) pre = Some st1 ->
  requested w st1 o = Some (m, n) -> ~ In (dotted m n) (allow w) ->
  load_content w d bs = (Err (Forbidden m n), rev (trace st1)).
Proof. exact bytes_rejected_at_first_forbidden_lookup. Qed.
Print Assumptions C15_bytes_rejected_at_first_forbidden_lookup.

Theorem C15_bytes_forbidden_only_from_lookup : forall (w : world) (d : dialect) (bs : list N) m n tr,
  load_content w d bs = (Err (Forbidden m n), tr) ->
  exists pre o post st1,
    bdecode_ops d bs = (pre ++ o :: post)%list /\ exec w (init w) pre = Some st1 /\
    requested w st1 o = Some (m, n) /\ ~ In (dotted m n) (allow w) /\ tr = rev (trace st1).
Proof. exact bytes_forbidden_only_from_lookup. Qed.
Print Assumptions C15_bytes_forbidden_only_from_lookup.

(* the decoder is total (the fuel, the length of the input, never runs out) ... *)
Theorem C15_decoder_total : forall (d : dialect) (bs : list N), bdecode_end d bs <> DFuel.
Proof. exact bdecode_no_fuel. Qed.
Print Assumptions C15_decoder_total.

(* ... a stream that decodes up to a STOP decodes to the same opcodes whatever is appended ... *)
Theorem C15_decoder_ignores_what_follows_STOP : forall (d : dialect) (bs : list N) ops s junk,
  bdecode d bs = (ops, DStop, s) -> bdecode d (bs ++ junk) = (ops, DStop, s).
Proof. exact bdecode_stop_ext. Qed.
Print Assumptions C15_decoder_ignores_what_follows_STOP.

(* ... when the C unpickler skips no frame byte (checked on every dump of every run) it reads exactly what a
   sequential reader that ignores FRAME reads: pickletools.genops ... *)
Theorem C15_decoder_sequential_when_nothing_skipped : forall (d : dialect) (bs : list N) ops,
  dl_framed d = true -> bdecode d bs = (ops, DStop, false) -> bdecode (unframed d) bs = (ops, DStop, false).
Proof. exact bdecode_noskip_sequential. Qed.
Print Assumptions C15_decoder_sequential_when_nothing_skipped.

(* ... and it inverts the assembler, opcode by opcode, in the frame buffer or in the file, for every opcode of
   protocols 0-5 except FLOAT text (FRAME: [decode_op_enc_seq], [bdecode_dump]) *)
Theorem C15_decoder_inverts_assembler : forall fr (t : textw) ib (o : op) s r,
  putok ib r -> enc_ok o = true -> not_frame o = true ->
  decode_op (cdl fr t) (put ib (enc_op o ++ s) r) = ROk o (put ib s r).
Proof. exact decode_op_enc. Qed.
Print Assumptions C15_decoder_inverts_assembler.

(* so the assembler is a prefix code and a byte string stands for at most one opcode list *)
Theorem C15_assembler_prefix_free : forall o1 o2 x y, enc_ok o1 = true -> enc_ok o2 = true ->
  (enc_op o1 ++ x = enc_op o2 ++ y)%list -> o1 = o2 /\ x = y.
Proof. exact enc_op_prefix_free. Qed.
Print Assumptions C15_assembler_prefix_free.
Theorem C15_assembler_injective : forall ops1 ops2, forallb enc_ok ops1 = true -> forallb enc_ok ops2 = true ->
  enc_ops ops1 = enc_ops ops2 -> ops1 = ops2.
Proof. exact enc_ops_inj. Qed.
Print Assumptions C15_assembler_injective.

(* the converse clause on bytes: the canonical dump of a well-formed payload over allow-listed classes loads *)
Theorem C15_own_dumps_load_bytes : forall (t : textw) (d : pv) junk,
  wfp d = true -> types_default_b d = true -> dump_ok d = true ->
  exists o tr, load_content default_world (c_dialect t) (dump_bytes d ++ junk) = (Done o, tr) /\ decode o = Some d.
Proof. exact own_dumps_load_bytes. Qed.
Print Assumptions C15_own_dumps_load_bytes.

(* INST is not a second spelling of GLOBAL for non-ASCII names: the C unpickler (load_inst) reads its two lines with
   PyUnicode_DecodeASCII, so an INST opcode is decoded only from two pure-ASCII lines (to exactly those bytes) ... *)
Theorem C15_inst_lines_are_ascii : forall fr (t : textw) l1 l2 o,
  build_op (cdl fr t) 105 (RLine2 l1 l2) = Some o ->
  o = INST l1 l2 /\ all_ascii l1 = true /\ all_ascii l2 = true.
Proof. exact inst_decoded_only_ascii. Qed.
Print Assumptions C15_inst_lines_are_ascii.
(* ... and a byte >= 128 in either line ends the load with a decoding error (UnicodeDecodeError) before find_class is
   asked: nothing is resolved, which the safety theorem above allows (witness: [inst_nonascii_is_decode_error]) *)
Theorem C15_inst_nonascii_not_decoded : forall fr (t : textw) l1 l2,
  all_ascii l1 && all_ascii l2 = false -> build_op (cdl fr t) 105 (RLine2 l1 l2) = None.
Proof. exact inst_nonascii_not_decoded. Qed.
Print Assumptions C15_inst_nonascii_not_decoded.

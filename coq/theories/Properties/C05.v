(** C05 - ignore_order: the result is empty exactly when t1 and t2 are equal as
    nested sets (default) / nested multisets (report_repetition=True); the verdict
    does not depend on the pairing knobs.  Final statements only.

    [run_diff_io H udiff skip excl c rep pairs t1 t2] is the model of
    DeepDiff(t1, t2, ignore_order=True, report_repetition=rep,
             threshold_to_diff_deeper = thr_num c / thr_den c, view='tree')
    (DiffIO/DiffIOModel.v).  [pairs] is the ORACLE for the pairing chosen by
    _get_most_in_common_pairs_in_iterables at every level: cutoff_distance_for_pairs,
    cutoff_intersection_for_pairs, max_passes and cache_size occur in the model only
    through it, and every theorem below quantifies over ALL oracles.
    [H] is the hasher; the two hypotheses on it (outputs non-empty and free of
    , ; : | { }, injective) stand for SHA-256 hexdigest being collision-free. *)
From Coq Require Import List ZArith NArith Bool String.
Import ListNotations.
From DD Require Import Base.PyStr Base.Value Diff.Tree Diff.DiffModel Hash.HashModel Hash.Equiv
  Hash.HashProofsBase Hash.HashProofsC07 Hash.HashProofsMemo DiffIO.DiffIOModel DiffIO.DiffIOProofs
  DiffIO.MemoModel DiffIO.DiffIOCache DiffIO.DiffIOMemo DiffIO.DiffIOMemoProofs DiffIO.DiffIOOrder DiffIO.DiffIOMemoVerdict
  DiffIO.DiffIOCanon DiffIO.DiffIOCanonHash DiffIO.DiffIOCanonRun DiffIO.DiffIOCanonVerdict DiffIO.DiffIOCanonWitness.

(* Full strength (all values, all thresholds) is false of the faithful model: *)

(* K1: a str that spells the serialisation of another value hashes like it *)
Theorem C05_verdict_tag_refuted :
  forall (H : pystr -> pystr) udiff excl rep pairs,
  let t1 := VList [VAtom ANone] in
  let t2 := VList [VAtom (AStr (s2p "NONE"))] in
  wf t1 = true /\ wf t2 = true /\ alias_free2 t1 t2 = true /\
  run_diff_io H udiff no_skip excl cfg_default rep pairs t1 t2 = ([], []) /\
  ~ eqv (io_opts cfg_default rep) t1 t2.
Proof. exact tag_refuted. Qed.
Print Assumptions C05_verdict_tag_refuted.

(* K2 with the implementation's real behaviour.  [run_diff_io_m] (DiffIO/DiffIOMemo.v) threads DeepDiff's
   run-wide DeepHash table through the traversal: the table is keyed by Python ==, so 1.0 is served the hash
   of 1 and DeepDiff([1], [1.0], ignore_order=True) == {}, while the memo-free model (and ordered mode) report
   the type change *)
Theorem C05_verdict_alias_refuted :
  forall rep udiff pairs,
  let t1 := VList [VAtom (AInt 1)] in
  let t2 := VList [VAtom (AHalf 2)] in
  wf t1 = true /\ wf t2 = true /\ tag_safe t1 = true /\ tag_safe t2 = true /\
  fst (run_diff_io_m hexhash udiff no_skip no_skip cfg_default rep pairs t1 t2) = ([], []) /\
  ~ eqv (io_opts cfg_default rep) t1 t2 /\
  fst (run_diff_io hexhash udiff no_skip no_skip cfg_default rep (fun _ => []) t1 t2) <> [].
Proof. exact memo_alias_refuted. Qed.
Print Assumptions C05_verdict_alias_refuted.

(* K2, the part the memo-free model has as well: dict keys are matched by Python ==: 1 and 1.0 are one key *)
Theorem C05_verdict_key_alias_refuted :
  forall (H : pystr -> pystr) udiff rep pairs,
  let t1 := VDict [(AInt 1, VAtom (AStr (s2p "a")))] in
  let t2 := VDict [(AHalf 2, VAtom (AStr (s2p "a")))] in
  wf t1 = true /\ wf t2 = true /\ tag_safe t1 = true /\ tag_safe t2 = true /\
  run_diff_io H udiff no_skip no_skip cfg_default rep pairs t1 t2 = ([], []) /\
  ~ eqv (io_opts cfg_default rep) t1 t2.
Proof. exact alias_refuted. Qed.
Print Assumptions C05_verdict_key_alias_refuted.

(* threshold_to_diff_deeper = 2: a dict is reported as changed against itself *)
Theorem C05_threshold_above_one_refuted :
  forall (H : pystr -> pystr) udiff rep pairs,
  let t := VDict [(AStr (s2p "a"), VAtom (AInt 1)); (AStr (s2p "b"), VAtom (AInt 2))] in
  let c := mkCfg false 2 1 true in
  eqv (io_opts c rep) t t /\ fst (run_diff_io H udiff no_skip no_skip c rep pairs t t) <> [].
Proof. exact threshold_above_one_refuted. Qed.
Print Assumptions C05_threshold_above_one_refuted.

(* The theorem: for every pairing oracle, hasher, unified-diff oracle, excluded-path
   set of the threshold rule, threshold in [0,1] and report_repetition setting. *)
Theorem C05_verdict_partial :
  forall (H : pystr -> pystr),
  (forall s, s <> [] -> sepfree (H s)) -> (forall s t, H s = H t -> s = t) ->
  forall udiff excl c rep pairs t1 t2,
  thr_num c <= thr_den c ->
  wf t1 = true -> wf t2 = true -> tag_safe t1 = true -> tag_safe t2 = true -> alias_free2 t1 t2 = true ->
  (fst (run_diff_io H udiff no_skip excl c rep pairs t1 t2) = [] <-> eqv (io_opts c rep) t1 t2).
Proof. exact verdict. Qed.
Print Assumptions C05_verdict_partial.

(* ... and for the model WITH the shared hashes table (the faithful one when atoms alias): where nothing
   aliases the table is transparent - [diff_io_m] is the memo-free traversal and the table stays right - *)
Theorem C05_memo_transparent_partial :
  forall (H : pystr -> pystr) udiff skip excl c rep pairs (m : memo) t1 t2 p1 p2,
  memo_ok H (io_opts c rep) m -> wf t1 = true -> wf t2 = true ->
  no_alias (matoms m ++ atoms_of t1 ++ atoms_of t2) = true ->
  fst (diff_io_m H udiff skip excl c rep pairs t1 t2 p1 p2 m) = diff_io_o H udiff skip excl c rep pairs t1 t2 p1 p2 /\
  memo_ok H (io_opts c rep) (snd (diff_io_m H udiff skip excl c rep pairs t1 t2 p1 p2 m)).
Proof. exact diff_io_m_pure. Qed.
Print Assumptions C05_memo_transparent_partial.

(* ([diff_io_o] lists the children of a dict in the order of t2's keys, [diff_io] in that of t1's: same entries) *)
Theorem C05_traversal_order_irrelevant :
  forall (H : pystr -> pystr) udiff skip excl c rep pairs t1 t2 p1 p2,
  wf t1 = true -> wf t2 = true ->
  Permutation.Permutation (fst (diff_io_o H udiff skip excl c rep pairs t1 t2 p1 p2)) (fst (diff_io H udiff skip excl c rep pairs t1 t2 p1 p2)) /\
  Permutation.Permutation (snd (diff_io_o H udiff skip excl c rep pairs t1 t2 p1 p2)) (snd (diff_io H udiff skip excl c rep pairs t1 t2 p1 p2)).
Proof. exact diff_io_o_perm. Qed.
Print Assumptions C05_traversal_order_irrelevant.

(* so the verdict holds for the table-threading model too *)
Theorem C05_verdict_memo_partial :
  forall (H : pystr -> pystr),
  (forall s, s <> [] -> sepfree (H s)) -> (forall s t, H s = H t -> s = t) ->
  forall udiff excl c rep pairs t1 t2,
  thr_num c <= thr_den c ->
  wf t1 = true -> wf t2 = true -> tag_safe t1 = true -> tag_safe t2 = true -> alias_free2 t1 t2 = true ->
  (fst (fst (run_diff_io_m H udiff no_skip excl c rep pairs t1 t2)) = [] <-> eqv (io_opts c rep) t1 t2).
Proof. exact verdict_memo. Qed.
Print Assumptions C05_verdict_memo_partial.

(* one direction needs no guard on the contents at all (and no hypothesis on the hasher) *)
Theorem C05_equal_gives_empty :
  forall (H : pystr -> pystr) udiff excl c rep pairs t1 t2,
  thr_num c <= thr_den c -> wf t2 = true ->
  eqv (io_opts c rep) t1 t2 -> run_diff_io H udiff no_skip excl c rep pairs t1 t2 = ([], []).
Proof. exact equal_gives_empty. Qed.
Print Assumptions C05_equal_gives_empty.

(* "a pairing can never turn different into equal" *)
Theorem C05_different_hash_nonempty :
  forall (H : pystr -> pystr),
  (forall s, s <> [] -> sepfree (H s)) -> (forall s t, H s = H t -> s = t) ->
  forall udiff excl c rep pairs t1 t2 p1 p2,
  wf t1 = true -> wf t2 = true -> tag_safe t1 = true -> tag_safe t2 = true -> alias_free2 t1 t2 = true ->
  hash_pure H (io_opts c rep) t1 <> hash_pure H (io_opts c rep) t2 ->
  fst (diff_io H udiff no_skip excl c rep pairs t1 t2 p1 p2) <> [].
Proof. exact different_hash_nonempty. Qed.
Print Assumptions C05_different_hash_nonempty.

(* the verdict is a function of (report_repetition, t1, t2) only: two runs that differ in the
   pairing (cutoffs, pass budget, cache), the threshold, the unified-diff text agree on it *)
Theorem C05_knob_independence :
  forall (H : pystr -> pystr),
  (forall s, s <> [] -> sepfree (H s)) -> (forall s t, H s = H t -> s = t) ->
  forall udiff udiff' excl excl' c c' rep pairs pairs' t1 t2,
  thr_num c <= thr_den c -> thr_num c' <= thr_den c' ->
  DiffModel.ignore_private c = DiffModel.ignore_private c' ->
  wf t1 = true -> wf t2 = true -> tag_safe t1 = true -> tag_safe t2 = true -> alias_free2 t1 t2 = true ->
  (fst (run_diff_io H udiff no_skip excl c rep pairs t1 t2) = [] <->
   fst (run_diff_io H udiff' no_skip excl' c' rep pairs' t1 t2) = []).
Proof. exact knob_independence. Qed.
Print Assumptions C05_knob_independence.

(* threshold_to_diff_deeper: the values_changed shortcut fires only on dicts that already differ *)
Theorem C05_threshold_only_on_different :
  forall excl c rep, thr_num c <= thr_den c ->
  forall kvs1 kvs2 p1,
  dict_shortcut excl c (keys_of c kvs1) (keys_of c kvs2) p1 = true ->
  ~ eqv (io_opts c rep) (VDict kvs1) (VDict kvs2).
Proof. exact shortcut_only_on_different. Qed.
Print Assumptions C05_threshold_only_on_different.

(* the guards are satisfiable by a non-trivial pair (equal as nested sets, different as nested
   multisets); the hypotheses on the hasher by a concrete one *)
Theorem C05_guards_satisfiable :
  (wf ex_t1 = true /\ wf ex_t2 = true /\ tag_safe ex_t1 = true /\ tag_safe ex_t2 = true /\ alias_free2 ex_t1 ex_t2 = true /\
   fst (run_diff_io hexhash (fun _ _ => []) no_skip no_skip cfg_default false (fun _ => []) ex_t1 ex_t2) = [] /\
   fst (run_diff_io hexhash (fun _ _ => []) no_skip no_skip cfg_default true (fun _ => []) ex_t1 ex_t2) <> []) /\
  (forall s, s <> [] -> sepfree (unary_hash s)) /\ (forall s t, unary_hash s = unary_hash t -> s = t).
Proof. split; [exact guards_satisfiable|]. split; [exact unary_hash_tok|exact unary_hash_inj]. Qed.
Print Assumptions C05_guards_satisfiable.

(* ================================================================== *)
(** * The shared ==-keyed table WITHOUT the alias guard (round 3)

    [run_diff_io_m] is the model the correspondence compares with the implementation on inputs with
    ==-aliasing atoms (1 / 1.0, (1,) / (1.0,), {1:..} / {1.0:..}).  The statements below replace the guard
    [alias_free2] by [bool_sep2] (no bool is == a non-bool atom) and say EXACTLY what finding K2 amounts to:
    [cmap f v] renames every atom of v by f, [rho m] sends an atom to the first ==-equal atom key of the table
    m (its first-visited representative), [rho0] is a table-independent choice (1.0 -> 1), [cb f v] renames
    dict keys and everything below the first list / tuple / set and keeps the type of scalars reached through
    dicts only (DiffIO/DiffIOCanon.v). *)

(* DeepHash(v)[v] on a fresh table, all values: the memo-free hash of v with every atom replaced by the first
   ==-equal atom hashed before it *)
Theorem C05_deephash_first_visited_partial :
  forall (H : pystr -> pystr) o v,
  ignore_iterable_order o = true -> wf v = true -> bool_sep (atoms_of v) = true ->
  deephash H o v = hash_pure H o (cmap (rho (snd (hash_memo H o v []))) v).
Proof. exact deephash_first_visited. Qed.
Print Assumptions C05_deephash_first_visited_partial.

(* the whole result of the run with the shared table = the memo-free traversal [run_diff_io_cr] in which the hash
   of an item is the memo-free hash of the item with every atom replaced by the representative the FINAL table
   holds for it: the nested levels (and the pairing) never change what an earlier level saw *)
Theorem C05_shared_table_run_partial :
  forall (H : pystr -> pystr) udiff skip excl c rep pairs t1 t2,
  wf t1 = true -> wf t2 = true -> bool_sep2 t1 t2 = true ->
  let r := run_diff_io_m H udiff skip excl c rep pairs t1 t2 in
  fst r = run_diff_io_cr H udiff skip excl c rep pairs (rho (snd r)) t1 t2.
Proof. exact run_m_first_visited. Qed.
Print Assumptions C05_shared_table_run_partial.

(* THE VERDICT with the shared table, every pairing oracle, every collision-free hasher, no alias guard:
   empty exactly when t1 and t2 are equal as nested sets / multisets modulo Python == on dict keys and on
   everything below the first list / tuple / set *)
Theorem C05_verdict_shared_table_partial :
  forall (H : pystr -> pystr),
  (forall s, s <> [] -> sepfree (H s)) -> (forall s t, H s = H t -> s = t) ->
  forall udiff excl c rep pairs t1 t2,
  thr_num c <= thr_den c ->
  wf t1 = true -> wf t2 = true -> tag_safe t1 = true -> tag_safe t2 = true -> bool_sep2 t1 t2 = true ->
  (fst (fst (run_diff_io_m H udiff no_skip excl c rep pairs t1 t2)) = [] <->
   eqv (io_opts c rep) (cb rho0 t1) (cb rho0 t2)).
Proof. exact verdict_shared_table. Qed.
Print Assumptions C05_verdict_shared_table_partial.

(* ... for the memo-free traversal at ANY choice f of one representative per ==-class ... *)
Theorem C05_verdict_any_representative_partial :
  forall (H : pystr -> pystr),
  (forall s, s <> [] -> sepfree (H s)) -> (forall s t, H s = H t -> s = t) ->
  forall udiff excl c rep pairs f t1 t2,
  class_rep f -> thr_num c <= thr_den c ->
  wf t1 = true -> wf t2 = true -> tag_safe t1 = true -> tag_safe t2 = true ->
  (fst (run_diff_io_cr H udiff no_skip excl c rep pairs f t1 t2) = [] <-> eqv (io_opts c rep) (cb f t1) (cb f t2)).
Proof. exact verdict_c. Qed.
Print Assumptions C05_verdict_any_representative_partial.

(* ... and the relation does not depend on that choice *)
Theorem C05_representative_choice_irrelevant :
  forall o f g t1 t2, class_rep f -> class_rep g ->
  eqv o (cb f t1) (cb f t2) -> eqv o (cb g t1) (cb g t2).
Proof. exact cb_rep_change. Qed.
Print Assumptions C05_representative_choice_irrelevant.

(* <= : no hypothesis on the hasher, no tag_safe; equal inputs (types included) are a special case *)
Theorem C05_equal_gives_empty_shared_table_partial :
  forall (H : pystr -> pystr) udiff excl c rep pairs t1 t2,
  thr_num c <= thr_den c -> wf t1 = true -> wf t2 = true -> bool_sep2 t1 t2 = true ->
  (eqv (io_opts c rep) (cb rho0 t1) (cb rho0 t2) -> fst (run_diff_io_m H udiff no_skip excl c rep pairs t1 t2) = ([], [])) /\
  (eqv (io_opts c rep) t1 t2 -> fst (run_diff_io_m H udiff no_skip excl c rep pairs t1 t2) = ([], [])).
Proof. exact equal_gives_empty_shared_table_both. Qed.
Print Assumptions C05_equal_gives_empty_shared_table_partial.

(* knob independence of the run with the shared table, without the alias guard *)
Theorem C05_knob_independence_shared_table_partial :
  forall (H : pystr -> pystr),
  (forall s, s <> [] -> sepfree (H s)) -> (forall s t, H s = H t -> s = t) ->
  forall udiff udiff' excl excl' c c' rep pairs pairs' t1 t2,
  thr_num c <= thr_den c -> thr_num c' <= thr_den c' ->
  DiffModel.ignore_private c = DiffModel.ignore_private c' ->
  wf t1 = true -> wf t2 = true -> tag_safe t1 = true -> tag_safe t2 = true -> bool_sep2 t1 t2 = true ->
  (fst (fst (run_diff_io_m H udiff no_skip excl c rep pairs t1 t2)) = [] <->
   fst (fst (run_diff_io_m H udiff' no_skip excl' c' rep pairs' t1 t2)) = []).
Proof. exact knob_independence_shared_table. Qed.
Print Assumptions C05_knob_independence_shared_table_partial.

(* the guard bool_sep2 cannot be dropped: [{True:'a'}] vs [{1:'a'}] is {} when the pairing hands the two items to
   the recursive diff (default knobs) and values_changed when it does not (max_passes=0): the verdict depends on
   the pairing knobs *)
Theorem C05_bool_alias_knob_refuted :
  forall rep udiff,
  let t1 := VList [VDict [(ABool true, VAtom (AStr (s2p "a")))]] in
  let t2 := VList [VDict [(AInt 1, VAtom (AStr (s2p "a")))]] in
  wf t1 = true /\ wf t2 = true /\ tag_safe t1 = true /\ tag_safe t2 = true /\ bool_sep2 t1 t2 = false /\
  fst (run_diff_io_m hexhash udiff no_skip no_skip cfg_default rep (fun _ => [(0, 0)]%nat) t1 t2) = ([], []) /\
  fst (fst (run_diff_io_m hexhash udiff no_skip no_skip cfg_default rep (fun _ => []) t1 t2)) <> [].
Proof. exact bool_key_knob_refuted. Qed.
Print Assumptions C05_bool_alias_knob_refuted.

(* more of K2: dict values of list items, a hashable tuple looked up as a whole, multiplicities *)
Theorem C05_alias_family_refuted :
  forall udiff pairs,
  (forall rep,
   let t1 := VList [VDict [(AStr (s2p "x"), VAtom (AInt 1))]] in
   let t2 := VList [VDict [(AStr (s2p "x"), VAtom (AHalf 2))]] in
   fst (run_diff_io_m hexhash udiff no_skip no_skip cfg_default rep pairs t1 t2) = ([], []) /\
   fst (run_diff_io hexhash udiff no_skip no_skip cfg_default rep (fun _ => []) t1 t2) <> []) /\
  (forall rep,
   let t1 := VList [VTuple [VAtom (AInt 1); VAtom (AStr (s2p "a"))]] in
   let t2 := VList [VTuple [VAtom (ABool true); VAtom (AStr (s2p "a"))]] in
   fst (run_diff_io_m hexhash udiff no_skip no_skip cfg_default rep pairs t1 t2) = ([], []) /\
   fst (run_diff_io hexhash udiff no_skip no_skip cfg_default rep (fun _ => []) t1 t2) <> []) /\
  (let t1 := VList [VAtom (AInt 1); VAtom (AHalf 2)] in
   let t2 := VList [VAtom (AInt 1); VAtom (AInt 1)] in
   fst (run_diff_io_m hexhash udiff no_skip no_skip cfg_default true pairs t1 t2) = ([], []) /\
   fst (run_diff_io hexhash udiff no_skip no_skip cfg_default true (fun _ => []) t1 t2) <> []).
Proof. exact alias_family_refuted. Qed.
Print Assumptions C05_alias_family_refuted.

(* the relation is exact about where == is used: {'x':1} vs {'x':1.0} is a type change, [{'x':1}] vs [{'x':1.0}] is {} *)
Theorem C05_verdict_relation_exact :
  forall rep udiff pairs,
  let t1 := VDict [(AStr (s2p "x"), VAtom (AInt 1))] in
  let t2 := VDict [(AStr (s2p "x"), VAtom (AHalf 2))] in
  wf t1 = true /\ wf t2 = true /\ tag_safe t1 = true /\ tag_safe t2 = true /\ bool_sep2 t1 t2 = true /\
  fst (fst (run_diff_io_m hexhash udiff no_skip no_skip cfg_default rep pairs t1 t2)) <> [] /\
  fst (run_diff_io_m hexhash udiff no_skip no_skip cfg_default rep pairs (VList [t1]) (VList [t2])) = ([], []).
Proof. exact root_scalar_typed. Qed.
Print Assumptions C05_verdict_relation_exact.

(* the guards of the shared-table theorems are met by inputs that DO alias (outside alias_free2): equal as nested
   sets modulo ==, different as nested multisets *)
Theorem C05_shared_table_guards_satisfiable :
  wf ex_alias_t1 = true /\ wf ex_alias_t2 = true /\ tag_safe ex_alias_t1 = true /\ tag_safe ex_alias_t2 = true /\
  bool_sep2 ex_alias_t1 ex_alias_t2 = true /\ alias_free2 ex_alias_t1 ex_alias_t2 = false /\
  fst (run_diff_io_m hexhash (fun _ _ => []) no_skip no_skip cfg_default false (fun _ => []) ex_alias_t1 ex_alias_t2) = ([], []) /\
  fst (fst (run_diff_io_m hexhash (fun _ _ => []) no_skip no_skip cfg_default true (fun _ => []) ex_alias_t1 ex_alias_t2)) <> [].
Proof. exact shared_table_guards_satisfiable. Qed.
Print Assumptions C05_shared_table_guards_satisfiable.

(* K1 seen through the knob clause: outside tag_safe not even knob independence holds.  [{'NONE'}] vs [{None,'NONE'}] with
   report_repetition=True: DeepHash counts the member hashes of the set items (ignore_repetition=False) and None / 'NONE' have
   one hash, so the two items hash differently ('set:h|1' / 'set:h|2') and are reported as added / removed when no pairs are
   computed; once paired, _diff_set compares the sets of member hashes and reports nothing.  Every other guard holds. *)
From DD Require Import DiffIO.DiffIOTagWitness.
Theorem C05_tag_collision_knob_refuted :
  forall udiff,
  let t1 := VList [VSet [AStr (s2p "NONE")]] in
  let t2 := VList [VSet [ANone; AStr (s2p "NONE")]] in
  wf t1 = true /\ wf t2 = true /\ alias_free2 t1 t2 = true /\ tag_safe t1 = false /\
  run_diff_io hexhash udiff no_skip no_skip cfg_default true (fun _ => [(0, 0)]%nat) t1 t2 = ([], []) /\
  fst (run_diff_io hexhash udiff no_skip no_skip cfg_default true (fun _ => []) t1 t2) <> [] /\
  fst (run_diff_io_m hexhash udiff no_skip no_skip cfg_default true (fun _ => [(0, 0)]%nat) t1 t2) = ([], []) /\
  fst (fst (run_diff_io_m hexhash udiff no_skip no_skip cfg_default true (fun _ => []) t1 t2)) <> [] /\
  (forall pairs, run_diff_io hexhash udiff no_skip no_skip cfg_default false pairs t1 t2 = ([], [])).
Proof. exact tag_collision_knob_refuted. Qed.
Print Assumptions C05_tag_collision_knob_refuted.

(** C06 - DeepHash: equal content hashes equally.  Final statements only.

    [hash_pure H o v] is the model of DeepHash(v, hasher=H, **o)[v] when the
    [hashes] table plays no role; [hash_memo] / [deephash] thread the table
    exactly as [_hash] does.  [H] is an arbitrary hasher: no hypothesis on it is
    needed for this property.  [eqv o] (Hash/Equiv.v) is nested-set /
    nested-multiset / ordered equality; dicts and sets are compared up to
    permutation of their insertion / iteration order in every mode. *)
From Coq Require Import List ZArith NArith Bool String Permutation.
Import ListNotations.
From DD Require Import Base.PyStr Base.Value Hash.HashModel Hash.Equiv
  Hash.HashProofsBase Hash.HashProofsC06 Hash.HashProofsC07 Hash.HashProofsMemo Hash.HashProofsK2 Hash.HashMembers
  Hash.HashAlike Hash.HashProofsAlike Hash.HashXModel Hash.HashXProofs Hash.HashXEquiv Hash.HashXProofsEqv Hash.HashKeys Hash.HashKeysProofs Hash.HashXBlind.

(* Order-insensitive modes (ignore_iterable_order=True: nested-set and
   nested-multiset mode), every option record, every hasher, all values. *)
Theorem C06_eqv_hash :
  forall (H : pystr -> pystr) o a b,
  ignore_iterable_order o = true -> eqv o a b -> hash_pure H o a = hash_pure H o b.
Proof.
  intros H o a b Hio He. apply eqv_hash; auto. unfold order_ok. rewrite Hio. reflexivity.
Qed.
Print Assumptions C06_eqv_hash.

(* Full strength for ignore_iterable_order=False is false of the faithful
   model (K3: set iteration order leaks) ... *)
Theorem C06_ordered_set_refuted :
  exists a b, eqv ordered_mode a b /\ wf a = true /\ wf b = true /\
              hash_pure hexhash ordered_mode a <> hash_pure hexhash ordered_mode b.
Proof. exact ordered_set_refuted. Qed.
Print Assumptions C06_ordered_set_refuted.

(* the same for every hasher that is injective with non-empty separator-free outputs (e.g. SHA-256) *)
Theorem C06_ordered_set_any_hasher_refuted :
  forall (H : pystr -> pystr),
  (forall s, s <> [] -> sepfree (H s)) -> (forall s t, H s = H t -> s = t) ->
  eqv ordered_mode (VSet [AInt 0; AInt 8]) (VSet [AInt 8; AInt 0]) /\
  hash_pure H ordered_mode (VSet [AInt 0; AInt 8]) <> hash_pure H ordered_mode (VSet [AInt 8; AInt 0]).
Proof.
  intros H H_tok H_inj. split; [constructor; apply perm_swap|].
  exact (ordered_set_refuted_any H H_tok H_inj).
Qed.
Print Assumptions C06_ordered_set_any_hasher_refuted.

(* ... and holds for every mode when sets / frozensets have at most one member. *)
Theorem C06_eqv_hash_ordered_partial :
  forall (H : pystr -> pystr) o a b,
  small_sets a = true -> eqv o a b -> hash_pure H o a = hash_pure H o b.
Proof.
  intros H o a b Hs He. apply eqv_hash; auto. unfold order_ok. rewrite Hs. apply orb_true_r.
Qed.
Print Assumptions C06_eqv_hash_ordered_partial.

(* The corollaries the property names: dict insertion order (any mode, given
   the set guard), set iteration order (= the PYTHONHASHSEED clause: the seed
   influences nothing else), list / tuple item order in order-insensitive modes.
   [eqv] is a congruence, so C06_eqv_hash covers these permutations at any depth. *)
Theorem C06_dict_insertion_order :
  forall (H : pystr -> pystr) o kvs kvs',
  (ignore_iterable_order o = true \/ small_sets (VDict kvs) = true) ->
  Permutation kvs kvs' -> hash_pure H o (VDict kvs) = hash_pure H o (VDict kvs').
Proof.
  intros H o kvs kvs' Hg Hp. apply dict_order_hash; auto.
  unfold order_ok. destruct Hg as [->| ->]; auto using orb_true_r.
Qed.
Print Assumptions C06_dict_insertion_order.

Theorem C06_set_iteration_order :
  forall (H : pystr -> pystr) o xs ys,
  ignore_iterable_order o = true -> Permutation xs ys ->
  hash_pure H o (VSet xs) = hash_pure H o (VSet ys) /\
  hash_pure H o (VFrozen xs) = hash_pure H o (VFrozen ys).
Proof. exact set_order_hash. Qed.
Print Assumptions C06_set_iteration_order.

Theorem C06_list_tuple_item_order :
  forall (H : pystr -> pystr) o xs ys,
  ignore_iterable_order o = true -> Permutation xs ys ->
  hash_pure H o (VList xs) = hash_pure H o (VList ys) /\
  hash_pure H o (VTuple xs) = hash_pure H o (VTuple ys).
Proof. exact seq_order_hash. Qed.
Print Assumptions C06_list_tuple_item_order.

(* The [hashes] table.  Without a guard the statement is false (K2) ... *)
Theorem C06_memo_refuted :
  let a := VDict [(AStr (s2p "a"), VAtom (AHalf 0)); (AInt 0, VAtom (AHalf 1))] in
  let b := VDict [(AInt 0, VAtom (AHalf 1)); (AStr (s2p "a"), VAtom (AHalf 0))] in
  eqv default_opts a b /\ wf a = true /\ wf b = true /\
  deephash hexhash default_opts a <> deephash hexhash default_opts b.
Proof. exact memo_refuted. Qed.
Print Assumptions C06_memo_refuted.

(* the same for every hasher that is injective with non-empty separator-free outputs *)
Theorem C06_memo_any_hasher_refuted :
  forall (H : pystr -> pystr),
  (forall s, s <> [] -> sepfree (H s)) -> (forall s t, H s = H t -> s = t) ->
  let a := VDict [(AStr (s2p "a"), VAtom (AHalf 0)); (AInt 0, VAtom (AHalf 1))] in
  let b := VDict [(AInt 0, VAtom (AHalf 1)); (AStr (s2p "a"), VAtom (AHalf 0))] in
  eqv default_opts a b /\ deephash H default_opts a <> deephash H default_opts b.
Proof.
  intros H H_tok H_inj. cbv zeta. split; [apply eqv_dict_perm, perm_swap|].
  exact (memo_refuted_any H H_tok H_inj).
Qed.
Print Assumptions C06_memo_any_hasher_refuted.

(* ... with it, any table that is consistent (e.g. produced by earlier calls)
   is transparent and stays consistent: sharing or pre-seeding changes nothing. *)
Theorem C06_memo_transparent_partial :
  forall (H : pystr -> pystr) o m v,
  memo_ok H o m -> wf v = true -> order_ok o v = true -> alias_free_with m v = true ->
  fst (hash_memo H o v m) = hash_pure H o v /\ memo_ok H o (snd (hash_memo H o v m)).
Proof. exact memo_transparent. Qed.
Print Assumptions C06_memo_transparent_partial.

Theorem C06_shared_table_partial :
  forall (H : pystr -> pystr) o w v,
  wf w = true -> wf v = true -> order_ok o w = true -> order_ok o v = true ->
  no_alias (atoms_of w ++ atoms_of v) = true ->
  deephash_with H o (snd (hash_memo H o w [])) v = hash_pure H o v /\
  deephash H o v = hash_pure H o v.
Proof.
  intros H o w v Ww Wv Ow Ov Ha. split.
  - apply shared_table_pure; auto.
  - apply deephash_pure; auto. unfold alias_free.
    unfold no_alias in *. rewrite forallb_forall in *. intros a Hi.
    assert (Hi' : In a (atoms_of w ++ atoms_of v)) by (apply in_or_app; auto).
    specialize (Ha a Hi'). rewrite forallb_forall in *. intros b Hb. apply Ha. apply in_or_app; auto.
Qed.
Print Assumptions C06_shared_table_partial.

(* The table as DeepDiff itself shares it: _create_hashtable hashes the members of a set / items of a list one by
   one on self.hashes ([hash_members_memo], [hash_items_memo], [create_hashtable] in Hash/HashMembers.v). *)
Theorem C06_members_memo_transparent_partial :
  forall (H : pystr -> pystr) o m xs,
  memo_ok H o m -> no_alias (matoms m ++ xs) = true ->
  fst (hash_members_memo H o m xs) = map (hash_atom H o) xs /\
  memo_ok H o (snd (hash_members_memo H o m xs)) /\
  incl (matoms (snd (hash_members_memo H o m xs))) (matoms m ++ xs).
Proof. exact hash_members_memo_pure. Qed.
Print Assumptions C06_members_memo_transparent_partial.

Theorem C06_create_hashtable_transparent_partial :
  forall (H : pystr -> pystr) o m v,
  memo_ok H o m -> wf v = true -> order_ok o v = true ->
  (forall x, In x (children v) -> wf x = true /\ order_ok o x = true) ->
  incl (flat_map atoms_of (children v)) (atoms_of v) ->
  no_alias (matoms m ++ atoms_of v) = true ->
  fst (create_hashtable H o m v) = add_hashes (map (hash_pure H o) (children v)) (children v) [] /\
  memo_ok H o (snd (create_hashtable H o m v)) /\
  incl (matoms (snd (create_hashtable H o m v))) (matoms m ++ atoms_of v).
Proof. exact create_hashtable_pure. Qed.
Print Assumptions C06_create_hashtable_transparent_partial.

(* The property on the observable DeepHash(v)[v] (fresh table). *)
Theorem C06_eqv_deephash_partial :
  forall (H : pystr -> pystr) o a b,
  wf a = true -> wf b = true -> order_ok o a = true -> order_ok o b = true ->
  alias_free a = true -> alias_free b = true ->
  eqv o a b -> deephash H o a = deephash H o b.
Proof. exact eqv_deephash. Qed.
Print Assumptions C06_eqv_deephash_partial.

(* guards are satisfiable by non-trivial values *)
Theorem C06_guards_satisfiable :
  order_ok ordered_mode (VList [VSet [AInt 1]; VDict [(AStr (s2p "a"), VTuple [VAtom (AInt 1); VAtom (AInt 1)])]]) = true /\
  (let v := VList [VDict [(AStr (s2p "a"), VTuple [VAtom (AInt 1); VAtom (AHalf 3)]); (AInt 2, VFrozen [ANone; ABool false])];
                   VTuple [VAtom (AInt 1)]; VTuple [VAtom (AInt 1)]] in
   alias_free v = true /\ wf v = true /\ alias_free_with (snd (hash_memo hexhash default_opts v [])) v = true).
Proof. split; [exact order_ok_example|exact alias_free_example]. Qed.
Print Assumptions C06_guards_satisfiable.

(* ------------------------------------------------------------------ *)
(* Round 3: ignore_iterable_order=False without the guard [small_sets].
   [eqvi o] (Hash/HashAlike.v) is equal content as [eqv o], except that with ignore_iterable_order=False two
   sets / frozensets must be given in the same iteration order.  It implies equal hashes in EVERY mode, for every
   hasher, every option record and all values - no guard ... *)
Theorem C06_eqvi_hash :
  forall (H : pystr -> pystr) o a b, eqvi o a b -> hash_pure H o a = hash_pure H o b.
Proof. exact eqvi_hash. Qed.
Print Assumptions C06_eqvi_hash.

(* ... it is [eqv] in the order-insensitive modes and under the old guard (so C06_eqv_hash and
   C06_eqv_hash_ordered_partial are instances) ... *)
Theorem C06_eqvi_vs_eqv :
  forall o a b,
  (eqvi o a b -> eqv o a b) /\
  (eqv o a b -> ignore_iterable_order o = true \/ small_sets a = true -> eqvi o a b).
Proof.
  intros o a b. split; [apply eqvi_eqv|]. intros He Hg. apply eqv_eqvi; auto.
  unfold order_ok. destruct Hg as [->| ->]; auto using orb_true_r.
Qed.
Print Assumptions C06_eqvi_vs_eqv.

(* ... and the set clause is the weakest possible (K3, exactly): with ignore_iterable_order=False, for every hasher
   that is injective with non-empty separator-free outputs, two sets / frozensets of tag-safe members hash alike
   IF AND ONLY IF they are given in the same iteration order. *)
Theorem C06_ordered_set_exact :
  forall (H : pystr -> pystr),
  (forall s, s <> [] -> sepfree (H s)) -> (forall s t, H s = H t -> s = t) ->
  forall o xs ys, plain o = true -> ignore_iterable_order o = false ->
  Forall (fun a => tag_safe_atom a = true) xs -> Forall (fun a => tag_safe_atom a = true) ys ->
  NoDup xs -> NoDup ys ->
  (hash_pure H o (VSet xs) = hash_pure H o (VSet ys) <-> xs = ys) /\
  (hash_pure H o (VFrozen xs) = hash_pure H o (VFrozen ys) <-> xs = ys).
Proof. exact ordered_set_exact. Qed.
Print Assumptions C06_ordered_set_exact.

(* the guard-free statement is about non-trivial values: a value holding a two-member set (outside [small_sets])
   is related to itself, and the K3 pair is equal content ([eqv]) but not [eqvi] *)
Theorem C06_eqvi_satisfiable :
  (let v := VList [VSet [AInt 0; AInt 8]; VList [VAtom (AInt 1); VAtom (AInt 2)]; VList [VAtom (AInt 2); VAtom (AInt 1)];
                   VDict [(AStr (s2p "a"), VTuple [VAtom (AInt 1); VAtom (AHalf 2); VAtom (ABool true)])]] in
   norep ordered_mode v = true /\ tag_safe v = true /\ wf v = true /\ small_sets v = false /\ eqvi ordered_mode v v) /\
  (heqb ordered_mode (VSet [AInt 0; AInt 8]) (VSet [AInt 8; AInt 0]) = false /\
   eqv ordered_mode (VSet [AInt 0; AInt 8]) (VSet [AInt 8; AInt 0]) /\
   ~ eqvi ordered_mode (VSet [AInt 0; AInt 8]) (VSet [AInt 8; AInt 0])).
Proof. split; [exact norep_example|exact k3_not_alike]. Qed.
Print Assumptions C06_eqvi_satisfiable.

(* ------------------------------------------------------------------ *)
(* Round 3: the extended model Hash/HashXModel.v ([xhash]: more leaf types, item counts, apply_hash=False, _skip_this,
   number_format_notation='e', ints beyond 2^53 under number formatting, truncate_datetime, ignore_type_in_groups,
   _prep_dict dropping an item whose key hash is empty) is a conservative extension of the model the theorems above
   are about: on embedded base values, with the new options at their defaults, no exclusion, a hasher that never
   returns the empty string and no int beyond 2^53 under number formatting, it returns exactly [hash_pure]. *)
Theorem C06_extended_model_conservative :
  forall (H : pystr -> pystr), (forall s, H s <> []) ->
  forall o v, ints_ok o v = true ->
  xdeephash H no_skip (xmode o) (emb v) = Some (hash_pure H o v).
Proof. exact xhash_conservative. Qed.
Print Assumptions C06_extended_model_conservative.

(* C06 on the extended universe (dates, datetimes, times, timedeltas, Decimals, paths, namedtuples / Enum members /
   objects as leaves and containers): equal content ([xeqvi], Hash/HashXEquiv.v) hashes equally for EVERY hasher and
   EVERY setting of the options the extended model has - the base option record, apply_hash, number_format_notation,
   truncate_datetime, ignore_type_in_groups - and every exclusion predicate [skip] (the model of _skip_this) that does
   not tell related values apart and, when ignore_iterable_order is set, does not look at list / set indices
   ([psim]).  Stated on DeepHash(v, ...)[v] ([None] = the root itself is excluded). *)
Theorem C06_extended_eqvi_hash :
  forall (H : pystr -> pystr) (skip : xpath -> xvalue -> bool) (xo : xopts),
  (forall p q a b, psim (xbase xo) p q -> xeqvi (xbase xo) a b -> skip p a = skip q b) ->
  forall a b, xeqvi (xbase xo) a b -> xdeephash H skip xo a = xdeephash H skip xo b.
Proof. exact xeqvi_hash. Qed.
Print Assumptions C06_extended_eqvi_hash.

(* the hypothesis holds of the exclusion options of the code as modelled ([skip_this]): exclude_types and
   exclude_obj_callback in every mode, exclude_paths and include_paths as well when ignore_iterable_order=False ... *)
Theorem C06_extended_exclusions :
  forall (H : pystr -> pystr) (xo : xopts) (c : skip_cfg),
  ignore_iterable_order (xbase xo) = false \/ (exclude_paths c = [] /\ include_paths c = []) ->
  forall a b, xeqvi (xbase xo) a b -> xdeephash H (skip_this c) xo a = xdeephash H (skip_this c) xo b.
Proof. intros H xo c Hc. apply xeqvi_hash. apply skip_this_ok. exact Hc. Qed.
Print Assumptions C06_extended_exclusions.

(* ... and not of exclude_paths in an order-insensitive mode: permuting a list moves its items to other paths
   (exclude_paths=["root[0]"], [1, 2] / [2, 1]); the theorem is about non-trivial values (a dict with a date, a
   Decimal, a Path key and a namedtuple, rebuilt in the other order, ints excluded by type, root hashed) *)
Theorem C06_extended_witnesses :
  (let a := XList [XAtom (XA (AInt 1)); XAtom (XA (AInt 2))] in
   let b := XList [XAtom (XA (AInt 2)); XAtom (XA (AInt 1))] in
   let c := mk_skip [[KIdx 0]] [] [] [] in
   xeqvi default_opts a b /\
   xdeephash hexhash (skip_this c) default_xopts a <> xdeephash hexhash (skip_this c) default_xopts b) /\
  (let d := XAtom (XL (LDate 2020 1 2)) in
   let a := XDict [(XA (AStr (s2p "a")), XList [d; XAtom (XL (LDecimal false 15 (-1)))]);
                   (XL (LPath (s2p "/a/b")), XObj ONamed (s2p "Pt") [(s2p "x", XAtom (XA (AInt 1))); (s2p "y", d)])] in
   let b := XDict [(XL (LPath (s2p "/a/b")), XObj ONamed (s2p "Pt") [(s2p "x", XAtom (XA (AInt 1))); (s2p "y", d)]);
                   (XA (AStr (s2p "a")), XList [d; XAtom (XL (LDecimal false 15 (-1)))])] in
   xeqvi default_opts a b /\
   xdeephash hexhash (skip_this (mk_skip [] [] [XTInt] [])) default_xopts a =
   xdeephash hexhash (skip_this (mk_skip [] [] [XTInt] [])) default_xopts b /\
   xdeephash hexhash (skip_this (mk_skip [] [] [XTInt] [])) default_xopts a <> None).
Proof. split; [exact paths_need_blindness|exact xeqvi_example]. Qed.
Print Assumptions C06_extended_witnesses.

(* Dicts whose KEYS are containers (Hash/HashKeys.v): equal content - the visible items up to order, keys and items
   related by [eqvi] - hashes equally, for every hasher, every option record, every mode. *)
Theorem C06_container_keys_eqvi_hash :
  forall (H : pystr -> pystr) o l1 l2 l2',
  Permutation (kvis o l2) l2' ->
  Forall2 (fun p q => eqvi o (fst p) (fst q) /\ eqvi o (snd p) (snd q)) (kvis o l1) l2' ->
  kdict_hash H o l1 = kdict_hash H o l2.
Proof. exact kdict_eqvi_hash. Qed.
Print Assumptions C06_container_keys_eqvi_hash.

(* exclude_paths / include_paths in the order-insensitive modes.  Sufficient, for every configuration and every mode:
   no listed path has a component that an index can match - a sequence index or a non-negative int key, which the
   code both spells "[n]" ([cfg_blind]) ... *)
Theorem C06_extended_paths_blind :
  forall (H : pystr -> pystr) (xo : xopts) (c : skip_cfg), cfg_blind c = true ->
  forall a b, xeqvi (xbase xo) a b -> xdeephash H (skip_this c) xo a = xdeephash H (skip_this c) xo b.
Proof. intros H xo c Hc. apply xeqvi_hash. apply skip_this_blind_ok. exact Hc. Qed.
Print Assumptions C06_extended_paths_blind.

(* ... and exact for a configuration that is one excluded path: the hypothesis of C06_extended_eqvi_hash holds IF AND
   ONLY IF the path is blind (C06_extended_witnesses is the instance root[0]). *)
Theorem C06_extended_single_path_exact :
  forall o e, ignore_iterable_order o = true ->
  ((forall p q a b, psim o p q -> xeqvi o a b ->
      skip_this (mk_skip [e] [] [] []) p a = skip_this (mk_skip [e] [] [] []) q b)
   <-> path_blind e = true).
Proof. exact single_path_exact. Qed.
Print Assumptions C06_extended_single_path_exact.

(** C13 - exclude_paths / exclude_regex_paths / include_paths act as pure filters.
    Final statements only.

    [run_diff hatom udiff ops skip excl c t1 t2]  the model of DeepDiff(t1, t2, view='tree') in ordered mode
        (Diff/DiffModel.v): [skip] = _skip_this on a level path, [excl] = the keys subtracted from the
        deeper-threshold union, [c] = (zip_ordered_iterables, threshold_to_diff_deeper, ignore_private_variables);
        [no_skip] = the constant-false predicate, so [run_diff .. no_skip no_skip c t1 t2] is DeepDiff(t1, t2).
    [run_filtered hatom udiff ops rx ex inc c t1 t2]  DeepDiff(t1, t2, exclude_paths=ex, include_paths=inc,
        exclude_regex_paths=<patterns with truth table rx>) (Filter/FilterModel.v): the options are strings,
        tested against the rendered level path ([Path.PathModel.render]) as the code does.
    [not_under P p]  no prefix of the key sequence p (p itself and the root included) satisfies P.
    [related Q p]    p is at, below or above one of the key sequences Q.
    [xguard P E c t1 t2] / [iguard Q c t1 t2]  the INPUT-LEVEL guards (Filter/FilterExact.v, FilterGuard.v): computed by one walk
        over the pair along the levels the filtered run reaches - at two dictionaries the whole-dict shortcut of
        threshold_to_diff_deeper is decided alike on the filtered key sets / reduced union and on the full ones; at two
        all-atom sequences in the default alignment mode the index children are kept or dropped together.
    [run_full ...]   the run with the WHOLE _skip_this chain (Filter/FilterModelV.v): exclude_types, exclude_obj_callback(_strict),
        include_obj_callback(_strict) next to the three path options; callbacks are oracles [value -> bool].
    [hatom udiff ops rx] are oracles (DeepHash of a set member, difflib.unified_diff, difflib opcodes, re.search):
    every statement holds for all of them. *)
From Coq Require Import List ZArith NArith Bool Arith.
Import ListNotations.
From DD Require Import Base.PyStr Base.Value Diff.Tree Diff.DiffModel Path.PathModel
  Filter.FilterModel Filter.FilterProofs Filter.FilterExclude Filter.FilterThreshold Filter.FilterInclude
  Filter.FilterWitness Filter.FilterIndep Filter.FilterHash Filter.FilterGuard Filter.FilterExact Filter.FilterWitness2
  Filter.FilterModelV Filter.FilterV Filter.FilterIndepG Filter.FilterVPath Filter.FilterVSets Filter.FilterExactD.

(** ** Exclusion: literal (P = membership of the rendered path in exclude_paths) or by regex (P arbitrary) *)

(** threshold_to_diff_deeper = 0: the filtered run is exactly the unrestricted run minus the entries at or
    below an excluded path - in positional mode for arbitrary paths, in the default alignment mode when no
    excluded path ends in a sequence index (unless an ancestor is excluded already). *)
Theorem C13_exclude_is_filter :
  forall hatom udiff ops (P E : path -> bool) (c : cfg) (t1 t2 : value),
  zip c = true \/ idx_closed P -> thr_num c = 0 -> wf t2 = true ->
  fst (run_diff hatom udiff ops P E c t1 t2) =
  filter (fun e => not_under P (ep1 e)) (fst (run_diff hatom udiff ops no_skip no_skip c t1 t2)).
Proof.
  intros. apply exclude_filter_gen; try assumption.
  intros. rewrite !shortcut_thr0 by assumption. reflexivity.
Qed.
Print Assumptions C13_exclude_is_filter.

(** the same on the options as the caller passes them (strings + patterns) *)
Theorem C13_exclude_options_is_filter :
  forall hatom udiff ops (rx : path -> bool) (ex : list pystr) (c : cfg) (t1 t2 : value),
  zip c = true -> thr_num c = 0 -> wf t2 = true ->
  fst (run_filtered hatom udiff ops rx ex [] c t1 t2) =
  filter (fun e => not_under (excluded rx ex) (ep1 e)) (fst (run_diff hatom udiff ops no_skip no_skip c t1 t2)).
Proof.
  intros. unfold run_filtered. rewrite run_diffx_no_kf. apply exclude_filter_gen; try assumption.
  - left; assumption.
  - intros. rewrite !shortcut_thr0 by assumption. reflexivity.
Qed.
Print Assumptions C13_exclude_options_is_filter.

(** literal exclusion of positions: the predicate is equality of key sequences (the int key i and the
    sequence index i print alike and are identified by [norm]); [path_ok] is C09's printer guard *)
Theorem C13_exclude_literal_is_path_equality :
  forall (Q : list path) (p : path),
  path_ok p = true -> Forall (fun q => path_ok q = true) Q ->
  excluded no_skip (map render Q) p = existsb (fun q => path_eqb (norm p) (norm q)) Q.
Proof. exact excluded_literal. Qed.
Print Assumptions C13_exclude_literal_is_path_equality.

(** regex exclusion never touches the union: pure filter at EVERY threshold *)
Theorem C13_exclude_regex_any_threshold :
  forall hatom udiff ops (P : path -> bool) (c : cfg) (t1 t2 : value),
  zip c = true \/ idx_closed P -> wf t2 = true ->
  fst (run_diff hatom udiff ops P no_skip c t1 t2) =
  filter (fun e => not_under P (ep1 e)) (fst (run_diff hatom udiff ops no_skip no_skip c t1 t2)).
Proof. intros. apply exclude_filter_gen; try assumption. reflexivity. Qed.
Print Assumptions C13_exclude_regex_any_threshold.

(** at any threshold the SKIP tests are a pure filter of the run that computes the union the same way *)
Theorem C13_exclude_skip_part_any_threshold :
  forall hatom udiff ops (P E : path -> bool) (c : cfg) (t1 t2 : value),
  zip c = true \/ idx_closed P -> wf t2 = true ->
  fst (run_diff hatom udiff ops P E c t1 t2) =
  filter (fun e => not_under P (ep1 e)) (fst (run_diff hatom udiff ops no_skip E c t1 t2)).
Proof. intros. apply exclude_filter_gen; try assumption. reflexivity. Qed.
Print Assumptions C13_exclude_skip_part_any_threshold.

(** ... but with a positive threshold (0.33 is the default) literal exclusion is NOT a filter of the
    unrestricted run: excluding root['y'] makes entries for the siblings 'x' and 'b' appear *)
Theorem C13_exclude_threshold_refuted :
  exists hatom udiff ops (ex : list pystr) (c : cfg) (t1 t2 : value),
  zip c = true /\ wf t2 = true /\
  fst (run_filtered hatom udiff ops no_skip ex [] c t1 t2) <>
  filter (fun e => not_under (excluded no_skip ex) (ep1 e)) (fst (run_diff hatom udiff ops no_skip no_skip c t1 t2)).
Proof. exists h0, u0, o0, w1_ex, positional33, w1_t1, w1_t2. exact exclude_threshold_refuted. Qed.
Print Assumptions C13_exclude_threshold_refuted.

(** ... and "content under an excluded path never causes or suppresses an entry elsewhere" fails too: the
    presence of the excluded key 'a' on both sides (it still counts in the intersection) decides whether the
    siblings are reported one by one or as one values_changed of the parent *)
Theorem C13_exclude_independence_threshold_refuted :
  exists hatom udiff ops (ex : list pystr) (c : cfg) (k : atom) (v : value) (rest1 rest2 : list (atom * value)),
  zip c = true /\ excluded no_skip ex [PKey k] = true /\
  map (fun e => (ekind e, ep1 e))
      (fst (run_filtered hatom udiff ops no_skip ex [] c (VDict ((k, v) :: rest1)) (VDict ((k, v) :: rest2)))) <>
  map (fun e => (ekind e, ep1 e))
      (fst (run_filtered hatom udiff ops no_skip ex [] c (VDict rest1) (VDict rest2))).
Proof.
  exists h0, u0, o0, w7_ex, positional33, w7_key, (vi 1), w7_rest1, w7_rest2.
  destruct exclude_independence_threshold_refuted as (A & B & C).
  split; [reflexivity|split; [exact A|]]. rewrite B, C. discriminate.
Qed.
Print Assumptions C13_exclude_independence_threshold_refuted.

(** guarded: when subtracting the excluded keys changes no whole-dict shortcut ([stable]) *)
Theorem C13_exclude_threshold_partial :
  forall hatom udiff ops (P E : path -> bool) (c : cfg) (t1 t2 : value),
  zip c = true \/ idx_closed P -> wf t2 = true -> stable E c t1 t2 [] = true ->
  fst (run_diff hatom udiff ops P E c t1 t2) =
  filter (fun e => not_under P (ep1 e)) (fst (run_diff hatom udiff ops no_skip no_skip c t1 t2)).
Proof. intros. apply exclude_filter_stable; assumption. Qed.
Print Assumptions C13_exclude_threshold_partial.

(** the subtraction can only turn a whole-dict report into a deeper diff *)
Theorem C13_exclude_threshold_monotone :
  forall (E : path -> bool) (c : cfg) (k1 k2 : list atom) (p : path),
  dict_shortcut E c k1 k2 p = true -> dict_shortcut no_skip c k1 k2 p = true.
Proof. exact shortcut_monotone. Qed.
Print Assumptions C13_exclude_threshold_monotone.

(** default alignment: an excluded LIST INDEX changes which of the two passes is kept, so the guard
    [idx_closed] of C13_exclude_is_filter cannot be dropped *)
Theorem C13_exclude_default_index_refuted :
  exists hatom udiff ops (ex : list pystr) (c : cfg) (t1 t2 : value),
  zip c = false /\ thr_num c = 0 /\ wf t2 = true /\
  fst (run_filtered hatom udiff ops no_skip ex [] c t1 t2) <>
  filter (fun e => not_under (excluded no_skip ex) (ep1 e)) (fst (run_diff hatom udiff ops no_skip no_skip c t1 t2)).
Proof. exists h0, u0, w2_ops, w2_ex, default0, w2_t1, w2_t2. exact exclude_default_index_refuted. Qed.
Print Assumptions C13_exclude_default_index_refuted.

(** ** "Content under an excluded path never causes or suppresses an entry elsewhere"

    [prune false P [] t] replaces every sub-value of t at a skipped position by None (dict keys and list
    lengths stay); [prune true P [] t] moreover deletes the dictionary items at skipped positions.
    Dictionary keys without ==-aliases of another type (no bool / float keys); positional mode, or the
    default alignment mode when no skipped path ends in a sequence index: two input pairs that agree outside
    the skipped positions get the same filtered entries (kind and both paths; the values shown for an entry
    ABOVE a skipped position naturally contain it) - at EVERY threshold when the skipped keys are present in
    both pairs alike, at threshold 0 also when skipped dictionary items are added or removed altogether. *)
Theorem C13_exclude_independent_partial :
  forall hatom udiff ops (P E : path -> bool) (c : cfg) (del : bool) (t1 t2 t1' t2' : value),
  zip c = true \/ idx_closed P -> del = false \/ thr_num c = 0 ->
  keys_all key_plain t1 = true -> keys_all key_plain t2 = true ->
  keys_all key_plain t1' = true -> keys_all key_plain t2' = true ->
  prune del P [] t1 = prune del P [] t1' -> prune del P [] t2 = prune del P [] t2' ->
  map proj (fst (run_diff hatom udiff ops P E c t1 t2)) = map proj (fst (run_diff hatom udiff ops P E c t1' t2')).
Proof. intros. eapply exclude_agree; eassumption. Qed.
Print Assumptions C13_exclude_independent_partial.

(** without the key guard it fails: 1 == True is ONE dictionary key and the level path takes t2's spelling,
    so excluding root[1] does not cover what t1 holds under its key 1 *)
Theorem C13_exclude_independent_alias_refuted :
  exists hatom udiff ops (P E : path -> bool) (c : cfg) (t1 t1' t2 : value),
  zip c = true /\ prune false P [] t1 = prune false P [] t1' /\
  map proj (fst (run_diff hatom udiff ops P E c t1 t2)) <> map proj (fst (run_diff hatom udiff ops P E c t1' t2)).
Proof.
  exists w8_h, w8_u, w8_o, w8_P, no_skip, w8_c, w8_t1, w8_t1', w8_t2.
  destruct exclude_independent_alias_refuted as (A & B & C).
  split; [reflexivity|split; [exact A|]]. rewrite B, C. discriminate.
Qed.
Print Assumptions C13_exclude_independent_alias_refuted.

(** ** The DeepHash side (sets): [run_filtered_h] also applies the two exclusion options to the pseudo-path
    "<set path>[i]" of every member of two compared sets, as _create_hashtable / DeepHash._skip_this do *)

(** when no such pseudo-path is hit it is the run all the theorems above speak about *)
Theorem C13_set_member_no_hit :
  forall hatom udiff ops (rx : path -> bool) (rxh : path -> nat -> bool) (ex inc : list pystr) (c : cfg) (t1 t2 : value),
  (forall p i, hit_this rxh (add_root_to_paths ex) p i = false) ->
  run_filtered_h hatom udiff ops rx rxh ex inc c t1 t2 = run_filtered hatom udiff ops rx ex inc c t1 t2.
Proof. exact run_filtered_h_no_hit. Qed.
Print Assumptions C13_set_member_no_hit.

(** K13c: a pattern that matches no level path at all but the pseudo-path root[0] (r'\[0\]$' on two sets
    at the root): the unrestricted run reports an entry that the "filtered" run loses *)
Theorem C13_set_member_index_refuted :
  exists hatom udiff ops (rxh : path -> nat -> bool) (c : cfg) (t1 t2 : value) (e : entry),
  In e (fst (run_diff hatom udiff ops no_skip no_skip c t1 t2)) /\
  ~ In e (fst (run_filtered_h hatom udiff ops no_skip rxh [] [] c t1 t2)).
Proof.
  exists wh_h, wh_u, wh_o, wh_rxh, wh_c, wh_t1, wh_t2, (mkEntry KSetRem [] [] (Some (VAtom (AInt 1))) None None).
  split; [vm_compute; right; left; reflexivity|]. intros H. vm_compute in H. destruct H as [H|[]]. discriminate H.
Qed.
Print Assumptions C13_set_member_index_refuted.

(** ** Inclusion *)

(** include paths made of list indexes and plain string keys (no quote, no bracket), inputs whose string keys
    are plain: the substring tests of _skip_this and the "{}['{}']" spelling of _skip_this_key coincide with the
    prefix order on key sequences, and the filtered run is exactly the entries at, below or above an included
    path - in positional mode, and in the default alignment mode when the include paths consist of dictionary
    keys only.  [nodigit_key]: when some include path goes through a list index, no str key of an include path
    may be a digit string (the int key 1 is spelled root['1'] by the key filter and root[1] by the printer). *)
Theorem C13_include_is_filter_partial :
  forall hatom udiff ops (c : cfg) (Q : list path) (t1 t2 : value),
  Q <> [] -> Forall (fun q => forallb qkey q = true) Q ->
  Forall (fun q => forallb str_key q = true) Q \/ Forall (fun q => forallb nodigit_key q = true) Q ->
  zip c = true \/ Forall (fun q => forallb str_key q = true) Q ->
  thr_num c = 0 -> wf t2 = true ->
  keys_all ok_atom t1 = true -> keys_all ok_atom t2 = true ->
  fst (run_filtered hatom udiff ops no_skip [] (map render Q) c t1 t2) =
  filter (fun e => related Q (ep1 e)) (fst (run_diff hatom udiff ops no_skip no_skip c t1 t2)).
Proof. intros. apply include_filter; assumption. Qed.
Print Assumptions C13_include_is_filter_partial.

(** the mode guard cannot be dropped: default alignment, include path ending in an index of a list of atoms *)
Theorem C13_include_default_index_refuted :
  exists hatom udiff ops (c : cfg) (Q : list path) (t1 t2 : value),
  Q <> [] /\ Forall (fun q => forallb qkey q = true) Q /\ zip c = false /\ thr_num c = 0 /\ wf t2 = true /\
  keys_all ok_atom t1 = true /\ keys_all ok_atom t2 = true /\
  fst (run_filtered hatom udiff ops no_skip [] (map render Q) c t1 t2) <>
  filter (fun e => related Q (ep1 e)) (fst (run_diff hatom udiff ops no_skip no_skip c t1 t2)).
Proof.
  exists h0, u0, w2_ops, default0, w9_Q, w2_t1, w2_t2.
  destruct include_default_index_refuted as (_ & _ & _ & _ & A & B).
  split; [discriminate|]. split; [repeat constructor|]. repeat (split; [reflexivity|]).
  intros H. rewrite H in A. rewrite A in B. discriminate B.
Qed.
Print Assumptions C13_include_default_index_refuted.

(** K10: a non-str dictionary key on the include path: nothing is selected *)
Theorem C13_include_nonstring_refuted :
  exists hatom udiff ops (c : cfg) (Q : list path) (t1 t2 : value),
  zip c = true /\ thr_num c = 0 /\ wf t2 = true /\
  fst (run_filtered hatom udiff ops no_skip [] (map render Q) c t1 t2) = [] /\
  filter (fun e => related Q (ep1 e)) (fst (run_diff hatom udiff ops no_skip no_skip c t1 t2)) <> [].
Proof.
  exists h0, u0, o0, positional0, w3_Q, w3_t1, w3_t2.
  destruct include_nonstring_refuted as (_ & A & B & C & D & E). repeat (split; [assumption|]).
  intros H. rewrite H in E. discriminate E.
Qed.
Print Assumptions C13_include_nonstring_refuted.

(** substring matching over-includes: all keys of the include path are strings / indexes, yet an unrelated
    level (root[1]) is reported because its rendered path occurs inside the include string *)
Theorem C13_include_substring_refuted :
  exists hatom udiff ops (c : cfg) (Q : list path) (t1 t2 : value) (e : entry),
  zip c = true /\ thr_num c = 0 /\ wf t2 = true /\
  In e (fst (run_filtered hatom udiff ops no_skip [] (map render Q) c t1 t2)) /\ related Q (ep1 e) = false.
Proof.
  exists h0, u0, o0, positional0, w4_Q, w4_t1, w4_t2,
         (mkEntry KValue [PIdx 1] [PIdx 1] (Some (vi 5)) (Some (vi 6)) None).
  repeat (split; [reflexivity|]). split; [vm_compute; right; left; reflexivity|reflexivity].
Qed.
Print Assumptions C13_include_substring_refuted.

(** ** The general theorem both are instances of: any coherent (skip test, key filter, kept set) *)
Theorem C13_coherent_filter :
  forall hatom udiff ops (c : cfg) (sk : path -> bool) (kf : path -> atom -> bool) (E E' R okp : path -> bool)
         (okk : atom -> bool),
  (forall p a, okp p = true -> okk a = true -> okp (snoc p (PKey a)) = true) ->
  (forall p i, okp p = true -> okp (snoc p (PIdx i)) = true) ->
  (forall p, okp p = true -> R p = true -> sk p = false) ->
  (forall p k, R (snoc p k) = true -> R p = true) ->
  (forall p a b, okp p = true -> okk a = true -> okk b = true -> R p = true ->
     py_eq a b = true -> R (snoc p (PKey b)) = true -> kf p a = false) ->
  (forall p a, okp p = true -> okk a = true -> R p = true ->
     R (snoc p (PKey a)) = false -> kf p a = true \/ sk (snoc p (PKey a)) = true) ->
  (forall p i, okp p = true -> R p = true -> R (snoc p (PIdx i)) = false -> sk (snoc p (PIdx i)) = true) ->
  zip c = true \/ (forall p, R p = true ->
     (forall i, R (snoc p (PIdx i)) = true) \/ (forall i, R (snoc p (PIdx i)) = false)) ->
  thr_num c = 0 \/ (forall p a, kf p a = false) ->
  (forall k1 k2 p, dict_shortcut E c k1 k2 p = dict_shortcut E' c k1 k2 p) ->
  forall t1 t2, wf t2 = true -> keys_all okk t1 = true -> keys_all okk t2 = true -> okp [] = true -> R [] = true ->
  fst (run_diffx hatom udiff ops sk E kf c t1 t2) =
  filter (keep_entry R) (fst (run_diffx hatom udiff ops no_skip E' no_kf c t1 t2)).
Proof. intros. eapply run_general; eassumption. Qed.
Print Assumptions C13_coherent_filter.

(** ** Round 3: input-level guards instead of "threshold 0 / stable" and "positional / idx_closed" *)

(** EVERY mode, EVERY threshold: under the input-level guard exclusion (literal and / or regex) is a pure filter.
    In the default alignment mode the excluded paths may end in an index of a sequence that holds a container
    (Example xguard_default_index_example); at a positive threshold the guard only looks at the dictionaries the
    filtered run reaches (Example xguard_below_excluded_example: [stable] fails, [xguard] holds). *)
Theorem C13_exclude_guarded :
  forall hatom udiff ops (P E : path -> bool) (c : cfg) (t1 t2 : value),
  wf t2 = true -> xguard P E c t1 t2 = true ->
  fst (run_diff hatom udiff ops P E c t1 t2) =
  filter (fun e => not_under P (ep1 e)) (fst (run_diff hatom udiff ops no_skip no_skip c t1 t2)).
Proof. intros. apply exclude_filter_guard; assumption. Qed.
Print Assumptions C13_exclude_guarded.

(** ... and EXACTLY then (positional mode for arbitrary predicates, default mode for predicates not ending in an index):
    the characterisation of finding K13a - the filter equation holds iff no dictionary the filtered run compares
    flips its whole-dict shortcut when the excluded keys leave the union. *)
Theorem C13_exclude_threshold_exact :
  forall hatom udiff ops (P E : path -> bool) (c : cfg) (t1 t2 : value),
  zip c = true \/ idx_closed P -> wf t1 = true -> wf t2 = true ->
  (fst (run_diff hatom udiff ops P E c t1 t2) =
   filter (fun e => not_under P (ep1 e)) (fst (run_diff hatom udiff ops no_skip no_skip c t1 t2))
   <-> xguard P E c t1 t2 = true).
Proof. intros. apply exclude_guard_exact; assumption. Qed.
Print Assumptions C13_exclude_threshold_exact.

(** the new guard is implied by the former ones ([stable] + positional / idx_closed; threshold 0 is [stable_thr0]) *)
Theorem C13_exclude_guard_weaker :
  forall (P E : path -> bool) (c : cfg) (t1 t2 : value),
  zip c = true \/ idx_closed P -> stable E c t1 t2 [] = true -> xguard P E c t1 t2 = true.
Proof. intros. apply stable_xguard; assumption. Qed.
Print Assumptions C13_exclude_guard_weaker.

(** include_paths in EVERY mode at EVERY threshold under the input-level guard (Example iguard_example: default mode,
    default threshold, include path through a list index) *)
Theorem C13_include_guarded :
  forall hatom udiff ops (c : cfg) (Q : list path) (t1 t2 : value),
  Q <> [] -> Forall (fun q => forallb qkey q = true) Q ->
  Forall (fun q => forallb str_key q = true) Q \/ Forall (fun q => forallb nodigit_key q = true) Q ->
  wf t2 = true -> keys_all ok_atom t1 = true -> keys_all ok_atom t2 = true ->
  iguard Q c t1 t2 = true ->
  fst (run_filtered hatom udiff ops no_skip [] (map render Q) c t1 t2) =
  filter (fun e => related Q (ep1 e)) (fst (run_diff hatom udiff ops no_skip no_skip c t1 t2)).
Proof. intros. apply include_filter_guard; assumption. Qed.
Print Assumptions C13_include_guarded.

(** without the guard include_paths fail at a positive threshold like exclude_paths do (K13a): the key filter shrinks
    both key sets of the parent, {'a':1,'b':2,'c':3} -> {'a':2,'x':2,'y':3}, include root['a'] *)
Theorem C13_include_threshold_refuted :
  exists hatom udiff ops (c : cfg) (Q : list path) (t1 t2 : value),
  Q <> [] /\ Forall (fun q => forallb str_key q = true) Q /\ zip c = true /\ wf t2 = true /\
  keys_all ok_atom t1 = true /\ keys_all ok_atom t2 = true /\
  fst (run_filtered hatom udiff ops no_skip [] (map render Q) c t1 t2) <>
  filter (fun e => related Q (ep1 e)) (fst (run_diff hatom udiff ops no_skip no_skip c t1 t2)).
Proof.
  exists h0, u0, o0, positional33, g4_Q, g4_t1, g4_t2.
  split; [discriminate|]. split; [repeat constructor|]. repeat (split; [reflexivity|]).
  intros H. vm_compute in H. discriminate H.
Qed.
Print Assumptions C13_include_threshold_refuted.

(** the general theorem with the input-level guard *)
Theorem C13_coherent_filter_guarded :
  forall hatom udiff ops (c : cfg) (sk : path -> bool) (kf : path -> atom -> bool) (E E' R okp : path -> bool)
         (okk : atom -> bool),
  (forall p a, okp p = true -> okk a = true -> okp (snoc p (PKey a)) = true) ->
  (forall p i, okp p = true -> okp (snoc p (PIdx i)) = true) ->
  (forall p, okp p = true -> R p = true -> sk p = false) ->
  (forall p k, R (snoc p k) = true -> R p = true) ->
  (forall p a b, okp p = true -> okk a = true -> okk b = true -> R p = true ->
     py_eq a b = true -> R (snoc p (PKey b)) = true -> kf p a = false) ->
  (forall p a, okp p = true -> okk a = true -> R p = true ->
     R (snoc p (PKey a)) = false -> kf p a = true \/ sk (snoc p (PKey a)) = true) ->
  (forall p i, okp p = true -> R p = true -> R (snoc p (PIdx i)) = false -> sk (snoc p (PIdx i)) = true) ->
  forall t1 t2, wf t2 = true -> keys_all okk t1 = true -> keys_all okk t2 = true -> okp [] = true -> R [] = true ->
  guard c kf E E' R t1 t2 [] = true ->
  fst (run_diffx hatom udiff ops sk E kf c t1 t2) =
  filter (keep_entry R) (fst (run_diffx hatom udiff ops no_skip E' no_kf c t1 t2)).
Proof. intros. eapply run_general_g; eassumption. Qed.
Print Assumptions C13_coherent_filter_guarded.

(** ** Round 3: the whole _skip_this chain *)

(** without object-dependent options [run_full] is the run of all theorems above *)
Theorem C13_full_chain_path_only :
  forall hatom udiff ops (rx : path -> bool) (rxh : path -> nat -> bool) (ex inc : list pystr) (c : cfg) (t1 t2 : value),
  run_full hatom udiff ops rx rxh ex inc [] no_cb no_cb None None c t1 t2 =
  run_filtered_h hatom udiff ops rx rxh ex inc c t1 t2.
Proof. exact run_full_path_only. Qed.
Print Assumptions C13_full_chain_path_only.

(** the precedence defect behind K13d in general: once include_paths is given, exclude_regex_paths, exclude_types and
    the four callbacks are dead at every level but the root - when they leave the root alone the run is the run
    without them (the root must not be a set: its items carry the root path) *)
Theorem C13_include_shadows_other_options :
  forall hatom udiff ops (rx : path -> bool) (rxh : path -> nat -> bool) (ex inc : list pystr) (TY : list ty)
         (cb cbs : value -> bool) (icb icbs : option (value -> bool)) (c : cfg) (t1 t2 : value),
  add_root_to_paths inc <> [] -> is_setv t1 = false ->
  skip_full rx (add_root_to_paths ex) (add_root_to_paths inc) TY cb cbs icb icbs [] (Some t1) (Some t2) =
    skip_this no_skip (add_root_to_paths ex) (add_root_to_paths inc) [] ->
  run_full hatom udiff ops rx rxh ex inc TY cb cbs icb icbs c t1 t2 =
  run_filtered_h hatom udiff ops no_skip rxh ex inc c t1 t2.
Proof. intros. apply run_full_include_shadows; assumption. Qed.
Print Assumptions C13_include_shadows_other_options.

(** concretely: include_paths=["root['a']"] + exclude_types=[int] reports the int at root['a']['b'] *)
Theorem C13_include_shadows_types_refuted :
  exists hatom udiff ops (inc : list pystr) (c : cfg) (t1 t2 : value) (e : entry),
  In e (fst (run_full hatom udiff ops no_skip no_rxh [] inc [TInt] no_cb no_cb None None c t1 t2)) /\
  ~ In e (fst (run_full hatom udiff ops no_skip no_rxh [] [] [TInt] no_cb no_cb None None c t1 t2)).
Proof.
  exists h0, u0, o0, v1_inc, positional0, v1_t1, v1_t2, v1_e.
  split; [vm_compute; left; reflexivity|]. intros H. vm_compute in H. destruct H as [H|[]]. discriminate H.
Qed.
Print Assumptions C13_include_shadows_types_refuted.

(** without include options the verdict of _skip_this is the plain disjunction of the exclusion tests: literal path,
    regex, type of either object, callback on either object, strict callback on both *)
Theorem C13_exclusions_are_a_disjunction :
  forall (rx : path -> bool) (EX : list pystr) (TY : list ty) (cb cbs : value -> bool) (p : path) (a b : option value),
  skip_full rx EX [] TY cb cbs None None p a b =
  mem_str (render p) EX || rx p || (ty_hit TY a || ty_hit TY b) || (cbv cb a || cbv cb b) || (cbv cbs a && cbv cbs b).
Proof. exact skip_full_exclusions. Qed.
Print Assumptions C13_exclusions_are_a_disjunction.

(** ** Round 3: independence in the default alignment mode under an input-level guard *)

(** [mguard0 del P E c t1 t2]: at every pair of sequences the filtered run reaches whose items are atoms once the
    skipped items are blanked (the pair difflib would get), no index child is skipped.  Under it - in EVERY mode - two
    input pairs that agree outside the skipped positions get the same filtered (kind, path, path) list. *)
Theorem C13_exclude_independent_guarded :
  forall hatom udiff ops (P E : path -> bool) (c : cfg) (del : bool) (t1 t2 t1' t2' : value),
  del = false \/ thr_num c = 0 ->
  keys_all key_plain t1 = true -> keys_all key_plain t2 = true ->
  keys_all key_plain t1' = true -> keys_all key_plain t2' = true ->
  mguard0 del P E c t1 t2 = true -> mguard0 del P E c t1' t2' = true ->
  prune del P [] t1 = prune del P [] t1' -> prune del P [] t2 = prune del P [] t2' ->
  map proj (fst (run_diff hatom udiff ops P E c t1 t2)) = map proj (fst (run_diff hatom udiff ops P E c t1' t2')).
Proof. intros. eapply exclude_agree_g; eassumption. Qed.
Print Assumptions C13_exclude_independent_guarded.

(** the former mode guard implies it *)
Theorem C13_exclude_independent_guard_weaker :
  forall (del : bool) (P E : path -> bool) (c : cfg) (t1 t2 : value),
  zip c = true \/ idx_closed P -> mguard0 del P E c t1 t2 = true.
Proof. intros. apply mguard0_of_mode. assumption. Qed.
Print Assumptions C13_exclude_independent_guard_weaker.

(** without it independence FAILS in the default mode: under exclude_paths=['root[3]'] the pair
    [1,2,3,{'a':1}] / [2,3,4,{'a':2}] is compared pairwise (three values_changed) while [1,2,3,None] / [2,3,4,None]
    goes to difflib (one removal, one addition) - whether the EXCLUDED item is a container decides how its siblings
    are aligned.  (Default mode with a path ending in a list index: outside the property's quantifier.) *)
Theorem C13_exclude_independent_default_index_refuted :
  exists hatom udiff ops (P E : path -> bool) (c : cfg) (t1 t2 t1' t2' : value),
  zip c = false /\ thr_num c = 0 /\
  keys_all key_plain t1 = true /\ keys_all key_plain t2 = true /\ keys_all key_plain t1' = true /\ keys_all key_plain t2' = true /\
  prune false P [] t1 = prune false P [] t1' /\ prune false P [] t2 = prune false P [] t2' /\
  map proj (fst (run_diff hatom udiff ops P E c t1 t2)) <> map proj (fst (run_diff hatom udiff ops P E c t1' t2')).
Proof.
  exists w8_h, w8_u, wi_ops, wi_P, no_skip, wi_c, wi_t1, wi_t2, wi_t1', wi_t2'.
  destruct independent_default_index_refuted as (A & B & C & D & _).
  split; [reflexivity|]. split; [reflexivity|]. do 4 (split; [reflexivity|]).
  split; [exact A|]. split; [exact B|]. rewrite C, D. discriminate.
Qed.
Print Assumptions C13_exclude_independent_default_index_refuted.

(** ** Round 3: sets of paths mixing literal and regex exclusion, on the options as the caller passes them *)
Theorem C13_exclude_options_guarded :
  forall hatom udiff ops (rx : path -> bool) (ex : list pystr) (c : cfg) (t1 t2 : value),
  wf t2 = true -> xguard (excluded rx ex) (excl_this (add_root_to_paths ex)) c t1 t2 = true ->
  fst (run_filtered hatom udiff ops rx ex [] c t1 t2) =
  filter (fun e => not_under (excluded rx ex) (ep1 e)) (fst (run_diff hatom udiff ops no_skip no_skip c t1 t2)).
Proof.
  intros. unfold run_filtered. rewrite run_diffx_no_kf. apply exclude_filter_guard; assumption.
Qed.
Print Assumptions C13_exclude_options_guarded.

(** ** Round 3: the object-dependent exclusions are path exclusions *)

(** positional mode, set-free well-formed inputs: the run with ANY object-dependent skip test SK (exclude_types,
    exclude_obj_callback(_strict), ... - whatever _skip_this computes from the level path and the two objects) is the run
    with the path predicate [trace SK t1 t2 q] = "SK at q and the objects the two inputs hold at position q" *)
Theorem C13_value_exclusion_is_path_exclusion :
  forall hatom udiff ops (SK : vskip) (E : path -> bool) (hit : path -> nat -> bool) (c : cfg) (t1 t2 : value),
  zip c = true -> wf t1 = true -> wf t2 = true -> setfree t1 = true -> setfree t2 = true ->
  run_diffv hatom udiff ops SK E no_kf hit c t1 t2 = run_diff hatom udiff ops (trace SK t1 t2) E c t1 t2.
Proof. intros. apply value_exclusion_is_path_exclusion; assumption. Qed.
Print Assumptions C13_value_exclusion_is_path_exclusion.

(** hence exclude_paths + exclude_regex_paths + exclude_types + exclude_obj_callback(_strict) together act as ONE pure
    filter - the unrestricted result minus the entries at or below a position excluded by any of them - exactly when the
    input-level guard holds (always at threshold 0) *)
Theorem C13_value_exclusion_is_filter :
  forall hatom udiff ops (rx : path -> bool) (rxh : path -> nat -> bool) (ex : list pystr) (TY : list ty)
         (cb cbs : value -> bool) (c : cfg) (t1 t2 : value),
  zip c = true -> wf t1 = true -> wf t2 = true -> setfree t1 = true -> setfree t2 = true ->
  let SK := skip_full rx (add_root_to_paths ex) [] TY cb cbs None None in
  (fst (run_full hatom udiff ops rx rxh ex [] TY cb cbs None None c t1 t2) =
   filter (fun e => not_under (trace SK t1 t2) (ep1 e)) (fst (run_diff hatom udiff ops no_skip no_skip c t1 t2))
   <-> xguard (trace SK t1 t2) (excl_this (add_root_to_paths ex)) c t1 t2 = true).
Proof. intros. apply value_exclusion_is_filter; assumption. Qed.
Print Assumptions C13_value_exclusion_is_filter.

(** ... and on inputs WITH sets (a set item has no position of its own: its level carries the path of the set and the
    objects (item, notpresent) / (notpresent, item)): the run with SK is the run with the path predicate [trace SK t1 t2]
    minus the set-item entries whose own level SK rejects; [run_diffh] = the run with the DeepHash-side exclusion of set
    members, the same on both sides.  Positional mode; no [setfree]. *)
Theorem C13_value_exclusion_with_sets :
  forall hatom udiff ops (SK : vskip) (E : path -> bool) (hit : path -> nat -> bool) (c : cfg) (t1 t2 : value),
  zip c = true -> wf t1 = true -> wf t2 = true ->
  fst (run_diffv hatom udiff ops SK E no_kf hit c t1 t2) =
  filter (set_item_ok SK) (fst (run_diffh hatom udiff ops (trace SK t1 t2) E no_kf hit c t1 t2)).
Proof. intros. apply value_exclusion_with_sets; assumption. Qed.
Print Assumptions C13_value_exclusion_with_sets.

(** in the DEFAULT alignment mode an object-dependent exclusion is not a pure filter: [1,'a'] -> ['a','b'] with
    exclude_types=[int] reports iterable_item_added root[1], an entry the unrestricted run (type_changes root[0],
    values_changed root[1]) does not have - the skipped levels change which of the two passes is kept.
    (Object-dependent options are outside C13's quantifier: documented behaviour; replayed on the implementation.) *)
Theorem C13_value_exclusion_default_refuted :
  exists hatom udiff ops (TY : list ty) (c : cfg) (t1 t2 : value) (e : entry),
  zip c = false /\ wf t1 = true /\ wf t2 = true /\ setfree t1 = true /\ setfree t2 = true /\
  In e (fst (run_full hatom udiff ops no_skip no_rxh [] [] TY no_cb no_cb None None c t1 t2)) /\
  ~ In e (fst (run_full hatom udiff ops no_skip no_rxh [] [] [] no_cb no_cb None None c t1 t2)).
Proof.
  exists h0, u0, v3_ops, [TInt], default0, v3_t1, v3_t2,
         (mkEntry KIterAdd [PIdx 1] [PIdx 1] None (Some (List.nth 1 (match v3_t2 with VList l => l | _ => [] end) (VAtom ANone))) None).
  repeat (split; [reflexivity|]). split; [vm_compute; left; reflexivity|].
  intros H. vm_compute in H. destruct H as [H|[H|[]]]; discriminate H.
Qed.
Print Assumptions C13_value_exclusion_default_refuted.

(** ** Round 3, second wave: the exact characterisation in EVERY alignment mode *)

(** [lguard P E c t1 t2] (input-level, threshold-free): along the common positions the filter keeps, no pair of all-atom
    sequences has its index children partly kept and partly dropped (vacuous in positional mode).  Under it, for
    well-formed inputs, in every mode at every threshold, the filter equation holds IFF no dictionary the filtered run
    compares flips its whole-dict shortcut ([xguard]).  What stays inexact in the default mode is exactly the
    all-atom-sequence clause. *)
Theorem C13_exclude_threshold_exact_any_mode :
  forall hatom udiff ops (P E : path -> bool) (c : cfg) (t1 t2 : value),
  lguard P E c t1 t2 = true -> wf t1 = true -> wf t2 = true ->
  (fst (run_diff hatom udiff ops P E c t1 t2) =
   filter (fun e => not_under P (ep1 e)) (fst (run_diff hatom udiff ops no_skip no_skip c t1 t2))
   <-> xguard P E c t1 t2 = true).
Proof. intros. apply exclude_guard_exact_any_mode; assumption. Qed.
Print Assumptions C13_exclude_threshold_exact_any_mode.

(** positional mode / predicates not ending in an index meet [lguard] (so C13_exclude_threshold_exact is an instance) *)
Theorem C13_exclude_lguard_of_mode :
  forall (c : cfg) (P E : path -> bool) (t1 t2 : value),
  zip c = true \/ idx_closed P -> P [] = false -> lguard P E c t1 t2 = true.
Proof. intros. apply lguard_of_mode; assumption. Qed.
Print Assumptions C13_exclude_lguard_of_mode.

(** C18 - the LFU cache behaves as a bounded least-frequently-used map.
    Final statements only.  [run]/[step]/[state_of]: the model of
    deepdiff/lfucache.py (Lfu/LfuModel.v);  [srun]/[sstep]/[sget]/[sset]: the
    abstract specification (Lfu/LfuSpec.v);  [R]: the refinement relation
    (Lfu/LfuProofs.v);  [sval]/[suses]/[evicted_by_set]/[evicts]/[undisturbed]:
    observers of the specification state (Lfu/LfuSpecProps.v).
    Every statement quantifies over ALL operation sequences / states, and over
    the type [val] of the stored content (the cache never inspects it). *)
From Coq Require Import List ZArith Arith Sorted.
Import ListNotations.
From DD Require Import Lfu.LfuModel Lfu.LfuSpec Lfu.LfuInv Lfu.LfuSpecProps Lfu.LfuProofs.
From DD Require Import Lfu.LfuRtModel Lfu.LfuRtProofs.
From DD Require Import Lfu.LfuHeapModel Lfu.LfuHeapProofs.

(** ** The model: structural invariant after every operation sequence *)
Theorem C18_inv : forall (val : Type) (c : nat) (ops : list (op val)), 1 <= c ->
  let s := state_of c ops in
  StronglySorted lt (map freq (buckets s)) /\          (* frequencies strictly ascending *)
  Forall (fun b => items b <> []) (buckets s) /\       (* no empty frequency node *)
  NoDup (map fst (flat_map items (buckets s))) /\      (* every key linked once *)
  size s <= cap s /\ cap s = c.                        (* never more than capacity keys *)
Proof. exact (@lfu_inv). Qed.
Print Assumptions C18_inv.

(** ** The model refines the specification: equal get outputs on every sequence *)
Theorem C18_refines_spec : forall (val : Type) (c : nat) (ops : list (op val)), 1 <= c ->
  snd (run (empty c) ops) = snd (srun (sempty c) ops) /\
  R (state_of c ops) (fst (srun (sempty c) ops)).
Proof. exact (@lfu_refines_spec). Qed.
Print Assumptions C18_refines_spec.

(** simulation step from any reachable pair of states *)
Theorem C18_step_refines : forall (val : Type) (c : nat) (ops : list (op val)) (o : op val), 1 <= c ->
  let s := state_of c ops in let sp := fst (srun (sempty c) ops) in
  snd (step s o) = snd (sstep sp o) /\ R (fst (step s o)) (fst (sstep sp o)).
Proof. exact (@lfu_step_refines). Qed.
Print Assumptions C18_step_refines.

(** the model's key table (presence, value, frequency of the node's bucket)
    is the spec's (presence, value, number of uses); same number of keys *)
Theorem C18_state_agrees : forall (val : Type) (c : nat) (ops : list (op val)) (k : key), 1 <= c ->
  let s := state_of c ops in let sp := fst (srun (sempty c) ops) in
  find_key k (buckets s) =
    match sval sp k, suses sp k with Some v, Some u => Some (u, v) | _, _ => None end /\
  contains s k = (if sval sp k then true else false) /\
  size s = length (entries sp).
Proof. exact (@lfu_state_agrees). Qed.
Print Assumptions C18_state_agrees.

(** ** (a) a get returns the last value set for the key unless it was evicted *)
Theorem C18_last_value : forall (val : Type) (c : nat) (pre : list (op val)) (k : key) (v : val) (mid : list (op val)), 1 <= c ->
  undisturbed (fst (srun (sempty c) (pre ++ [OSet k v]))) k mid ->
  snd (run (empty c) (pre ++ OSet k v :: mid ++ [OGet k])) =
  snd (run (empty c) (pre ++ OSet k v :: mid)) ++ [Some v].
Proof. exact (@lfu_last_value). Qed.
Print Assumptions C18_last_value.

Theorem C18_set_then_find : forall (val : Type) (c : nat) (ops : list (op val)) (k : key) (v : val), 1 <= c ->
  exists u, find_key k (buckets (state_of c (ops ++ [OSet k v]))) = Some (u, v).
Proof. exact (@lfu_set_then_find). Qed.
Print Assumptions C18_set_then_find.

Theorem C18_evicted_gone : forall (val : Type) (c : nat) (pre : list (op val)) (o : op val) (k : key), 1 <= c ->
  evicts (fst (srun (sempty c) pre)) o k ->
  snd (run (empty c) (pre ++ [o; OGet k])) = snd (run (empty c) pre) ++ [None].
Proof. exact (@lfu_evicted_gone). Qed.
Print Assumptions C18_evicted_gone.

(** the per-operation facts behind (a), on the specification *)
Theorem C18_get_returns_value : forall (val : Type) (s : spec val) (k k' : key),
  snd (sget s k) = sval s k /\ sval (fst (sget s k)) k' = sval s k'.
Proof. exact (@sget_returns). Qed.
Print Assumptions C18_get_returns_value.

Theorem C18_set_then_value : forall (val : Type) (s : spec val) (k : key) (v : val) (k' : key),
  sval (sset s k v) k = Some v /\
  (k' <> k ->
   sval (sset s k v) k' =
   if match evicted_by_set s k with Some x => Z.eqb x k' | None => false end then None else sval s k').
Proof. exact (@sset_values). Qed.
Print Assumptions C18_set_then_value.

(** ** (b) never more than capacity keys (model and spec) *)
Theorem C18_bounded : forall (val : Type) (c : nat) (ops : list (op val)), 1 <= c -> size (state_of c ops) <= c.
Proof. exact (@lfu_bounded). Qed.
Print Assumptions C18_bounded.

Theorem C18_spec_bounded : forall (val : Type) (c : nat) (ops : list (op val)), 1 <= c ->
  let s := fst (srun (sempty c) ops) in
  length (entries s) <= c /\ NoDup (map ekey (entries s)).
Proof. exact (@spec_bounded). Qed.
Print Assumptions C18_spec_bounded.

(** ** (c) one use per successful get, for that key only; a failed get and a set count nothing *)
Theorem C18_one_use_per_hit : forall (val : Type) (s : spec val) (k : key) (u : nat),
  suses s k = Some u ->
  suses (fst (sget s k)) k = Some (S u) /\
  (forall k', k' <> k -> suses (fst (sget s k)) k' = suses s k').
Proof. exact (@sget_hit_uses). Qed.
Print Assumptions C18_one_use_per_hit.

Theorem C18_miss_changes_nothing : forall (val : Type) (s : spec val) (k : key),
  suses s k = None -> sget s k = (s, None).
Proof. exact (@sget_miss_nothing). Qed.
Print Assumptions C18_miss_changes_nothing.

Theorem C18_set_counts_nothing : forall (val : Type) (s : spec val) (k : key) (v : val) (k' : key),
  suses (sset s k v) k' =
  if Z.eqb k k' then Some (match suses s k with Some u => u | None => 0 end)
  else if match evicted_by_set s k with Some x => Z.eqb x k' | None => false end
       then None else suses s k'.
Proof. exact (@sset_uses). Qed.
Print Assumptions C18_set_counts_nothing.

(** ** (d) the eviction victim: fewest uses, first (= longest at that count) among ties; nothing else is removed *)
Theorem C18_eviction_victim : forall (val : Type) (s : spec val) (k : key) (v : val),
  NoDup (map ekey (entries s)) -> sval s k = None -> 1 <= scap s <= length (entries s) ->
  exists l1 e l2,
    entries s = l1 ++ e :: l2 /\
    (forall x, In x (entries s) -> euses e <= euses x) /\
    (forall x, In x l1 -> euses e < euses x) /\
    evicted_by_set s k = Some (ekey e) /\
    entries (sset s k v) = l1 ++ l2 ++ [mkE k v 0].
Proof. exact (@sset_evicts). Qed.
Print Assumptions C18_eviction_victim.

Theorem C18_no_eviction_otherwise : forall (val : Type) (s : spec val) (k : key),
  (sval s k <> None -> evicted_by_set s k = None) /\
  (length (entries s) < scap s -> evicted_by_set s k = None).
Proof. exact (@no_eviction_otherwise). Qed.
Print Assumptions C18_no_eviction_otherwise.

(** ** Extension: set(key, report_type, value) with defaultdict(SetOrdered) content
    (Lfu/LfuRtModel.v).  A trace with report types is a trace of the generic model
    at [val := content] on the lowered operations, so all statements above apply. *)
Theorem C18_rt_lowers : forall (c : nat) (ops : list rop),
  rstate_of c ops = state_of c (lower_ops (empty c) ops) /\
  get_outs (snd (rrun (empty c) ops)) = snd (run (empty c) (lower_ops (empty c) ops)).
Proof. exact rt_lowers. Qed.
Print Assumptions C18_rt_lowers.

Theorem C18_rt_inv : forall (c : nat) (ops : list rop), 1 <= c ->
  let s := rstate_of c ops in
  StronglySorted lt (map freq (buckets s)) /\
  Forall (fun b => items b <> []) (buckets s) /\
  NoDup (map fst (flat_map items (buckets s))) /\
  size s <= cap s /\ cap s = c.
Proof. exact rt_inv. Qed.
Print Assumptions C18_rt_inv.

Theorem C18_rt_refines_spec : forall (c : nat) (ops : list rop), 1 <= c ->
  get_outs (snd (rrun (empty c) ops)) = snd (srun (sempty c) (lower_ops (empty c) ops)) /\
  R (rstate_of c ops) (fst (srun (sempty c) (lower_ops (empty c) ops))).
Proof. exact rt_refines_spec. Qed.
Print Assumptions C18_rt_refines_spec.

(** a set raises exactly when a report type is given for a key whose content is a
    plain value, and then the cache is unchanged *)
Theorem C18_rt_raises_iff : forall (s : lfu content) (k : key) (rt : option rtype) (v : Z),
  snd (set_rt s k rt v) = true <->
  exists r u x, rt = Some r /\ find_key k (buckets s) = Some (u, CVal x).
Proof. exact rt_raises_iff. Qed.
Print Assumptions C18_rt_raises_iff.

Theorem C18_rt_raise_keeps_state : forall (s : lfu content) (k : key) (rt : option rtype) (v : Z),
  snd (set_rt s k rt v) = true -> fst (set_rt s k rt v) = s.
Proof. exact rt_raise_keeps_state. Qed.
Print Assumptions C18_rt_raise_keeps_state.

Theorem C18_rt_set_then_find : forall (c : nat) (ops : list rop) (k : key) (rt : option rtype) (v : Z) (cnt : content),
  1 <= c -> lower (rstate_of c ops) k rt v = Some cnt ->
  exists u, find_key k (buckets (rstate_of c (ops ++ [RSet k rt v]))) = Some (u, cnt).
Proof. exact rt_set_then_find. Qed.
Print Assumptions C18_rt_set_then_find.

(** ** Pointer level (Lfu/LfuHeapModel.v): CacheNode / FreqNode / LFUCache objects in a
    heap, every method transcribed statement by statement, [None] = an AttributeError /
    KeyError.  [heap_repr h s] (Lfu/LfuHeapProofs.v): walking [h] from freq_link_head
    yields exactly the bucket list of [s] (the decorated list [sh] with [erase sh =
    buckets s]); pre is the inverse of nxt in both kinds of list; every cache node's
    freq_node is its bucket; cache_head / cache_tail are the ends; the dict is a
    permutation of the (key, node) pairs; ids are unique and below the allocation
    counters; keys are unique. *)

(** all operation sequences: the heap model never raises, returns the outputs of the
    bucket-list model and ends in a heap representing its final state *)
Theorem C18_heap_refines : forall (val : Type) (c : nat) (ops : list (op val)), 1 <= c ->
  exists h', hrun (hempty c) ops = Some (h', snd (run (empty c) ops)) /\
             heap_repr h' (state_of c ops).
Proof. exact (@heap_refines). Qed.
Print Assumptions C18_heap_refines.

(** one step, from any heap representing any state with no empty bucket *)
Theorem C18_heap_step_refines : forall (val : Type) (h : heap val) (s : lfu val) (o : op val),
  1 <= cap s -> nonempty (buckets s) -> heap_repr h s ->
  exists h', hstep h o = Some (h', snd (step s o)) /\ heap_repr h' (fst (step s o)).
Proof. exact (@hstep_refines). Qed.
Print Assumptions C18_heap_step_refines.

(** composed with C18_refines_spec: the pointer-level model produces the outputs of the
    abstract bounded-LFU specification *)
Theorem C18_heap_meets_spec : forall (val : Type) (c : nat) (ops : list (op val)), 1 <= c ->
  exists h', hrun (hempty c) ops = Some (h', snd (srun (sempty c) ops)).
Proof. exact (@heap_meets_spec). Qed.
Print Assumptions C18_heap_meets_spec.

(** method by method *)
(** CacheNode.free_myself, all four cases (only node / head / tail / middle): the node [a]
    between [l1] and [l2] of bucket [fi] is detached, the bucket's list is [l1 ++ l2] with
    head and tail adjusted, nothing else changes *)
Theorem C18_heap_free_myself : forall (val : Type) (h : heap val) fi f p n l1 (a : centry val) l2,
  bucket_ok h fi f (l1 ++ a :: l2) p n ->
  NoDup (map (@cid val) (l1 ++ a :: l2)) ->
  exists h',
    free_myself h (cid a) = Some h' /\
    bucket_ok h' fi f (l1 ++ l2) p n /\
    cget h' (cid a) = Some (mkC (akey a) (aval a) None None None) /\
    (forall j, ~ In j (map (@cid val) (l1 ++ a :: l2)) -> cget h' j = cget h j) /\
    (forall j, j <> fi -> fget h' j = fget h j) /\
    same_rest h h'.
Proof. exact (@free_myself_spec). Qed.
Print Assumptions C18_heap_free_myself.

Theorem C18_heap_move_forward : forall (val : Type) (h : heap val) s1 fi f l1 (a : centry val) l2 s2,
  wf h (s1 ++ (fi, (f, l1 ++ a :: l2)) :: s2) ->
  exists h',
    LfuHeapModel.move_forward h (cid a) fi = Some h' /\
    wf h' (s1 ++ keep (fi, (f, l1 ++ l2)) ++ mf_tail (nextf h) f a s2) /\
    hcap h' = hcap h.
Proof. exact (@move_forward_spec). Qed.
Print Assumptions C18_heap_move_forward.

Theorem C18_heap_dump_cache : forall (val : Type) (h : heap val) fi f (a : centry val) l2 s2,
  wf h ((fi, (f, a :: l2)) :: s2) ->
  exists h',
    LfuHeapModel.dump_cache h = Some h' /\
    wf h' (keep (fi, (f, l2)) ++ s2) /\
    hcap h' = hcap h.
Proof. exact (@dump_cache_spec). Qed.
Print Assumptions C18_heap_dump_cache.

Theorem C18_heap_create_cache_node : forall (val : Type) (h : heap val) sh (k : key) (v : val),
  wf h sh -> ~ In k (map (@akey val) (all_c sh)) ->
  exists h',
    create_cache_node h k v = Some h' /\
    wf h' (create_shape (nextc h) (nextf h) k v sh) /\
    hcap h' = hcap h.
Proof. exact (@create_spec). Qed.
Print Assumptions C18_heap_create_cache_node.

(** ** Concurrent use (Lfu/LfuConcModel.v): n threads, each executing a list of get / set
    calls on ONE shared heap; a call is [with self.lock: <body>] ([impl_locked]) where the
    body is the statement-level program of the heap model, one heap access per step
    ([prim] / [prog]); [tstep impl cfg t] = one step of thread t (None: not enabled - finished
    or waiting for the lock); a schedule is ANY list of thread ids ([exec]); [clog] records
    (thread, call) at each lock acquisition; [lrun] is the sequential execution of a log. *)
From DD Require Import Lfu.LfuConcModel Lfu.LfuConcProofs Lfu.LfuConcLin.

(** the statement-level program of a call, run without interruption, IS the heap model's step *)
Theorem C18_conc_body_is_heap_model : forall (val : Type) (o : op val) (h : heap val),
  interp (op_prog o) h = hstep h o.
Proof. exact op_prog_interp. Qed.
Print Assumptions C18_conc_body_is_heap_model.

(** EVERY schedule, EVERY reachable configuration: no call has raised; the configuration is
    explained by the sequential execution of the logged calls in lock-acquisition order -
    lock free: the heap IS that execution's heap; lock held by t: the heap is that of the
    calls before t's, advanced by part of t's body, and finishing the body without
    interruption gives exactly the sequential step; the values handed to each thread so
    far are the sequential ones (at most the value being returned is pending) *)
Theorem C18_conc_every_state : forall (val : Type) (c : nat) (progs : list (list (op val))) (sch : list tid) (cfg : config val),
  1 <= c -> exec (@impl_locked val) (init (hempty c) progs) sch = Some cfg ->
  any_crashed cfg = false /\
  exists Ld hs res,
    lrun (hempty c) Ld = Some (hs, res) /\
    heap_repr hs (state_of c (map snd Ld)) /\
    gets_only Ld res = snd (srun (sempty c) (map snd Ld)) /\
    (forall t th, nth_error (threads cfg) t = Some th ->
       exists pending, outs th ++ pending = proj t res /\ length pending <= 1) /\
    match clock cfg with
    | None => clog cfg = Ld /\ cheap cfg = hs
    | Some t => exists th o p,
        nth_error (threads cfg) t = Some th /\ cur th = Some (o, embed p (@fin val)) /\
        clog cfg = Ld ++ [(t, o)] /\ interp p (cheap cfg) = hstep hs o
    end.
Proof. exact conc_every_state. Qed.
Print Assumptions C18_conc_every_state.

(** linearizability, lock acquisitions as linearization points: for EVERY schedule that
    runs all threads to completion, the final heap is the heap of the SEQUENTIAL execution
    of the calls in lock-acquisition order, that order is an interleaving of the threads'
    programs, every value a get returned is the one the sequential execution returns
    (= the abstract bounded-LFU spec's), nothing raised, and the heap represents the
    bucket-list state after those calls *)
Theorem C18_conc_linearizable : forall (val : Type) (c : nat) (progs : list (list (op val))) (sch : list tid) (cfg : config val),
  1 <= c -> exec (@impl_locked val) (init (hempty c) progs) sch = Some cfg -> all_done cfg = true ->
  exists res,
    lrun (hempty c) (clog cfg) = Some (cheap cfg, res) /\
    Forall (fun x => fst x < length progs) (clog cfg) /\
    (forall t th P, nth_error (threads cfg) t = Some th -> nth_error progs t = Some P ->
       proj t (clog cfg) = P /\ outs th = proj t res /\ crashed th = false) /\
    heap_repr (cheap cfg) (state_of c (map snd (clog cfg))) /\
    gets_only (clog cfg) res = snd (srun (sempty c) (map snd (clog cfg))).
Proof. exact conc_linearizable. Qed.
Print Assumptions C18_conc_linearizable.

(** whenever the lock is free the shared heap satisfies the bounded-LFU invariants *)
Theorem C18_conc_quiescent_invariants : forall (val : Type) (c : nat) (progs : list (list (op val))) (sch : list tid) (cfg : config val),
  1 <= c -> exec (@impl_locked val) (init (hempty c) progs) sch = Some cfg -> clock cfg = None ->
  let s := state_of c (map snd (clog cfg)) in
  heap_repr (cheap cfg) s /\
  StronglySorted lt (map freq (buckets s)) /\
  Forall (fun b => items b <> []) (buckets s) /\
  NoDup (map fst (flat_map items (buckets s))) /\
  size s <= cap s /\ cap s = c.
Proof. exact conc_quiescent_invariants. Qed.
Print Assumptions C18_conc_quiescent_invariants.

(** what the proof needs from the code - and what the harness's recording-lock monitor
    observes on lfucache.py on every run: a thread about to access the heap holds the lock *)
Theorem C18_conc_accesses_under_lock : forall (val : Type) (c : nat) (progs : list (list (op val))) (sch : list tid) (cfg : config val)
    (t : tid) (th : thread val) (o : op val) (B : Type) (pr : prim val B) (k : B -> cprog val),
  1 <= c -> exec (@impl_locked val) (init (hempty c) progs) sch = Some cfg ->
  nth_error (threads cfg) t = Some th -> cur th = Some (o, CAct pr k) -> clock cfg = Some t.
Proof. exact conc_accesses_under_lock. Qed.
Print Assumptions C18_conc_accesses_under_lock.

(** no deadlock: while some thread has calls left, some thread can step *)
Theorem C18_conc_no_deadlock : forall (val : Type) (c : nat) (progs : list (list (op val))) (sch : list tid) (cfg : config val),
  1 <= c -> exec (@impl_locked val) (init (hempty c) progs) sch = Some cfg -> all_done cfg = false ->
  exists t cfg', tstep (@impl_locked val) cfg t = Some cfg'.
Proof. exact conc_no_deadlock. Qed.
Print Assumptions C18_conc_no_deadlock.

(** the lock must cover the dict lookup: with [impl_readfirst] (lookup, THEN acquire; body;
    release) two sets of the same absent key can both create a node - all calls return
    normally and the final heap represents NO cache state at all ... *)
Theorem C18_conc_readfirst_set_refuted :
  exists (c : nat) (progs : list (list (op Z))) (sch : list tid) (cfg : config Z),
    1 <= c /\
    exec (@impl_readfirst Z) (init (hempty c) progs) sch = Some cfg /\
    all_done cfg = true /\ any_crashed cfg = false /\
    forall s, ~ heap_repr (cheap cfg) s.
Proof. exact readfirst_set_refuted. Qed.
Print Assumptions C18_conc_readfirst_set_refuted.

(** ... and a get whose key is evicted between its lookup and its acquire raises *)
Theorem C18_conc_readfirst_get_refuted :
  exists (c : nat) (progs : list (list (op Z))) (sch : list tid) (cfg : config Z),
    1 <= c /\
    exec (@impl_readfirst Z) (init (hempty c) progs) sch = Some cfg /\
    any_crashed cfg = true.
Proof. exact readfirst_get_refuted. Qed.
Print Assumptions C18_conc_readfirst_get_refuted.

(** ** The remaining methods at the pointer level (Lfu/LfuAuxModel.v) *)
From DD Require Import Lfu.LfuAuxModel Lfu.LfuAuxProofs.

(** set(key, report_type, value) on the heap: every trace of get / set / set-with-report-type
    from the empty cache never hits the error value, produces every output of LfuRtModel.v
    (content, not_found, done, raised) and ends in a heap representing its final state *)
Theorem C18_rt_heap_refines : forall (c : nat) (ops : list rop), 1 <= c ->
  exists h', hrrun (hempty c) ops = Some (h', snd (rrun (empty c) ops)) /\
             heap_repr h' (rstate_of c ops).
Proof. exact rt_heap_refines. Qed.
Print Assumptions C18_rt_heap_refines.

Theorem C18_rt_heap_set_refines : forall (h : heap content) (s : lfu content) (k : key) (rt : option rtype) (v : Z),
  1 <= cap s -> nonempty (buckets s) -> heap_repr h s ->
  exists h', hset_rt h k rt v = Some (h', snd (set_rt s k rt v)) /\
             heap_repr h' (fst (set_rt s k rt v)).
Proof. exact hset_rt_refines. Qed.
Print Assumptions C18_rt_heap_set_refines.

(** get_sorted_cache_keys on any heap representing [s]: never an error; every key with the
    frequency of its bucket, exactly once; descending by frequency ... *)
Theorem C18_sorted_cache_keys : forall (val : Type) (h : heap val) (s : lfu val), heap_repr h s ->
  exists l, h_sorted_keys h = Some l /\
            Permutation.Permutation l (key_freqs_of (buckets s)) /\
            StronglySorted (fun a b => snd b <= snd a) l.
Proof. exact sorted_keys_spec. Qed.
Print Assumptions C18_sorted_cache_keys.

(** ... and stable: the keys of any one frequency keep the order of the key table *)
Theorem C18_sorted_cache_keys_stable : forall (n : nat) (l : list (key * nat)),
  filter (fun y => Nat.eqb (snd y) n) (sort_desc l) = filter (fun y => Nat.eqb (snd y) n) l.
Proof. exact sort_desc_stable. Qed.
Print Assumptions C18_sorted_cache_keys_stable.

(** get_average_frequency = (sum of the frequencies of all keys) / (number of keys) *)
Theorem C18_average_frequency : forall (val : Type) (h : heap val) (s : lfu val), heap_repr h s ->
  h_avg_freq h = Some (sum_freqs (key_freqs_of (buckets s)), size s).
Proof. exact avg_freq_spec. Qed.
Print Assumptions C18_average_frequency.

(** ** Keys are only compared (Lfu/LfuKeys.v): renaming the keys by any injective [f] renames
    the final state and leaves every output unchanged - so the behaviour on keys of any type
    is that of the model on any injective numbering of the keys of the trace *)
From DD Require Import Lfu.LfuKeys.
Theorem C18_keys_only_compared : forall (val : Type) (f : key -> key) (c : nat) (ops : list (op val)),
  (forall a b, f a = f b -> a = b) ->
  snd (run (empty c) (map (ren_op val f) ops)) = snd (run (empty c) ops) /\
  state_of c (map (ren_op val f) ops) = ren_state val f (state_of c ops).
Proof. exact keys_only_compared. Qed.
Print Assumptions C18_keys_only_compared.

(** ** ALL entry points as calls of the interleaving semantics (Lfu/LfuConcGModel.v): get and
    set(key, report_type, value) under the lock ([call_impl] = [glocked (call_body o)]), and the
    LOCK-FREE [key in cache] (one dict lookup, no acquire) - over the heap with report-type
    contents.  [glog] logs the locking calls at their acquisitions; [gouts] / [gobs] collect
    the results of the locking / lock-free calls of a thread. *)
From DD Require Import Lfu.LfuConcGModel Lfu.LfuConcGLin Lfu.LfuConcDict Lfu.LfuConcGLfu.

Theorem C18_gconc_every_state : forall (c : nat) (progs : list (list call)) (sch : list tid) (cfg : gconfig content call cres),
  1 <= c -> gexec is_reader call_impl (ginit cres (hempty c) progs) sch = Some cfg ->
  gany_crashed cfg = false /\
  exists Ld hs res,
    glrun call_step (hempty c) Ld = Some (hs, res) /\
    heap_repr hs (rstate_of c (rops_of Ld)) /\
    match glock cfg with
    | None => glog cfg = Ld /\ gheap cfg = hs
    | Some t => exists th o p,
        nth_error (gthreads cfg) t = Some th /\ is_reader o = false /\
        gcur th = Some (o, gembed p (@gfin content cres)) /\
        glog cfg = Ld ++ [(t, o)] /\ interp p (gheap cfg) = call_step hs o
    end.
Proof. exact gconc_every_state. Qed.
Print Assumptions C18_gconc_every_state.

(** linearizability of get / set(key, report_type, value) in the presence of lock-free readers *)
Theorem C18_gconc_linearizable : forall (c : nat) (progs : list (list call)) (sch : list tid) (cfg : gconfig content call cres),
  1 <= c -> gexec is_reader call_impl (ginit cres (hempty c) progs) sch = Some cfg -> gall_done cfg = true ->
  exists res,
    glrun call_step (hempty c) (glog cfg) = Some (gheap cfg, res) /\
    Forall (fun x => fst x < length progs) (glog cfg) /\
    (forall t th P, nth_error (gthreads cfg) t = Some th -> nth_error progs t = Some P ->
       proj t (glog cfg) = lk_ops is_reader P /\ gouts th = proj t res /\ gcrashed th = false) /\
    heap_repr (gheap cfg) (rstate_of c (rops_of (glog cfg))).
Proof. exact gconc_linearizable. Qed.
Print Assumptions C18_gconc_linearizable.

(** what ONE lock-free [key in cache] observes.  Lock free at that moment: exactly the key
    table of the state after the logged calls ... *)
Theorem C18_contains_quiescent : forall (c : nat) (progs : list (list call)) (sch : list tid) (cfg : gconfig content call cres) (k : key),
  1 <= c -> gexec is_reader call_impl (ginit cres (hempty c) progs) sch = Some cfg -> glock cfg = None ->
  (match lookup k (dict (gheap cfg)) with Some _ => true | None => false end) =
  contains (rstate_of c (rops_of (glog cfg))) k.
Proof. exact gconc_contains_quiescent. Qed.
Print Assumptions C18_contains_quiescent.

(** ... lock held (thread t is inside its critical section on the call logged last): for every
    key, the key is seen as in the state BEFORE that call or as in the state AFTER it *)
Theorem C18_contains_midsection : forall (c : nat) (progs : list (list call)) (sch : list tid) (cfg : gconfig content call cres) (t : tid),
  1 <= c -> gexec is_reader call_impl (ginit cres (hempty c) progs) sch = Some cfg -> glock cfg = Some t ->
  exists Ld o, glog cfg = Ld ++ [(t, o)] /\
    forall q,
      mem q (dict (gheap cfg)) = contains (rstate_of c (rops_of Ld)) q \/
      mem q (dict (gheap cfg)) = contains (rstate_of c (rops_of (Ld ++ [(t, o)]))) q.
Proof. exact gconc_contains_midsection. Qed.
Print Assumptions C18_contains_midsection.

(** ... but two lookups are not one snapshot, and lock-free lookups are NOT linearizable:
    capacity 1, reader thread [set 1; 1 in c; 2 in c], writer [set 2]: the reader gets
    False, False, which no sequential order respecting program order produces *)
Theorem C18_contains_linearizable_refuted :
  exists cfg,
    gexec is_reader call_impl (ginit cres (hempty 1) nl_progs) nl_sched = Some cfg /\
    gall_done cfg = true /\ gany_crashed cfg = false /\
    option_map (@gobs content call cres) (nth_error (gthreads cfg) 1) = Some [XBool false; XBool false] /\
    Forall (fun L => seq_reader_results L <> Some [XDone; XBool false; XBool false])
           (merges (tagged 0 [CSet 2%Z None 20%Z]) (tagged 1 [CSet 1%Z None 10%Z; CContains 1%Z; CContains 2%Z])).
Proof. exact contains_not_linearizable. Qed.
Print Assumptions C18_contains_linearizable_refuted.

(** C12 - DeepHash equality <=> order-ignoring diff emptiness, under the options the
    two engines share.  Final statements only.

    HASH ENGINE   [hash_pure H (hoptsF F priv rep) v] = DeepHash(v, hasher=H,
                  ignore_repetition = not rep, **F)[v]  (Hash/HashModel.v; its normalisers
                  mirror deephash.py: _prep_number, prepare_string_for_hashing, re-tagging).
    DIFF ENGINE   [run_diff_ioF H udiff c F rep pairs t1 t2] = DeepDiff(t1, t2,
                  ignore_order=True, report_repetition=rep, view='tree', **F)
                  (HashDiff/HashDiffModel.v; its normalisers mirror diff.py: type groups,
                  _diff_str, _diff_numbers, _get_clean_to_keys_mapping - Options/OptModel.v -;
                  lists / sets go through item hashes computed WITH the forwarded options;
                  [pairs] is the ORACLE for _get_most_in_common_pairs_in_iterables).
    F             the shared options: ignore_string_case, ignore_string_type_changes,
                  ignore_numeric_type_changes, significant_digits (notation 'f'); [shared F].
    [eqvA F]      the independent specification on scalars: equality of [akey F a] = the
                  atom with the ignored aspects forgotten (HashDiff/HashDiffProofsAtoms.v).
    H             the hasher; [H_inj] (and [H_tok] for containers) are hypotheses standing for
                  SHA-256 hexdigest being collision-free - premises, not axioms. *)
From Coq Require Import List ZArith NArith Bool Arith String.
Import ListNotations.
From DD Require Import Base.PyStr Base.Value Diff.Tree Diff.DiffModel Hash.HashModel Hash.Equiv
  Hash.HashProofsBase Hash.HashProofsC07 DiffIO.DiffIOModel DiffIO.DiffIOProofs Options.OptModel
  HashDiff.HashDiffModel HashDiff.HashDiffProofsDefault HashDiff.HashDiffProofsNum
  HashDiff.HashDiffProofsAtoms HashDiff.HashDiffProofsInv HashDiff.HashDiffProofsLift HashDiff.HashDiffProofsKeys
  HashDiff.HashDiffProofsWitness HashDiff.HashDiffProofsSat HashDiff.HashDiffProofsParts HashDiff.HashDiffProofsWitness2.
From DD Require Options.OptDtModel Options.YValue Options.YModel HashDiff.HashDiffYModel HashDiff.HashDiffYProofs HashDiff.HashDiffYWitness HashDiff.HashDiffYSets HashDiff.HashDiffYEnum.
From DD Require HashDiff.HashDiffTextModel HashDiff.HashDiffTextProofs.

(* ------------------------------------------------------------------------- *)
(** (1) The property at DEFAULT options, all nested values: corollary of C05 + C06 + C07
        under their guards (no str spelling a serialisation, no ==-aliasing atoms). *)
Theorem C12_default_hash_iff_diff_partial :
  forall (H : pystr -> pystr),
  (forall s, s <> [] -> sepfree (H s)) -> (forall s t, H s = H t -> s = t) ->
  forall udiff excl c rep pairs t1 t2,
  thr_num c <= thr_den c ->
  wf t1 = true -> wf t2 = true -> tag_safe t1 = true -> tag_safe t2 = true -> alias_free2 t1 t2 = true ->
  (hash_pure H (io_opts c rep) t1 = hash_pure H (io_opts c rep) t2 <->
   fst (run_diff_io H udiff no_skip excl c rep pairs t1 t2) = []).
Proof. exact default_hash_iff_diff. Qed.
Print Assumptions C12_default_hash_iff_diff_partial.

(* the option-aware model of this block, without options, IS the model of C05 (all inputs) *)
Theorem C12_model_without_options_is_C05_model :
  forall H udiff c rep pairs t1 t2,
  run_diff_ioF H udiff c no_opts rep pairs t1 t2 = run_diff_io H udiff no_skip no_skip c rep pairs t1 t2 /\
  hoptsF no_opts (DiffModel.ignore_private c) rep = io_opts c rep.
Proof. intros. split; [apply run_diff_ioF_no_opts|reflexivity]. Qed.
Print Assumptions C12_model_without_options_is_C05_model.

(* ------------------------------------------------------------------------- *)
(** (2) Scalars, EVERY combination of the shared options: each engine decides exactly
        the equivalence [eqvA F], hence they agree. *)
Theorem C12_atoms_hash_iff_eqvA_partial :
  forall (H : pystr -> pystr), (forall s t, H s = H t -> s = t) ->
  forall F priv rep a b, tag_okF F a = true -> tag_okF F b = true ->
  (hash_atom H (hoptsF F priv rep) a = hash_atom H (hoptsF F priv rep) b <-> eqvA F a b).
Proof. intros H Hinj F priv rep a b. apply hash_atom_key. exact Hinj. Qed.
Print Assumptions C12_atoms_hash_iff_eqvA_partial.

Theorem C12_atoms_diff_iff_eqvA_partial :
  forall udiff F a b p1 p2, shared F = true ->
  k9_ok F a b = true -> ascii_atom a = true -> ascii_atom b = true ->
  (diff_atomF udiff F a b p1 p2 = [] <-> eqvA F a b).
Proof. intros udiff F a b p1 p2 HF. apply diff_atom_key. exact HF. Qed.
Print Assumptions C12_atoms_diff_iff_eqvA_partial.

Theorem C12_atoms_hash_iff_diff_partial :
  forall (H : pystr -> pystr), (forall s t, H s = H t -> s = t) ->
  forall udiff F priv rep a b p1 p2, shared F = true -> atom_guard F a b = true ->
  (hash_atom H (hoptsF F priv rep) a = hash_atom H (hoptsF F priv rep) b <-> diff_atomF udiff F a b p1 p2 = []).
Proof. exact atoms_hash_iff_diff. Qed.
Print Assumptions C12_atoms_hash_iff_diff_partial.

(* the four options one by one (instances of the theorem above) *)
Theorem C12_atoms_each_option_partial :
  forall (H : pystr -> pystr), (forall s t, H s = H t -> s = t) ->
  forall udiff priv rep a b p1 p2,
  (atom_guard F_case a b = true ->
     (hash_atom H (hoptsF F_case priv rep) a = hash_atom H (hoptsF F_case priv rep) b <-> diff_atomF udiff F_case a b p1 p2 = [])) /\
  (atom_guard F_strty a b = true ->
     (hash_atom H (hoptsF F_strty priv rep) a = hash_atom H (hoptsF F_strty priv rep) b <-> diff_atomF udiff F_strty a b p1 p2 = [])) /\
  (atom_guard F_numty a b = true ->
     (hash_atom H (hoptsF F_numty priv rep) a = hash_atom H (hoptsF F_numty priv rep) b <-> diff_atomF udiff F_numty a b p1 p2 = [])) /\
  (forall d, atom_guard (F_sig d) a b = true ->
     (hash_atom H (hoptsF (F_sig d) priv rep) a = hash_atom H (hoptsF (F_sig d) priv rep) b <-> diff_atomF udiff (F_sig d) a b p1 p2 = [])).
Proof.
  intros H Hinj udiff priv rep a b p1 p2.
  split; [|split; [|split]]; intros; apply atoms_hash_iff_diff; auto.
Qed.
Print Assumptions C12_atoms_each_option_partial.

(* both number formatters (Decimal-based in the hash model, p_of_Z-based in the diff model)
   are injective functions of the value rounded half-even to the digits in force *)
Theorem C12_number_formatting_agrees :
  forall d a b, is_num a = true -> is_num b = true ->
  (ftxt (N.to_nat d) a = ftxt (N.to_nat d) b <-> num_str d (dyv a) = num_str d (dyv b)).
Proof. intros d a b Ha Hb. rewrite (ftxt_sem d a b Ha Hb), num_str_inj. tauto. Qed.
Print Assumptions C12_number_formatting_agrees.

(* ------------------------------------------------------------------------- *)
(** (3) ALL nested values, EVERY combination of the shared options, EVERY pairing oracle,
        every hasher that is injective, emits separator-free non-empty tokens and
        lower-case-stable text (SHA-256 hexdigest): equal hashes <=> empty order-ignoring
        diff, inside the boolean guard [lift_guard] =
          every str (bytes when the text type is ignored) is free of ':' and is not NONE up
          to the case folding in force (K1), bytes are ASCII, no bool meets an int / float
          under ignore_numeric_type_changes (K9), key cleaning is coherent with the key hashes
          on the dict keys ([cohk]: excludes ==-aliased keys, bytes keys under
          ignore_string_case, rounded float keys under significant_digits alone, bool keys
          under ignore_numeric_type_changes), every dict has a good key set (no clean-key
          collision) and, with report_repetition, no set has two members the options merge.
        Proof: structural induction over t1; a pairing can never turn different into equal. *)
Theorem C12_hash_iff_diff_partial :
  forall (H : pystr -> pystr),
  (forall s, sepfree (H s)) -> (forall s t, H s = H t -> s = t) -> (forall s, lower (H s) = H s) ->
  forall udiff c F rep pairs t1 t2,
  shared F = true -> thr_num c <= thr_den c -> lift_guard c F rep t1 t2 = true ->
  (hash_pure H (hoptsF F (DiffModel.ignore_private c) rep) t1 = hash_pure H (hoptsF F (DiffModel.ignore_private c) rep) t2 <->
   fst (run_diff_ioF H udiff c F rep pairs t1 t2) = []).
Proof. exact hash_iff_diff. Qed.
Print Assumptions C12_hash_iff_diff_partial.

(* the same on the observables of the correspondence check *)
Theorem C12_verdict_iff_hash_partial :
  forall (H : pystr -> pystr),
  (forall s, sepfree (H s)) -> (forall s t, H s = H t -> s = t) -> (forall s, lower (H s) = H s) ->
  forall udiff c F rep pairs t1 t2,
  shared F = true -> thr_num c <= thr_den c -> lift_guard c F rep t1 t2 = true ->
  (hash_eqF H c F rep t1 t2 = true <-> verdictF H udiff c F rep pairs t1 t2 = DEmpty).
Proof. exact verdict_iff_hash. Qed.
Print Assumptions C12_verdict_iff_hash_partial.

(* the relational component [cohk] of the guard follows from a PER-KEY boolean condition
   [key_okb]: K1 guard, ASCII, no bool key, a float key only when key cleaning renders numbers
   (an ignore_* option and a precision in force), a bytes key under ignore_string_case without
   ignore_string_type_changes already lower-case *)
Theorem C12_key_coherence_partial :
  forall F k k', key_okb F k = true -> key_okb F k' = true ->
  (py_eq (OptProofsKeys.ckey F k) (OptProofsKeys.ckey F k') = true <-> eqvA F k k') /\ cohk F k k' = true.
Proof.
  intros F k k' A B. split; [apply key_coh; assumption|].
  apply cohkb_cohk. unfold cohkb. rewrite A, B. reflexivity.
Qed.
Print Assumptions C12_key_coherence_partial.

(* ... hence the main theorem with the guard [lift_guardb], all of whose components on dict
   keys are per-key checks *)
Theorem C12_hash_iff_diff_simple_guard_partial :
  forall (H : pystr -> pystr),
  (forall s, sepfree (H s)) -> (forall s t, H s = H t -> s = t) -> (forall s, lower (H s) = H s) ->
  forall udiff c F rep pairs t1 t2,
  shared F = true -> thr_num c <= thr_den c -> lift_guardb c F rep t1 t2 = true ->
  (hash_pure H (hoptsF F (DiffModel.ignore_private c) rep) t1 = hash_pure H (hoptsF F (DiffModel.ignore_private c) rep) t2 <->
   fst (run_diff_ioF H udiff c F rep pairs t1 t2) = []).
Proof. exact hash_iff_diff_b. Qed.
Print Assumptions C12_hash_iff_diff_simple_guard_partial.

Theorem C12_simple_guard_satisfiable :
  lift_guardb cfg_def F_all false ex_a ex_b = true /\ lift_guardb cfg_def F_all true ex_a ex_b = true /\
  (forall c F rep t1 t2, lift_guardb c F rep t1 t2 = true -> lift_guard c F rep t1 t2 = true).
Proof. destruct lift_guardb_example as [A B]. repeat split; try assumption. exact lift_guardb_sound. Qed.
Print Assumptions C12_simple_guard_satisfiable.

(* inside the guard the verdict is independent of the pairing heuristic (cutoff_distance_for_pairs,
   cutoff_intersection_for_pairs, max_passes, cache_size occur in the model only through [pairs]) *)
Theorem C12_pairing_independence_partial :
  forall (H : pystr -> pystr),
  (forall s, sepfree (H s)) -> (forall s t, H s = H t -> s = t) -> (forall s, lower (H s) = H s) ->
  forall udiff udiff' c F rep pairs pairs' t1 t2,
  shared F = true -> thr_num c <= thr_den c -> lift_guard c F rep t1 t2 = true ->
  (fst (run_diff_ioF H udiff c F rep pairs t1 t2) = [] <-> fst (run_diff_ioF H udiff' c F rep pairs' t1 t2) = []).
Proof. exact pairing_independence. Qed.
Print Assumptions C12_pairing_independence_partial.

(* the hash side on the observable DeepHash(v, **F)[v] computed with its own fresh `hashes`
   table (b06's memo-threading model [deephash]): additionally no two ==-equal but different
   atoms inside ONE value (K2) *)
Theorem C12_deephash_iff_diff_partial :
  forall (H : pystr -> pystr),
  (forall s, sepfree (H s)) -> (forall s t, H s = H t -> s = t) -> (forall s, lower (H s) = H s) ->
  forall udiff c F rep pairs t1 t2,
  shared F = true -> thr_num c <= thr_den c -> lift_guard c F rep t1 t2 = true ->
  wf t1 = true -> wf t2 = true -> alias_free t1 = true -> alias_free t2 = true ->
  (deephash H (hoptsF F (DiffModel.ignore_private c) rep) t1 = deephash H (hoptsF F (DiffModel.ignore_private c) rep) t2 <->
   fst (run_diff_ioF H udiff c F rep pairs t1 t2) = []).
Proof. exact deephash_iff_diff. Qed.
Print Assumptions C12_deephash_iff_diff_partial.

(* the hypotheses on the hasher and the guard are satisfiable (a non-trivial pair of nested
   values that differ only in the ignored aspects: keys, set members and leaves) *)
Theorem C12_lift_hypotheses_satisfiable :
  ((forall s, sepfree (uhash s)) /\ (forall s t, uhash s = uhash t -> s = t) /\ (forall s, lower (uhash s) = uhash s)) /\
  lift_guard cfg_def F_all false ex_a ex_b = true /\ lift_guard cfg_def F_all true ex_a ex_b = true /\ shared F_all = true.
Proof.
  split; [split; [exact uhash_tok|split; [exact uhash_inj|exact uhash_low]]|].
  destruct lift_guard_example as [A B]. repeat split; assumption || reflexivity.
Qed.
(* ... and by values that are alias-free and well formed (the extra guards of the deephash form) *)
Theorem C12_deephash_guards_satisfiable :
  wf ex_a = true /\ wf ex_b = true /\ alias_free ex_a = true /\ alias_free ex_b = true.
Proof. vm_compute. repeat split; reflexivity. Qed.
Print Assumptions C12_deephash_guards_satisfiable.
Print Assumptions C12_lift_hypotheses_satisfiable.

(* ------------------------------------------------------------------------- *)
(** Full strength is false of the faithful models (each witness is replayed on the
    implementation at every run). *)
(* K9: bool vs number under ignore_numeric_type_changes - every injective hasher *)
Theorem C12_bool_int_refuted :
  forall (H : pystr -> pystr), (forall s t, H s = H t -> s = t) ->
  forall udiff c rep pairs,
  let a := VAtom (ABool true) in
  let b := VAtom (AInt 1) in
  hvF H c F_numty rep a <> hvF H c F_numty rep b /\
  run_diff_ioF H udiff c F_numty rep pairs a b = ([], []) /\
  verdictF H udiff c F_numty rep pairs a b = DEmpty /\
  tag_okF F_numty (ABool true) = true /\ tag_okF F_numty (AInt 1) = true /\ shared F_numty = true.
Proof. exact bool_int_refuted. Qed.
Print Assumptions C12_bool_int_refuted.

(* ... inside a list the verdict depends on the pairing oracle *)
Theorem C12_bool_int_list_refuted :
  let a := VList [VAtom (ABool true)] in
  let b := VList [VAtom (AInt 1)] in
  hash_eqF hexhash cfg_def F_numty false a b = false /\
  verdictF hexhash no_ud cfg_def F_numty false (fun _ => [(0, 0)]%nat) a b = DEmpty /\
  verdictF hexhash no_ud cfg_def F_numty false no_pairs a b = DNonEmpty /\
  hash_eqF hexhash cfg_def F_numty true a b = false /\
  verdictF hexhash no_ud cfg_def F_numty true (fun _ => [(0, 0)]%nat) a b = DEmpty.
Proof. exact bool_int_list_refuted. Qed.
Print Assumptions C12_bool_int_list_refuted.

(* K1 and its variants under ignore_string_case / ignore_string_type_changes - every hasher *)
Theorem C12_tag_refuted :
  forall (H : pystr -> pystr) udiff c rep pairs,
  hvF H c no_opts rep (VAtom ANone) = hvF H c no_opts rep (vstr "NONE") /\
  verdictF H udiff c no_opts rep pairs (VAtom ANone) (vstr "NONE") = DNonEmpty /\
  hvF H c F_case rep (VAtom ANone) = hvF H c F_case rep (vstr "none") /\
  verdictF H udiff c F_case rep pairs (VAtom ANone) (vstr "none") = DNonEmpty /\
  hvF H c F_strty rep (vint 1) = hvF H c F_strty rep (VAtom (ABytes (s2p "int:1"))) /\
  verdictF H udiff c F_strty rep pairs (vint 1) (VAtom (ABytes (s2p "int:1"))) = DNonEmpty.
Proof. exact tag_refuted. Qed.
Print Assumptions C12_tag_refuted.

Theorem C12_bytes_key_case_refuted :
  forall (H : pystr -> pystr) udiff rep pairs,
  let a := VDict [(ABytes (s2p "A"), vint 1)] in
  let b := VDict [(ABytes (s2p "a"), vint 1)] in
  hvF H cfg_def F_case rep a = hvF H cfg_def F_case rep b /\
  verdictF H udiff cfg_def F_case rep pairs a b = DNonEmpty.
Proof. exact bytes_key_case_refuted. Qed.
Print Assumptions C12_bytes_key_case_refuted.

Theorem C12_sig_keys_refuted :
  forall (H : pystr -> pystr) udiff rep pairs,
  let a := VDict [(AHalf 3, vint 1)] in
  let b := VDict [(AHalf 5, vint 1)] in
  hvF H cfg_def (F_sig 0) rep a = hvF H cfg_def (F_sig 0) rep b /\
  verdictF H udiff cfg_def (F_sig 0) rep pairs a b = DNonEmpty.
Proof. exact sig_keys_refuted. Qed.
Print Assumptions C12_sig_keys_refuted.

Theorem C12_key_collision_refuted :
  let a := VDict [(AStr (s2p "A"), vint 1); (AStr (s2p "a"), vint 2)] in
  let b := VDict [(AStr (s2p "A"), vint 1); (AStr (s2p "a"), vint 3)] in
  let b' := VDict [(AStr (s2p "a"), vint 2); (AStr (s2p "A"), vint 1)] in
  wf a = true /\ wf b = true /\
  hash_eqF hexhash cfg_def F_case false a b = false /\
  verdictF hexhash no_ud cfg_def F_case false no_pairs a b = DEmpty /\
  hash_eqF hexhash cfg_def F_case false a b' = true /\
  verdictF hexhash no_ud cfg_def F_case false no_pairs a b' = DNonEmpty.
Proof. exact key_collision_refuted. Qed.
Print Assumptions C12_key_collision_refuted.

Theorem C12_set_member_collision_refuted :
  let a := VSet [AStr (s2p "a"); AStr (s2p "A")] in
  let b := VSet [AStr (s2p "a")] in
  wf a = true /\ wf b = true /\
  hash_eqF hexhash cfg_def F_case true a b = false /\
  verdictF hexhash no_ud cfg_def F_case true no_pairs a b = DEmpty /\
  hash_eqF hexhash cfg_def F_case false a b = true.
Proof. exact set_member_collision_refuted. Qed.
Print Assumptions C12_set_member_collision_refuted.

Theorem C12_key_alias_refuted :
  let a := VDict [(AInt 1, vstr "x")] in
  let b := VDict [(AHalf 2, vstr "x")] in
  hash_eqF hexhash cfg_def (F_sig 2) false a b = false /\
  verdictF hexhash no_ud cfg_def (F_sig 2) false no_pairs a b = DEmpty /\
  hash_eqF hexhash cfg_def F_numty false a b = true /\
  verdictF hexhash no_ud cfg_def F_numty false no_pairs a b = DEmpty.
Proof. exact key_alias_refuted. Qed.
Print Assumptions C12_key_alias_refuted.

(* the guards are satisfiable and the two engines do agree on a non-trivial pair that
   differs only in the ignored aspects (and disagree with nobody: both say "different"
   once the options are removed) *)
Theorem C12_guards_satisfiable :
  (hash_eqF hexhash cfg_def F_all false ex_a ex_b = true /\
   verdictF hexhash no_ud cfg_def F_all false no_pairs ex_a ex_b = DEmpty /\
   hash_eqF hexhash cfg_def no_opts false ex_a ex_b = false /\
   verdictF hexhash no_ud cfg_def no_opts false no_pairs ex_a ex_b = DNonEmpty) /\
  atom_guard F_all (AStr (s2p "Ab")) (ABytes (s2p "aB")) = true /\ atom_guard F_all (AInt 3) (AHalf 6) = true /\
  (forall s, s <> [] -> sepfree (unary_hash s)) /\ (forall s t, unary_hash s = unary_hash t -> s = t).
Proof.
  split; [exact agree_example|]. split; [reflexivity|]. split; [reflexivity|]. split; [exact unary_hash_tok|exact unary_hash_inj].
Qed.
Print Assumptions C12_guards_satisfiable.

(* ------------------------------------------------------------------------- *)
(** (4) Round 3: the guard, component by component.
        [lift_guard] IS the conjunction of named boolean components; the harness evaluates every one
        of them (and wf, alias_free, shared F, threshold <= 1: the remaining hypotheses of the theorems
        above) on every generated case and checks the two real engines inside them. *)
Theorem C12_guard_is_conjunction_of_observed_components :
  forall c F rep t1 t2,
  lift_guard c F rep t1 t2 =
    lg_tag F t1 t2 && lg_ascii t1 t2 && lg_k9 F t1 t2 && lg_cohk F t1 t2 && goodv c F rep t1 && goodv c F rep t2 /\
  lift_guardb c F rep t1 t2 =
    lg_tag F t1 t2 && lg_ascii t1 t2 && lg_k9 F t1 t2 && lg_keyb F t1 t2 && goodv c F rep t1 && goodv c F rep t2.
Proof. intros. split; [apply lift_guard_parts|apply lift_guardb_parts]. Qed.
Print Assumptions C12_guard_is_conjunction_of_observed_components.

(* the K9 component is now EXACT: only a bool facing a number that the diff engine finds equal to it
   (bool first: ==; number first: equal number_to_string texts at the digits in force) is excluded.
   The guard of rounds 1-2 ("no bool next to an int / float") implies it; not conversely. *)
Theorem C12_exact_k9_guard_is_weaker :
  (forall c F rep t1 t2, old_lift_guard c F rep t1 t2 = true -> lift_guard c F rep t1 t2 = true) /\
  (lift_guard (mkCfg false 33 100 true) F_numty_ false wk_a wk_b = true /\
   old_lift_guard (mkCfg false 33 100 true) F_numty_ false wk_a wk_b = false) /\
  (forall F a b, k9_ok F a b = negb (k9_clash F a b)).
Proof. split; [exact lift_guard_weaker|split; [exact lift_guard_strictly_weaker|reflexivity]]. Qed.
Print Assumptions C12_exact_k9_guard_is_weaker.

(* ... and its boundary, on both models: True / 2 is inside (both engines: different); 0.5 / False at
   0 digits is outside in THAT order only (the number first: both render as '0') *)
Theorem C12_k9_boundary :
  lift_guard cfg_def F_numty false (VAtom (ABool true)) (VAtom (AInt 2)) = true /\
  hash_eqF hexhash cfg_def F_numty false (VAtom (ABool true)) (VAtom (AInt 2)) = false /\
  verdictF hexhash no_ud cfg_def F_numty false no_pairs (VAtom (ABool true)) (VAtom (AInt 2)) = DNonEmpty /\
  lift_guard cfg_def F_numty false (VAtom (AInt 2)) (VAtom (ABool true)) = true /\
  lift_guard cfg_def Fn0 false (VAtom (AHalf 1)) (VAtom (ABool false)) = false /\
  hash_eqF hexhash cfg_def Fn0 false (VAtom (AHalf 1)) (VAtom (ABool false)) = false /\
  verdictF hexhash no_ud cfg_def Fn0 false no_pairs (VAtom (AHalf 1)) (VAtom (ABool false)) = DEmpty /\
  verdictF hexhash no_ud cfg_def Fn0 false no_pairs (VAtom (ABool false)) (VAtom (AHalf 1)) = DNonEmpty.
Proof. exact k9_boundary. Qed.
Print Assumptions C12_k9_boundary.

(* K2, the run-wide `hashes` table, on the memo-threading model of the DiffIO block: [1] vs [1.0] *)
Theorem C12_memo_alias_refuted :
  pystr_eqb (hash_pure hexhash (io_opts cfg_def false) k2_a) (hash_pure hexhash (io_opts cfg_def false) k2_b) = false /\
  fst (fst (DiffIOMemo.run_diff_io_m hexhash no_ud no_skip no_skip cfg_def false no_pairs k2_a k2_b)) = [] /\
  fst (run_diff_io hexhash no_ud no_skip no_skip cfg_def false no_pairs k2_a k2_b) <> [] /\
  fst (run_diff_ioF hexhash no_ud cfg_def no_opts false no_pairs k2_a k2_b) <> [] /\
  alias_free2 k2_a k2_b = false.
Proof. exact memo_alias_refuted. Qed.
Print Assumptions C12_memo_alias_refuted.

(* K2 WITH options, inside ONE DeepHash call (the hash side on HashModel.deephash: its own table, keyed by ==):
   {2: [], 'a': 2} vs {'a': 2, 2.0: []} under ignore_string_case + significant_digits=3 - the hashes are equal
   only through the alias (on alias-free tables they differ), key cleaning tells the keys apart *)
Theorem C12_memo_alias_options_refuted :
  pystr_eqb (deephash hexhash (hoptsF Fcs3 true false) k2o_a) (deephash hexhash (hoptsF Fcs3 true false) k2o_b) = true /\
  hash_eqF hexhash cfg_def Fcs3 false k2o_a k2o_b = false /\
  verdictF hexhash no_ud cfg_def Fcs3 false no_pairs k2o_a k2o_b = DNonEmpty /\
  wf k2o_a = true /\ wf k2o_b = true /\ alias_free k2o_b = false.
Proof. exact memo_alias_options_refuted. Qed.
Print Assumptions C12_memo_alias_options_refuted.

(* ------------------------------------------------------------------------- *)
(** (4b) Text beyond ASCII and the two float zeros (HashDiff/HashDiffTextModel.v: str = Latin-1 code points,
        bytes = raw bytes with a UTF-8 decoder that can fail, 0.0 / -0.0), atoms only. *)
Module T.
Import HashDiffTextModel HashDiffTextProofs.

(* the two zeros, EXACTLY: the diff engine never tells them apart; the engines agree iff the signs are equal
   or a precision is in force (number_to_string takes abs of a zero) *)
Theorem C12_zero_exact :
  forall F n1 n2,
  t_reports F (TZ n1) (TZ n2) = false /\
  t_agree F (TZ n1) (TZ n2) = (Bool.eqb n1 n2 || match t_digits F with Some _ => true | None => false end).
Proof. exact zero_exact. Qed.
Print Assumptions C12_zero_exact.

(* two str objects - any Latin-1 text, ASCII or not - ALWAYS agree, under every option: the non-ASCII
   findings are about bytes only *)
Theorem C12_str_str_agree : forall F s t, t_agree F (TS s) (TS t) = true.
Proof. exact str_str_agree. Qed.
Print Assumptions C12_str_str_agree.

Theorem C12_negative_zero_refuted :
  t_hash_eq T0 (TZ true) (TZ false) = Some false /\ t_reports T0 (TZ true) (TZ false) = false /\
  t_agree Tsig2 (TZ true) (TZ false) = true.
Proof. exact negative_zero_refuted. Qed.
Print Assumptions C12_negative_zero_refuted.

Theorem C12_nonascii_bytes_refuted :
  t_hash_eq Tstrty (TS [233%N]) (TB [195%N; 169%N]) = Some true /\ t_reports Tstrty (TS [233%N]) (TB [195%N; 169%N]) = true /\
  t_hash_eq Tcase (TB [195%N; 137%N]) (TB [195%N; 169%N]) = Some true /\ t_reports Tcase (TB [195%N; 137%N]) (TB [195%N; 169%N]) = true /\
  t_agree Tcase (TS [201%N]) (TS [233%N]) = true /\ t_agree Tstrty (TS [97%N]) (TB [97%N]) = true.
Proof. exact nonascii_bytes_refuted. Qed.
Print Assumptions C12_nonascii_bytes_refuted.

Theorem C12_undecodable_bytes_refuted :
  t_hash_eq T0 (TB [255%N]) (TB [255%N]) = None /\ t_reports T0 (TB [255%N]) (TB [255%N]) = false /\
  t_hash_eq Tstrty (TB [255%N]) (TB [254%N]) = None /\ t_reports Tstrty (TB [255%N]) (TB [254%N]) = true.
Proof. exact undecodable_bytes_refuted. Qed.
Print Assumptions C12_undecodable_bytes_refuted.
End T.

(* ------------------------------------------------------------------------- *)
(** (5) Round 3: the EXTENDED universe (Options/YValue.v: arbitrary floats, Decimal, datetime / date /
        time / timedelta, Enum members) and ALL shared options (+ truncate_datetime, default_timezone,
        use_enum_value, number_format_notation).
        HASH ENGINE  [yh_atom H F a] / [yhash]: the stand-alone DeepHash (HashDiff/HashDiffYModel.v).
        DIFF ENGINE  [leafR udiff F a b p1 p2] = _diff on two leaves, [ydiff] = DeepDiff on list-free
                     values (Options/YModel.v), where ignore_order changes nothing. *)
Module Y.
Import OptDtModel YValue YModel HashDiffYModel HashDiffYProofs HashDiffYWitness.
Local Open Scope Z_scope.

(* truncate_datetime x default_timezone x every other option: for EVERY pair of datetimes (naive or
   aware, any zones) equal hashes <=> _diff reports nothing.  No guard beyond exclude_types = () *)
Theorem C12_datetime_hash_iff_diff :
  forall (H : pystr -> pystr), (forall s t, H s = H t -> s = t) ->
  forall udiff F, o_excl F = [] ->
  forall u1 o1 u2 o2 p1 p2,
  (yh_atom H F (ADt u1 o1) = yh_atom H F (ADt u2 o2) <-> leafR udiff F (ADt u1 o1) (ADt u2 o2) p1 p2 = Ok []).
Proof. exact y_datetime_hash_iff_diff. Qed.
Print Assumptions C12_datetime_hash_iff_diff.

(* ... and both say: the wall clocks floored to the unit IN THEIR OWN ZONES, then moved to UTC (a naive
   one read in default_timezone), coincide *)
Theorem C12_datetime_spec :
  forall (H : pystr -> pystr), (forall s t, H s = H t -> s = t) ->
  forall udiff F u1 o1 u2 o2 p1 p2, o_excl F = [] ->
  (leafR udiff F (ADt u1 o1) (ADt u2 o2) p1 p2 = Ok [] <->
   (dt_trunc (o_trunc F) u1 - 60000000 * match o1 with Some o => o | None => o_tz F end =
    dt_trunc (o_trunc F) u2 - 60000000 * match o2 with Some o => o | None => o_tz F end)%Z).
Proof. exact y_datetime_spec. Qed.
Print Assumptions C12_datetime_spec.

(* timedeltas (compared with != by _diff_time, hashed from their microseconds): equal hashes <-> nothing reported,
   for every option set; DeepHash RAISES on a timedelta exactly when a precision is in force (significant_digits,
   or ignore_numeric_type_changes with its 12 digits): finding C12-timedelta-hash-TypeError, exactly *)
Theorem C12_timedelta_hash_iff_diff :
  forall (H : pystr -> pystr), (forall s t, H s = H t -> s = t) ->
  forall udiff F, o_excl F = [] ->
  forall u1 u2 p1 p2,
  (yh_atom H F (ATd u1) = yh_atom H F (ATd u2) <-> leafR udiff F (ATd u1) (ATd u2) p1 p2 = Ok []) /\
  yh_err F (ATd u1) = match eff_sig F with Some _ => Some EType | None => None end.
Proof. exact y_timedelta_hash_iff_diff. Qed.
Print Assumptions C12_timedelta_hash_iff_diff.

(* use_enum_value.  DeepHash always hashes the value; _diff unwraps exactly when the TYPES differ (a
   plain value, a member of another class) and then compares without type check (the None edge
   case of _diff apart).  So at such a position, neither side None-valued, the property holds iff it
   holds for the two VALUES under the comparer of the first one's type with report_type_change off. *)
Theorem C12_enum_unwrapping :
  forall udiff F, o_enum F = true ->
  (forall c n o v, yh_text F (AEnum c n o v) = yh_text F (atom_of_e v)) /\
  (forall c n o v b p1 p2, o_excl F = [] -> o_nan F = false -> other_class c b = true ->
     is_none (atom_of_e v) = false -> is_none (unwrap F b) = false ->
     leafR udiff F (AEnum c n o v) b p1 p2 = dispatch udiff F false (atom_of_e v) (unwrap F b) p1 p2).
Proof.
  intros udiff F E. split; [intros; apply yh_text_unwrap; exact E|].
  intros. apply (leafR_enum_unwrap udiff F E); assumption.
Qed.
Print Assumptions C12_enum_unwrapping.

Theorem C12_enum_transfer_partial :
  forall udiff F, o_enum F = true ->
  forall (H : pystr -> pystr) c n o v b p1 p2,
  o_excl F = [] -> o_nan F = false -> other_class c b = true ->
  is_none (atom_of_e v) = false -> is_none (unwrap F b) = false ->
  ((yh_atom H F (AEnum c n o v) = yh_atom H F b <-> leafR udiff F (AEnum c n o v) b p1 p2 = Ok []) <->
   (yh_atom H F (atom_of_e v) = yh_atom H F (unwrap F b) <-> dispatch udiff F false (atom_of_e v) (unwrap F b) p1 p2 = Ok [])).
Proof. exact y_enum_transfer. Qed.
Print Assumptions C12_enum_transfer_partial.

(* self-contained form: when the member's value and the (unwrapped) other side have the SAME TYPE, _diff treats the
   member exactly as its value, so the property for the pair IS the property for the two values
   (values of different types: C12_enum_unwrap_skips_type_check_refuted) *)
Theorem C12_enum_same_type :
  forall udiff F, o_enum F = true ->
  forall (H : pystr -> pystr) c n o v b p1 p2,
  o_excl F = [] -> o_nan F = false -> other_class c b = true ->
  is_none (atom_of_e v) = false -> ty_eqb (atom_ty (atom_of_e v)) (atom_ty (unwrap F b)) = true ->
  leafR udiff F (AEnum c n o v) b p1 p2 = leafR udiff F (atom_of_e v) (unwrap F b) p1 p2 /\
  ((yh_atom H F (AEnum c n o v) = yh_atom H F b <-> leafR udiff F (AEnum c n o v) b p1 p2 = Ok []) <->
   (yh_atom H F (atom_of_e v) = yh_atom H F (unwrap F b) <-> leafR udiff F (atom_of_e v) (unwrap F b) p1 p2 = Ok [])).
Proof.
  intros udiff F E H c n o v b p1 p2 Hx Hn Hc Na T. split.
  - apply (HashDiffYEnum.leafR_enum_same_type udiff F E); assumption.
  - apply (HashDiffYEnum.y_enum_same_type udiff F E); assumption.
Qed.
Print Assumptions C12_enum_same_type.

(* the None edge case of _diff after unwrapping, as FIXED in /repo c9e614d (it was finding C12-enum-none-value:
   values_changed None -> None): a None-valued member facing None / a None-valued member of another
   class has equal hashes and nothing is reported - no guard *)
Theorem C12_enum_none_value_agrees :
  forall udiff F, o_enum F = true ->
  forall (H : pystr -> pystr) c n o b p1 p2,
  o_excl F = [] -> o_nan F = false -> other_class c b = true -> is_none (unwrap F b) = true ->
  yh_atom H F (AEnum c n o ENone) = yh_atom H F b /\ leafR udiff F (AEnum c n o ENone) b p1 p2 = Ok [].
Proof. exact y_enum_none_agrees. Qed.
Print Assumptions C12_enum_none_value_agrees.

(* ... so the guard "neither None-valued" of the transfer theorem weakens to "not exactly one of them" *)
Theorem C12_enum_transfer_none_partial :
  forall udiff F, o_enum F = true ->
  forall (H : pystr -> pystr) c n o v b p1 p2,
  o_excl F = [] -> o_nan F = false -> other_class c b = true ->
  is_none (atom_of_e v) = is_none (unwrap F b) ->
  ((yh_atom H F (AEnum c n o v) = yh_atom H F b <-> leafR udiff F (AEnum c n o v) b p1 p2 = Ok []) <->
   (if is_none (atom_of_e v) then True
    else (yh_atom H F (atom_of_e v) = yh_atom H F (unwrap F b) <-> dispatch udiff F false (atom_of_e v) (unwrap F b) p1 p2 = Ok []))).
Proof. exact y_enum_transfer_none. Qed.
Print Assumptions C12_enum_transfer_none_partial.

(* the former witness of that finding, now on the side of the property; a None-valued member facing a
   VALUE is a difference for both engines *)
Theorem C12_enum_none_value_fixed :
  obs Yenum false (va E4_N) (va ANone) = (Some true, YEmpty) /\
  obs Yenum false (d1 ks (va E4_N)) (d1 ks (va ANone)) = (Some true, YEmpty) /\
  obs Yenum false (d1 ks (va ANone)) (d1 ks (va E4_N)) = (Some true, YEmpty) /\
  obs Yenum false (d1 ks (va E4_N)) (d1 ks (va E4_N)) = (Some true, YEmpty) /\
  obs Yenum false (d1 ks (va E4_N)) (d1 ks (va (AStr (s2p "x")))) = (Some false, YNonEmpty).
Proof. exact y_enum_none_value_fixed. Qed.
Print Assumptions C12_enum_none_value_fixed.

(* the ways the guards of the transfer theorem are needed (findings enum-same-class-members,
   enum-unwrap-skips-type-check; the None-valued member facing None was a third one until the /repo
   fix c9e614d) *)
Theorem C12_enum_same_class_refuted :
  obs Yenum_case false (va E_B) (va E_D) = (Some true, YNonEmpty) /\ other_class (s2p "E") E_D = false.
Proof. exact y_enum_same_class_refuted. Qed.
Print Assumptions C12_enum_same_class_refuted.
Theorem C12_enum_unwrap_skips_type_check_refuted :
  obs Yenum false (va E_A) (va (AFloat 1 0)) = (Some false, YEmpty) /\ other_class (s2p "E") (AFloat 1 0) = true.
Proof. exact y_enum_unwrap_skips_type_check_refuted. Qed.
Print Assumptions C12_enum_unwrap_skips_type_check_refuted.
Theorem C12_enum_dict_keys_refuted :
  obs Yenum false (d1 E_A (va (AInt 1))) (d1 (AInt 1) (va (AInt 1))) = (Some true, YNonEmpty).
Proof. exact y_enum_dict_keys_refuted. Qed.
Print Assumptions C12_enum_dict_keys_refuted.

(* datetimes where the two engines do NOT share the normaliser: set members (item hashes are not
   truncated) and dict keys (never normalised by _diff_dict); the same two datetimes as dict VALUES agree *)
Theorem C12_truncate_not_forwarded_refuted :
  obs (Ytrunc UMinute) false (VSet [ADt t_10_20_01 None]) (VSet [ADt t_10_20_02 None]) = (Some true, YNonEmpty) /\
  obs (Ytrunc UMinute) false (d1 ks (va (ADt t_10_20_01 None))) (d1 ks (va (ADt t_10_20_02 None))) = (Some true, YEmpty).
Proof. exact y_truncate_not_forwarded_refuted. Qed.
Print Assumptions C12_truncate_not_forwarded_refuted.
Theorem C12_datetime_dict_keys_refuted :
  obs (Ytz 120) false (d1 (ADt t_10_20_30 None) (va (AInt 1))) (d1 (ADt t_08_20_30 (Some 0)) (va (AInt 1))) = (Some true, YNonEmpty) /\
  obs (Ytz 120) false (d1 ks (va (ADt t_10_20_30 None))) (d1 ks (va (ADt t_08_20_30 (Some 0)))) = (Some true, YEmpty).
Proof. exact y_datetime_dict_keys_refuted. Qed.
Print Assumptions C12_datetime_dict_keys_refuted.

(* numbers: Decimal exponents; the numeric type group containing the datetime types *)
Theorem C12_decimal_exponent_refuted :
  obs Y0 false (va (ADec 10 (-1))) (va (ADec 100 (-2))) = (Some false, YEmpty).
Proof. exact y_decimal_exponent_refuted. Qed.
Print Assumptions C12_decimal_exponent_refuted.
Theorem C12_number_vs_datetime_refuted :
  obs Ynumty false (va (AInt (-2))) (va (ADt t_10_20_30 None)) = (Some false, YRaised EType).
Proof. exact y_number_vs_datetime_refuted. Qed.
Print Assumptions C12_number_vs_datetime_refuted.
Theorem C12_timedelta_hash_refuted :
  obs Ysig0 false (va (ATd 5000000)) (va (ATd 5000000)) = (None, YEmpty).
Proof. exact y_timedelta_hash_refuted. Qed.
Print Assumptions C12_timedelta_hash_refuted.
(* truncate_datetime on date / timedelta values, as FIXED in /repo 1c8f0f8 (it was finding
   C12-truncate-date-timedelta-raises: DeepDiff raised TypeError / AttributeError): the former witness
   on the side of the property *)
Theorem C12_truncate_date_timedelta_fixed :
  obs (Ytrunc UHour) false (d1 ks (va (ADate 2024 1 1))) (d1 ks (va (ADate 2024 1 1))) = (Some true, YEmpty) /\
  obs (Ytrunc UHour) false (d1 ks (va (ATd 5000000))) (d1 ks (va (ATd 5000000))) = (Some true, YEmpty) /\
  obs (Ytrunc UDay) false (d1 ks (va (ADate 2024 1 1))) (d1 ks (va (ADate 2024 1 2))) = (Some false, YNonEmpty) /\
  obs (Ytrunc UMinute) true (d1 ks (va (ATd 5000000))) (d1 ks (va (ATd 6000000))) = (Some false, YNonEmpty) /\
  obs (Ytrunc_numty UMinute) false (va (ATime 37230000000)) (va (AInt 9)) = (Some false, YNonEmpty).
Proof. exact y_truncate_date_timedelta_fixed. Qed.
Print Assumptions C12_truncate_date_timedelta_fixed.
Theorem C12_date_key_cleaning_refuted :
  obs Ycase_sig3 false (d1 (ADate 2024 1 1) (va (AInt 1))) (d1 (ADate 2024 1 1) (va (AInt 1))) = (Some true, YRaised EType).
Proof. exact y_date_key_cleaning_refuted. Qed.
Print Assumptions C12_date_key_cleaning_refuted.

(* the hypotheses are satisfiable and the engines agree there on non-trivial pairs *)
Theorem C12_extended_universe_agree_examples :
  obs (Ytrunc UMinute) false (va (ADt t_10_20_01 None)) (va (ADt t_10_20_02 None)) = (Some true, YEmpty) /\
  obs (Ytz 120) false (va (ADt t_10_20_30 None)) (va (ADt t_08_20_30 (Some 0))) = (Some true, YEmpty) /\
  obs Y0 false (va (ADt t_10_20_30 None)) (va (ADt t_08_20_30 (Some 0))) = (Some false, YNonEmpty) /\
  obs Yenum false (d1 ks (va E_A)) (d1 ks (va (AInt 1))) = (Some true, YEmpty) /\
  obs Yenum_case false (va E_B) (va (AStr (s2p "X"))) = (Some true, YEmpty) /\
  other_class (s2p "E") (AInt 1) = true /\ is_none (atom_of_e (EInt 1)) = false.
Proof. exact y_agree_examples. Qed.
Print Assumptions C12_extended_universe_agree_examples.
(* one level above the leaves: SETS / frozensets of extended atoms (Enum members, Decimals, floats, dates,
   datetimes ...), every combination of the shared options, report_repetition off: equal stand-alone hashes
   <-> _diff_set reports nothing, provided truncate_datetime is off or the sets hold no datetime / time -
   exactly the condition under which the member texts of the two engines coincide (otherwise:
   C12_truncate_not_forwarded_refuted) *)
Theorem C12_set_hash_iff_diff_partial :
  forall (H : pystr -> pystr),
  (forall s, HashProofsC07.sepfree (H s)) -> (forall s t, H s = H t -> s = t) -> (forall s, lower (H s) = H s) ->
  forall F priv, o_excl F = [] ->
  forall xs ys p1 p2, HashDiffYSets.trunc_free F xs = true -> HashDiffYSets.trunc_free F ys = true ->
  (yhash H F priv false (VSet xs) = yhash H F priv false (VSet ys) <-> diff_setF F xs ys p1 p2 = []) /\
  (yhash H F priv false (VFrozen xs) = yhash H F priv false (VFrozen ys) <-> diff_setF F xs ys p1 p2 = []).
Proof. exact HashDiffYSets.y_set_hash_iff_diff. Qed.
Print Assumptions C12_set_hash_iff_diff_partial.

(* ... with report_repetition ON (DeepHash counts the members that share a hash, _diff_set compares the sets of
   member hashes): additionally the member texts of each set pairwise different - otherwise finding
   C12-set-member-collision ([set_rep_guard]: {'a','A'} under ignore_string_case is outside and the engines disagree) *)
Theorem C12_set_hash_iff_diff_rep_partial :
  forall (H : pystr -> pystr),
  (forall s, HashProofsC07.sepfree (H s)) -> (forall s t, H s = H t -> s = t) -> (forall s, lower (H s) = H s) ->
  forall F priv, o_excl F = [] ->
  forall xs ys p1 p2, HashDiffYSets.trunc_free F xs = true -> HashDiffYSets.trunc_free F ys = true ->
  HashDiffYSets.nodup_txt (map (hatomF F) xs) = true -> HashDiffYSets.nodup_txt (map (hatomF F) ys) = true ->
  (yhash H F priv true (VSet xs) = yhash H F priv true (VSet ys) <-> diff_setF F xs ys p1 p2 = []) /\
  (yhash H F priv true (VFrozen xs) = yhash H F priv true (VFrozen ys) <-> diff_setF F xs ys p1 p2 = []).
Proof. exact HashDiffYSets.y_set_hash_iff_diff_rep. Qed.
Print Assumptions C12_set_hash_iff_diff_rep_partial.

Theorem C12_set_rep_guard_examples :
  HashDiffYSets.nodup_txt (map (hatomF Yenum_case) [AStr (s2p "a"); AStr (s2p "A")]) = false /\
  obs Yenum_case true (VSet [AStr (s2p "a"); AStr (s2p "A")]) (VSet [AStr (s2p "a")]) = (Some false, YEmpty) /\
  HashDiffYSets.nodup_txt (map (hatomF Yenum_case) [E_B; AInt 1]) = true /\
  obs Yenum_case true (VSet [E_B; AInt 1]) (VSet [AInt 1; AStr (s2p "X")]) = (Some true, YEmpty).
Proof. exact HashDiffYSets.set_rep_guard. Qed.
Print Assumptions C12_set_rep_guard_examples.

(* the guard is the syntactic condition under which the two engines hand the SAME text to the hasher *)
Theorem C12_member_texts_coincide :
  forall F a, (o_trunc F = None \/ HashDiffYSets.dt_like a = false) -> yh_text F a = hatomF F a.
Proof. exact HashDiffYSets.yh_text_hatomF. Qed.
Print Assumptions C12_member_texts_coincide.

(* ... satisfiable by non-trivial sets (an Enum member and its value under use_enum_value, a datetime without truncation) *)
Theorem C12_set_guard_satisfiable :
  HashDiffYSets.trunc_free Yenum [E_A; ADt t_10_20_30 None] = true /\
  obs Yenum false (VSet [E_A; ADt t_10_20_30 None]) (VSet [ADt t_10_20_30 None; AInt 1]) = (Some true, YEmpty) /\
  HashDiffYSets.trunc_free (Ytrunc UMinute) [ADt t_10_20_01 None] = false.
Proof. exact HashDiffYSets.set_guard_satisfiable. Qed.
Print Assumptions C12_set_guard_satisfiable.
End Y.

(** C19 - deep_distance and the pairing distances lie in [0, 1] / [0, max_].
    Final statements only; proofs in Dist/DistProofs.v, model in Dist/DistModel.v.

    Model A (PrimFloat, bit-exact): numbers_distance = _get_numbers_distance;
    dates / datetimes / timedeltas / times feed it through numeric_types_distance.
    Model B: rough_distance = _get_rough_distance over a delta-view dict;
    dv_of_sdelta t1 t2 sd is a delta whose values sit at positions of t1 / t2. *)
From Coq Require Import List ZArith Bool.
From Coq Require Import PrimFloat.
Import ListNotations.
From DD Require Import Hash.HashModel DiffIO.DiffIOModel.
From DD Require Import Base.Value Diff.Tree Diff.DiffModel Dist.DistModel Dist.DistProofs Dist.DistDiffModel Dist.DistDiffProofs.
From DD Require Import Dist.DistIOModel Dist.DistIOLength Dist.DistIOProofs Dist.DistIOMutual Dist.DistFracFloat.
From DD Require Import Dist.DistSubProofs Dist.DistScalarProofs Dist.DistIOShape.

(** ** number / date / time distance: range *)

(* whenever the function returns (int 0 or a float), for ALL inputs incl. nan,
   inf, overflowing sums, and every max_ >= 0: 0 <= result <= max_ *)
Theorem C19_numbers_range : forall a b mx v,
  (0 <=? mx)%float = true ->
  dres_value (numbers_distance a b mx) = Some v ->
  (0 <=? v)%float = true /\ (v <=? mx)%float = true.
Proof. exact numbers_range. Qed.
Print Assumptions C19_numbers_range.

(* "always returns a number in range" is false: OverflowError (K15), ZeroDivisionError (K17) *)
Theorem C19_numbers_total_refuted : ~ numbers_total_statement.
Proof. exact numbers_total_refuted. Qed.
Print Assumptions C19_numbers_total_refuted.

Theorem C19_numbers_total_refuted_overflow :
  exists a b mx, (0 <=? mx)%float = true /\ numbers_distance a b mx = DErr EOverflow.
Proof. exact numbers_total_refuted_overflow. Qed.
Print Assumptions C19_numbers_total_refuted_overflow.

Theorem C19_numbers_total_partial : forall a b mx,
  (0 <=? mx)%float = true ->
  (conv_ok a && conv_ok b && negb (mx =? 0)%float)%bool = true ->
  exists v, dres_value (numbers_distance a b mx) = Some v /\ in_range mx v.
Proof. exact numbers_total_partial. Qed.
Print Assumptions C19_numbers_total_partial.

(* the exceptions, exactly *)
Theorem C19_numbers_error_iff : forall a b mx e,
  numbers_distance a b mx = DErr e <->
  pynum_eq a b = false /\
  ((e = EOverflow /\ (conv_ok a && conv_ok b = false)%bool) \/
   (e = EZeroDiv /\ (conv_ok a && conv_ok b = true)%bool /\ (mx =? 0)%float = true)).
Proof. exact numbers_error_iff. Qed.
Print Assumptions C19_numbers_error_iff.

(** ** number distance: 0 only for equal values *)

Theorem C19_numbers_zero_of_equal : forall a b mx,
  pynum_eq a b = true -> numbers_distance a b mx = DInt0.
Proof. exact numbers_zero_of_equal. Qed.
Print Assumptions C19_numbers_zero_of_equal.

(* d = 0 <-> a = b is false (K14 overflow, K14b float collapse, K14c underflow) *)
Theorem C19_numbers_zero_iff_refuted : ~ numbers_zero_iff_statement.
Proof. exact numbers_zero_iff_refuted. Qed.
Print Assumptions C19_numbers_zero_iff_refuted.

(* every zero distance between different numbers is one of three float events *)
Theorem C19_numbers_zero_causes : forall a b mx x y v,
  pynum_eq a b = false ->
  to_float a = Some x -> to_float b = Some y ->
  numbers_distance a b mx = DVal v -> (v =? 0)%float = true ->
  let d := ((x + y) / mx)%float in
  sf_is_zero (FloatOps.Prim2SF ((x - y) / d)%float) = true /\
  (sf_is_zero (FloatOps.Prim2SF (x - y)%float) = true \/
   is_inf_sf (FloatOps.Prim2SF d) = true \/
   (sf_is_finite (FloatOps.Prim2SF (x - y)%float) && sf_is_finite (FloatOps.Prim2SF d))%bool = true).
Proof. exact numbers_zero_causes. Qed.
Print Assumptions C19_numbers_zero_causes.

(* different numbers have a non-zero distance when the difference is a finite non-zero
   float, the divisor (num1 + num2) / max_ is finite (no overflow) and the quotient's
   magnitude is at least 2^(emin+1) (no underflow): zero_guard is computable from the inputs *)
Theorem C19_numbers_zero_partial : forall a b mx x y v,
  pynum_eq a b = false ->
  to_float a = Some x -> to_float b = Some y ->
  zero_guard x y mx = true ->
  numbers_distance a b mx = DVal v -> (v =? 0)%float = false.
Proof. exact numbers_zero_guarded. Qed.
Print Assumptions C19_numbers_zero_partial.

(** ** rough distance (deep_distance) *)

(* the numeric short cut at the root *)
Theorem C19_rough_numeric_range : forall r1 r2 cutoff d v,
  (0 <=? cutoff)%float = true ->
  root_numeric r1 r2 cutoff = Some d -> dres_value d = Some v -> in_range cutoff v.
Proof. exact rough_numeric_range. Qed.
Print Assumptions C19_rough_numeric_range.

(* ... and in [0, 1] for the cutoffs the constructor accepts *)
Theorem C19_rough_numeric_unit : forall r1 r2 cutoff d v,
  (0 <=? cutoff)%float = true -> (cutoff <=? 1)%float = true ->
  root_numeric r1 r2 cutoff = Some d -> dres_value d = Some v -> in_range 1 v.
Proof. exact rough_numeric_unit. Qed.
Print Assumptions C19_rough_numeric_unit.

(* operations / (len1 + len2) <= 1 is false for valid deltas (K13) *)
Theorem C19_rough_range_refuted : ~ rough_range_statement.
Proof. exact rough_range_refuted. Qed.
Print Assumptions C19_rough_range_refuted.

Theorem C19_rough_range_partial : forall t1 t2 sd cutoff n m,
  sd_valid sd = true -> tc_guard t1 t2 sd = true ->
  rough_distance (RVal t1) (RVal t2) cutoff (dv_of_sdelta t1 t2 sd) = RFrac n m ->
  0 < n /\ n <= m.
Proof. exact rough_range_partial. Qed.
Print Assumptions C19_rough_range_partial.

(* any fraction produced is positive: numerator > 0, divisor >= 2 *)
Theorem C19_rough_positive : forall r1 r2 cutoff delta n m,
  rough_distance r1 r2 cutoff delta = RFrac n m -> 0 < n /\ 2 <= m.
Proof. exact rough_frac_positive. Qed.
Print Assumptions C19_rough_positive.

Theorem C19_rough_zero_iff_no_ops : forall r1 r2 cutoff delta,
  root_numeric r1 r2 cutoff = None ->
  (rough_distance r1 r2 cutoff delta = RInt0 <-> item_length delta = LOk 0).
Proof. exact rough_zero_iff_no_ops. Qed.
Print Assumptions C19_rough_zero_iff_no_ops.

(* "positive when the diff is non-empty" is false: a valid non-empty delta with 0 operations (K18) *)
Theorem C19_rough_positive_if_nonempty_refuted :
  sd_valid k18_sd = true /\ k18_sd <> [] /\
  rough_distance (RVal k18_t1) (RVal k18_t2) (0x1.3333333333333p-2)%float (dv_of_sdelta k18_t1 k18_t2 k18_sd) = RInt0.
Proof. exact rough_positive_refuted. Qed.
Print Assumptions C19_rough_positive_if_nonempty_refuted.

(* ... and true when some entry is a type change or carries a value containing a number or a string *)
Theorem C19_rough_positive_if_nonempty_partial : forall t1 t2 sd cutoff,
  forallb block_keys_ok sd = true ->
  has_counted_entry t1 t2 sd = true ->
  rough_distance (RVal t1) (RVal t2) cutoff (dv_of_sdelta t1 t2 sd) <> RInt0.
Proof. exact rough_positive_partial. Qed.
Print Assumptions C19_rough_positive_if_nonempty_partial.

(* the two facts the bound rests on *)
Theorem C19_item_length_le_count : forall v n,
  item_length (dv_of_value v) = LOk n -> n <= count v.
Proof. exact item_length_le_count. Qed.
Print Assumptions C19_item_length_le_count.

Theorem C19_disjoint_positions_carve : forall t P,
  pairwise_incomparable P = true -> sumcnt t P <= count t.
Proof. exact carve_all. Qed.
Print Assumptions C19_disjoint_positions_carve.

(** ** the range theorem about the diff itself (ordered mode, both alignments)

    [diff] is the model of DeepDiff's ordered comparison (Diff/DiffModel.v, tied to
    the code by C03/C04's correspondence and by C19's own on the distance);
    [deep_distance_of_diff] feeds the delta view of its levels to rough_distance.
    No validity hypothesis on the delta is left: only the type-change guard, plus,
    in default alignment, that the difflib opcodes tile both lists in ascending order. *)

(* the values reported by the diff are disjoint parts of the inputs *)
Theorem C19_diff_reports_disjoint_parts :
  forall hatom udiff ops skip excl c,
    zip c = true \/ ops_tiling ops -> ignore_private c = true ->
    forall t1 t2 p1 p2, wf t1 = true -> wf t2 = true ->
      w1 (fst (diff hatom udiff ops skip excl c t1 t2 p1 p2)) <= count t1 /\
      w2 (fst (diff hatom udiff ops skip excl c t1 t2 p1 p2)) <= count t2.
Proof. exact diff_weights. Qed.
Print Assumptions C19_diff_reports_disjoint_parts.

Theorem C19_deep_distance_range_ordered :
  forall hatom udiff ops skip excl c incl cutoff t1 t2 n m,
    zip c = true \/ ops_tiling ops ->
    ignore_private c = true -> wf t1 = true -> wf t2 = true ->
    tcs_ok incl (fst (diff hatom udiff ops skip excl c t1 t2 [] [])) = true ->
    deep_distance_of_diff hatom udiff ops skip excl c incl cutoff t1 t2 = RFrac n m ->
    0 < n /\ n <= m.
Proof. exact deep_distance_ordered_range. Qed.
Print Assumptions C19_deep_distance_range_ordered.

Theorem C19_deep_distance_range_positional :
  forall hatom udiff ops skip excl c incl cutoff t1 t2 n m,
    zip c = true -> ignore_private c = true -> wf t1 = true -> wf t2 = true ->
    tcs_ok incl (fst (diff hatom udiff ops skip excl c t1 t2 [] [])) = true ->
    deep_distance_of_diff hatom udiff ops skip excl c incl cutoff t1 t2 = RFrac n m ->
    0 < n /\ n <= m.
Proof. exact deep_distance_positional_range. Qed.
Print Assumptions C19_deep_distance_range_positional.

(** ** the range theorem about the diff itself, ignore_order=True

    [diff_io] is the model of DeepDiff's ignore-order comparison (DiffIO/DiffIOModel.v, tied to the
    code by C05's full-result correspondence and by C19's own on the distance); the PAIRING of every
    level is an arbitrary oracle [pairs] (whatever _get_most_in_common_pairs_in_iterables returned,
    under any cutoff / cache / pass budget), the hasher [H] is arbitrary.
    [dv_of_entries_io] (Dist/DistIOModel.v) is DeltaResult(ignore_order=True): added / removed items as
    {path: {index: item}} dicts, new indexes of a repetition_change as added items, deduped by identity
    in _get_item_length.  [io_guard]: report_repetition=False, or nothing is paired, or no list of
    t1 holds two items with the same hash. *)

(* for every pairing, what the levels report are disjoint parts of the inputs
   (W1 / W2: plain levels by their values, added / removed / repeated items once per parent and value) *)
Theorem C19_io_reports_disjoint_parts :
  forall H udiff skip excl c rep pairs,
    ignore_private c = true ->
    forall t1 t2 p1 p2, wf t1 = true -> wf t2 = true -> io_guard H c rep pairs t1 ->
      W1 (fst (diff_io H udiff skip excl c rep pairs t1 t2 p1 p2)) <= count t1 /\
      W2 (fst (diff_io H udiff skip excl c rep pairs t1 t2 p1 p2)) <= count t2.
Proof. exact io_weights. Qed.
Print Assumptions C19_io_reports_disjoint_parts.

(* the operations _get_item_length counts in the delta view of ANY list of levels are paid by those weights *)
Theorem C19_io_operations_le_weights :
  forall incl es rs n, tcs_ok incl es = true ->
    item_length (dv_of_entries_io incl es rs) = LOk n -> n <= W1 es + W2 es.
Proof. intros incl es rs n G E. exact (io_ops_bound incl es rs G n E). Qed.
Print Assumptions C19_io_operations_le_weights.

Theorem C19_deep_distance_range_ignore_order :
  forall H udiff skip excl c rep pairs incl cutoff t1 t2 n m,
    ignore_private c = true -> wf t1 = true -> wf t2 = true ->
    io_guard H c rep pairs t1 ->
    tcs_ok incl (fst (diff_io H udiff skip excl c rep pairs t1 t2 [] [])) = true ->
    deep_distance_of_diff_io H udiff skip excl c rep pairs incl cutoff t1 t2 = RFrac n m ->
    0 < n /\ n <= m.
Proof. exact deep_distance_io_range. Qed.
Print Assumptions C19_deep_distance_range_ignore_order.

(* report_repetition=False (the default): every pairing, no guard on the inputs *)
Theorem C19_deep_distance_range_ignore_order_default :
  forall H udiff skip excl c pairs incl cutoff t1 t2 n m,
    ignore_private c = true -> wf t1 = true -> wf t2 = true ->
    tcs_ok incl (fst (diff_io H udiff skip excl c false pairs t1 t2 [] [])) = true ->
    deep_distance_of_diff_io H udiff skip excl c false pairs incl cutoff t1 t2 = RFrac n m ->
    0 < n /\ n <= m.
Proof. exact deep_distance_io_range_norep. Qed.
Print Assumptions C19_deep_distance_range_ignore_order_default.

(* pairing switched off (max_passes=0, cutoff_intersection_for_pairs=0 ...), repetitions reported or not *)
Theorem C19_deep_distance_range_ignore_order_unpaired :
  forall H udiff skip excl c rep incl cutoff t1 t2 n m,
    ignore_private c = true -> wf t1 = true -> wf t2 = true ->
    tcs_ok incl (fst (diff_io H udiff skip excl c rep (fun _ => []) t1 t2 [] [])) = true ->
    deep_distance_of_diff_io H udiff skip excl c rep (fun _ => []) incl cutoff t1 t2 = RFrac n m ->
    0 < n /\ n <= m.
Proof. exact deep_distance_io_range_unpaired. Qed.
Print Assumptions C19_deep_distance_range_ignore_order_unpaired.

(* the guard cannot be dropped: report_repetition with a paired item that is repeated in t1 -
   [[1]]*8 vs [[1,2,3,4]], items 0 paired: 24/23 (K28; replayed on the implementation at every run) *)
Theorem C19_deep_distance_ignore_order_rep_refuted :
  exists H udiff skip excl c pairs incl cutoff t1 t2 n m,
    ignore_private c = true /\ wf t1 = true /\ wf t2 = true /\
    (forall xs ys, t1 = VList xs -> t2 = VList ys -> valid_pairs_at H c true xs ys (pairs []) = true) /\
    tcs_ok incl (fst (diff_io H udiff skip excl c true pairs t1 t2 [] [])) = true /\
    deep_distance_of_diff_io H udiff skip excl c true pairs incl cutoff t1 t2 = RFrac n m /\ m < n.
Proof. exact deep_distance_io_unguarded_refuted. Qed.
Print Assumptions C19_deep_distance_ignore_order_rep_refuted.

(* the distance computed for a pairing decision when repetitions are reported (the nested run is then not
   rewritten by mutual_add_removes_to_become_value_changes): same range *)
Theorem C19_pair_distance_range_rep :
  forall H udiff skip excl c pairs incl cutoff x y n m,
    ignore_private c = true -> wf x = true -> wf y = true ->
    io_guard H c true pairs x ->
    tcs_ok incl (fst (diff_io H udiff skip excl c true pairs x y [] [])) = true ->
    pair_distance H udiff skip excl c true pairs incl cutoff x y = RFrac n m ->
    0 < n /\ n <= m.
Proof. exact pair_distance_rep_range. Qed.
Print Assumptions C19_pair_distance_range_rep.

(* ... and when they are not (the default): the nested run IS rewritten (an item removed and an item added at one
   path become a value change).  [mutual_ok] - removed levels at pairwise different paths, no two removed / added
   levels with one value under one parent, removed levels without t2, added levels without t1 - is evaluated on
   the levels of every recorded nested run (0 failures); under it the rewrite does not increase the weights *)
Theorem C19_rewrite_does_not_increase_weights :
  forall es, mutual_ok es = true -> W1 (mutual es) <= W1 es /\ W2 (mutual es) <= W2 es.
Proof. exact mutual_weights. Qed.
Print Assumptions C19_rewrite_does_not_increase_weights.

Theorem C19_pair_distance_range_default :
  forall H udiff skip excl c pairs incl cutoff x y n m,
    ignore_private c = true -> wf x = true -> wf y = true ->
    mutual_ok (fst (diff_io H udiff skip excl c false pairs x y [] [])) = true ->
    tcs_ok incl (fst (diff_io H udiff skip excl c false pairs x y [] [])) = true ->
    pair_distance H udiff skip excl c false pairs incl cutoff x y = RFrac n m ->
    0 < n /\ n <= m.
Proof. exact pair_distance_norep_range. Qed.
Print Assumptions C19_pair_distance_range_default.

(** ** the float a fraction denotes

    [RFrac n m] stands for Python's n / m (int / int, correctly rounded: [sf_div_Z], which is how the
    correspondence renders it).  For 0 < n <= m - the conclusion of every range theorem above - the ROUNDED
    quotient is +0 or a positive finite float mm * 2^e with e <= 0 and mm <= 2^(-e): its value is at most 1.0
    (1.0 is representable, so round-to-nearest-even cannot cross it), and it is not 0 unless the divisor has
    more than 1000 binary digits (underflow). *)
Theorem C19_fraction_float_at_most_one : forall n m : nat, 0 < n -> n <= m ->
  match frac_float n m with
  | SpecFloat.S754_zero false => True
  | SpecFloat.S754_finite false mm e => (e <= 0)%Z /\ (Zpos mm <= 2 ^ (- e))%Z
  | _ => False
  end.
Proof. exact frac_float_unit. Qed.
Print Assumptions C19_fraction_float_at_most_one.

Theorem C19_fraction_float_positive : forall n m : nat, 0 < n ->
  (Zpos (SpecFloat.digits2_pos (Pos.of_nat m)) <= 1000)%Z ->
  sf_is_zero (frac_float n m) = false.
Proof. exact frac_float_positive. Qed.
Print Assumptions C19_fraction_float_positive.

(** ** second wave: the guard on the pairing itself, the input-level zero guard, numpy variant, more witnesses *)

(* [pairs_unrep]: at every list / tuple reachable in t1 every pair the oracle lists points at a removed item whose
   hash occurs once there - what the replicated diff of K28 violates, and nothing more: repeated items that are
   reported as removed or as repetition changes are allowed ([uniq_items] is not needed); evaluated on the recorded
   pairings of every run ([pairs_unrep_obs]) *)
Theorem C19_io_reports_disjoint_parts_pairs :
  forall H udiff skip excl c rep pairs,
    ignore_private c = true ->
    forall t1 t2 p1 p2, wf t1 = true -> wf t2 = true -> pairs_unrep H c rep pairs t1 p1 ->
      W1 (fst (diff_io H udiff skip excl c rep pairs t1 t2 p1 p2)) <= count t1 /\
      W2 (fst (diff_io H udiff skip excl c rep pairs t1 t2 p1 p2)) <= count t2.
Proof. exact io_weights_pairs. Qed.
Print Assumptions C19_io_reports_disjoint_parts_pairs.

Theorem C19_deep_distance_range_ignore_order_pairs :
  forall H udiff skip excl c rep pairs incl cutoff t1 t2 n m,
    ignore_private c = true -> wf t1 = true -> wf t2 = true ->
    pairs_unrep H c rep pairs t1 [] ->
    tcs_ok incl (fst (diff_io H udiff skip excl c rep pairs t1 t2 [] [])) = true ->
    deep_distance_of_diff_io H udiff skip excl c rep pairs incl cutoff t1 t2 = RFrac n m ->
    0 < n /\ n <= m.
Proof. exact deep_distance_io_range_pairs. Qed.
Print Assumptions C19_deep_distance_range_ignore_order_pairs.

(* the difference of two different finite floats is a non-zero number (finite or an overflow): gradual underflow,
   from the definitions of SFsub / binary_normalize / binary_round and the uniqueness of canonical representations *)
Theorem C19_float_difference_nonzero : forall x y : float,
  sf_fin0 (FloatOps.Prim2SF x) = true -> sf_fin0 (FloatOps.Prim2SF y) = true -> (x =? y)%float = false ->
  fin_or_inf (FloatOps.Prim2SF (x - y)%float).
Proof. exact float_sub_nonzero. Qed.
Print Assumptions C19_float_difference_nonzero.

(* 0 only for equal numbers, first clause of the guard on the INPUTS: two different finite floats (K14b is exactly
   x =? y); what stays on computed values: no overflow of the difference / divisor, no underflow of the quotient *)
Theorem C19_numbers_zero_partial_inputs : forall a b mx x y v,
  pynum_eq a b = false ->
  to_float a = Some x -> to_float b = Some y ->
  zero_guard_in x y mx = true ->
  numbers_distance a b mx = DVal v -> (v =? 0)%float = false.
Proof. exact numbers_zero_guarded_inputs. Qed.
Print Assumptions C19_numbers_zero_partial_inputs.

(* the numpy variant used when pairing homogeneous number sequences: nan or in [0, max_] *)
Theorem C19_numbers_np_range : forall x y mx, (0 <=? mx)%float = true ->
  is_nan (numbers_distance_np x y mx) = true \/
  ((0 <=? numbers_distance_np x y mx)%float = true /\ (numbers_distance_np x y mx <=? mx)%float = true).
Proof. exact numbers_np_range. Qed.
Print Assumptions C19_numbers_np_range.

(* K22: 0 for different numbers (5 vs 0, max_ = 1: the scalar function returns max_), and nan is really produced *)
Theorem C19_numbers_np_zero_refuted :
  exists x y mx, (x =? y)%float = false /\ (0 <? mx)%float = true /\ numbers_distance_np x y mx = 0%float /\
                 numbers_distance (PFloat x) (PFloat y) mx = DVal mx.
Proof. exact numbers_np_zero_refuted. Qed.
Print Assumptions C19_numbers_np_zero_refuted.

Theorem C19_numbers_np_nan_refuted :
  exists x y mx, (0 <? mx)%float = true /\ is_nan x = false /\ is_nan y = false /\ is_nan (numbers_distance_np x y mx) = true.
Proof. exact numbers_np_nan_refuted. Qed.
Print Assumptions C19_numbers_np_nan_refuted.

(* K20 / K14b in the date-time dispatch *)
Theorem C19_scalars_zero_refuted_date_vs_datetime :
  exists s1 s2 mx, (0 <? mx)%float = true /\
    (match s1, s2 with SDateTime _ _, SDate _ => True | _, _ => False end) /\
    numeric_types_distance s1 s2 mx = Some DInt0.
Proof. exact scalars_zero_refuted_date_vs_datetime. Qed.
Print Assumptions C19_scalars_zero_refuted_date_vs_datetime.

Theorem C19_scalars_zero_refuted_datetime_collapse :
  exists o us1 us2 mx, us1 <> us2 /\ (0 <? mx)%float = true /\
    numeric_types_distance (SDateTime o (TsAware us1)) (SDateTime o (TsAware us2)) mx = Some DInt0.
Proof. exact scalars_zero_refuted_datetime_collapse. Qed.
Print Assumptions C19_scalars_zero_refuted_datetime_collapse.

(* K23 / K24 in the composed ordered model: non-empty diff, distance 0 *)
Theorem C19_deep_distance_positive_refuted_root_numbers :
  fst (diff no_hash no_udiff (fun _ _ _ => []) nf nf ex_cfg (Iz 1) (VAtom (AHalf 2)) [] []) <> [] /\
  deep_distance_of_diff no_hash no_udiff (fun _ _ _ => []) nf nf ex_cfg all_incl 0x1.3333333333333p-2%float (Iz 1) (VAtom (AHalf 2)) = RDist DInt0.
Proof. exact deep_distance_positive_refuted_root_numbers. Qed.
Print Assumptions C19_deep_distance_positive_refuted_root_numbers.

Theorem C19_deep_distance_positive_refuted_opcodes :
  ops_tiling k24_ops /\
  List.length (fst (diff no_hash no_udiff k24_ops nf nf ex_cfg k24_t1 k24_t2 [] [])) = 2 /\
  deep_distance_of_diff no_hash no_udiff k24_ops nf nf ex_cfg all_incl 0x1.3333333333333p-2%float k24_t1 k24_t2 = RInt0.
Proof. exact deep_distance_positive_refuted_opcodes. Qed.
Print Assumptions C19_deep_distance_positive_refuted_opcodes.

Theorem C19_pair_distance_range_rep_pairs :
  forall H udiff skip excl c pairs incl cutoff x y n m,
    ignore_private c = true -> wf x = true -> wf y = true ->
    pairs_unrep H c true pairs x [] ->
    tcs_ok incl (fst (diff_io H udiff skip excl c true pairs x y [] [])) = true ->
    pair_distance H udiff skip excl c true pairs incl cutoff x y = RFrac n m ->
    0 < n /\ n <= m.
Proof. exact pair_distance_rep_range_pairs. Qed.
Print Assumptions C19_pair_distance_range_rep_pairs.

(* it is implied by the two report_repetition disjuncts of io_guard *)
Theorem C19_io_guard_implies_pairs_unrep : forall H c rep pairs t1,
  ((forall p, pairs p = []) \/ uniq_items H c rep t1 = true) -> pairs_unrep H c rep pairs t1 [].
Proof. exact io_guard_pairs_unrep. Qed.
Print Assumptions C19_io_guard_implies_pairs_unrep.

(* one conjunct of mutual_ok is proved of diff_io itself, for every oracle: removed levels have no t2, added
   levels have no t1 and a t2 - what is left to observe are the three distinctness conditions *)
Theorem C19_diff_io_levels_shape_ok : forall H udiff skip excl c rep pairs x y p1 p2,
  forallb shape_ok (fst (diff_io H udiff skip excl c rep pairs x y p1 p2)) = true.
Proof. exact diff_io_levels_shape_ok. Qed.
Print Assumptions C19_diff_io_levels_shape_ok.

Theorem C19_mutual_ok_reduces : forall H udiff skip excl c rep pairs x y p1 p2,
  mutual_ok (fst (diff_io H udiff skip excl c rep pairs x y p1 p2)) =
  mutual_paths_ok (fst (diff_io H udiff skip excl c rep pairs x y p1 p2)).
Proof. exact diff_io_mutual_ok. Qed.
Print Assumptions C19_mutual_ok_reduces.

(** C09 - path strings round-trip: report -> extract / parse_path -> same location.
    Final statements only (proofs in Path/PathProofs.v, Path/PathLex.v).

    render   = the path string DeepDiff reports (DiffLevel.path / get_param_repr / stringify_element)
    parse    = deepdiff.parse_path           elements = _path_to_elements(p, root_element=None)
    extract  = deepdiff.extract              resolve  = following the keys in the object
    norm ks  = ks with a sequence index i read as the int key i (Python prints both as root[i]) *)
From Coq Require Import List ZArith NArith Bool.
Import ListNotations.
From DD Require Import Base.PyStr Base.Value Path.PathModel Path.PathLex Path.PathProofs Path.PathTight
  Path.PathCacheModel Path.PathCacheProofs Path.PathActsModel Path.PathActsProofs
  Path.PathLit Path.PathXModel Path.PathXProofs.

(* --- parse_path returns exactly the key sequence with the original key types ---------- *)
(* full strength (every key sequence) is false of the faithful model: *)
Theorem C09_parse_render_refuted_both_quotes :
  exists ks, parse (render ks) <> Some (norm ks).
Proof. exists k5_key. exact both_quotes_refuted. Qed.
Theorem C09_parse_render_refuted_escape_char :
  exists ks, parse (render ks) <> Some (norm ks).
Proof. exists k6_key. exact escape_char_refuted. Qed.

(* guard: no str key with both quote characters, no str key ending in U+1D1C0,
   floats are exact doubles below 2^52, bytes keys only when their repr needs no escape *)
Theorem C09_parse_render_partial :
  forall ks : path, path_ok ks = true -> parse (render ks) = Some (norm ks).
Proof. exact parse_render. Qed.

Theorem C09_parse_render_keys_partial :
  forall ks : path, path_ok ks = true ->
    forallb (fun k => match k with PKey _ => true | PIdx _ => false end) ks = true ->
    parse (render ks) = Some ks.
Proof. intros ks H1 H2. rewrite (parse_render ks H1). f_equal. now apply norm_keys_only. Qed.

Theorem C09_elements_partial :
  forall ks : path, path_ok ks = true ->
    elements (render ks) = Some (map (fun k => (key_atom k, GET)) ks).
Proof. exact elements_render. Qed.

(* --- the reported path extracts exactly that location's object ------------------------ *)
Theorem C09_extract_refuted_both_quotes :
  exists ks v, extract (nest ks v) (render ks) <> Some v.
Proof. exists k5_key, (VAtom (AInt 1)). rewrite both_quotes_extract_refuted. discriminate. Qed.
Theorem C09_extract_refuted_escape_char :
  exists ks v, extract (nest ks v) (render ks) <> Some v.
Proof. exists k6_key, (VAtom (AInt 1)). rewrite escape_char_extract_refuted. discriminate. Qed.

(* in ANY object: extracting by the reported string = following the keys *)
Theorem C09_extract_partial :
  forall (root : value) (ks : path), path_ok ks = true -> extract root (render ks) = resolve root ks.
Proof. exact extract_render. Qed.

Theorem C09_extract_nest_partial :
  forall (ks : path) (v : value), path_ok ks = true -> extract (nest ks v) (render ks) = Some v.
Proof. exact extract_nest. Qed.

(* --- stringify_path inverts parse_path (on reported paths, both readings) -------------- *)
(* not an inverse on arbitrary strings (root[ 1] -> root[1]): only reported paths are claimed *)
Theorem C09_stringify_inverts_refuted_arbitrary_string :
  exists p, option_map stringify_els (elements p) <> Some p /\ elements p <> None.
Proof. exact stringify_not_inverse_everywhere. Qed.

Theorem C09_stringify_inverts_elements_partial :
  forall ks : path, path_ok ks = true ->
    option_map stringify_els (elements (render ks)) = Some (render ks).
Proof. exact stringify_inverts_elements. Qed.

Theorem C09_stringify_inverts_parse_partial :
  forall ks : path, path_ok ks = true ->
    option_map (stringify_keys GET) (parse (render ks)) = Some (render ks).
Proof. exact stringify_inverts_parse. Qed.

Theorem C09_parse_stringify_partial :
  forall ks : path, path_ok ks = true -> parse (stringify_keys GET ks) = Some (norm ks).
Proof. exact parse_stringify. Qed.

(* stringify_path(keys) prints exactly what DeepDiff reports, for every key sequence *)
Theorem C09_stringify_is_render :
  forall ks : path, stringify_keys GET ks = render ks.
Proof. exact stringify_keys_GET. Qed.

(* --- distinct locations get distinct path strings -------------------------------------- *)
Theorem C09_render_inj_partial :
  forall ks1 ks2 : path, path_ok ks1 = true -> path_ok ks2 = true ->
    render ks1 = render ks2 -> norm ks1 = norm ks2.
Proof. exact render_inj. Qed.

(* --- the guard on str keys is necessary, and exact outside the overlap of the two defects -- *)
(* K6 for every such key: the parser returns the bracket text with its quotes and "]" *)
Theorem C09_guard_necessary_escape_char :
  forall s' : pystr, let s := s' ++ [cESC] in
    has_char cSQ s && has_char cDQ s = false ->
    parse (render [PKey (AStr s)]) <> Some [PKey (AStr s)].
Proof. exact escape_last_fails. Qed.

(* K5 for every such key *)
Theorem C09_guard_necessary_both_quotes :
  forall s : pystr, has_char cSQ s = true -> has_char cDQ s = true -> has_char cESC s = false ->
    parse (render [PKey (AStr s)]) <> Some [PKey (AStr s)].
Proof. exact both_quotes_fails. Qed.

Theorem C09_guard_exact_no_escape_char :
  forall s : pystr, has_char cESC s = false ->
    (parse (render [PKey (AStr s)]) = Some [PKey (AStr s)] <-> str_ok s = true).
Proof. exact guard_exact_no_esc. Qed.

Theorem C09_guard_exact_one_quote_kind :
  forall s : pystr, has_char cSQ s && has_char cDQ s = false ->
    (parse (render [PKey (AStr s)]) = Some [PKey (AStr s)] <-> str_ok s = true).
Proof. exact guard_exact_one_quote_kind. Qed.

(* --- the guard is satisfiable by hostile keys ------------------------------------------ *)
Example C09_guard_satisfiable : path_ok hostile_path = true /\ List.length hostile_path = 10%nat.
Proof. split; reflexivity. Qed.

Print Assumptions C09_parse_render_refuted_both_quotes.
Print Assumptions C09_parse_render_refuted_escape_char.
Print Assumptions C09_parse_render_partial.
Print Assumptions C09_parse_render_keys_partial.
Print Assumptions C09_elements_partial.
Print Assumptions C09_extract_refuted_both_quotes.
Print Assumptions C09_extract_refuted_escape_char.
Print Assumptions C09_extract_partial.
Print Assumptions C09_extract_nest_partial.
Print Assumptions C09_stringify_inverts_refuted_arbitrary_string.
Print Assumptions C09_stringify_inverts_elements_partial.
Print Assumptions C09_stringify_inverts_parse_partial.
Print Assumptions C09_parse_stringify_partial.
Print Assumptions C09_stringify_is_render.
Print Assumptions C09_render_inj_partial.
Print Assumptions C09_guard_necessary_escape_char.
Print Assumptions C09_guard_necessary_both_quotes.
Print Assumptions C09_guard_exact_no_escape_char.
Print Assumptions C09_guard_exact_one_quote_kind.

(* ------------------------------------------------------------------ *)
(** The tree view's list-form path, and the cache of DiffLevel.path (Path/PathCacheModel.v).
    A level is given by the relationships above it: [link] = the params of t1_child_rel / t2_child_rel
    (either may be missing); [path_call] is one call of level.path(root, force, get_parent_too, use_t2,
    output_format) threading self._path; [prun] runs a trace of calls interleaved with the caller
    rewriting list objects it was given; [pspec] is the same trace on levels that have no cache. *)

(* the format string "{}{}{}{}" separates all 24 argument combinations *)
Theorem C09_path_cache_key_injective :
  forall a b : pargs, cache_key a = cache_key b ->
    a_force a = a_force b /\ a_parent a = a_parent b /\ a_t2 a = a_t2 b /\ a_fmt a = a_fmt b.
Proof. exact cache_key_inj. Qed.

(* history independence, for every kind of relationship param and every printer of params: in every trace
   from a new level each call returns what the uncached computation returns for ITS arguments, and a
   list-form result is a new object (numbered by the lists returned before it) *)
Theorem C09_path_cache_transparent :
  forall (K : Type) (krepr : K -> option pystr) (ls : list (link K)) (ops : list (pop K)),
    fst (prun K krepr ls (mk_pworld [] []) ops) = pspec K krepr ls 0 ops.
Proof. intros K krepr ls ops. apply (prun_pure K krepr ls ops (mk_pworld [] [])). apply pc_inv_nil. Qed.

Theorem C09_path_lists_are_new_objects :
  forall (K : Type) (krepr : K -> option pystr) (ls : list (link K)) (ops : list (pop K)),
    fresh_lists K 0 (fst (prun K krepr ls (mk_pworld [] []) ops)).
Proof. intros K krepr ls ops. rewrite C09_path_cache_transparent. apply pspec_fresh. Qed.

(* a cached entry is never unpacked with the wrong shape *)
Theorem C09_path_cache_never_confused :
  forall (K : Type) (krepr : K -> option pystr) (ls : list (link K)) (ops : list (pop K)) (a : pargs),
    fst (path_call K krepr ls (pw_cache K (snd (prun K krepr ls (mk_pworld [] []) ops))) a) <> PConfused.
Proof. intros K krepr ls ops a. apply path_call_never_confused. apply prun_inv. apply pc_inv_nil. Qed.

(* for ANY chain of levels (sides naming different params, a side missing): the string form is the
   rendering of the list form *)
Theorem C09_path_string_form_is_render_of_list_form :
  forall (ls : list (link pkey)) (f : force_t) (t2 : bool),
    path_pure pkey krepr_pkey ls (str_args f t2) = PStr (Some (render (walk_list pkey ls t2))).
Proof. exact path_str_is_render_of_list. Qed.

(* after ANY history of calls on the level, with any force / get_parent_too arguments: the list form is
   what parse_path makes of the string form (guard on the keys of the list form) *)
Theorem C09_list_form_is_parse_of_string_form_partial :
  forall (ls : list (link pkey)) (ops : list (pop pkey)) (f1 f2 : force_t) (p2 t2 : bool),
    path_ok (walk_list pkey ls t2) = true ->
    let w := snd (prun pkey krepr_pkey ls (mk_pworld [] []) ops) in
    exists p l,
      fst (path_call pkey krepr_pkey ls (pw_cache pkey w) (str_args f1 t2)) = PStr (Some p) /\
      fst (path_call pkey krepr_pkey ls (pw_cache pkey w) (list_args f2 p2 t2)) = PList l /\
      parse p = Some (norm l).
Proof. exact list_form_is_parse_of_string_form. Qed.

(* ... and it is the key sequence itself, with no guard *)
Theorem C09_list_form_is_key_sequence :
  forall (ks : path) (ops : list (pop pkey)) (f : force_t) (p t2 : bool),
    let w := snd (prun pkey krepr_pkey (links_of ks) (mk_pworld [] []) ops) in
    fst (path_call pkey krepr_pkey (links_of ks) (pw_cache pkey w) (list_args f p t2)) = PList ks.
Proof. exact list_form_is_key_sequence. Qed.

(** _path_to_elements and its lru_cache (where finding F9 lived).  [lstep] is one operation of a trace:
    a call with a str (memoised on (path, root_element), LRU eviction at maxsize), a call with a tuple /
    list object (returned as it is), the caller building a list / tuple, the caller rewriting an object in
    place (possible on lists only).  For every element type, root-element embedding, parser (also one that
    raises), maxsize and trace: every str call returns a TUPLE whose content is what the uncached function
    computes ([lret_ok]); in particular no caller can change what later callers get. *)
Theorem C09_lru_cache_transparent :
  forall (E : Type) (mk_root : pystr * action -> E) (parse_raw : pystr -> option (list E)) (maxsize : nat)
         (ops : list (lop E)),
    ltrace_ok E mk_root parse_raw maxsize (lw_init E) ops.
Proof. intros E mk_root parse_raw maxsize ops. apply lrun_ok. apply lw_inv_init. Qed.

(* the variant that cached and returned the list itself (finding F9) is refuted by the trace
   "call, the caller empties the result, call again" *)
Theorem C09_lru_cache_list_variant_refuted :
  nth 2%nat (fst (lrun_gen element mk_root_el parse_raw_el 8 true (lw_init element) f9_trace)) LNone
  = LRet 0%nat (HList [])
  /\ pte_pure element mk_root_el parse_raw_el root1 None = Some [(AInt 1, GET)].
Proof. exact f9_variant_refuted. Qed.

(** parse_path / stringify_path with all their arguments (Path/PathActsModel.v). *)
(* the has_actions sniffing never takes a key list for an element list, whatever the first key is *)
Theorem C09_has_actions_keys : forall keys : list atom, has_actions (map SPKey keys) = false.
Proof. exact has_actions_keys. Qed.
Theorem C09_has_actions_pairs :
  forall (a : atom) (act : action) (r : list sp_item), has_actions (SPPair a act :: r) = true.
Proof. exact has_actions_pairs. Qed.

(* parse_path does not depend on root_element (it is put in front and taken away again) *)
Theorem C09_parse_path_root_element_irrelevant :
  forall (p : pystr) (re : rootarg) (incl : bool), parse_path_full p re incl = parse_path_full p None incl.
Proof. exact parse_path_full_root. Qed.

(* include_actions=True on a reported path: every key with action GET; stringify_path of those pairs
   is the reported path, whatever the root's action *)
Theorem C09_parse_path_actions_partial :
  forall (ks : path) (re : rootarg), path_ok ks = true ->
    parse_path_full (render ks) re true = Some (PPDicts (map (fun k => (key_atom k, GET)) ks)).
Proof. exact parse_path_actions_render. Qed.

Theorem C09_stringify_inverts_parse_actions_partial :
  forall (ks : path) (re : rootarg) (ract : action), path_ok ks = true ->
    match parse_path_full (render ks) re true with
    | Some (PPDicts els) => stringify_path_gen (pairs_of els) (root_str, ract) QS = Some (render ks)
    | _ => False
    end.
Proof. exact stringify_inverts_parse_actions. Qed.

(* the two readings of stringify_path above are the instances of the general function *)
Theorem C09_stringify_path_gen_keys :
  forall (ks : path) (first : action),
    stringify_path_gen (map SPKey (map key_atom ks)) (root_str, first) QS = Some (stringify_keys first ks).
Proof. exact stringify_path_gen_keys. Qed.

(* with BOTH defaults (root_element=('root', GETATTR)) stringify_path(parse_path(p)) prints the first key
   as an attribute - root.a['b'] for root['a']['b'] - so it inverts parse_path on NO reported path below
   the root (observation ACT1; the readings above pass root_element=('root','GET') as Delta does) *)
Theorem C09_stringify_default_root_partial :
  forall (k : pkey) (r : path), path_ok (k :: r) = true ->
    match parse_path_full (render (k :: r)) DEFAULT_FIRST_ELEMENT false with
    | Some (PPKeys keys) =>
        stringify_path_gen (map SPKey keys) (root_str, GETATTR) QS
        = Some (root_str ++ [cDOT] ++ str_atom (key_atom k) ++ flat_map render_key r)
    | _ => False
    end.
Proof. exact stringify_default_root. Qed.

Theorem C09_stringify_inverts_parse_defaults_refuted :
  forall (k : pkey) (r : path), path_ok (k :: r) = true ->
    forall keys, parse_path_full (render (k :: r)) DEFAULT_FIRST_ELEMENT false = Some (PPKeys keys) ->
      stringify_path_gen (map SPKey keys) (root_str, GETATTR) QS <> Some (render (k :: r)).
Proof. exact stringify_default_root_refuted. Qed.

Print Assumptions C09_path_cache_key_injective.
Print Assumptions C09_path_cache_transparent.
Print Assumptions C09_path_lists_are_new_objects.
Print Assumptions C09_path_cache_never_confused.
Print Assumptions C09_path_string_form_is_render_of_list_form.
Print Assumptions C09_list_form_is_parse_of_string_form_partial.
Print Assumptions C09_list_form_is_key_sequence.
Print Assumptions C09_lru_cache_transparent.
Print Assumptions C09_lru_cache_list_variant_refuted.
Print Assumptions C09_has_actions_keys.
Print Assumptions C09_has_actions_pairs.
Print Assumptions C09_parse_path_root_element_irrelevant.
Print Assumptions C09_parse_path_actions_partial.
Print Assumptions C09_stringify_inverts_parse_actions_partial.
Print Assumptions C09_stringify_path_gen_keys.
Print Assumptions C09_stringify_default_root_partial.
Print Assumptions C09_stringify_inverts_parse_defaults_refuted.

(* ------------------------------------------------------------------ *)
(** EVERY float and EVERY int as a key (Path/PathLit.v, Path/PathXModel.v).
    Keys are [pval]s: None, bool, int, float given as sign and magnitude m * 2^e (any binary64 value,
    -0.0, inf) or nan, str, bytes; [renderx] is DiffLevel.path() with the self check of stringify_param
    (Some (Some p) = the string p, Some None = path() returns None, None = it raises), float repr is the
    shortest-digits algorithm with Python's fixed / exponent notation; [elementsx] is the parser with
    literal_eval modelled on EVERY text (tokenizer, expression grammar, _convert, decimal -> binary64).
    Guard [xpath_ok]: C09's guard on str / bytes keys, ints of at most 4300 digits, floats that are
    finite and whose repr text reads back as the same float ([float_text_ok]: decidable, checked on
    every float of every run; for all floats it would need "17 significant digits suffice"). *)
Theorem C09_all_keys_elements_partial :
  forall ks : list xkey, xpath_ok ks = true ->
    exists p, renderx ks = Some (Some p) /\ elementsx p = XDone (xels_of ks).
Proof. exact elementsx_renderx. Qed.

Theorem C09_all_keys_stringify_inverts_partial :
  forall ks : list xkey, xpath_ok ks = true ->
    exists p, renderx ks = Some (Some p) /\ elementsx p = XDone (xels_of ks) /\ stringify_xels (xels_of ks) = Some p.
Proof. exact stringify_inverts_elementsx. Qed.

Theorem C09_all_keys_render_inj_partial :
  forall (ks1 ks2 : list xkey) (p : pystr), xpath_ok ks1 = true -> xpath_ok ks2 = true ->
    renderx ks1 = Some (Some p) -> renderx ks2 = Some (Some p) -> xels_of ks1 = xels_of ks2.
Proof. exact renderx_inj. Qed.

(* outside the guard: inf, -inf and nan are floats and legal dict keys, but a location below such a key has
   NO path string (path() returns None; finding K7) *)
Theorem C09_nonfinite_float_key_refuted :
  (forall neg : bool, renderx [XKey (PvFloat neg FInf)] = Some None) /\ renderx [XNan] = Some None.
Proof. split; [exact inf_key_no_path|exact nan_key_no_path]. Qed.
Theorem C09_no_path_below_unrepresentable_key :
  forall (k : xkey) (r : list xkey), krepr_x k = KNoPath -> renderx (k :: r) = Some None.
Proof. exact no_path_below. Qed.

(* outside the guard: for EVERY int key of more than 4300 digits path() raises (repr; finding K8) *)
Theorem C09_huge_int_key_raises :
  forall (z : Z) (r : list xkey), (10 ^ 4300 <= Z.abs z)%Z -> renderx (XKey (PvInt z) :: r) = None.
Proof. exact huge_int_key_raises. Qed.

(* the guard is satisfiable by floats in every notation:
   root[1e+16][1e-05][0.1][-0.0][1.7976931348623157e+308][5e-324][1.2345678901234568e+17][0.30000000000000004][10^29]["a'b]["][3] *)
Example C09_all_keys_guard_satisfiable :
  xpath_ok exotic_path = true /\ List.length exotic_path = 11%nat.
Proof. split; [exact exotic_path_ok|reflexivity]. Qed.

Print Assumptions C09_all_keys_elements_partial.
Print Assumptions C09_all_keys_stringify_inverts_partial.
Print Assumptions C09_all_keys_render_inj_partial.
Print Assumptions C09_nonfinite_float_key_refuted.
Print Assumptions C09_no_path_below_unrepresentable_key.
Print Assumptions C09_huge_int_key_raises.

(* ------------------------------------------------------------------ *)
(** EXTENSION beyond the property's stated domain: paths through INSTANCES OF CLASSES.
    [opath] (Obj/ObjValue.v): dict key / sequence index / attribute name; [orender] (Obj/ObjText.v) is
    the text DiffLevel.path() prints (AttributeRelationship: ".name"), [oelement] the element with its
    action (GET for keys and indexes, GETATTR for attribute names) and [oextract] deepdiff.extract
    with getattr steps; tied to the code by the extension stream of harness/objcommon.py.
    Guard [opath_ok] (Obj/ObjPathText.v): C09's guard on the keys, and attribute names that are ASCII
    identifiers (an ASCII letter or underscore, then ASCII letters, digits, underscores) other than None / True / False and not starting with two
    underscores. *)
From DD Require Obj.ObjValue Obj.ObjText Obj.ObjPathText.

(* _path_to_elements gives back every element with its action *)
Theorem C09_objects_elements_partial :
  forall p : Obj.ObjValue.opath, Obj.ObjPathText.opath_ok p = true ->
    elements (Obj.ObjText.orender p) = Some (map Obj.ObjText.oelement p).
Proof. exact Obj.ObjPathText.oelements_render. Qed.

(* in ANY object: extracting by the reported text = following keys, indexes and attribute names *)
Theorem C09_objects_extract_partial :
  forall (root : Obj.ObjValue.ovalue) (p : Obj.ObjValue.opath), Obj.ObjPathText.opath_ok p = true ->
    Obj.ObjText.oextract root (Obj.ObjText.orender p) = Obj.ObjValue.oresolve root p.
Proof. exact Obj.ObjPathText.oextract_render. Qed.

(* stringify_path(parse_path(text, include_actions=True)) is the text *)
Theorem C09_objects_stringify_inverts_elements_partial :
  forall p : Obj.ObjValue.opath, Obj.ObjPathText.opath_ok p = true ->
    option_map stringify_els (elements (Obj.ObjText.orender p)) = Some (Obj.ObjText.orender p).
Proof. exact Obj.ObjPathText.ostringify_inverts_elements. Qed.

(* distinct locations get distinct path texts (elements and actions; the int key i and the index i are one element) *)
Theorem C09_objects_render_inj_partial :
  forall p1 p2 : Obj.ObjValue.opath, Obj.ObjPathText.opath_ok p1 = true -> Obj.ObjPathText.opath_ok p2 = true ->
    Obj.ObjText.orender p1 = Obj.ObjText.orender p2 -> map Obj.ObjText.oelement p1 = map Obj.ObjText.oelement p2.
Proof. exact Obj.ObjPathText.orender_inj. Qed.

(* outside the guard: an attribute whose name starts with two underscores (reported under
   ignore_private_variables=False) is dropped by the parser, and extract returns the PARENT object
   (observation OBJ3); an attribute whose name is a Python literal (possible through setattr /
   __dict__) is evaluated, and getattr raises (observation OBJ4) *)
Theorem C09_objects_extract_refuted_private_attribute :
  elements (Obj.ObjText.orender Obj.ObjPathText.priv_attr) = Some [] /\
  Obj.ObjValue.oresolve Obj.ObjPathText.priv_obj Obj.ObjPathText.priv_attr = Some (Obj.ObjValue.OAtom (AInt 1)) /\
  Obj.ObjText.oextract Obj.ObjPathText.priv_obj (Obj.ObjText.orender Obj.ObjPathText.priv_attr) = Some Obj.ObjPathText.priv_obj.
Proof. exact Obj.ObjPathText.private_attr_refuted. Qed.

Theorem C09_objects_extract_refuted_literal_attribute :
  elements (Obj.ObjText.orender Obj.ObjPathText.lit_attr) = Some [(AInt 1, GETATTR)] /\
  Obj.ObjValue.oresolve Obj.ObjPathText.lit_obj Obj.ObjPathText.lit_attr = Some (Obj.ObjValue.OAtom (AInt 5)) /\
  Obj.ObjText.oextract Obj.ObjPathText.lit_obj (Obj.ObjText.orender Obj.ObjPathText.lit_attr) = None.
Proof. exact Obj.ObjPathText.literal_attr_refuted. Qed.

(* the guard is satisfiable: a quoted key, then .x._y1[3].Name[-2][None].z *)
Example C09_objects_guard_satisfiable :
  Obj.ObjPathText.opath_ok Obj.ObjPathText.mixed_path = true /\ List.length Obj.ObjPathText.mixed_path = 8%nat.
Proof. split; reflexivity. Qed.

Print Assumptions C09_objects_elements_partial.
Print Assumptions C09_objects_extract_partial.
Print Assumptions C09_objects_stringify_inverts_elements_partial.
Print Assumptions C09_objects_render_inj_partial.
Print Assumptions C09_objects_extract_refuted_private_attribute.
Print Assumptions C09_objects_extract_refuted_literal_attribute.

(** C09 - path strings round-trip: report -> extract / parse_path -> same location.
    Final statements only (proofs in Path/PathProofs.v, Path/PathLex.v).

    render   = the path string DeepDiff reports (DiffLevel.path / get_param_repr / stringify_element)
    parse    = deepdiff.parse_path           elements = _path_to_elements(p, root_element=None)
    extract  = deepdiff.extract              resolve  = following the keys in the object
    norm ks  = ks with a sequence index i read as the int key i (Python prints both as root[i]) *)
From Coq Require Import List ZArith NArith Bool.
Import ListNotations.
From DD Require Import Base.PyStr Base.Value Path.PathModel Path.PathLex Path.PathProofs Path.PathTight.

(* --- parse_path returns exactly the key sequence with the original key types ---------- *)
(* full strength (every key sequence) is false of the faithful model: *)
Theorem C09_parse_render_refuted_both_quotes :
  exists ks, parse (render ks) <> Some (norm ks).
Proof. exists k5_key. exact both_quotes_refuted. Qed.
Theorem C09_parse_render_refuted_escape_char :
  exists ks, parse (render ks) <> Some (norm ks).
Proof. exists k6_key. exact escape_char_refuted. Qed.

(* guard: no str key with both quote characters, no str key ending in U+1D1C0,
   floats are exact doubles below 2^52, bytes keys only when their repr needs no escape *)
Theorem C09_parse_render_partial :
  forall ks : path, path_ok ks = true -> parse (render ks) = Some (norm ks).
Proof. exact parse_render. Qed.

Theorem C09_parse_render_keys_partial :
  forall ks : path, path_ok ks = true ->
    forallb (fun k => match k with PKey _ => true | PIdx _ => false end) ks = true ->
    parse (render ks) = Some ks.
Proof. intros ks H1 H2. rewrite (parse_render ks H1). f_equal. now apply norm_keys_only. Qed.

Theorem C09_elements_partial :
  forall ks : path, path_ok ks = true ->
    elements (render ks) = Some (map (fun k => (key_atom k, GET)) ks).
Proof. exact elements_render. Qed.

(* --- the reported path extracts exactly that location's object ------------------------ *)
Theorem C09_extract_refuted_both_quotes :
  exists ks v, extract (nest ks v) (render ks) <> Some v.
Proof. exists k5_key, (VAtom (AInt 1)). rewrite both_quotes_extract_refuted. discriminate. Qed.
Theorem C09_extract_refuted_escape_char :
  exists ks v, extract (nest ks v) (render ks) <> Some v.
Proof. exists k6_key, (VAtom (AInt 1)). rewrite escape_char_extract_refuted. discriminate. Qed.

(* in ANY object: extracting by the reported string = following the keys *)
Theorem C09_extract_partial :
  forall (root : value) (ks : path), path_ok ks = true -> extract root (render ks) = resolve root ks.
Proof. exact extract_render. Qed.

Theorem C09_extract_nest_partial :
  forall (ks : path) (v : value), path_ok ks = true -> extract (nest ks v) (render ks) = Some v.
Proof. exact extract_nest. Qed.

(* --- stringify_path inverts parse_path (on reported paths, both readings) -------------- *)
(* not an inverse on arbitrary strings (root[ 1] -> root[1]): only reported paths are claimed *)
Theorem C09_stringify_inverts_refuted_arbitrary_string :
  exists p, option_map stringify_els (elements p) <> Some p /\ elements p <> None.
Proof. exact stringify_not_inverse_everywhere. Qed.

Theorem C09_stringify_inverts_elements_partial :
  forall ks : path, path_ok ks = true ->
    option_map stringify_els (elements (render ks)) = Some (render ks).
Proof. exact stringify_inverts_elements. Qed.

Theorem C09_stringify_inverts_parse_partial :
  forall ks : path, path_ok ks = true ->
    option_map (stringify_keys GET) (parse (render ks)) = Some (render ks).
Proof. exact stringify_inverts_parse. Qed.

Theorem C09_parse_stringify_partial :
  forall ks : path, path_ok ks = true -> parse (stringify_keys GET ks) = Some (norm ks).
Proof. exact parse_stringify. Qed.

(* stringify_path(keys) prints exactly what DeepDiff reports, for every key sequence *)
Theorem C09_stringify_is_render :
  forall ks : path, stringify_keys GET ks = render ks.
Proof. exact stringify_keys_GET. Qed.

(* --- distinct locations get distinct path strings -------------------------------------- *)
Theorem C09_render_inj_partial :
  forall ks1 ks2 : path, path_ok ks1 = true -> path_ok ks2 = true ->
    render ks1 = render ks2 -> norm ks1 = norm ks2.
Proof. exact render_inj. Qed.

(* --- the guard on str keys is necessary, and exact outside the overlap of the two defects -- *)
(* K6 for every such key: the parser returns the bracket text with its quotes and "]" *)
Theorem C09_guard_necessary_escape_char :
  forall s' : pystr, let s := s' ++ [cESC] in
    has_char cSQ s && has_char cDQ s = false ->
    parse (render [PKey (AStr s)]) <> Some [PKey (AStr s)].
Proof. exact escape_last_fails. Qed.

(* K5 for every such key *)
Theorem C09_guard_necessary_both_quotes :
  forall s : pystr, has_char cSQ s = true -> has_char cDQ s = true -> has_char cESC s = false ->
    parse (render [PKey (AStr s)]) <> Some [PKey (AStr s)].
Proof. exact both_quotes_fails. Qed.

Theorem C09_guard_exact_no_escape_char :
  forall s : pystr, has_char cESC s = false ->
    (parse (render [PKey (AStr s)]) = Some [PKey (AStr s)] <-> str_ok s = true).
Proof. exact guard_exact_no_esc. Qed.

Theorem C09_guard_exact_one_quote_kind :
  forall s : pystr, has_char cSQ s && has_char cDQ s = false ->
    (parse (render [PKey (AStr s)]) = Some [PKey (AStr s)] <-> str_ok s = true).
Proof. exact guard_exact_one_quote_kind. Qed.

(* --- the guard is satisfiable by hostile keys ------------------------------------------ *)
Example C09_guard_satisfiable : path_ok hostile_path = true /\ List.length hostile_path = 10%nat.
Proof. split; reflexivity. Qed.

Print Assumptions C09_parse_render_refuted_both_quotes.
Print Assumptions C09_parse_render_refuted_escape_char.
Print Assumptions C09_parse_render_partial.
Print Assumptions C09_parse_render_keys_partial.
Print Assumptions C09_elements_partial.
Print Assumptions C09_extract_refuted_both_quotes.
Print Assumptions C09_extract_refuted_escape_char.
Print Assumptions C09_extract_partial.
Print Assumptions C09_extract_nest_partial.
Print Assumptions C09_stringify_inverts_refuted_arbitrary_string.
Print Assumptions C09_stringify_inverts_elements_partial.
Print Assumptions C09_stringify_inverts_parse_partial.
Print Assumptions C09_parse_stringify_partial.
Print Assumptions C09_stringify_is_render.
Print Assumptions C09_render_inj_partial.
Print Assumptions C09_guard_necessary_escape_char.
Print Assumptions C09_guard_necessary_both_quotes.
Print Assumptions C09_guard_exact_no_escape_char.
Print Assumptions C09_guard_exact_one_quote_kind.

(* ------------------------------------------------------------------ *)
(** EXTENSION beyond the property's stated domain: paths through INSTANCES OF CLASSES.
    [opath] (Obj/ObjValue.v): dict key / sequence index / attribute name; [orender] (Obj/ObjText.v) is
    the text DiffLevel.path() prints (AttributeRelationship: ".name"), [oelement] the element with its
    action (GET for keys and indexes, GETATTR for attribute names) and [oextract] deepdiff.extract
    with getattr steps; tied to the code by the extension stream of harness/objcommon.py.
    Guard [opath_ok] (Obj/ObjPathText.v): C09's guard on the keys, and attribute names that are ASCII
    identifiers (an ASCII letter or underscore, then ASCII letters, digits, underscores) other than None / True / False and not starting with two
    underscores. *)
From DD Require Obj.ObjValue Obj.ObjText Obj.ObjPathText.

(* _path_to_elements gives back every element with its action *)
Theorem C09_objects_elements_partial :
  forall p : Obj.ObjValue.opath, Obj.ObjPathText.opath_ok p = true ->
    elements (Obj.ObjText.orender p) = Some (map Obj.ObjText.oelement p).
Proof. exact Obj.ObjPathText.oelements_render. Qed.

(* in ANY object: extracting by the reported text = following keys, indexes and attribute names *)
Theorem C09_objects_extract_partial :
  forall (root : Obj.ObjValue.ovalue) (p : Obj.ObjValue.opath), Obj.ObjPathText.opath_ok p = true ->
    Obj.ObjText.oextract root (Obj.ObjText.orender p) = Obj.ObjValue.oresolve root p.
Proof. exact Obj.ObjPathText.oextract_render. Qed.

(* stringify_path(parse_path(text, include_actions=True)) is the text *)
Theorem C09_objects_stringify_inverts_elements_partial :
  forall p : Obj.ObjValue.opath, Obj.ObjPathText.opath_ok p = true ->
    option_map stringify_els (elements (Obj.ObjText.orender p)) = Some (Obj.ObjText.orender p).
Proof. exact Obj.ObjPathText.ostringify_inverts_elements. Qed.

(* distinct locations get distinct path texts (elements and actions; the int key i and the index i are one element) *)
Theorem C09_objects_render_inj_partial :
  forall p1 p2 : Obj.ObjValue.opath, Obj.ObjPathText.opath_ok p1 = true -> Obj.ObjPathText.opath_ok p2 = true ->
    Obj.ObjText.orender p1 = Obj.ObjText.orender p2 -> map Obj.ObjText.oelement p1 = map Obj.ObjText.oelement p2.
Proof. exact Obj.ObjPathText.orender_inj. Qed.

(* outside the guard: an attribute whose name starts with two underscores (reported under
   ignore_private_variables=False) is dropped by the parser, and extract returns the PARENT object
   (observation OBJ3); an attribute whose name is a Python literal (possible through setattr /
   __dict__) is evaluated, and getattr raises (observation OBJ4) *)
Theorem C09_objects_extract_refuted_private_attribute :
  elements (Obj.ObjText.orender Obj.ObjPathText.priv_attr) = Some [] /\
  Obj.ObjValue.oresolve Obj.ObjPathText.priv_obj Obj.ObjPathText.priv_attr = Some (Obj.ObjValue.OAtom (AInt 1)) /\
  Obj.ObjText.oextract Obj.ObjPathText.priv_obj (Obj.ObjText.orender Obj.ObjPathText.priv_attr) = Some Obj.ObjPathText.priv_obj.
Proof. exact Obj.ObjPathText.private_attr_refuted. Qed.

Theorem C09_objects_extract_refuted_literal_attribute :
  elements (Obj.ObjText.orender Obj.ObjPathText.lit_attr) = Some [(AInt 1, GETATTR)] /\
  Obj.ObjValue.oresolve Obj.ObjPathText.lit_obj Obj.ObjPathText.lit_attr = Some (Obj.ObjValue.OAtom (AInt 5)) /\
  Obj.ObjText.oextract Obj.ObjPathText.lit_obj (Obj.ObjText.orender Obj.ObjPathText.lit_attr) = None.
Proof. exact Obj.ObjPathText.literal_attr_refuted. Qed.

(* the guard is satisfiable: a quoted key, then .x._y1[3].Name[-2][None].z *)
Example C09_objects_guard_satisfiable :
  Obj.ObjPathText.opath_ok Obj.ObjPathText.mixed_path = true /\ List.length Obj.ObjPathText.mixed_path = 8%nat.
Proof. split; reflexivity. Qed.

Print Assumptions C09_objects_elements_partial.
Print Assumptions C09_objects_extract_partial.
Print Assumptions C09_objects_stringify_inverts_elements_partial.
Print Assumptions C09_objects_render_inj_partial.
Print Assumptions C09_objects_extract_refuted_private_attribute.
Print Assumptions C09_objects_extract_refuted_literal_attribute.
